(* WantMixedLinkType = false: only packets of interfaces with the link type of the first interface
   are returned; a packet of another link type is skipped, or — with ErrorOnMismatchingLinkType —
   ends the reading with ErrNgLinkTypeMismatch (class 3). *)
From GP Require Import Base NgModel NgIoProofs NgExec NgRoundtrip NgFile.
From Coq Require Import Lia ZifyBool ZifyNat.
Open Scope Z_scope.

Ltac sim := cbn [r_ifaces r_ci r_blen r_ocode r_oval r_ocap r_big r_btyp r_link r_first r_pcap r_ancil r_names r_nsec r_active r_sect
                 set_block set_blen set_opt set_ifaces set_link set_section set_ci set_ancil set_pcap set_names
                 fst snd ci_if ci_cap ci_len ci_ts core] in *.

(* what the reader returns for a script: the packets, and the class of the terminal result if the
   script is all there is (1 = io.EOF, 3 = ErrNgLinkTypeMismatch) *)
Fixpoint exp_unmixed (errmis : bool) (l0 : Z) (ws : list wiface) (ops : list wop) : list pkt * Z :=
  match ops with
  | [] => ([], 1)
  | WAddIf w :: t => exp_unmixed errmis l0 (ws ++ [w]) t
  | WPacket ifid ts caplen len data o :: t =>
    if link_at ws ifid =? l0
    then (mkPkt (mkCi ifid (ts / E9, ts mod E9) caplen len) (-1) data o :: fst (exp_unmixed errmis l0 ws t),
          snd (exp_unmixed errmis l0 ws t))
    else if errmis then ([], 3) else exp_unmixed errmis l0 ws t
  | _ :: t => exp_unmixed errmis l0 ws t
  end.

Definition sinvu (l0 : Z) (ws : list wiface) (s : rst) : Prop := sinv ws s /\ r_link s = l0.

Lemma rpg_epb_skip ro F g s ifid ts caplen len data o rest :
  ro_mixed ro = false -> r_big s = false -> wf_packet (r_ifaces s) ifid ts caplen len data o ->
  (forall i, nth_error (r_ifaces s) (Z.to_nat ifid) = Some i -> if_link i <> r_link s) ->
  exists s', r_big s' = false /\ r_ifaces s' = r_ifaces s /\ r_link s' = r_link s
    /\ exec (readPacketG ro F (S g)) s (enc_epb ifid ts caplen len data o ++ rest)
        = if ro_errmis ro then ((s', Err 3), rest) else exec (readPacketG ro F g) s' rest.
Proof.
  intros Hmix Hbig Hwf Hl. destruct (exec_epb_skip ro F g s ifid ts caplen len data o rest Hmix Hbig Hwf Hl)
    as (s' & P1 & P2 & P3 & _ & E).
  exists s'. repeat split; auto. unfold readPacketG. rewrite !exec_bind, E. destruct (ro_errmis ro); reflexivity.
Qed.

(* the other block lemmas keep the wanted link type *)
Lemma rpg_idb_link ro F g s w rest :
  r_big s = false -> wif_ok w -> (length (idb_options w) < F)%nat ->
  exists s', r_big s' = false /\ r_ifaces s' = r_ifaces s ++ [iface_of w] /\ r_link s' = r_link s
    /\ exec (readPacketG ro F (S g)) s (enc_idb w ++ rest) = exec (readPacketG ro F g) s' rest.
Proof.
  intros Hbig Hw HF. destruct (hdr_idb ro F g s w rest Hbig Hw HF) as (s' & P1 & P2 & P3 & _ & _ & _ & E).
  exists s'. repeat split; auto. unfold readPacketG. rewrite !exec_bind, E. reflexivity.
Qed.

Lemma nth_iface ws s ifid : map clear_stats (r_ifaces s) = map iface_of ws -> 0 <= ifid < zlen ws ->
  exists i, nth_error (r_ifaces s) (Z.to_nat ifid) = Some i.
Proof.
  intros Hifs Hid. destruct (nth_error (r_ifaces s) (Z.to_nat ifid)) eqn:E; [eauto|]. apply nth_error_None in E.
  assert (length (r_ifaces s) = length ws) by (rewrite <- (map_length clear_stats), Hifs, map_length; reflexivity).
  unfold zlen in Hid. lia.
Qed.

(* one call of the packet read, only the link type l0 wanted *)
Lemma one_read_u ro F l0 : ro_mixed ro = false -> forall ops ws s g tail,
  (length ops < g)%nat -> sinvu l0 ws s -> ops_ok ws ops -> fuel_ok F ops ->
  exists ws' s', sinvu l0 ws' s' /\
  match exp_unmixed (ro_errmis ro) l0 ws ops with
  | ([], c) => (c = 3 /\ exists l', exec (readPacketG ro F g) s (enc_ops ops ++ tail) = ((s', Err 3), l'))
               \/ (c = 1 /\ exec (readPacketG ro F g) s (enc_ops ops ++ tail) = exec (readPacketG ro F (g - length ops)) s' tail
                   /\ ws' = ws_after ws ops)
  | (p :: ps, c) => exists t, exec (readPacketG ro F g) s (enc_ops ops ++ tail) = ((s', Ok p), enc_ops t ++ tail)
                  /\ ops_ok ws' t /\ fuel_ok F t /\ exp_unmixed (ro_errmis ro) l0 ws' t = (ps, c) /\ (length t < length ops)%nat
                  /\ ws_after ws' t = ws_after ws ops
  end.
Proof.
  intros Hmix. induction ops as [|op t IH]; intros ws s g tail Hg Hs Hok HF.
  - exists ws, s. split; [exact Hs|]. cbn [exp_unmixed enc_ops map concat app length ws_after]. rewrite Nat.sub_0_r. right. auto.
  - destruct Hs as ((Hbig & Hifs) & Hlk). destruct HF as (HF12 & HFp). inversion HFp as [|? ? HF1 HFt]; subst.
    destruct g as [|g]; [cbn in Hg; lia|]. cbn [length] in Hg. assert (length t < g)%nat as Hg' by lia.
    (* a block absorbed by the loop: the rest of the script decides *)
    assert (forall ws1 s1, sinvu (r_link s) ws1 s1 -> ops_ok ws1 t -> ws_after ws1 t = ws_after ws (op :: t) ->
              exec (readPacketG ro F (S g)) s (enc_op op ++ enc_ops t ++ tail) = exec (readPacketG ro F g) s1 (enc_ops t ++ tail) ->
              exp_unmixed (ro_errmis ro) (r_link s) ws (op :: t) = exp_unmixed (ro_errmis ro) (r_link s) ws1 t ->
              exists ws' s', sinvu (r_link s) ws' s' /\
                match exp_unmixed (ro_errmis ro) (r_link s) ws (op :: t) with
                | ([], c) => (c = 3 /\ exists l', exec (readPacketG ro F (S g)) s (enc_ops (op :: t) ++ tail) = ((s', Err 3), l'))
                             \/ (c = 1 /\ exec (readPacketG ro F (S g)) s (enc_ops (op :: t) ++ tail) = exec (readPacketG ro F (S g - length (op :: t))) s' tail
                                 /\ ws' = ws_after ws (op :: t))
                | (p :: ps, c) => exists t0, exec (readPacketG ro F (S g)) s (enc_ops (op :: t) ++ tail) = ((s', Ok p), enc_ops t0 ++ tail)
                                /\ ops_ok ws' t0 /\ fuel_ok F t0 /\ exp_unmixed (ro_errmis ro) (r_link s) ws' t0 = (ps, c) /\ (length t0 < length (op :: t))%nat
                                /\ ws_after ws' t0 = ws_after ws (op :: t)
                end) as Absorb.
    { intros ws1 s1 Hs1 Hok1 Hwa E Eexp. rewrite Eexp.
      destruct (IH ws1 s1 g tail Hg' Hs1 Hok1 (conj HF12 HFt)) as (ws' & s' & Hs' & R).
      exists ws', s'. split; [exact Hs'|].
      unfold enc_ops at 1 2 3. cbn [map concat]. fold (enc_ops t). rewrite <- app_assoc. rewrite E.
      destruct (exp_unmixed (ro_errmis ro) (r_link s) ws1 t) as [[|p ps] c].
      - destruct R as [(Rc & l' & R)|(Rc & R & Rw)]; [left; eauto|right]. split; [exact Rc|]. split; [|congruence].
        rewrite R. cbn [length Nat.sub]. reflexivity.
      - destruct R as (t' & R1 & R2 & R3 & R4 & R5 & R6). exists t'.
        split; [exact R1|]. split; [exact R2|]. split; [exact R3|]. split; [exact R4|]. split; [cbn [length]; lia|congruence]. }
    destruct op as [w|ifid ts caplen len data o|ifid st|ty pl]; cbn [ops_ok] in Hok.
    + destruct Hok as (Hw & Hok).
      destruct (rpg_idb_link ro F g s w (enc_ops t ++ tail) Hbig Hw ltac:(pose proof (idb_options_len w); lia)) as (s1 & Q1 & Q2 & Q3 & E).
      apply (Absorb (ws ++ [w]) s1); auto.
      split; [split; [exact Q1|rewrite Q2, !map_app, Hifs; reflexivity]|congruence].
    + destruct Hok as (Hwf & Hok). rewrite <- Hifs in Hwf. apply wf_packet_clear in Hwf.
      pose proof Hwf as (_ & _ & _ & _ & _ & _ & _ & i & Ei & _).
      destruct (sinv_link ws s ifid i Hifs Ei) as (Hli & _).
      cbn [exp_unmixed]. destruct (link_at ws ifid =? r_link s) eqn:El.
      * (* wanted *)
        destruct (exec_epb_gen ro F g s ifid ts caplen len data o (enc_ops t ++ tail)) as (s' & i' & Ei' & E & Q1 & Q2 & Q3 & _); auto.
        { right. split; [exact Hmix|]. intros j Ej. rewrite Ej in Ei. inversion Ei; subst j. lia. }
        rewrite Hmix in E. exists ws, s'. split; [split; [split; [exact Q1|rewrite Q2; exact Hifs]|congruence]|].
        exists t. unfold enc_ops at 1. cbn [map concat enc_op]. fold (enc_ops t). rewrite <- app_assoc. rewrite E.
        split; [reflexivity|]. split; [exact Hok|]. split; [exact (conj HF12 HFt)|]. split; [destruct (exp_unmixed _ _ ws t); reflexivity|].
        split; [cbn [length]; lia|reflexivity].
      * (* another link type *)
        destruct (rpg_epb_skip ro F g s ifid ts caplen len data o (enc_ops t ++ tail) Hmix Hbig Hwf) as (s1 & Q1 & Q2 & Q3 & E).
        { intros j Ej. rewrite Ej in Ei. inversion Ei; subst j. lia. }
        destruct (ro_errmis ro) eqn:Herr.
        -- exists ws, s1. split; [split; [split; [exact Q1|rewrite Q2; exact Hifs]|congruence]|].
           left. split; [reflexivity|]. exists (enc_ops t ++ tail).
           unfold enc_ops at 1. cbn [map concat enc_op]. fold (enc_ops t). rewrite <- app_assoc. exact E.
        -- pose proof (Absorb ws s1) as A. cbn [exp_unmixed] in A. rewrite El in A.
           apply A; auto. split; [split; [exact Q1|rewrite Q2; exact Hifs]|congruence].
    + destruct Hok as (Hid & Hid2 & Hok).
      destruct (nth_iface ws s ifid Hifs Hid) as (i & Ei).
      destruct (sinv_link ws s ifid i Hifs Ei) as (_ & Hm & Hd).
      destruct (rpg_isb ro F g s ifid st i (enc_ops t ++ tail) Hbig ltac:(lia) Ei
                  ltac:(rewrite Hm; unfold E9; lia) ltac:(rewrite Hd; lia) ltac:(lia)) as (s1 & Q1 & Q2 & Q3 & E).
      apply (Absorb ws s1); auto. split; [split; [exact Q1|rewrite Q2; exact Hifs]|congruence].
    + destruct Hok as (_ & Hty & Hpl & Hok).
      destruct (rpg_dsb ro F g s ty pl (enc_ops t ++ tail) Hbig Hty Hpl) as (s1 & Q1 & Q2 & Q3 & E).
      apply (Absorb ws s1); auto. split; [split; [exact Q1|rewrite Q2; exact Hifs]|congruence].
Qed.

Definition tail_ends_u (ro : ropts) (F : nat) (l0 : Z) (wsf : list wiface) (tail : list Z) (c : Z) : Prop :=
  forall s g, sinvu l0 wsf s -> (0 < g)%nat -> exists s'' l'', exec (readPacketG ro F g) s tail = ((s'', Err c), l'').

Lemma tail_ends_u_nil ro F l0 wsf : tail_ends_u ro F l0 wsf [] 1.
Proof. intros s g _ Hg. destruct g as [|g]; [lia|]. rewrite rpg_eof. eauto. Qed.

Lemma read_all_script_u ro F l0 wsf c tail : ro_mixed ro = false -> tail_ends_u ro F l0 wsf tail c ->
  forall n ops ws s acc fuel,
  (length ops <= n)%nat -> (length ops < fuel)%nat -> (length ops < F)%nat ->
  sinvu l0 ws s -> ops_ok ws ops -> fuel_ok F ops -> ws_after ws ops = wsf ->
  exists s' l', run_d (read_all ro F fuel acc s) (enc_ops ops ++ tail)
    = ((rev acc ++ fst (exp_unmixed (ro_errmis ro) l0 ws ops),
        (if snd (exp_unmixed (ro_errmis ro) l0 ws ops) =? 3 then 3 else c), s'), l').
Proof.
  intros Hmix Htail. induction n as [|n IH]; intros ops ws s acc fuel Hn Hfuel HFl Hs Hok HF Hwa.
  - destruct ops; [|cbn in Hn; lia]. destruct fuel as [|f]; [cbn in Hfuel; lia|]. cbn [ws_after] in Hwa. subst wsf.
    cbn [read_all enc_ops map concat app exp_unmixed fst snd]. rewrite run_d_bind.
    change (run_d (readPacket ro F s) tail) with (exec (readPacketG ro F F) s tail).
    destruct (Htail s F Hs ltac:(lia)) as (s'' & l'' & E). rewrite E. cbn [snd fst run_d cls_of Z.eqb Pos.eqb].
    rewrite app_nil_r. eauto.
  - destruct fuel as [|f]; [lia|]. cbn [read_all]. rewrite run_d_bind.
    change (run_d (readPacket ro F s) (enc_ops ops ++ tail)) with (exec (readPacketG ro F F) s (enc_ops ops ++ tail)).
    destruct (one_read_u ro F l0 Hmix ops ws s F tail HFl Hs Hok HF) as (ws' & s1 & Hs1 & R).
    destruct (exp_unmixed (ro_errmis ro) l0 ws ops) as [[|p ps] cc] eqn:Ep; cbn [fst snd].
    + destruct R as [(Rc & l' & R)|(Rc & R & Rw)]; subst cc.
      * rewrite R. cbn [snd fst run_d cls_of Z.eqb Pos.eqb]. rewrite app_nil_r. eauto.
      * rewrite R. rewrite Rw, Hwa in Hs1.
        destruct (Htail s1 (F - length ops)%nat Hs1 ltac:(lia)) as (s'' & l'' & E). rewrite E.
        cbn [snd fst run_d cls_of Z.eqb Pos.eqb]. rewrite app_nil_r. eauto.
    + destruct R as (t & R1 & R2 & R3 & R4 & R5 & R6). rewrite R1. cbn [snd fst].
      destruct (IH t ws' s1 (p :: acc) f ltac:(lia) ltac:(lia) ltac:(lia) Hs1 R2 R3 ltac:(congruence)) as (s' & l' & E).
      rewrite E, R4. cbn [rev fst snd]. rewrite <- app_assoc. cbn [app]. eauto.
Qed.

(* ---------------------------------------------------------------- C14_ng_roundtrip, only the first link type wanted *)
Theorem roundtrip_file_u ro sec i0 ops :
  ro_mixed ro = false -> sec_ok sec -> ops_ok [] (WAddIf i0 :: ops) -> zlen ops < 4294967290 ->
  let r := write_cut_read ro sec i0 ops (length (write_file sec i0 ops)) in
  let e := exp_unmixed (ro_errmis ro) (wi_link i0) [i0] ops in
  fst (fst (fst r)) = 0 /\ snd (fst (fst r)) = fst e /\ snd (fst r) = snd e.
Proof.
  intros Hmix Hsec Hok Hb. cbv zeta. unfold write_cut_read. rewrite firstn_all. rewrite session_flat_d.
  destruct (write_file_shape sec i0 ops Hok Hb) as (Hfile & _). rewrite Hfile.
  destruct (script_sizes (WAddIf i0 :: ops) [] Hok) as (Sz1 & Sz2).
  cbn [ops_ok app] in Hok. destruct Hok as (Hw & Hok).
  unfold enc_ops in *. cbn [map concat enc_op] in *. fold (enc_ops ops) in *.
  destruct (enc_shb_shape sec Hsec) as (Eshb & HLs). cbv zeta in *.
  assert (28 <= zlen (enc_shb sec)) as Hshb.
  { rewrite Eshb. rewrite !zlen_app, !zlen_le_bytes. change (zlen [10;13;13;10]) with 4. change (zlen [77;60;43;26]) with 4.
    change (zlen shb_fixed) with 12. pose proof (zlen_nonneg (opts_enc (shb_options sec))). lia. }
  set (F := fuel_for (zlen (enc_shb sec ++ enc_idb i0 ++ enc_ops ops))).
  assert (Z.of_nat F = zlen (enc_shb sec) + zlen (enc_idb i0 ++ enc_ops ops) + 2) as HF
    by (unfold F, fuel_for; rewrite zlen_app; pose proof (zlen_nonneg (enc_idb i0 ++ enc_ops ops)); lia).
  pose proof (zlen_nonneg (enc_idb i0 ++ enc_ops ops)) as Hnn. clearbody F.
  assert (zlen (WAddIf i0 :: ops) = zlen ops + 1) as Hsl by (unfold zlen; cbn [length]; lia).
  inversion Sz2 as [|? ? _ Sz2']; subst.
  assert (fuel_ok F ops) as Hfo.
  { split; [lia|]. eapply Forall_impl; [|exact Sz2']. intros [] Ha; auto. unfold zlen in *. lia. }
  assert (length ops < F)%nat as HlF by (unfold zlen in *; lia).
  unfold session. rewrite run_d_bind.
  assert (12 < F)%nat as HF12 by lia.
  match goal with |- context [run_d (newReader ro F init_rst) ?l] => change (run_d (newReader ro F init_rst) l) with (exec (newReader ro F) init_rst l) end.
  destruct (exec_newReader_unmixed ro F sec i0 (enc_ops ops) Hmix Hsec Hw HF12) as (s0 & E0 & Q1 & Q2 & Q3 & Q4).
  rewrite E0. cbn [snd fst]. rewrite run_d_bind.
  assert (sinvu (wi_link i0) [i0] s0) as Hs0 by (split; [split; [exact Q1|rewrite Q2; reflexivity]|exact Q3]).
  destruct (read_all_script_u ro F (wi_link i0) _ 1 [] Hmix (tail_ends_u_nil ro F _ _) (length ops) ops [i0] s0 [] F
              (le_n _) HlF HlF Hs0 Hok Hfo eq_refl) as (s' & l' & E).
  rewrite app_nil_r in E. rewrite E. cbn [fst snd run_d rev app].
  repeat split; try reflexivity.
  destruct (snd (exp_unmixed (ro_errmis ro) (wi_link i0) [i0] ops) =? 3) eqn:E3; [lia|].
  clear -E3. revert E3. generalize [i0]. induction ops as [|op t IH]; intros ws E3; [reflexivity|].
  destruct op; cbn [exp_unmixed] in *; try (apply IH; exact E3).
  destruct (link_at ws ifid =? wi_link i0); cbn [snd] in *; [apply IH; exact E3|].
  destruct (ro_errmis ro); cbn [snd] in *; [discriminate|apply IH; exact E3].
Qed.
