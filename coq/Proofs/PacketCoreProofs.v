(* Lemmas about the packet-building framework model (Model/PacketCore.v):
   monotonicity of the builder, the lazy/eager simulation invariant (DESIGN.md A.6),
   fuel bound under the progress hypothesis, error-layer discipline. *)
From GP Require Import Base PacketCore.
From Coq Require Import Lia.
Open Scope Z_scope.

(* ------------------------------------------------------------------ side conditions on families *)
Definition is_add (a : action) : bool := match a with Add _ => true | _ => false end.
Definition has_add (acts : list action) : bool := existsb is_add acts.

Fixpoint last_add (acts : list action) (cur : option layer) : option layer :=
  match acts with
  | [] => cur
  | Add l :: rest => last_add rest (Some l)
  | _ :: rest => last_add rest cur
  end.

(* F6: a decoder that continues (calls NextDecoder) has added a layer first *)
Definition F6 (fam : family) : Prop :=
  forall t d data o acts t', fam t = Some d -> d data o = (acts, Next t') -> has_add acts = true.

(* progress: a decoder that continues has added a layer whose payload is strictly shorter than
   the data it was given (or empty: then NextDecoder stops) *)
Definition progress (fam : family) : Prop :=
  forall t d data o acts t', fam t = Some d -> d data o = (acts, Next t') ->
    exists l, last_add acts None = Some l /\
              ((length (l_payload l) < length data)%nat \/ l_payload l = []).

(* F2: no decoder calls SetErrorLayer *)
Definition is_seterr (a : action) : bool := match a with SetError _ => true | _ => false end.
Definition no_seterr (fam : family) : Prop :=
  forall t d data o acts term, fam t = Some d -> d data o = (acts, term) -> existsb is_seterr acts = false.

(* no decoder adds a layer that is a *DecodeFailure *)
Definition adds_fail (a : action) : bool := match a with Add l => l_fail l | _ => false end.
Definition no_fail_layers (fam : family) : Prop :=
  forall t d data o acts term, fam t = Some d -> d data o = (acts, term) -> existsb adds_fail acts = false.

(* ------------------------------------------------------------------ extension order on packets *)
Definition keeps (a b : option layer) : Prop := forall l, a = Some l -> b = Some l.

Record ext (p q : packet) : Prop := mkExt {
  ext_data : p_data q = p_data p;
  ext_origin : p_origin q = p_origin p;
  ext_opts : p_opts q = p_opts p;
  ext_layers : exists more, p_layers q = p_layers p ++ more;
  ext_trunc : p_trunc p = true -> p_trunc q = true;
  ext_link : keeps (p_link p) (p_link q);
  ext_network : keeps (p_network p) (p_network q);
  ext_transport : keeps (p_transport p) (p_transport q);
  ext_application : keeps (p_application p) (p_application q);
  ext_failure : keeps (p_failure p) (p_failure q)
}.

Lemma keeps_refl a : keeps a a. Proof. intros l H; exact H. Qed.
Lemma keeps_trans a b c : keeps a b -> keeps b c -> keeps a c.
Proof. intros H1 H2 l H. auto. Qed.
Lemma keeps_set_first a l : keeps a (set_first a l).
Proof. intros x H. subst a. reflexivity. Qed.

Lemma ext_refl p : ext p p.
Proof. constructor; auto using keeps_refl. exists []. now rewrite app_nil_r. Qed.

Lemma ext_trans p q r : ext p q -> ext q r -> ext p r.
Proof.
  intros [d1 o1 op1 [m1 l1] t1 a1 b1 c1 e1 f1] [d2 o2 op2 [m2 l2] t2 a2 b2 c2 e2 f2].
  constructor; try congruence; eauto using keeps_trans.
  exists (m1 ++ m2). rewrite l2, l1, app_assoc. reflexivity.
Qed.

Lemma ext_do_action p a : ext p (do_action p a).
Proof.
  destruct a; cbn; constructor; cbn; auto using keeps_refl, keeps_set_first;
    try (exists []; now rewrite app_nil_r).
  exists [l]. reflexivity.
Qed.

Lemma ext_run_actions acts p : ext p (run_actions acts p).
Proof.
  revert p. induction acts as [|a acts IH]; intros p; cbn.
  - apply ext_refl.
  - eapply ext_trans; [apply ext_do_action | apply IH].
Qed.

Lemma ext_add_final p : ext p (add_final_decode_error p).
Proof.
  unfold add_final_decode_error.
  eapply ext_trans; [apply (ext_do_action p (Add (mk_failure (rest_of p)))) |].
  apply (ext_do_action _ (SetError (mk_failure (rest_of p)))).
Qed.

Lemma ext_decode_step fam t data p p1 r : decode_step fam t data p = (p1, r) -> ext p p1.
Proof.
  unfold decode_step. destruct (fam t) as [d|].
  - destruct (d data (p_opts p)) as [acts term]. intros H. inversion H. apply ext_run_actions.
  - intros H. inversion H. apply ext_refl.
Qed.

Lemma ext_eager_decode fam fuel : forall t data p p' r,
  eager_decode fuel fam t data p = (p', r) -> ext p p'.
Proof.
  induction fuel as [|f IH]; intros t data p p' r H; cbn in H.
  - inversion H. apply ext_refl.
  - destruct (decode_step fam t data p) as [p1 s] eqn:E.
    pose proof (ext_decode_step _ _ _ _ _ _ E) as X.
    destruct s; try (inversion H; subst; exact X).
    destruct (p_last p1) as [l|]; [|inversion H; subst; exact X].
    destruct (l_payload l) eqn:EP; [inversion H; subst; exact X|].
    eapply ext_trans; [exact X|]. eapply IH. exact H.
Qed.

Lemma ext_finish pr pe p : fst pr = p -> finish_decode pr = NewOk pe -> ext p pe.
Proof.
  destruct pr as [q r]. cbn. intros <-. destruct r; cbn; intros H.
  - inversion H. apply ext_refl.
  - inversion H. apply ext_add_final.
  - destruct (o_skiprec (p_opts q)); inversion H. apply ext_add_final.
  - discriminate.
Qed.

(* ------------------------------------------------------------------ last added layer *)
Lemma last_run_actions acts : forall p, p_last (run_actions acts p) = last_add acts (p_last p).
Proof.
  induction acts as [|a acts IH]; intros p; cbn; [reflexivity|].
  rewrite IH. destruct a; reflexivity.
Qed.

Lemma last_add_some acts : forall cur, cur <> None -> last_add acts cur <> None.
Proof.
  induction acts as [|a acts IH]; intros cur H; cbn; [exact H|].
  destruct a; try (apply IH; exact H). apply IH. discriminate.
Qed.

Lemma last_add_has acts : forall cur, has_add acts = true -> last_add acts cur <> None.
Proof.
  induction acts as [|a acts IH]; intros cur H; cbn in *; [discriminate|].
  destruct a; cbn in H; try (apply IH; exact H).
  apply last_add_some. discriminate.
Qed.

Lemma last_add_indep acts : forall c1 c2 l, last_add acts None = Some l -> last_add acts c1 = last_add acts c2.
Proof.
  induction acts as [|a acts IH]; intros c1 c2 l H; cbn in *; [discriminate|].
  destruct a; try (eapply IH; exact H). reflexivity.
Qed.

(* ------------------------------------------------------------------ the simulation invariant *)
(* Continue eagerly from a lazy state: what the eager run does from the depth the lazy
   packet has reached. *)
Definition continue_eager (k : nat) (fam : family) (lp : lazy_packet) : nresult packet :=
  match lp_next lp with
  | None => NewOk (lp_p lp)
  | Some t =>
    match rest_of (lp_p lp) with
    | [] => NewOk (lp_p lp)
    | _ :: _ => finish_decode (eager_decode k fam t (rest_of (lp_p lp)) (lp_p lp))
    end
  end.

(* Inv: some continuation of depth <= n finishes in the eager packet pe *)
Definition CInv (n : nat) (fam : family) (lp : lazy_packet) (pe : packet) : Prop :=
  exists k, (k <= n)%nat /\ continue_eager k fam lp = NewOk pe.

Lemma continue_ext k fam lp pe : continue_eager k fam lp = NewOk pe -> ext (lp_p lp) pe.
Proof.
  unfold continue_eager. destruct (lp_next lp) as [t|].
  - destruct (rest_of (lp_p lp)) eqn:ER.
    + intros H; inversion H. apply ext_refl.
    + intros H. destruct (eager_decode k fam t (z :: l) (lp_p lp)) as [q r] eqn:E.
      eapply ext_trans; [eapply ext_eager_decode; exact E|].
      eapply ext_finish; [|exact H]. reflexivity.
  - intros H; inversion H. apply ext_refl.
Qed.

Lemma continue_done k fam lp pe : lp_next lp = None -> continue_eager k fam lp = NewOk pe -> lp_p lp = pe.
Proof. unfold continue_eager. intros ->. intros H; inversion H; reflexivity. Qed.

(* one decodeNextLayer = one unfolding of the eager recursion *)
Lemma lazy_step_sim fam (HF6 : F6 fam) k lp pe t :
  lp_next lp = Some t -> continue_eager k fam lp = NewOk pe ->
  exists lp', lazy_decode_next fam lp = (lp', false) /\
              continue_eager (pred k) fam lp' = NewOk pe /\ ext (lp_p lp) (lp_p lp').
Proof.
  intros Hn Hc. unfold continue_eager in Hc. unfold lazy_decode_next. rewrite Hn in *.
  destruct (rest_of (lp_p lp)) as [|b rest] eqn:ER.
  - exists (mkLazy (lp_p lp) None). split; [reflexivity|]. split; [exact Hc | apply ext_refl].
  - destruct k as [|f]; [cbn in Hc; discriminate|].
    cbn [eager_decode] in Hc. cbn [pred].
    destruct (decode_step fam t (b :: rest) (lp_p lp)) as [p1 s] eqn:ES.
    pose proof (ext_decode_step _ _ _ _ _ _ ES) as X.
    destruct s.
    + exists (mkLazy p1 None). split; [reflexivity|]. split; [exact Hc | exact X].
    + exists (mkLazy (add_final_decode_error p1) None). split; [reflexivity|]. split; [exact Hc|].
      eapply ext_trans; [exact X | apply ext_add_final].
    + cbn in Hc. destruct (o_skiprec (p_opts p1)); [discriminate|].
      exists (mkLazy (add_final_decode_error p1) None). split; [reflexivity|]. split; [exact Hc|].
      eapply ext_trans; [exact X | apply ext_add_final].
    + (* SNext: F6 gives p_last p1 <> None *)
      assert (HL : p_last p1 <> None).
      { unfold decode_step in ES. destruct (fam t) as [d|] eqn:EF; [|inversion ES].
        destruct (d (b :: rest) (p_opts (lp_p lp))) as [acts term] eqn:ED.
        inversion ES as [[E1 E2]]. destruct term; try discriminate. inversion E2; subst t1.
        rewrite last_run_actions. apply last_add_has. eapply HF6; eauto. }
      exists (mkLazy p1 (Some t0)). split; [reflexivity|]. split; [|exact X].
      unfold continue_eager. cbn [lp_next lp_p]. unfold rest_of.
      destruct (p_last p1) as [l|]; [|congruence].
      destruct (l_payload l) eqn:EP; exact Hc.
Qed.

Lemma CInv_step fam (HF6 : F6 fam) n lp pe t :
  lp_next lp = Some t -> CInv n fam lp pe ->
  exists lp', lazy_decode_next fam lp = (lp', false) /\ CInv n fam lp' pe /\ ext (lp_p lp) (lp_p lp').
Proof.
  intros Hn [k [Hk Hc]]. destruct (lazy_step_sim fam HF6 k lp pe t Hn Hc) as [lp' [H1 [H2 H3]]].
  exists lp'. split; [exact H1|]. split; [|exact H3]. exists (pred k). split; [lia | exact H2].
Qed.

(* the depth measure that bounds the loops: remaining eager recursion depth, +1 while a
   continuation is pending *)
Lemma lazy_loop_sim fam (HF6 : F6 fam) found pe : forall fuel k lp,
  (k < fuel)%nat -> continue_eager k fam lp = NewOk pe ->
  exists lp' k', lazy_loop fuel fam found lp = Some (lp', false) /\
     (k' <= k)%nat /\ continue_eager k' fam lp' = NewOk pe /\
     (found (lp_p lp') = true \/ lp_next lp' = None) /\
     (lp_next lp = None -> lp' = lp).
Proof.
  induction fuel as [|f IH]; intros k lp Hk Hc; [lia|].
  cbn [lazy_loop]. destruct (found (lp_p lp)) eqn:EF.
  - exists lp, k. repeat split; auto.
  - destruct (lp_next lp) as [t|] eqn:EN.
    + destruct (lazy_step_sim fam HF6 k lp pe t EN Hc) as [lp1 [H1 [H2 H3]]].
      rewrite H1.
      destruct k as [|k0].
      * (* the pending continuation sees an empty payload: next is cleared *)
        assert (lp_next lp1 = None).
        { unfold lazy_decode_next in H1. rewrite EN in H1.
          unfold continue_eager in Hc. rewrite EN in Hc.
          destruct (rest_of (lp_p lp)); [inversion H1; reflexivity | cbn in Hc; discriminate]. }
        exists lp1, 0%nat. split.
        { destruct f; cbn; rewrite H; destruct (found (lp_p lp1)); reflexivity. }
        repeat split; auto. discriminate.
      * cbn [pred] in H2.
        destruct (IH k0 lp1 ltac:(lia) H2) as [lp' [k' [A [B [C [D E]]]]]].
        exists lp', k'. repeat split; auto. discriminate.
    + exists lp, k. repeat split; auto.
Qed.

Lemma find_app_some {A} (f : A -> bool) l1 l2 x : find f l1 = Some x -> find f (l1 ++ l2) = Some x.
Proof. induction l1 as [|a l1 IH]; cbn; [discriminate|]. destruct (f a); auto. Qed.
Lemma find_app_none {A} (f : A -> bool) l1 l2 : find f l1 = None -> find f (l1 ++ l2) = find f l2.
Proof. induction l1 as [|a l1 IH]; cbn; [reflexivity|]. destruct (f a); [discriminate|auto]. Qed.

Lemma skipn_app_exact {A} (l1 l2 : list A) : skipn (length l1) (l1 ++ l2) = l2.
Proof. induction l1; cbn; auto. Qed.

Lemma lazy_find_loop_sim fam (HF6 : F6 fam) pred pe : forall fuel k lp,
  (k < fuel)%nat -> continue_eager k fam lp = NewOk pe ->
  find pred (p_layers (lp_p lp)) = None ->
  exists lp' k', lazy_find_loop fuel fam pred (length (p_layers (lp_p lp))) lp
                 = Some (lp', Some (find pred (p_layers pe))) /\
     (k' <= k)%nat /\ continue_eager k' fam lp' = NewOk pe /\ (lp_next lp = None -> lp' = lp).
Proof.
  induction fuel as [|f IH]; intros k lp Hk Hc Hnone; [lia|].
  cbn [lazy_find_loop]. destruct (lp_next lp) as [t|] eqn:EN.
  - destruct (lazy_step_sim fam HF6 k lp pe t EN Hc) as [lp1 [H1 [H2 H3]]].
    rewrite H1. destruct (ext_layers _ _ H3) as [more Hm].
    rewrite Hm, skipn_app_exact.
    destruct (find pred more) as [l|] eqn:EFm.
    + exists lp1, (Nat.pred k). repeat split; auto; try lia; try discriminate.
      destruct (ext_layers _ _ (continue_ext _ _ _ _ H2)) as [more2 Hm2].
      rewrite Hm2, Hm. erewrite find_app_some; [reflexivity|].
      rewrite find_app_none by exact Hnone. exact EFm.
    + assert (Hnone1 : find pred (p_layers (lp_p lp1)) = None).
      { rewrite Hm, find_app_none by exact Hnone. exact EFm. }
      destruct k as [|k0].
      * assert (lp_next lp1 = None).
        { unfold lazy_decode_next in H1. rewrite EN in H1.
          unfold continue_eager in Hc. rewrite EN in Hc.
          destruct (rest_of (lp_p lp)); [inversion H1; reflexivity | cbn in Hc; discriminate]. }
        exists lp1, 0%nat. rewrite <- Hm. split.
        { destruct f; cbn; rewrite H; rewrite <- (continue_done _ _ _ _ H H2), Hnone1; reflexivity. }
        repeat split; auto. discriminate.
      * cbn [Nat.pred] in H2. rewrite <- Hm.
        destruct (IH k0 lp1 ltac:(lia) H2 Hnone1) as [lp' [k' [A [B [C D]]]]].
        exists lp', k'. repeat split; auto. discriminate.
  - exists lp, k. split; [rewrite <- (continue_done _ _ _ _ EN Hc), Hnone; reflexivity|].
    split; [lia|]. split; [exact Hc|]. intros _; reflexivity.
Qed.

(* ------------------------------------------------------------------ every accessor *)
Definition forces_all (a : accessor) : bool :=
  match a with ALayers | AString | ADump => true | _ => false end.

Lemma lazy_kind_sim fam (HF6 : F6 fam) n lp pe (get : packet -> option layer) :
  (forall p q, ext p q -> keeps (get p) (get q)) ->
  CInv n fam lp pe ->
  exists lp', lazy_kind (S n) fam get lp = Some (lp', RLayer (get pe)) /\ CInv n fam lp' pe /\
              (lp_next lp = None -> lp' = lp).
Proof.
  intros Hget [k [Hk Hc]]. unfold lazy_kind.
  destruct (lazy_loop_sim fam HF6 (fun p => is_some (get p)) pe (S n) k lp ltac:(lia) Hc)
    as [lp' [k' [A [B [C [D E]]]]]].
  rewrite A. exists lp'. split; [|split; [exists k'; split; [lia|exact C] | exact E]].
  f_equal. f_equal. f_equal.
  destruct D as [D|D].
  - destruct (get (lp_p lp')) as [l|] eqn:EG; [|discriminate].
    symmetry. eapply Hget; [eapply continue_ext; exact C | exact EG].
  - rewrite (continue_done _ _ _ _ D C). reflexivity.
Qed.

Lemma lazy_all_sim fam (HF6 : F6 fam) n lp pe (render : packet -> aresult) :
  CInv n fam lp pe ->
  exists lp', lazy_all (S n) fam render lp = Some (lp', render pe) /\ CInv n fam lp' pe /\
              (lp_next lp = None -> lp' = lp) /\ lp_next lp' = None.
Proof.
  intros [k [Hk Hc]]. unfold lazy_all.
  destruct (lazy_loop_sim fam HF6 (fun _ => false) pe (S n) k lp ltac:(lia) Hc)
    as [lp' [k' [A [B [C [D E]]]]]].
  rewrite A. destruct D as [D|D]; [discriminate|].
  assert (EQ := continue_done _ _ _ _ D C).
  exists lp'. split; [rewrite EQ; reflexivity|]. split; [exists k'; split; [lia|exact C]|].
  split; [exact E | exact D].
Qed.

Lemma lazy_find_sim fam (HF6 : F6 fam) n lp pe pred :
  CInv n fam lp pe ->
  exists lp', lazy_find (S n) fam pred lp = Some (lp', RLayer (find pred (p_layers pe))) /\
              CInv n fam lp' pe /\ (lp_next lp = None -> lp' = lp).
Proof.
  intros [k [Hk Hc]]. unfold lazy_find.
  destruct (find pred (p_layers (lp_p lp))) as [l|] eqn:EF.
  - exists lp. split; [|split; [exists k; auto | auto]].
    destruct (ext_layers _ _ (continue_ext _ _ _ _ Hc)) as [more Hm].
    rewrite Hm. erewrite find_app_some by exact EF. reflexivity.
  - destruct (lazy_find_loop_sim fam HF6 pred pe (S n) k lp ltac:(lia) Hc EF) as [lp' [k' [A [B [C D]]]]].
    rewrite A. exists lp'. split; [reflexivity|]. split; [exists k'; split; [lia|exact C] | exact D].
Qed.

Lemma lazy_access_sim fam (HF6 : F6 fam) n lp pe a :
  CInv n fam lp pe ->
  exists lp', lazy_access (S n) fam lp a = Some (lp', eager_access pe a) /\ CInv n fam lp' pe /\
              (lp_next lp = None -> lp' = lp) /\ (forces_all a = true -> lp_next lp' = None).
Proof.
  intros HI. destruct a; cbn [lazy_access eager_access forces_all].
  - destruct (lazy_find_sim fam HF6 n lp pe (type_pred t) HI) as [lp' [A [B C]]].
    exists lp'. repeat split; auto. discriminate.
  - destruct (lazy_find_sim fam HF6 n lp pe (class_pred c) HI) as [lp' [A [B C]]].
    exists lp'. repeat split; auto. discriminate.
  - destruct (lazy_kind_sim fam HF6 n lp pe p_link (fun p q H => ext_link p q H) HI) as [lp' [A [B C]]].
    exists lp'. repeat split; auto. discriminate.
  - destruct (lazy_kind_sim fam HF6 n lp pe p_network (fun p q H => ext_network p q H) HI) as [lp' [A [B C]]].
    exists lp'. repeat split; auto. discriminate.
  - destruct (lazy_kind_sim fam HF6 n lp pe p_transport (fun p q H => ext_transport p q H) HI) as [lp' [A [B C]]].
    exists lp'. repeat split; auto. discriminate.
  - destruct (lazy_kind_sim fam HF6 n lp pe p_application (fun p q H => ext_application p q H) HI) as [lp' [A [B C]]].
    exists lp'. repeat split; auto. discriminate.
  - destruct (lazy_kind_sim fam HF6 n lp pe p_failure (fun p q H => ext_failure p q H) HI) as [lp' [A [B C]]].
    exists lp'. repeat split; auto. discriminate.
  - destruct (lazy_all_sim fam HF6 n lp pe (fun p => RLayers (p_layers p)) HI) as [lp' [A [B [C D]]]].
    exists lp'. repeat split; auto.
  - destruct (lazy_all_sim fam HF6 n lp pe packet_string HI) as [lp' [A [B [C D]]]].
    exists lp'. repeat split; auto.
  - destruct (lazy_all_sim fam HF6 n lp pe packet_dump HI) as [lp' [A [B [C D]]]].
    exists lp'. repeat split; auto.
Qed.

Lemma lazy_program_sim fam (HF6 : F6 fam) n pe : forall prog lp,
  CInv n fam lp pe ->
  exists lp', lazy_program (S n) fam lp prog = Some (lp', eager_program pe prog) /\ CInv n fam lp' pe /\
    ((lp_next lp = None \/ existsb forces_all prog = true) -> lp_next lp' = None /\ lp_p lp' = pe).
Proof.
  induction prog as [|a prog IH]; intros lp HI.
  - exists lp. cbn. repeat split; auto.
    + destruct H as [H|H]; [exact H|discriminate].
    + destruct H as [H|H]; [|discriminate]. destruct HI as [k [_ Hc]]. eapply continue_done; eauto.
  - destruct (lazy_access_sim fam HF6 n lp pe a HI) as [lp1 [A [B [C D]]]].
    destruct (IH lp1 B) as [lp2 [A2 [B2 C2]]].
    exists lp2. cbn [lazy_program eager_program map]. rewrite A. unfold eager_program in A2. rewrite A2.
    split; [reflexivity|]. split; [exact B2|].
    intros H. apply C2. destruct H as [H|H].
    + left. rewrite (C H). exact H.
    + cbn in H. apply orb_true_iff in H. destruct H as [H|H]; [left; apply D; exact H | right; exact H].
Qed.

(* the initial lazy packet satisfies the invariant w.r.t. the eager packet of the same bytes *)
Lemma new_lazy_inv fam n data first o pe :
  data <> [] -> new_eager n fam data first o = NewOk pe -> CInv n fam (new_lazy data first o) pe.
Proof.
  intros Hd He. exists n. split; [lia|]. unfold continue_eager, new_lazy. cbn.
  unfold rest_of. cbn. destruct data; [congruence|]. exact He.
Qed.

(* with empty input the lazy packet decodes nothing at all: it behaves like the empty packet *)
Lemma new_lazy_inv_empty fam n first o : CInv n fam (new_lazy [] first o) (empty_packet [] o).
Proof. exists 0%nat. split; [lia|]. reflexivity. Qed.

(* ------------------------------------------------------------------ options the decoders may not see *)
Definition with_lazy (b : bool) (o : dopts) : dopts :=
  mkOpts b (o_nocopy o) (o_pool o) (o_skiprec o) (o_dsad o).
Definition with_copymode (nc pl : bool) (o : dopts) : dopts :=
  mkOpts (o_lazy o) nc pl (o_skiprec o) (o_dsad o).

(* ------------------------------------------------------------------ fuel bound (totality) *)
Lemma eager_decode_fuel fam (HP : progress fam) : forall fuel t data p,
  (length data < fuel)%nat -> snd (eager_decode fuel fam t data p) <> DFuel.
Proof.
  induction fuel as [|f IH]; intros t data p Hlt; [lia|].
  cbn [eager_decode]. destruct (decode_step fam t data p) as [p1 s] eqn:ES.
  destruct s; cbn; try discriminate.
  unfold decode_step in ES. destruct (fam t) as [d|] eqn:EF; [|inversion ES].
  destruct (d data (p_opts p)) as [acts term] eqn:ED. inversion ES as [[E1 E2]].
  destruct term; try discriminate. inversion E2; subst t1.
  destruct (HP _ _ _ _ _ _ EF ED) as [l [HL Hlen]].
  rewrite last_run_actions. erewrite last_add_indep by exact HL. rewrite HL.
  destruct (l_payload l) eqn:EP; cbn; [discriminate|].
  apply IH. destruct Hlen as [Hlen|Hlen]; [lia|discriminate].
Qed.

Lemma last_add_none_has acts : forall l, last_add acts None = Some l -> has_add acts = true.
Proof.
  induction acts as [|a acts IH]; intros l H; cbn in *; [discriminate|].
  destruct a; cbn; try (eapply IH; exact H). reflexivity.
Qed.

Lemma progress_F6 fam : progress fam -> F6 fam.
Proof.
  intros HP t d data o acts t' EF ED. destruct (HP _ _ _ _ _ _ EF ED) as [l [HL _]].
  eapply last_add_none_has; eauto.
Qed.

Lemma opts_eager_decode fam fuel t data p :
  p_opts (fst (eager_decode fuel fam t data p)) = p_opts p.
Proof.
  destruct (eager_decode fuel fam t data p) as [q r] eqn:E. cbn.
  exact (ext_opts _ _ (ext_eager_decode _ _ _ _ _ _ _ E)).
Qed.

Lemma new_eager_total fam (HP : progress fam) data first o :
  o_skiprec o = false -> exists pe, new_eager (S (length data)) fam data first o = NewOk pe.
Proof.
  intros Hs. unfold new_eager.
  pose proof (eager_decode_fuel fam HP (S (length data)) first data (empty_packet data o) ltac:(lia)) as HF.
  pose proof (opts_eager_decode fam (S (length data)) first data (empty_packet data o)) as HO.
  destruct (eager_decode (S (length data)) fam first data (empty_packet data o)) as [q r].
  cbn in *. destruct r; cbn; eauto; try congruence.
  rewrite HO. cbn. rewrite Hs. eauto.
Qed.

(* ------------------------------------------------------------------ error-layer discipline *)
Definition clean (p : packet) : Prop :=
  p_failure p = None /\ Forall (fun l => l_fail l = false) (p_layers p).

Lemma clean_do_action p a : is_seterr a = false -> adds_fail a = false -> clean p -> clean (do_action p a).
Proof.
  intros H1 H2 [C1 C2]. destruct a; cbn in *; try discriminate; split; cbn; auto.
  apply Forall_app. split; [exact C2 | constructor; [exact H2 | constructor]].
Qed.

Lemma clean_run_actions acts : forall p,
  existsb is_seterr acts = false -> existsb adds_fail acts = false -> clean p -> clean (run_actions acts p).
Proof.
  induction acts as [|a acts IH]; intros p H1 H2 C; cbn in *; [exact C|].
  apply orb_false_iff in H1. apply orb_false_iff in H2. destruct H1, H2.
  apply IH; auto. apply clean_do_action; auto.
Qed.

Lemma clean_decode_step fam (H1 : no_seterr fam) (H2 : no_fail_layers fam) t data p p1 r :
  decode_step fam t data p = (p1, r) -> clean p -> clean p1.
Proof.
  unfold decode_step. destruct (fam t) as [d|] eqn:EF.
  - destruct (d data (p_opts p)) as [acts term] eqn:ED. intros H C. inversion H.
    apply clean_run_actions; eauto.
  - intros H C. inversion H; subst; exact C.
Qed.

Lemma clean_eager_decode fam (H1 : no_seterr fam) (H2 : no_fail_layers fam) : forall fuel t data p p' r,
  eager_decode fuel fam t data p = (p', r) -> clean p -> clean p'.
Proof.
  induction fuel as [|f IH]; intros t data p p' r H C; cbn in H.
  - inversion H; subst; exact C.
  - destruct (decode_step fam t data p) as [p1 s] eqn:E.
    pose proof (clean_decode_step fam H1 H2 _ _ _ _ _ E C) as X.
    destruct s; try (inversion H; subst; exact X).
    destruct (p_last p1) as [l|]; [|inversion H; subst; exact X].
    destruct (l_payload l) eqn:EP; [inversion H; subst; exact X|].
    eapply IH; eauto.
Qed.

Lemma clean_empty data o : clean (empty_packet data o).
Proof. split; constructor. Qed.

(* what addFinalDecodeError leaves behind *)
Lemma add_final_shape p :
  p_layers (add_final_decode_error p) = p_layers p ++ [mk_failure (rest_of p)] /\
  p_failure (add_final_decode_error p) = set_first (p_failure p) (mk_failure (rest_of p)).
Proof. split; reflexivity. Qed.

Definition discipline (failed : bool) (pe : packet) : Prop :=
  (failed = true <-> p_failure pe <> None) /\
  (failed = false <-> p_failure pe = None) /\
  (forall e, p_failure pe = Some e ->
     l_fail e = true /\
     exists before, p_layers pe = before ++ [e] /\ Forall (fun l => l_fail l = false) before) /\
  (p_failure pe = None -> Forall (fun l => l_fail l = false) (p_layers pe)).

Lemma discipline_finish p r pe : clean p -> finish_decode (p, r) = NewOk pe -> discipline (decode_failed r) pe.
Proof.
  intros [C1 C2] H. unfold discipline.
  assert (HA : forall q, q = add_final_decode_error p ->
     (true = true <-> p_failure q <> None) /\ (true = false <-> p_failure q = None) /\
     (forall e, p_failure q = Some e -> l_fail e = true /\
        exists before, p_layers q = before ++ [e] /\ Forall (fun l => l_fail l = false) before) /\
     (p_failure q = None -> Forall (fun l => l_fail l = false) (p_layers q))).
  { intros q ->. destruct (add_final_shape p) as [S1 S2]. rewrite S1, S2, C1. cbn [set_first].
    split; [split; [intros _; discriminate | reflexivity]|].
    split; [split; intros HH; discriminate HH|].
    split; [|intros HH; discriminate HH].
    intros e HE. inversion HE; subst e. split; [reflexivity|].
    exists (p_layers p). split; [reflexivity | exact C2]. }
  destruct r; cbn in H.
  - inversion H; subst pe. cbn [decode_failed]. rewrite C1.
    split; [split; [intros HH; discriminate HH | intros HH; congruence]|].
    split; [split; reflexivity|].
    split; [intros e HE; discriminate HE | intros _; exact C2].
  - inversion H. exact (HA _ eq_refl).
  - destruct (o_skiprec (p_opts p)); [discriminate|]. inversion H. exact (HA _ eq_refl).
  - discriminate.
Qed.

(* without hypotheses on SetErrorLayer: a failure always ends in a DecodeFailure layer that is
   last, and the error layer is non-nil *)
Lemma general_finish p r pe : finish_decode (p, r) = NewOk pe -> decode_failed r = true ->
  p_failure pe <> None /\ exists before f, p_layers pe = before ++ [f] /\ l_fail f = true.
Proof.
  intros H HF. assert (pe = add_final_decode_error p).
  { destruct r; cbn in *; try discriminate; [inversion H; reflexivity|].
    destruct (o_skiprec (p_opts p)); [discriminate|inversion H; reflexivity]. }
  subst pe. destruct (add_final_shape p) as [S1 S2]. rewrite S1, S2. split.
  - destruct (p_failure p); cbn; discriminate.
  - eexists; eexists; split; [reflexivity|reflexivity].
Qed.

(* ------------------------------------------------------------------ decoders blind to the Lazy / NoCopy / Pool bits *)
Definition same_decoder_view (o1 o2 : dopts) : Prop :=
  o_skiprec o1 = o_skiprec o2 /\ o_dsad o1 = o_dsad o2.

(* decoders read only DecodeStreamsAsDatagrams (source fact F7; SkipDecodeRecovery is allowed too) *)
Definition opts_blind (fam : family) : Prop :=
  forall t d data o1 o2, fam t = Some d -> same_decoder_view o1 o2 -> d data o1 = d data o2.

Definition reopt (o : dopts) (org : data_origin) (p : packet) : packet :=
  mkPacket (p_data p) org (p_layers p) (p_last p) (p_trunc p) o
           (p_link p) (p_network p) (p_transport p) (p_application p) (p_failure p).

Lemma reopt_do_action o org p a : do_action (reopt o org p) a = reopt o org (do_action p a).
Proof. destruct a; reflexivity. Qed.

Lemma reopt_run_actions o org acts : forall p, run_actions acts (reopt o org p) = reopt o org (run_actions acts p).
Proof. induction acts as [|a acts IH]; intros p; cbn; [reflexivity|]. rewrite reopt_do_action. apply IH. Qed.

Lemma reopt_decode_step fam (HB : opts_blind fam) o org t data p :
  same_decoder_view (p_opts p) o ->
  decode_step fam t data (reopt o org p) = (reopt o org (fst (decode_step fam t data p)), snd (decode_step fam t data p)).
Proof.
  intros HV. unfold decode_step. destruct (fam t) as [d|] eqn:EF; [|reflexivity].
  cbn [p_opts reopt]. rewrite <- (HB t d data (p_opts p) o EF HV).
  destruct (d data (p_opts p)) as [acts term]. cbn. rewrite reopt_run_actions. reflexivity.
Qed.

Lemma reopt_eager_decode fam (HB : opts_blind fam) o org : forall fuel t data p,
  same_decoder_view (p_opts p) o ->
  eager_decode fuel fam t data (reopt o org p) =
  (reopt o org (fst (eager_decode fuel fam t data p)), snd (eager_decode fuel fam t data p)).
Proof.
  induction fuel as [|f IH]; intros t data p HV; cbn [eager_decode]; [reflexivity|].
  rewrite (reopt_decode_step fam HB o org t data p HV).
  destruct (decode_step fam t data p) as [p1 s] eqn:ES. cbn [fst snd].
  destruct s; try reflexivity.
  change (p_last (reopt o org p1)) with (p_last p1).
  destruct (p_last p1) as [l|]; [|reflexivity].
  destruct (l_payload l); [reflexivity|].
  apply IH. rewrite (ext_opts _ _ (ext_decode_step _ _ _ _ _ _ ES)). exact HV.
Qed.

Lemma reopt_add_final o org p : add_final_decode_error (reopt o org p) = reopt o org (add_final_decode_error p).
Proof. reflexivity. Qed.

Lemma new_eager_reopt fam (HB : opts_blind fam) n data first o1 o2 pe :
  same_decoder_view o1 o2 ->
  new_eager n fam data first o1 = NewOk pe ->
  new_eager n fam data first o2 = NewOk (reopt o2 (new_packet_origin o2 data) pe).
Proof.
  intros HV. unfold new_eager.
  change (empty_packet data o2) with (reopt o2 (new_packet_origin o2 data) (empty_packet data o1)).
  rewrite (reopt_eager_decode fam HB o2 _ n first data (empty_packet data o1) HV).
  pose proof (opts_eager_decode fam n first data (empty_packet data o1)) as HO.
  destruct (eager_decode n fam first data (empty_packet data o1)) as [q r]. cbn [fst snd] in *.
  destruct HV as [HV1 HV2].
  destruct r; cbn; intros H; inversion H; try reflexivity.
  rewrite HO in *. cbn in *. rewrite <- HV1. destruct (o_skiprec o1); [discriminate|].
  inversion H. reflexivity.
Qed.

Lemma eager_access_reopt o org p a : eager_access (reopt o org p) a = eager_access p a.
Proof. destruct a; reflexivity. Qed.

Lemma eager_program_reopt o org p prog : eager_program (reopt o org p) prog = eager_program p prog.
Proof. unfold eager_program. apply map_ext. intros a. apply eager_access_reopt. Qed.

(* ------------------------------------------------------------------ the uniform runner (what the correspondence executes) *)
Lemma run_program_eager fuel fam p prog :
  run_program fuel fam (PEager p) prog = (PEager p, map Some (eager_program p prog)).
Proof.
  induction prog as [|a prog IH]; cbn; [reflexivity|]. rewrite IH. reflexivity.
Qed.

Lemma run_program_lazy fuel fam : forall prog lp lp' rs,
  lazy_program fuel fam lp prog = Some (lp', rs) ->
  run_program fuel fam (PLazy lp) prog = (PLazy lp', map Some rs).
Proof.
  induction prog as [|a prog IH]; intros lp lp' rs H; cbn in *.
  - inversion H. reflexivity.
  - destruct (lazy_access fuel fam lp a) as [[lp1 r]|]; [|discriminate].
    destruct (lazy_program fuel fam lp1 prog) as [[lp2 rs2]|] eqn:E; [|discriminate].
    inversion H; subst. rewrite (IH _ _ _ E). reflexivity.
Qed.

(* no accessor of an eager packet panics *)
Lemma eager_access_no_panic p a : eager_access p a <> RPanic.
Proof. destruct a; cbn; discriminate. Qed.

Lemma eager_program_no_panic p prog : ~ In RPanic (eager_program p prog).
Proof.
  unfold eager_program. intros H. apply in_map_iff in H. destruct H as [a [H _]].
  exact (eager_access_no_panic p a H).
Qed.
