(* C09: sendToConnection in general (buildSG + ReassembledSG + cleanSG), for [fullv]:
   start known or not, saved pages prepended when contiguous and dropped otherwise, any
   KeepFrom choice.  No panic; the ScatterGather is S from the start of the (prepended) saved
   bytes to the end of the contiguous run; the new saved pages are the kept tail. *)
From GP Require Import Base C09Model C09Spec C09Seq C09Proofs C09Stream C09Flush C09Keep.
From Coq Require Import Lia ZifyBool ZifyNat.
Ltac Zify.zify_post_hook ::= Z.div_mod_to_equations.
Open Scope Z_scope.

Ltac ex4 o := exists o; split; [|split; [|split]].

(* addContiguous: the pages taken are a run starting at the end of what precedes them *)
Lemma contig_loop_sok : forall S i hi q e lo,
  qok S i lo hi q -> e <= lo -> 0 <= e -> hi <= HI 0 -> zlen S < hi -> e <= zlen S ->
  exists e' tk q1, contig_loop fullv q (sq i e) = (tk, q1, sq i e') /\ e <= e' /\ e' <= zlen S /\
    sok S i e e' tk /\ qok S i (e' + 1) hi q1.
Proof.
  intros S i hi. induction q as [|p t IH]; intros e lo Hq Hlo He0 Hhi HSh HeS.
  - exists e, [], []. cbn [contig_loop qok sok]. split; [reflexivity|]. repeat split; lia.
  - cbn [qok] in Hq. destruct Hq as (o & Ho & Hoe & Hpg & Ht).
    pose proof Hpg as (Hp0 & Hpl & HpS & Hpq & Hpb).
    cbn [contig_loop]. unfold diffv. cbn [v_diff fullv]. rewrite Hpq.
    rewrite diff_sq by (unfold HI, HALFW in *; lia).
    destruct (o - e =? 0) eqn:E.
    + assert (o = e) by lia. subst o.
      change (zlen (pbytes p)) with (plen p). rewrite sadd_sq.
      destruct (IH (e + plen p) (e + plen p)) as (e' & tk & q1 & Heq & H1 & H2 & H3 & H4); try lia; try assumption.
      rewrite Heq. exists e', (p :: tk), q1. split; [reflexivity|]. split; [lia|]. split; [lia|].
      split; [|assumption]. cbn [sok]. split; [apply pg_spg; assumption|assumption].
    + exists e, [], (p :: t). split; [reflexivity|]. split; [lia|]. split; [lia|].
      split; [reflexivity|]. cbn [qok]. ex4 o; try lia; assumption.
Qed.

Lemma add_contiguous_sq_full : forall q i e, add_contiguous fullv q (sq i e) = contig_loop fullv q (sq i e).
Proof.
  intros. destruct q as [|p t]; [reflexivity|]. unfold add_contiguous. rewrite sq_not_invalid. reflexivity.
Qed.

(* what the start of the half-connection is known to be: nothing, or the saved pages cover
   [A, p) and p is the delivery point *)
Definition known_ok (S : list Z) (i : Z) (h : half) (kn : option (Z * Z)) (a : Z) : Prop :=
  match kn with
  | None => h_next h = INVALID /\ h_saved h = []
  | Some (A, p) => h_next h = sq i p /\ 0 <= A /\ sok S i A p (h_saved h) /\ p <= a
  end.

Definition sg_start (kn : option (Z * Z)) (a : Z) : Z :=
  match kn with Some (A, p) => if a =? p then A else a | None => a end.
Definition sg_skip (kn : option (Z * Z)) (a : Z) : Z :=
  match kn with Some (_, p) => a - p | None => -1 end.

Lemma add_pending_ok : forall S i h kn a,
  known_ok S i h kn a -> 0 <= a <= zlen S -> zlen S < HALFW ->
  exists pre sv1 reld,
    add_pending (h_saved h) (sq i a) = (pre, a - sg_start kn a, sv1, reld) /\
    sok S i (sg_start kn a) a pre /\ 0 <= sg_start kn a <= a.
Proof.
  intros S i h kn a Hk Ha HS. destruct kn as [(A, p)|]; cbn [known_ok sg_start] in *.
  - destruct Hk as (Hnx & HA & Hs & Hpa).
    pose proof (sok_range _ _ _ _ _ Hs) as HAp.
    destruct (h_saved h) as [|p0 t] eqn:Esv.
    + cbn [sok] in Hs. subst A. cbn [add_pending].
      destruct (a =? p) eqn:E; exists [], [], 0; (split; [f_equal; f_equal; f_equal; lia|]); cbn [sok]; split; lia.
    + cbn [add_pending]. rewrite (sum_len_sok _ _ _ _ _ Hs).
      pose proof Hs as Hs'. cbn [sok] in Hs'. destruct Hs' as ((_ & _ & Hq0 & _) & _).
      rewrite Hq0, sadd_sq. replace (A + (p - A)) with p by lia.
      destruct (a =? p) eqn:E.
      * assert (a = p) by lia. subst a. rewrite Z.eqb_refl.
        eexists. eexists. eexists. split; [reflexivity|]. split; [assumption|lia].
      * destruct (sq i p =? sq i a) eqn:E2.
        { exfalso. assert (p = a); [|lia]. apply (sq_inj_window i p a); [unfold HALFW in *; lia|lia]. }
        eexists. eexists. eexists. split; [f_equal; f_equal; f_equal; lia|]. cbn [sok]. split; lia.
  - destruct Hk as (Hnx & Hsv). rewrite Hsv. cbn [add_pending].
    exists [], [], 0. split; [f_equal; f_equal; f_equal; lia|]. cbn [sok]. split; lia.
Qed.

Lemma if_tags : forall (b1 b2 : bool) (ev : event),
  exists tg, (if b1 then [ETag 16] else []) ++ (if b2 then [ETag 14] else []) ++ [ev] = map ETag tg ++ [ev].
Proof.
  intros. destruct b1, b2.
  - exists [16; 14]. reflexivity.
  - exists [16]. reflexivity.
  - exists [14]. reflexivity.
  - exists []. reflexivity.
Qed.

Lemma last_end_snoc : forall l c, last_end (l ++ [c]) = cend c.
Proof. intros. unfold last_end. rewrite rev_app_distr. reflexivity. Qed.

(* sendToConnection *)
Lemma send_gen : forall S i c h used r0 sid nc kn a,
  zlen S < HIS ->
  cok S i a r0 -> qok S i (a + clen r0) HIS (h_queue h) -> known_ok S i h kn a ->
  exists e' saved2 q1 tg st,
    let r := send fullv c h used r0 sid nc in
    let A' := sg_start kn a in
    let k := keep_choice c nc (e' - A') (a - A') in
    sr_panic r = false /\ sr_next r = sq i e' /\
    sr_ev r = map ETag tg ++ [ESG sid (sub S A' (e' - A')) st (sr_end r) (sg_skip kn a) (e' - A') (a - A')] /\
    h_saved (sr_half r) = saved2 /\ h_queue (sr_half r) = q1 /\
    h_next (sr_half r) = h_next h /\ h_closed (sr_half r) = h_closed h /\
    a + clen r0 <= e' /\ e' <= zlen S /\ 0 <= A' <= a /\
    (h_queue h = [] -> sr_end r = cend r0) /\
    qok S i (e' + 1) HIS q1 /\
    sok S i (if (0 <=? k) && (k <? e' - A') then A' + k else e') e' saved2.
Proof.
  intros S i c h used r0 sid nc kn a HS Hc Hq Hk.
  pose proof Hc as (Ha0 & HaS & Hcq & Hcb). pose proof (clen_nonneg r0) as Hn0.
  destruct (add_pending_ok S i h kn a Hk ltac:(lia) ltac:(unfold HIS, HALFW in *; lia))
    as (pre & sv1 & reld & Hap & Hpre & HA').
  destruct (contig_loop_sok S i HIS (h_queue h) (a + clen r0) (a + clen r0) Hq)
    as (e' & tk & q1 & Hcl & He1 & He2 & Htk & Hq1); try lia; try apply HIS_HI.
  set (A' := sg_start kn a) in *.
  assert (Hall : csok S i A' e' (map CPage pre ++ r0 :: map CPage tk)).
  { eapply csok_app; [apply sok_csok; exact Hpre|]. cbn [csok]. split; [exact Hc|]. apply sok_csok. exact Htk. }
  assert (Hbytes : concat (map cbytes (map CPage pre ++ r0 :: map CPage tk)) = sub S A' (e' - A'))
    by (apply (csok_bytes S i _ _ _ Hall); lia).
  pose proof (clean_sg_ok S i _ A' e' (keep_choice c nc (e' - A') (a - A')) Hall ltac:(lia)) as Hclean.
  exists e'.
  unfold send. rewrite Hcq, Hap, sadd_sq, add_contiguous_sq_full, Hcl.
  rewrite Hbytes. rewrite zlen_sub by lia.
  destruct (if keep_choice c nc (e' - A') (a - A') <? 0
            then (length (map CPage pre ++ r0 :: map CPage tk), 0)
            else find_keep (map CPage pre ++ r0 :: map CPage tk) (keep_choice c nc (e' - A') (a - A')) 0
                           (keep_choice c nc (e' - A') (a - A')) 0%nat) as (ndx & kskip).
  destruct Hclean as (saved2 & alloc & Hkc & Hsok).
  rewrite Hkc.
  destruct (if_tags (reld >? 0) (a - A' >? 0)
              (ESG sid (sub S A' (e' - A')) (first_start (map CPage pre ++ r0 :: map CPage tk))
                   (last_end (map CPage pre ++ r0 :: map CPage tk))
                   (if h_next h =? INVALID then -1 else diffv fullv (h_next h) (sq i a)) (e' - A') (a - A')))
    as (tg & Htg).
  exists saved2, q1, tg, (first_start (map CPage pre ++ r0 :: map CPage tk)).
  cbn [sr_panic sr_next sr_ev sr_half sr_end h_saved h_queue h_next h_closed].
  split; [reflexivity|]. split; [reflexivity|]. split.
  { rewrite Htg. f_equal. f_equal. f_equal.
    destruct kn as [(A, p)|]; cbn [known_ok sg_skip] in *.
    - destruct Hk as (Hnx & HA & Hs & Hpa). pose proof (sok_range _ _ _ _ _ Hs).
      rewrite Hnx, sq_not_invalid. unfold diffv. cbn [v_diff fullv].
      apply diff_sq. unfold HIS, HALFW in *. lia.
    - destruct Hk as (Hnx & _). rewrite Hnx. reflexivity. }
  split; [reflexivity|]. split; [reflexivity|]. split; [reflexivity|]. split; [reflexivity|].
  split; [lia|]. split; [lia|]. split; [lia|]. split; [|split; assumption].
  intros Hq0. rewrite Hq0 in Hcl. cbn [contig_loop] in Hcl. inversion Hcl; subst tk.
  cbn [map]. apply last_end_snoc.
Qed.
