(* C20 — the statements of Props/C20.v assembled from the invariants; the EOF-liveness
   invariant of read-until-EOF loops; the two refutations of the unrepaired code. *)
From GP Require Import Base C20Model Diamond C20Measure C20Confluence C20Progress C20Bytes.
From Coq Require Import Lia.
Open Scope nat_scope.

(* ---- a read-until-EOF loop ends only with an EOF: any configuration *)
Definition is_drain (o : cop) : bool := match o with CDrain _ => true | _ => false end.
Definition pc_drain (p : cpc) : bool :=
  match p with CReadSend _ (Some _) | CReadRecv _ (Some _) | CPanic => true | _ => false end.
Definition dinv (c : cstate) : bool := existsb is_drain (ops c) || pc_drain (pc c) || has_eof (out c).
Definition has_drain (prog : list cop) : bool := existsb is_drain prog.

Lemma drain_loop : forall g c n d,
  d <> None \/ existsb is_drain (ops c) = true \/ has_eof (out c) = true -> dinv (c_loop g c n d) = true.
Proof.
  intros g c n d H. unfold c_loop. destruct (negb (closed c) && isnil (cur c)).
  - unfold dinv. destruct (first c); unfold set_pc; cbn [ops pc out pc_drain];
      (destruct H as [H | [-> | ->]]; [destruct d; [|congruence] |..]); rewrite ?orb_true_r; reflexivity.
  - unfold c_finish, dinv. destruct (cur c) as [|e t].
    + cbn [ops pc out has_eof existsb is_eof]. rewrite !orb_true_r. reflexivity.
    + destruct (loss_errors g && negb (lrep c) && negb (rskip e =? 0)%Z);
        cbn [ops pc out pc_drain has_eof existsb is_eof orb]; fold (has_eof (out c));
        (destruct H as [H | [H | ->]];
          [ destruct d; [reflexivity | congruence]
          | destruct d; cbn [requeue existsb is_drain orb]; [reflexivity | rewrite H; reflexivity]
          | rewrite !orb_true_r; reflexivity ]).
Qed.

Lemma drain_step : forall g s s', dinv (cs s) = true -> step g s s' -> dinv (cs s') = true.
Proof.
  intros g s s' Hd Hst. destruct s as [c a r d]. cbn [cs] in *. unfold dinv in Hd.
  destruct Hst as [H | [H | H]].
  - unfold do_sync in H. cbn [cs ap rc dc] in H.
    destruct (sync g r d c a) as [[c' a']|] eqn:E; [|discriminate]. injection H as <-. cbn [cs].
    unfold sync in E. destruct (pc c) eqn:Hpc; try discriminate; destruct a; try discriminate.
    + destruct d; [discriminate|]. injection E as <- _. unfold dinv, set_pc. cbn [ops pc out pc_drain] in *. exact Hd.
    + destruct r; [discriminate|]. injection E as <- _. unfold read_recv_ok. apply drain_loop.
      unfold c_strip. cbn [ops out]. cbn [pc_drain] in Hd.
      destruct (existsb is_drain (ops c)); [right; left; reflexivity|].
      destruct (has_eof (out c)); [right; right; reflexivity|].
      left. destruct d0; [discriminate | cbn in Hd; discriminate].
    + destruct d; [discriminate|]. injection E as <- _. unfold dinv, close_acked. cbn [ops pc out pc_drain] in *.
      rewrite orb_false_r in *. exact Hd.
    + destruct r; [discriminate|]. injection E as <- _. unfold dinv, close_recv_ok. cbn [ops pc out pc_drain] in *.
      rewrite orb_false_r in *. exact Hd.
    + destruct d; [discriminate|]. injection E as <- _. unfold dinv, set_pc. cbn [ops pc out pc_drain] in *.
      rewrite orb_false_r in *. exact Hd.
  - unfold do_tau_c in H. cbn [cs ap rc dc] in H.
    destruct (tau_c g r d (is_parked a) c) as [c'|] eqn:E; [|discriminate]. injection H as <-. cbn [cs].
    unfold tau_c in E. destruct (pc c) eqn:Hpc.
    + cbn [pc_drain] in Hd. rewrite orb_false_r in Hd.
      destruct (ops c) as [|o ro] eqn:Hops; [discriminate|]. destruct o as [n|m|]; injection E as <-.
      * unfold read_begin. destruct (initiated g).
        -- apply drain_loop. unfold c_strip, set_ops. cbn [ops out]. cbn [existsb is_drain orb] in Hd.
           apply orb_true_iff in Hd. tauto.
        -- unfold dinv, set_pc, set_ops. cbn [ops pc out pc_drain]. rewrite orb_true_r. reflexivity.
      * unfold read_begin. destruct (initiated g).
        -- apply drain_loop. left. discriminate.
        -- unfold dinv, set_pc, set_ops. cbn [ops pc out pc_drain]. rewrite orb_true_r. reflexivity.
      * unfold close_begin, set_ops, dinv. cbn [existsb is_drain orb] in Hd.
        cbn [first closed cur tags ops pc out lrep].
        destruct (close_acks g && negb (first c) && negb (closed c)); cbn [ops pc out pc_drain];
          rewrite orb_false_r; exact Hd.
    + destruct d; [|discriminate]. injection E as <-. unfold dinv, set_pc. cbn [ops pc out pc_drain]. rewrite orb_true_r. reflexivity.
    + destruct r; [|discriminate]. injection E as <-. unfold read_recv_closed, c_loop, c_finish, dinv.
      cbn [closed cur negb andb ops pc out has_eof existsb is_eof]. rewrite !orb_true_r. reflexivity.
    + destruct d.
      * injection E as <-. unfold dinv, set_pc. cbn [ops pc out pc_drain]. rewrite orb_true_r. reflexivity.
      * destruct (ack_nb g && negb (is_parked a)); [|discriminate]. injection E as <-.
        unfold dinv, close_acked. cbn [ops pc out pc_drain] in *. rewrite orb_false_r in *. exact Hd.
    + destruct r; [|discriminate]. injection E as <-. unfold dinv, close_return.
      cbn [ops pc out pc_drain has_eof existsb is_eof orb] in *. fold (has_eof (out c)). rewrite orb_false_r in *. exact Hd.
    + destruct d; [|discriminate]. injection E as <-. unfold dinv, set_pc. cbn [ops pc out pc_drain]. rewrite orb_true_r. reflexivity.
    + discriminate.
  - unfold do_tau_a in H. cbn [cs ap rc dc] in H.
    destruct (tau_a g a r d) as [[[a' r'] d']|] eqn:E; [|discriminate]. injection H as <-. exact Hd.
Qed.

Lemma reach_dinv : forall g hist prog n s, has_drain prog = true ->
  steps (step g) n (init g hist prog) s -> dinv (cs s) = true.
Proof.
  intros g hist prog n s Hd Hs.
  apply (inv_steps (fun s => dinv (cs s) = true) g) with (n := n) (s0 := init g hist prog); auto.
  - intros x y Hx Hst. eapply drain_step; eauto.
  - unfold dinv, init. cbn [cs ops pc out]. unfold has_drain in Hd. rewrite Hd. reflexivity.
Qed.

Lemma terminal_dinv_eof : forall s, terminal s -> dinv (cs s) = true -> has_eof (out (cs s)) = true.
Proof.
  intros s [_ [Hpc Hops]] Hd. unfold dinv in Hd. rewrite Hpc, Hops in Hd. cbn in Hd. exact Hd.
Qed.

(* ---- C20_bytes *)
Definition reach (g : config) (hist : list batch) (prog : list cop) (s : st) : Prop :=
  exists n, steps (step g) n (init g hist prog) s.

Theorem bytes_main : forall le hist prog s, no_close prog = true -> reach (fixed le) hist prog s ->
  ev_out (out (cs s)) ++ ev_cur le (lrep (cs s)) (cur (cs s)) ++ ev_a le (ap s) = ev_hist le hist /\
  (has_eof (out (cs s)) = true -> ev_out (out (cs s)) = ev_hist le hist) /\
  (terminal s -> ev_out (out (cs s)) = ev_hist le hist) /\
  sticky (out (cs s)).
Proof.
  intros le hist prog s Hnc [n Hs].
  destruct (reach_ainv _ _ _ _ _ Hnc Hs) as [Hi Ha].
  destruct (reach_einv _ _ _ _ _ Hs) as [_ [_ [Hf Hst]]].
  split; [|split; [|split]].
  - destruct Ha as [Hall _]. unfold pend in Hall. rewrite <- app_assoc in Hall. exact Hall.
  - intros He. eapply ainv_closed; eauto.
  - intros Ht. eapply ainv_terminal; eauto.
  - exact Hst.
Qed.

Theorem bytes_projected : forall le hist prog s, no_close prog = true -> reach (fixed le) hist prog s ->
  (terminal s \/ has_eof (out (cs s)) = true) ->
  out_bytes (out (cs s)) = all_bytes hist /\
  out_losses (out (cs s)) = (if le then all_skips hist else 0).
Proof.
  intros le hist prog s Hnc Hr Hfin.
  destruct (bytes_main _ _ _ _ Hnc Hr) as [_ [He [Ht _]]].
  assert (Hall : ev_out (out (cs s)) = ev_hist le hist) by (destruct Hfin; auto).
  split.
  - rewrite <- bytes_of_ev_out, Hall. apply bytes_of_ev_hist.
  - rewrite <- losses_of_ev_out, Hall. apply losses_of_ev_hist.
Qed.

Theorem bytes_any_program : forall le hist prog s, reach (fixed le) hist prog s ->
  (exists rest, ev_out (out (cs s)) ++ rest = ev_hist le hist) /\
  (exists rest, out_bytes (out (cs s)) ++ rest = all_bytes hist) /\
  sticky (out (cs s)).
Proof.
  intros le hist prog s [n Hs].
  destruct (reach_prefix _ _ _ _ _ Hs) as [rest Hrest].
  destruct (reach_einv _ _ _ _ _ Hs) as [_ [_ [_ Hst]]].
  split; [eauto|]. split; [|exact Hst].
  exists (bytes_of_ev rest). rewrite <- bytes_of_ev_out, <- bytes_of_ev_app, Hrest. apply bytes_of_ev_hist.
Qed.

(* a consumer that reads until EOF (and never closes) gets everything, then EOF; whatever the schedule *)
Theorem drain_gets_everything : forall le hist prog, no_close prog = true -> has_drain prog = true ->
  forall n s, steps (step (fixed le)) n (init (fixed le) hist prog) s -> nf (step (fixed le)) s ->
  terminal s /\ has_eof (out (cs s)) = true /\
  ev_out (out (cs s)) = ev_hist le hist /\
  out_bytes (out (cs s)) = all_bytes hist /\
  out_losses (out (cs s)) = (if le then all_skips hist else 0).
Proof.
  intros le hist prog Hnc Hd n s Hs Hn.
  assert (Hg : good_prog prog = true).
  { unfold good_prog. unfold has_drain in Hd. clear -Hd. induction prog as [|o p IH]; [discriminate|].
    cbn in *. destruct o; cbn in *; auto. }
  destruct (completes _ _ _ Hg _ _ Hs) as [_ Ht]. specialize (Ht Hn).
  pose proof (terminal_dinv_eof _ Ht (reach_dinv _ _ _ _ _ Hd Hs)) as He.
  assert (Hr : reach (fixed le) hist prog s) by (exists n; exact Hs).
  destruct (bytes_main _ _ _ _ Hnc Hr) as [_ [_ [Hall _]]].
  destruct (bytes_projected _ _ _ _ Hnc Hr (or_introl Ht)) as [Hb Hl].
  repeat split; auto; apply Ht.
Qed.

(* ---- the unrepaired Close: whenever a batch is held, Close wedges both sides *)
Lemma close_orig_stuck : forall le c ro rest d,
  nf (step (close_orig le))
     (mkS (close_begin (close_orig le) (set_ops c ro)) (AWait rest) false d).
Proof.
  intros le c ro rest d s' Hst. unfold close_begin, set_ops in Hst. cbn [close_acks close_orig andb] in Hst.
  destruct Hst as [H | [H | H]]; cbv in H; discriminate.
Qed.

Definition refute_hist : list batch := [[mkR [1; 2]%Z 0%Z]].
Definition refute_prog : list cop := [CRead 1; CClose].

Lemma progress_refuted : forall le, exists n s,
  good_prog refute_prog = true /\
  steps (step (close_orig le)) n (init (close_orig le) refute_hist refute_prog) s /\
  nf (step (close_orig le)) s /\ ~ terminal s /\
  pc (cs s) = CCloseRecv /\ ap s = AWait [] /\
  rev (out (cs s)) = [ORead 1 [1%Z] ENil].
Proof.
  intros le.
  set (g := close_orig le). set (s0 := init g refute_hist refute_prog).
  destruct (run_sched_spec g (fun _ => false) (mu g s0) 0 s0 (le_n _)) as [n [t [Hr [Hs [Hn _]]]]].
  exists n, t. split; [reflexivity|]. split; [exact Hs|]. split; [exact Hn|].
  subst g s0. destruct le; vm_compute in Hr; injection Hr as <-; cbn;
    (split; [intros [Hx _]; discriminate|]); auto.
Qed.

(* ---- a non-blocking acknowledgement in Close (select { case r.done <- true: default: }) is not
   enough: it is dropped when the assembler's send on r.reassembled has completed but the
   assembler is not yet parked in <-r.done (state ASent).  Consumer-first schedule: Read receives
   from the parked sender and returns, Close begins, the non-blocking send finds no receiver,
   Close goes on to <-r.reassembled; then the assembler parks in <-r.done: both wait for ever.
   Under the assembler-first schedule the same program completes: the outcome is a race. *)
Lemma nonblocking_ack_refuted : forall le,
  let g := nonblocking_ack le in
  (exists n s, good_prog refute_prog = true /\
     steps (step g) n (init g refute_hist refute_prog) s /\ nf (step g) s /\ ~ terminal s /\
     pc (cs s) = CCloseRecv /\ ap s = AWait [] /\ rev (out (cs s)) = [ORead 1 [1%Z] ENil] /\
     run_sched g (fun _ => false) (mu g (init g refute_hist refute_prog)) 0 (init g refute_hist refute_prog) = (s, true)) /\
  (exists n s, steps (step g) n (init g refute_hist refute_prog) s /\ terminal s /\
     run_sched g (fun _ => true) (mu g (init g refute_hist refute_prog)) 0 (init g refute_hist refute_prog) = (s, true)).
Proof.
  intros le g. set (s0 := init g refute_hist refute_prog). split.
  - destruct (run_sched_spec g (fun _ => false) (mu g s0) 0 s0 (le_n _)) as [n [t [Hr [Hs [Hn _]]]]].
    exists n, t. split; [reflexivity|]. split; [exact Hs|]. split; [exact Hn|].
    assert (Hr' := Hr). subst g s0. destruct le; vm_compute in Hr; injection Hr as <-; cbn;
      (split; [intros [Hx _]; discriminate|]); repeat split; auto.
  - destruct (run_sched_spec g (fun _ => true) (mu g s0) 0 s0 (le_n _)) as [n [t [Hr [Hs [Hn _]]]]].
    exists n, t. split; [exact Hs|]. split; [|exact Hr].
    subst g s0. destruct le; vm_compute in Hr; injection Hr as <-; unfold terminal; cbn; auto.
Qed.


(* ---- the unrepaired stripEmpty: a loss carried by an empty slice is never reported *)
Definition loss_hist : list batch := [[mkR [] 3%Z]].
Definition loss_prog : list cop := [CDrain 0].

Lemma loss_refuted : exists n s,
  no_close loss_prog = true /\
  steps (step (strip_orig true)) n (init (strip_orig true) loss_hist loss_prog) s /\
  nf (step (strip_orig true)) s /\ terminal s /\
  ev_hist true loss_hist = [EvLost] /\ ev_out (out (cs s)) = [] /\
  rev (out (cs s)) = [ORead 1 [] EEOF].
Proof.
  set (g := strip_orig true). set (s0 := init g loss_hist loss_prog).
  destruct (run_sched_spec g (fun _ => false) (mu g s0) 0 s0 (le_n _)) as [n [t [Hr [Hs [Hn _]]]]].
  exists n, t. split; [reflexivity|]. split; [exact Hs|]. split; [exact Hn|].
  subst g s0. vm_compute in Hr. injection Hr as <-. cbn. unfold terminal. cbn. auto.
Qed.

(* ---- the property statements, parametric in the code variant, and their fate *)
Definition progress_statement (g : config) : Prop :=
  forall hist prog, good_prog prog = true ->
  forall n s, steps (step g) n (init g hist prog) s ->
  (terminal s \/ exists s', step g s s') /\ ap s <> APanic /\ pc (cs s) <> CPanic.

Definition bytes_statement (g : config) : Prop :=
  forall hist prog, no_close prog = true ->
  forall n s, steps (step g) n (init g hist prog) s -> terminal s ->
  ev_out (out (cs s)) = ev_hist (loss_errors g) hist.

Lemma progress_statement_fixed : forall le, progress_statement (fixed le).
Proof. intros le hist prog Hg n s Hs. eapply progress; eauto. Qed.

Lemma bytes_statement_fixed : forall le, bytes_statement (fixed le).
Proof.
  intros le hist prog Hnc n s Hs Ht. cbn [loss_errors fixed].
  assert (Hr : reach (fixed le) hist prog s) by (exists n; exact Hs).
  destruct (bytes_main _ _ _ _ Hnc Hr) as [_ [_ [Hall _]]]. auto.
Qed.

Lemma progress_statement_close_orig_false : forall le, ~ progress_statement (close_orig le).
Proof.
  intros le H. destruct (progress_refuted le) as [n [s [Hg [Hs [Hn [Hnt _]]]]]].
  destruct (H _ _ Hg _ _ Hs) as [[Ht | [s' Hst]] _]; [exact (Hnt Ht) | exact (Hn _ Hst)].
Qed.

Lemma progress_statement_nonblocking_ack_false : forall le, ~ progress_statement (nonblocking_ack le).
Proof.
  intros le H. destruct (nonblocking_ack_refuted le) as [[n [s [Hg [Hs [Hn [Hnt _]]]]]] _].
  destruct (H _ _ Hg _ _ Hs) as [[Ht | [s' Hst]] _]; [exact (Hnt Ht) | exact (Hn _ Hst)].
Qed.

Lemma bytes_statement_strip_orig_false : ~ bytes_statement (strip_orig true).
Proof.
  intros H. destruct loss_refuted as [n [s [Hnc [Hs [_ [Ht [Hh [Ho _]]]]]]]].
  specialize (H _ _ Hnc _ _ Hs Ht). cbn [loss_errors strip_orig] in H. rewrite Hh, Ho in H. discriminate.
Qed.

(* non-vacuity witnesses on the repaired code *)
Definition ex_hist : list batch :=
  [[mkR [1; 2; 3]%Z 0%Z; mkR [] 5%Z]; []; [mkR [4; 5]%Z 2%Z; mkR [] 0%Z]].
Definition ex_prog : list cop := [CRead 2; CRead 0; CDrain 1].

Lemma ex_run : exists n s,
  steps (step (fixed true)) n (init (fixed true) ex_hist ex_prog) s /\ terminal s /\
  rev (out (cs s)) =
    [ORead 2 [1; 2]%Z ENil; ORead 0 [] ENil; ORead 2 [3]%Z ENil; ORead 2 [] ELost; ORead 2 [] ELost;
     ORead 2 [4; 5]%Z ENil; ORead 2 [] EEOF].
Proof.
  set (g := fixed true). set (s0 := init g ex_hist ex_prog).
  destruct (run_sched_spec g (fun _ => false) (mu g s0) 0 s0 (le_n _)) as [n [t [Hr [Hs [Hn _]]]]].
  exists n, t. split; [exact Hs|]. subst g s0. vm_compute in Hr. injection Hr as <-.
  unfold terminal. cbn. auto.
Qed.

Definition ex_close_prog : list cop := [CRead 2; CClose; CRead 4; CClose].

Lemma ex_close_run : exists n s,
  steps (step (fixed true)) n (init (fixed true) ex_hist ex_close_prog) s /\ terminal s /\
  rev (out (cs s)) = [ORead 2 [1; 2]%Z ENil; OClose; ORead 4 [] EEOF; OClose].
Proof.
  set (g := fixed true). set (s0 := init g ex_hist ex_close_prog).
  destruct (run_sched_spec g (fun _ => false) (mu g s0) 0 s0 (le_n _)) as [n [t [Hr [Hs [Hn _]]]]].
  exists n, t. split; [exact Hs|]. subst g s0. vm_compute in Hr. injection Hr as <-.
  unfold terminal. cbn. auto.
Qed.
