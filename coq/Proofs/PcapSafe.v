(* C15 for the classic pcap reader and the snoop reader: per-call facts and their lifting to
   the drain loop (no panic, allocation bound, shape, termination, chunking, error surfacing) *)
From GP Require Import Base BytesLE PcapModel PcapStream.
From Coq Require Import Lia ZifyBool ZifyNat.
Open Scope Z_scope.

Lemma Forall_firstn {A} (P : A -> Prop) n l : Forall P l -> Forall P (firstn n l).
Proof. intros H. rewrite <- (firstn_skipn n l) in H. now apply Forall_app in H. Qed.
Lemma Forall_skipn {A} (P : A -> Prop) n l : Forall P l -> Forall P (skipn n l).
Proof. intros H. rewrite <- (firstn_skipn n l) in H. now apply Forall_app in H. Qed.

Lemma pow256_mono a : (a <= 4)%nat -> 256 ^ Z.of_nat a <= 4294967296.
Proof.
  intros H. change 4294967296 with (256 ^ 4). apply Z.pow_le_mono_r; lia.
Qed.

Lemma u32f_range be h off : bytes_ok h -> 0 <= u32f be h off < 4294967296.
Proof.
  intros H. unfold u32f.
  assert (Hs : Forall byte_ok (slice h off (off + 4))) by (unfold slice; now apply Forall_skipn, Forall_firstn).
  assert (Hl : (length (slice h off (off + 4)) <= 4)%nat).
  { unfold slice. rewrite skipn_length, firstn_length. lia. }
  pose proof (pow256_mono _ Hl).
  destruct be; [pose proof (be_val_range _ Hs)|pose proof (le_val_range _ Hs)]; lia.
Qed.

(* ---------------------------------------------------------------- the drain loop, generically *)
Section Drain.
  Context {St : Type}.
  Variable rdf : St -> stream -> outcome rpkt * St * stream * list Z.
  Variable I : St -> Prop.          (* invariant of the reader state *)
  Variable A : Z -> Prop.           (* bound on allocation requests *)
  Variable K : rpkt -> Prop.        (* shape of returned packets *)
  Variable k : nat.                 (* bytes consumed by every call that does not end the stream *)

  Definition step_facts (st : St) (s : stream) : Prop :=
    let '(r, st', s', al) := rdf st s in
    I st' /\ bytes_ok (flat s') /\ failed s' = failed s /\ (forall x, r <> Panic x) /\ Forall A al /\
    (forall p, r = Ok p -> K p) /\
    ((exists c, r = Err c /\ is_io_err c = true) \/ (length (flat s') + k <= length (flat s))%nat) /\
    (failed s = true -> r <> Err E_EOF /\ r <> Err E_UEOF) /\ (failed s = false -> r <> Err E_IO).

  Hypothesis step_ok : forall st s, I st -> bytes_ok (flat s) -> step_facts st s.

  Definition res_facts (fl : bool) (x : outcome rpkt * list Z) : Prop :=
    let '(r, al) := x in
    (forall y, r <> Panic y) /\ Forall A al /\ (forall p, r = Ok p -> K p) /\
    (fl = true -> r <> Err E_EOF /\ r <> Err E_UEOF) /\ (fl = false -> r <> Err E_IO).

  Lemma drain_facts fuel : forall st s, I st -> bytes_ok (flat s) ->
    Forall (res_facts (failed s)) (fst (drain rdf fuel st s)).
  Proof.
    induction fuel as [|f IH]; intros st s HI Hb; cbn [drain fst]; [constructor|].
    pose proof (step_ok st s HI Hb) as H. unfold step_facts in H.
    destruct (rdf st s) as [[[r st'] s'] al].
    destruct H as (HI' & Hb' & Hf & Hp & Ha & Hk & _ & Hft & Hff).
    assert (Hres : res_facts (failed s) (r, al)) by (unfold res_facts; auto).
    specialize (IH st' s' HI' Hb'). rewrite Hf in IH.
    destruct r as [p|c|x].
    - destruct (drain rdf f st' s') as [l fin]. cbn [fst] in *. constructor; assumption.
    - destruct (is_io_err c).
      + cbn [fst]. constructor; [assumption|constructor].
      + destruct (drain rdf f st' s') as [l fin]. cbn [fst] in *. constructor; assumption.
    - cbn [fst]. constructor; [assumption|constructor].
  Qed.

  Lemma drain_terminates fuel : forall st s, I st -> bytes_ok (flat s) -> (0 < k)%nat ->
    (length (flat s) < k * fuel)%nat -> snd (drain rdf fuel st s) = true.
  Proof.
    induction fuel as [|f IH]; intros st s HI Hb Hk Hlen; [lia|]. cbn [drain].
    pose proof (step_ok st s HI Hb) as H. unfold step_facts in H.
    destruct (rdf st s) as [[[r st'] s'] al].
    destruct H as (HI' & Hb' & Hf & Hp & Ha & _ & Hc & _).
    destruct r as [p|c|x].
    - destruct Hc as [(c & Hc & _)|Hc]; [discriminate|].
      specialize (IH st' s' HI' Hb' Hk). destruct (drain rdf f st' s') as [l fin]. cbn [snd] in *. apply IH. lia.
    - destruct (is_io_err c) eqn:Eio; [reflexivity|].
      destruct Hc as [(c' & Hc & Hio)|Hc]; [inversion Hc; subst; congruence|].
      specialize (IH st' s' HI' Hb' Hk). destruct (drain rdf f st' s') as [l fin]. cbn [snd] in *. apply IH. lia.
    - reflexivity.
  Qed.

  (* a loop that has stopped has stopped on an I/O-class error *)
  Lemma drain_last fuel : forall st s, I st -> bytes_ok (flat s) -> snd (drain rdf fuel st s) = true ->
    exists pre c al, fst (drain rdf fuel st s) = pre ++ [(Err c, al)] /\ is_io_err c = true.
  Proof.
    induction fuel as [|f IH]; intros st s HI Hb Hfin; cbn [drain] in *; [discriminate|].
    pose proof (step_ok st s HI Hb) as H. unfold step_facts in H.
    destruct (rdf st s) as [[[r st'] s'] al].
    destruct H as (HI' & Hb' & Hf & Hp & _).
    destruct r as [p|c|x].
    - specialize (IH st' s' HI' Hb'). destruct (drain rdf f st' s') as [l fin]. cbn [fst snd] in *.
      destruct (IH Hfin) as (pre & c & al' & -> & Hio). exists ((Ok p, al) :: pre), c, al'. auto.
    - destruct (is_io_err c) eqn:Eio.
      + exists [], c, al. auto.
      + specialize (IH st' s' HI' Hb'). destruct (drain rdf f st' s') as [l fin]. cbn [fst snd] in *.
        destruct (IH Hfin) as (pre & c' & al' & -> & Hio). exists ((Err c, al) :: pre), c', al'. auto.
    - exfalso. eapply Hp. reflexivity.
  Qed.
End Drain.

(* chunking: a read function that respects stream equivalence gives a drain that does *)
Definition respects {St : Type} (rdf : St -> stream -> outcome rpkt * St * stream * list Z) : Prop :=
  forall st s1 s2, seq s1 s2 ->
    fst (fst (fst (rdf st s1))) = fst (fst (fst (rdf st s2))) /\
    snd (fst (fst (rdf st s1))) = snd (fst (fst (rdf st s2))) /\
    snd (rdf st s1) = snd (rdf st s2) /\
    seq (snd (fst (rdf st s1))) (snd (fst (rdf st s2))).

Lemma drain_respects {St} (rdf : St -> stream -> outcome rpkt * St * stream * list Z) :
  respects rdf -> forall fuel st s1 s2, seq s1 s2 -> drain rdf fuel st s1 = drain rdf fuel st s2.
Proof.
  intros Hr. induction fuel as [|f IH]; intros st s1 s2 Hs; cbn [drain]; [reflexivity|].
  destruct (Hr st s1 s2 Hs) as (E1 & E2 & E3 & E4).
  destruct (rdf st s1) as [[[r1 st1] s1'] al1], (rdf st s2) as [[[r2 st2] s2'] al2].
  cbn [fst snd] in *. subst r2 st2 al2. rewrite (IH st1 s1' s2' E4). reflexivity.
Qed.

(* ---------------------------------------------------------------- per-call facts *)
Definition pcap_shape (snap : Z) (p : rpkt) : Prop :=
  Z.of_nat (length (k_data p)) = k_caplen p /\ k_caplen p <= k_len p /\ k_caplen p <= snap.

Lemma is_io_EOF : is_io_err E_EOF = true. Proof. reflexivity. Qed.
Lemma is_io_UEOF : is_io_err E_UEOF = true. Proof. reflexivity. Qed.
Lemma is_io_IO : is_io_err E_IO = true. Proof. reflexivity. Qed.

(* the three ways read_full can answer, with the facts each carries *)
Lemma read_full_cases n s : bytes_ok (flat s) ->
  let r := read_full n s in
  bytes_ok (flat (snd r)) /\ failed (snd r) = failed s /\
  (length (flat (snd r)) <= length (flat s))%nat /\
  ( (exists bs, fst r = Ok bs /\ n <= Z.of_nat (length (flat s)) /\ bs = firstn (Z.to_nat n) (flat s) /\
       bytes_ok bs /\ (0 <= n -> Z.of_nat (length bs) = n) /\
       (length (flat (snd r)) + Z.to_nat n = length (flat s))%nat)
    \/ (failed s = false /\ (fst r = Err E_EOF \/ fst r = Err E_UEOF))
    \/ (failed s = true /\ fst r = Err E_IO) ).
Proof.
  intros Hb r. subst r. destruct (read_full_spec n s) as (A1 & A2 & A3).
  rewrite A1, A2. split; [now apply Forall_skipn|]. split; [reflexivity|]. split; [rewrite skipn_length; lia|].
  rewrite A3. unfold tstat_of.
  destruct (n <=? Z.of_nat (length (flat s))) eqn:E.
  - left. eexists. split; [reflexivity|]. split; [lia|]. split; [reflexivity|]. split; [now apply Forall_firstn|].
    split; [intros; rewrite firstn_length; lia|rewrite skipn_length; lia].
  - destruct (failed s); [right; right; auto|right; left; split; auto].
    destruct (firstn (Z.to_nat n) (flat s)); auto.
Qed.

Lemma set_pcap_snaplen rd c : r_snaplen (set_pcap rd c) = r_snaplen rd. Proof. reflexivity. Qed.

Ltac split9 := refine (conj _ (conj _ (conj _ (conj _ (conj _ (conj _ (conj _ (conj _ _)))))))).
Ltac io_left := left; eexists; split; reflexivity.
Ltac easy_facts :=
  split9; [ auto | auto | try congruence | intros ? ?; discriminate | auto | intros ? ?; try discriminate
          | try io_left | intros ?; split; intros ?; try discriminate; try congruence
          | intros ? ?; try discriminate; try congruence ].

Lemma read_packet_step zc snap rd s : r_snaplen rd = snap -> bytes_ok (flat s) ->
  step_facts (read_packet zc) (fun rd' => r_snaplen rd' = snap) (fun a => 0 <= a <= snap) (pcap_shape snap) 16 rd s.
Proof.
  intros Hsn Hb. unfold step_facts, read_packet.
  pose proof (read_full_cases 16 s Hb) as (B1 & F1 & L1 & C1).
  destruct (read_full 16 s) as [rh s1]. cbn [fst snd] in *.
  destruct C1 as [(h & -> & Hlen & Hh & Hhb & Hhl & Hcons)|[(Hf & Hr)|(Hf & ->)]].
  2:{ destruct Hr as [-> | ->]; easy_facts. }
  2:{ easy_facts. }
  pose proof (u32f_range (r_be rd) h 8 Hhb) as Rc.
  pose proof (u32f_range (r_be rd) h 12 Hhb) as Rl.
  set (caplen := u32f (r_be rd) h 8) in *. set (len := u32f (r_be rd) h 12) in *.
  assert (Hc16 : (length (flat s1) + 16 <= length (flat s))%nat) by lia.
  destruct (r_snaplen rd <? caplen) eqn:E1.
  { easy_facts. right; lia. }
  destruct (len <? caplen) eqn:E2.
  { easy_facts. right; lia. }
  (* buffer *)
  assert (Hbuf : exists rd1 al,
     (if zc then if r_pcap rd <? caplen then (set_pcap rd (Z.max (r_snaplen rd) caplen), [Z.max (r_snaplen rd) caplen]) else (rd, [])
      else (rd, [caplen])) = (rd1, al) /\ r_snaplen rd1 = snap /\ Forall (fun a => 0 <= a <= snap) al /\
      (zc = true -> caplen <= r_pcap rd1)).
  { destruct zc.
    - destruct (r_pcap rd <? caplen) eqn:E3.
      + eexists; eexists; split; [reflexivity|]. split; [assumption|]. split; [|cbn; intros; lia].
        constructor; [|constructor]. lia.
      + eexists; eexists; split; [reflexivity|]. split; [assumption|]. split; [constructor|intros; lia].
    - eexists; eexists; split; [reflexivity|]. split; [assumption|]. split; [|discriminate].
      constructor; [|constructor]. lia. }
  destruct Hbuf as (rd1 & al & -> & Hsn1 & Hal & Hcap).
  assert (Hex : existsb (fun a => a <? 0) al = false).
  { apply Bool.not_true_is_false. intros Hx. apply existsb_exists in Hx as (a & Hin & Ha).
    rewrite Forall_forall in Hal. specialize (Hal a Hin). lia. }
  rewrite Hex.
  assert (Hz : zc && (r_pcap rd1 <? caplen) = false).
  { destruct zc; [|reflexivity]. specialize (Hcap eq_refl). cbn. lia. }
  rewrite Hz.
  pose proof (read_full_cases caplen s1 B1) as (B2 & F2 & L2 & C2).
  destruct (read_full caplen s1) as [rdata s2]. cbn [fst snd] in *.
  destruct C2 as [(d & -> & Hlen2 & Hd & Hdb & Hdl & Hcons2)|[(Hf & Hr)|(Hf & ->)]].
  - easy_facts.
    + match goal with H : Ok _ = Ok _ |- _ => inversion H; subst end. unfold pcap_shape. cbn. lia.
    + right. lia.
  - assert (Hff : failed s = false) by congruence.
    destruct Hr as [-> | ->]; cbn [Z.eqb E_EOF E_UEOF Pos.eqb]; easy_facts.
  - assert (Hft : failed s = true) by congruence.
    cbn [Z.eqb E_EOF E_IO Pos.eqb]. easy_facts.
Qed.

Definition snoop_shape (p : rpkt) : Prop :=
  Z.of_nat (length (k_data p)) = k_caplen p /\ k_caplen p <= k_len p /\ k_caplen p <= MAX_CAPLEN.

Lemma take_cases n s : bytes_ok (flat s) ->
  let t := take n s in
  bytes_ok (flat (snd (fst t))) /\ failed (snd (fst t)) = failed s /\
  (length (flat (snd (fst t))) <= length (flat s))%nat /\
  (snd t = Full \/ (snd t = AtEOF /\ failed s = false) \/ (snd t = AtFail /\ failed s = true)).
Proof.
  intros Hb t. subst t. destruct (take_spec s n) as (A1 & A2 & A3 & A4).
  rewrite A2, A3, A4. split; [now apply Forall_skipn|]. split; [reflexivity|]. split; [rewrite skipn_length; lia|].
  unfold tstat_of. destruct (n <=? _); auto. destruct (failed s); auto.
Qed.

Lemma snoop_read_step zc st s : bytes_ok (flat s) ->
  step_facts (snoop_read zc) (fun _ => True) (fun a => 0 <= a <= MAX_CAPLEN) snoop_shape 24 st s.
Proof.
  intros Hb. unfold step_facts, snoop_read.
  pose proof (read_full_cases 24 s Hb) as (B1 & F1 & L1 & C1).
  destruct (read_full 24 s) as [rh s1]. cbn [fst snd] in *.
  destruct C1 as [(h & -> & Hlen & Hh & Hhb & Hhl & Hcons)|[(Hf & Hr)|(Hf & ->)]].
  2:{ destruct Hr as [-> | ->]; easy_facts. }
  2:{ easy_facts. }
  pose proof (u32f_range true h 4 Hhb) as Rc.
  pose proof (u32f_range true h 0 Hhb) as Rl.
  set (caplen := u32f true h 4) in *. set (len := u32f true h 0) in *. set (reclen := u32f true h 8) in *.
  assert (Hc24 : (length (flat s1) + 24 <= length (flat s))%nat) by lia.
  destruct (len <? caplen) eqn:E1.
  { easy_facts. right; lia. }
  destruct (MAX_CAPLEN <? caplen) eqn:E2.
  { easy_facts. right; lia. }
  destruct (reclen - (24 + caplen) <? 0) eqn:E3.
  { easy_facts. right; lia. }
  assert (Hbuf : exists st1 al,
     (if zc then if s_pcap st <? caplen then ({| s_lt := s_lt st; s_pcap := caplen |}, [caplen]) else (st, [])
      else (st, [caplen])) = (st1, al) /\ Forall (fun a => 0 <= a <= MAX_CAPLEN) al /\
      (zc = true -> caplen <= s_pcap st1)).
  { destruct zc.
    - destruct (s_pcap st <? caplen) eqn:E4.
      + eexists; eexists; split; [reflexivity|]. split; [|cbn; intros; lia].
        constructor; [|constructor]. lia.
      + eexists; eexists; split; [reflexivity|]. split; [constructor|intros; lia].
    - eexists; eexists; split; [reflexivity|]. split; [|discriminate].
      constructor; [|constructor]. lia. }
  destruct Hbuf as (st1 & al & -> & Hal & Hcap).
  assert (Hex : existsb (fun a => a <? 0) al = false).
  { apply Bool.not_true_is_false. intros Hx. apply existsb_exists in Hx as (a & Hin & Ha).
    rewrite Forall_forall in Hal. specialize (Hal a Hin). lia. }
  rewrite Hex.
  assert (Hz : zc && (s_pcap st1 <? caplen) = false).
  { destruct zc; [|reflexivity]. specialize (Hcap eq_refl). cbn [andb]. lia. }
  rewrite Hz.
  pose proof (read_full_cases caplen s1 B1) as (B2 & F2 & L2 & C2).
  destruct (read_full caplen s1) as [rdata s2]. cbn [fst snd] in *.
  destruct C2 as [(d & -> & Hlen2 & Hd & Hdb & Hdl & Hcons2)|[(Hf & Hr)|(Hf & ->)]].
  - pose proof (take_cases (reclen - (24 + caplen)) s2 B2) as (B3 & F3 & L3 & C3).
    destruct (take (reclen - (24 + caplen)) s2) as [[pd s3] stp]. cbn [fst snd] in *.
    destruct C3 as [-> | [(-> & Hf) | (-> & Hf)]].
    + easy_facts.
      * match goal with H : Ok _ = Ok _ |- _ => inversion H; subst end. unfold snoop_shape. cbn [k_data k_caplen k_len]. lia.
      * right. lia.
    + assert (Hff : failed s = false) by congruence. easy_facts.
    + assert (Hft : failed s = true) by congruence. easy_facts.
  - assert (Hff : failed s = false) by congruence.
    destruct Hr as [-> | ->]; cbn [Z.eqb E_EOF E_UEOF Pos.eqb]; easy_facts.
  - assert (Hft : failed s = true) by congruence.
    cbn [Z.eqb E_EOF E_IO Pos.eqb]. easy_facts.
Qed.

(* ---------------------------------------------------------------- opening the file *)
Definition hdr_facts {St} (r : outcome St) (s s' : stream) (al : list Z) (hsz : Z) : Prop :=
  bytes_ok (flat s') /\ failed s' = failed s /\ (forall x, r <> Panic x) /\ Forall (fun a => a = hsz) al /\
  (forall st, r = Ok st -> (length (flat s') + Z.to_nat hsz = length (flat s))%nat) /\
  (failed s = true -> r <> Err E_EOF /\ r <> Err E_UEOF) /\ (failed s = false -> r <> Err E_IO).

Ltac split7 := refine (conj _ (conj _ (conj _ (conj _ (conj _ (conj _ _)))))).
Ltac hdr_easy :=
  split7; [ auto | auto; try congruence | intros ? ?; discriminate | repeat constructor | intros ? ?; try discriminate
          | intros ?; split; intros ?; try discriminate; try congruence
          | intros ? ?; try discriminate; try congruence ].

Lemma new_reader_facts s : bytes_ok (flat s) ->
  let '(r, s', al) := new_reader s in
  hdr_facts r s s' al 24 /\
  (forall rd, r = Ok rd -> 0 <= r_snaplen rd < 4294967296 /\ r_pcap rd = 0 /\ (r_factor rd = 1 \/ r_factor rd = 1000)).
Proof.
  intros Hb. unfold new_reader, hdr_facts.
  pose proof (take_cases 2 s Hb) as (_ & _ & _ & C0).
  destruct (take 2 s) as [[b2 s0] st2]. cbn [fst snd] in *.
  destruct C0 as [-> | [(-> & Hf) | (-> & Hf)]].
  2:{ split; [hdr_easy|intros ? ?; discriminate]. }
  2:{ split; [hdr_easy|intros ? ?; discriminate]. }
  destruct (is_gzip b2).
  { split; [hdr_easy|intros ? ?; discriminate]. }
  pose proof (read_full_cases 24 s Hb) as (B1 & F1 & L1 & C1).
  destruct (read_full 24 s) as [rh s1]. cbn [fst snd] in *.
  destruct C1 as [(h & -> & Hlen & Hh & Hhb & Hhl & Hcons)|[(Hf & Hr)|(Hf & ->)]].
  2:{ destruct Hr as [-> | ->]; (split; [hdr_easy|intros ? ?; discriminate]). }
  2:{ split; [hdr_easy|intros ? ?; discriminate]. }
  assert (Hmk : forall be factor, (factor = 1 \/ factor = 1000) ->
    let '(r, s', al) :=
      (if negb (u16f be h 4 =? 2) then (Err E_FMT, s1, [24])
       else if negb (u16f be h 6 =? 4) then (Err E_FMT, s1, [24])
       else (Ok {| r_be := be; r_factor := factor; r_snaplen := u32f be h 16;
                   r_lt := u16 (u32f be h 20); r_pcap := 0 |}, s1, [24])) in
    (bytes_ok (flat s') /\ failed s' = failed s /\ (forall x, r <> Panic x) /\ Forall (fun a => a = 24) al /\
     (forall st, r = Ok st -> (length (flat s') + Z.to_nat 24 = length (flat s))%nat) /\
     (failed s = true -> r <> Err E_EOF /\ r <> Err E_UEOF) /\ (failed s = false -> r <> Err E_IO)) /\
    (forall rd, r = Ok rd -> 0 <= r_snaplen rd < 4294967296 /\ r_pcap rd = 0 /\ (r_factor rd = 1 \/ r_factor rd = 1000))).
  { intros be factor Hfac.
    destruct (negb (u16f be h 4 =? 2)); [split; [hdr_easy|intros ? ?; discriminate]|].
    destruct (negb (u16f be h 6 =? 4)); [split; [hdr_easy|intros ? ?; discriminate]|].
    split; [hdr_easy; lia|].
    intros rd Hrd. inversion Hrd; subst rd. cbn [r_snaplen r_pcap r_factor].
    pose proof (u32f_range be h 16 Hhb). auto. }
  cbv zeta.
  destruct (u32f false h 0 =? MAGIC_NS); [apply (Hmk false 1); auto|].
  destruct (u32f false h 0 =? MAGIC_NS_BE); [apply (Hmk true 1); auto|].
  destruct (u32f false h 0 =? MAGIC_US); [apply (Hmk false 1000); auto|].
  destruct (u32f false h 0 =? MAGIC_US_BE); [apply (Hmk true 1000); auto|].
  split; [hdr_easy|intros ? ?; discriminate].
Qed.

Lemma snoop_new_facts s : bytes_ok (flat s) ->
  let '(r, s', al) := snoop_new s in hdr_facts r s s' al 16.
Proof.
  intros Hb. unfold snoop_new, hdr_facts.
  pose proof (read_full_cases 16 s Hb) as (B1 & F1 & L1 & C1).
  destruct (read_full 16 s) as [rh s1]. cbn [fst snd] in *.
  destruct C1 as [(h & -> & Hlen & Hh & Hhb & Hhl & Hcons)|[(Hf & Hr)|(Hf & ->)]].
  2:{ destruct Hr as [-> | ->]; hdr_easy. }
  2:{ hdr_easy. }
  destruct (negb (be_val (slice h 0 8) =? SNOOP_MAGIC)); [hdr_easy|].
  destruct (negb (u32f true h 8 =? 2)); [hdr_easy|].
  destruct (10 <? u32f true h 12); [hdr_easy|].
  hdr_easy. lia.
Qed.

(* ---------------------------------------------------------------- chunking invariance *)
Lemma read_packet_respects zc : respects (read_packet zc).
Proof.
  intros rd s1 s2 Hs. unfold read_packet.
  destruct (read_full_seq 16 s1 s2 Hs) as [E S].
  destruct (read_full 16 s1) as [rh s11], (read_full 16 s2) as [rh2 s21]. cbn [fst snd] in E, S. subst rh2.
  destruct rh as [h|c|x]; cbn [fst snd]; auto.
  destruct (r_snaplen rd <? u32f (r_be rd) h 8); cbn [fst snd]; auto.
  destruct (u32f (r_be rd) h 12 <? u32f (r_be rd) h 8); cbn [fst snd]; auto.
  destruct (if zc then _ else _) as [rd1 al].
  destruct (existsb _ al); cbn [fst snd]; auto.
  destruct (zc && _); cbn [fst snd]; auto.
  destruct (read_full_seq (u32f (r_be rd) h 8) s11 s21 S) as [E' S'].
  destruct (read_full _ s11) as [rd_1 s12], (read_full _ s21) as [rd_2 s22]. cbn [fst snd] in E', S'. subst rd_2.
  destruct rd_1; cbn [fst snd]; auto.
Qed.

Lemma snoop_read_respects zc : respects (snoop_read zc).
Proof.
  intros st s1 s2 Hs. unfold snoop_read.
  destruct (read_full_seq 24 s1 s2 Hs) as [E S].
  destruct (read_full 24 s1) as [rh s11], (read_full 24 s2) as [rh2 s21]. cbn [fst snd] in E, S. subst rh2.
  destruct rh as [h|c|x]; cbn [fst snd]; auto.
  destruct (u32f true h 0 <? u32f true h 4); cbn [fst snd]; auto.
  destruct (MAX_CAPLEN <? u32f true h 4); cbn [fst snd]; auto.
  destruct (_ <? 0); cbn [fst snd]; auto.
  destruct (if zc then _ else _) as [st1 al].
  destruct (existsb _ al); cbn [fst snd]; auto.
  destruct (zc && _); cbn [fst snd]; auto.
  destruct (read_full_seq (u32f true h 4) s11 s21 S) as [E' S'].
  destruct (read_full _ s11) as [rd_1 s12], (read_full _ s21) as [rd_2 s22]. cbn [fst snd] in E', S'. subst rd_2.
  destruct rd_1 as [d|c|x]; cbn [fst snd]; auto.
  destruct (take_seq (u32f true h 8 - (24 + u32f true h 4)) s12 s22 S') as (T1 & T2 & T3).
  destruct (take _ s12) as [[p1 s13] st1'], (take _ s22) as [[p2 s23] st2']. cbn [fst snd] in T1, T2, T3. subst st2'.
  destruct st1'; cbn [fst snd]; auto.
Qed.

(* header: same result, same allocations, equivalent rest *)
Lemma new_reader_seq s1 s2 : seq s1 s2 ->
  fst (fst (new_reader s1)) = fst (fst (new_reader s2)) /\ snd (new_reader s1) = snd (new_reader s2) /\
  (forall rd, fst (fst (new_reader s1)) = Ok rd -> seq (snd (fst (new_reader s1))) (snd (fst (new_reader s2)))).
Proof.
  intros Hs. unfold new_reader.
  destruct (take_seq 2 s1 s2 Hs) as (T1 & T2 & _).
  destruct (take 2 s1) as [[b1 s10] st1], (take 2 s2) as [[b2 s20] st2]. cbn [fst snd] in T1, T2. subst b2 st2.
  destruct st1; cbn [fst snd]; try (repeat split; auto; intros; discriminate).
  destruct (is_gzip b1); cbn [fst snd]; try (repeat split; auto; intros; discriminate).
  destruct (read_full_seq 24 s1 s2 Hs) as [E S].
  destruct (read_full 24 s1) as [rh s11], (read_full 24 s2) as [rh2 s21]. cbn [fst snd] in E, S. subst rh2.
  destruct rh as [h|c|x]; cbn [fst snd]; try (repeat split; auto; intros; discriminate).
  cbv zeta. repeat match goal with |- context [if ?c then _ else _] => destruct c end; cbn [fst snd];
    repeat split; auto; intros; try discriminate; auto; try apply S.
Qed.

Lemma snoop_new_seq s1 s2 : seq s1 s2 ->
  fst (fst (snoop_new s1)) = fst (fst (snoop_new s2)) /\ snd (snoop_new s1) = snd (snoop_new s2) /\
  (forall st, fst (fst (snoop_new s1)) = Ok st -> seq (snd (fst (snoop_new s1))) (snd (fst (snoop_new s2)))).
Proof.
  intros Hs. unfold snoop_new.
  destruct (read_full_seq 16 s1 s2 Hs) as [E S].
  destruct (read_full 16 s1) as [rh s11], (read_full 16 s2) as [rh2 s21]. cbn [fst snd] in E, S. subst rh2.
  destruct rh as [h|c|x]; cbn [fst snd]; try (repeat split; auto; intros; discriminate).
  cbv zeta. repeat match goal with |- context [if ?c then _ else _] => destruct c end; cbn [fst snd];
    repeat split; auto; intros; try discriminate; auto; try apply S.
Qed.

Lemma pcap_run_seq zc fuel s1 s2 : seq s1 s2 -> pcap_run zc fuel s1 = pcap_run zc fuel s2.
Proof.
  intros Hs. unfold pcap_run. destruct (new_reader_seq s1 s2 Hs) as (E1 & E2 & E3).
  destruct (new_reader s1) as [[r1 s1'] al1], (new_reader s2) as [[r2 s2'] al2]. cbn [fst snd] in *. subst r2 al2.
  destruct r1 as [rd|c|x]; auto.
  rewrite (drain_respects _ (read_packet_respects zc) fuel rd s1' s2' (E3 rd eq_refl)). reflexivity.
Qed.

Lemma snoop_run_seq zc fuel s1 s2 : seq s1 s2 -> snoop_run zc fuel s1 = snoop_run zc fuel s2.
Proof.
  intros Hs. unfold snoop_run. destruct (snoop_new_seq s1 s2 Hs) as (E1 & E2 & E3).
  destruct (snoop_new s1) as [[r1 s1'] al1], (snoop_new s2) as [[r2 s2'] al2]. cbn [fst snd] in *. subst r2 al2.
  destruct r1 as [st|c|x]; auto.
  rewrite (drain_respects _ (snoop_read_respects zc) fuel st s1' s2' (E3 st eq_refl)). reflexivity.
Qed.

(* ---------------------------------------------------------------- whole runs *)
Definition run_res_ok (A : Z -> Prop) (K : rpkt -> Prop) (fl : bool) (x : outcome rpkt * list Z) : Prop :=
  res_facts A K fl x.

Lemma new_reader_declared s rd : fst (fst (new_reader s)) = Ok rd ->
  r_snaplen rd = u32f (r_be rd) (firstn 24 (flat s)) 16.
Proof.
  unfold new_reader. destruct (take 2 s) as [[b2 s0] st2].
  destruct st2; cbn [fst]; try discriminate.
  destruct (is_gzip b2); cbn [fst]; try discriminate.
  destruct (read_full_spec 24 s) as (_ & _ & A3).
  destruct (read_full 24 s) as [rh s1]. cbn [fst snd] in *.
  unfold tstat_of in A3.
  destruct rh as [h|c|x]; cbn [fst]; try discriminate.
  assert (h = firstn 24 (flat s)).
  { destruct (24 <=? _); [inversion A3; reflexivity|destruct (failed s); discriminate]. }
  subst h. cbv zeta.
  repeat match goal with |- context [if ?c then _ else _] => destruct c end; cbn [fst]; intros H; inversion H; reflexivity.
Qed.

Lemma pcap_run_facts zc fuel s : bytes_ok (flat s) ->
  let '(h, al0, rs, fin) := pcap_run zc fuel s in
  (forall x, h <> Panic x) /\ Forall (fun a => a = 24) al0 /\
  (failed s = true -> h <> Err E_EOF /\ h <> Err E_UEOF) /\ (failed s = false -> h <> Err E_IO) /\
  (forall rd, h = Ok rd -> 0 <= r_snaplen rd < 4294967296 /\
     Forall (res_facts (fun a => 0 <= a <= r_snaplen rd) (pcap_shape (r_snaplen rd)) (failed s)) rs /\
     (fin = true -> exists pre c al, rs = pre ++ [(Err c, al)] /\ is_io_err c = true)) /\
  ((length (flat s) < 16 * fuel)%nat -> fin = true).
Proof.
  intros Hb. unfold pcap_run.
  pose proof (new_reader_facts s Hb) as H.
  destruct (new_reader s) as [[r s1] al]. destruct H as [(B1 & F1 & P1 & A1 & L1 & T1 & T2) R1].
  destruct r as [rd|c|x].
  - destruct (R1 rd eq_refl) as (Rs & _).
    pose proof (drain_facts (read_packet zc) (fun rd' => r_snaplen rd' = r_snaplen rd) (fun a => 0 <= a <= r_snaplen rd)
                  (pcap_shape (r_snaplen rd)) 16 (fun st s0 HI Hb0 => read_packet_step zc _ st s0 HI Hb0) fuel rd s1 eq_refl B1) as DF.
    pose proof (drain_terminates (read_packet zc) (fun rd' => r_snaplen rd' = r_snaplen rd) (fun a => 0 <= a <= r_snaplen rd)
                  (pcap_shape (r_snaplen rd)) 16 (fun st s0 HI Hb0 => read_packet_step zc _ st s0 HI Hb0) fuel rd s1 eq_refl B1) as DT.
    pose proof (drain_last (read_packet zc) (fun rd' => r_snaplen rd' = r_snaplen rd) (fun a => 0 <= a <= r_snaplen rd)
                  (pcap_shape (r_snaplen rd)) 16 (fun st s0 HI Hb0 => read_packet_step zc _ st s0 HI Hb0) fuel rd s1 eq_refl B1) as DL.
    destruct (drain (read_packet zc) fuel rd s1) as [l fin]. cbn [fst snd] in *.
    rewrite F1 in DF.
    split; [assumption|]. split; [assumption|]. split; [assumption|]. split; [assumption|]. split.
    + intros rd' Hrd'. inversion Hrd'; subst rd'. split; [assumption|]. split; [assumption|]. assumption.
    + intros Hlen. apply DT; [lia|]. specialize (L1 rd eq_refl). lia.
  - split; [assumption|]. split; [assumption|]. split; [assumption|]. split; [assumption|]. split; [intros ? ?; discriminate|reflexivity].
  - split; [assumption|]. split; [assumption|]. split; [assumption|]. split; [assumption|]. split; [intros ? ?; discriminate|reflexivity].
Qed.

Lemma snoop_run_facts zc fuel s : bytes_ok (flat s) ->
  let '(h, al0, rs, fin) := snoop_run zc fuel s in
  (forall x, h <> Panic x) /\ Forall (fun a => a = 16) al0 /\
  (failed s = true -> h <> Err E_EOF /\ h <> Err E_UEOF) /\ (failed s = false -> h <> Err E_IO) /\
  (forall st, h = Ok st ->
     Forall (res_facts (fun a => 0 <= a <= MAX_CAPLEN) snoop_shape (failed s)) rs /\
     (fin = true -> exists pre c al, rs = pre ++ [(Err c, al)] /\ is_io_err c = true)) /\
  ((length (flat s) < 24 * fuel)%nat -> fin = true).
Proof.
  intros Hb. unfold snoop_run.
  pose proof (snoop_new_facts s Hb) as H.
  destruct (snoop_new s) as [[r s1] al]. destruct H as (B1 & F1 & P1 & A1 & L1 & T1 & T2).
  destruct r as [st|c|x].
  - pose proof (drain_facts (snoop_read zc) (fun _ => True) (fun a => 0 <= a <= MAX_CAPLEN)
                  snoop_shape 24 (fun st0 s0 _ Hb0 => snoop_read_step zc st0 s0 Hb0) fuel st s1 Logic.I B1) as DF.
    pose proof (drain_terminates (snoop_read zc) (fun _ => True) (fun a => 0 <= a <= MAX_CAPLEN)
                  snoop_shape 24 (fun st0 s0 _ Hb0 => snoop_read_step zc st0 s0 Hb0) fuel st s1 Logic.I B1) as DT.
    pose proof (drain_last (snoop_read zc) (fun _ => True) (fun a => 0 <= a <= MAX_CAPLEN)
                  snoop_shape 24 (fun st0 s0 _ Hb0 => snoop_read_step zc st0 s0 Hb0) fuel st s1 Logic.I B1) as DL.
    destruct (drain (snoop_read zc) fuel st s1) as [l fin]. cbn [fst snd] in *.
    rewrite F1 in DF.
    split; [assumption|]. split; [assumption|]. split; [assumption|]. split; [assumption|]. split.
    + intros st' Hst'. split; assumption.
    + intros Hlen. apply DT; [lia|]. specialize (L1 st eq_refl). lia.
  - split; [assumption|]. split; [assumption|]. split; [assumption|]. split; [assumption|]. split; [intros ? ?; discriminate|reflexivity].
  - split; [assumption|]. split; [assumption|]. split; [assumption|]. split; [assumption|]. split; [intros ? ?; discriminate|reflexivity].
Qed.
