(* Lemmas about the VXLAN codec model (Model/LvxlanModel.v). *)
From GP Require Import Base ListX Codec MiscLib LvxlanModel.
From Coq Require Import Lia ZifyBool ZifyNat.
Open Scope Z_scope.
Ltac Zify.zify_post_hook ::= Z.div_mod_to_equations.

Lemma vx_decode_no_panic old data : is_panic (snd (fst (vx_decode_into old data))) = false.
Proof.
  unfold vx_decode_into. cbv zeta. destruct (zlen data <? 8) eqn:Hn; [reflexivity|].
  rewrite !cd_slc_ok by lia. rewrite !cd_idx_ok by lia. rewrite cd_rd16_ok by lia. reflexivity.
Qed.

Ltac vstep :=
  match goal with
  | |- context [ml_bind ?o _ _ _] => destruct o eqn:?; cbn [ml_bind]
  | |- context [if ?c then _ else _] => destruct c eqn:?
  end.

Lemma vx_decode_fresh old data :
  let r1 := vx_decode_into old data in
  let r2 := vx_decode_into vx_fresh data in
  snd (fst r1) = snd (fst r2) /\ snd r1 = snd r2 /\
  (snd (fst r1) = Ok tt -> fst (fst r1) = fst (fst r2)).
Proof.
  cbv zeta. unfold vx_decode_into. cbv zeta.
  repeat (vstep; try solve [cbn [fst snd]; split; [reflexivity | split; [reflexivity | try (intros X; discriminate X); try reflexivity]]]).
  all: try (cbn [fst snd]; split; [reflexivity | split; [reflexivity | intros _; reflexivity]]).
Qed.

Definition vx_f0 (l : vxlan) : Z := (if v_valid l then 8 else 0) + (if v_gbp l then 128 else 0).
Definition vx_f1 (l : vxlan) : Z := (if v_dontlearn l then 64 else 0) + (if v_applied l then 128 else 0).
Definition vx_hdr (l : vxlan) : list Z :=
  [vx_f0 l; vx_f1 l] ++ cd_put16 (v_policy l) ++ ml_put32 ((v_vni l * 256) mod 4294967296).

Definition vx_ser_spec (l : vxlan) (payload : list Z) : outcome (list Z) * vxlan :=
  if v_vni l >=? 16777216 then (Err 1, l) else (Ok (vx_hdr l ++ payload), l).

Lemma vx_serialize_spec l payload fixl csum junk : vx_serialize l payload fixl csum junk = vx_ser_spec l payload.
Proof.
  unfold vx_serialize, vx_ser_spec, vx_hdr. cbv zeta. fold (vx_f0 l) (vx_f1 l).
  pose proof (ml_tile_init 8 junk ltac:(lia)) as T. do 3 ml_tile_step T.
  destruct (v_vni l >=? 16777216); [reflexivity|].
  ml_tile_step T. apply ml_tile_done in T; [|reflexivity]. subst. rewrite <- !app_assoc. reflexivity.
Qed.

Lemma vx_serialize_junk_free l payload fixl csum junk1 junk2 :
  vx_serialize l payload fixl csum junk1 = vx_serialize l payload fixl csum junk2.
Proof. rewrite !vx_serialize_spec. reflexivity. Qed.

Lemma vx_serialize_no_panic l payload fixl csum junk : is_panic (fst (vx_serialize l payload fixl csum junk)) = false.
Proof. rewrite vx_serialize_spec. unfold vx_ser_spec. destruct (v_vni l >=? 16777216); reflexivity. Qed.

Definition vx_wf (l : vxlan) : Prop := 0 <= v_vni l < 16777216 /\ 0 <= v_policy l < 65536.

Lemma vx_roundtrip l payload fixl csum junk bytes l' old :
  vx_wf l -> vx_serialize l payload fixl csum junk = (Ok bytes, l') ->
  l' = l /\ bytes = vx_hdr l ++ payload /\
  vx_decode_into old bytes =
    (mkVx (vx_hdr l) payload (v_valid l) (v_vni l) (v_gbp l) (v_dontlearn l) (v_applied l) (v_policy l), Ok tt, false).
Proof.
  intros [Hv Hp]. rewrite vx_serialize_spec. unfold vx_ser_spec.
  destruct (v_vni l >=? 16777216) eqn:C; [lia|]. intros X.
  assert (E1 : bytes = vx_hdr l ++ payload) by congruence. assert (E2 : l' = l) by congruence. clear X.
  split; [exact E2|]. split; [exact E1|]. subst bytes l'.
  pose proof (zlen_nonneg payload) as Np.
  remember (vx_hdr l) as h eqn:Hh. remember (h ++ payload) as data eqn:Hdata.
  assert (Hl : length h = 8%nat) by (subst h; reflexivity).
  assert (Hn : zlen data = 8 + zlen payload) by (subst data; rewrite zlen_app; unfold zlen at 1; rewrite Hl; reflexivity).
  assert (Hnth : forall k, (k < 8)%nat -> nth k data 0 = nth k h 0) by (intros; subst data; apply app_nth1; lia).
  unfold vx_decode_into. cbv zeta. destruct (zlen data <? 8) eqn:C1; [lia|].
  rewrite !cd_slc_ok by lia. rewrite !cd_idx_ok by lia. rewrite cd_rd16_ok by lia. cbn [ml_bind].
  assert (S0 : slice data (Z.to_nat 4) (Z.to_nat 7) = slice h 4 7).
  { subst data. unfold slice. change (Z.to_nat 7) with 7%nat; change (Z.to_nat 4) with 4%nat.
    rewrite firstn_app. replace (7 - length h)%nat with 0%nat by lia. cbn [firstn]. rewrite app_nil_r. reflexivity. }
  assert (S1 : slice data (Z.to_nat 0) (Z.to_nat 8) = h) by (subst data; apply slice_from_start; rewrite Hl; reflexivity).
  assert (S2 : slice data (Z.to_nat 8) (Z.to_nat (zlen data)) = payload).
  { rewrite Hn. subst data. apply slice_to_end; [rewrite Hl; reflexivity|]. rewrite Hl. unfold zlen. lia. }
  rewrite S0, S1, S2.
  change (Z.to_nat 0) with 0%nat; change (Z.to_nat 1) with 1%nat; change (Z.to_nat 2) with 2%nat; change (Z.to_nat (2 + 1)) with 3%nat.
  rewrite !Hnth by lia. subst h. unfold vx_hdr. cbn [app nth slice skipn firstn cd_put16 ml_put32].
  unfold vx_f0, vx_f1.
  f_equal. f_equal. f_equal.
  - destruct (v_valid l), (v_gbp l); reflexivity.
  - lia.
  - destruct (v_valid l), (v_gbp l); reflexivity.
  - destruct (v_dontlearn l), (v_applied l); reflexivity.
  - destruct (v_dontlearn l), (v_applied l); reflexivity.
  - lia.
Qed.

Lemma vx_decoded_wf old data l tr : bytes_ok data -> vx_decode_into old data = (l, Ok tt, tr) -> vx_wf l.
Proof.
  intros Hb. unfold vx_decode_into. cbv zeta. destruct (zlen data <? 8) eqn:Hn; [discriminate|].
  rewrite !cd_slc_ok by lia. rewrite !cd_idx_ok by lia. rewrite cd_rd16_ok by lia. cbn [ml_bind]. intros X.
  match type of X with (?t, _, _) = _ => assert (El : l = t) by congruence end. subst l. clear X.
  unfold vx_wf. cbn [v_vni v_policy].
  pose proof (bytes_ok_slice (Z.to_nat 4) (Z.to_nat 7) data Hb) as Hs.
  pose proof (bytes_ok_nth _ 0 Hs). pose proof (bytes_ok_nth _ 1 Hs). pose proof (bytes_ok_nth _ 2 Hs).
  pose proof (bytes_ok_nth data (Z.to_nat 2) Hb). pose proof (bytes_ok_nth data (Z.to_nat (2 + 1)) Hb).
  lia.
Qed.
