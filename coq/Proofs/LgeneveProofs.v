(* Lemmas about the Geneve codec model (Model/LgeneveModel.v). *)
From GP Require Import Base ListX Codec MiscLib LgeneveModel.
From Coq Require Import Lia ZifyBool ZifyNat.
Open Scope Z_scope.
Ltac Zify.zify_post_hook ::= Z.div_mod_to_equations.

Lemma zlen_slice (l : list Z) a b : 0 <= a <= b -> b <= zlen l -> zlen (slice l (Z.to_nat a) (Z.to_nat b)) = b - a.
Proof. intros H1 H2. unfold zlen in *. rewrite slice_length by lia. lia. Qed.

(* an option is never a panic, and a decoded option is 4..128 octets inside its slice *)
Lemma gn_decode_option_spec d :
  match gn_decode_option d with
  | Ok (o, l) => 4 <= l <= zlen d /\ go_length o = l /\ zlen (go_data o) = l - 4
  | Err c => c = 1 \/ c = 2
  | Panic _ => False
  end.
Proof.
  unfold gn_decode_option. destruct (zlen d <? 4) eqn:C; [left; reflexivity|].
  rewrite cd_rd16_ok by lia. rewrite !cd_idx_ok by lia. cbn [obind].
  set (len := ((nth (Z.to_nat 3) d 0 mod 32) * 4 + 4) mod 256).
  assert (Hl : 4 <= len <= 128) by (unfold len; lia).
  destruct (zlen d <? len) eqn:C2; [right; reflexivity|].
  rewrite cd_slc_ok by lia. cbn [obind go_length go_data]. rewrite zlen_slice by lia. lia.
Qed.

Lemma gn_opts_inv : forall fuel data off len acc, 0 <= off -> 0 <= len -> off + len <= zlen data ->
  match snd (gn_opts fuel data off len acc) with
  | Ok o => o = off + len
  | Err _ => True
  | Panic _ => False
  end.
Proof.
  induction fuel as [|f IH]; intros data off len acc H0 H1 H2; cbn [gn_opts].
  - destruct (len >? 0) eqn:C; cbn [snd]; [exact I|lia].
  - destruct (len >? 0) eqn:C; cbn [snd]; [|lia].
    rewrite cd_slc_ok by lia.
    pose proof (gn_decode_option_spec (slice data (Z.to_nat off) (Z.to_nat (off + len)))) as S.
    rewrite zlen_slice in S by lia.
    destruct (gn_decode_option (slice data (Z.to_nat off) (Z.to_nat (off + len)))) as [[o l]|c|s]; cbn [snd]; [|exact I|exact S].
    specialize (IH data (off + l) (len - l) (acc ++ [o]) ltac:(lia) ltac:(lia) ltac:(lia)).
    destruct (snd (gn_opts f data (off + l) (len - l) (acc ++ [o]))); try exact IH. lia.
Qed.

(* 64 rounds are enough: the options area is at most 252 octets and an option takes at least 4 *)
Lemma gn_opts_fuel : forall fuel data off len acc, 0 <= off -> 0 <= len -> off + len <= zlen data ->
  len < 4 * Z.of_nat fuel -> snd (gn_opts fuel data off len acc) <> Err 99.
Proof.
  induction fuel as [|f IH]; intros data off len acc H0 H1 H2 H3; cbn [gn_opts].
  - destruct (len >? 0) eqn:C; cbn [snd]; [lia|discriminate].
  - destruct (len >? 0) eqn:C; cbn [snd]; [|discriminate].
    rewrite cd_slc_ok by lia.
    pose proof (gn_decode_option_spec (slice data (Z.to_nat off) (Z.to_nat (off + len)))) as S.
    rewrite zlen_slice in S by lia.
    destruct (gn_decode_option (slice data (Z.to_nat off) (Z.to_nat (off + len)))) as [[o l]|c|s]; cbn [snd].
    + apply IH; lia.
    + destruct S as [-> | ->]; discriminate.
    + discriminate.
Qed.

Lemma gn_decode_no_panic old data : is_panic (snd (fst (gn_decode_into old data))) = false.
Proof.
  unfold gn_decode_into. cbv zeta. destruct (zlen data <? 8) eqn:Hn; [reflexivity|].
  rewrite !cd_idx_ok by lia. rewrite cd_rd16_ok by lia. rewrite cd_slc_ok by lia. cbn [ml_bind].
  set (optlen := ((nth (Z.to_nat 0) data 0 mod 64) * 4) mod 256).
  assert (Ho : 0 <= optlen <= 252) by (unfold optlen; lia).
  destruct (zlen data <? optlen + 8) eqn:C; [reflexivity|].
  pose proof (gn_opts_inv 64 data 8 optlen [] ltac:(lia) ltac:(lia) ltac:(lia)) as Inv.
  destruct (gn_opts 64 data 8 optlen []) as [opts [off|c|s]]; cbn [snd] in Inv; [|reflexivity|contradiction].
  subst off. rewrite !cd_slc_ok by lia. reflexivity.
Qed.

Lemma gn_decode_fuel old data : snd (fst (gn_decode_into old data)) <> Err 99.
Proof.
  unfold gn_decode_into. cbv zeta. destruct (zlen data <? 8) eqn:Hn; [discriminate|].
  rewrite !cd_idx_ok by lia. rewrite cd_rd16_ok by lia. rewrite cd_slc_ok by lia. cbn [ml_bind].
  set (optlen := ((nth (Z.to_nat 0) data 0 mod 64) * 4) mod 256).
  assert (Ho : 0 <= optlen <= 252) by (unfold optlen; lia).
  destruct (zlen data <? optlen + 8) eqn:C; [discriminate|].
  pose proof (gn_opts_inv 64 data 8 optlen [] ltac:(lia) ltac:(lia) ltac:(lia)) as Inv.
  pose proof (gn_opts_fuel 64 data 8 optlen [] ltac:(lia) ltac:(lia) ltac:(lia) ltac:(lia)) as Fu.
  destruct (gn_opts 64 data 8 optlen []) as [opts [off|c|s]]; cbn [snd] in *; [| |contradiction].
  - subst off. rewrite !cd_slc_ok by lia. discriminate.
  - cbn [fst snd]. intros X. apply Fu. inversion X. reflexivity.
Qed.

Ltac gstep :=
  match goal with
  | |- context [ml_bind ?o _ _ _] => destruct o eqn:?; cbn [ml_bind]
  | |- context [if ?c then _ else _] => destruct c eqn:?
  | |- context [match gn_opts ?a ?b ?c ?d ?e with _ => _ end] => destruct (gn_opts a b c d e) as [? [?|?|?]]
  end.

Lemma gn_decode_fresh old data :
  let r1 := gn_decode_into old data in
  let r2 := gn_decode_into gn_fresh data in
  snd (fst r1) = snd (fst r2) /\ snd r1 = snd r2 /\
  (snd (fst r1) = Ok tt -> fst (fst r1) = fst (fst r2)).
Proof.
  cbv zeta. unfold gn_decode_into. cbv zeta.
  repeat (gstep; try solve [cbn [fst snd]; split; [reflexivity | split; [reflexivity | try (intros X; discriminate X); try reflexivity]]]).
  all: try (cbn [fst snd]; split; [reflexivity | split; [reflexivity | intros _; reflexivity]]).
Qed.
