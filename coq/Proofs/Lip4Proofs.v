(* Lemmas about the IPv4 codec model (Model/Lip4Model.v). *)
From GP Require Import Base ListX Codec Lip4Model.
From Coq Require Import Lia ZifyBool ZifyNat.
Open Scope Z_scope.
Ltac Zify.zify_post_hook ::= Z.div_mod_to_equations.

(* ------------------------------------------------------------------ option loop of the decoder *)

Lemma slice_full_length (l : list Z) a : (a <= length l)%nat -> length (slice l a (length l)) = (length l - a)%nat.
Proof. intros H. apply slice_length. lia. Qed.

Lemma parse_no_panic : forall fuel hd, is_panic (op_out (ip4_parse_opts fuel hd)) = false.
Proof.
  induction fuel as [|f IH]; intros hd; cbn [ip4_parse_opts]; [reflexivity|].
  destruct hd as [|t rest]; [reflexivity|].
  destruct (t =? 0); [reflexivity|]. destruct (t =? 1); [cbn; apply IH|].
  destruct rest as [|len r]; [reflexivity|].
  destruct (zlen (t :: len :: r) <? len) eqn:A; [reflexivity|].
  destruct (len <=? 2) eqn:B; [reflexivity|].
  rewrite (cd_slc_ok (t :: len :: r) 2 len) by lia.
  rewrite (cd_slc_ok (t :: len :: r) len (zlen (t :: len :: r))) by lia.
  cbn. apply IH.
Qed.

Lemma parse_fuel : forall fuel hd, (length hd < fuel)%nat -> op_out (ip4_parse_opts fuel hd) <> Err ip4_fuel_err.
Proof.
  induction fuel as [|f IH]; intros hd H; [lia|]. cbn [ip4_parse_opts].
  destruct hd as [|t rest]; [discriminate|].
  destruct (t =? 0); [discriminate|].
  destruct (t =? 1); [cbn; apply IH; cbn in H; lia|].
  destruct rest as [|len r]; [discriminate|].
  destruct (zlen (t :: len :: r) <? len) eqn:A; [discriminate|].
  destruct (len <=? 2) eqn:B; [discriminate|].
  rewrite (cd_slc_ok (t :: len :: r) 2 len) by lia.
  rewrite (cd_slc_ok (t :: len :: r) len (zlen (t :: len :: r))) by lia.
  cbn [op_cons op_out]. apply IH.
  unfold zlen in *. rewrite Nat2Z.id. rewrite slice_full_length by lia. cbn [length] in *. lia.
Qed.

(* ------------------------------------------------------------------ C19: the decoder never panics *)

Lemma dbind_ok {A} (v : A) st tr f : dbind (Ok v) st tr f = f v.
Proof. reflexivity. Qed.

Lemma decode_no_panic fixed old data : is_panic (snd (fst (ip4_decode_gen fixed old data))) = false.
Proof.
  unfold ip4_decode_gen. cbv zeta.
  destruct (zlen data <? 20) eqn:Hn; [reflexivity|].
  rewrite (cd_rd16_ok data 2) by lia. rewrite dbind_ok.
  rewrite (cd_idx_ok data 0) by lia. rewrite dbind_ok.
  set (len0 := nth (Z.to_nat 2) data 0 * 256 + nth (Z.to_nat (2 + 1)) data 0).
  set (ihl := nth (Z.to_nat 0) data 0 mod 16).
  set (len1 := if len0 =? 0 then zlen data mod 65536 else len0).
  destruct (len1 <? 20) eqn:H1; [reflexivity|].
  destruct (ihl <? 5) eqn:H2; [reflexivity|].
  assert (Hihl : 5 <= ihl < 16) by (unfold ihl in *; lia).
  replace ((ihl * 4) mod 256) with (ihl * 4) by lia.
  destruct (ihl * 4 >? len1) eqn:H3; [reflexivity|].
  set (d1 := if zlen data - len1 >? 0 then cd_slc data 0 len1 else Ok data).
  assert (Hd1 : exists data1, d1 = Ok data1 /\ 20 <= zlen data1 /\
            (zlen data - len1 <? 0 = false -> ihl * 4 <= zlen data1)).
  { unfold d1. destruct (zlen data - len1 >? 0) eqn:C.
    - rewrite cd_slc_ok by lia. eexists; split; [reflexivity|].
      unfold zlen at 1 3. unfold slice. rewrite skipn_length, firstn_length. unfold zlen in *. lia.
    - exists data. split; [reflexivity|]. lia. }
  destruct Hd1 as [data1 [E1 [L1 L2]]]. rewrite E1, dbind_ok.
  destruct ((zlen data - len1 <? 0) && (ihl * 4 >? zlen data1)) eqn:H4; [reflexivity|].
  assert (Hhl : ihl * 4 <= zlen data1) by (destruct (zlen data - len1 <? 0) eqn:C; [lia | apply L2; reflexivity]).
  rewrite (cd_slc_ok data1 0 (ihl * 4)) by lia. rewrite dbind_ok.
  rewrite (cd_slc_ok data1 (ihl * 4) (zlen data1)) by lia. rewrite dbind_ok.
  rewrite (cd_slc_ok data1 20 (ihl * 4)) by lia. rewrite dbind_ok.
  match goal with |- context [ip4_parse_opts ?f ?h] => set (r := ip4_parse_opts f h) end.
  pose proof (parse_no_panic (S (length (slice data1 (Z.to_nat 20) (Z.to_nat (ihl * 4)))))
                (slice data1 (Z.to_nat 20) (Z.to_nat (ihl * 4)))) as NP. fold r in NP.
  destruct (op_out r) eqn:Er; [|reflexivity|discriminate].
  rewrite !cd_rd16_ok by lia. rewrite !dbind_ok.
  rewrite !cd_idx_ok by lia. rewrite !dbind_ok.
  rewrite !cd_slc_ok by lia. rewrite !dbind_ok. reflexivity.
Qed.

(* ------------------------------------------------------------------ C05: no stale state *)

Ltac dstep :=
  match goal with
  | |- context [dbind ?o _ _ _] => destruct o eqn:?; cbn [dbind]
  | |- context [if ?c then _ else _] => destruct c eqn:?
  | |- context [match op_out ?r with _ => _ end] => destruct (op_out r) eqn:?
  end.

Ltac fresh_fin :=
  cbn [fst snd]; split; [reflexivity | split; [reflexivity | try (intros X; discriminate X)]].

Lemma decode_fresh old data :
  let r1 := ip4_decode_into old data in
  let r2 := ip4_decode_into ip4_fresh data in
  snd (fst r1) = snd (fst r2) /\ snd r1 = snd r2 /\
  (snd (fst r1) = Ok tt -> fst (fst r1) = fst (fst r2)).
Proof.
  cbv zeta. unfold ip4_decode_into, ip4_decode_gen. cbv zeta.
  repeat (dstep; try solve [fresh_fin]).
  all: fresh_fin; intros _; reflexivity.
Qed.

(* the unchanged code: Padding survives *)
Definition c05_witness_a : list Z := [70;0;0;24;0;0;0;0;64;17;0;0;10;0;0;1;10;0;0;2;0;170;187;204].
Definition c05_witness_b : list Z := [70;0;0;24;0;0;0;0;64;17;0;0;10;0;0;1;10;0;0;2;1;1;1;1].

Lemma decode_fresh_orig_refuted :
  exists old data, old = fst (fst (ip4_decode_into_orig ip4_fresh c05_witness_a)) /\
    snd (fst (ip4_decode_into_orig old data)) = Ok tt /\
    i4_padding (fst (fst (ip4_decode_into_orig old data))) = [170;187;204] /\
    i4_padding (fst (fst (ip4_decode_into_orig ip4_fresh data))) = [].
Proof. eexists; exists c05_witness_b. split; [reflexivity|]. vm_compute. repeat split. Qed.

(* ------------------------------------------------------------------ C01: renderers on every state decoding leaves *)

Lemma cd_slc_len l a b v : cd_slc l a b = Ok v -> zlen v = b - a.
Proof.
  unfold cd_slc. destruct (0 <=? a) eqn:A, (a <=? b) eqn:B, (b <=? zlen l) eqn:C; cbn; try discriminate.
  intros E; inversion E. unfold zlen in *. rewrite slice_length by lia. lia.
Qed.

Lemma decode_render fixed old data :
  ip4_render_panics old = false -> ip4_render_panics (fst (fst (ip4_decode_gen fixed old data))) = false.
Proof.
  intros H. unfold ip4_decode_gen. cbv zeta.
  repeat (dstep; try solve [cbn; exact H]).
  all: cbn [fst snd]; unfold ip4_render_panics; cbn [i4_src i4_dst];
    repeat match goal with E : cd_slc _ _ _ = Ok _ |- _ => apply cd_slc_len in E end; lia.
Qed.

(* ------------------------------------------------------------------ serialization: array writes *)

Definition omap {A B} (f : A -> B) (o : outcome A) : outcome B :=
  match o with Ok v => Ok (f v) | Err c => Err c | Panic s => Panic s end.

Lemma zlen_app (a b : list Z) : zlen (a ++ b) = zlen a + zlen b.
Proof. unfold zlen. rewrite app_length. lia. Qed.

Lemma zlen_nonneg (a : list Z) : 0 <= zlen a.
Proof. unfold zlen. lia. Qed.

Lemma cd_wrc_ok b i vs : 0 <= i -> i + zlen vs <= zlen b -> cd_wrc b i vs = Ok (cd_wr b i vs).
Proof. intros. unfold cd_wrc. destruct (0 <=? i) eqn:A, (i + zlen vs <=? zlen b) eqn:B; try reflexivity; lia. Qed.

Lemma cd_wr_app_r H O cur vs : zlen H <= cur -> cd_wr (H ++ O) cur vs = H ++ cd_wr O (cur - zlen H) vs.
Proof.
  intros L. unfold cd_wr. replace (Z.to_nat cur) with (length H + Z.to_nat (cur - zlen H))%nat by (unfold zlen in *; lia).
  apply upd_range_app_r.
Qed.

Lemma cd_wrc_app_r H O cur vs : zlen H <= cur ->
  cd_wrc (H ++ O) cur vs = omap (app H) (cd_wrc O (cur - zlen H) vs).
Proof.
  intros L. unfold cd_wrc. rewrite zlen_app. pose proof (zlen_nonneg H).
  destruct (0 <=? cur) eqn:A, (cur + zlen vs <=? zlen H + zlen O) eqn:B,
           (0 <=? cur - zlen H) eqn:C, (cur - zlen H + zlen vs <=? zlen O) eqn:D; try lia; cbn [andb omap]; try reflexivity.
  rewrite cd_wr_app_r by lia. reflexivity.
Qed.

Lemma ser_opts_app fixed : forall opts H O cur, zlen H <= cur ->
  ip4_ser_opts fixed opts (H ++ O) cur = omap (app H) (ip4_ser_opts fixed opts O (cur - zlen H)).
Proof.
  induction opts as [|o t IH]; intros H O cur L; cbn [ip4_ser_opts]; [reflexivity|].
  destruct (ot o =? 0).
  { rewrite cd_wrc_app_r by lia. destruct (cd_wrc O (cur - zlen H) [0]); cbn [omap obind]; try reflexivity.
    rewrite IH by lia. replace (cur + 1 - zlen H) with (cur - zlen H + 1) by lia. reflexivity. }
  destruct (ot o =? 1).
  { rewrite cd_wrc_app_r by lia. destruct (cd_wrc O (cur - zlen H) [1]); cbn [omap obind]; try reflexivity.
    rewrite IH by lia. replace (cur + 1 - zlen H) with (cur - zlen H + 1) by lia. reflexivity. }
  destruct (fixed && (ol o <? 2)); [reflexivity|].
  rewrite cd_wrc_app_r by lia. destruct (cd_wrc O (cur - zlen H) [ot o]) as [b1| |]; cbn [omap obind]; try reflexivity.
  rewrite cd_wrc_app_r by lia. replace (cur + 1 - zlen H) with (cur - zlen H + 1) by lia.
  destruct (cd_wrc b1 (cur - zlen H + 1) [ol o]) as [b2| |]; cbn [omap obind]; try reflexivity.
  destruct (ol o <? 2) eqn:OL; [reflexivity|]. destruct (zlen (od o) >? ol o - 2); [reflexivity|].
  rewrite zlen_app.
  replace (cur + ol o <=? zlen H + zlen b2) with (cur - zlen H + ol o <=? zlen b2) by lia.
  destruct (cur - zlen H + ol o <=? zlen b2); [|reflexivity].
  rewrite cd_wr_app_r by lia. rewrite IH by lia.
  replace (cur + ol o - zlen H) with (cur - zlen H + ol o) by lia.
  replace (cur + 2 - zlen H) with (cur - zlen H + 2) by lia. reflexivity.
Qed.

Lemma upd_range_cons {A} (x : A) vs : forall l i, upd_range (x :: l) (S i) vs = x :: upd_range l i vs.
Proof. induction vs as [|v vs IH]; intros l i; cbn; [reflexivity|]. apply IH. Qed.

Lemma upd_range_all {A} (vs a : list A) : length a = length vs -> upd_range a 0 vs = vs.
Proof. intros H. pose proof (upd_range_prefix vs a [] H) as P. rewrite !app_nil_r in P. exact P. Qed.

Lemma to4_len a s : ip4_to4 a = Some s -> length s = 4%nat.
Proof.
  unfold ip4_to4. destruct (zlen a =? 4) eqn:A.
  - intros E; inversion E; subst. unfold zlen in A. lia.
  - destruct (zlen a =? 16) eqn:B; cbn [andb]; [|discriminate].
    destruct (forallb _ _ && _ && _); [|discriminate]. intros E. assert (E' : s = skipn 12 a) by congruence. subst s.
    rewrite skipn_length. unfold zlen in B. lia.
Qed.

(* the header as a junk-free list *)
Definition ip4_hdr (l : ip4) (s4 d4 : list Z) (ck : Z) : list Z :=
  [Z.lor ((i4_version l * 16) mod 256) (i4_ihl l); i4_tos l] ++ cd_put16 (i4_length l) ++ cd_put16 (i4_id l)
  ++ cd_put16 (Z.lor ((i4_flags l * 8192) mod 65536) (i4_frag l)) ++ [i4_ttl l; i4_proto l]
  ++ cd_put16 ck ++ s4 ++ d4.

Definition ip4_ser_spec (l1 : ip4) (optlen : Z) (csum : bool) (payload : list Z) : outcome (list Z) * ip4 :=
  match ip4_to4 (i4_src l1), ip4_to4 (i4_dst l1) with
  | Some s4, Some d4 =>
    let l2 := set_addrs l1 s4 d4 in
    match ip4_ser_opts true (i4_opts l1) (repeat 0 (Z.to_nat optlen)) 0 with
    | Ok ob =>
      let ck := if csum then cd_fold (cd_csum (ip4_hdr l1 s4 d4 0 ++ ob) 0) else i4_csum l1 in
      (Ok (ip4_hdr l1 s4 d4 ck ++ ob ++ payload), set_csum l2 ck)
    | Err c => (Err c, l2)
    | Panic s => (Panic s, l2)
    end
  | _, _ => (Err 31, l1)
  end.

Lemma list20 (h : list Z) : length h = 20%nat ->
  exists a0 a1 a2 a3 a4 a5 a6 a7 a8 a9 b0 b1 b2 b3 b4 b5 b6 b7 b8 b9,
    h = [a0;a1;a2;a3;a4;a5;a6;a7;a8;a9;b0;b1;b2;b3;b4;b5;b6;b7;b8;b9].
Proof.
  intros H. do 20 (destruct h as [|? h]; [discriminate H|]). destruct h; [|discriminate H].
  repeat eexists.
Qed.

Lemma list4 (h : list Z) : length h = 4%nat -> exists a0 a1 a2 a3, h = [a0;a1;a2;a3].
Proof.
  intros H. do 4 (destruct h as [|? h]; [discriminate H|]). destruct h; [|discriminate H]. repeat eexists.
Qed.

Lemma zlen1 (x : Z) : zlen [x] = 1. Proof. reflexivity. Qed.
Lemma zlen_put16 x : zlen (cd_put16 x) = 2. Proof. reflexivity. Qed.
Lemma zlen4 (a b c d : Z) : zlen [a;b;c;d] = 4. Proof. reflexivity. Qed.

Lemma ser_body_spec l1 optlen csum payload bytes0 : 0 <= optlen -> zlen bytes0 = 20 + optlen ->
  ip4_ser_body true l1 optlen csum payload bytes0 = ip4_ser_spec l1 optlen csum payload.
Proof.
  intros Hopt Hlen. unfold ip4_ser_body, ip4_ser_spec. cbv zeta.
  do 7 (rewrite cd_wrc_ok by (rewrite ?cd_wr_length, ?zlen1, ?zlen_put16; lia); cbn [obind]).
  destruct (ip4_to4 (i4_src l1)) as [s4|] eqn:Es; [|reflexivity].
  destruct (ip4_to4 (i4_dst l1)) as [d4|] eqn:Ed; [|reflexivity].
  destruct (list4 s4 (to4_len _ _ Es)) as [s0 [s1 [s2 [s3 ->]]]].
  destruct (list4 d4 (to4_len _ _ Ed)) as [d0 [d1 [d2 [d3 ->]]]].
  do 2 (rewrite cd_wrc_ok by (rewrite ?cd_wr_length, ?zlen4; lia); cbn [obind]).
  cbn [i4_opts set_addrs andb].
  (* bytes0 = 20 explicit cells ++ options area *)
  assert (Hsplit : bytes0 = firstn 20 bytes0 ++ skipn 20 bytes0) by (symmetry; apply firstn_skipn).
  assert (Hh : length (firstn 20 bytes0) = 20%nat) by (rewrite firstn_length; unfold zlen in Hlen; lia).
  assert (Ho : length (skipn 20 bytes0) = Z.to_nat optlen) by (rewrite skipn_length; unfold zlen in Hlen; lia).
  destruct (list20 _ Hh) as [a0 [a1 [a2 [a3 [a4 [a5 [a6 [a7 [a8 [a9 [b0 [b1 [b2 [b3 [b4 [b5 [b6 [b7 [b8 [b9 Eh]]]]]]]]]]]]]]]]]]]].
  rewrite Eh in Hsplit. set (o := skipn 20 bytes0) in *. rewrite Hsplit.
  unfold cd_wr at 1 2 3 4 5 6 7 8 9 10.
  change (Z.to_nat 0) with 0%nat; change (Z.to_nat 1) with 1%nat; change (Z.to_nat 2) with 2%nat;
  change (Z.to_nat 4) with 4%nat; change (Z.to_nat 6) with 6%nat; change (Z.to_nat 8) with 8%nat;
  change (Z.to_nat 9) with 9%nat; change (Z.to_nat 12) with 12%nat; change (Z.to_nat 16) with 16%nat;
  change (Z.to_nat 20) with 20%nat.
  cbn [app cd_put16 upd_range upd].
  rewrite !upd_range_cons. rewrite upd_range_all by (rewrite repeat_length; exact Ho).
  match goal with |- context [ip4_ser_opts true ?opts (?x0 :: ?x1 :: ?x2 :: ?x3 :: ?x4 :: ?x5 :: ?x6 :: ?x7 :: ?x8 :: ?x9 ::
                                ?y0 :: ?y1 :: ?y2 :: ?y3 :: ?y4 :: ?y5 :: ?y6 :: ?y7 :: ?y8 :: ?y9 :: ?z) 20] =>
    change (x0 :: x1 :: x2 :: x3 :: x4 :: x5 :: x6 :: x7 :: x8 :: x9 :: y0 :: y1 :: y2 :: y3 :: y4 :: y5 :: y6 :: y7 :: y8 :: y9 :: z)
      with ([x0;x1;x2;x3;x4;x5;x6;x7;x8;x9;y0;y1;y2;y3;y4;y5;y6;y7;y8;y9] ++ z);
    rewrite (ser_opts_app true opts [x0;x1;x2;x3;x4;x5;x6;x7;x8;x9;y0;y1;y2;y3;y4;y5;y6;y7;y8;y9] z 20) by (cbn; lia)
  end.
  change (20 - zlen _) with 0.
  destruct (ip4_ser_opts true (i4_opts l1) (repeat 0 (Z.to_nat optlen)) 0) as [O| |]; cbn [omap obind]; try reflexivity.
  cbn [app].
  destruct csum.
  - do 2 (rewrite cd_wrc_ok by (rewrite ?cd_wr_length, ?zlen_put16, ?zlen1; unfold zlen; cbn [length]; lia); cbn [obind]).
    rewrite cd_wrc_ok by (rewrite ?cd_wr_length, ?zlen_put16, ?zlen1; unfold zlen; cbn [length]; lia). cbn [obind].
    unfold cd_wr. change (Z.to_nat 10) with 10%nat; change (Z.to_nat 11) with 11%nat.
    unfold ip4_hdr. cbn [app cd_put16 upd_range upd]. reflexivity.
  - rewrite cd_wrc_ok by (rewrite ?cd_wr_length, ?zlen_put16, ?zlen1; unfold zlen; cbn [length]; lia). cbn [obind].
    unfold cd_wr. change (Z.to_nat 10) with 10%nat.
    unfold ip4_hdr. cbn [app cd_put16 upd_range upd i4_csum set_addrs]. reflexivity.
Qed.

(* ------------------------------------------------------------------ C07: junk-freedom and no panic *)

Lemma fold_size_range : forall opts acc, 0 <= acc < 256 ->
  0 <= fold_left (fun s o => (s + opt_size1 o) mod 256) opts acc < 256.
Proof. induction opts as [|o t IH]; intros acc H; cbn [fold_left]; [exact H|]. apply IH. lia. Qed.

Lemma opt_size_range opts : 0 <= ip4_opt_size opts < 256.
Proof.
  unfold ip4_opt_size. pose proof (fold_size_range opts 0 ltac:(lia)) as R.
  set (s := fold_left _ opts 0) in *. cbv zeta. destruct (s mod 4 =? 0); lia.
Qed.

Definition ip4_ser_full_spec (l : ip4) (payload : list Z) (fixl csum : bool) : outcome (list Z) * ip4 :=
  if ip4_opt_total (i4_opts l) >? 40 then (Err 30, l) else
  let optlen := ip4_opt_size (i4_opts l) in
  ip4_ser_spec (if fixl then ip4_fix_lengths l optlen (20 + optlen + zlen payload) else l) optlen csum payload.

Lemma serialize_spec l payload fixl csum junk :
  ip4_serialize l payload fixl csum junk = ip4_ser_full_spec l payload fixl csum.
Proof.
  unfold ip4_serialize, ip4_serialize_gen, ip4_ser_full_spec. cbn [andb].
  destruct (ip4_opt_total (i4_opts l) >? 40); [reflexivity|]. cbv zeta.
  pose proof (opt_size_range (i4_opts l)).
  apply ser_body_spec; [lia|]. apply cd_region_length. lia.
Qed.

Lemma serialize_junk_free l payload fixl csum junk1 junk2 :
  ip4_serialize l payload fixl csum junk1 = ip4_serialize l payload fixl csum junk2.
Proof. rewrite !serialize_spec. reflexivity. Qed.

(* the unchanged code leaks the junk: one 3-byte option, the 4th byte of the options area *)
Definition c07_witness : ip4 := mkIp4 [] [] 4 5 0 0 1 0 0 64 17 0 [10;0;0;1] [10;0;0;2] [mkOpt 7 3 [170]] [].
Lemma serialize_junk_orig_refuted :
  fst (ip4_serialize_orig c07_witness [] true true (repeat 0 24)) <>
  fst (ip4_serialize_orig c07_witness [] true true (repeat 170 24)).
Proof. vm_compute. discriminate. Qed.

Definition opt_typed (o : ip4opt) : Prop := 0 <= ot o < 256 /\ 0 <= ol o < 256.

Fixpoint opt_sum (opts : list ip4opt) : Z :=
  match opts with [] => 0 | o :: t => opt_size1 o + opt_sum t end.

Lemma total_sum_acc : forall opts acc, fold_left (fun s o => s + opt_size1 o) opts acc = acc + opt_sum opts.
Proof. induction opts as [|o t IH]; intros acc; cbn [fold_left opt_sum]; [lia|]. rewrite IH. lia. Qed.

Lemma total_sum opts : ip4_opt_total opts = opt_sum opts.
Proof. unfold ip4_opt_total. rewrite total_sum_acc. lia. Qed.

Lemma size1_pos o : opt_typed o -> 0 <= opt_size1 o.
Proof. unfold opt_typed, opt_size1. destruct ((ot o =? 0) || (ot o =? 1)); lia. Qed.

Lemma opt_sum_nonneg opts : Forall opt_typed opts -> 0 <= opt_sum opts.
Proof. induction 1 as [|o t Ho Ht IH]; cbn [opt_sum]; [lia|]. pose proof (size1_pos o Ho). lia. Qed.

Lemma fold_mod_sum : forall opts acc, 0 <= acc < 256 ->
  fold_left (fun s o => (s + opt_size1 o) mod 256) opts acc = (acc + opt_sum opts) mod 256.
Proof.
  induction opts as [|o t IH]; intros acc H; cbn [fold_left opt_sum].
  - rewrite Z.add_0_r. symmetry. apply Z.mod_small. exact H.
  - rewrite IH by lia. rewrite Zplus_mod_idemp_l. f_equal. lia.
Qed.

Lemma opt_size_small opts : 0 <= opt_sum opts <= 40 ->
  opt_sum opts <= ip4_opt_size opts <= 40 /\ ip4_opt_size opts mod 4 = 0 /\ ip4_opt_size opts < opt_sum opts + 4.
Proof.
  intros H. unfold ip4_opt_size. rewrite fold_mod_sum by lia. rewrite Z.add_0_l.
  rewrite (Z.mod_small (opt_sum opts) 256) by lia. cbv zeta.
  destruct (opt_sum opts mod 4 =? 0) eqn:E; lia.
Qed.

Lemma ser_opts_no_panic : forall opts b cur, Forall opt_typed opts -> 0 <= cur ->
  cur + opt_sum opts <= zlen b -> is_panic (ip4_ser_opts true opts b cur) = false.
Proof.
  induction opts as [|o t IH]; intros b cur Ht Hc Hs; cbn [ip4_ser_opts]; [reflexivity|].
  inversion Ht as [|? ? Ho Ht']; subst. pose proof (opt_sum_nonneg t Ht') as Hn.
  cbn [opt_sum] in Hs. unfold opt_size1 in Hs.
  destruct (ot o =? 0) eqn:E0.
  { cbn [orb] in Hs. rewrite cd_wrc_ok by (rewrite ?zlen1; lia). cbn [obind]. apply IH; auto; rewrite ?cd_wr_length; lia. }
  destruct (ot o =? 1) eqn:E1.
  { cbn [orb] in Hs. rewrite cd_wrc_ok by (rewrite ?zlen1; lia). cbn [obind]. apply IH; auto; rewrite ?cd_wr_length; lia. }
  cbn [orb] in Hs. cbn [andb].
  destruct (ol o <? 2) eqn:E2; [reflexivity|].
  rewrite cd_wrc_ok by (rewrite ?zlen1; lia). cbn [obind].
  rewrite cd_wrc_ok by (rewrite ?cd_wr_length, ?zlen1; lia). cbn [obind].
  destruct (zlen (od o) >? ol o - 2); [reflexivity|].
  rewrite !cd_wr_length.
  destruct (cur + ol o <=? zlen b) eqn:E3; [|lia].
  apply IH; auto; rewrite ?cd_wr_length; lia.
Qed.

Lemma fix_lengths_opts l a b : i4_opts (ip4_fix_lengths l a b) = i4_opts l.
Proof. reflexivity. Qed.

Lemma zlen_repeat (x : Z) n : zlen (repeat x n) = Z.of_nat n.
Proof. unfold zlen. rewrite repeat_length. reflexivity. Qed.

Lemma serialize_no_panic l payload fixl csum junk :
  Forall opt_typed (i4_opts l) -> is_panic (fst (ip4_serialize l payload fixl csum junk)) = false.
Proof.
  intros Ht. rewrite serialize_spec. unfold ip4_ser_full_spec.
  destruct (ip4_opt_total (i4_opts l) >? 40) eqn:E; [reflexivity|]. cbv zeta.
  unfold ip4_ser_spec.
  set (l1 := if fixl then _ else l).
  assert (Eo : i4_opts l1 = i4_opts l) by (unfold l1; destruct fixl; reflexivity).
  destruct (ip4_to4 (i4_src l1)); [|reflexivity]. destruct (ip4_to4 (i4_dst l1)); [|reflexivity].
  rewrite Eo. rewrite total_sum in E. pose proof (opt_sum_nonneg _ Ht).
  pose proof (opt_size_small (i4_opts l) ltac:(lia)) as [S1 [S2 S3]].
  pose proof (ser_opts_no_panic (i4_opts l) (repeat 0 (Z.to_nat (ip4_opt_size (i4_opts l)))) 0 Ht ltac:(lia)) as NP.
  rewrite zlen_repeat in NP. specialize (NP ltac:(lia)).
  destruct (ip4_ser_opts true (i4_opts l) _ 0); cbn in *; try reflexivity. discriminate NP.
Qed.

(* the unchanged code panics on values built from public fields *)
Definition c07_panic_witness : ip4 := mkIp4 [] [] 4 5 0 0 1 0 0 64 17 0 [10;0;0;1] [10;0;0;2] [mkOpt 5 0 []] [].
Lemma serialize_panic_orig_refuted :
  Forall opt_typed (i4_opts c07_panic_witness) /\
  is_panic (fst (ip4_serialize_orig c07_panic_witness [] true true [])) = true.
Proof. split; [repeat constructor; cbn; lia | vm_compute; reflexivity]. Qed.
