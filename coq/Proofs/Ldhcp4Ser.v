(* Closed form of the (repaired) DHCPv4 serializer model under dh_wf: the zeroed message filled front to back. *)
From GP Require Import Base ListX Codec MiscLib Ldhcp4Model Ldhcp4Proofs.
From Coq Require Import Lia ZifyBool ZifyNat.
Open Scope Z_scope.
Ltac Zify.zify_post_hook ::= Z.div_mod_to_equations.

(* b = the octets written so far, then zeros up to n *)
Definition zt (b pre : list Z) (n : Z) : Prop := b = pre ++ repeat 0 (Z.to_nat (n - zlen pre)) /\ zlen pre <= n.

Lemma skipn_repeat {A} (x : A) : forall k m, skipn m (repeat x k) = repeat x (k - m).
Proof. induction k as [|k IH]; intros [|m]; cbn [repeat skipn Nat.sub]; try reflexivity. apply IH. Qed.

Lemma zlen_repeat (x : Z) k : zlen (repeat x k) = Z.of_nat k.
Proof. unfold zlen. rewrite repeat_length. reflexivity. Qed.

Lemma zt_init n : 0 <= n -> zt (repeat 0 (Z.to_nat n)) [] n.
Proof. intros H. split; [cbn [app]; change (zlen []) with 0; rewrite Z.sub_0_r; reflexivity|change (zlen []) with 0; lia]. Qed.

Lemma zt_zlen b pre n : zt b pre n -> zlen b = n.
Proof. intros [-> H]. rewrite zlen_app, zlen_repeat. pose proof (zlen_nonneg pre). lia. Qed.

Lemma zt_wrc b pre n i vs : zt b pre n -> i = zlen pre -> zlen pre + zlen vs <= n ->
  ml_wrc b i vs = Ok ((pre ++ vs) ++ repeat 0 (Z.to_nat (n - zlen (pre ++ vs)))) /\ zt ((pre ++ vs) ++ repeat 0 (Z.to_nat (n - zlen (pre ++ vs)))) (pre ++ vs) n.
Proof.
  intros [-> Hp] -> Hle. pose proof (zlen_nonneg vs) as Nv. pose proof (zlen_nonneg pre) as Np.
  rewrite ml_wrc_tile by (try reflexivity; rewrite zlen_repeat; lia).
  rewrite skipn_repeat. rewrite zlen_app. replace (Z.to_nat (n - zlen pre) - length vs)%nat with (Z.to_nat (n - (zlen pre + zlen vs))) by (unfold zlen; lia).
  split; [reflexivity|]. split; [rewrite zlen_app; reflexivity|rewrite zlen_app; lia].
Qed.

Lemma zt_skip b pre n m : zt b pre n -> 0 <= m -> zlen pre + m <= n -> zt b (pre ++ repeat 0 (Z.to_nat m)) n.
Proof.
  intros [-> Hp] Hm Hle. pose proof (zlen_nonneg pre) as Np. split; [|rewrite zlen_app, zlen_repeat; lia].
  rewrite <- app_assoc. f_equal. rewrite <- repeat_app. f_equal. rewrite zlen_app, zlen_repeat. lia.
Qed.

Lemma zt_done b pre n : zt b pre n -> zlen pre = n -> b = pre.
Proof. intros [-> _] H. rewrite H, Z.sub_diag. cbn [Z.to_nat repeat]. apply app_nil_r. Qed.

(* dh_put with exactly fitting data *)
Lemma zt_put b pre n a bnd vs : zt b pre n -> a = zlen pre -> zlen vs = bnd - a -> bnd <= n ->
  exists b', dh_put b a bnd vs = Ok b' /\ zt b' (pre ++ vs) n.
Proof.
  intros T -> Hv Hb. pose proof (zlen_nonneg vs) as Nv. pose proof (zlen_nonneg pre) as Np. pose proof (zt_zlen _ _ _ T) as Lb.
  unfold dh_put. rewrite cd_slc_ok by lia. cbn [obind]. rewrite firstn_all2 by (unfold zlen in *; lia).
  destruct (zt_wrc b pre n (zlen pre) vs T eq_refl ltac:(lia)) as [E T']. rewrite E. eexists; split; [reflexivity|exact T'].
Qed.

(* dh_put with shorter data: the rest of the field stays zero *)
Lemma zt_put_short b pre n a bnd vs : zt b pre n -> a = zlen pre -> zlen vs <= bnd - a -> bnd <= n ->
  exists b', dh_put b a bnd vs = Ok b' /\ zt b' (pre ++ vs ++ repeat 0 (Z.to_nat (bnd - a - zlen vs))) n.
Proof.
  intros T -> Hv Hb. pose proof (zlen_nonneg vs) as Nv. pose proof (zlen_nonneg pre) as Np. pose proof (zt_zlen _ _ _ T) as Lb.
  unfold dh_put. rewrite cd_slc_ok by lia. cbn [obind]. rewrite firstn_all2 by (unfold zlen in *; lia).
  destruct (zt_wrc b pre n (zlen pre) vs T eq_refl ltac:(lia)) as [E T']. rewrite E. eexists; split; [reflexivity|].
  rewrite app_assoc. apply zt_skip; [exact T'|lia|rewrite zlen_app; lia].
Qed.

Lemma zt_copy b pre n i vs : zt b pre n -> i = zlen pre -> zlen pre + zlen vs <= n ->
  exists b', ml_copy b i vs = Ok b' /\ zt b' (pre ++ vs) n.
Proof.
  intros T -> Hle. pose proof (zlen_nonneg vs) as Nv. pose proof (zlen_nonneg pre) as Np. pose proof (zt_zlen _ _ _ T) as Lb.
  rewrite ml_copy_ok by lia. rewrite firstn_all2 by (unfold zlen in *; lia).
  destruct (zt_wrc b pre n (zlen pre) vs T eq_refl Hle) as [E T']. rewrite ml_wrc_ok in E by lia. inversion E as [E']. rewrite E'. eexists; split; [reflexivity|exact T'].
Qed.

(* an option as SerializeTo writes it (Length as FixLengths set it) *)
Definition dh_onorm (o : dopt) : dopt := mkDo (do_type o) (zlen (do_data o)) (do_data o).
Definition dh_obytes (o : dopt) : list Z :=
  if do_type o =? 0 then [0] else [do_type o; zlen (do_data o)] ++ do_data o.
Definition dh_owf (o : dopt) : Prop :=
  0 <= do_type o < 255 /\ zlen (do_data o) <= 255 /\ bytes_ok (do_data o) /\ (do_type o = 0 -> do_data o = [] /\ do_len o = 0).

Lemma dh_fix_opts_wf : forall l, Forall dh_owf l -> dh_fix_opts l = (map dh_onorm l, true).
Proof.
  induction l as [|o t IH]; intros W; [reflexivity|]. inversion W as [|? ? [Ht [Hl _]] Wt]; subst. cbn [dh_fix_opts map].
  replace (255 <? zlen (do_data o)) with false by lia. rewrite (IH Wt). reflexivity.
Qed.

Lemma dh_obytes_len o : dh_owf o -> zlen (dh_obytes o) = dh_osize false (dh_onorm o).
Proof.
  intros [Ht [Hl [_ Hp]]]. unfold dh_obytes, dh_osize, dh_onorm. cbn [do_type do_data]. destruct (do_type o =? 0) eqn:E; [reflexivity|].
  rewrite zlen_app. change (zlen [do_type o; zlen (do_data o)]) with 2. lia.
Qed.

Lemma dh_write_opts_zt : forall l b pre n off, Forall dh_owf l -> zt b pre n -> off = zlen pre ->
  zlen pre + dh_osum (map dh_onorm l) + 1 <= n ->
  exists b', dh_write_opts b off (map dh_onorm l) = Ok (b', off + dh_osum (map dh_onorm l)) /\ zt b' (pre ++ concat (map dh_obytes l)) n.
Proof.
  induction l as [|o t IH]; intros b pre n off W T Ho Hle; cbn [map concat dh_write_opts].
  - exists b. unfold dh_osum. cbn [fold_left]. rewrite Z.add_0_r, app_nil_r. split; [reflexivity|exact T].
  - inversion W as [|? ? Wo Wt]; subst. cbn [map] in Hle. rewrite dh_osum_cons in Hle. pose proof (dh_osum_nonneg (map dh_onorm t)) as Nt.
    pose proof (dh_obytes_len o Wo) as Lo. destruct Wo as [Ht [Hl [_ Hp]]].
    pose proof (zlen_nonneg (do_data o)) as Nd. pose proof (zlen_nonneg pre) as Np. pose proof (zt_zlen _ _ _ T) as Lb.
    unfold dh_osize in Hle, Lo. cbn [dh_onorm do_type do_data do_len] in *.
    rewrite cd_slc_ok by (destruct (do_type o =? 0); lia). cbn [obind].
    replace (do_type o =? 255) with false by lia. rewrite orb_false_r. rewrite (Z.mod_small (do_type o)) by lia.
    unfold dh_obytes in *. destruct (do_type o =? 0) eqn:E0.
    + assert (do_type o = 0) by lia. rewrite H in *.
      destruct (zt_wrc b pre n (zlen pre) [0] T eq_refl ltac:(change (zlen [0]) with 1; lia)) as [E T1]. rewrite E. cbn [obind].
      destruct (IH _ (pre ++ [0]) n (zlen pre + 1) Wt T1 ltac:(rewrite zlen_app; reflexivity) ltac:(rewrite zlen_app; change (zlen [0]) with 1; lia)) as [b' [E2 T2]].
      rewrite E2. exists b'. split; [f_equal; f_equal; rewrite dh_osum_cons; unfold dh_osize; cbn [dh_onorm do_type]; rewrite H; change (0 =? 0) with true; cbv iota; lia|].
      rewrite <- app_assoc in T2. exact T2.
    + destruct (zt_wrc b pre n (zlen pre) [do_type o] T eq_refl ltac:(change (zlen [do_type o]) with 1; lia)) as [E T1]. rewrite E. cbn [obind]. clear E.
      rewrite (Z.mod_small (zlen (do_data o))) by lia.
      destruct (zt_wrc _ (pre ++ [do_type o]) n (zlen pre + 1) [zlen (do_data o)] T1 ltac:(rewrite zlen_app; reflexivity)
                  ltac:(rewrite zlen_app; change (zlen [do_type o]) with 1; change (zlen [zlen (do_data o)]) with 1; lia)) as [E T2]. rewrite E. cbn [obind]. clear E.
      destruct (zt_copy _ ((pre ++ [do_type o]) ++ [zlen (do_data o)]) n (zlen pre + 2) (do_data o) T2
                  ltac:(rewrite !zlen_app; change (zlen [do_type o]) with 1; change (zlen [zlen (do_data o)]) with 1; lia)
                  ltac:(rewrite !zlen_app; change (zlen [do_type o]) with 1; change (zlen [zlen (do_data o)]) with 1; lia)) as [b3 [E T3]]. rewrite E. cbn [obind]. clear E.
      destruct (IH b3 _ n (zlen pre + 2 + zlen (do_data o)) Wt T3
                  ltac:(rewrite !zlen_app; change (zlen [do_type o]) with 1; change (zlen [zlen (do_data o)]) with 1; lia)
                  ltac:(rewrite !zlen_app; change (zlen [do_type o]) with 1; change (zlen [zlen (do_data o)]) with 1; lia)) as [b' [E2 T4]].
      rewrite E2. exists b'. split; [f_equal; f_equal; rewrite dh_osum_cons; unfold dh_osize; cbn [dh_onorm do_type do_data]; rewrite E0; lia|].
      rewrite <- !app_assoc in T4. rewrite <- !app_assoc. exact T4.
Qed.
