(* C20 — the handshake invariant of the repaired code and its consequences: no reachable
   state is stuck or panicked when the consumer program closes at some point or reads to EOF. *)
From GP Require Import Base C20Model Diamond C20Measure C20Confluence.
From Coq Require Import Lia.
Open Scope nat_scope.

Definition rc_of (a : apc) : bool := match a with AClose2 | ADone => true | _ => false end.
Definition dc_of (a : apc) : bool := match a with ADone => true | _ => false end.
(* the assembler has handed a batch over and waits (or is about to wait) for the acknowledgement *)
Definition is_wait (a : apc) : bool := match a with ASent _ | AWait _ => true | _ => false end.

(* the condition between calls: the assembler waits on [done] exactly when a batch has been
   received and not acknowledged (not first, not closed); once closed, the channel is closed *)
Definition idle_cond (fi cl w rcl : bool) : Prop :=
  if negb fi && negb cl then w = true else w = false /\ (cl = true -> rcl = true).

Definition hinv_c (c : cstate) (w rcl : bool) : Prop :=
  match pc c with
  | CIdle => idle_cond (first c) (closed c) w rcl
  | CReadSend _ _ => w = true /\ closed c = false /\ first c = false /\ cur c = []
  | CReadRecv _ _ => w = false /\ closed c = false /\ first c = false /\ cur c = []
  | CCloseAck => w = true /\ closed c = false /\ first c = false
  | CCloseRecv => w = false /\ closed c = true
  | CCloseSend => w = true /\ closed c = true
  | CPanic => False
  end.

Definition hinv (s : st) : Prop :=
  rc s = rc_of (ap s) /\ dc s = dc_of (ap s) /\ ap s <> APanic /\
  hinv_c (cs s) (is_wait (ap s)) (rc s).

Lemma finish_fields : forall g c n d,
  pc (c_finish g c n d) = CIdle /\ closed (c_finish g c n d) = closed c /\ first (c_finish g c n d) = first c.
Proof.
  intros g c n d. unfold c_finish. destruct (cur c) as [|e t]; [cbn; auto|].
  destruct (loss_errors g && negb (lrep c) && negb (rskip e =? 0)%Z); cbn; auto.
Qed.

Lemma hinv_loop : forall g c n d w rcl,
  idle_cond (first c) (closed c) w rcl -> hinv_c (c_loop g c n d) w rcl.
Proof.
  intros g c n d w rcl H. unfold c_loop.
  destruct (negb (closed c) && isnil (cur c)) eqn:E.
  - apply andb_true_iff in E. destruct E as [Ecl Ecur].
    apply negb_true_iff in Ecl. destruct (cur c) eqn:Ec; [|discriminate].
    unfold idle_cond in H. rewrite Ecl in H.
    destruct (first c) eqn:Ef; cbn [negb andb] in H; unfold hinv_c, set_pc; cbn [pc closed first cur].
    + destruct H as [H _]. auto.
    + auto.
  - unfold hinv_c. destruct (finish_fields g c n d) as [-> [-> ->]]. exact H.
Qed.

Lemma a_next_props : forall le rest,
  a_next (fixed le) rest <> APanic /\ is_wait (a_next (fixed le) rest) = false /\
  rc_of (a_next (fixed le) rest) = false /\ dc_of (a_next (fixed le) rest) = false.
Proof. intros le [|b r]; cbn; repeat split; discriminate. Qed.

Lemma hinv_init : forall le hist prog, hinv (init (fixed le) hist prog).
Proof.
  intros le hist prog. unfold hinv, init. cbn [cs ap rc dc].
  destruct (a_next_props le hist) as [Hp [Hw [Hr Hd]]].
  rewrite Hr, Hd, Hw. split; [reflexivity|]. split; [reflexivity|]. split; [exact Hp|].
  cbn. split; [reflexivity | discriminate].
Qed.

Lemma hinv_c_rc_true : forall c w rcl, hinv_c c w rcl -> hinv_c c w true.
Proof.
  intros c w rcl H. unfold hinv_c in *. destruct (pc c); auto.
  unfold idle_cond in *. destruct (negb (first c) && negb (closed c)); [exact H|].
  destruct H as [H _]. split; auto.
Qed.

Ltac hsplit :=
  split; [try reflexivity; try assumption
         | split; [try reflexivity; try assumption
                  | split; [try assumption; try discriminate |]]].

Lemma hinv_step : forall le s s', hinv s -> step (fixed le) s s' -> hinv s'.
Proof.
  intros le s s' [Hrc [Hdc [Hap Hc]]] Hst. destruct s as [c a r d]. cbn [cs ap rc dc] in *.
  destruct Hst as [H | [H | H]].
  - (* rendezvous *)
    unfold do_sync in H. cbn [cs ap rc dc] in H.
    destruct (sync (fixed le) r d c a) as [[c' a']|] eqn:E; [|discriminate]. injection H as <-.
    unfold sync in E. unfold hinv_c in Hc. unfold hinv. cbn [cs ap rc dc].
    destruct (pc c) eqn:Hpc; try discriminate; destruct a as [b rest|rest|rest| | | |]; try discriminate;
      cbn [rc_of dc_of is_wait] in *.
    + destruct d; [discriminate|]. injection E as <- <-.
      destruct (a_next_props le rest) as [Hp [Hw [Hr Hd]]]. rewrite Hr, Hd, Hw.
      hsplit. unfold hinv_c, set_pc. cbn [pc closed first cur]. tauto.
    + destruct r; [discriminate|]. injection E as <- <-. cbn [rc_of dc_of is_wait].
      hsplit. unfold read_recv_ok. apply hinv_loop.
      unfold c_strip. cbn [first closed]. destruct Hc as [_ [-> [-> _]]]. reflexivity.
    + destruct d; [discriminate|]. injection E as <- <-.
      destruct (a_next_props le rest) as [Hp [Hw [Hr Hd]]]. rewrite Hr, Hd, Hw.
      hsplit. unfold hinv_c, close_acked. cbn [pc closed]. tauto.
    + destruct r; [discriminate|]. injection E as <- <-. cbn [rc_of dc_of is_wait].
      hsplit. unfold hinv_c, close_recv_ok. cbn [pc closed]. tauto.
    + destruct d; [discriminate|]. injection E as <- <-.
      destruct (a_next_props le rest) as [Hp [Hw [Hr Hd]]]. rewrite Hr, Hd, Hw.
      hsplit. unfold hinv_c, set_pc. cbn [pc closed]. tauto.
  - (* consumer alone *)
    unfold do_tau_c in H. cbn [cs ap rc dc] in H.
    destruct (tau_c (fixed le) r d (is_parked a) c) as [c'|] eqn:E; [|discriminate]. injection H as <-.
    unfold hinv. cbn [cs ap rc dc]. hsplit.
    unfold tau_c in E. unfold hinv_c in Hc. destruct (pc c) eqn:Hpc.
    + destruct (ops c) as [|o ro]; [discriminate|]. destruct o as [n|m|]; injection E as <-.
      * unfold read_begin. cbn [initiated fixed]. apply hinv_loop. unfold c_strip, set_ops. cbn [first closed]. exact Hc.
      * unfold read_begin. cbn [initiated fixed]. apply hinv_loop. unfold c_strip, set_ops. cbn [first closed]. exact Hc.
      * unfold close_begin, set_ops. cbn [close_acks fixed first closed andb]. unfold idle_cond in Hc.
        destruct (negb (first c) && negb (closed c)) eqn:Eh.
        -- apply andb_true_iff in Eh. destruct Eh as [Ef Ecl].
           apply negb_true_iff in Ef. apply negb_true_iff in Ecl.
           unfold hinv_c. cbn [pc closed first]. auto.
        -- unfold hinv_c. cbn [pc closed first]. tauto.
    + (* send on a closed done: impossible, the assembler is waiting *)
      destruct d; [|discriminate]. destruct Hc as [Hw _]. destruct a; cbn in Hw, Hdc; discriminate.
    + destruct r; [|discriminate]. injection E as <-. unfold read_recv_closed. apply hinv_loop.
      cbn [first closed]. destruct Hc as [Hw _]. unfold idle_cond.
      rewrite andb_false_r. split; auto.
    + destruct d; [|discriminate]. destruct Hc as [Hw _]. destruct a; cbn in Hw, Hdc; discriminate.
    + destruct r; [|discriminate]. injection E as <-. unfold hinv_c, close_return. cbn [pc closed first].
      destruct Hc as [Hw Hcl]. unfold idle_cond. rewrite Hcl. rewrite andb_false_r. split; auto.
    + destruct d; [|discriminate]. destruct Hc as [Hw _]. destruct a; cbn in Hw, Hdc; discriminate.
    + discriminate.
  - (* assembler alone: the two close() *)
    unfold do_tau_a in H. cbn [cs ap rc dc] in H.
    destruct (tau_a (fixed le) a r d) as [[[a' r'] d']|] eqn:E; [|discriminate]. injection H as <-.
    unfold tau_a in E. cbn [initiated fixed negb orb] in E. unfold hinv. cbn [cs ap rc dc].
    destruct a; try discriminate; cbn [rc_of dc_of is_wait] in *; subst r d; injection E as <- <- <-;
      (hsplit; first [exact Hc | eapply hinv_c_rc_true; exact Hc]).
Qed.

(* ---- the consumer program eventually closes or reads to EOF *)
Definition is_cd (o : cop) : bool := match o with CRead _ => false | _ => true end.
Definition pc_good (p : cpc) : bool :=
  match p with
  | CReadSend _ (Some _) | CReadRecv _ (Some _) | CCloseAck | CCloseRecv | CCloseSend => true
  | _ => false
  end.
Definition goodb (c : cstate) : bool := closed c || pc_good (pc c) || existsb is_cd (ops c).
Definition good_prog (prog : list cop) : bool := existsb is_cd prog.

Lemma good_loop : forall g c n d,
  closed c = true \/ d <> None \/ existsb is_cd (ops c) = true -> goodb (c_loop g c n d) = true.
Proof.
  intros g c n d H. unfold c_loop.
  destruct (negb (closed c) && isnil (cur c)) eqn:E.
  - unfold goodb. destruct (first c); unfold set_pc; cbn [closed pc ops pc_good];
      destruct H as [-> | [H | ->]]; cbn; try reflexivity; try (destruct d; [|congruence]);
      rewrite ?orb_true_r; reflexivity.
  - unfold c_finish, goodb. destruct (cur c) as [|e t] eqn:Ec.
    + cbn [isnil] in E. rewrite andb_true_r in E. apply negb_false_iff in E.
      cbn [closed]. rewrite E. reflexivity.
    + destruct (loss_errors g && negb (lrep c) && negb (rskip e =? 0)%Z); cbn [closed pc ops pc_good];
        destruct H as [-> | [H | H]]; try reflexivity.
      * destruct d; [|congruence]. cbn. rewrite orb_true_r. reflexivity.
      * destruct d; cbn [requeue existsb is_cd]; rewrite H; rewrite ?orb_true_r; reflexivity.
      * destruct d; [|congruence]. cbn. rewrite orb_true_r. reflexivity.
      * destruct d; cbn [requeue existsb is_cd]; rewrite H; rewrite ?orb_true_r; reflexivity.
Qed.

Lemma good_step : forall le s s', hinv s -> goodb (cs s) = true -> step (fixed le) s s' -> goodb (cs s') = true.
Proof.
  intros le s s' [Hrc [Hdc [Hap Hc]]] Hg Hst. destruct s as [c a r d]. cbn [cs ap rc dc] in *.
  destruct Hst as [H | [H | H]].
  - unfold do_sync in H. cbn [cs ap rc dc] in H.
    destruct (sync (fixed le) r d c a) as [[c' a']|] eqn:E; [|discriminate]. injection H as <-. cbn [cs].
    unfold sync in E. unfold goodb in Hg.
    destruct (pc c) eqn:Hpc; try discriminate; destruct a as [b rest|rest|rest| | | |]; try discriminate.
    + destruct d; [discriminate|]. injection E as <- _. unfold goodb, set_pc. cbn [closed pc ops].
      cbn [pc_good] in *. exact Hg.
    + destruct r; [discriminate|]. injection E as <- _. unfold read_recv_ok. apply good_loop.
      unfold c_strip. cbn [closed ops]. cbn [pc_good] in Hg.
      destruct (closed c); [left; reflexivity|]. destruct d0; [right; left; discriminate|].
      cbn in Hg. right; right; exact Hg.
    + destruct d; [discriminate|]. injection E as <- _. reflexivity.
    + destruct r; [discriminate|]. injection E as <- _. unfold goodb, close_recv_ok. cbn [closed pc ops pc_good].
      rewrite orb_true_r. reflexivity.
    + destruct d; [discriminate|]. injection E as <- _. unfold goodb, set_pc. cbn [closed pc ops pc_good].
      rewrite orb_true_r. reflexivity.
  - unfold do_tau_c in H. cbn [cs ap rc dc] in H.
    destruct (tau_c (fixed le) r d (is_parked a) c) as [c'|] eqn:E; [|discriminate]. injection H as <-. cbn [cs].
    unfold tau_c in E. unfold goodb in Hg. unfold hinv_c in Hc. destruct (pc c) eqn:Hpc.
    + destruct (ops c) as [|o ro] eqn:Hops; [discriminate|]. cbn [pc_good] in Hg. rewrite orb_false_r in Hg.
      destruct o as [n|m|]; injection E as <-.
      * unfold read_begin. cbn [initiated fixed]. apply good_loop. unfold c_strip, set_ops. cbn [closed ops].
        cbn [existsb is_cd orb] in Hg. destruct (closed c); [left; reflexivity|]. right; right; exact Hg.
      * unfold read_begin. cbn [initiated fixed]. apply good_loop. right; left; discriminate.
      * unfold close_begin, set_ops, goodb. cbn [close_acks fixed first closed andb].
        destruct (negb (first c) && negb (closed c)); cbn [closed pc pc_good]; rewrite ?orb_true_r; reflexivity.
    + destruct d; [|discriminate]. destruct Hc as [Hw _]. destruct a; cbn in Hw, Hdc; discriminate.
    + destruct r; [|discriminate]. injection E as <-. unfold read_recv_closed. apply good_loop. left; reflexivity.
    + destruct d; [|discriminate]. destruct Hc as [Hw _]. destruct a; cbn in Hw, Hdc; discriminate.
    + destruct r; [|discriminate]. injection E as <-. unfold goodb, close_return. cbn [closed pc ops].
      destruct Hc as [_ ->]. reflexivity.
    + destruct d; [|discriminate]. destruct Hc as [Hw _]. destruct a; cbn in Hw, Hdc; discriminate.
    + discriminate.
  - unfold do_tau_a in H. cbn [cs ap rc dc] in H.
    destruct (tau_a (fixed le) a r d) as [[[a' r'] d']|] eqn:E; [|discriminate]. injection H as <-. exact Hg.
Qed.

(* no stuck state *)
Lemma hinv_progress : forall le s, hinv s -> goodb (cs s) = true ->
  terminal s \/ exists s', step (fixed le) s s'.
Proof.
  intros le s [Hrc [Hdc [Hap Hc]]] Hg. destruct s as [c a r d]. cbn [cs ap rc dc] in *.
  unfold hinv_c in Hc. unfold goodb in Hg. unfold terminal, step, do_sync, do_tau_c, do_tau_a, sync, tau_c, tau_a.
  cbn [cs ap rc dc initiated fixed negb orb].
  destruct (pc c) eqn:Hpc.
  - destruct (ops c) as [|o ro] eqn:Hops.
    + cbn [pc_good existsb] in Hg. rewrite !orb_false_r in Hg. unfold idle_cond in Hc. rewrite Hg in Hc.
      rewrite andb_false_r in Hc. destruct Hc as [Hw Hr]. specialize (Hr eq_refl).
      destruct a; cbn in Hrc, Hdc; subst r; try discriminate; subst d.
      * right. eexists. right. right. reflexivity.
      * left. auto.
    + right. destruct o; eexists; right; left; reflexivity.
  - destruct Hc as [Hw _]. destruct a; try discriminate; cbn in Hdc; subst d; right; eexists;
      [right; right; reflexivity | left; reflexivity].
  - destruct Hc as [Hw _]. destruct a; try discriminate; cbn in Hrc, Hdc; subst r d; try congruence;
      right; eexists; [left | right; right | right; left | right; left]; reflexivity.
  - destruct Hc as [Hw _]. destruct a; try discriminate; cbn in Hdc; subst d; right; eexists;
      [right; right; reflexivity | left; reflexivity].
  - destruct Hc as [Hw _]. destruct a; try discriminate; cbn in Hrc, Hdc; subst r d; try congruence;
      right; eexists; [left | right; right | right; left | right; left]; reflexivity.
  - destruct Hc as [Hw _]. destruct a; try discriminate; cbn in Hdc; subst d; right; eexists;
      [right; right; reflexivity | left; reflexivity].
  - contradiction.
Qed.

Lemma inv_steps : forall (I : st -> Prop) g,
  (forall s s', I s -> step g s s' -> I s') ->
  forall n s0 s, steps (step g) n s0 s -> I s0 -> I s.
Proof.
  intros I g Hpres n s0 s H. induction H as [s | n s u t Hr Hs IH]; intros H0; [exact H0|].
  apply IH. eapply Hpres; eauto.
Qed.

Lemma reach_hinv_good : forall le hist prog n s, good_prog prog = true ->
  steps (step (fixed le)) n (init (fixed le) hist prog) s -> hinv s /\ goodb (cs s) = true.
Proof.
  intros le hist prog n s Hg Hs.
  apply (inv_steps (fun s => hinv s /\ goodb (cs s) = true) (fixed le)) with (n := n) (s0 := init (fixed le) hist prog); auto.
  - intros x y [Hi Hgo] Hst. split; [eapply hinv_step | eapply good_step]; eauto.
  - split; [apply hinv_init|]. unfold goodb, init. cbn [cs closed pc ops pc_good orb]. exact Hg.
Qed.

Lemma reach_hinv : forall le hist prog n s,
  steps (step (fixed le)) n (init (fixed le) hist prog) s -> hinv s.
Proof.
  intros le hist prog n s Hs.
  apply (inv_steps hinv (fixed le)) with (n := n) (s0 := init (fixed le) hist prog); auto.
  - intros x y Hi Hst. eapply hinv_step; eauto.
  - apply hinv_init.
Qed.

Theorem progress : forall le hist prog, good_prog prog = true ->
  forall n s, steps (step (fixed le)) n (init (fixed le) hist prog) s ->
  (terminal s \/ exists s', step (fixed le) s s') /\ ap s <> APanic /\ pc (cs s) <> CPanic.
Proof.
  intros le hist prog Hg n s Hs. destruct (reach_hinv_good _ _ _ _ _ Hg Hs) as [Hi Hgo].
  split; [eapply hinv_progress; eauto|]. destruct Hi as [_ [_ [Hap Hc]]]. split; [exact Hap|].
  unfold hinv_c in Hc. intros E. rewrite E in Hc. exact Hc.
Qed.

(* no panic for any program at all (also one that stops reading) *)
Theorem no_panic : forall le hist prog n s,
  steps (step (fixed le)) n (init (fixed le) hist prog) s -> ap s <> APanic /\ pc (cs s) <> CPanic.
Proof.
  intros le hist prog n s Hs. destruct (reach_hinv _ _ _ _ _ Hs) as [_ [_ [Hap Hc]]]. split; [exact Hap|].
  unfold hinv_c in Hc. intros E. rewrite E in Hc. exact Hc.
Qed.

(* every maximal run ends with both sides done; runs are finite (mu) *)
Theorem completes : forall le hist prog, good_prog prog = true ->
  forall n s, steps (step (fixed le)) n (init (fixed le) hist prog) s ->
  n <= mu (fixed le) (init (fixed le) hist prog) /\
  (nf (step (fixed le)) s -> terminal s).
Proof.
  intros le hist prog Hg n s Hs. split.
  - pose proof (steps_bounded _ _ _ _ Hs). lia.
  - intros Hn. destruct (progress _ _ _ Hg _ _ Hs) as [[Ht | [s' Hst]] _]; [exact Ht|].
    exfalso. exact (Hn _ Hst).
Qed.

Theorem run_completes : forall le hist prog, good_prog prog = true ->
  let s0 := init (fixed le) hist prog in
  snd (run (fixed le) (mu (fixed le) s0) s0) = true /\ terminal (fst (run (fixed le) (mu (fixed le) s0) s0)).
Proof.
  intros le hist prog Hg s0. unfold run.
  destruct (run_sched_spec (fixed le) (fun _ => false) (mu (fixed le) s0) 0 s0 (le_n _)) as [n [t [Hr [Hs [Hn _]]]]].
  rewrite Hr. cbn [fst snd]. split; [reflexivity|].
  destruct (completes _ _ _ Hg _ _ Hs) as [_ Ht]. exact (Ht Hn).
Qed.

(* the assembler is blocked in [<-r.done] only while the consumer holds the batch it was given:
   between two calls (the next Read or Close acknowledges it first thing) or already at the
   acknowledging send *)
Theorem assembler_waits_only_for_reader : forall le hist prog n s,
  steps (step (fixed le)) n (init (fixed le) hist prog) s -> is_wait (ap s) = true ->
  match pc (cs s) with
  | CReadSend _ _ | CCloseAck | CCloseSend => True
  | CIdle => first (cs s) = false /\ closed (cs s) = false
  | _ => False
  end.
Proof.
  intros le hist prog n s Hs Hw. destruct (reach_hinv _ _ _ _ _ Hs) as [_ [_ [_ Hc]]].
  unfold hinv_c in Hc. rewrite Hw in Hc. destruct (pc (cs s)); auto.
  - unfold idle_cond in Hc. destruct (first (cs s)), (closed (cs s)); cbn in Hc; auto; destruct Hc; discriminate.
  - destruct Hc; discriminate.
  - destruct Hc; discriminate.
Qed.
