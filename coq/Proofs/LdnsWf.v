(* Ldns — what a successful decode produces: every decoded name is the dotted join of labels of 1..63
   octets with the label metadata exactly when one of them holds a literal dot or backslash, also
   through compression pointers (C06: the hypothesis of the round trip is met by decoder output). *)
From GP Require Import Base ListX N6Lib LdnsModel LdnsDec LdnsSer LdnsRt.
From Coq Require Import Lia ZifyBool ZifyNat.
Ltac Zify.zify_post_hook ::= Z.div_mod_to_equations.
Open Scope Z_scope.

(* ---------------------------------------------------------------- slices *)
Lemma slice_split {A} (l : list A) a i j : (a <= i)%nat -> (i <= j)%nat -> (j <= length l)%nat ->
  slice l a j = slice l a i ++ slice l i j.
Proof.
  intros H1 H2 H3. unfold slice.
  rewrite <- (firstn_skipn i (firstn j l)) at 1. rewrite firstn_firstn, Nat.min_l by lia.
  rewrite skipn_app. rewrite firstn_length, Nat.min_l by lia.
  replace (a - i)%nat with 0%nat by lia. cbn [skipn]. reflexivity.
Qed.

Lemma n6_slice_decomp data a b m : n6_slice data a b = Some m ->
  data = firstn (Z.to_nat a) data ++ m ++ skipn (Z.to_nat b) data /\ n6_len (firstn (Z.to_nat a) data) = a /\ 0 <= a <= b /\ b <= n6_len data.
Proof.
  unfold n6_slice. destruct ((0 <=? a) && (a <=? b) && (b <=? n6_len data)) eqn:E; [|discriminate].
  intros [= <-]. split; [|split; [rewrite n6_len_firstn; unfold n6_len in *; lia|lia]].
  unfold slice. rewrite app_assoc. rewrite <- (firstn_skipn (Z.to_nat b) data) at 1. f_equal.
  rewrite <- (firstn_skipn (Z.to_nat a) (firstn (Z.to_nat b) data)) at 1.
  rewrite firstn_firstn, Nat.min_l by lia. reflexivity.
Qed.

Lemma n6_slice_extend data a i j m b l :
  n6_slice data a i = Some m -> n6_idx data i = Some b -> n6_slice data (i + 1) j = Some l ->
  n6_slice data a j = Some (m ++ b :: l).
Proof.
  unfold n6_slice, n6_idx.
  destruct ((0 <=? a) && (a <=? i) && (i <=? n6_len data)) eqn:E1; [|discriminate]. intros [= <-].
  destruct ((0 <=? i) && (i <? n6_len data)) eqn:E2; [|discriminate]. intros [= <-].
  destruct ((0 <=? i + 1) && (i + 1 <=? j) && (j <=? n6_len data)) eqn:E3; [|discriminate]. intros [= <-].
  replace ((0 <=? a) && (a <=? j) && (j <=? n6_len data)) with true by lia. f_equal.
  unfold n6_len in *.
  rewrite (slice_split data (Z.to_nat a) (Z.to_nat i) (Z.to_nat j)) by lia. f_equal.
  rewrite (slice_split data (Z.to_nat i) (Z.to_nat (i + 1)) (Z.to_nat j)) by lia. 
  replace (slice data (Z.to_nat i) (Z.to_nat (i + 1))) with [nthZ data (Z.to_nat i)]; [reflexivity|].
  unfold slice, nthZ. replace (Z.to_nat (i + 1)) with (S (Z.to_nat i)) by lia.
  assert (G : forall (d : list Z) n, (n < length d)%nat -> [nth n d 0] = skipn n (firstn (S n) d)).
  { induction d as [|x d IH]; intros n Hn; [cbn in Hn; lia|]. destruct n; [reflexivity|]. cbn [firstn skipn nth]. apply IH. cbn in Hn. lia. }
  apply G. lia.
Qed.

(* ---------------------------------------------------------------- bytes.Split of a dotted name *)
Lemma split46_label : forall l rest cur, needs_pres l = false -> split46 (l ++ rest) cur = split46 rest (cur ++ l).
Proof.
  induction l as [|c l IH]; intros rest cur H; [rewrite app_nil_r; reflexivity|].
  apply needs_pres_cons in H as (H46 & _ & Hl). cbn [app split46]. rewrite H46. rewrite IH by exact Hl.
  rewrite <- app_assoc. reflexivity.
Qed.

Lemma split46_join : forall ls cur, ls <> [] -> Forall (fun l => needs_pres l = false) ls ->
  split46 (join ls) cur = (cur ++ hd [] ls) :: tl ls.
Proof.
  induction ls as [|l t IH]; intros cur Hne Hc; [congruence|]. inversion Hc as [|? ? Hl Ht]; subst.
  cbn [join hd tl]. destruct t as [|l2 t'].
  - rewrite <- (app_nil_r l) at 1. rewrite split46_label by exact Hl. reflexivity.
  - rewrite split46_label by exact Hl. cbn [split46]. change (46 =? 46) with true. cbn iota.
    rewrite IH by (try discriminate; exact Ht). reflexivity.
Qed.

(* ---------------------------------------------------------------- the land 192 test *)
Lemma land192_nat : forall n : nat, (n < 256)%nat -> Z.land (Z.of_nat n) 192 = (Z.of_nat n / 64) * 64.
Proof.
  intros n H. do 256 (destruct n as [|n]; [vm_compute; reflexivity|]). lia.
Qed.

Lemma land192_label b : 0 <= b < 256 -> (Z.land b 192 =? 192) = false -> (Z.land b 192 =? 64) = false ->
  (Z.land b 192 =? 128) = false -> 0 <= b < 64.
Proof.
  intros H H1 H2 H3. pose proof (land192_nat (Z.to_nat b) ltac:(lia)) as P. rewrite Z2Nat.id in P by lia.
  rewrite P in *. lia.
Qed.

(* ---------------------------------------------------------------- decodeName *)
Definition name_res (buf : list Z) (r : nres) : Prop :=
  match r with
  | NOk name l next buf' => exists ls, Forall label_ok ls /\ buf' = buf ++ dotted ls /\ l = meta_of ls /\ name = join ls
  | _ => True
  end.

Lemma join_len_pos ls : ls <> [] -> Forall label_ok ls -> 1 <= n6_len (join ls).
Proof.
  destruct ls as [|l t]; [congruence|]. intros _ H. inversion H as [|? ? [Hl _] _]; subst.
  cbn [join]. destruct t; [lia|]. pose proof (n6_len_nonneg (join (l0 :: t))). lens. lia.
Qed.

Lemma dn_finish_name buf0 idx ls l : Forall label_ok ls ->
  dn_finish (n6_len buf0) idx (buf0 ++ dotted ls) l = NOk (join ls) l (idx + 1) (buf0 ++ dotted ls).
Proof.
  intros Hok. unfold dn_finish. rewrite dotted_join. destruct ls as [|a t].
  - rewrite app_nil_r. replace (n6_len buf0 <=? n6_len buf0) with true by lia. unfold n6_len. rewrite Nat2Z.id, skipn_all. reflexivity.
  - pose proof (join_len_pos (a :: t) ltac:(discriminate) Hok).
    replace (n6_len (buf0 ++ 46 :: join (a :: t)) <=? n6_len buf0) with false by (lens; lia).
    replace (buf0 ++ 46 :: join (a :: t)) with ((buf0 ++ [46]) ++ join (a :: t)) by (rewrite <- app_assoc; reflexivity).
    rewrite skipn_app_len by (rewrite app_length; cbn [length]; unfold n6_len; lia). reflexivity.
Qed.

Lemma dotted_app a b : dotted (a ++ b) = dotted a ++ dotted b.
Proof. unfold dotted. rewrite map_app, concat_app. reflexivity. Qed.

Lemma meta_of_app_some a b : meta_of b = Some b -> meta_of (a ++ b) = Some (a ++ b).
Proof. unfold meta_of. rewrite existsb_app. destruct (existsb needs_pres b); [rewrite orb_true_r; reflexivity|discriminate]. Qed.

Lemma collect_slice data off e ls : n6_slice data off e = Some (labels_body ls) -> Forall label_ok ls ->
  collect data off e = Some (append_each None ls).
Proof.
  intros Hsl Hok. destruct (n6_slice_decomp _ _ _ _ Hsl) as (Hdata & Hpre & _ & _).
  pose proof (n6_slice_len _ _ _ _ Hsl) as Hl.
  set (pre := firstn (Z.to_nat off) data) in *. set (post := skipn (Z.to_nat e) data) in *.
  unfold collect. replace e with (n6_len pre + n6_len (labels_body ls)) by lia.
  pose proof (collect_loop_wire ls pre post (S (length data)) off None Hok ltac:(lia)) as P.
  rewrite <- Hdata in P. apply P. pose proof (body_len_ge ls Hok). rewrite Hdata. rewrite !app_length. unfold n6_len in *. lia.
Qed.

Lemma dn_loop_labels data rec : bytes_ok data -> (forall o b, name_res b (rec o b)) ->
  forall fuel offset index buf0 done,
  0 <= offset <= index -> index < n6_len data ->
  n6_slice data offset index = Some (labels_body done) -> Forall label_ok done ->
  name_res buf0 (dn_loop data rec fuel offset (n6_len buf0) index (buf0 ++ dotted done) (meta_of done)).
Proof.
  intros Hb Hrec. induction fuel as [|f IH]; intros offset index buf0 done H1 H2 Hsl Hdone; [exact I|].
  cbn [dn_loop]. rewrite n6_idx_eq by lia.
  assert (Hbyte : 0 <= nthZ data (Z.to_nat index) < 256) by (apply nthZ_ok; [exact Hb|unfold n6_len in H2; lia]).
  set (b := nthZ data (Z.to_nat index)) in *.
  assert (Hidx : n6_idx data index = Some b) by (rewrite n6_idx_eq by lia; reflexivity).
  destruct (b =? 0) eqn:Eb0.
  { rewrite dn_finish_name by exact Hdone. exists done. auto. }
  destruct (Z.land b 192 =? 192) eqn:E192.
  - (* pointer *)
    destruct (index + 2 >? n6_len data) eqn:E2; [exact I|].
    rewrite n6_slice_eq by lia.
    destruct (Z.land (be_val (slice data (Z.to_nat index) (Z.to_nat (index + 2)))) 16383 >? n6_len data); [exact I|].
    match goal with |- context [rec ?o ?bb] => pose proof (Hrec o bb) as Hr; destruct (rec o bb) as [pn pl pnext buf'|e|s] end;
      [|exact I|exact I].
    destruct Hr as (ls2 & Hok2 & Hbuf & Hpl & Hpn). subst buf' pl pn.
    assert (Hall : Forall label_ok (done ++ ls2)) by (apply Forall_app; split; assumption).
    assert (Hfin : forall l', l' = meta_of (done ++ ls2) ->
               name_res buf0 (dn_finish (n6_len buf0) (index + 1) ((buf0 ++ dotted done) ++ dotted ls2) l')).
    { intros l' ->. rewrite <- app_assoc, <- dotted_app. rewrite dn_finish_name by exact Hall. exists (done ++ ls2). auto. }
    destruct (existsb needs_pres ls2) eqn:Ep2; destruct (existsb needs_pres done) eqn:Epd.
    + assert (M2 : meta_of ls2 = Some ls2) by (unfold meta_of; rewrite Ep2; reflexivity).
      assert (Md : meta_of done = Some done) by (unfold meta_of; rewrite Epd; reflexivity).
      rewrite M2, Md. apply Hfin. cbn [go_append]. symmetry. apply meta_of_app_some, M2.
    + assert (M2 : meta_of ls2 = Some ls2) by (unfold meta_of; rewrite Ep2; reflexivity).
      assert (Md : meta_of done = None) by (unfold meta_of; rewrite Epd; reflexivity).
      rewrite M2, Md.
      rewrite (collect_slice _ _ _ _ Hsl Hdone).
      apply Hfin. symmetry. rewrite (meta_of_app_some done ls2) by exact M2.
      destruct done as [|d0 dt]; [cbn [append_each fold_left go_append app]; destruct ls2; [discriminate|reflexivity]|].
      rewrite append_each_none by discriminate. reflexivity.
    + assert (M2 : meta_of ls2 = None) by (unfold meta_of; rewrite Ep2; reflexivity).
      assert (Md : meta_of done = Some done) by (unfold meta_of; rewrite Epd; reflexivity).
      rewrite M2, Md.
      destruct (0 <? n6_len (join ls2)) eqn:Epos.
      * apply Hfin. destruct ls2 as [|l2 t2]; [cbn in Epos; lia|].
        rewrite split46_join by (try discriminate; apply existsb_false_Forall, Ep2). cbn [app hd tl].
        unfold meta_of. rewrite existsb_app, Epd. reflexivity.
      * apply Hfin. destruct ls2 as [|l2 t2].
        -- rewrite app_nil_r. symmetry. exact Md.
        -- pose proof (join_len_pos (l2 :: t2) ltac:(discriminate) Hok2). lia.
    + assert (M2 : meta_of ls2 = None) by (unfold meta_of; rewrite Ep2; reflexivity).
      assert (Md : meta_of done = None) by (unfold meta_of; rewrite Epd; reflexivity).
      rewrite M2, Md. apply Hfin. unfold meta_of. rewrite existsb_app, Epd, Ep2. reflexivity.
  - destruct (Z.land b 192 =? 64) eqn:E64; [exact I|]. destruct (Z.land b 192 =? 128) eqn:E128; [exact I|].
    pose proof (land192_label b Hbyte E192 E64 E128) as Hb64.
    destruct (index + b + 1 - offset >? 255); [exact I|].
    destruct ((index + b + 1 <? index + 1) || (index + b + 1 >? n6_len data)) eqn:Ebd; [exact I|].
    rewrite n6_slice_eq by lia.
    set (label := slice data (Z.to_nat (index + 1)) (Z.to_nat (index + b + 1))).
    assert (Hlab : n6_slice data (index + 1) (index + b + 1) = Some label) by (rewrite n6_slice_eq by lia; reflexivity).
    assert (Hlok : label_ok label).
    { split; [|apply bytes_ok_slice, Hb]. apply n6_slice_len in Hlab. lia. }
    assert (Hsl2 : n6_slice data offset (index + b + 1) = Some (labels_body (done ++ [label]))).
    { rewrite labels_body_app. cbn [labels_body map concat]. rewrite app_nil_r.
      replace (u8 (n6_len label)) with b by (apply n6_slice_len in Hlab; rewrite u8_small; lia).
      eapply n6_slice_extend; eauto. }
    assert (Hdone2 : Forall label_ok (done ++ [label])) by (apply Forall_app; split; [exact Hdone|constructor; [exact Hlok|constructor]]).
    assert (Hmeta : (match meta_of done with
                     | Some ls => Some (Some (ls ++ [label]))
                     | None => if needs_pres label then collect data offset (index + b + 1) else Some None
                     end) = Some (meta_of (done ++ [label]))).
    { unfold meta_of. rewrite existsb_snoc. destruct (existsb needs_pres done); [reflexivity|]. cbn [orb].
      destruct (needs_pres label); [|reflexivity].
      rewrite (collect_slice _ _ _ _ Hsl2 Hdone2).
      rewrite append_each_none by (destruct done; discriminate). reflexivity. }
    rewrite Hmeta.
    destruct (index + b + 1 >=? n6_len data) eqn:Ee; [exact I|].
    replace ((buf0 ++ dotted done) ++ 46 :: label) with (buf0 ++ dotted (done ++ [label]))
      by (rewrite dotted_app; unfold dotted; cbn [map concat]; rewrite app_nil_r, <- app_assoc; reflexivity).
    apply IH; try assumption; lia.
Qed.

Lemma decode_name_lv_labels data : bytes_ok data -> forall lf offset buf, name_res buf (decode_name_lv lf data offset buf).
Proof.
  intros Hb. induction lf as [|lf IH]; intros offset buf; [exact I|].
  rewrite decode_name_lv_S. destruct (offset >=? n6_len data) eqn:E1; [exact I|]. destruct (offset <? 0) eqn:E2; [exact I|].
  pose proof (dn_loop_labels data (decode_name_lv lf data) Hb IH (S (length data)) offset offset buf []) as P.
  unfold dotted in P at 1. cbn [map concat] in P. rewrite app_nil_r in P.
  change (meta_of []) with (@None (list (list Z))) in P. apply P; try lia; [|constructor].
  rewrite n6_slice_eq by lia. unfold slice. f_equal.
  rewrite skipn_all2 by (rewrite firstn_length; lia). reflexivity.
Qed.

Theorem decode_name_labels data offset buf : bytes_ok data -> name_res buf (decode_name data offset buf).
Proof. intros. apply decode_name_lv_labels. assumption. Qed.

(* ---------------------------------------------------------------- ranges of what the readers return *)
Lemma be_val_bound l : bytes_ok l -> 0 <= be_val l < 256 ^ Z.of_nat (length l).
Proof.
  induction l as [|x l IH] using rev_ind; intros H; [cbn; lia|].
  apply Forall_app in H as [Hl Hx]. inversion Hx as [|? ? Hb _]; subst. specialize (IH Hl).
  rewrite be_val_app, app_length. cbn [length be_val fold_left]. unfold byte_ok in Hb.
  replace (Z.of_nat (length l + 1)) with (Z.of_nat (length l) + 1) by lia. rewrite Z.pow_add_r by lia.
  change (256 ^ Z.of_nat 1) with 256. change (256 ^ 1) with 256. change (be_val [x]) with (0 * 256 + x). nia.
Qed.

Lemma rd16_range data i v : bytes_ok data -> rd16 data i = Ok v -> 0 <= v < 65536.
Proof.
  intros Hb H. unfold rd16, rdsl in H. destruct (n6_slice data i (i + 2)) as [s|] eqn:E; cbn in H; [|discriminate].
  apply Ok_inj in H. subst v. destruct (slice_inv _ _ _ _ Hb E) as [Hs Hl]. pose proof (be_val_bound s Hs) as P.
  unfold n6_len in Hl. replace (Z.of_nat (length s)) with 2 in P by lia. change (256 ^ 2) with 65536 in P. exact P.
Qed.

Lemma rd32_range data i v : bytes_ok data -> rd32 data i = Ok v -> 0 <= v < 4294967296.
Proof.
  intros Hb H. unfold rd32, rdsl in H. destruct (n6_slice data i (i + 4)) as [s|] eqn:E; cbn in H; [|discriminate].
  apply Ok_inj in H. subst v. destruct (slice_inv _ _ _ _ Hb E) as [Hs Hl]. pose proof (be_val_bound s Hs) as P.
  unfold n6_len in Hl. replace (Z.of_nat (length s)) with 4 in P by lia. change (256 ^ 4) with 4294967296 in P. exact P.
Qed.

Lemma rd8_range data i v : bytes_ok data -> rd8 data i = Ok v -> 0 <= v < 256.
Proof.
  intros Hb H. unfold rd8 in H. destruct (n6_idx data i) as [b|] eqn:E; cbn in H; [|discriminate].
  apply Ok_inj in H. subst v. eapply idx_inv; eauto.
Qed.

Lemma rdsl_inv data a b s : bytes_ok data -> rdsl data a b = Ok s -> bytes_ok s /\ n6_len s = b - a /\ 0 <= a <= b /\ b <= n6_len data.
Proof.
  intros Hb H. unfold rdsl in H. destruct (n6_slice data a b) as [x|] eqn:E; cbn in H; [|discriminate].
  apply Ok_inj in H. subst x. destruct (slice_inv _ _ _ _ Hb E). destruct (n6_slice_decomp _ _ _ _ E) as (_ & _ & ? & ?). auto.
Qed.

(* ---------------------------------------------------------------- the loops, inverted *)
Lemma cs_loop_inv data : bytes_ok data -> forall fuel index acc res, 0 <= index <= n6_len data ->
  cs_loop data fuel index acc = Ok res ->
  exists txts, res = acc ++ txts /\ Forall txt_ok txts /\ n6_len (txts_wire txts) = n6_len data - index.
Proof.
  intros Hb. induction fuel as [|f IH]; intros index acc res Hi H; cbn [cs_loop] in H; [discriminate|].
  destruct (index =? n6_len data) eqn:E.
  { apply Ok_inj in H. subst res. exists []. rewrite app_nil_r. repeat split; [constructor|cbn; lia]. }
  destruct (rd8 data index) as [b|?|?] eqn:Eb; cbn [obind] in H; try discriminate.
  pose proof (rd8_range _ _ _ Hb Eb).
  destruct (index + 1 + b >? n6_len data) eqn:E2; [discriminate|].
  destruct (rdsl data (index + 1) (index + 1 + b)) as [s|?|?] eqn:Es; cbn [obind] in H; try discriminate.
  destruct (rdsl_inv _ _ _ _ Hb Es) as (Hsb & Hsl & _ & _).
  apply IH in H; [|lia]. destruct H as (txts & -> & Hok & Hlen).
  exists (s :: txts). split; [rewrite <- app_assoc; reflexivity|]. split; [constructor; [split; [lia|exact Hsb]|exact Hok]|].
  unfold txts_wire in *. cbn [map concat]. lens. lia.
Qed.

Definition opt_okf (o : dopt) : Prop := 0 <= op_code o < 65536 /\ n6_len (op_data o) <= 65535 /\ bytes_ok (op_data o).
Definition param_okf (p : svcparam) : Prop := 0 <= sp_key p < 65536 /\ n6_len (sp_value p) <= 65535 /\ bytes_ok (sp_value p).

Lemma opts_loop_inv data : bytes_ok data -> forall fuel i acc res, 0 <= i <= n6_len data ->
  opts_loop data fuel i acc = Ok res ->
  exists os, res = acc ++ os /\ Forall opt_okf os /\ n6_len (opts_wire os) = n6_len data - i.
Proof.
  intros Hb. induction fuel as [|f IH]; intros i acc res Hi H; cbn [opts_loop] in H; [discriminate|].
  destruct (i <? n6_len data) eqn:E.
  2:{ apply Ok_inj in H. subst res. exists []. rewrite app_nil_r. repeat split; [constructor|cbn; lia]. }
  destruct (n6_len data <? i + 4) eqn:E4; [discriminate|].
  destruct (rd16 data i) as [c|?|?] eqn:Ec; cbn [obind] in H; try discriminate.
  destruct (rd16 data (i + 2)) as [l|?|?] eqn:El; cbn [obind] in H; try discriminate.
  pose proof (rd16_range _ _ _ Hb Ec). pose proof (rd16_range _ _ _ Hb El).
  destruct (i + 4 + l >? n6_len data) eqn:E5; [discriminate|].
  destruct (rdsl data (i + 4) (i + 4 + l)) as [v|?|?] eqn:Ev; cbn [obind] in H; try discriminate.
  destruct (rdsl_inv _ _ _ _ Hb Ev) as (Hvb & Hvl & _ & _).
  apply IH in H; [|lia]. destruct H as (os & -> & Hok & Hlen).
  exists (mkDopt c v :: os). split; [rewrite <- app_assoc; reflexivity|].
  split; [constructor; [unfold opt_okf; cbn [op_code op_data]; repeat split; try lia; exact Hvb|exact Hok]|].
  unfold opts_wire in *. cbn [map concat op_code op_data]. lens. lia.
Qed.

Lemma svc_loop_inv data : bytes_ok data -> forall fuel i acc res, 0 <= i <= n6_len data ->
  svc_loop data fuel i acc = Ok res ->
  exists ps, res = acc ++ ps /\ Forall param_okf ps /\ n6_len (params_wire ps) = n6_len data - i.
Proof.
  intros Hb. induction fuel as [|f IH]; intros i acc res Hi H; cbn [svc_loop] in H; [discriminate|].
  destruct (i <? n6_len data) eqn:E.
  2:{ apply Ok_inj in H. subst res. exists []. rewrite app_nil_r. repeat split; [constructor|cbn; lia]. }
  destruct (i + 4 >? n6_len data) eqn:E4; [discriminate|].
  destruct (rd16 data i) as [c|?|?] eqn:Ec; cbn [obind] in H; try discriminate.
  destruct (rd16 data (i + 2)) as [l|?|?] eqn:El; cbn [obind] in H; try discriminate.
  pose proof (rd16_range _ _ _ Hb Ec). pose proof (rd16_range _ _ _ Hb El).
  destruct (i + 4 + l >? n6_len data) eqn:E5; [discriminate|].
  destruct (rdsl data (i + 4) (i + 4 + l)) as [v|?|?] eqn:Ev; cbn [obind] in H; try discriminate.
  destruct (rdsl_inv _ _ _ _ Hb Ev) as (Hvb & Hvl & _ & _).
  apply IH in H; [|lia]. destruct H as (ps & -> & Hok & Hlen).
  exists (mkSvcparam c v :: ps). split; [rewrite <- app_assoc; reflexivity|].
  split; [constructor; [unfold param_okf; cbn [sp_key sp_value]; repeat split; try lia; exact Hvb|exact Hok]|].
  unfold params_wire in *. cbn [map concat sp_key sp_value]. lens. lia.
Qed.

Lemma naptr_str_inv data off s o' : bytes_ok data -> 0 <= off -> naptr_str data off = Ok (s, o') ->
  txt_ok s /\ o' = off + 1 + n6_len s /\ o' <= n6_len data.
Proof.
  intros Hb H0 H. unfold naptr_str in H. destruct (n6_len data <? off + 1) eqn:E; [discriminate|].
  destruct (rd8 data off) as [b|?|?] eqn:Eb; cbn [obind] in H; try discriminate. pose proof (rd8_range _ _ _ Hb Eb).
  destruct (n6_len data <? off + 1 + b) eqn:E2; [discriminate|].
  destruct (rdsl data (off + 1) (off + 1 + b)) as [x|?|?] eqn:Es; cbn [obind] in H; try discriminate.
  apply Ok_inj in H. injection H as <- <-. destruct (rdsl_inv _ _ _ _ Hb Es) as (Hsb & Hsl & _ & _).
  split; [split; [lia|exact Hsb]|]. lia.
Qed.

(* ---------------------------------------------------------------- names that fit *)
Lemma labels_wire_len ls : Forall label_ok ls ->
  n6_len (labels_wire ls) = match ls with [] => 1 | _ => n6_len (join ls) + 2 end.
Proof.
  intros H. unfold labels_wire. rewrite n6_len_app. change (n6_len [0]) with 1.
  induction H as [|l t [Hl _] Ht IH]; [reflexivity|].
  rewrite labels_body_cons. cbn [join]. destruct t as [|l2 t2].
  - cbn [labels_body map concat]. lens. lia.
  - lens. lia.
Qed.

(* the decoded name still fits 255 octets on the wire (it may not: compression can make a name longer
   than any single encoding allows) *)
Definition name_fits (n : list Z) : Prop := n6_len n <= 253.

Lemma fits_labels_okP ls : Forall label_ok ls -> name_fits (join ls) -> labels_okP ls.
Proof.
  intros H F. split; [exact H|]. rewrite labels_wire_len by exact H. unfold name_fits in F. destruct ls; lia.
Qed.

(* ---------------------------------------------------------------- decoded records are well formed *)
Definition wire_len (n : list Z) : Z := if n6_len n =? 0 then 1 else n6_len n + 2.

(* what the round trip needs of a DECODED record beyond what decoding guarantees: an encoder for its
   type, an address of the right size, names that still fit 255 octets after decompression, and an
   RDATA that still fits 65535 octets when its name is written uncompressed *)
Definition rr_encodable (r : rr) : Prop :=
  name_fits (r_name r) /\
  let t := r_type r in
  if t =? T_A then n6_len (r_ip r) = 4
  else if t =? T_AAAA then n6_len (r_ip r) = 16
  else if t =? T_NS then name_fits (r_ns r)
  else if t =? T_CNAME then name_fits (r_cname r)
  else if t =? T_PTR then name_fits (r_ptr r)
  else if t =? T_SOA then name_fits (so_mname (r_soa r)) /\ name_fits (so_rname (r_soa r))
  else if t =? T_MX then name_fits (mx_name (r_mx r))
  else if t =? T_TXT then True
  else if t =? T_SRV then name_fits (sv_name (r_srv r))
  else if t =? T_NAPTR then name_fits (na_repl (r_naptr r))
  else if t =? T_URI then True
  else if t =? T_OPT then True
  else if t =? T_RRSIG then
    name_fits (sg_signer (r_rrsig r)) /\ 18 + wire_len (sg_signer (r_rrsig r)) + n6_len (sg_sig (r_rrsig r)) <= 65535
  else if t =? T_DNSKEY then True
  else if (t =? T_SVCB) || (t =? T_HTTPS) then
    name_fits (sb_target (r_svcb r)) /\
    2 + wire_len (sb_target (r_svcb r)) + n6_len (params_wire (sb_params (r_svcb r))) <= 65535
  else False.

Lemma wire_len_join ls : Forall label_ok ls -> n6_len (labels_wire ls) = wire_len (join ls).
Proof.
  intros H. rewrite labels_wire_len by exact H. unfold wire_len. destruct ls as [|l t]; [reflexivity|].
  pose proof (join_len_pos (l :: t) ltac:(discriminate) H). replace (n6_len (join (l :: t)) =? 0) with false by lia. reflexivity.
Qed.

Lemma rd_name_inv data off buf n l next buf' : bytes_ok data -> rd_name data off buf = Ok (n, l, next, buf') ->
  exists ls, Forall label_ok ls /\ n = join ls /\ l = meta_of ls /\ off < next <= n6_len data.
Proof.
  intros Hb H. unfold rd_name in H. pose proof (decode_name_labels data off buf Hb) as P. pose proof (decode_name_good data off buf Hb) as G.
  destruct (decode_name data off buf) as [n' l' next' b'|?|?]; try discriminate.
  apply Ok_inj in H. injection H as <- <- <- <-. destruct P as (ls & Hok & _ & Hl & Hn). cbn in G. exists ls. auto.
Qed.

Lemma labels_okP_nil : labels_okP [].
Proof. split; [constructor|cbn; lia]. Qed.

Ltac base_proj := unfold rr_base, rr_meta_name, rr_meta_rdata, rr_meta_rdata2, rr_ensure, canon_names, nm_of, new_meta, rmeta0, nmeta0,
    rr_set_ip, rr_set_ns, rr_set_cname, rr_set_ptr, rr_set_txts, rr_set_txt, rr_set_soa, rr_set_srv, rr_set_mx, rr_set_naptr, rr_set_opt,
    rr_set_rrsig, rr_set_dnskey, rr_set_svcb, rr_set_uri, rr_set_names;
  rewrite ?meta_of_nil;
  repeat match goal with |- context [meta_of ?l] => destruct (meta_of l) end;
  cbn [r_name r_type r_class r_ttl r_dlen r_data r_ip r_ns r_cname r_ptr r_txts r_soa r_srv r_mx r_naptr r_opt r_rrsig r_dnskey r_svcb r_uri
       r_txt r_names rm_name rm_rdata rm_rdata2 join].

(* the well-formedness conclusion for a record r decoded over the base record of labels ls0 *)
Ltac wf_finish ls0 ls1 ls2 :=
  exists ls0, ls1, ls2.

