(* Lip6 (extension) — lemmas about IPv6Fragment and IPv6Routing *)
From GP Require Import Base ListX N6Lib Lip6Model Lip6xModel.
From Coq Require Import Lia ZifyBool ZifyNat.
Open Scope Z_scope.
Ltac Zify.zify_post_hook ::= Z.div_mod_to_equations.

(* OR of a multiple of 2^n with a smaller number is their sum *)
Lemma land_low n a b : 0 <= n -> 0 <= b < 2 ^ n -> Z.land (a * 2 ^ n) b = 0.
Proof.
  intros Hn Hb. apply Z.bits_inj'. intros k Hk. rewrite Z.land_spec, Z.bits_0.
  destruct (Z.lt_ge_cases k n) as [Hlt|Hge].
  - rewrite Z.mul_pow2_bits_low by lia. reflexivity.
  - destruct (Z.eq_dec b 0) as [->|Hb0]; [rewrite Z.bits_0; apply andb_false_r|].
    assert (HL : Z.log2 b < k) by (apply Z.lt_le_trans with n; [apply Z.log2_lt_pow2; lia|lia]).
    rewrite (Z.bits_above_log2 b k) by lia. apply andb_false_r.
Qed.

Lemma lor_low n a b : 0 <= n -> 0 <= b < 2 ^ n -> Z.lor (a * 2 ^ n) b = a * 2 ^ n + b.
Proof.
  intros Hn Hb. rewrite <- Z.lxor_lor by (apply land_low; assumption). symmetry. apply Z.add_nocarry_lxor, land_low; assumption.
Qed.

(* ---------------------------------------------------------------- IPv6Fragment *)

Lemma frag_decode_no_panic data : is_panic (fst (frag_decode data)) = false.
Proof.
  unfold frag_decode. destruct (n6_len data <? 8) eqn:E; [reflexivity|].
  rewrite (n6_idx_eq data 0), (n6_idx_eq data 1), (n6_slice_eq data 2 4), (n6_idx_eq data 3), (n6_slice_eq data 4 8),
    (n6_slice_eq data 0 8), (n6_from_eq data 8) by lia. reflexivity.
Qed.

Lemma frag_bytes_len f : length (frag_bytes f) = 8%nat.
Proof. unfold frag_bytes. cbv zeta. rewrite app_length, be_bytes_length. reflexivity. Qed.

Lemma frag_serialize_closed f payload fx cs junk : frag_serialize f payload fx cs junk = (Ok (frag_bytes f ++ payload), f).
Proof.
  unfold frag_serialize. rewrite write_segs_ok by (cbn [concat]; rewrite app_nil_r, frag_bytes_len, n6_take_length; reflexivity).
  cbn [concat]. rewrite app_nil_r. reflexivity.
Qed.

Lemma frag_roundtrip f payload : frag_okb f = true ->
  frag_decode (frag_bytes f ++ payload) =
    (Ok (mkFrag (f_next f) (f_res1 f) (f_offset f) (f_res2 f) (f_more f) (f_ident f) (frag_bytes f) payload), false).
Proof.
  unfold frag_okb. intros H.
  apply andb_prop in H as [H H8]. apply andb_prop in H as [H H7]. apply andb_prop in H as [H H6]. apply andb_prop in H as [H H5].
  apply andb_prop in H as [H H4]. apply andb_prop in H as [H H3]. apply andb_prop in H as [H1 H2]. unfold byte_okb in *.
  unfold frag_bytes. cbv zeta.
  assert (Hu : u16 (f_offset f * 8) = f_offset f * 8) by (unfold u16; lia). rewrite Hu.
  assert (Hw : be_bytes 2 (f_offset f * 8) = [f_offset f / 32; (f_offset f mod 32) * 8]).
  { cbn [be_bytes app]. f_equal; [|f_equal]; lia. }
  rewrite Hw. change (nthZ [f_offset f / 32; f_offset f mod 32 * 8] 0) with (f_offset f / 32).
  change (nthZ [f_offset f / 32; f_offset f mod 32 * 8] 1) with (f_offset f mod 32 * 8).
  set (m := if f_more f then 1 else 0).
  assert (Hb3 : Z.lor (Z.lor (f_offset f mod 32 * 8) (Z.land (u8 (f_res2 f * 2)) 6)) m = f_offset f mod 32 * 8 + f_res2 f * 2 + m).
  { assert (HL : Z.land (u8 (f_res2 f * 2)) 6 = f_res2 f * 2).
    { assert (Hc : f_res2 f = 0 \/ f_res2 f = 1 \/ f_res2 f = 2 \/ f_res2 f = 3) by lia.
      destruct Hc as [Hc|[Hc|[Hc|Hc]]]; rewrite Hc; reflexivity. }
    rewrite HL. assert (Hm : 0 <= m < 2) by (subst m; destruct (f_more f); lia).
    assert (E1 : Z.lor (f_offset f mod 32 * 8) (f_res2 f * 2) = f_offset f mod 32 * 8 + f_res2 f * 2).
    { change 8 with (2 ^ 3). apply lor_low; [lia|change (2 ^ 3) with 8; lia]. }
    rewrite E1. replace (f_offset f mod 32 * 8 + f_res2 f * 2) with ((f_offset f mod 32 * 4 + f_res2 f) * 2 ^ 1) by (change (2 ^ 1) with 2; lia).
    rewrite lor_low by (try lia; change (2 ^ 1) with 2; lia). reflexivity. }
  rewrite Hb3. set (b3 := f_offset f mod 32 * 8 + f_res2 f * 2 + m).
  remember (be_bytes 4 (f_ident f)) as ib. assert (Li : length ib = 4%nat) by (subst; apply be_bytes_length).
  assert (Vi : be_val ib = f_ident f) by (subst; rewrite be_val_be_bytes; change (256 ^ Z.of_nat 4) with 4294967296; lia).
  clear Heqib. do 4 (destruct ib as [|? ib]; [discriminate Li|]). destruct ib; [|discriminate Li].
  cbn [app]. set (data := u8 (f_next f) :: u8 (f_res1 f) :: f_offset f / 32 :: b3 :: z :: z0 :: z1 :: z2 :: payload).
  assert (HL : n6_len data = 8 + n6_len payload) by (subst data; rewrite !n6_len_cons; lia).
  pose proof (n6_len_nonneg payload). unfold frag_decode. replace (n6_len data <? 8) with false by lia.
  rewrite (n6_idx_eq data 0), (n6_idx_eq data 1), (n6_slice_eq data 2 4), (n6_idx_eq data 3), (n6_slice_eq data 4 8),
    (n6_slice_eq data 0 8), (n6_from_eq data 8) by lia.
  change (nthZ data (Z.to_nat 0)) with (u8 (f_next f)). change (nthZ data (Z.to_nat 1)) with (u8 (f_res1 f)).
  change (nthZ data (Z.to_nat 3)) with b3. change (slice data (Z.to_nat 2) (Z.to_nat 4)) with [f_offset f / 32; b3].
  change (slice data (Z.to_nat 4) (Z.to_nat 8)) with [z; z0; z1; z2].
  change (slice data (Z.to_nat 0) (Z.to_nat 8)) with [u8 (f_next f); u8 (f_res1 f); f_offset f / 32; b3; z; z0; z1; z2].
  change (skipn (Z.to_nat 8) data) with payload.
  assert (Hm : 0 <= m < 2) by (subst m; destruct (f_more f); lia).
  f_equal. f_equal. f_equal; try (unfold u8; lia).
  - change (be_val [f_offset f / 32; b3]) with ((0 * 256 + f_offset f / 32) * 256 + b3). subst b3. lia.
  - subst b3 m. destruct (f_more f); lia.
Qed.

(* ---------------------------------------------------------------- IPv6Routing *)

Lemma rtg_decode_no_panic data : bytes_ok data -> is_panic (fst (rtg_decode data)) = false.
Proof.
  intros Hb. unfold rtg_decode. destruct (n6_len data <? 2) eqn:E2; [reflexivity|].
  rewrite (n6_idx_eq data 0), (n6_idx_eq data 1) by lia.
  assert (Hhl : 0 <= nthZ data (Z.to_nat 1) < 256) by (apply nthZ_ok; [exact Hb|unfold n6_len in *; lia]).
  set (hl := nthZ data (Z.to_nat 1)) in *. cbv zeta.
  destruct (n6_len data <? hl * 8 + 8) eqn:E3; [reflexivity|].
  rewrite (n6_slice_eq data 0 (hl * 8 + 8)), (n6_from_eq data (hl * 8 + 8)), (n6_idx_eq data 2), (n6_idx_eq data 3), (n6_slice_eq data 4 8) by lia.
  destruct (_ =? 0); [|reflexivity]. destruct (negb _); [reflexivity|].
  rewrite n6_from_eq; [reflexivity|]. unfold n6_len in *. rewrite slice_length by lia. lia.
Qed.

Lemma slot_len n src : length (slot n src) = n.
Proof. unfold slot. rewrite app_length, repeat_length, firstn_length. lia. Qed.

Lemma rtg_segs_len r : length (concat (rtg_segs r)) = (8 + 16 * length (r_ips r))%nat.
Proof.
  unfold rtg_segs. cbv zeta. rewrite concat_app. cbn [concat]. rewrite !app_length, slot_len. cbn [length].
  induction (r_ips r) as [|ip t IH]; [reflexivity|]. cbn [map concat length]. rewrite app_length, slot_len. lia.
Qed.

Lemma rtg_serialize_closed r payload fx cs junk : rtg_serialize r payload fx cs junk = (Ok (concat (rtg_segs r) ++ payload), r).
Proof.
  unfold rtg_serialize. rewrite write_segs_ok by (rewrite rtg_segs_len, n6_take_length; reflexivity). reflexivity.
Qed.

Lemma chunks16_concat ips : forall fuel, forallb (fun ip => bytes_okb ip && (n6_len ip =? 16)) ips = true ->
  (length ips < fuel)%nat -> chunks16 fuel (concat ips) = ips.
Proof.
  induction ips as [|ip t IH]; intros fuel Hok Hf.
  - destruct fuel; reflexivity.
  - destruct fuel as [|f]; [cbn in Hf; lia|]. cbn [forallb] in Hok. apply andb_prop in Hok as [Hi Ht]. apply andb_prop in Hi as [_ Hl].
    cbn [concat chunks16 length] in *. assert (Hl' : length ip = 16%nat) by (unfold n6_len in Hl; lia).
    rewrite n6_len_app. pose proof (n6_len_nonneg (concat t)). replace (16 <=? n6_len ip + n6_len (concat t)) with true by lia.
    rewrite firstn_app, skipn_app, Hl'. cbn [Nat.sub]. rewrite <- Hl', firstn_all, skipn_all. cbn [firstn skipn app]. rewrite app_nil_r.
    rewrite IH by (try assumption; lia). reflexivity.
Qed.

Lemma ips_concat_len ips : forallb (fun ip => bytes_okb ip && (n6_len ip =? 16)) ips = true ->
  n6_len (concat ips) = 16 * Z.of_nat (length ips) /\ concat (map (fun ip => slot 16 (to16 ip)) ips) = concat ips.
Proof.
  induction ips as [|ip t IH]; intros Hok; [split; reflexivity|].
  cbn [forallb] in Hok. apply andb_prop in Hok as [Hi Ht]. apply andb_prop in Hi as [_ Hl]. destruct (IH Ht) as [IH1 IH2].
  cbn [concat map length]. rewrite n6_len_app, IH1, IH2. split; [lia|]. f_equal.
  unfold to16. rewrite Hl. unfold slot. assert (Hl' : length ip = 16%nat) by (unfold n6_len in Hl; lia).
  rewrite <- Hl', firstn_all, Nat.sub_diag. apply app_nil_r.
Qed.

Lemma rtg_roundtrip r payload : rtg_okb r = true ->
  rtg_decode (concat (rtg_segs r) ++ payload) =
    (Ok (mkRtg (r_next r) (2 * Z.of_nat (length (r_ips r))) (16 * Z.of_nat (length (r_ips r)) + 8) 0 (r_segleft r) (r_reserved r) (r_ips r)
               (concat (rtg_segs r)) payload), false).
Proof.
  unfold rtg_okb. intros H.
  apply andb_prop in H as [H H7]. apply andb_prop in H as [H H6]. apply andb_prop in H as [H H5]. apply andb_prop in H as [H H4].
  apply andb_prop in H as [H H3]. apply andb_prop in H as [H1 H2]. unfold byte_okb in *.
  destruct (ips_concat_len (r_ips r) H6) as [HLi HCi].
  set (n := Z.of_nat (length (r_ips r))) in *.
  assert (Hhdr : concat (rtg_segs r) = [r_next r; 2 * n; 0; r_segleft r] ++ r_reserved r ++ concat (r_ips r)).
  { unfold rtg_segs. cbv zeta. rewrite concat_app, HCi. cbn [concat]. rewrite app_nil_r. fold n.
    assert (Hs : slot 4 (r_reserved r) = r_reserved r).
    { unfold slot. assert (Hl' : length (r_reserved r) = 4%nat) by (unfold n6_len in H5; lia).
      rewrite <- Hl', firstn_all, Nat.sub_diag. apply app_nil_r. }
    rewrite Hs. replace (r_type r) with 0 by lia. unfold u8. rewrite !Z.mod_small by lia. reflexivity. }
  rewrite Hhdr. remember (r_reserved r) as res. assert (Lr : length res = 4%nat) by (unfold n6_len in H5; lia).
  do 4 (destruct res as [|? res]; [discriminate Lr|]). destruct res; [|discriminate Lr].
  cbn [app]. set (ipb := concat (r_ips r)) in *.
  set (hdr := r_next r :: 2 * n :: 0 :: r_segleft r :: z :: z0 :: z1 :: z2 :: ipb).
  change (r_next r :: 2 * n :: 0 :: r_segleft r :: z :: z0 :: z1 :: z2 :: ipb ++ payload) with (hdr ++ payload).
  assert (HLh : n6_len hdr = 16 * n + 8) by (subst hdr; rewrite !n6_len_cons, HLi; lia).
  pose proof (n6_len_nonneg payload) as Hp. assert (Hn : 0 <= n) by (subst n; lia).
  unfold rtg_decode. rewrite n6_len_app. replace (n6_len hdr + n6_len payload <? 2) with false by lia.
  rewrite (n6_idx_eq (hdr ++ payload) 0), (n6_idx_eq (hdr ++ payload) 1) by (rewrite n6_len_app; lia).
  change (nthZ (hdr ++ payload) (Z.to_nat 0)) with (r_next r). change (nthZ (hdr ++ payload) (Z.to_nat 1)) with (2 * n).
  cbv zeta. replace (2 * n * 8 + 8) with (n6_len hdr) by lia.
  replace (n6_len hdr + n6_len payload <? n6_len hdr) with false by lia.
  rewrite (n6_slice_eq (hdr ++ payload) 0 (n6_len hdr)), (n6_from_eq (hdr ++ payload) (n6_len hdr)),
    (n6_idx_eq (hdr ++ payload) 2), (n6_idx_eq (hdr ++ payload) 3), (n6_slice_eq (hdr ++ payload) 4 8) by (rewrite ?n6_len_app; lia).
  change (nthZ (hdr ++ payload) (Z.to_nat 2)) with 0. change (nthZ (hdr ++ payload) (Z.to_nat 3)) with (r_segleft r).
  change (slice (hdr ++ payload) (Z.to_nat 4) (Z.to_nat 8)) with [z; z0; z1; z2].
  change (Z.to_nat 0) with 0%nat. replace (Z.to_nat (n6_len hdr)) with (length hdr) by (unfold n6_len; lia).
  rewrite slice_0, firstn_app, Nat.sub_diag, firstn_all, skipn_app, skipn_all, Nat.sub_diag. cbn [firstn skipn app]. rewrite app_nil_r.
  change (0 =? 0) with true. cbv iota. replace (negb ((n6_len hdr - 8) mod 16 =? 0)) with false by lia.
  rewrite (n6_from_eq hdr 8) by lia. change (skipn (Z.to_nat 8) hdr) with ipb.
  subst ipb. rewrite chunks16_concat; [| exact H6 |].
  - rewrite HLh. subst n. reflexivity.
  - unfold n6_len in HLi. lia.
Qed.
