(* C11, reassembly: the bound on out-of-order pages that IS true of the code as it stands
   (handleBytes pops one page plus contiguous data when a limit is reached). *)
From GP Require Import Base C11Common C11RModel C11LogProofs C11RProofs.
From Coq Require Import Lia ZifyBool.
Open Scope Z_scope.

(* pages a queued payload of len bytes occupies (convertToPages) *)
Definition rpages (len : Z) : Z := zlen (to_pages 0 len 0 false).

Lemma rsplit_length : forall fuel s len ts e f s' ts' e' f',
  length (rsplit fuel s len ts e f) = length (rsplit fuel s' len ts' e' f').
Proof.
  induction fuel as [|n IH]; intros; cbn [rsplit]; [reflexivity|].
  destruct (len - Z.min len PAGE <=? 0); [reflexivity|]. cbn [length]. f_equal. apply IH.
Qed.

Lemma to_pages_len : forall s len ts e, zlen (to_pages s len ts e) = rpages len.
Proof. intros. unfold rpages, to_pages, zlen. f_equal. apply rsplit_length. Qed.

Lemma rpages_pos : forall len, 1 <= rpages len.
Proof.
  intros len. unfold rpages, to_pages. destruct (Z.to_nat (len / PAGE)); cbn [rsplit].
  - rewrite zlen_cons, zlen_nil. lia.
  - destruct (len - Z.min len PAGE <=? 0); rewrite zlen_cons; [rewrite zlen_nil; lia|].
    match goal with |- context [zlen ?l] => pose proof (zlen_nonneg l) end. lia.
Qed.

Lemma rpages_small : forall len, len <= PAGE -> rpages len = 1.
Proof.
  intros len H. unfold rpages, to_pages. destruct (Z.to_nat (len / PAGE)); cbn [rsplit]; [reflexivity|].
  replace (Z.min len PAGE) with len by lia. replace (len - len <=? 0) with true by lia. reflexivity.
Qed.

Lemma co_loop_colen : forall start end_ left right blen rel tags,
  co_len (co_loop start end_ left right blen rel tags) = blen \/
  co_len (co_loop start end_ left right blen rel tags) = 0.
Proof.
  intros start end_. induction left as [|cur rest IH]; intros right blen rel tags; cbn [co_loop]; [left; reflexivity|].
  repeat match goal with
  | |- context [if ?b then _ else _] => destruct b
  end; cbn [co_len]; try (left; reflexivity); try apply IH.
  destruct (IH (cur :: right) 0 rel (6 :: tags)) as [E|E]; right; exact E.
Qed.

Lemma check_overlap_added : forall queue blen start ts e dq,
  c2_added (check_overlap queue blen start ts e dq) = 0 \/
  c2_added (check_overlap queue blen start ts e dq) = rpages blen.
Proof.
  intros. unfold check_overlap.
  pose proof (co_loop_colen start (sadd start blen) (rev queue) [] blen 0 []) as C.
  destruct (co_panic _); [left; reflexivity|].
  destruct ((0 <? co_len _) && dq) eqn:E; [|left; reflexivity]. cbn [c2_added]. rewrite to_pages_len.
  destruct C as [C|C]; rewrite C in *; [right; reflexivity|]. cbn in E. discriminate.
Qed.

(* ------------------------------------------------------------------ queues only shrink outside the queueing branch *)
Definition ql (c : rconn) (w : bool) : Z := zlen (h_queue (get_half c w)).
Definition qle (c c' : rconn) : Prop := forall w, ql c' w <= ql c w.
(* the half w has at most n pages queued afterwards, the other half's queue is as before *)
Definition qrel (c : rconn) (w : bool) (n : Z) (c' : rconn) : Prop :=
  ql c' w <= n /\ ql c' (negb w) = ql c (negb w).

Lemma qle_refl : forall c, qle c c.
Proof. intros c w. lia. Qed.
Lemma qle_trans : forall c c1 c2, qle c c1 -> qle c1 c2 -> qle c c2.
Proof. intros c c1 c2 A B w. specialize (A w). specialize (B w). lia. Qed.
Lemma qrel_qle : forall c w c', qrel c w (ql c w) c' -> qle c c'.
Proof. intros c w c' [A B] w'. destruct w, w'; cbn [negb] in *; lia. Qed.
Lemma qrel_refl : forall c w, qrel c w (ql c w) c.
Proof. intros. split; [lia|reflexivity]. Qed.
Lemma qrel_trans : forall c w n c1 m c2, qrel c w n c1 -> qrel c1 w m c2 -> qrel c w m c2.
Proof. intros c w n c1 m c2 [A B] [C D]. split; [exact C|congruence]. Qed.
Lemma qrel_mono : forall c w n m c', qrel c w n c' -> n <= m -> qrel c w m c'.
Proof. intros c w n m c' [A B] H. split; [lia|exact B]. Qed.
Lemma ql_put_same : forall c w h, ql (put_half c w h) w = zlen (h_queue h).
Proof. intros c [] h; reflexivity. Qed.
Lemma ql_put_other : forall c w h, ql (put_half c w h) (negb w) = ql c (negb w).
Proof. intros c [] h; reflexivity. Qed.
Lemma qrel_put : forall c w h, qrel c w (zlen (h_queue h)) (put_half c w h).
Proof. intros. split; [rewrite ql_put_same; lia|apply ql_put_other]. Qed.
Lemma ql_bump : forall c w, ql (bump_calls c) w = ql c w.
Proof. intros c []; reflexivity. Qed.
Lemma qrel_next : forall c w n c1 (b : bool) nx, qrel c w n c1 ->
  qrel c w n (if b then c1 else put_half c1 w (set_next (get_half c1 w) nx)).
Proof.
  intros c w n c1 b nx [A B]. destruct b; [split; assumption|]. split.
  - rewrite ql_put_same. cbn [set_next h_queue]. exact A.
  - rewrite ql_put_other. exact B.
Qed.

Section Structural.
Variable v : variant.
Variable cfg : rcfg.

Lemma send_q : forall sid n h x r0 acts h' x' ns e, send v cfg sid n h x r0 acts = (h', x', ns, e) ->
  zlen (h_queue h') <= zlen (h_queue h).
Proof.
  intros sid n h x r0 acts h' x' ns e H. unfold send in H.
  destruct (add_pending (h_saved h) (cseq r0)) as [[[pre sl] saved1] reld].
  destruct (add_contiguous (h_queue h) (sadd (cseq r0) (clen r0))) as [[tk q1] nextSeq] eqn:Ec.
  apply add_contiguous_len in Ec. pose proof (zlen_nonneg tk).
  match type of H with context [if ?b then _ else find_keep _ _ _ _ _] => destruct b end.
  - destruct (keep_conv _ 0) as [[saved2 alloc] pk]. inversion H; subst. cbn [h_queue]. lia.
  - destruct (find_keep _ _ 0 _ 0) as [ndx kskip]. destruct (keep_conv _ kskip) as [[saved2 alloc] pk]. inversion H; subst. cbn [h_queue]. lia.
Qed.

Lemma close_half_q : forall c w x c' rm x', close_half v cfg c w x = (c', rm, x') -> qrel c w 0 c'.
Proof.
  intros c w x c' rm x' H. unfold close_half in H.
  match type of H with context [put_half c w ?hh] => set (h' := hh) in * end.
  assert (Q : qrel c w 0 (put_half c w h')) by (apply (qrel_put c w h')).
  destruct (both_closed (put_half c w h')); inversion H; subst; exact Q.
Qed.

Lemma send_conn_q : forall c w h x r0 acts c' rm x' ns,
  send_conn v cfg c w h x r0 acts = (c', rm, x', ns) -> qrel c w (zlen (h_queue h)) c'.
Proof.
  intros c w h x r0 acts c' rm x' ns H. unfold send_conn in H.
  destruct (send v cfg (rc_sid c) (rc_ncalls c) h x r0 acts) as [[[h1 x1] nextSeq] isEnd] eqn:Es.
  pose proof (send_q _ _ _ _ _ _ _ _ _ _ Es) as S.
  assert (Q1 : qrel c w (zlen (h_queue h)) (bump_calls (put_half c w h1))).
  { split; [rewrite ql_bump, ql_put_same; exact S|rewrite ql_bump; apply ql_put_other]. }
  destruct (x_panic x1); [inversion H; subst; exact Q1|].
  destruct isEnd; [|inversion H; subst; exact Q1].
  destruct (close_half v cfg _ w x1) as [[c2 rm2] x2] eqn:Ec. inversion H; subst.
  pose proof (zlen_nonneg (h_queue h)).
  eapply qrel_mono; [eapply qrel_trans; [exact Q1|eapply close_half_q; exact Ec]|lia].
Qed.

Lemma skip_flush_q : forall c w x c' rm x', skip_flush v cfg c w x = (c', rm, x') -> qrel c w (ql c w) c'.
Proof.
  intros c w x c' rm x' H. unfold skip_flush in H. pose proof (zlen_nonneg (h_queue (get_half c w))) as Hn.
  destruct (h_queue (get_half c w)) as [|p q'] eqn:Eq.
  - eapply qrel_mono; [eapply close_half_q; exact H|unfold ql; rewrite Eq; exact Hn].
  - match type of H with context [send_conn v cfg c w ?hh x ?r ?a] => destruct (send_conn v cfg c w hh x r a) as [[[c1 rm1] x1] nextSeq] eqn:Es end.
    inversion H; subst; clear H. apply qrel_next.
    eapply qrel_mono; [eapply send_conn_q; exact Es|]. cbn [h_queue]. unfold ql. rewrite Eq, zlen_cons. lia.
Qed.

Lemma qrel_step : forall c w c1 c2, qrel c w (ql c w) c1 -> qrel c1 w (ql c1 w) c2 -> qrel c w (ql c w) c2.
Proof. intros c w c1 c2 A B. destruct A as [A1 A2]. eapply qrel_mono; [eapply qrel_trans; [split; [exact A1|exact A2]|exact B]|exact A1]. Qed.

Lemma fc_loop_q : forall t w fuel c rm x c' rm' x', fc_loop fuel v cfg c w rm x t = (c', rm', x') -> qrel c w (ql c w) c'.
Proof.
  intros t w. induction fuel as [|f IH]; intros c rm x c' rm' x' H; cbn [fc_loop] in H; [inversion H; subst; apply qrel_refl|].
  destruct (h_closed (get_half c w) || x_panic x); [inversion H; subst; apply qrel_refl|].
  destruct (h_queue (get_half c w)); [inversion H; subst; apply qrel_refl|].
  destruct (rp_seen r <? t); [|inversion H; subst; apply qrel_refl].
  destruct (skip_flush v cfg c w x) as [[c1 rm1] x1] eqn:Es.
  eapply qrel_step; [eapply skip_flush_q; exact Es|eapply IH; exact H].
Qed.

Lemma flush_close_q : forall w t tc c x c' rm' x' fl cl, flush_close v cfg c w x t tc = (c', rm', x', fl, cl) -> qrel c w (ql c w) c'.
Proof.
  intros w t tc c x c' rm' x' fl cl H. unfold flush_close in H.
  destruct (h_closed (get_half c w)); [inversion H; subst; apply qrel_refl|].
  destruct (fc_loop _ v cfg c w false x t) as [[c1 rm1] x1] eqn:El.
  pose proof (fc_loop_q _ _ _ _ _ _ _ _ _ El) as Q1.
  destruct (x_panic x1); [inversion H; subst; exact Q1|].
  destruct (h_closed (get_half c1 w)); [inversion H; subst; exact Q1|].
  destruct (h_queue (get_half c1 w)); [|inversion H; subst; exact Q1].
  destruct (conn_last_seen c1 <? tc); [|inversion H; subst; exact Q1].
  destruct (close_half v cfg c1 w x1) as [[c2 rm2] x2] eqn:Ecl. inversion H; subst.
  eapply qrel_step; [exact Q1|]. eapply qrel_mono; [eapply close_half_q; exact Ecl|apply zlen_nonneg].
Qed.

Lemma flush_conn_q : forall t tc c x c' rm x' a b, flush_conn v cfg t tc c x = (c', rm, x', a, b) -> qle c c'.
Proof.
  intros t tc c x c' rm x' a b H. unfold flush_conn in H.
  destruct (flush_close v cfg c false x t tc) as [[[[c1 rm1] x1] f1] k1] eqn:E1.
  pose proof (qrel_qle _ _ _ (flush_close_q _ _ _ _ _ _ _ _ _ _ E1)) as Q1.
  destruct (x_panic x1); [inversion H; subst; exact Q1|].
  destruct (flush_close v cfg c1 true x1 t tc) as [[[[c2 rm2] x2] f2] k2] eqn:E2.
  inversion H; subst. eapply qle_trans; [exact Q1|eapply qrel_qle; eapply flush_close_q; exact E2].
Qed.

Lemma fa_loop_q : forall w fuel c rm x c' rm' x', fa_loop fuel v cfg c w rm x = (c', rm', x') -> qrel c w (ql c w) c'.
Proof.
  intros w. induction fuel as [|f IH]; intros c rm x c' rm' x' H; cbn [fa_loop] in H; [inversion H; subst; apply qrel_refl|].
  destruct (h_closed (get_half c w) || x_panic x); [inversion H; subst; apply qrel_refl|].
  destruct (skip_flush v cfg c w x) as [[c1 rm1] x1] eqn:Es.
  eapply qrel_step; [eapply skip_flush_q; exact Es|eapply IH; exact H].
Qed.

Lemma flush_all_conn_q : forall c x c' rm x' a b, flush_all_conn v cfg c x = (c', rm, x', a, b) -> qle c c'.
Proof.
  intros c x c' rm x' a b H. unfold flush_all_conn in H.
  destruct (fa_loop _ v cfg c false false x) as [[c1 rm1] x1] eqn:E1.
  pose proof (qrel_qle _ _ _ (fa_loop_q _ _ _ _ _ _ _ _ E1)) as Q1.
  destruct (x_panic x1); [inversion H; subst; exact Q1|].
  destruct (fa_loop _ v cfg c1 true false x1) as [[c2 rm2] x2] eqn:E2.
  inversion H; subst. eapply qle_trans; [exact Q1|eapply qrel_qle; eapply fa_loop_q; exact E2].
Qed.

(* ------------------------------------------------------------------ the queueing call *)
(* AssembleWithContext on a connection whose touched half keeps its counter right (half_ok):
   either the queue of that half grew by at most pages(len) - 1 (A), or no limit was reached by
   the values the code compared (B) -- and then the counter bounds the queue *)
Definition step_bound (c : rconn) (w : bool) (len : Z) (c' : rconn) (x' : rctx) : Prop :=
  ql c' (negb w) = ql c (negb w) /\
  (ql c' w <= ql c w + rpages len - 1 \/
   (ql c' w <= ql c w + rpages len /\ ql c' w <= h_pages (get_half c' w) /\
    limit_hit cfg (h_pages (get_half c' w)) (x_used x') = false)).

Lemma assemble_conn_limit : forall c w x seq syn fin rst len ts c' rm x',
  half_ok (get_half c w) ->
  assemble_conn v cfg c w x seq syn fin rst len ts = (c', rm, x') -> step_bound c w len c' x'.
Proof.
  intros c w x seq syn fin rst len ts c' rm x' [Hok _] H. unfold assemble_conn in H.
  set (h0 := get_half c w) in *.
  match type of H with context [if h_closed ?hh then _ else _] => set (h := hh) in * end.
  pose proof (rpages_pos len) as Rp. pose proof (zlen_nonneg (h_queue h0)) as Hq0.
  (* results that leave at most the old queue *)
  assert (A : forall c1 x1, qrel c w (ql c w) c1 -> step_bound c w len c1 x1).
  { intros c1 x1 [Q1 Q2]. split; [exact Q2|left; lia]. }
  assert (Keep : forall hh x1, h_queue hh = h_queue h0 -> step_bound c w len (put_half c w hh) x1).
  { intros hh x1 E. apply A. eapply qrel_mono; [apply qrel_put|]. rewrite E. unfold ql. fold h0. lia. }
  destruct (h_closed h); [inversion H; subst; apply Keep; reflexivity|].
  destruct (classify (h_next h) seq syn) as [[seq1 next1] queue].
  set (hn := set_next h next1) in *.
  destruct queue.
  - pose proof (check_overlap_len fixedv eq_refl eq_refl (h_queue hn) len seq1 ts (rst || fin) true) as L. cbn zeta in L.
    pose proof (check_overlap_added (h_queue hn) len seq1 ts (rst || fin) true) as Ad.
    destruct (check_overlap (h_queue hn) len seq1 ts (rst || fin) true) as [q2 l2 added rel tags pk] eqn:Eco.
    cbn [c2_panic c2_queue c2_rel c2_added c2_len] in *.
    destruct pk; [inversion H; subst; apply Keep; reflexivity|].
    specialize (L eq_refl). destruct L as [L1 [L2 L3]].
    assert (Ha : added <= rpages len) by (destruct Ad; lia).
    change (h_queue hn) with (h_queue h0) in L1.
    set (pages1 := h_pages hn - rel + added) in *. set (used1 := x_used x - rel + added) in *.
    destruct (limit_hit cfg pages1 used1) eqn:Eh.
    + destruct q2 as [|p q'] eqn:Eq2.
      * inversion H; subst. apply A. eapply qrel_mono; [apply qrel_put|]. cbn [h_queue]. rewrite zlen_nil. unfold ql. fold h0. lia.
      * match type of H with context [send_conn v cfg c w ?hh ?xx ?r ?a] => destruct (send_conn v cfg c w hh xx r a) as [[[c1 rm1] x1] nextSeq] eqn:Es end.
        inversion H; subst; clear H.
        pose proof (send_conn_q _ _ _ _ _ _ _ _ _ _ Es) as Q. cbn [h_queue] in Q. rewrite zlen_cons in L1.
        destruct (qrel_next c w _ c1 (nextSeq =? INVALID) nextSeq Q) as [Q1 Q2].
        split; [exact Q2|left]. unfold ql at 2. fold h0. lia.
    + inversion H; subst. split; [apply ql_put_other|right]. rewrite get_put_same, ql_put_same. cbn [h_queue h_pages with_used x_used].
      unfold ql. fold h0. split; [lia|]. split; [|exact Eh].
      unfold pages1. change (h_pages hn) with (h_pages h0). unfold hp in Hok. pose proof (zlen_nonneg (h_saved h0)). lia.
  - destruct (overlap_existing (h_next hn) seq1 len) as [[b1 seq2] pk0].
    destruct pk0; [inversion H; subst; apply Keep; reflexivity|].
    pose proof (check_overlap_len fixedv eq_refl eq_refl (h_queue hn) b1 seq2 ts (rst || fin) false) as L. cbn zeta in L.
    destruct (check_overlap (h_queue hn) b1 seq2 ts (rst || fin) false) as [q2 l2 added rel tags pk] eqn:Eco.
    cbn [c2_panic c2_queue c2_rel c2_added c2_len] in *.
    destruct pk; [inversion H; subst; apply Keep; reflexivity|].
    specialize (L eq_refl). destruct L as [L1 [L2 L3]].
    assert (Ea : added = 0).
    { unfold check_overlap in Eco. destruct (co_panic _) in Eco; [inversion Eco; reflexivity|].
      rewrite andb_false_r in Eco. inversion Eco; reflexivity. }
    subst added. change (h_queue hn) with (h_queue h0) in L1.
    destruct ((0 <? l2) || (rst || fin) || syn).
    + match type of H with context [send_conn v cfg c w ?hh ?xx ?r ?a] => destruct (send_conn v cfg c w hh xx r a) as [[[c1 rm1] x1] nextSeq] eqn:Es end.
      inversion H; subst; clear H. apply A.
      pose proof (send_conn_q _ _ _ _ _ _ _ _ _ _ Es) as Q. cbn [h_queue] in Q.
      match goal with |- qrel c w _ (if ?b then _ else _) => destruct (qrel_next c w _ c1 b (if fin then sadd nextSeq 1 else nextSeq) Q) as [Q1 Q2] end.
      split; [|exact Q2]. unfold ql at 2. fold h0. lia.
    + inversion H; subst. apply A. eapply qrel_mono; [apply qrel_put|]. cbn [h_queue]. unfold ql. fold h0. lia.
Qed.
End Structural.

(* ------------------------------------------------------------------ the pool *)
Definition qbound (B : Z) (l : list rconn) : Prop := Forall (fun c => forall w, ql c w <= B) l.
Definition qtot (l : list rconn) : Z := fold_right (fun c a => ql c true + ql c false + a) 0 l.

Lemma ql_nonneg : forall c w, 0 <= ql c w.
Proof. intros. apply zlen_nonneg. Qed.
Lemma qtot_app : forall a b, qtot (a ++ b) = qtot a + qtot b.
Proof. induction a as [|x a IH]; intros b; [reflexivity|]. cbn [app]. change (ql x true + ql x false + qtot (a ++ b) = ql x true + ql x false + qtot a + qtot b). rewrite IH. lia. Qed.
Lemma qtot_cons : forall c l, qtot (c :: l) = ql c true + ql c false + qtot l.
Proof. reflexivity. Qed.
Lemma qtot_nonneg : forall l, 0 <= qtot l.
Proof. induction l as [|c l IH]; [cbn; lia|]. rewrite qtot_cons. pose proof (ql_nonneg c true). pose proof (ql_nonneg c false). lia. Qed.
Lemma qtot_le_psum : forall l, qtot l <= psum l.
Proof.
  induction l as [|c l IH]; [cbn; lia|]. rewrite qtot_cons, psum_cons. unfold cp, hp, ql. cbn [get_half].
  pose proof (zlen_nonneg (h_saved (rc_c2s c))). pose proof (zlen_nonneg (h_saved (rc_s2c c))). lia.
Qed.
Lemma qbound_mono : forall B B' l, qbound B l -> B <= B' -> qbound B' l.
Proof. intros B B' l H Hle. eapply Forall_impl; [|exact H]. intros c Hc w. specialize (Hc w). lia. Qed.
Lemma qbound_app : forall B a b, qbound B (a ++ b) <-> qbound B a /\ qbound B b.
Proof. intros. apply Forall_app. Qed.

Lemma rflush_conns_q : forall f, (forall c x c' rm x' a b, f c x = (c', rm, x', a, b) -> qle c c') ->
  forall l x B, qbound B l ->
  qbound B (ra_keep (rflush_conns f l x)) /\ qtot (ra_keep (rflush_conns f l x)) <= qtot l.
Proof.
  intros f Hf. induction l as [|c l IH]; intros x B HB; cbn [rflush_conns].
  - split; [constructor|cbn; lia].
  - destruct (x_panic x); [cbn [ra_keep]; split; [exact HB|lia]|].
    inversion HB as [|? ? Hc HB']; subst.
    destruct (f c x) as [[[[c1 rm] x1] a] b] eqn:Ef. pose proof (Hf _ _ _ _ _ _ _ Ef) as Q.
    destruct (IH x1 B HB') as [I1 I2]. cbn [ra_keep]. rewrite qtot_cons.
    pose proof (ql_nonneg c true). pose proof (ql_nonneg c false).
    destruct rm; [split; [exact I1|lia]|].
    rewrite qtot_cons. pose proof (Q true). pose proof (Q false). split; [|lia].
    constructor; [|exact I1]. intros w. specialize (Q w). specialize (Hc w). lia.
Qed.

Section Pool.
Variable v : variant.
Variable cfg : rcfg.
Hypothesis Hsaved : v_saved v = true.
Hypothesis Hhp : v_hpages v = true.

(* one AssembleWithContext call on a state satisfying the invariant *)
Lemma r_limit_assemble : forall st k dir seq syn fin rst len ts B, rinv cfg st -> 0 <= B -> qbound B (rs_conns st) ->
  let st' := fst (rassemble v st k dir seq syn fin rst len ts) in
  (r_mpc cfg > 0 -> qbound (Z.max (r_mpc cfg - 1) (B + rpages len - 1)) (rs_conns st')) /\
  (r_mt cfg > 0 -> qtot (rs_conns st') <= Z.max (r_mt cfg - 1) (qtot (rs_conns st) + rpages len - 1)).
Proof.
  intros st k dir seq syn fin rst len ts B Hi HB0 HB. cbn zeta.
  pose proof (rassemble_inv v cfg Hsaved Hhp st k dir seq syn fin rst len ts Hi) as Hi'.
  pose proof (rpages_pos len) as Rp.
  destruct Hi as [Hc [Hu HF]]. destruct Hi' as [_ [Hu' _]].
  assert (Same : (r_mpc cfg > 0 -> qbound (Z.max (r_mpc cfg - 1) (B + rpages len - 1)) (rs_conns st)) /\
                 (r_mt cfg > 0 -> qtot (rs_conns st) <= Z.max (r_mt cfg - 1) (qtot (rs_conns st) + rpages len - 1))).
  { split; intros _; [eapply qbound_mono; [exact HB|lia]|lia]. }
  unfold rassemble in *. rewrite Hc in *.
  destruct (rsplit_key k (rs_conns st)) as [[[pre c] post]|] eqn:Es.
  - apply rsplit_key_spec in Es. rewrite Es in *.
    apply Forall_app in HF. destruct HF as [F1 F2]. inversion F2 as [|xx ll Hcok F3]; subst xx ll.
    apply qbound_app in HB. destruct HB as [B1 B2]. inversion B2 as [|xx ll Bc B3]; subst xx ll.
    set (w := Bool.eqb dir (rc_dir c)) in *.
    destruct (assemble_conn v cfg c w (mkCtx (rs_used st) [] false) seq syn fin rst len ts) as [[c1 rm] x1] eqn:Ea.
    assert (Hh : half_ok (get_half c w)). { destruct Hcok as [Hok _]. apply (conn_ok_halves c w) in Hok. apply Hok. }
    destruct (assemble_conn_limit v cfg c w _ _ _ _ _ _ _ _ _ _ Hh Ea) as [SO ST].
    destruct (x_panic x1) eqn:Ep; [unfold rdead; cbn [fst rs_conns]; rewrite Es; exact Same|]. cbn [fst rs_conns rs_used] in *.
    rewrite qtot_app, qtot_cons in *.
    pose proof (ql_nonneg c true). pose proof (ql_nonneg c false). pose proof (ql_nonneg c1 true). pose proof (ql_nonneg c1 false).
    assert (Bw := Bc w). assert (Bo := Bc (negb w)).
    assert (Tot1 : ql c1 true + ql c1 false = ql c1 w + ql c1 (negb w)) by (destruct w; cbn [negb]; lia).
    assert (Tot0 : ql c true + ql c false = ql c w + ql c (negb w)) by (destruct w; cbn [negb]; lia).
    destruct rm.
    + split; intros Hm.
      * apply qbound_app. split; eapply qbound_mono; eauto; lia.
      * rewrite qtot_app. lia.
    + split; intros Hm.
      * apply qbound_app. split; [eapply qbound_mono; [exact B1|lia]|]. constructor; [|eapply qbound_mono; [exact B3|lia]].
        intros w'. assert (Hw' : w' = w \/ w' = negb w) by (destruct w, w'; auto). destruct Hw' as [E|E]; subst w'; [|lia].
        destruct ST as [ST|[ST1 [ST2 ST3]]]; [lia|].
        unfold limit_hit in ST3. apply orb_false_iff in ST3. destruct ST3 as [S3 _]. lia.
      * rewrite qtot_app, qtot_cons.
        destruct ST as [ST|[ST1 [ST2 ST3]]]; [lia|].
        unfold limit_hit in ST3. apply orb_false_iff in ST3. destruct ST3 as [_ S4].
        pose proof (qtot_le_psum (pre ++ c1 :: post)) as Q. rewrite qtot_app, qtot_cons in Q. rewrite <- Hu' in Q. lia.
  - set (sid := rs_nstreams st + 1) in *.
    destruct (if rs_free st <=? 0 then (rs_alloc st - 1, 2 * rs_alloc st) else (rs_free st - 1, rs_alloc st)) as [free1 alloc1].
    set (c := mkRC k dir sid 0 (new_half ts) (new_half ts)) in *.
    destruct (assemble_conn v cfg c true (mkCtx (rs_used st) [] false) seq syn fin rst len ts) as [[c1 rm] x1] eqn:Ea.
    assert (Hh : half_ok (get_half c true)) by (unfold half_ok, hp; cbn; split; [reflexivity|discriminate]).
    destruct (assemble_conn_limit v cfg c true _ _ _ _ _ _ _ _ _ _ Hh Ea) as [SO ST]. cbn [negb] in SO.
    assert (Q0 : ql c true = 0 /\ ql c false = 0) by (split; reflexivity). destruct Q0 as [Q0t Q0f].
    destruct (x_panic x1) eqn:Ep; [unfold rdead; cbn [fst rs_conns]; exact Same|]. cbn [fst rs_conns rs_used] in *.
    pose proof (ql_nonneg c1 true). pose proof (ql_nonneg c1 false).
    destruct rm; [exact Same|].
    split; intros Hm.
    + apply qbound_app. split; [eapply qbound_mono; [exact HB|lia]|]. constructor; [|constructor].
      intros w'. destruct w'; [|lia].
      destruct ST as [ST|[ST1 [ST2 ST3]]]; [lia|].
      unfold limit_hit in ST3. apply orb_false_iff in ST3. destruct ST3 as [S3 _]. lia.
    + rewrite qtot_app, qtot_cons. cbn [qtot fold_right].
      destruct ST as [ST|[ST1 [ST2 ST3]]]; [lia|].
      unfold limit_hit in ST3. apply orb_false_iff in ST3. destruct ST3 as [_ S4].
      pose proof (qtot_le_psum (rs_conns st ++ [c1])) as Q. rewrite qtot_app, qtot_cons in Q. cbn [qtot fold_right] in Q. rewrite <- Hu' in Q. lia.
Qed.

(* pages(len) - 1 summed over the AssembleWithContext calls of a history *)
Fixpoint excess (ops : list rop) : Z :=
  match ops with
  | [] => 0
  | RSeg _ _ _ _ _ _ len _ :: t => rpages len - 1 + excess t
  | _ :: t => excess t
  end.

Lemma excess_nonneg : forall ops, 0 <= excess ops.
Proof. induction ops as [|o ops IH]; [cbn; lia|]. destruct o; cbn [excess]; try exact IH. pose proof (rpages_pos len). lia. Qed.

Lemma rflush_with_q : forall f st fa B, (forall c x c' rm x' a b, f c x = (c', rm, x', a, b) -> qle c c') ->
  qbound B (rs_conns st) ->
  qbound B (rs_conns (fst (rflush_with f st fa))) /\ qtot (rs_conns (fst (rflush_with f st fa))) <= qtot (rs_conns st).
Proof.
  intros f st fa B Hf HB. unfold rflush_with.
  destruct (rflush_conns_q f Hf (rs_conns st) (mkCtx (rs_used st) [] false) B HB) as [I1 I2].
  destruct (x_panic _); cbn [fst rs_conns rdead]; [split; [exact HB|lia]|split; assumption].
Qed.

Lemma r_limit_run : forall ops st B S, rinv cfg st -> 0 <= B -> r_mpc cfg - 1 <= B -> r_mt cfg - 1 <= S ->
  qbound B (rs_conns st) -> qtot (rs_conns st) <= S ->
  let st' := fst (rrun_state v st ops) in
  (r_mpc cfg > 0 -> qbound (B + excess ops) (rs_conns st')) /\
  (r_mt cfg > 0 -> qtot (rs_conns st') <= S + excess ops).
Proof.
  induction ops as [|o ops IH]; intros st B S Hi HB0 HBL HST HB HS; cbn [rrun_state].
  - cbn zeta. cbn [fst excess]. rewrite !Z.add_0_r. split; intros _; assumption.
  - pose proof (rstep_inv v cfg Hsaved Hhp st o Hi) as Hi1. pose proof (excess_nonneg ops) as En.
    assert (Step : exists B1 S1, B <= B1 /\ S <= S1 /\ B1 + excess ops <= B + excess (o :: ops) /\ S1 + excess ops <= S + excess (o :: ops) /\
              (r_mpc cfg > 0 -> qbound B1 (rs_conns (fst (rstep v st o)))) /\
              (r_mt cfg > 0 -> qtot (rs_conns (fst (rstep v st o))) <= S1)).
    { unfold rstep. destruct (rs_dead st).
      - exists B, S. cbn [fst].
        assert (E0 : excess ops <= excess (o :: ops)) by (destruct o; cbn [excess]; try pose proof (rpages_pos len); lia).
        split; [lia|]. split; [lia|]. split; [lia|]. split; [lia|]. split; intros _; assumption.
      - destruct o.
        + pose proof (rpages_pos len) as Rp.
          destruct (r_limit_assemble st key dir seq syn fin rst len ts B Hi HB0 HB) as [L1 L2].
          exists (B + rpages len - 1), (S + rpages len - 1). cbn [excess].
          split; [lia|]. split; [lia|]. split; [lia|]. split; [lia|]. split.
          * intros Hm. eapply qbound_mono; [exact (L1 Hm)|lia].
          * intros Hm. specialize (L2 Hm). lia.
        + destruct Hi as [Hc _]. rewrite Hc.
          destruct (rflush_with_q (flush_conn v cfg t tc) st None B (fun c x c' rm x' a b Hf => flush_conn_q v cfg t tc c x c' rm x' a b Hf) HB) as [I1 I2].
          exists B, S. cbn [excess]. split; [lia|]. split; [lia|]. split; [lia|]. split; [lia|]. split; intros _; [exact I1|lia].
        + destruct Hi as [Hc _]. rewrite Hc.
          destruct (rflush_with_q (flush_all_conn v cfg) st (Some (zlen (rs_conns st))) B (fun c x c' rm x' a b Hf => flush_all_conn_q v cfg c x c' rm x' a b Hf) HB) as [I1 I2].
          exists B, S. cbn [excess]. split; [lia|]. split; [lia|]. split; [lia|]. split; [lia|]. split; intros _; [exact I1|lia]. }
    destruct Step as [B1 [S1 [E1 [E2 [E3 [E4 [Q1 Q2]]]]]]].
    destruct (rstep v st o) as [st1 ou]. cbn [fst] in *.
    (* the bounds are only claimed under the respective limit; thread them conditionally *)
    destruct (Z_gt_le_dec (r_mpc cfg) 0) as [Lp|Lp]; destruct (Z_gt_le_dec (r_mt cfg) 0) as [Tp|Tp].
    + destruct (IH st1 B1 S1 Hi1 ltac:(lia) ltac:(lia) ltac:(lia) (Q1 Lp) (Q2 Tp)) as [I1 I2].
      destruct (rrun_state v st1 ops) as [st2 ev]. cbn [fst] in *.
      split; intros Hm; [eapply qbound_mono; [exact (I1 Hm)|lia]|specialize (I2 Hm); lia].
    + destruct (IH st1 B1 (Z.max S1 (qtot (rs_conns st1))) Hi1 ltac:(lia) ltac:(lia) ltac:(lia) (Q1 Lp) ltac:(lia)) as [I1 _].
      destruct (rrun_state v st1 ops) as [st2 ev]. cbn [fst] in *.
      split; intros Hm; [eapply qbound_mono; [exact (I1 Hm)|lia]|lia].
    + assert (HBx : exists Bx, B1 <= Bx /\ qbound Bx (rs_conns st1)).
      { clear. induction (rs_conns st1) as [|c l IHl]; [exists B1; split; [lia|constructor]|].
        destruct IHl as [Bx [Hx1 Hx2]]. exists (Z.max Bx (Z.max (ql c true) (ql c false))). split; [lia|].
        constructor; [intros []; lia|eapply qbound_mono; [exact Hx2|lia]]. }
      destruct HBx as [Bx [Hx1 Hx2]].
      destruct (IH st1 Bx S1 Hi1 ltac:(lia) ltac:(lia) ltac:(lia) Hx2 (Q2 Tp)) as [_ I2].
      destruct (rrun_state v st1 ops) as [st2 ev]. cbn [fst] in *.
      split; intros Hm; [lia|specialize (I2 Hm); lia].
    + destruct (rrun_state v st1 ops) as [st2 ev]. cbn [fst]. split; intros Hm; lia.
Qed.
End Pool.

(* C11_r_limit: the bound that holds of the code as it stands *)
Lemma r_limit : forall v cfg ops, v_saved v = true -> v_hpages v = true ->
  let st := fst (rrun_state v (rinit cfg) ops) in
  (r_mpc cfg > 0 -> forall c w, In c (rs_conns st) -> ql c w <= r_mpc cfg - 1 + excess ops) /\
  (r_mt cfg > 0 -> qtot (rs_conns st) <= r_mt cfg - 1 + excess ops).
Proof.
  intros v cfg ops Hs Hh. cbn zeta.
  assert (Q0 : forall X, qbound X (rs_conns (rinit cfg))) by (intros; constructor).
  assert (T0 : qtot (rs_conns (rinit cfg)) = 0) by reflexivity.
  destruct (Z_gt_le_dec (r_mpc cfg) 0) as [Lp|Lp]; destruct (Z_gt_le_dec (r_mt cfg) 0) as [Tp|Tp].
  - destruct (r_limit_run v cfg Hs Hh ops (rinit cfg) (r_mpc cfg - 1) (r_mt cfg - 1) (rinit_inv cfg)
                ltac:(lia) ltac:(lia) ltac:(lia) (Q0 _) ltac:(rewrite T0; lia)) as [I1 I2].
    split; [intros Hm c w Hin; specialize (I1 Hm); unfold qbound in I1; rewrite Forall_forall in I1; apply I1; exact Hin|exact I2].
  - destruct (r_limit_run v cfg Hs Hh ops (rinit cfg) (r_mpc cfg - 1) 0 (rinit_inv cfg)
                ltac:(lia) ltac:(lia) ltac:(lia) (Q0 _) ltac:(rewrite T0; lia)) as [I1 I2].
    split; [intros Hm c w Hin; specialize (I1 Hm); unfold qbound in I1; rewrite Forall_forall in I1; apply I1; exact Hin|lia].
  - destruct (r_limit_run v cfg Hs Hh ops (rinit cfg) 0 (r_mt cfg - 1) (rinit_inv cfg)
                ltac:(lia) ltac:(lia) ltac:(lia) (Q0 _) ltac:(rewrite T0; lia)) as [I1 I2].
    split; [lia|exact I2].
  - split; lia.
Qed.

(* with packets of at most one page the property's own bound holds (and more: below the limit) *)
Lemma excess_single : forall ops, (forall k d s a b f l t, In (RSeg k d s a b f l t) ops -> l <= PAGE) -> excess ops = 0.
Proof.
  induction ops as [|o ops IH]; intros H; [reflexivity|]. destruct o; cbn [excess].
  - rewrite (rpages_small len) by (eapply H; left; reflexivity). rewrite IH; [lia|]. intros; eapply H; right; eassumption.
  - apply IH. intros; eapply H; right; eassumption.
  - apply IH. intros; eapply H; right; eassumption.
Qed.
