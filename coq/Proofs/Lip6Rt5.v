(* Lip6 — round trip of an IPv6 jumbogram whose layer already carries a hop-by-hop header *)
From GP Require Import Base ListX N6Lib Lip6Model Lip6Proofs Lip6Rt Lip6Rt2 Lip6Rt3 Lip6Idem.
From Coq Require Import Lia ZifyBool ZifyNat.
Open Scope Z_scope.
Ltac Zify.zify_post_hook ::= Z.div_mod_to_equations.

(* ---------------------------------------------------------------- (type, data) pairs *)

(* data of the first jumbo pair; the pairs with that data replaced *)
Fixpoint fj (ps : list (Z * list Z)) : option (list Z) :=
  match ps with [] => None | (t, d) :: r => if t =? JUMBO then Some d else fj r end.
Fixpoint rfp (V : list Z) (ps : list (Z * list Z)) : list (Z * list Z) :=
  match ps with [] => [] | (t, d) :: r => if t =? JUMBO then (t, V) :: r else (t, d) :: rfp V r end.

Lemma nonpad_cons o os : tlv_nonpad (o :: os) =
  if (t_type o =? 0) || (t_type o =? 1) then tlv_nonpad os else (t_type o, t_data o) :: tlv_nonpad os.
Proof. unfold tlv_nonpad. cbn [filter]. destruct ((t_type o =? 0) || (t_type o =? 1)); reflexivity. Qed.

Lemma nonpad_replace v os : tlv_nonpad (match replace_first_jumbo v os with Some x => x | None => os end) =
  rfp (be_bytes 4 (u32 v)) (tlv_nonpad os) /\
  (replace_first_jumbo v os = None <-> fj (tlv_nonpad os) = None).
Proof.
  induction os as [|o t [IH1 IH2]]; [split; [reflexivity|split; reflexivity]|].
  cbn [replace_first_jumbo]. destruct (t_type o =? JUMBO) eqn:EJ.
  - assert (Ht : t_type o = JUMBO) by lia. rewrite !nonpad_cons. cbn [set_jumbo t_type t_data]. rewrite Ht.
    change ((JUMBO =? 0) || (JUMBO =? 1)) with false. cbn [rfp fj]. change (JUMBO =? JUMBO) with true.
    split; [reflexivity|split; discriminate].
  - destruct (replace_first_jumbo v t) as [t'|] eqn:ER.
    + rewrite !nonpad_cons. destruct ((t_type o =? 0) || (t_type o =? 1)); [split; [exact IH1|]|].
      * split; [discriminate|]. intros H. apply IH2 in H. discriminate.
      * cbn [rfp fj]. rewrite EJ, IH1. split; [reflexivity|]. split; [discriminate|]. intros H. apply IH2 in H. discriminate.
    + rewrite !nonpad_cons in *. destruct ((t_type o =? 0) || (t_type o =? 1)); [split; [exact IH1|]|].
      * split; [intros _; apply IH2; reflexivity|reflexivity].
      * cbn [rfp fj]. rewrite EJ, <- IH1. split; [reflexivity|]. split; [intros _; apply IH2; reflexivity|reflexivity].
Qed.

Lemma fj_rfp V ps : fj ps <> None -> fj (rfp V ps) = Some V.
Proof.
  induction ps as [|[t d] r IH]; [intros H; contradiction|]. cbn [fj rfp]. destruct (t =? JUMBO) eqn:E; cbn [fj]; rewrite E; [reflexivity|exact IH].
Qed.

Lemma nonpad_app_jumbo os V : tlv_nonpad (os ++ [mkTlv JUMBO 4 6 V 4 2]) = tlv_nonpad os ++ [(JUMBO, V)].
Proof. unfold tlv_nonpad. rewrite filter_app, map_app. reflexivity. Qed.

Lemma fj_app_none ps V : fj ps = None -> fj (ps ++ [(JUMBO, V)]) = Some V.
Proof.
  induction ps as [|[t d] r IH]; [reflexivity|]. cbn [fj app]. destruct (t =? JUMBO); [discriminate|exact IH].
Qed.

(* after addIPv6JumboOption the first jumbo option carries four zero octets *)
Lemma fj_aj os : fj (tlv_nonpad (aj_opts os)) = Some [0; 0; 0; 0].
Proof.
  unfold aj_opts. destruct (nonpad_replace 0 os) as [H1 H2]. destruct (replace_first_jumbo 0 os) eqn:E.
  - rewrite H1. apply fj_rfp. intros HN. apply H2 in HN. discriminate.
  - unfold set_jumbo. rewrite nonpad_app_jumbo. apply fj_app_none. apply H2. reflexivity.
Qed.

(* getIPv6HopByHopJumboLength in terms of the pairs *)
Lemma get_jumbo_fj h d : fj (tlv_nonpad (e_opts h)) = Some d -> n6_len d = 4 ->
  get_jumbo h = if be_val d <=? 65535 then Err 6 else Ok (be_val d, true).
Proof.
  unfold get_jumbo. induction (e_opts h) as [|o t IH]; [discriminate|]. rewrite nonpad_cons. cbn [find].
  destruct (t_type o =? JUMBO) eqn:EJ.
  - assert (Ht : t_type o = JUMBO) by lia. rewrite Ht. change ((JUMBO =? 0) || (JUMBO =? 1)) with false. cbn [fj].
    change (JUMBO =? JUMBO) with true. intros [= ->] Hl. rewrite Hl. reflexivity.
  - destruct ((t_type o =? 0) || (t_type o =? 1)); [exact IH|]. cbn [fj]. rewrite EJ. exact IH.
Qed.

(* ---------------------------------------------------------------- the shape of a decodable segment *)

Lemma seg_dec_shape s o : seg_dec s o ->
  (s = [0] /\ t_type o = 0) \/
  (exists t ol d, s = t :: ol :: d /\ t <> 0 /\ n6_len d = ol /\ o = mkTlv t ol (ol + 2) d 0 0).
Proof.
  intros (Hb & Hal & Hl & Hdec). specialize (Hdec [] ltac:(constructor)). rewrite app_nil_r in Hdec.
  rewrite tlv_decode_eq in Hdec by exact Hb. replace (n6_len s <? 1) with false in Hdec by lia. cbv zeta in Hdec.
  destruct s as [|t s']; [cbn in Hl; lia|]. change (nthZ (t :: s') 0) with t in Hdec.
  destruct (t =? 0) eqn:Et.
  - injection Hdec as <-. cbn [t_alen] in Hal. rewrite n6_len_cons in Hal. pose proof (n6_len_nonneg s').
    left. assert (t = 0) by lia. subst t. destruct s'; [split; reflexivity|rewrite n6_len_cons in Hal; pose proof (n6_len_nonneg s'); lia].
  - destruct (n6_len (t :: s') <? 2) eqn:E2; [discriminate|]. destruct s' as [|ol d]; [cbn in E2; lia|].
    change (nthZ (t :: ol :: d) 1) with ol in Hdec.
    destruct (n6_len (t :: ol :: d) <? ol + 2) eqn:E3; [discriminate|]. injection Hdec as <-. cbn [t_alen] in Hal.
    rewrite !n6_len_cons in Hal. right. exists t, ol, d. split; [reflexivity|]. split; [lia|]. split; [lia|].
    f_equal. assert (Hn : Z.to_nat (ol + 2) = S (S (length d))) by (unfold n6_len in Hal; lia). rewrite Hn.
    unfold slice. cbn [firstn skipn]. apply firstn_all.
Qed.

Lemma jumbo_seg_dec V : length V = 4%nat -> bytes_ok V -> seg_dec ([JUMBO; 4] ++ V) (mkTlv JUMBO 4 6 V 0 0).
Proof.
  intros HL HB. destruct V as [|a [|b [|c [|d [|]]]]]; try discriminate HL.
  assert (Hb : bytes_ok ([JUMBO; 4] ++ [a; b; c; d])) by (repeat (constructor; [unfold byte_ok, JUMBO; lia|]); exact HB).
  split; [exact Hb|]. split; [reflexivity|]. split; [cbn; lia|]. intros rest Hr.
  rewrite tlv_decode_eq by (apply bytes_ok_app; assumption). cbn [app]. rewrite !n6_len_cons. pose proof (n6_len_nonneg rest).
  replace (1 + (1 + (1 + (1 + (1 + (1 + n6_len rest))))) <? 1) with false by lia. cbv zeta.
  change (nthZ (JUMBO :: 4 :: a :: b :: c :: d :: rest) 0) with JUMBO. change (JUMBO =? 0) with false. cbv iota.
  replace (1 + (1 + (1 + (1 + (1 + (1 + n6_len rest))))) <? 2) with false by lia.
  change (nthZ (JUMBO :: 4 :: a :: b :: c :: d :: rest) 1) with 4.
  replace (1 + (1 + (1 + (1 + (1 + (1 + n6_len rest))))) <? 4 + 2) with false by lia. reflexivity.
Qed.

(* ---------------------------------------------------------------- setIPv6PayloadJumboLength over segments *)

Lemma nthZ_app_r (pre l : list Z) k : nthZ (pre ++ l) (length pre + k) = nthZ l k.
Proof. unfold nthZ. rewrite app_nth2 by lia. f_equal. lia. Qed.

Lemma jumbo_loop_segs segs ds : Forall2 seg_dec segs ds ->
  forall fuel pre rest data V d, data = pre ++ concat segs ++ rest -> V = be_bytes 4 (u32 (n6_len data)) ->
  (length segs < fuel)%nat -> fj (tlv_nonpad ds) = Some d -> n6_len d = 4 ->
  exists segs' ds',
    jumbo_loop fuel data (n6_len pre) (n6_len pre + n6_len (concat segs)) = Ok (pre ++ concat segs' ++ rest) /\
    Forall2 seg_dec segs' ds' /\ n6_len (concat segs') = n6_len (concat segs) /\
    tlv_nonpad ds' = rfp V (tlv_nonpad ds).
Proof.
  induction 1 as [|s o segs ds Hs Hrest IH]; intros fuel pre rest data V d Hdata HV Hf Hfj Hd4; [discriminate Hfj|].
  destruct fuel as [|f]; [cbn in Hf; lia|]. cbn [length] in Hf.
  pose proof (n6_len_nonneg pre) as Hp0. pose proof (n6_len_nonneg (concat segs)) as Hc0. pose proof (n6_len_nonneg rest) as Hr0.
  assert (Hs' := Hs). destruct Hs' as (Hsb & Hal & Hl1 & _).
  cbn [jumbo_loop concat]. rewrite n6_len_app.
  replace (n6_len pre <? n6_len pre + (n6_len s + n6_len (concat segs))) with true by lia.
  assert (HLd : n6_len data = n6_len pre + n6_len s + n6_len (concat segs) + n6_len rest) by (rewrite Hdata; cbn [concat]; rewrite !n6_len_app; lia).
  rewrite (n6_idx_eq data (n6_len pre)) by lia.
  replace (Z.to_nat (n6_len pre)) with (length pre + 0)%nat by (unfold n6_len; lia).
  destruct (seg_dec_shape s o Hs) as [[-> Hty]|(t & ol & d0 & -> & Ht0 & Hld & ->)].
  - (* Pad1 *)
    assert (N0 : nthZ data (length pre + 0) = 0) by (rewrite Hdata; cbn [concat]; rewrite nthZ_app_r; reflexivity).
    rewrite N0. change (0 =? 0) with true. cbv iota.
    rewrite nonpad_cons, Hty in Hfj. cbn [Z.eqb orb] in Hfj.
    specialize (IH f (pre ++ [0]) rest data V d). rewrite n6_len_app in IH. change (n6_len [0]) with 1 in *.
    destruct IH as (segs' & ds' & HJ & HF & HLc & HN); try assumption; try lia.
    { rewrite Hdata. cbn [concat]. rewrite <- !app_assoc. reflexivity. }
    exists ([0] :: segs'), (o :: ds').
    replace (n6_len pre + (1 + n6_len (concat segs))) with (n6_len pre + 1 + n6_len (concat segs)) by lia. rewrite HJ.
    split; [cbn [concat]; rewrite <- !app_assoc; reflexivity|]. split; [constructor; assumption|].
    split; [cbn [concat]; rewrite !n6_len_app; change (n6_len [0]) with 1; lia|]. rewrite !nonpad_cons, Hty. cbn [Z.eqb orb]. exact HN.
  - (* an option *)
    assert (Hob : 0 <= t < 256 /\ 0 <= ol < 256).
    { inversion Hsb as [|? ? B0 T0]; subst. inversion T0 as [|? ? B1 T1]; subst. unfold byte_ok in *. lia. }
    rewrite !n6_len_cons in *.
    assert (N0 : nthZ data (length pre + 0) = t) by (rewrite Hdata; cbn [concat]; rewrite nthZ_app_r; reflexivity).
    assert (N1 : nthZ data (length pre + 1) = ol) by (rewrite Hdata; cbn [concat]; rewrite nthZ_app_r; reflexivity).
    rewrite N0. replace (t =? 0) with false by lia.
    rewrite (n6_idx_eq data (n6_len pre + 1)) by lia.
    replace (Z.to_nat (n6_len pre + 1)) with (length pre + 1)%nat by (unfold n6_len; lia). rewrite N1. clear N0 N1.
    rewrite nonpad_cons in Hfj. cbn [t_type t_data] in Hfj.
    destruct (t =? JUMBO) eqn:EJ.
    + (* the jumbo option itself *)
      assert (t = JUMBO) by lia. subst t. change ((JUMBO =? 0) || (JUMBO =? 1)) with false in Hfj. cbv iota in Hfj. cbn [fj] in Hfj.
      change (JUMBO =? JUMBO) with true in Hfj. cbv iota in Hfj. injection Hfj as <-. assert (Hol : ol = 4) by lia. rewrite Hol in *.
      change (4 =? 4) with true. cbv iota. replace (n6_len data <? n6_len pre + 6) with false by lia.
      assert (LV : length V = 4%nat) by (rewrite HV; apply be_bytes_length).
      assert (BV : bytes_ok V) by (rewrite HV; apply be_bytes_ok).
      exists (([JUMBO; 4] ++ V) :: segs), (mkTlv JUMBO 4 6 V 0 0 :: ds).
      split.
      { f_equal. rewrite <- HV.
        replace (Z.to_nat (n6_len pre + 2)) with (length (pre ++ [JUMBO; 4])) by (rewrite app_length; unfold n6_len; cbn [length]; lia).
        assert (Hd2 : data = (pre ++ [JUMBO; 4]) ++ (d0 ++ concat segs ++ rest)) by (rewrite Hdata; cbn [concat]; rewrite <- !app_assoc; cbn [app]; reflexivity).
        rewrite Hd2.
        rewrite n6_put_app by (rewrite app_length; unfold n6_len in Hld; lia).
        rewrite LV. replace 4%nat with (length d0) by (unfold n6_len in Hld; lia).
        rewrite skipn_app, skipn_all, Nat.sub_diag. cbn [skipn app concat]. rewrite <- !app_assoc. reflexivity. }
      split; [constructor; [apply jumbo_seg_dec; assumption|assumption]|].
      split; [cbn [concat]; rewrite !n6_len_app, !n6_len_cons; change (n6_len []) with 0; assert (n6_len V = 4) by (unfold n6_len; rewrite LV; reflexivity); lia|].
      rewrite !nonpad_cons. cbn [t_type t_data]. change ((JUMBO =? 0) || (JUMBO =? 1)) with false. cbn [rfp].
      change (JUMBO =? JUMBO) with true. reflexivity.
    + (* any other option: skipped *)
      assert (Hfj' : fj (tlv_nonpad ds) = Some d).
      { destruct ((t =? 0) || (t =? 1)); [exact Hfj|]. cbn [fj] in Hfj. rewrite EJ in Hfj. exact Hfj. }
      specialize (IH f (pre ++ t :: ol :: d0) rest data V d). rewrite n6_len_app, !n6_len_cons in IH.
      destruct IH as (segs' & ds' & HJ & HF & HLc & HN); try assumption; try lia.
      { rewrite Hdata. cbn [concat]. rewrite <- !app_assoc. reflexivity. }
      exists ((t :: ol :: d0) :: segs'), (mkTlv t ol (ol + 2) d0 0 0 :: ds').
      replace (n6_len pre + 2 + ol) with (n6_len pre + (1 + (1 + n6_len d0))) by lia.
      replace (n6_len pre + (1 + (1 + n6_len d0) + n6_len (concat segs))) with (n6_len pre + (1 + (1 + n6_len d0)) + n6_len (concat segs)) by lia.
      rewrite HJ. split; [cbn [concat]; rewrite <- !app_assoc; reflexivity|]. split; [constructor; assumption|].
      split; [cbn [concat]; rewrite !n6_len_app, !n6_len_cons; lia|].
      rewrite !nonpad_cons. cbn [t_type t_data]. destruct ((t =? 0) || (t =? 1)); [exact HN|]. cbn [rfp]. rewrite EJ, HN. reflexivity.
Qed.

(* ---------------------------------------------------------------- the round trip *)

(* the hop-by-hop header of the layer after addIPv6JumboOption *)
Definition aj_ext (h : ext) : ext :=
  mkExt (e_next h) (e_hlen h) (e_alen h) (aj_opts (e_opts h)) (e_contents h) (e_payload h).

Lemma ip6_roundtrip_jumbo_hbh l h payload junk : ip6_okb l = true -> p_hbh l = Some h -> ext_okb (aj_ext h) = true ->
  bytes_ok payload -> 65535 < n6_len payload < 4294967296 - 4096 ->
  exists bytes l2 h2,
    ip6_roundtrip l payload junk = (Ok bytes, (l2, Ok tt, false)) /\
    p_hbh l2 = Some h2 /\ e_payload h2 = payload /\ p_payload l2 = skipn 40 bytes /\
    p_length l2 = 0 /\
    ip6_fields l2 = ip6_fields (snd (ip6_serialize l payload true true junk)).
Proof.
  intros Hok Hh Hokj Hp Hlen. pose proof (ip6_okb_spec l Hok) as (Hv & Htc & Hfl & Hnh & Hhop & Hsb & Hsl & Hdb & Hdl & Hhb).
  rewrite Hh in Hhb. destruct Hhb as [_ Hn0].
  pose proof (ext_okb_wf (aj_ext h) Hokj) as Hw1.
  assert (Hw : ip6_wf l).
  { unfold ip6_wf. rewrite Hh. pose proof (ip6_okb_spec l Hok) as X. rewrite Hh in X. apply ext_okb_wf. apply X. }
  pose proof (n6_len_nonneg payload) as Hpn.
  unfold ip6_roundtrip. rewrite ip6_serialize_closed by exact Hw. rewrite ip6_wire_finish. cbv zeta.
  replace (65535 <? n6_len payload) with true by lia. cbn [andb].
  rewrite add_jumbo_eq. cbv zeta. rewrite Hh. cbn [p_hbh]. fold (aj_ext h).
  (* the extension header written *)
  unfold ext_okb in Hokj. apply andb_prop in Hokj as [Hokj Htot]. apply andb_prop in Hokj as [Hopts Hnx]. unfold byte_okb in Hnx.
  cbn [aj_ext e_opts e_next] in Hopts, Htot, Hnx.
  unfold ext_wire. cbn [aj_ext e_opts e_next e_hlen e_alen e_contents e_payload].
  destruct (tlvs_ser false true (aj_opts (e_opts h)) 2) as [[segs os'] total] eqn:ES.
  destruct (tlvs_ser_spec false true (aj_opts (e_opts h)) 2 segs os' total Hw1 ltac:(lia) ES) as (Htotal & Hbody & _ & _).
  destruct (tlvs_ser_dec (aj_opts (e_opts h)) 2 segs os' total Hopts ltac:(lia) ES) as (ds & Hds & Hnp & Hm8).
  pose proof (tlvs_ser_nonpad _ _ _ _ _ _ _ ES) as Hnp'.
  pose proof (n6_len_nonneg (concat segs)) as Hbn.
  replace (negb ((n6_len (concat segs) + 2) mod 8 =? 0)) with false by lia.
  set (hl := u8 ((n6_len (concat segs) + 2) / 8 - 1)).
  assert (Hhl : hl = total / 8 - 1 /\ 0 <= hl < 256) by (subst hl; unfold u8; lia).
  assert (Hu : u8 hl = hl) by (unfold u8; lia). rewrite !Hu.
  replace (u8 (e_next h)) with (e_next h) by (unfold u8; lia). cbn [app].
  set (bytes := e_next h :: hl :: concat segs ++ payload).
  assert (HLb : n6_len bytes = total + n6_len payload) by (subst bytes; rewrite !n6_len_cons, n6_len_app; lia).
  (* the jumbo length patched in *)
  set (V := be_bytes 4 (u32 (n6_len bytes))).
  assert (Hfjd : fj (tlv_nonpad ds) = Some [0; 0; 0; 0]) by (rewrite Hnp; apply fj_aj).
  destruct (jumbo_loop_segs segs ds Hds (S (Z.to_nat total)) [e_next h; hl] payload bytes V [0; 0; 0; 0])
    as (segs' & ds' & HJ & Hds' & HLc & Hnp2); try reflexivity.
  { pose proof (seg_dec_count segs ds Hds). unfold n6_len in *. lia. }
  { exact Hfjd. }
  change (n6_len [e_next h; hl]) with 2 in HJ. replace (2 + n6_len (concat segs)) with total in HJ by lia.
  assert (ESJ : set_jumbo_len bytes = Ok (e_next h :: hl :: concat segs' ++ payload)).
  { unfold set_jumbo_len. replace (n6_len bytes <? 8) with false by lia. rewrite (n6_idx_eq bytes 1) by lia.
    change (nthZ bytes (Z.to_nat 1)) with hl. replace ((hl + 1) * 8) with total by lia.
    replace (n6_len bytes <? total) with false by lia. rewrite HJ. reflexivity. }
  rewrite ESJ. set (bytes' := e_next h :: hl :: concat segs' ++ payload).
  assert (HLb' : n6_len bytes' = n6_len bytes) by (subst bytes' bytes; rewrite !n6_len_cons, !n6_len_app; lia).
  assert (Bb' : bytes_ok bytes').
  { subst bytes'. constructor; [unfold byte_ok; lia|]. constructor; [unfold byte_ok; lia|]. apply bytes_ok_app; [|exact Hp].
    clear - Hds'. induction Hds' as [|? ? ? ? Hx]; [constructor|]. cbn [concat]. apply bytes_ok_app; [apply Hx|assumption]. }
  (* the fixed header, and decoding *)
  unfold finish. cbn [negb andb]. cbv zeta. simp_l. cbn [e_next e_hlen e_alen e_opts e_contents e_payload].
  replace (negb (n6_len (p_src l) =? 16)) with false by lia. replace (negb (n6_len (p_dst l) =? 16)) with false by lia.
  set (osL := match replace_first_jumbo (n6_len bytes) os' with Some o => o | None => os' end).
  set (hq := mkExt (e_next h) hl (e_alen h) osL (e_contents h) (e_payload h)).
  set (l3 := mkIp6 (p_version l) (p_tclass l) (p_flow l) 0 0 (p_hop l) (p_src l) (p_dst l) (Some hq) (p_contents l) (p_payload l)).
  assert (H3 : ip6_hdr_ok l3) by (unfold ip6_hdr_ok; cbn; repeat split; lia).
  rewrite (ip6_decode_wire ip6_fresh l3 bytes' H3). cbn [l3 p_version p_tclass p_flow p_length p_next p_hop p_src p_dst].
  unfold ip6_body. cbn [p_next p_payload p_length Z.eqb].
  assert (HD : ext_decode_into ext_fresh bytes' =
               (mkExt (e_next h) hl total ds' (firstn (Z.to_nat total) bytes') (skipn (Z.to_nat total) bytes'), Ok tt, false)).
  { unfold ext_decode_into. rewrite ext_decode_eq by exact Bb'. replace (n6_len bytes' <? 2) with false by lia. cbv zeta.
    change (nthZ bytes' 0) with (e_next h). change (nthZ bytes' 1) with hl. replace (hl * 8 + 8) with total by lia.
    replace (n6_len bytes' <? total) with false by lia.
    pose proof (ext_loop_segs segs' ds' Hds' (S (length bytes')) [] [e_next h; hl] payload Hp) as HLoop.
    change (n6_len [e_next h; hl]) with 2 in HLoop. cbn [app] in HLoop. fold bytes' in HLoop.
    replace (2 + n6_len (concat segs')) with total in HLoop by lia. rewrite HLoop; [reflexivity|].
    pose proof (seg_dec_count segs' ds' Hds'). subst bytes'. cbn [length]. rewrite app_length. lia. }
  rewrite HD. cbv zeta.
  assert (Hfj2 : fj (tlv_nonpad ds') = Some V) by (rewrite Hnp2; apply fj_rfp; rewrite Hfjd; discriminate).
  assert (LV : n6_len V = 4) by (unfold V, n6_len; rewrite be_bytes_length; reflexivity).
  assert (VV : be_val V = n6_len bytes).
  { unfold V. rewrite be_val_be_bytes. change (256 ^ Z.of_nat 4) with 4294967296. unfold u32. lia. }
  rewrite (get_jumbo_fj (mkExt (e_next h) hl total ds' (firstn (Z.to_nat total) bytes') (skipn (Z.to_nat total) bytes')) V Hfj2 LV), VV. replace (n6_len bytes <=? 65535) with false by lia. cbn [andb Z.eqb].
  rewrite HLb'. replace (n6_len bytes <? n6_len bytes) with false by lia.
  rewrite (n6_slice_eq bytes' 0 (n6_len bytes)) by lia. change (Z.to_nat 0) with 0%nat.
  replace (Z.to_nat (n6_len bytes)) with (length bytes') by (clear - HLb'; unfold n6_len in *; lia). rewrite slice_0_all.
  cbn [e_alen]. rewrite (n6_from_eq bytes' total) by lia.
  assert (Hpay : skipn (Z.to_nat total) bytes' = payload).
  { subst bytes'. change (e_next h :: hl :: concat segs' ++ payload) with (([e_next h; hl] ++ concat segs') ++ payload).
    replace (Z.to_nat total) with (length ([e_next h; hl] ++ concat segs')) by (rewrite app_length; cbn [length]; unfold n6_len in *; lia).
    rewrite skipn_app, skipn_all, Nat.sub_diag. reflexivity. }
  rewrite Hpay.
  assert (H40 : skipn 40 (ip6_hdr_bytes l3 ++ bytes') = bytes').
  { destruct (ip6_head_wire l3 bytes' H3) as [_ HL40]. replace 40%nat with (length (ip6_hdr_bytes l3)) by (unfold n6_len in HL40; lia).
    rewrite skipn_app, skipn_all, Nat.sub_diag. reflexivity. }
  eexists. eexists. eexists. split; [reflexivity|]. cbn [set_payload ext_set_payload p_hbh p_payload p_length e_payload].
  split; [reflexivity|]. split; [reflexivity|]. split; [symmetry; exact H40|]. split; [reflexivity|].
  unfold ip6_fields, set_payload, ext_set_payload. cbn [p_version p_tclass p_flow p_length p_next p_hop p_src p_dst p_hbh e_next e_hlen e_opts snd].
  subst l3 hq. cbn [p_hbh e_next e_hlen e_opts].
  rewrite Hnp2, Hnp. subst osL. destruct (nonpad_replace (n6_len bytes) os') as [HR _]. rewrite HR, Hnp'. reflexivity.
Qed.
