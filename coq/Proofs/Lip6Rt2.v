(* Lip6 — round trip of the IPv6 fixed header (no hop-by-hop header, no jumbogram) *)
From GP Require Import Base ListX N6Lib Lip6Model Lip6Proofs.
From Coq Require Import Lia ZifyBool ZifyNat.
Open Scope Z_scope.
Ltac Zify.zify_post_hook ::= Z.div_mod_to_equations.

(* OR of a multiple of 16 with a nibble is their sum *)
Lemma land16 a b : 0 <= b < 16 -> Z.land (a * 2 ^ 4) b = 0.
Proof.
  intros Hb. apply Z.bits_inj'. intros n Hn. rewrite Z.land_spec, Z.bits_0.
  destruct (Z.lt_ge_cases n 4) as [Hlt|Hge].
  - rewrite Z.mul_pow2_bits_low by lia. reflexivity.
  - destruct (Z.eq_dec b 0) as [->|Hb0]; [rewrite Z.bits_0; apply andb_false_r|].
    assert (HL : Z.log2 b < n) by (apply Z.lt_le_trans with 4; [apply Z.log2_lt_pow2; lia|lia]).
    rewrite (Z.bits_above_log2 b n) by lia. apply andb_false_r.
Qed.

Lemma lor16 a b : 0 <= b < 16 -> Z.lor (16 * a) b = 16 * a + b.
Proof.
  intros Hb. replace (16 * a) with (a * 2 ^ 4) by (change (2 ^ 4) with 16; lia).
  rewrite <- Z.lxor_lor by (apply land16, Hb). symmetry. apply Z.add_nocarry_lxor, land16, Hb.
Qed.

Lemma ip6_okb_spec l : ip6_okb l = true ->
  0 <= p_version l < 16 /\ 0 <= p_tclass l < 256 /\ 0 <= p_flow l < 1048576 /\ 0 <= p_next l < 256 /\ 0 <= p_hop l < 256 /\
  bytes_ok (p_src l) /\ n6_len (p_src l) = 16 /\ bytes_ok (p_dst l) /\ n6_len (p_dst l) = 16 /\
  match p_hbh l with Some h => ext_okb h = true /\ p_next l = 0 | None => p_next l <> 0 end.
Proof.
  unfold ip6_okb. intros H.
  apply andb_prop in H as [H H12]. apply andb_prop in H as [H H11]. apply andb_prop in H as [H H10].
  apply andb_prop in H as [H H9]. apply andb_prop in H as [H H8]. apply andb_prop in H as [H H7].
  apply andb_prop in H as [H H6]. apply andb_prop in H as [H H5]. apply andb_prop in H as [H H4].
  apply andb_prop in H as [H H3]. apply andb_prop in H as [H1 H2].
  apply bytes_okb_ok in H8. apply bytes_okb_ok in H10. unfold byte_okb in *.
  repeat split; try assumption; try lia.
  destruct (p_hbh l); [apply andb_prop in H12 as [? ?]; split; [assumption|lia]|lia].
Qed.

Lemma ip6_roundtrip_nohbh l payload junk : ip6_okb l = true -> p_hbh l = None ->
  1 <= n6_len payload <= 65535 ->
  exists bytes l2,
    ip6_roundtrip l payload junk = (Ok bytes, (l2, Ok tt, false)) /\
    p_payload l2 = payload /\ p_contents l2 = firstn 40 bytes /\
    ip6_fields l2 = ip6_fields (snd (ip6_serialize l payload true true junk)) /\
    p_length l2 = n6_len payload.
Proof.
  intros Hok Hh Hlen. pose proof (ip6_okb_spec l Hok) as (Hv & Htc & Hfl & Hnh & Hhop & Hsb & Hsl & Hdb & Hdl & Hnn).
  rewrite Hh in Hnn.
  assert (Hw : ip6_wf l) by (unfold ip6_wf; rewrite Hh; exact I).
  unfold ip6_roundtrip. rewrite ip6_serialize_closed by exact Hw. unfold ip6_wire.
  replace (65535 <? n6_len payload) with false by lia. rewrite Hh. cbn [negb andb].
  replace (65535 <? n6_len payload) with false by lia.
  cbn [set_len_next p_src p_dst p_next p_hbh p_length].
  replace (negb (n6_len (p_src l) =? 16)) with false by lia. replace (negb (n6_len (p_dst l) =? 16)) with false by lia.
  assert (Hu16 : u16 (n6_len payload) = n6_len payload) by (unfold u16; lia). rewrite Hu16.
  unfold ip6_hdr_bytes, set_len_next.
  cbn [p_version p_tclass p_flow p_length p_next p_hop p_src p_dst p_hbh p_contents p_payload snd]. rewrite ?Hh.
  (* the two mixed octets *)
  assert (Hb0 : Z.lor (u8 (p_version l * 16)) (p_tclass l / 16) = 16 * p_version l + p_tclass l / 16).
  { replace (u8 (p_version l * 16)) with (16 * p_version l) by (unfold u8; lia). apply lor16. lia. }
  assert (Hb1 : Z.lor (u8 (p_tclass l * 16)) (u8 (p_flow l / 65536)) = 16 * (p_tclass l mod 16) + p_flow l / 65536).
  { replace (u8 (p_tclass l * 16)) with (16 * (p_tclass l mod 16)) by (unfold u8; lia).
    replace (u8 (p_flow l / 65536)) with (p_flow l / 65536) by (unfold u8; lia). apply lor16. lia. }
  rewrite Hb0, Hb1. set (b0 := 16 * p_version l + p_tclass l / 16). set (b1 := 16 * (p_tclass l mod 16) + p_flow l / 65536).
  remember (be_bytes 2 (p_flow l)) as fb. remember (be_bytes 2 (n6_len payload)) as lb.
  assert (Lf : length fb = 2%nat) by (subst; apply be_bytes_length). assert (Ll : length lb = 2%nat) by (subst; apply be_bytes_length).
  assert (Vf : be_val fb = p_flow l mod 65536) by (subst; rewrite be_val_be_bytes; reflexivity).
  assert (Vl : be_val lb = n6_len payload) by (subst; rewrite be_val_be_bytes; change (256 ^ Z.of_nat 2) with 65536; lia).
  remember (p_src l) as s. remember (p_dst l) as d. apply len16' in Hsl. apply len16' in Hdl.
  clear Heqfb Heqlb. explicit fb 2 Lf. explicit lb 2 Ll. explicit s 16 Hsl. explicit d 16 Hdl.
  cbn [app].
  match goal with |- context [Ok ?b] => set (bytes := b) end.
  assert (H40 : 40 <= n6_len bytes) by (subst bytes; rewrite !n6_len_cons; lia).
  assert (Hdec : exists l2, ip6_decode_into ip6_fresh bytes = (l2, Ok tt, false) /\
     p_payload l2 = payload /\ p_contents l2 = firstn 40 bytes /\ p_length l2 = n6_len payload /\
     ip6_fields l2 = (p_version l, p_tclass l, p_flow l, n6_len payload, p_next l, p_hop l, p_src l, p_dst l, None)).
  { unfold ip6_decode_into. rewrite (ip6_decode_head false ip6_fresh bytes H40). unfold ip6_body.
    assert (Hhead : ip6_head bytes =
      mkIp6 (b0 / 16) ((be_val [b0; b1] / 16) mod 256) (be_val [b0; b1; z; z0] mod 1048576) (be_val [z1; z2]) (u8 (p_next l)) (u8 (p_hop l))
            [z3; z4; z5; z6; z7; z8; z9; z10; z11; z12; z13; z14; z15; z16; z17; z18]
            [z19; z20; z21; z22; z23; z24; z25; z26; z27; z28; z29; z30; z31; z32; z33; z34] None (firstn 40 bytes) payload) by reflexivity.
    rewrite Hhead. cbn [p_next].
    replace (u8 (p_next l) =? 0) with false by (unfold u8; lia).
    unfold ip6_trim. cbn [p_length p_payload p_hbh]. rewrite Vl.
    replace (n6_len payload =? 0) with false by lia. rewrite Z.sub_0_r.
    replace (n6_len payload <? 0) with false by lia. replace (n6_len payload <? n6_len payload) with false by lia.
    rewrite n6_slice_eq by lia. change (Z.to_nat 0) with 0%nat. replace (Z.to_nat (n6_len payload)) with (length payload) by (unfold n6_len; lia).
    rewrite slice_0_all. eexists. split; [reflexivity|]. cbn [set_payload p_payload p_contents p_length].
    split; [reflexivity|]. split; [reflexivity|]. split; [reflexivity|].
    unfold ip6_fields. cbn [p_version p_tclass p_flow p_length p_next p_hop p_src p_dst p_hbh].
    assert (E1 : b0 / 16 = p_version l) by (subst b0; lia).
    assert (E2 : (be_val [b0; b1] / 16) mod 256 = p_tclass l).
    { change (be_val [b0; b1]) with ((0 * 256 + b0) * 256 + b1). subst b0 b1. lia. }
    assert (E3 : be_val [b0; b1; z; z0] mod 1048576 = p_flow l).
    { change (be_val [b0; b1; z; z0]) with ((((0 * 256 + b0) * 256 + b1) * 256 + z) * 256 + z0).
      change (be_val [z; z0]) with ((0 * 256 + z) * 256 + z0) in Vf. subst b0 b1. lia. }
    rewrite E1, E2, E3. unfold u8. rewrite !Z.mod_small by lia. rewrite Heqs, Heqd. reflexivity. }
  destruct Hdec as (l2 & Hd & Hp & Hc & Hl & Hf). exists bytes, l2. rewrite Hd.
  split; [reflexivity|]. split; [exact Hp|]. split; [exact Hc|]. split; [|exact Hl].
  rewrite Hf. unfold ip6_fields. cbn [p_version p_tclass p_flow p_length p_next p_hop p_src p_dst p_hbh].
  rewrite Heqs, Heqd. reflexivity.
Qed.
