(* Lsflow — allocation bounds: every list the decoder grows by append gets at most one element per four octets of
   input, and both make() sites are guarded by the octets that remain. *)
From GP Require Import Base Codec LsflowModel LsflowProofs.
From Coq Require Import Lia ZifyBool ZifyNat.
Open Scope Z_scope.

Lemma p_u32_len d v r : p_u32 d = Ok (v, r) -> length d = (4 + length r)%nat.
Proof. destruct d as [|a [|b [|c [|e t]]]]; cbn; intros H; try discriminate. inversion H; subst. reflexivity. Qed.

Lemma sf_split_len : forall n d a r, sf_split n d = Some (a, r) -> length d = (n + length r)%nat.
Proof.
  induction n as [|n IH]; intros d a r H; cbn in H.
  - inversion H; subst. reflexivity.
  - destruct d as [|x t]; [discriminate|]. destruct (sf_split n t) as [[a' r']|] eqn:E; [|discriminate].
    inversion H; subst. apply IH in E. cbn [length]. lia.
Qed.

Lemma paths_len : forall fuel cnt d l r, p_paths fuel cnt d = Ok (l, r) -> (4 * length l + length r <= length d)%nat.
Proof.
  induction fuel as [|f IH]; intros cnt d l r H; cbn [p_paths] in H.
  - destruct (cnt <=? 0); [|discriminate]. inversion H; subst. cbn. lia.
  - destruct (cnt <=? 0); [inversion H; subst; cbn; lia|].
    pose proof (path_good d (Nat.le_0_l _)) as G.
    destruct (p_path d) as [[x r1]|e|s]; try discriminate.
    destruct (p_paths f (cnt - 1) r1) as [[l' r']|e|s] eqn:E; try discriminate.
    inversion H; subst. apply IH in E. cbn [length]. lia.
Qed.

Lemma frecs_len : forall fuel cnt d l r, p_frecs fuel cnt d = Ok (l, r) -> (4 * length l + length r <= length d)%nat.
Proof.
  induction fuel as [|f IH]; intros cnt d l r H; cbn [p_frecs] in H.
  - destruct (cnt <=? 0); [|discriminate]. inversion H; subst. cbn. lia.
  - destruct (cnt <=? 0); [inversion H; subst; cbn; lia|].
    destruct (sf_short 4 d); [discriminate|].
    destruct (p_u32 d) as [[tag x]|e|s]; try discriminate.
    destruct (tag / 4096 =? 0).
    + pose proof (flow_record_good (tag mod 4096) d (Nat.le_0_l _)) as G.
      destruct (p_flow_record (tag mod 4096) d) as [[fs r1]|e|s]; try discriminate.
      destruct (p_frecs f (cnt - 1) r1) as [[l' r']|e|s] eqn:E; try discriminate.
      inversion H; subst. apply IH in E. cbn [length]. lia.
    + pose proof (skip_good d (Nat.le_0_l _)) as G.
      destruct (p_skip d) as [[u r1]|e|s]; try discriminate.
      apply IH in H. lia.
Qed.

Lemma crecs_len : forall fuel cnt d l r, p_crecs fuel cnt d = Ok (l, r) -> (4 * length l + length r <= length d)%nat.
Proof.
  induction fuel as [|f IH]; intros cnt d l r H; cbn [p_crecs] in H.
  - destruct (cnt <=? 0); [|discriminate]. inversion H; subst. cbn. lia.
  - destruct (cnt <=? 0); [inversion H; subst; cbn; lia|].
    destruct (sf_short 4 d) eqn:S4; [discriminate|]. apply short_false in S4.
    destruct (p_u32 d) as [[tag x]|e|s]; try discriminate.
    pose proof (counter_record_good (tag mod 4096) d S4) as G.
    destruct (p_counter_record (tag mod 4096) d) as [[fs r1]|e|s]; try discriminate.
    destruct (p_crecs f (cnt - 1) r1) as [[l' r']|e|s] eqn:E; try discriminate.
    inversion H; subst. apply IH in E. cbn [length]. lia.
Qed.

Lemma samples_len : forall fuel cnt fs cs d,
  (4 * (length (fst (fst (fst (sf_samples fuel cnt fs cs d)))) + length (snd (fst (fst (sf_samples fuel cnt fs cs d)))))
   <= 4 * (length fs + length cs) + length d)%nat.
Proof.
  induction fuel as [|f IH]; intros cnt fs cs d; cbn [sf_samples].
  - destruct (cnt <=? 0); cbn; lia.
  - destruct (cnt <=? 0); [cbn; lia|].
    destruct (sf_short 4 d) eqn:S4; [cbn; lia|]. apply short_false in S4.
    destruct (p_u32 d) as [[tag x]|e|s]; [|cbn; lia ..]. cbv zeta.
    destruct ((tag mod 4096 =? 1) || (tag mod 4096 =? 3)).
    + pose proof (flow_sample_good (tag mod 4096 =? 3) d S4) as G.
      destruct (p_flow_sample (tag mod 4096 =? 3) d) as [[x1 r]|e|s]; [|cbn; lia ..].
      specialize (IH (cnt - 1) (fs ++ [x1]) cs r). rewrite app_length in IH. cbn [length] in IH. lia.
    + destruct ((tag mod 4096 =? 2) || (tag mod 4096 =? 4)); [|cbn; lia].
      pose proof (counter_sample_good (tag mod 4096 =? 4) d (Nat.le_0_l _)) as G.
      destruct (p_counter_sample (tag mod 4096 =? 4) d) as [[x1 r]|e|s]; [|cbn; lia ..].
      specialize (IH (cnt - 1) fs (cs ++ [x1]) r). rewrite app_length in IH. cbn [length] in IH. lia.
Qed.

Lemma sf_decode_lists_bounded old data :
  let s := fst (fst (sf_decode_into old data)) in
  (4 * (length (sf_fs s) + length (sf_cs s)) <= length data)%nat.
Proof.
  cbv zeta. unfold sf_decode_into, sf_decode_gen. cbv zeta. cbn [sf_fs sf_cs].
  destruct (sf_short 8 data); [cbn; lia|].
  destruct (p_u32 data) as [[ver d1]|e|s] eqn:E1; [|cbn; lia ..]. apply p_u32_len in E1.
  destruct (p_u32 d1) as [[at_ d2]|e|s] eqn:E2; [|cbn; lia ..]. apply p_u32_len in E2.
  destruct (sf_short (ip_len at_ + 16) d2); [cbn; lia|].
  unfold p_bytes. destruct (sf_split (ip_len at_) d2) as [[agent d3]|] eqn:E3; [|cbn; lia]. apply sf_split_len in E3.
  destruct (p_u32 d3) as [[sub d4]|e|s] eqn:E4; [|cbn; lia ..]. apply p_u32_len in E4.
  destruct (p_u32 d4) as [[seq d5]|e|s] eqn:E5; [|cbn; lia ..]. apply p_u32_len in E5.
  destruct (p_u32 d5) as [[up d6]|e|s] eqn:E6; [|cbn; lia ..]. apply p_u32_len in E6.
  destruct (p_u32 d6) as [[cnt d7]|e|s] eqn:E7; [|cbn; lia ..]. apply p_u32_len in E7.
  destruct (cnt <? 1); [cbn; lia|].
  pose proof (samples_len (S (length d7)) cnt [] [] d7) as L.
  destruct (sf_samples (S (length d7)) cnt [] [] d7) as [[[fs cs] o] tr]. cbn in *. lia.
Qed.

Lemma xstr_bounded n extra e d x r : p_xstr n extra e d = Ok (x, r) ->
  exists b, x = SB b /\ (length b <= length d)%nat /\ (length r <= length d)%nat.
Proof.
  unfold p_xstr. cbv zeta. destruct ((n >? zlen d) || (pad32 n + extra >? zlen d)); [discriminate|].
  unfold p_take. destruct ((0 <=? pad32 n) && (pad32 n <=? zlen d)); [|discriminate].
  intros H. inversion H; subst. eexists; split; [reflexivity|]. rewrite firstn_length, skipn_length. lia.
Qed.

Lemma raw_header_bounded d x r : p_raw d = Ok (x, r) -> (length r <= length d)%nat.
Proof.
  intros H. pose proof (raw_good d (Nat.le_0_l _)) as G. rewrite H in G. lia.
Qed.
