(* final forms of the C15 statements for the pcap and snoop readers *)
From GP Require Import Base BytesLE PcapModel PcapStream PcapSafe.
From Coq Require Import Lia ZifyBool ZifyNat.
Open Scope Z_scope.

Lemma res_facts_weaken A K fl (P : outcome rpkt * list Z -> Prop) rs :
  (forall x, res_facts A K fl x -> P x) -> Forall (res_facts A K fl) rs -> Forall P rs.
Proof. intros H. apply Forall_impl. exact H. Qed.

Lemma io_class_of c : is_io_err c = true -> c = E_EOF \/ c = E_UEOF \/ c = E_IO.
Proof. unfold is_io_err, E_EOF, E_UEOF, E_IO. lia. Qed.

Lemma last_is_io A K rs pre c al :
  Forall (res_facts A K true) rs -> rs = pre ++ [(Err c, al)] -> is_io_err c = true -> c = E_IO.
Proof.
  intros HF -> Hio. apply Forall_app in HF as [_ HF]. inversion HF as [|? ? Hx _]; subst.
  unfold res_facts in Hx. destruct Hx as (_ & _ & _ & Ht & _). destruct (Ht eq_refl) as [N1 N2].
  destruct (io_class_of c Hio) as [-> | [-> | ->]]; congruence.
Qed.

(* ---------------------------------------------------------------- pcap *)
Lemma pcap_no_panic zc fuel s : bytes_ok (flat s) ->
  let '(h, _, rs, _) := pcap_run zc fuel s in
  (forall x, h <> Panic x) /\ Forall (fun ra => forall x, fst ra <> Panic x) rs.
Proof.
  intros Hb. pose proof (pcap_run_facts zc fuel s Hb) as H. unfold pcap_run in *.
  destruct (new_reader s) as [[h s1] al0]. destruct h as [rd|c|x].
  - destruct (drain (read_packet zc) fuel rd s1) as [rs fin]. destruct H as (P & _ & _ & _ & R & _).
    split; [assumption|]. destruct (R rd eq_refl) as (_ & F & _).
    eapply res_facts_weaken; [|exact F]. intros [r al] Hx. unfold res_facts in Hx. cbn [fst]. tauto.
  - split; [intros ? ?; discriminate|constructor].
  - destruct H as (P & _). exfalso. eapply P. reflexivity.
Qed.

Lemma pcap_terminates zc fuel s : bytes_ok (flat s) ->
  (length (flat s) < 16 * fuel)%nat -> snd (pcap_run zc fuel s) = true.
Proof.
  intros Hb Hl. pose proof (pcap_run_facts zc fuel s Hb) as H.
  destruct (pcap_run zc fuel s) as [[[h al0] rs] fin]. cbn [snd]. destruct H as (_ & _ & _ & _ & _ & T). auto.
Qed.

Lemma pcap_alloc zc fuel s : bytes_ok (flat s) ->
  let '(h, al0, rs, _) := pcap_run zc fuel s in
  Forall (fun a => a = 24) al0 /\
  forall rd, h = Ok rd ->
    r_snaplen rd = u32f (r_be rd) (firstn 24 (flat s)) 16 /\ 0 <= r_snaplen rd < 4294967296 /\
    Forall (fun ra => Forall (fun a => 0 <= a <= r_snaplen rd) (snd ra)) rs.
Proof.
  intros Hb. pose proof (pcap_run_facts zc fuel s Hb) as H. unfold pcap_run in *.
  pose proof (new_reader_declared s) as D.
  destruct (new_reader s) as [[h s1] al0]. cbn [fst] in D. destruct h as [rd|c|x].
  - destruct (drain (read_packet zc) fuel rd s1) as [rs fin]. destruct H as (_ & A0 & _ & _ & R & _).
    split; [assumption|]. intros rd' Hrd'. inversion Hrd'; subst rd'.
    destruct (R rd eq_refl) as (Rs & F & _). split; [apply D; reflexivity|]. split; [assumption|].
    eapply res_facts_weaken; [|exact F]. intros [r al] Hx. unfold res_facts in Hx. cbn [snd]. tauto.
  - destruct H as (_ & A0 & _). split; [assumption|intros ? ?; discriminate].
  - destruct H as (_ & A0 & _). split; [assumption|intros ? ?; discriminate].
Qed.

Lemma pcap_shape_thm zc fuel s : bytes_ok (flat s) ->
  let '(h, _, rs, _) := pcap_run zc fuel s in
  forall rd, h = Ok rd ->
  Forall (fun ra => forall p, fst ra = Ok p ->
            Z.of_nat (length (k_data p)) = k_caplen p /\ k_caplen p <= k_len p /\ k_caplen p <= r_snaplen rd) rs.
Proof.
  intros Hb. pose proof (pcap_run_facts zc fuel s Hb) as H. unfold pcap_run in *.
  destruct (new_reader s) as [[h s1] al0]. destruct h as [rd|c|x].
  - destruct (drain (read_packet zc) fuel rd s1) as [rs fin]. destruct H as (_ & _ & _ & _ & R & _).
    intros rd' Hrd'. inversion Hrd'; subst rd'. destruct (R rd eq_refl) as (_ & F & _).
    eapply res_facts_weaken; [|exact F]. intros [r al] Hx. unfold res_facts in Hx. cbn [fst].
    destruct Hx as (_ & _ & Hk & _). intros p Hp. apply (Hk p Hp).
  - intros ? ?; discriminate.
  - intros ? ?; discriminate.
Qed.

Lemma pcap_chunking_eq zc fuel s1 s2 :
  flat s1 = flat s2 -> failed s1 = failed s2 -> pcap_run zc fuel s1 = pcap_run zc fuel s2.
Proof. intros. apply pcap_run_seq. split; assumption. Qed.

Lemma pcap_error_surfaces zc fuel s : bytes_ok (flat s) ->
  let '(h, _, rs, fin) := pcap_run zc fuel s in
  (failed s = true ->
     h <> Err E_EOF /\ h <> Err E_UEOF /\
     Forall (fun ra => fst ra <> Err E_EOF /\ fst ra <> Err E_UEOF) rs /\
     (forall rd, h = Ok rd -> fin = true -> exists pre al, rs = pre ++ [(Err E_IO, al)])) /\
  (failed s = false -> h <> Err E_IO /\ Forall (fun ra => fst ra <> Err E_IO) rs).
Proof.
  intros Hb. pose proof (pcap_run_facts zc fuel s Hb) as H. unfold pcap_run in *.
  destruct (new_reader s) as [[h s1] al0]. destruct h as [rd|c|x].
  - destruct (drain (read_packet zc) fuel rd s1) as [rs fin]. destruct H as (_ & _ & T1 & T2 & R & _).
    destruct (R rd eq_refl) as (_ & F & L). split.
    + intros Hf. rewrite Hf in F. destruct (T1 Hf). split; [assumption|]. split; [assumption|]. split.
      * eapply res_facts_weaken; [|exact F]. intros [r al] Hx. unfold res_facts in Hx. cbn [fst].
        destruct Hx as (_ & _ & _ & Ht & _). apply Ht. reflexivity.
      * intros rd' _ Hfin. destruct (L Hfin) as (pre & c & al & E & Hio).
        exists pre, al. rewrite E. rewrite (last_is_io _ _ _ _ _ _ F E Hio). reflexivity.
    + intros Hf. rewrite Hf in F. split; [auto|].
      eapply res_facts_weaken; [|exact F]. intros [r al] Hx. unfold res_facts in Hx. cbn [fst].
      destruct Hx as (_ & _ & _ & _ & Hff). apply Hff. reflexivity.
  - destruct H as (_ & _ & T1 & T2 & _). split.
    + intros Hf. destruct (T1 Hf). split; [assumption|]. split; [assumption|]. split; [constructor|intros ? ?; discriminate].
    + intros Hf. split; [auto|constructor].
  - destruct H as (P & _). exfalso. eapply P. reflexivity.
Qed.

(* ---------------------------------------------------------------- snoop *)
Lemma snoop_no_panic zc fuel s : bytes_ok (flat s) ->
  let '(h, _, rs, _) := snoop_run zc fuel s in
  (forall x, h <> Panic x) /\ Forall (fun ra => forall x, fst ra <> Panic x) rs.
Proof.
  intros Hb. pose proof (snoop_run_facts zc fuel s Hb) as H. unfold snoop_run in *.
  destruct (snoop_new s) as [[h s1] al0]. destruct h as [st|c|x].
  - destruct (drain (snoop_read zc) fuel st s1) as [rs fin]. destruct H as (P & _ & _ & _ & R & _).
    split; [assumption|]. destruct (R st eq_refl) as (F & _).
    eapply res_facts_weaken; [|exact F]. intros [r al] Hx. unfold res_facts in Hx. cbn [fst]. tauto.
  - split; [intros ? ?; discriminate|constructor].
  - destruct H as (P & _). exfalso. eapply P. reflexivity.
Qed.

Lemma snoop_terminates zc fuel s : bytes_ok (flat s) ->
  (length (flat s) < 24 * fuel)%nat -> snd (snoop_run zc fuel s) = true.
Proof.
  intros Hb Hl. pose proof (snoop_run_facts zc fuel s Hb) as H.
  destruct (snoop_run zc fuel s) as [[[h al0] rs] fin]. cbn [snd]. destruct H as (_ & _ & _ & _ & _ & T). auto.
Qed.

Lemma snoop_alloc zc fuel s : bytes_ok (flat s) ->
  let '(h, al0, rs, _) := snoop_run zc fuel s in
  Forall (fun a => a = 16) al0 /\
  Forall (fun ra => Forall (fun a => 0 <= a <= MAX_CAPLEN) (snd ra)) rs.
Proof.
  intros Hb. pose proof (snoop_run_facts zc fuel s Hb) as H. unfold snoop_run in *.
  destruct (snoop_new s) as [[h s1] al0]. destruct h as [st|c|x].
  - destruct (drain (snoop_read zc) fuel st s1) as [rs fin]. destruct H as (_ & A0 & _ & _ & R & _).
    split; [assumption|]. destruct (R st eq_refl) as (F & _).
    eapply res_facts_weaken; [|exact F]. intros [r al] Hx. unfold res_facts in Hx. cbn [snd]. tauto.
  - destruct H as (_ & A0 & _). split; [assumption|constructor].
  - destruct H as (_ & A0 & _). split; [assumption|constructor].
Qed.

Lemma snoop_shape_thm zc fuel s : bytes_ok (flat s) ->
  let '(_, _, rs, _) := snoop_run zc fuel s in
  Forall (fun ra => forall p, fst ra = Ok p ->
            Z.of_nat (length (k_data p)) = k_caplen p /\ k_caplen p <= k_len p /\ k_caplen p <= MAX_CAPLEN) rs.
Proof.
  intros Hb. pose proof (snoop_run_facts zc fuel s Hb) as H. unfold snoop_run in *.
  destruct (snoop_new s) as [[h s1] al0]. destruct h as [st|c|x].
  - destruct (drain (snoop_read zc) fuel st s1) as [rs fin]. destruct H as (_ & _ & _ & _ & R & _).
    destruct (R st eq_refl) as (F & _).
    eapply res_facts_weaken; [|exact F]. intros [r al] Hx. unfold res_facts in Hx. cbn [fst].
    destruct Hx as (_ & _ & Hk & _). intros p Hp. apply (Hk p Hp).
  - constructor.
  - constructor.
Qed.

Lemma snoop_chunking_eq zc fuel s1 s2 :
  flat s1 = flat s2 -> failed s1 = failed s2 -> snoop_run zc fuel s1 = snoop_run zc fuel s2.
Proof. intros. apply snoop_run_seq. split; assumption. Qed.

Lemma snoop_error_surfaces zc fuel s : bytes_ok (flat s) ->
  let '(h, _, rs, fin) := snoop_run zc fuel s in
  (failed s = true ->
     h <> Err E_EOF /\ h <> Err E_UEOF /\
     Forall (fun ra => fst ra <> Err E_EOF /\ fst ra <> Err E_UEOF) rs /\
     (forall st, h = Ok st -> fin = true -> exists pre al, rs = pre ++ [(Err E_IO, al)])) /\
  (failed s = false -> h <> Err E_IO /\ Forall (fun ra => fst ra <> Err E_IO) rs).
Proof.
  intros Hb. pose proof (snoop_run_facts zc fuel s Hb) as H. unfold snoop_run in *.
  destruct (snoop_new s) as [[h s1] al0]. destruct h as [st|c|x].
  - destruct (drain (snoop_read zc) fuel st s1) as [rs fin]. destruct H as (_ & _ & T1 & T2 & R & _).
    destruct (R st eq_refl) as (F & L). split.
    + intros Hf. rewrite Hf in F. destruct (T1 Hf). split; [assumption|]. split; [assumption|]. split.
      * eapply res_facts_weaken; [|exact F]. intros [r al] Hx. unfold res_facts in Hx. cbn [fst].
        destruct Hx as (_ & _ & _ & Ht & _). apply Ht. reflexivity.
      * intros st' _ Hfin. destruct (L Hfin) as (pre & c & al & E & Hio).
        exists pre, al. rewrite E. rewrite (last_is_io _ _ _ _ _ _ F E Hio). reflexivity.
    + intros Hf. rewrite Hf in F. split; [auto|].
      eapply res_facts_weaken; [|exact F]. intros [r al] Hx. unfold res_facts in Hx. cbn [fst].
      destruct Hx as (_ & _ & _ & _ & Hff). apply Hff. reflexivity.
  - destruct H as (_ & _ & T1 & T2 & _). split.
    + intros Hf. destruct (T1 Hf). split; [assumption|]. split; [assumption|]. split; [constructor|intros ? ?; discriminate].
    + intros Hf. split; [auto|constructor].
  - destruct H as (P & _). exfalso. eapply P. reflexivity.
Qed.
