(* Lip6 — IPv6.SerializeTo and the layer list of the serialize buffer (ip6.go:164-190) *)
From GP Require Import Base ListX N6Lib Lip6Model Lip6Proofs Lip6Idem.
From Coq Require Import Lia ZifyBool ZifyNat.
Open Scope Z_scope.

(* no IPv6HopByHop layer in the buffer, or no hop-by-hop field: the layer list plays no role *)
Lemma ip6_serialize_in_nil l payload fx cs junk : ip6_serialize_in [] l payload fx cs junk = ip6_serialize l payload fx cs junk.
Proof. reflexivity. Qed.

Lemma ip6_serialize_in_not_done layers l payload fx cs junk : hbh_done layers = false ->
  ip6_serialize_in layers l payload fx cs junk = ip6_serialize l payload fx cs junk.
Proof. intros H. unfold ip6_serialize_in. rewrite H. reflexivity. Qed.

(* step 1 of SerializeTo (ip6.go:145-162) *)
Definition ip6_step1 (l : ip6) (payload : list Z) (fx : bool) : outcome ip6 :=
  if 65535 <? n6_len payload then
    if fx then Ok (add_jumbo l)
    else match p_hbh l with
         | None => Err 15
         | Some h => match get_jumbo h with
                     | Err e => Err e | Panic s => Panic s
                     | Ok (_, false) => Err 16
                     | Ok (_, true) => Ok l
                     end
         end
  else Ok l.

(* a hop-by-hop layer is already in the buffer: only the fixed header is written over what the
   buffer holds; the HopByHop field is not serialized, NextHeader is left as it is, no jumbo length
   is patched in (but with FixLengths a jumbo option is still added to the field) *)
Lemma ip6_serialize_in_done layers l payload fx cs junk : hbh_done layers = true ->
  ip6_serialize_in layers l payload fx cs junk =
    match ip6_step1 l payload fx with
    | Ok l1 =>
        match p_hbh l1 with
        | Some _ => finish (65535 <? n6_len payload) fx payload l1
        | None => finish (65535 <? n6_len payload) fx payload l1
        end
    | Err e => (Err e, l)
    | Panic s => (Panic s, l)
    end.
Proof.
  intros H. unfold ip6_serialize_in, ip6_step1, finish. rewrite H. cbv zeta.
  destruct (if 65535 <? n6_len payload then _ else _) as [l1|e|s]; try reflexivity.
  assert (HL : n6_take 40 junk = (fst (n6_take 40 junk), snd (n6_take 40 junk))) by (destruct (n6_take 40 junk); reflexivity).
  destruct (p_hbh l1) as [h|] eqn:EH; rewrite ?EH.
  - destruct (negb _ && _); [reflexivity|].
    destruct (negb (n6_len (p_src _) =? 16)) eqn:ES; [reflexivity|].
    destruct (negb (n6_len (p_dst _) =? 16)) eqn:ED; [reflexivity|].
    rewrite ip6_header_closed; [reflexivity|apply n6_take_length|lia|lia].
  - destruct (negb _ && _); [reflexivity|].
    destruct (negb (n6_len (p_src _) =? 16)) eqn:ES; [reflexivity|].
    destruct (negb (n6_len (p_dst _) =? 16)) eqn:ED; [reflexivity|].
    rewrite ip6_header_closed; [reflexivity|apply n6_take_length|lia|lia].
Qed.

(* the result never depends on the junk, whatever the layer list *)
Lemma ip6_serialize_in_junk_free layers l payload fx cs j1 j2 : ip6_wf l ->
  ip6_serialize_in layers l payload fx cs j1 = ip6_serialize_in layers l payload fx cs j2.
Proof.
  intros Hw. destruct (hbh_done layers) eqn:E.
  - rewrite !ip6_serialize_in_done by exact E. reflexivity.
  - rewrite !ip6_serialize_in_not_done by exact E. rewrite !ip6_serialize_closed by exact Hw. reflexivity.
Qed.

(* The two ways of writing IPv6 + hop-by-hop header give the same packet (no jumbogram): the header
   as a layer of its own (IPv6HopByHop.SerializeTo first, then IPv6 with that layer in the buffer's
   list) and the header as the HopByHop field only. *)
Lemma ip6_two_ways layers l h payload fx cs j1 j2 j3 : ip6_wf l -> p_hbh l = Some h -> p_next l = 0 ->
  (65535 <? n6_len payload) = false -> hbh_done layers = true ->
  match ext_serialize h payload fx cs j1 with
  | (Ok eb, h') =>
      (65535 <? n6_len eb) = false ->
      ip6_serialize_in layers (set_len_next l (p_length l) (p_next l) (Some h')) eb fx cs j2 = ip6_serialize l payload fx cs j3
  | (Err e, h') => fst (ip6_serialize l payload fx cs j3) = Err e
  | (Panic s, _) => False
  end.
Proof.
  intros Hw Hh Hn HJ Hd. assert (Hwh : ext_wf h) by (unfold ip6_wf in Hw; rewrite Hh in Hw; exact Hw).
  unfold ext_serialize. pose proof (ext_serialize_gen_closed false h payload fx j1 Hwh) as HC.
  destruct (ext_serialize_gen false h payload fx j1) as [[r h'] jj].
  rewrite (ip6_serialize_closed l payload fx cs j3 Hw). rewrite ip6_wire_finish. cbv zeta. rewrite HJ, Hh, <- HC.
  rewrite andb_false_r.
  destruct r as [eb|e|s].
  - intros EJ2. rewrite ip6_serialize_in_done by exact Hd. unfold ip6_step1. rewrite EJ2.
    unfold set_len_next at 1. cbn [p_hbh]. rewrite Hn. reflexivity.
  - reflexivity.
  - pose proof (ext_wire_no_panic false h payload fx) as P. rewrite <- HC in P. discriminate P.
Qed.
