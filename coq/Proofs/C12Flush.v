(* C12 — after FlushAll with every other assembler quiescent the pool holds no connection.
   Holds for the code as it stands (with recycling): the recorded recycled-connection hazards
   need a second assembler that is still inside a call. *)
From GP Require Import Base ListX C12Model C12Proofs C12Term C12AgeFree.
From Coq Require Import Lia.
Open Scope nat_scope.

Lemma ins_sorted_in x y l : x = y \/ In x l -> In x (ins_sorted y l).
Proof.
  induction l as [|z r IH]; cbn; [intros [->|[]]; left; reflexivity|].
  destruct (Nat.leb y z); cbn; intros [->|[->|H]]; auto.
Qed.
Lemma sort_ids_in x l : In x l -> In x (sort_ids l).
Proof. induction l as [|y r IH]; cbn; [tauto|]. intros [->|H]; apply ins_sorted_in; auto. Qed.

Section Flush.
Variable cstate : Type.
Variable cinit : cstate.
Variable cclosed : cstate -> bool.
Variable creset : packet -> cstate.
Variable process : cstate -> bool -> packet -> cstate * list cevent * bool.
Variable flush : option Z -> cstate -> cstate * list cevent * bool.
Variable ctrail : option Z -> cstate -> bool.
Hypothesis Hm : machine_ok cstate cinit cclosed creset process flush.
Hypothesis Ht : machine_tight cstate cclosed process flush.
(* FlushAll on an open connection closes it *)
Definition machine_flushall_closes : Prop :=
  forall st, cclosed st = false -> exists st' ev, flush None st = (st', ev, true).
Hypothesis Hf : machine_flushall_closes.

Notation State := (state cstate).
Notation exec' := (exec cstate cinit cclosed creset process flush ctrail).
Notation obj' := (obj cstate cinit).
Notation enabled' := (enabled cstate cinit).
Notation Reach := (reachable cstate cinit cclosed creset process flush ctrail).
Notation runs' := (runs cstate cinit cclosed creset process flush ctrail).

(* a closed connection that is still in the pool is locked by the thread removing it (both packages) *)
Definition inv_cl (s : State) : Prop :=
  forall k c, In (k, c) (s_conns s) -> cclosed (c_st (obj' s c)) = true -> c_lock (obj' s c) <> None.

Lemma inv_cl_step g s t s' :
  no_trail cstate s -> inv_pool cstate cinit cclosed g s -> inv_cl s -> exec' g s t = Some s' -> inv_cl s'.
Proof.
  destruct Ht as [Tp Tf]. intros NT IP J E k0 c0 Hin Hcl.
  destruct IP as [Ik Iv Ie Ir If Ife Irm Irg].
  destruct (exec_spec _ _ _ _ _ _ _ _ _ _ _ E) as
    [th' Hc Hf0 Ho Hn Hk Hl Hth Hnr Hnp Hnr0 Hnm0 Htr
    |p th' c free' objs0 Hpc Hpop Hf0 Ho Hn Hth Hnr Hl Hcn Hpan Htr
    |c w st' evs closes th' Hpc Hlk Hw Ho Hc Hf0 Hn Hk Hth Hcl2 Hncl Hnp Htr
    |c k th' Hpc Ho Hcf Hn Hk Hl Hth Hnr Hnp Htr
    |c age rest th' Hpc Ho Hcf Hn Hk Hl Hth Hnr Hnp Htr].
  - rewrite Hc in Hin. rewrite (obj_same _ _ _ _ _ Ho) in *. eapply J; eassumption.
  - assert (Hfr : forall x, In x (s_free s) -> x < length (s_objs s)) by (intros x Hx; apply (Ife _ Hx)).
    pose proof (miss_obj_len _ _ _ _ _ _ Hpop Hfr) as Lc.
    assert (Hcnot : ~ In c (map snd (s_conns s))).
    { destruct (pop_cases _ _ _ _ _ _ Hpop) as [[Ef _]|[_ [_ [-> _]]]].
      - apply Ife. rewrite Ef; left; reflexivity.
      - intros Hi. apply in_map_iff in Hi as [[k1 c1] [E0 Hi]]. cbn in E0; subst.
        destruct (Ie _ _ Hi) as [_ L]. lia. }
    destruct (Nat.eq_dec c0 c) as [->|N].
    + exfalso. unfold obj in Hcl. rewrite Ho, nth_upd_eq in Hcl by assumption. cbn in Hcl.
      destruct Hm as [_ [Hr _]]. rewrite Hr in Hcl. discriminate.
    + rewrite (miss_obj_other _ _ _ _ _ _ _ _ _ Hpop Ho N) in *.
      assert (In (k0, c0) (s_conns s)).
      { destruct Hcn as [[_ [Hc _]]|[_ [Hc _]]]; rewrite Hc in Hin; [|exact Hin].
        destruct Hin as [Hi|Hi]; [inversion Hi; congruence|exact Hi]. }
      eapply J; eassumption.
  - rewrite Hc in Hin.
    assert (Lc : c < length (s_objs s)) by (apply (Irg t); rewrite Hpc; destruct w; left; reflexivity).
    destruct (Nat.eq_dec c0 c) as [->|N].
    + rewrite (obj_upd_eq _ _ _ _ _ _ Lc Ho) in *. cbn in *. destruct closes; [discriminate|].
      exfalso. destruct (cclosed (c_st (obj' s c))) eqn:Eb.
      * apply (J _ _ Hin Eb). exact Hlk.
      * destruct Hw as [[p [fwd [_ [Hp _]]]]|[age [rest [_ [Hp _]]]]].
        -- rewrite (Tp _ _ _ _ _ Hp Eb) in Hcl. discriminate.
        -- rewrite (Tf _ _ _ _ Hp Eb) in Hcl. discriminate.
    + rewrite (obj_upd_ne _ _ _ _ _ _ _ N Ho) in *. eapply J; eassumption.
  - assert (Lc : c < length (s_objs s)) by (apply (Irg t); rewrite Hpc; destruct k; left; reflexivity).
    assert (Hrm : forall k1, In (k1, c) (s_conns s') -> False).
    { intros k1 H1. revert E. unfold exec. destruct (enabled' s t); cbn [negb]; [|discriminate].
      rewrite Hpc. intros H; inversion H; subst; clear H. cbn [s_conns] in H1.
      destruct (g_pkg g).
      - apply in_remove_assoc in H1 as [Nk H1]. destruct (Ie _ _ H1) as [A _]. congruence.
      - destruct (assoc (c_key (obj' s c)) (s_conns s)) eqn:Ea.
        + apply in_remove_assoc in H1 as [Nk H1]. destruct (Ie _ _ H1) as [A _]. congruence.
        + destruct (Ie _ _ H1) as [A _]. subst k1. exact (in_assoc_some _ _ _ H1 Ea). }
    destruct (Nat.eq_dec c0 c) as [->|N]; [exfalso; eapply Hrm; eassumption|].
    rewrite (obj_upd_ne _ _ _ _ _ _ _ N Ho) in *.
    assert (In (k0, c0) (s_conns s)).
    { destruct Hcf as [[Hc _]|[Hc _]]; rewrite Hc in Hin; [exact Hin|]. apply in_remove_assoc in Hin. tauto. }
    eapply J; eassumption.
  - exfalso. specialize (NT t). rewrite Hpc in NT. discriminate.
Qed.

Lemma inv_cl_reachable g progs s : trail_cfg g = false -> Reach g progs s -> inv_cl s.
Proof.
  intros GT. induction 1; [intros k c H; destruct H|].
  eapply inv_cl_step; try eassumption.
  - eapply no_trail_reachable; eassumption.
  - eapply inv_pool_reachable; eassumption.
Qed.

(* what the argument needs from the configuration and the programs: the second remove is never
   pending and the pool invariant holds in every reachable state *)
Definition good (g : config) (progs : list (list op)) : Prop :=
  forall s, Reach g progs s -> no_trail cstate s /\ inv_pool cstate cinit cclosed g s.
Lemma good_trail g progs : trail_cfg g = false -> good g progs.
Proof.
  intros GT s R. split; [eapply no_trail_reachable; eassumption|eapply inv_pool_reachable; eassumption].
Qed.
Lemma good_age_free g progs : (forall st, ctrail None st = false) -> age_free_progs progs -> good g progs.
Proof.
  intros Hct AF s R. split.
  - exact (no_trail_age_free cstate cinit cclosed creset process flush ctrail Hct g progs s AF R).
  - exact (proj1 (invariants_age_free cstate cinit cclosed creset process flush ctrail Hm Hct g progs s AF R)).
Qed.
Lemma inv_cl_good g progs s : good g progs -> Reach g progs s -> inv_cl s.
Proof.
  intros GD. induction 1 as [|s t s' R IH E]; [intros k c H; destruct H|].
  destruct (GD s R) as [NT IP]. eapply inv_cl_step; eassumption.
Qed.

Definition quiescent_but (s : State) (t : nat) : Prop :=
  forall t2, t2 <> t -> t_pc (thr s t2) = PDone \/ t_pc (thr s t2) = PPanic.

Lemma thr_set_eq (s : State) t th c f (o : list (conn cstate)) n k l tg :
  t < length (s_thr s) -> thr (mkSt c f o n k (set_thr cstate s t th) l tg) t = th.
Proof. intros L. unfold thr; cbn [s_thr]. unfold set_thr. apply nth_upd_eq; assumption. Qed.
Lemma thr_set_ne (s : State) t t2 th c f (o : list (conn cstate)) n k l tg :
  t2 <> t -> thr (mkSt c f o n k (set_thr cstate s t th) l tg) t2 = thr s t2.
Proof. intros N. unfold thr; cbn [s_thr]. unfold set_thr. apply nth_upd_ne; congruence. Qed.

Lemma pc_lt (s : State) t : t_pc (thr s t) <> PDone -> t < length (s_thr s).
Proof.
  intros H. destruct (Nat.lt_ge_cases t (length (s_thr s))) as [L|L]; [exact L|].
  exfalso. apply H. unfold thr. rewrite nth_overflow by assumption. reflexivity.
Qed.

(* the flusher works through the rest of its snapshot: every entry of the map is in the rest *)
Lemma flush_rest g progs (GD : good g progs)
  (Htrail : forall st, is_rsm g && g_trail g && ctrail None st = false) t prog : forall r s,
  Reach g progs s -> quiescent_but s t ->
  t_pc (thr s t) = cont_flush None r prog -> t_prog (thr s t) = prog -> t < length (s_thr s) ->
  (forall k c, In (k, c) (s_conns s) -> In c r) ->
  exists s', runs' g s s' /\ Reach g progs s' /\ s_conns s' = [] /\
             t_pc (thr s' t) = next_pc prog /\ t_prog (thr s' t) = prog /\ quiescent_but s' t.
Proof.
  induction r as [|c r IH]; intros s R Q Hpc Hpr Lt Hent.
  - exists s. split; [constructor|]. split; [exact R|]. split; [|auto].
    destruct (s_conns s) as [|[k c] l]; [reflexivity|]. destruct (Hent k c (or_introl eq_refl)).
  - cbn [cont_flush] in Hpc.
    destruct (GD s R) as [_ IP].
    pose proof (inv_cl_good _ _ _ GD R) as J.
    assert (Hlock : c_lock (obj' s c) = None).
    { destruct (c_lock (obj' s c)) as [t0|] eqn:El; [|reflexivity]. exfalso.
      destruct (inv_lock_reachable _ _ _ _ _ _ _ _ _ _ R _ _ El) as [k0 Hk0].
      destruct (Nat.eq_dec t0 t) as [->|N]; [rewrite Hpc in Hk0; discriminate|].
      destruct (Q _ N) as [H|H]; rewrite H in Hk0; discriminate. }
    assert (En : enabled' s t = true) by (unfold enabled; rewrite Hpc, Hlock; reflexivity).
    (* c is not in the map when it is closed *)
    assert (Hclosed_out : cclosed (c_st (obj' s c)) = true -> forall k0 c0, In (k0, c0) (s_conns s) -> In c0 r).
    { intros Hcl k0 c0 Hin. destruct (Hent _ _ Hin) as [<-|H]; [|exact H].
      exfalso. exact (J _ _ Hin Hcl Hlock). }
    destruct (match g_pkg g with Tcp => cclosed (c_st (obj' s c)) | Rsm => false end) eqn:Esk.
    + (* tcpassembly: closed, skipped *)
      assert (Hcl : cclosed (c_st (obj' s c)) = true) by (destruct (g_pkg g); [exact Esk|discriminate]).
      destruct (exec' g s t) as [s1|] eqn:E1.
      2:{ exfalso. revert E1. unfold exec. rewrite En, Hpc, Esk. discriminate. }
      assert (Es1 : s_conns s1 = s_conns s /\ thr s1 t = mkThr (cont_flush None r prog) prog /\
                    (forall t2, t2 <> t -> thr s1 t2 = thr s t2) /\ length (s_thr s1) = length (s_thr s)).
      { revert E1. unfold exec. rewrite En, Hpc, Esk, Hpr. cbn [negb]. intros H; inversion H; subst; clear H.
        split; [reflexivity|]. split; [apply thr_set_eq; assumption|]. split; [intros; apply thr_set_ne; assumption|].
        cbn. unfold set_thr. apply upd_length. }
      destruct Es1 as [Ec [Eth [Eoth Elen]]].
      assert (R1 : Reach g progs s1) by (eapply R_step; eassumption).
      destruct (IH s1 R1) as [s' [Hr Hrest]].
      * intros t2 N. rewrite (Eoth _ N). apply Q; assumption.
      * rewrite Eth. reflexivity.
      * rewrite Eth. reflexivity.
      * lia.
      * intros k0 c0 Hin. rewrite Ec in Hin. eapply Hclosed_out; eassumption.
      * exists s'. split; [eapply runs_step; eassumption|exact Hrest].
    + destruct (flush None (c_st (obj' s c))) as [[st' evs] closes] eqn:Efl.
      destruct (exec' g s t) as [s1|] eqn:E1.
      2:{ exfalso. revert E1. unfold exec. rewrite En, Hpc, Esk, Efl. destruct closes; discriminate. }
      destruct closes.
      * (* the connection is closed now; the remove step follows *)
        assert (Es1 : s_conns s1 = s_conns s /\ thr s1 t = mkThr (PRemove c (KFlush None r false)) prog /\
                      (forall t2, t2 <> t -> thr s1 t2 = thr s t2) /\ length (s_thr s1) = length (s_thr s) /\
                      c_key (obj' s1 c) = c_key (obj' s c)).
        { revert E1. unfold exec. rewrite En, Hpc, Esk, Efl, Htrail, Hpr. cbn [negb]. intros H; inversion H; subst; clear H.
          split; [reflexivity|]. split; [apply thr_set_eq; assumption|]. split; [intros; apply thr_set_ne; assumption|].
          split; [cbn; unfold set_thr; apply upd_length|].
          unfold obj; cbn [s_objs]. unfold set_obj.
          destruct (Nat.lt_ge_cases c (length (s_objs s))) as [L|L];
            [rewrite nth_upd_eq by assumption; reflexivity|rewrite nth_upd_ge by assumption; reflexivity]. }
        destruct Es1 as [Ec [Eth [Eoth [Elen Ekey]]]].
        assert (R1 : Reach g progs s1) by (eapply R_step; eassumption).
        assert (En1 : enabled' s1 t = true) by (unfold enabled; rewrite Eth; reflexivity).
        destruct (exec' g s1 t) as [s2|] eqn:E2.
        2:{ exfalso. revert E2. unfold exec. rewrite En1, Eth. discriminate. }
        assert (Es2 : (forall k0 c0, In (k0, c0) (s_conns s2) -> In (k0, c0) (s_conns s) /\ c0 <> c) /\
                      thr s2 t = mkThr (cont_flush None r prog) prog /\
                      (forall t2, t2 <> t -> thr s2 t2 = thr s1 t2) /\ length (s_thr s2) = length (s_thr s1)).
        { revert E2. unfold exec. rewrite En1, Eth. cbn [negb t_pc t_prog]. intros H; inversion H; subst; clear H.
          split; [|split; [apply thr_set_eq; lia|split; [intros; apply thr_set_ne; assumption|cbn; unfold set_thr; apply upd_length]]].
          intros k0 c0 Hin. cbn [s_conns] in Hin. rewrite Ekey, Ec in Hin.
          destruct IP as [_ _ Ie _ _ _ _ _].
          destruct (g_pkg g).
          - apply in_remove_assoc in Hin as [Nk Hin]. split; [exact Hin|]. intros ->. destruct (Ie _ _ Hin). congruence.
          - destruct (assoc (c_key (obj' s c)) (s_conns s)) eqn:Ea.
            + apply in_remove_assoc in Hin as [Nk Hin]. split; [exact Hin|]. intros ->. destruct (Ie _ _ Hin). congruence.
            + split; [exact Hin|]. intros ->. destruct (Ie _ _ Hin) as [A _]. subst k0. exact (in_assoc_some _ _ _ Hin Ea). }
        destruct Es2 as [Ec2 [Eth2 [Eoth2 Elen2]]].
        assert (R2 : Reach g progs s2) by (eapply R_step; eassumption).
        destruct (IH s2 R2) as [s' [Hr Hrest]].
        -- intros t2 N. rewrite (Eoth2 _ N), (Eoth _ N). apply Q; assumption.
        -- rewrite Eth2. reflexivity.
        -- rewrite Eth2. reflexivity.
        -- lia.
        -- intros k0 c0 Hin. destruct (Ec2 _ _ Hin) as [Hin0 N]. destruct (Hent _ _ Hin0) as [<-|H]; [congruence|exact H].
        -- exists s'. split; [eapply runs_step; [exact E1|eapply runs_step; eassumption]|exact Hrest].
      * (* not closed by the flush: it was closed already (reassembly) and is not in the map *)
        assert (Hcl : cclosed (c_st (obj' s c)) = true).
        { destruct (cclosed (c_st (obj' s c))) eqn:Eb; [reflexivity|].
          destruct (Hf _ Eb) as [st2 [ev2 Hfl2]]. rewrite Efl in Hfl2. discriminate. }
        assert (Es1 : s_conns s1 = s_conns s /\ thr s1 t = mkThr (cont_flush None r prog) prog /\
                      (forall t2, t2 <> t -> thr s1 t2 = thr s t2) /\ length (s_thr s1) = length (s_thr s)).
        { revert E1. unfold exec. rewrite En, Hpc, Esk, Efl, Htrail, Hpr. cbn [negb]. intros H; inversion H; subst; clear H.
          split; [reflexivity|]. split; [apply thr_set_eq; assumption|]. split; [intros; apply thr_set_ne; assumption|].
          cbn. unfold set_thr. apply upd_length. }
        destruct Es1 as [Ec [Eth [Eoth Elen]]].
        assert (R1 : Reach g progs s1) by (eapply R_step; eassumption).
        destruct (IH s1 R1) as [s' [Hr Hrest]].
        -- intros t2 N. rewrite (Eoth _ N). apply Q; assumption.
        -- rewrite Eth. reflexivity.
        -- rewrite Eth. reflexivity.
        -- lia.
        -- intros k0 c0 Hin. rewrite Ec in Hin. eapply Hclosed_out; eassumption.
        -- exists s'. split; [eapply runs_step; eassumption|exact Hrest].
Qed.

(* FlushAll called while every other assembler is quiescent: the call returns and the pool is empty *)
Lemma flushall_empties_pool_good g progs s t rest :
  good g progs -> (forall st, is_rsm g && g_trail g && ctrail None st = false) ->
  Reach g progs s -> quiescent_but s t ->
  t_pc (thr s t) = PStart -> t_prog (thr s t) = OFlush None :: rest ->
  exists s', runs' g s s' /\ Reach g progs s' /\ s_conns s' = [] /\
             t_pc (thr s' t) = next_pc rest /\ t_prog (thr s' t) = rest /\ quiescent_but s' t.
Proof.
  intros GD Htrail R Q Hpc Hpr.
  assert (Lt : t < length (s_thr s)) by (apply pc_lt; rewrite Hpc; discriminate).
  assert (En : enabled' s t = true) by (unfold enabled; rewrite Hpc; reflexivity).
  destruct (exec' g s t) as [s1|] eqn:E1.
  2:{ exfalso. revert E1. unfold exec. rewrite En, Hpc, Hpr. discriminate. }
  assert (Es1 : s_conns s1 = s_conns s /\
                thr s1 t = mkThr (cont_flush None (sort_ids (map snd (s_conns s))) rest) rest /\
                (forall t2, t2 <> t -> thr s1 t2 = thr s t2) /\ length (s_thr s1) = length (s_thr s)).
  { revert E1. unfold exec. rewrite En, Hpc, Hpr. cbn [negb]. intros H; inversion H; subst; clear H.
    split; [reflexivity|]. split; [apply thr_set_eq; assumption|]. split; [intros; apply thr_set_ne; assumption|].
    cbn. unfold set_thr. apply upd_length. }
  destruct Es1 as [Ec [Eth [Eoth Elen]]].
  assert (R1 : Reach g progs s1) by (eapply R_step; eassumption).
  destruct (flush_rest g progs GD Htrail t rest (sort_ids (map snd (s_conns s))) s1 R1) as [s' [Hr Hrest]].
  - intros t2 N. rewrite (Eoth _ N). apply Q; assumption.
  - rewrite Eth. reflexivity.
  - rewrite Eth. reflexivity.
  - lia.
  - intros k c Hin. rewrite Ec in Hin. apply sort_ids_in. apply in_map_iff. exists (k, c); auto.
  - exists s'. split; [eapply runs_step; eassumption|exact Hrest].
Qed.
Lemma flushall_empties_pool g progs s t rest :
  trail_cfg g = false -> Reach g progs s -> quiescent_but s t ->
  t_pc (thr s t) = PStart -> t_prog (thr s t) = OFlush None :: rest ->
  exists s', runs' g s s' /\ Reach g progs s' /\ s_conns s' = [] /\
             t_pc (thr s' t) = next_pc rest /\ t_prog (thr s' t) = rest /\ quiescent_but s' t.
Proof.
  intros GT. apply flushall_empties_pool_good; [apply good_trail; exact GT|].
  intros st. unfold trail_cfg in GT. rewrite GT. reflexivity.
Qed.
(* the reassembly code as it is (second remove present), programs of packets and FlushAll only *)
Lemma flushall_empties_pool_age_free g progs s t rest :
  (forall st, ctrail None st = false) -> age_free_progs progs -> Reach g progs s -> quiescent_but s t ->
  t_pc (thr s t) = PStart -> t_prog (thr s t) = OFlush None :: rest ->
  exists s', runs' g s s' /\ Reach g progs s' /\ s_conns s' = [] /\
             t_pc (thr s' t) = next_pc rest /\ t_prog (thr s' t) = rest /\ quiescent_but s' t.
Proof.
  intros Hct AF. apply flushall_empties_pool_good; [apply good_age_free; assumption|].
  intros st. rewrite Hct. apply andb_false_r.
Qed.
End Flush.

(* ---------------------------------------------------------------- the two machines *)
Lemma t_add_contig_len : forall q next acc ret n q', t_add_contig next q acc = (ret, n, q') -> length q' <= length q.
Proof.
  induction q as [|pg r IH]; intros next acc ret n q'; cbn [t_add_contig].
  - intros H; inversion H; subst. cbn; lia.
  - destruct (tp_seq pg - next <=? 0)%Z.
    + destruct (t_add_next (Some next) pg) as [ch n']. intros H. apply IH in H. cbn; lia.
    + intros H; inversion H; subst. lia.
Qed.
Lemma t_send_q ret n q l st' ev b : t_send ret n q l = (st', ev, b) -> length (tc_q st') <= length q.
Proof.
  unfold t_send. destruct (t_add_contig n q ret) as [[ret' n'] q'] eqn:Ea.
  apply t_add_contig_len in Ea. destruct (last_end ret'); intros H; inversion H; subst; cbn; exact Ea.
Qed.
Lemma t_flush_loop_closes fuel : forall st acc, length (tc_q st) < fuel ->
  exists st' ev, t_flush_loop fuel st acc = (st', ev, true).
Proof.
  induction fuel as [|f IH]; intros st acc L; [lia|]. cbn [t_flush_loop].
  destruct (tc_q st) as [|pg r] eqn:Eq; [eexists; eexists; reflexivity|].
  destruct (t_add_next (tc_next st) pg) as [ch n'].
  destruct (t_send [ch] n' r (tc_last st)) as [[st1 evs] closes] eqn:Es.
  destruct closes; [eexists; eexists; reflexivity|].
  apply IH. apply t_send_q in Es. cbn in L. lia.
Qed.
Lemma tcp_flushall_closes : machine_flushall_closes tconn tc_closed tcp_flush.
Proof.
  intros st Hc. unfold tcp_flush. rewrite Hc. apply t_flush_loop_closes. lia.
Qed.
Lemma rsm_flushall_closes : machine_flushall_closes rconn rc_closed rsm_flush.
Proof.
  intros st Hc. unfold rsm_flush. rewrite Hc.
  destruct (r_flush_half (S (length (h_q (r_s2c st)))) true (r_s2c st) []) as [hs e1].
  destruct (r_flush_half (S (length (h_q (r_c2s st)))) false (r_c2s st) e1) as [hc e2].
  eexists; eexists; reflexivity.
Qed.

Lemma rc_closed_open_half st fwd n q l cut : rc_closed (set_half st fwd (mkHalf n q false l) cut) = false.
Proof. unfold rc_closed, set_half. destruct fwd; cbn; [reflexivity|apply andb_false_r]. Qed.

Lemma rsm_machine_tight : machine_tight rconn rc_closed rsm_process rsm_flush.
Proof.
  split.
  - intros st0 fwd p st' ev. unfold rsm_process.
    set (h0 := if fwd then r_c2s st0 else r_s2c st0).
    set (h := mkHalf (h_next h0) (h_q h0) (h_closed h0) (if (h_last h0 <? p_ts p)%Z then p_ts p else h_last h0)).
    set (st := set_half st0 fwd h false).
    assert (Hcl0 : rc_closed st = rc_closed st0).
    { unfold rc_closed, st, set_half, h, h0. destruct fwd; reflexivity. }
    cbn [h_closed h]. change (h_closed h) with (h_closed h0).
    destruct (h_closed h0) eqn:Ec.
    + intros H; inversion H; subst. congruence.
    + destruct (match h_next h with
                | Some n => if (0 <? (if p_syn p then p_seq p + 1 else p_seq p) - n)%Z
                            then (true, if p_syn p then (p_seq p + 1)%Z else p_seq p, Some n)
                            else (false, if p_syn p then (p_seq p + 1)%Z else p_seq p, Some n)
                | None => if p_syn p then (false, (p_seq p + 1)%Z, Some (p_seq p + 1)%Z) else (true, p_seq p, None)
                end) as [[queue sq] next1].
      destruct queue.
      * destruct (r_check_overlap (h_q h) true sq (p_bytes p) (p_fin p) (p_ts p)) as [[q' b1] cut].
        intros H _; inversion H; subst. apply rc_closed_open_half.
      * destruct (r_overlap_existing next1 sq (p_bytes p)) as [b1 seq1].
        destruct (r_check_overlap (h_q h) false seq1 b1 (p_fin p) (p_ts p)) as [[q1 b2] cut].
        destruct ((match b2 with [] => false | _ :: _ => true end) || p_fin p || p_syn p);
          [|intros H _; inversion H; subst; apply rc_closed_open_half].
        destruct (r_send (negb fwd) next1 q1 seq1 b2 (p_syn p) (p_fin p)) as [[[ev1 q2] e] nseq].
        destruct e; [|intros H _; inversion H; subst; apply rc_closed_open_half].
        unfold r_after_close.
        destruct (rc_closed (set_half st fwd (mkHalf (Some (if p_fin p then (nseq + 1)%Z else nseq)) [] true (h_last h)) cut)) eqn:Ecl;
          intros H _; inversion H; subst. exact Ecl.
  - intros a st st' ev. unfold rsm_flush. destruct (rc_closed st) eqn:Ec; [intros _ H; discriminate|].
    destruct a as [T|].
    + destruct (r_age_half (S (length (h_q (r_s2c st)))) T (rc_last st) true (r_s2c st) []) as [hs e1].
      destruct (r_age_half (S (length (h_q (r_c2s st)))) T (rc_last st) false (r_c2s st) e1) as [hc e2].
      destruct (rc_closed (mkRC hc hs (r_unsup st))) eqn:Ecl; intros H _; inversion H; subst. exact Ecl.
    + destruct (r_flush_half (S (length (h_q (r_s2c st)))) true (r_s2c st) []) as [hs e1].
      destruct (r_flush_half (S (length (h_q (r_c2s st)))) false (r_c2s st) e1) as [hc e2].
      intros H; inversion H.
Qed.
