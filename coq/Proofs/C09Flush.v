(* C09: flushes.  skipFlush hands over the first queued page and what is contiguous with it,
   announcing the gap in front of it as a skip equal to the distance from the delivery point;
   FlushWithOptions / FlushAll iterate it.  Histories: SYN first, consistent segments and
   FlushWithOptions calls that cannot close the connection, optionally a final FlushAll;
   no page limit, no KeepFrom. *)
From GP Require Import Base C09Model C09Spec C09Seq C09Proofs C09Stream.
From Coq Require Import Lia ZifyBool ZifyNat.
Ltac Zify.zify_post_hook ::= Z.div_mod_to_equations.
Open Scope Z_scope.

Ltac ex4 o := exists o; split; [|split; [|split]].

Lemma zlen_cons : forall A (x : A) l, zlen (x :: l) = 1 + zlen l.
Proof. intros. unfold zlen. cbn [length]. lia. Qed.

Lemma count_pages_cons_page : forall p tk, count_pages (CPage p :: map CPage tk) = 1 + zlen tk.
Proof.
  intros. unfold count_pages. cbn [filter is_page]. rewrite zlen_cons.
  fold (count_pages (map CPage tk)). rewrite count_pages_pages. reflexivity.
Qed.

(* ---------------------------------------------------------------- sendToConnection for a queued page *)
Lemma send_page : forall S i w0 hi h used pos o1 p sid nc,
  h_saved h = [] -> h_next h = sq i pos -> pg S i o1 p -> pos <= o1 ->
  qok S i (o1 + plen p) hi (h_queue h) ->
  w0 <= pos -> 0 <= pos -> zlen S < hi -> hi <= HI w0 ->
  exists e' tk q1,
    o1 + plen p <= e' /\ e' <= zlen S /\ qok S i (e' + 1) hi q1 /\
    send fixedv cfg0 h used (CPage p) sid nc =
    mkSres (mkHalf (h_pages h - (1 + zlen tk)) [] q1 (h_next h) (h_seen h) (h_closed h))
           (used - 0 - (1 + zlen tk) + 0) (sq i e')
           (last_end (CPage p :: map CPage tk))
           [ESG sid (sub S o1 (e' - o1)) false (last_end (CPage p :: map CPage tk)) (o1 - pos) (e' - o1) 0]
           false.
Proof.
  intros S i w0 hi h used pos o1 p sid nc Hsv Hnx Hpg Hle Hq Hw0 Hp0 HSh Hhi.
  pose proof Hpg as (Hp1 & Hpl & HpS & Hpq & Hpb).
  destruct (contig_loop_ok S i w0 hi (h_queue h) (o1 + plen p) (o1 + plen p))
    as (e' & tk & q1 & Heq & H1 & H2 & H3 & H4 & H5 & H6); try lia; try assumption.
  exists e', tk, q1. split; [lia|]. split; [lia|]. split; [assumption|].
  unfold send. rewrite Hsv, Hnx. rewrite sq_not_invalid.
  unfold clen. cbn [cseq cbytes add_pending].
  rewrite Hpq. change (zlen (pbytes p)) with (plen p). rewrite sadd_sq. rewrite add_contiguous_sq. rewrite Heq.
  unfold diffv. cbn [v_diff fixedv]. rewrite diff_sq by (unfold HI, HALFW in *; lia).
  cbn [map app concat cbytes].
  rewrite cbytes_pages, H3.
  assert (Hcat : pbytes p ++ sub S (o1 + plen p) (e' - (o1 + plen p)) = sub S o1 (e' - o1)).
  { rewrite Hpb at 1. rewrite sub_app by lia. f_equal. lia. }
  rewrite Hcat. rewrite zlen_sub by lia.
  unfold keep_choice, cfg0. cbn [c_keep].
  replace (-1 <? 0) with true by reflexivity.
  rewrite firstn_all, skipn_all. cbn [keep_conv].
  rewrite count_pages_cons_page.
  cbn [first_start cstart].
  replace (0 >? 0) with false by reflexivity. cbn [app].
  reflexivity.
Qed.

(* ---------------------------------------------------------------- events with absolute offsets *)
(* the events of a step, read from delivery point pos: every ScatterGather carries no saved
   bytes, a skip >= 0, and its bytes are S at offset pos + skip; pos' is the delivery point after *)
Fixpoint abs_evs (S : list Z) (pos : Z) (evs : list event) (pos' : Z) : Prop :=
  match evs with
  | [] => pos' = pos
  | ESG _ b _ _ skip avail saved :: t =>
    saved = 0 /\ 0 <= skip /\ b = sub S (pos + skip) (zlen b) /\
    pos + skip + zlen b <= zlen S /\ abs_evs S (pos + skip + zlen b) t pos'
  | EPanic _ :: _ => False
  | _ :: t => abs_evs S pos t pos'
  end.

Lemma abs_evs_app : forall S a pos mid b pos',
  abs_evs S pos a mid -> abs_evs S mid b pos' -> abs_evs S pos (a ++ b) pos'.
Proof.
  intros S. induction a as [|e t IH]; intros pos mid b pos' Ha Hb; cbn [app abs_evs] in *.
  - subst mid. assumption.
  - destruct e; try (eapply IH; eauto; fail); try contradiction.
    destruct Ha as (H1 & H2 & H3 & H4 & H5). repeat split; try assumption. eapply IH; eauto.
Qed.

Lemma abs_evs_mono : forall S evs pos pos', abs_evs S pos evs pos' -> pos <= pos'.
Proof.
  intros S. induction evs as [|e t IH]; intros pos pos' H; cbn [abs_evs] in H.
  - lia.
  - destruct e; try (apply IH; assumption); try contradiction.
    destruct H as (H1 & H2 & H3 & H4 & H5). apply IH in H5. pose proof (zlen_nonneg _ bytes). lia.
Qed.

(* a concatenation that is a slice of S splits into slices *)
Lemma app_eq_sub : forall S (a b : list Z) pos n,
  a ++ b = sub S pos n -> 0 <= pos -> 0 <= n -> pos + n <= zlen S ->
  zlen a <= n /\ a = sub S pos (zlen a) /\ b = sub S (pos + zlen a) (n - zlen a).
Proof.
  intros S a b pos n H Hp Hn HS.
  assert (Hl : zlen a + zlen b = n) by (rewrite <- zlen_app, H; apply zlen_sub; lia).
  pose proof (zlen_nonneg _ a). pose proof (zlen_nonneg _ b).
  split; [lia|]. split.
  - rewrite <- (ztake_sub S pos n (zlen a)) by lia. rewrite <- H.
    unfold ztake, zlen. rewrite Nat2Z.id. rewrite firstn_app, Nat.sub_diag, firstn_all. cbn [firstn]. rewrite app_nil_r. reflexivity.
  - rewrite <- (zskip_sub S pos n (zlen a)) by lia. rewrite <- H.
    unfold zskip, zlen. rewrite Nat2Z.id. rewrite skipn_app, Nat.sub_diag, skipn_all. reflexivity.
Qed.

(* clean events (skip 0, nothing saved) whose new bytes are S[pos, pos+n) are abs events *)
Lemma clean_to_abs : forall S evs pos n,
  ev_clean evs -> ev_new evs = sub S pos n -> 0 <= pos -> 0 <= n -> pos + n <= zlen S ->
  abs_evs S pos evs (pos + n).
Proof.
  intros S. induction evs as [|e t IH]; intros pos n Hc Hn Hp Hn0 HS.
  - cbn [abs_evs]. unfold ev_new in Hn. cbn in Hn.
    assert (zlen (sub S pos n) = n) by (apply zlen_sub; lia). rewrite <- Hn in H. cbn in H. lia.
  - inversion Hc as [|? ? Hc1 Hc2]; subst.
    destruct e; cbn [abs_evs ev_clean1] in *; try contradiction;
      try (apply IH; try assumption; exact Hn).
    destruct Hc1 as (Hs & Hsv). subst skip saved.
    assert (Hn' : bytes ++ ev_new t = sub S pos n) by exact Hn.
    destruct (app_eq_sub S bytes (ev_new t) pos n Hn' Hp Hn0 HS) as (Hl & Hb & Ht).
    pose proof (zlen_nonneg _ bytes).
    split; [reflexivity|]. split; [lia|]. rewrite Z.add_0_r. split; [exact Hb|]. split; [lia|].
    replace (pos + n) with (pos + zlen bytes + (n - zlen bytes)) by lia.
    apply IH; try assumption; try lia.
Qed.
