(* C09: flushes.  skipFlush hands over the first queued page and what is contiguous with it,
   announcing the gap in front of it as a skip equal to the distance from the delivery point;
   FlushWithOptions / FlushAll iterate it.  Histories: SYN first, consistent segments and
   FlushWithOptions calls that cannot close the connection, optionally a final FlushAll;
   no page limit, no KeepFrom. *)
From GP Require Import Base C09Model C09Spec C09Seq C09Proofs C09Stream.
From Coq Require Import Lia ZifyBool ZifyNat.
Ltac Zify.zify_post_hook ::= Z.div_mod_to_equations.
Open Scope Z_scope.

Ltac ex4 o := exists o; split; [|split; [|split]].

Lemma zlen_cons : forall A (x : A) l, zlen (x :: l) = 1 + zlen l.
Proof. intros. unfold zlen. cbn [length]. lia. Qed.

Lemma count_pages_cons_page : forall p tk, count_pages (CPage p :: map CPage tk) = 1 + zlen tk.
Proof.
  intros. unfold count_pages. cbn [filter is_page]. rewrite zlen_cons.
  fold (count_pages (map CPage tk)). rewrite count_pages_pages. reflexivity.
Qed.

(* any assembler options c, for a stream that never calls KeepFrom *)
Section FCfg.
Variable c : cfg.
Hypothesis Hk : c_keep c = [].

(* ---------------------------------------------------------------- sendToConnection for a queued page *)
Lemma send_page : forall S i w0 hi h used pos o1 p sid nc,
  h_saved h = [] -> h_next h = sq i pos -> pg S i o1 p -> pos <= o1 ->
  qok S i (o1 + plen p) hi (h_queue h) ->
  w0 <= pos -> 0 <= pos -> zlen S < hi -> hi <= HI w0 ->
  exists e' tk q1,
    o1 + plen p <= e' /\ e' <= zlen S /\ qok S i (e' + 1) hi q1 /\
    send fixedv c h used (CPage p) sid nc =
    mkSres (mkHalf (h_pages h - (1 + zlen tk)) [] q1 (h_next h) (h_seen h) (h_closed h))
           (used - 0 - (1 + zlen tk) + 0) (sq i e')
           (last_end (CPage p :: map CPage tk))
           [ESG sid (sub S o1 (e' - o1)) false (last_end (CPage p :: map CPage tk)) (o1 - pos) (e' - o1) 0]
           false.
Proof.
  intros S i w0 hi h used pos o1 p sid nc Hsv Hnx Hpg Hle Hq Hw0 Hp0 HSh Hhi.
  pose proof Hpg as (Hp1 & Hpl & HpS & Hpq & Hpb).
  destruct (contig_loop_ok S i w0 hi (h_queue h) (o1 + plen p) (o1 + plen p))
    as (e' & tk & q1 & Heq & H1 & H2 & H3 & H4 & H5 & H6); try lia; try assumption.
  exists e', tk, q1. split; [lia|]. split; [lia|]. split; [assumption|].
  unfold send. rewrite Hsv, Hnx. rewrite sq_not_invalid.
  unfold clen. cbn [cseq cbytes add_pending].
  rewrite Hpq. change (zlen (pbytes p)) with (plen p). rewrite sadd_sq. rewrite add_contiguous_sq. rewrite Heq.
  unfold diffv. cbn [v_diff fixedv]. rewrite diff_sq by (unfold HI, HALFW in *; lia).
  cbn [map app concat cbytes].
  rewrite cbytes_pages, H3.
  assert (Hcat : pbytes p ++ sub S (o1 + plen p) (e' - (o1 + plen p)) = sub S o1 (e' - o1)).
  { rewrite Hpb at 1. rewrite sub_app by lia. f_equal. lia. }
  rewrite Hcat. rewrite zlen_sub by lia.
  unfold keep_choice. rewrite Hk.
  replace (-1 <? 0) with true by reflexivity.
  rewrite firstn_all, skipn_all. cbn [keep_conv].
  rewrite count_pages_cons_page.
  cbn [first_start cstart].
  replace (0 >? 0) with false by reflexivity. cbn [app].
  reflexivity.
Qed.

(* ---------------------------------------------------------------- events with absolute offsets *)
(* the events of a step, read from delivery point pos: every ScatterGather carries no saved
   bytes, a skip >= 0, and its bytes are S at offset pos + skip; pos' is the delivery point after *)
Fixpoint abs_evs (S : list Z) (pos : Z) (evs : list event) (pos' : Z) : Prop :=
  match evs with
  | [] => pos' = pos
  | ESG _ b _ _ skip avail saved :: t =>
    saved = 0 /\ 0 <= skip /\ b = sub S (pos + skip) (zlen b) /\
    pos + skip + zlen b <= zlen S /\ abs_evs S (pos + skip + zlen b) t pos'
  | EPanic _ :: _ => False
  | _ :: t => abs_evs S pos t pos'
  end.

Lemma abs_evs_app : forall S a pos mid b pos',
  abs_evs S pos a mid -> abs_evs S mid b pos' -> abs_evs S pos (a ++ b) pos'.
Proof.
  intros S. induction a as [|e t IH]; intros pos mid b pos' Ha Hb; cbn [app abs_evs] in *.
  - subst mid. assumption.
  - destruct e; try (eapply IH; eauto; fail); try contradiction.
    destruct Ha as (H1 & H2 & H3 & H4 & H5). repeat split; try assumption. eapply IH; eauto.
Qed.

Lemma abs_evs_mono : forall S evs pos pos', abs_evs S pos evs pos' -> pos <= pos'.
Proof.
  intros S. induction evs as [|e t IH]; intros pos pos' H; cbn [abs_evs] in H.
  - lia.
  - destruct e; try (apply IH; assumption); try contradiction.
    destruct H as (H1 & H2 & H3 & H4 & H5). apply IH in H5. pose proof (zlen_nonneg _ bytes). lia.
Qed.

(* a concatenation that is a slice of S splits into slices *)
Lemma app_eq_sub : forall S (a b : list Z) pos n,
  a ++ b = sub S pos n -> 0 <= pos -> 0 <= n -> pos + n <= zlen S ->
  zlen a <= n /\ a = sub S pos (zlen a) /\ b = sub S (pos + zlen a) (n - zlen a).
Proof.
  intros S a b pos n H Hp Hn HS.
  assert (Hl : zlen a + zlen b = n) by (rewrite <- zlen_app, H; apply zlen_sub; lia).
  pose proof (zlen_nonneg _ a). pose proof (zlen_nonneg _ b).
  split; [lia|]. split.
  - rewrite <- (ztake_sub S pos n (zlen a)) by lia. rewrite <- H.
    unfold ztake, zlen. rewrite Nat2Z.id. rewrite firstn_app, Nat.sub_diag, firstn_all. cbn [firstn]. rewrite app_nil_r. reflexivity.
  - rewrite <- (zskip_sub S pos n (zlen a)) by lia. rewrite <- H.
    unfold zskip, zlen. rewrite Nat2Z.id. rewrite skipn_app, Nat.sub_diag, skipn_all. reflexivity.
Qed.

(* clean events (skip 0, nothing saved) whose new bytes are S[pos, pos+n) are abs events *)
Lemma clean_to_abs : forall S evs pos n,
  ev_clean evs -> ev_new evs = sub S pos n -> 0 <= pos -> 0 <= n -> pos + n <= zlen S ->
  abs_evs S pos evs (pos + n).
Proof.
  intros S. induction evs as [|e t IH]; intros pos n Hc Hn Hp Hn0 HS.
  - cbn [abs_evs]. unfold ev_new in Hn. cbn in Hn.
    assert (zlen (sub S pos n) = n) by (apply zlen_sub; lia). rewrite <- Hn in H. cbn in H. lia.
  - inversion Hc as [|? ? Hc1 Hc2]; subst.
    destruct e; cbn [abs_evs ev_clean1] in *; try contradiction;
      try (apply IH; try assumption; exact Hn).
    destruct Hc1 as (Hs & Hsv). subst skip saved.
    assert (Hn' : bytes ++ ev_new t = sub S pos n) by exact Hn.
    destruct (app_eq_sub S bytes (ev_new t) pos n Hn' Hp Hn0 HS) as (Hl & Hb & Ht).
    pose proof (zlen_nonneg _ bytes).
    split; [reflexivity|]. split; [lia|]. rewrite Z.add_0_r. split; [exact Hb|]. split; [lia|].
    replace (pos + n) with (pos + zlen bytes + (n - zlen bytes)) by lia.
    apply IH; try assumption; try lia.
Qed.

(* ---------------------------------------------------------------- skipFlush *)
(* the invariant of C09Stream with the state of the reverse half as a parameter *)
Definition inv2 (S : list Z) (i pos : Z) (rc : bool) (st : st) : Prop :=
  s_exists st = true /\ s_cfg st = c /\ s_rev_closed st = rc /\ h_saved (s_half st) = [] /\
  (h_closed (s_half st) = false ->
     h_next (s_half st) = sq i pos /\ qok S i (pos + 1) HIS (h_queue (s_half st))) /\
  0 <= pos <= zlen S.

Lemma inv_inv2 : forall S i pos st, inv c S i pos st <-> inv2 S i pos false st.
Proof.
  intros. split.
  - intros [H1 H2 H3 H4 H5 H6]. unfold inv2. auto 10.
  - intros (H1 & H2 & H3 & H4 & H5 & H6). constructor; assumption.
Qed.

Lemma skip_flush_ok : forall S i pos rc st,
  zlen S < HIS -> inv2 S i pos rc st -> h_closed (s_half st) = false ->
  exists st' ev pos', skip_flush fixedv st = (st', ev, false) /\
    s_rev_seen st' = s_rev_seen st /\ abs_evs S pos ev pos' /\
    (inv2 S i pos' rc st' \/ (rc = true /\ s_exists st' = false /\ h_closed (s_half st') = true)).
Proof.
  intros S i pos rc st HS Hinv Hopen.
  destruct Hinv as (Hex & Hcfg & Hrev & Hsv & Hopn & Hpos). destruct (Hopn Hopen) as (Hnx & Hq).
  destruct st as [c0 ex h rc0 rs used sid nc]. cbn [s_exists s_cfg s_rev_closed s_half s_rev_seen] in *. subst c0 ex rc0.
  destruct h as [pg_ sv q nx seen cl]. cbn [h_saved h_closed h_next h_queue] in *. subst sv cl nx.
  unfold skip_flush. cbn [s_half h_queue].
  destruct q as [|p q'].
  - (* nothing queued: the half is closed *)
    unfold close_c2s. cbn [s_half s_rev_closed s_cfg s_exists s_rev_seen s_used s_sid s_ncalls
                          h_pages h_saved h_queue h_next h_seen h_closed].
    destruct rc.
    + eexists. eexists. exists pos. split; [reflexivity|]. split; [reflexivity|]. split; [cbn [abs_evs]; reflexivity|].
      right. cbn [s_exists s_half h_closed]. auto.
    + eexists. eexists. exists pos. split; [reflexivity|]. split; [reflexivity|]. split; [cbn [abs_evs]; reflexivity|].
      left. unfold inv2. cbn [s_exists s_cfg s_rev_closed s_half h_saved h_closed h_next h_queue].
      repeat split; try reflexivity; try lia. all: intros Hc; discriminate.
  - cbn [qok] in Hq. destruct Hq as (o1 & Ho1 & Ho1e & Hpg & Hq').
    cbn [h_pages h_saved h_next h_seen h_closed s_used].
    unfold send_st. cbn [s_cfg s_sid s_ncalls s_exists s_rev_closed s_rev_seen].
    destruct (send_page S i 0 HIS (mkHalf pg_ [] q' (sq i pos) seen false) used pos o1 p sid nc)
      as (e' & tk & q1 & He1 & He2 & Hq1 & Heq);
      cbn [h_saved h_next h_queue]; try reflexivity; try lia; try assumption; try apply HIS_HI.
    rewrite Heq. cbn [sr_panic sr_end sr_half sr_used sr_next sr_ev h_pages h_saved h_queue h_next h_seen h_closed].
    pose proof Hpg as (Hp1 & Hpl & HpS & Hpq & Hpb).
    assert (Habs : forall en tl pos'', abs_evs S e' tl pos'' ->
              abs_evs S pos (ETag 13 :: ESG sid (sub S o1 (e' - o1)) false en (o1 - pos) (e' - o1) 0 :: tl) pos'').
    { intros en tl pos'' Ht. cbn [abs_evs]. rewrite zlen_sub by lia.
      replace (pos + (o1 - pos)) with o1 by lia. replace (o1 + (e' - o1)) with e' by lia.
      repeat split; try lia; try reflexivity. exact Ht. }
    destruct (last_end (CPage p :: map CPage tk)) eqn:Eend.
    + unfold close_c2s. cbn [s_half s_rev_closed s_cfg s_exists s_rev_seen s_used s_sid s_ncalls
                            h_pages h_saved h_queue h_next h_seen h_closed].
      destruct rc; rewrite sq_not_invalid.
      * eexists. eexists. exists e'. split; [reflexivity|]. split; [reflexivity|].
        split; [cbn [app]; apply Habs; cbn [abs_evs]; reflexivity|].
        right. cbn [s_exists s_half set_half set_next h_closed]. auto.
      * eexists. eexists. exists e'. split; [reflexivity|]. split; [reflexivity|].
        split; [cbn [app]; apply Habs; cbn [abs_evs]; reflexivity|].
        left. unfold inv2. cbn [s_exists s_cfg s_rev_closed s_half set_half set_next h_saved h_closed h_next h_queue].
        repeat split; try reflexivity; try lia. all: intros Hc; discriminate.
    + rewrite sq_not_invalid.
      eexists. eexists. exists e'. split; [reflexivity|]. split; [reflexivity|].
      split; [apply Habs; cbn [abs_evs]; reflexivity|].
      left. unfold inv2. cbn [s_exists s_cfg s_rev_closed s_half set_half set_next h_saved h_closed h_next h_queue].
      repeat split; try reflexivity; try lia; try assumption.
Qed.

(* ---------------------------------------------------------------- FlushWithOptions *)
Lemma fc_loop_ok : forall S i t fuel pos st,
  zlen S < HIS -> inv2 S i pos false st -> h_closed (s_half st) = false ->
  exists st' ev pos', fc_loop fuel fixedv st t = (st', ev, false) /\
    s_rev_seen st' = s_rev_seen st /\ abs_evs S pos ev pos' /\ inv2 S i pos' false st'.
Proof.
  intros S i t. induction fuel as [|f IH]; intros pos st HS Hinv Hcl.
  - exists st, [], pos. cbn [fc_loop abs_evs]. auto.
  - cbn [fc_loop].
    destruct (h_queue (s_half st)) as [|p q'] eqn:Eq.
    { exists st, [], pos. cbn [abs_evs]. auto. }
    destruct (pseen p <? t) eqn:Et.
    2:{ exists st, [], pos. cbn [abs_evs]. auto. }
    destruct (skip_flush_ok S i pos false st HS Hinv Hcl) as (s1 & ev1 & pos1 & He & Hr & Ha & Hi).
    rewrite He.
    destruct Hi as [Hi|(Hc & _)]; [|discriminate].
    destruct (h_closed (s_half s1)) eqn:Hcl1.
    + exists s1, ev1, pos1. auto.
    + destruct (IH pos1 s1 HS Hi Hcl1) as (s2 & ev2 & pos2 & He2 & Hr2 & Ha2 & Hi2).
      rewrite He2. exists s2, (ev1 ++ ev2), pos2. split; [reflexivity|]. split; [congruence|].
      split; [eapply abs_evs_app; eauto|assumption].
Qed.

Lemma close_c2s_inv2 : forall S i pos st, inv2 S i pos false st ->
  exists st', close_c2s fixedv st = (st', []) /\ s_rev_seen st' = s_rev_seen st /\ inv2 S i pos false st'.
Proof.
  intros S i pos st (Hex & Hcfg & Hrev & Hsv & Hopn & Hpos).
  unfold close_c2s. rewrite Hrev. eexists. split; [reflexivity|]. split; [reflexivity|].
  unfold inv2. cbn [s_exists s_cfg s_rev_closed s_half h_saved h_closed h_next h_queue].
  repeat split; try assumption; try lia. all: intros Hc; discriminate.
Qed.

Lemma flush_close_c2s_ok : forall S i t tc pos st,
  zlen S < HIS -> inv2 S i pos false st ->
  exists st' ev pos', flush_close_c2s fixedv st t tc = (st', ev, false) /\
    s_rev_seen st' = s_rev_seen st /\ abs_evs S pos ev pos' /\ inv2 S i pos' false st'.
Proof.
  intros S i t tc pos st HS Hinv. unfold flush_close_c2s.
  destruct (h_closed (s_half st)) eqn:Hcl.
  { exists st, [], pos. cbn [abs_evs]. auto. }
  destruct (fc_loop_ok S i t (Datatypes.S (length (h_queue (s_half st)))) pos st HS Hinv Hcl)
    as (s1 & ev1 & pos1 & He & Hr & Ha & Hi).
  rewrite He.
  destruct (h_closed (s_half s1)) eqn:Hcl1.
  { exists s1, ev1, pos1. auto. }
  destruct (h_queue (s_half s1)) eqn:Eq1.
  2:{ exists s1, ev1, pos1. auto. }
  destruct (conn_last_seen s1 <? tc).
  - destruct (close_c2s_inv2 S i pos1 s1 Hi) as (s2 & He2 & Hr2 & Hi2). rewrite He2.
    exists s2, (ev1 ++ []), pos1. split; [reflexivity|]. split; [congruence|].
    rewrite app_nil_r. auto.
  - exists s1, ev1, pos1. auto.
Qed.

Lemma conn_last_seen_ge : forall st, s_rev_seen st <= conn_last_seen st.
Proof. intros. unfold conn_last_seen. destruct (h_seen (s_half st) <? s_rev_seen st) eqn:E; lia. Qed.

(* FlushWithOptions{T, TC} with TC not later than the first packet of the connection: nothing is
   closed; what is older than T is handed over with its gaps announced *)
Lemma flush_opts_ok : forall S i t tc pos st,
  zlen S < HIS -> inv c S i pos st -> tc <= s_rev_seen st ->
  exists st' ev pos', flush_opts fixedv st t tc = (st', ev, false) /\
    s_rev_seen st' = s_rev_seen st /\ abs_evs S pos ev pos' /\ inv c S i pos' st'.
Proof.
  intros S i t tc pos st HS Hinv Htc. apply inv_inv2 in Hinv.
  pose proof Hinv as (Hex & Hcfg & Hrev & _).
  unfold flush_opts. rewrite Hex. cbn [negb].
  unfold flush_close_rev. rewrite Hrev.
  pose proof (conn_last_seen_ge st).
  replace (conn_last_seen st <? tc) with false by lia.
  destruct (flush_close_c2s_ok S i t tc pos st HS Hinv) as (s1 & ev1 & pos1 & He & Hr & Ha & Hi).
  rewrite He. exists s1, ([] ++ ev1), pos1. cbn [app]. split; [reflexivity|]. split; [assumption|].
  split; [assumption|]. apply inv_inv2. assumption.
Qed.

(* ---------------------------------------------------------------- FlushAll *)
Lemma fa_loop_ok : forall S i fuel pos st,
  zlen S < HIS -> inv2 S i pos true st ->
  exists st' ev pos', fa_loop fuel fixedv st = (st', ev, false) /\ abs_evs S pos ev pos'.
Proof.
  intros S i. induction fuel as [|f IH]; intros pos st HS Hinv.
  - exists st, [], pos. cbn [fa_loop abs_evs]. auto.
  - cbn [fa_loop].
    destruct (h_closed (s_half st)) eqn:Hcl.
    { exists st, [], pos. cbn [abs_evs]. auto. }
    destruct (skip_flush_ok S i pos true st HS Hinv Hcl) as (s1 & ev1 & pos1 & He & Hr & Ha & Hi).
    rewrite He.
    destruct Hi as [Hi|(_ & Hx & Hc)].
    + destruct (IH pos1 s1 HS Hi) as (s2 & ev2 & pos2 & He2 & Ha2).
      rewrite He2. exists s2, (ev1 ++ ev2), pos2. split; [reflexivity|]. eapply abs_evs_app; eauto.
    + (* completed: the loop stops at once *)
      destruct f as [|f'].
      * cbn [fa_loop]. exists s1, (ev1 ++ []), pos1. rewrite app_nil_r. auto.
      * cbn [fa_loop]. rewrite Hc. exists s1, (ev1 ++ []), pos1. rewrite app_nil_r. auto.
Qed.

Lemma flush_all_ok : forall S i pos st,
  zlen S < HIS -> inv c S i pos st ->
  exists st' ev pos', flush_all fixedv st = (st', ev, false) /\ abs_evs S pos ev pos'.
Proof.
  intros S i pos st HS Hinv. apply inv_inv2 in Hinv.
  pose proof Hinv as (Hex & Hcfg & Hrev & Hsv & Hopn & Hpos).
  unfold flush_all. rewrite Hex. cbn [negb]. rewrite Hrev.
  unfold close_rev.
  destruct (h_closed (s_half st)) eqn:Hcl.
  - (* the data half was closed by FIN/RST before: closing the other half completes the stream *)
    set (s1 := mkSt (s_cfg st) false (s_half st) true (s_rev_seen st) (s_used st) (s_sid st) (s_ncalls st)).
    assert (Hf : forall fuel, fa_loop fuel fixedv s1 = (s1, [], false)).
    { intros [|f]; cbn [fa_loop]; [reflexivity|]. subst s1. cbn [s_half]. rewrite Hcl. reflexivity. }
    rewrite Hf. eexists. eexists. exists pos. split; [reflexivity|]. cbn [app abs_evs]. reflexivity.
  - set (s1 := mkSt (s_cfg st) (s_exists st) (s_half st) true (s_rev_seen st) (s_used st) (s_sid st) (s_ncalls st)).
    assert (Hi1 : inv2 S i pos true s1).
    { subst s1. unfold inv2. cbn [s_exists s_cfg s_rev_closed s_half]. auto 10. }
    destruct (fa_loop_ok S i (Datatypes.S (Datatypes.S (length (h_queue (s_half s1))))) pos s1 HS Hi1)
      as (s2 & ev2 & pos2 & He2 & Ha2).
    rewrite He2. exists s2, ([] ++ ev2), pos2. cbn [app]. auto.
Qed.

(* ---------------------------------------------------------------- queueing with a page limit *)
Lemma abs_evs_tags : forall S pos l, abs_evs S pos (map ETag l) pos.
Proof. intros S pos. induction l as [|x t IH]; cbn [map abs_evs]; [reflexivity|exact IH]. Qed.

(* a segment beyond the delivery point is queued; when a page limit is reached the first queued
   page and what is contiguous with it are handed over, the gap in front announced as a skip; the
   FIN of the queued segment does not move nextSeq *)
Lemma assemble_queue_gen : forall S i pos st o n fin rst ts,
  zlen S < HIS -> inv c S i pos st -> h_closed (s_half st) = false ->
  pos < o -> 0 <= n -> o + n <= zlen S ->
  exists st' ev pos', assemble fixedv st (mkSeg (sq i o) false fin rst false ts (sub S o n)) = (st', ev, false) /\
    s_rev_seen st' = s_rev_seen st /\ abs_evs S pos ev pos' /\ inv c S i pos' st'.
Proof.
  intros S i pos st o n fin rst ts HS Hinv Hopen Ho Hn HoS.
  destruct Hinv as [Hex Hcfg Hrev Hsv Hop Hpos]. destruct (Hop Hopen) as (Hnx & Hq).
  destruct st as [c0 ex h rc rs used sid nc]. cbn [s_exists s_cfg s_rev_closed s_half] in *. subst c0 ex rc.
  destruct h as [pg_ sv q nx seen cl]. cbn [h_saved h_closed h_next h_queue] in *. subst sv cl nx.
  unfold assemble. cbn [s_exists s_half s_cfg s_used s_sid s_ncalls s_rev_closed s_rev_seen
                        h_pages h_saved h_queue h_next h_seen h_closed
                        g_seq g_syn g_fin g_rst g_force g_ts g_bytes].
  rewrite sq_not_invalid. cbn [v_syn fixedv andb].
  unfold diffv. cbn [v_diff fixedv].
  rewrite diff_sq by (unfold HIS, HALFW in *; lia).
  replace (o - pos >? 0) with true by lia.
  cbn [set_next h_pages h_saved h_queue h_next h_seen h_closed].
  set (r := check_overlap fixedv q (sub S o n) (sq i o) ts (rst || fin) true).
  destruct (check_overlap_queue S i 0 (pos + 1) HIS q o n ts (rst || fin)) as (Hp & Hq');
    try lia; try assumption; try apply HIS_HI.
  fold r in Hp, Hq'. rewrite Hp.
  destruct (limit_hit c (pg_ - c2_rel r + c2_added r) (used - c2_rel r + c2_added r)).
  2:{ eexists. eexists. exists pos. split; [reflexivity|]. split; [reflexivity|]. split.
      - cbn [app]. apply abs_evs_tags.
      - constructor; cbn [s_exists s_cfg s_rev_closed s_half h_saved h_closed h_next h_queue]; try reflexivity; try lia.
        intros _. split; [reflexivity|assumption]. }
  destruct (c2_queue r) as [|p q'] eqn:Eq.
  { eexists. eexists. exists pos. split; [reflexivity|]. split; [reflexivity|]. split.
    - cbn [app]. apply abs_evs_tags.
    - constructor; cbn [s_exists s_cfg s_rev_closed s_half h_saved h_closed h_next h_queue]; try reflexivity; try lia.
      intros _. split; [reflexivity|]. cbn [qok]. unfold HIS, HALFW in *. lia. }
  cbn [qok] in Hq'. destruct Hq' as (o1 & Ho1 & Ho1e & Hpg & Hq1').
  unfold send_st. cbn [s_cfg s_sid s_ncalls s_exists s_rev_closed s_rev_seen].
  destruct (send_page S i 0 HIS
              (mkHalf (pg_ - c2_rel r + c2_added r) [] q' (sq i pos) (if seen <? ts then ts else seen) false)
              (used - c2_rel r + c2_added r) pos o1 p sid nc)
    as (e' & tk & q1 & He1 & He2 & Hq1 & Heq);
    cbn [h_saved h_next h_queue]; try reflexivity; try lia; try assumption; try apply HIS_HI.
  rewrite Heq. cbn [sr_panic sr_end sr_half sr_used sr_next sr_ev h_pages h_saved h_queue h_next h_seen h_closed].
  pose proof Hpg as (Hp1 & Hpl & HpS & Hpq & Hpb).
  assert (Habs : forall en, abs_evs S pos
            ([] ++ [] ++ map ETag (c2_tags r) ++
             ETag 12 :: [ESG sid (sub S o1 (e' - o1)) false en (o1 - pos) (e' - o1) 0]) e').
  { intros en. cbn [app]. eapply abs_evs_app; [apply abs_evs_tags|].
    cbn [abs_evs]. rewrite zlen_sub by lia.
    replace (pos + (o1 - pos)) with o1 by lia. replace (o1 + (e' - o1)) with e' by lia.
    repeat split; try lia; reflexivity. }
  rewrite andb_false_r.
  destruct (last_end (CPage p :: map CPage tk)) eqn:Eend.
  - unfold close_c2s. cbn [s_half s_rev_closed s_cfg s_exists s_rev_seen s_used s_sid s_ncalls
                          h_pages h_saved h_queue h_next h_seen h_closed].
    rewrite sq_not_invalid.
    eexists. eexists. exists e'. split; [reflexivity|]. split; [reflexivity|].
    split; [rewrite app_nil_r; apply Habs|].
    constructor; cbn [s_exists s_cfg s_rev_closed s_half set_half set_next h_saved h_closed h_next h_queue];
      try reflexivity; try lia; try (intros Hc; discriminate).
  - rewrite sq_not_invalid.
    eexists. eexists. exists e'. split; [reflexivity|]. split; [reflexivity|].
    split; [apply Habs|].
    constructor; cbn [s_exists s_cfg s_rev_closed s_half set_half set_next h_saved h_closed h_next h_queue];
      try reflexivity; try lia. intros _. split; [reflexivity|assumption].
Qed.

End FCfg.

(* ---------------------------------------------------------------- histories with flushes and limits *)
Definition mid_hop (ts0 : Z) (h : hop) : bool :=
  match h with
  | HSyn _ _ | HData _ _ _ _ _ => true
  | HFlush _ tc => tc <=? ts0          (* cannot close the connection: TC not after its first packet *)
  | HCfg _ _ => true                   (* the page limits may change at any time *)
  | _ => false
  end.

Lemma inv_set_cfg : forall c S i pos st a b,
  inv c S i pos st ->
  inv (mkCfg a b (c_keep c)) S i pos
      (mkSt (mkCfg a b (c_keep (s_cfg st))) (s_exists st) (s_half st) (s_rev_closed st) (s_rev_seen st)
            (s_used st) (s_sid st) (s_ncalls st)).
Proof.
  intros c S i pos st a b [H1 H2 H3 H4 H5 H6].
  constructor; cbn [s_exists s_cfg s_rev_closed s_half]; try assumption. rewrite H2. reflexivity.
Qed.

Lemma step_mid : forall c S i ts0 pos st h,
  c_keep c = [] ->
  zlen S < HIS -> inv c S i pos st -> s_rev_seen st = ts0 -> mid_hop ts0 h = true -> hop_okb S h = true ->
  exists c' st' ev pos', step fixedv st (op_of S i h) = (st', ev, false) /\ c_keep c' = [] /\
    s_rev_seen st' = ts0 /\ abs_evs S pos ev pos' /\ inv c' S i pos' st'.
Proof.
  intros c S i ts0 pos st h Hk HS Hinv Hrs Hmid Hok.
  destruct h as [a b| |n ts|o n fin rst ts|t tc|]; try discriminate; cbn [mid_hop op_of step hop_okb] in *.
  - (* options *)
    eexists. eexists. eexists. exists pos. split; [reflexivity|]. split; [|split; [|split]].
    2: exact Hrs. 2: cbn [abs_evs]; reflexivity. 2: apply inv_set_cfg; exact Hinv. exact Hk.
  - (* SYN again *)
    destruct (h_closed (s_half st)) eqn:Hcl.
    + destruct (assemble_closed c S i pos st (mkSeg (i mod M32) true false false false ts (sub S 0 n)) Hinv Hcl) as (st' & He & Hr & Hi).
      exists c, st', [], pos. split; [exact He|]. split; [exact Hk|]. split; [congruence|].
      split; [cbn [abs_evs]; reflexivity|exact Hi].
    + pose proof (i_pos _ _ _ _ _ Hinv).
      destruct (assemble_inorder c Hk S i pos st (i mod M32) true 0 n false false ts) as
        (st' & ev & pos' & He & Hr & Hp & Hi & Hn & Hc); try assumption; try lia;
        try apply syn_seq; try (intros; discriminate).
      exists c, st', ev, pos'. split; [exact He|]. split; [exact Hk|]. split; [congruence|].
      pose proof (i_pos _ _ _ _ _ Hi). split; [|exact Hi].
      replace pos' with (pos + (pos' - pos)) by lia. apply clean_to_abs; try assumption; lia.
  - destruct (h_closed (s_half st)) eqn:Hcl.
    + destruct (assemble_closed c S i pos st (mkSeg (sq i o) false fin rst false ts (sub S o n)) Hinv Hcl) as (st' & He & Hr & Hi).
      exists c, st', [], pos. split; [exact He|]. split; [exact Hk|]. split; [congruence|].
      split; [cbn [abs_evs]; reflexivity|exact Hi].
    + pose proof (i_pos _ _ _ _ _ Hinv).
      destruct (Z.le_gt_cases o pos) as [Hle|Hgt].
      * destruct (assemble_inorder c Hk S i pos st (sq i o) false o n fin rst ts) as
          (st' & ev & pos' & He & Hr & Hp & Hi & Hn & Hc); try assumption; try lia; try reflexivity.
        { intros Hf. subst fin. cbn [negb orb] in Hok. lia. }
        exists c, st', ev, pos'. split; [exact He|]. split; [exact Hk|]. split; [congruence|].
        pose proof (i_pos _ _ _ _ _ Hi). split; [|exact Hi].
        replace pos' with (pos + (pos' - pos)) by lia. apply clean_to_abs; try assumption; lia.
      * destruct (assemble_queue_gen c Hk S i pos st o n fin rst ts) as
          (st' & ev & pos' & He & Hr & Ha & Hi); try assumption; try lia.
        exists c, st', ev, pos'. split; [exact He|]. split; [exact Hk|]. split; [congruence|]. auto.
  - destruct (flush_opts_ok c Hk S i t tc pos st HS Hinv) as (st' & ev & pos' & He & Hr & Ha & Hi); [lia|].
    exists c, st', ev, pos'. split; [exact He|]. split; [exact Hk|]. split; [congruence|]. auto.
Qed.

Lemma run_mids_tail : forall S i ts0 tail,
  tail = [] \/ tail = [HFlushAll] ->
  forall mids c pos st,
  c_keep c = [] ->
  zlen S < HIS -> inv c S i pos st -> s_rev_seen st = ts0 ->
  forallb (mid_hop ts0) mids = true -> forallb (hop_okb S) mids = true ->
  let tr := run_trace fixedv st (map (op_of S i) (mids ++ tail)) in
  length tr = length (mids ++ tail) /\
  (exists pos', abs_evs S pos (concat (map fst tr)) pos').
Proof.
  intros S i ts0 tail Htail. induction mids as [|h t IH]; intros c pos st Hk HS Hinv Hrs Hmid Hok.
  - cbn [app]. destruct Htail as [Ht|Ht]; subst tail; cbn [map run_trace length].
    + split; [reflexivity|]. exists pos; reflexivity.
    + cbn [op_of step].
      destruct (flush_all_ok c Hk S i pos st HS Hinv) as (st' & ev & pos' & He & Ha). rewrite He.
      cbn [length map fst concat]. rewrite app_nil_r.
      split; [reflexivity|]. exists pos'; exact Ha.
  - cbn [forallb] in Hmid, Hok. apply andb_prop in Hmid. apply andb_prop in Hok.
    destruct Hmid as (Hm1 & Hm2). destruct Hok as (Ho1 & Ho2).
    destruct (step_mid c S i ts0 pos st h Hk HS Hinv Hrs Hm1 Ho1) as (c' & st' & ev & pos1 & He & Hk' & Hr & Ha & Hi).
    destruct (IH c' pos1 st' Hk' HS Hi Hr Hm2 Ho2) as (Hl & (pos' & Ha')).
    cbn [app map run_trace]. rewrite He. cbn [length map fst concat].
    split; [rewrite Hl; reflexivity|].
    exists pos'. eapply abs_evs_app; eauto.
Qed.

(* segments never release data beyond a gap when no page limit is configured: see C09Stream
   (stream_partial, ev_clean).  With limits, a queued segment may. *)

(* C09_flush_partial: any page limits (set first, possibly changed later), SYN first, then
   consistent segments in any order interleaved with FlushWithOptions calls that cannot close
   the connection, optionally FlushAll at the end; no KeepFrom.  The run does not stop; reading the
   events in order from offset 0, every ScatterGather carries no saved bytes and a skip >= 0, and its
   bytes are exactly S at the absolute offset reached by adding up everything delivered and skipped
   before. *)
Theorem flush_partial : forall S i a b n0 ts0 mids tail,
  zlen S < HIS -> 0 <= n0 <= zlen S -> tail = [] \/ tail = [HFlushAll] ->
  forallb (mid_hop ts0) mids = true -> forallb (hop_okb S) mids = true ->
  let hs := HCfg a b :: HSyn n0 ts0 :: mids ++ tail in
  let tr := run_hist fixedv S i hs in
  length tr = length hs /\ exists pos, abs_evs S 0 (concat (map fst tr)) pos.
Proof.
  intros S i a b n0 ts0 mids tail HS Hn0 Htail Hmid Hok hs tr. subst hs tr.
  unfold run_hist. cbn [map op_of run_trace step init s_cfg c_keep s_exists s_half s_rev_closed s_rev_seen s_used s_sid s_ncalls].
  destruct (assemble_first_syn (mkCfg a b []) eq_refl S i n0 ts0 HS Hn0) as (st' & ev & He & Hr & Hi & Hn & Hc).
  rewrite He.
  destruct (run_mids_tail S i ts0 tail Htail mids (mkCfg a b []) n0 st' eq_refl HS Hi Hr Hmid Hok) as (Hl & (pos' & Ha)).
  cbn [length map fst concat app]. split; [rewrite Hl; reflexivity|].
  exists pos'.
  assert (Hx : abs_evs S 0 ev (0 + n0)) by (apply clean_to_abs; try assumption; lia).
  rewrite Z.add_0_l in Hx. eapply abs_evs_app; [exact Hx|exact Ha].
Qed.
