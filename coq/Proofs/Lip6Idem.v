(* Lip6 — a second SerializeTo of the layer as the first call left it gives the same result *)
From GP Require Import Base ListX N6Lib Lip6Model Lip6Proofs.
From Coq Require Import Lia ZifyBool ZifyNat.
Open Scope Z_scope.

Lemma ext_eta h : mkExt (e_next h) (e_hlen h) (e_alen h) (e_opts h) (e_contents h) (e_payload h) = h.
Proof. destruct h; reflexivity. Qed.

Lemma ip6_eta l : mkIp6 (p_version l) (p_tclass l) (p_flow l) (p_length l) (p_next l) (p_hop l) (p_src l) (p_dst l)
                        (p_hbh l) (p_contents l) (p_payload l) = l.
Proof. destruct l; reflexivity. Qed.

(* ---------------------------------------------------------------- options *)

Definition fixlen (fx : bool) (o : tlv) : tlv := snd (tlv_seg fx o).

Lemma tlv_seg_idem fx o : tlv_seg fx (fixlen fx o) = (fst (tlv_seg fx o), fixlen fx o).
Proof.
  unfold fixlen, tlv_seg. destruct (t_type o =? 0) eqn:E; cbn [fst snd]; [rewrite E; reflexivity|].
  cbn [t_type t_data t_olen t_alen t_ax t_ay]. rewrite E. destruct fx; reflexivity.
Qed.

Lemma fixlen_align fx o : t_ax (fixlen fx o) = t_ax o /\ t_ay (fixlen fx o) = t_ay o /\ t_type (fixlen fx o) = t_type o /\
  t_data (fixlen fx o) = t_data o.
Proof. unfold fixlen, tlv_seg. destruct (t_type o =? 0); repeat split. Qed.

Lemma tlvs_ser_os b fx os : forall len segs os' total, tlvs_ser b fx os len = (segs, os', total) -> os' = map (fixlen fx) os.
Proof.
  induction os as [|o t IH]; intros len segs os' total.
  - cbn [tlvs_ser]. destruct fx; [destruct (_ =? 0)|]; intros [= <- <- <-]; reflexivity.
  - cbn [tlvs_ser]. destruct (tlv_seg fx o) as [seg o'] eqn:ES.
    destruct (tlvs_ser b fx t _) as [[segs1 t'] total1] eqn:ER. intros [= <- <- <-].
    cbn [map]. rewrite (IH _ _ _ _ ER). unfold fixlen. rewrite ES. reflexivity.
Qed.

Lemma tlvs_ser_idem b fx os : forall len segs os' total, tlvs_ser b fx os len = (segs, os', total) ->
  tlvs_ser b fx os' len = (segs, os', total).
Proof.
  induction os as [|o t IH]; intros len segs os' total.
  - cbn [tlvs_ser]. destruct fx; [destruct (_ =? 0) eqn:E|]; intros [= <- <- <-]; cbn [tlvs_ser]; rewrite ?E; reflexivity.
  - cbn [tlvs_ser]. destruct (tlv_seg fx o) as [seg o'] eqn:ES.
    destruct (tlvs_ser b fx t _) as [[segs1 t'] total1] eqn:ER. intros [= <- <- <-].
    cbn [tlvs_ser]. assert (Ho : o' = fixlen fx o) by (unfold fixlen; rewrite ES; reflexivity).
    destruct (fixlen_align fx o) as (Hx & Hy & _). rewrite Ho, Hx, Hy, tlv_seg_idem, ES. cbn [fst].
    rewrite <- Ho. rewrite (IH _ _ _ _ ER). reflexivity.
Qed.

Lemma ext_wire_idem b h payload fx r h' : ext_wire b h payload fx = (r, h') -> ext_wire b h' payload fx = (r, h').
Proof.
  unfold ext_wire. destruct (tlvs_ser b fx (e_opts h) 2) as [[segs os'] total] eqn:ES.
  pose proof (tlvs_ser_idem _ _ _ _ _ _ _ ES) as EI.
  destruct (negb _) eqn:E8; intros [= <- <-]; cbn [e_opts e_next e_hlen e_alen e_contents e_payload]; rewrite EI, E8; [reflexivity|].
  destruct fx; reflexivity.
Qed.

(* the jumbo option *)
Lemma get_jumbo_td h h' : map (fun o => (t_type o, t_data o)) (e_opts h') = map (fun o => (t_type o, t_data o)) (e_opts h) ->
  get_jumbo h' = get_jumbo h.
Proof.
  unfold get_jumbo. generalize (e_opts h') (e_opts h). intros a. induction a as [|x a IH]; intros [|y c] H; try discriminate H; [reflexivity|].
  cbn [map] in H. injection H as Ht Hd Hr. cbn [find]. rewrite Ht. destruct (t_type y =? JUMBO); [rewrite Hd; reflexivity|].
  apply IH, Hr.
Qed.

Lemma map_fixlen_td fx os : map (fun o => (t_type o, t_data o)) (map (fixlen fx) os) = map (fun o => (t_type o, t_data o)) os.
Proof.
  induction os as [|o t IH]; [reflexivity|]. cbn [map]. destruct (fixlen_align fx o) as (_ & _ & Ht & Hd). rewrite Ht, Hd, IH. reflexivity.
Qed.

Lemma fixlen_set_jumbo v o : fixlen true (set_jumbo v o) = set_jumbo v o.
Proof. unfold fixlen, tlv_seg, set_jumbo. cbn [t_type t_data t_olen t_alen t_ax t_ay fst snd]. change (JUMBO =? 0) with false. cbn [snd].
  replace (u8 (n6_len (be_bytes 4 (u32 v)))) with 4; [reflexivity|]. unfold n6_len. rewrite be_bytes_length. reflexivity. Qed.

Lemma replace_first_map v os : replace_first_jumbo v (map (fixlen true) os) =
  match replace_first_jumbo v os with Some os' => Some (map (fixlen true) os') | None => None end.
Proof.
  induction os as [|o t IH]; [reflexivity|]. cbn [map replace_first_jumbo]. destruct (fixlen_align true o) as (_ & _ & Ht & _). rewrite Ht.
  destruct (t_type o =? JUMBO). { cbn [map]. unfold set_jumbo. reflexivity. }
  rewrite IH. destruct (replace_first_jumbo v t); reflexivity.
Qed.

Lemma replace_first_twice v w os os' : replace_first_jumbo v os = Some os' -> replace_first_jumbo w os' = replace_first_jumbo w os.
Proof.
  revert os'. induction os as [|o t IH]; intros os'; [discriminate|]. cbn [replace_first_jumbo].
  destruct (t_type o =? JUMBO) eqn:E.
  - intros [= <-]. cbn [replace_first_jumbo set_jumbo t_type]. change (JUMBO =? JUMBO) with true. reflexivity.
  - destruct (replace_first_jumbo v t) eqn:ER; [|discriminate]. intros [= <-]. cbn [replace_first_jumbo]. rewrite E.
    rewrite (IH _ eq_refl). reflexivity.
Qed.

Lemma replace_first_fix v os os' : replace_first_jumbo v os = Some os' -> replace_first_jumbo v os' = Some os'.
Proof. intros H. rewrite (replace_first_twice v v os os' H). exact H. Qed.

Lemma replace_first_app_none v os x : replace_first_jumbo v os = None ->
  replace_first_jumbo v (os ++ [set_jumbo v x]) = Some (os ++ [set_jumbo v x]).
Proof.
  induction os as [|o t IH]; cbn [app replace_first_jumbo].
  - intros _. cbn [set_jumbo t_type]. change (JUMBO =? JUMBO) with true. reflexivity.
  - destruct (t_type o =? JUMBO); [discriminate|]. destruct (replace_first_jumbo v t) eqn:E; [discriminate|].
    intros _. rewrite (IH eq_refl). reflexivity.
Qed.

(* options after addIPv6JumboOption: replacing the first jumbo option by the zero one changes nothing *)
Definition aj_opts (os : list tlv) : list tlv :=
  match replace_first_jumbo 0 os with Some os' => os' | None => os ++ [set_jumbo 0 (mkTlv 0 0 0 [] 0 0)] end.

Lemma aj_opts_fix os : replace_first_jumbo 0 (aj_opts os) = Some (aj_opts os).
Proof.
  unfold aj_opts. destruct (replace_first_jumbo 0 os) eqn:E; [eapply replace_first_fix; eauto|apply replace_first_app_none, E].
Qed.

(* ---------------------------------------------------------------- IPv6.SerializeTo twice *)

Ltac simp_l := unfold set_len_next;
  cbn [p_version p_tclass p_flow p_length p_next p_hop p_src p_dst p_hbh p_contents p_payload fst snd].

(* the part of SerializeTo after the hop-by-hop header has been written (ip6.go:192-217) *)
Definition finish (jumbo fx : bool) (pl : list Z) (l2 : ip6) : outcome (list Z) * ip6 :=
  if negb jumbo && (65535 <? n6_len pl) then (Err 17, l2)
  else
    let len' := if fx then (if jumbo then 0 else u16 (n6_len pl)) else p_length l2 in
    let l3 := set_len_next l2 len' (p_next l2) (p_hbh l2) in
    if negb (n6_len (p_src l3) =? 16) then (Err 18, l3)
    else if negb (n6_len (p_dst l3) =? 16) then (Err 18, l3)
    else (Ok (ip6_hdr_bytes l3 ++ pl), l3).

(* finishing again the layer that finishing produced changes nothing *)
Lemma finish_idem jumbo fx pl l2 : finish jumbo fx pl (snd (finish jumbo fx pl l2)) = finish jumbo fx pl l2.
Proof.
  unfold finish. destruct (negb jumbo && (65535 <? n6_len pl)) eqn:E17; [reflexivity|].
  cbv zeta. simp_l.
  destruct (negb (n6_len (p_src l2) =? 16)) eqn:ES; simp_l; rewrite ?ES.
  { destruct fx; [destruct jumbo|]; reflexivity. }
  destruct (negb (n6_len (p_dst l2) =? 16)) eqn:ED; simp_l; rewrite ?ES, ?ED.
  { destruct fx; [destruct jumbo|]; reflexivity. }
  destruct fx; [destruct jumbo|]; reflexivity.
Qed.

(* IPv6.SerializeTo in terms of finish *)
Lemma ip6_wire_finish l payload fx : ip6_wire l payload fx =
  let jumbo := 65535 <? n6_len payload in
  let step1 : outcome ip6 :=
    if jumbo then
      if fx then Ok (add_jumbo l)
      else match p_hbh l with
           | None => Err 15
           | Some h => match get_jumbo h with
                       | Err e => Err e | Panic s => Panic s
                       | Ok (_, false) => Err 16
                       | Ok (_, true) => Ok l
                       end
           end
    else Ok l in
  match step1 with
  | Err e => (Err e, l)
  | Panic s => (Panic s, l)
  | Ok l1 =>
      match p_hbh l1 with
      | None => finish jumbo fx payload l1
      | Some h =>
          let '(r, h') := ext_wire false h payload fx in
          let l2 := set_len_next l1 (p_length l1) 0 (Some h') in
          match r with
          | Ok bytes =>
              if fx && jumbo then
                match set_jumbo_len bytes with
                | Ok bytes' =>
                    let os := match replace_first_jumbo (n6_len bytes) (e_opts h') with
                              | Some os' => os' | None => e_opts h' end in
                    finish jumbo fx bytes' (set_len_next l1 (p_length l1) 0
                       (Some (mkExt (e_next h') (e_hlen h') (e_alen h') os (e_contents h') (e_payload h'))))
                | Err e => (Err e, l2)
                | Panic s => (Panic s, l2)
                end
              else finish jumbo fx bytes l2
          | Err e => (Err e, l2)
          | Panic s => (Panic s, l2)
          end
      end
  end.
Proof.
  unfold ip6_wire, finish. cbv zeta.
  destruct (if 65535 <? n6_len payload then _ else _) as [l1|e|s]; try reflexivity.
  destruct (p_hbh l1) as [h|] eqn:EH; [|cbv zeta; rewrite ?EH; reflexivity].
  destruct (ext_wire false h payload fx) as [[bytes|e|s] h']; try reflexivity.
  destruct (fx && (65535 <? n6_len payload)); [|reflexivity].
  destruct (set_jumbo_len bytes); reflexivity.
Qed.

Lemma ext_wire_shape b h payload fx r h' : ext_wire b h payload fx = (r, h') ->
  exists hl, h' = mkExt (e_next h) hl (e_alen h) (map (fixlen fx) (e_opts h)) (e_contents h) (e_payload h).
Proof.
  unfold ext_wire. destruct (tlvs_ser b fx (e_opts h) 2) as [[segs os'] total] eqn:ES.
  rewrite (tlvs_ser_os _ _ _ _ _ _ _ ES). destruct (negb _); intros [= <- <-]; eexists; reflexivity.
Qed.

Lemma finish_shape jumbo fx pl l2 : exists len, snd (finish jumbo fx pl l2) = set_len_next l2 len (p_next l2) (p_hbh l2).
Proof.
  unfold finish. destruct (negb jumbo && _). { exists (p_length l2). cbn [snd]. unfold set_len_next. symmetry. apply ip6_eta. }
  cbv zeta. destruct (negb _); [eexists; reflexivity|]. destruct (negb _); eexists; reflexivity.
Qed.

Lemma finish_next_hbh jumbo fx pl l2 :
  p_next (snd (finish jumbo fx pl l2)) = p_next l2 /\ p_hbh (snd (finish jumbo fx pl l2)) = p_hbh l2.
Proof. destruct (finish_shape jumbo fx pl l2) as [len ->]. split; reflexivity. Qed.

Lemma renorm x h : p_next x = 0 -> p_hbh x = Some h -> set_len_next x (p_length x) 0 (Some h) = x.
Proof. destruct x; cbn. intros -> ->. reflexivity. Qed.

(* in a jumbogram with FixLengths the length field handed to finish does not matter *)
Lemma finish_jumbo_len pl l2 len : finish true true pl (set_len_next l2 len (p_next l2) (p_hbh l2)) = finish true true pl l2.
Proof. unfold finish. cbn [negb andb]. cbv zeta. simp_l. reflexivity. Qed.

(* the hop-by-hop part of a second SerializeTo, after the first one left header h' and next header 0 *)
Lemma hbh_again jumbo fx payload l2 h r h' : ext_wire false h payload fx = (r, h') ->
  p_next l2 = 0 -> p_hbh l2 = Some h' -> fx && jumbo = false ->
  (match p_hbh l2 with
   | None => finish jumbo fx payload l2
   | Some h0 =>
       let '(r0, h0') := ext_wire false h0 payload fx in
       let l2' := set_len_next l2 (p_length l2) 0 (Some h0') in
       match r0 with
       | Ok bytes => if fx && jumbo then (Err 0, l2') else finish jumbo fx bytes l2'
       | Err e => (Err e, l2')
       | Panic s => (Panic s, l2')
       end
   end) = match r with Ok bytes => finish jumbo fx bytes l2 | Err e => (Err e, l2) | Panic s => (Panic s, l2) end.
Proof.
  intros EW Hn Hh Hfj. rewrite Hh, (ext_wire_idem _ _ _ _ _ _ EW), Hfj. cbv zeta. rewrite (renorm l2 h' Hn Hh).
  destruct r; reflexivity.
Qed.

Lemma get_jumbo_wire b h payload fx r h' : ext_wire b h payload fx = (r, h') -> get_jumbo h' = get_jumbo h.
Proof.
  intros EW. destruct (ext_wire_shape _ _ _ _ _ _ EW) as [hl ->]. apply get_jumbo_td. cbn [e_opts]. apply map_fixlen_td.
Qed.

(* everything but a jumbogram with FixLengths *)
Lemma ip6_wire_idem_plain l payload fx : fx && (65535 <? n6_len payload) = false ->
  ip6_wire (snd (ip6_wire l payload fx)) payload fx = ip6_wire l payload fx.
Proof.
  intros Hfj. remember (ip6_wire l payload fx) as R eqn:HR. rewrite ip6_wire_finish in HR. cbv zeta in HR.
  rewrite (ip6_wire_finish (snd R)). cbv zeta. rewrite Hfj in *.
  set (J := 65535 <? n6_len payload) in *.
  (* step 1 of the first call *)
  assert (S1 : (exists e, R = (e, l) /\ is_panic e = is_panic e /\
                 (if J then if fx then Ok (add_jumbo l) else
                    match p_hbh l with None => Err 15 | Some h => match get_jumbo h with Err e0 => Err e0 | Panic s => Panic s
                      | Ok (_, false) => Err 16 | Ok (_, true) => Ok l end end else Ok l) = (match e with Ok _ => Err 0 | Err e0 => Err e0 | Panic s => Panic s end)
                 /\ (forall b, e <> Ok b)) \/
               ((if J then if fx then Ok (add_jumbo l) else
                    match p_hbh l with None => Err 15 | Some h => match get_jumbo h with Err e0 => Err e0 | Panic s => Panic s
                      | Ok (_, false) => Err 16 | Ok (_, true) => Ok l end end else Ok l) = Ok l)).
  { destruct J eqn:EJ; [|right; reflexivity]. destruct fx; [discriminate Hfj|].
    destruct (p_hbh l) as [h|]; [|left; exists (Err 15); rewrite HR; repeat split; discriminate].
    destruct (get_jumbo h) as [[jl [|]]|e|s]; [right; reflexivity| | |];
      left; eexists; rewrite HR; (split; [reflexivity|]); repeat split; discriminate. }
  destruct S1 as [(e & HRe & _ & Hs1 & Hne)|Hs1].
  { (* the first call stopped in step 1: the layer is unchanged *)
    rewrite HRe. cbn [snd]. rewrite Hs1. destruct e; [exfalso; eapply Hne; reflexivity|reflexivity|reflexivity]. }
  rewrite Hs1 in HR.
  destruct (p_hbh l) as [h|] eqn:EH.
  - destruct (ext_wire false h payload fx) as [r h'] eqn:EW.
    set (l2 := set_len_next l (p_length l) 0 (Some h')) in *.
    assert (HL' : p_next (snd R) = 0 /\ p_hbh (snd R) = Some h').
    { rewrite HR. destruct r; cbn [snd]; try (split; reflexivity). destruct (finish_next_hbh J fx v l2) as [-> ->]. split; reflexivity. }
    destruct HL' as [Hn' Hh'].
    assert (S1' : (if J then if fx then Ok (add_jumbo (snd R)) else
                    match p_hbh (snd R) with None => Err 15 | Some h0 => match get_jumbo h0 with Err e0 => Err e0 | Panic s => Panic s
                      | Ok (_, false) => Err 16 | Ok (_, true) => Ok (snd R) end end else Ok (snd R)) = Ok (snd R)).
    { destruct J; [|reflexivity]. destruct fx; [discriminate Hfj|]. rewrite Hh', (get_jumbo_wire _ _ _ _ _ _ EW).
      destruct (get_jumbo h) as [[jl [|]]|e|s]; try discriminate Hs1. reflexivity. }
    rewrite S1', Hh', (ext_wire_idem _ _ _ _ _ _ EW). rewrite (renorm (snd R) h' Hn' Hh').
    rewrite HR. destruct r; cbn [snd]; try reflexivity. apply finish_idem.
  - assert (EJ : J = false).
    { destruct J; [|reflexivity]. destruct fx; [discriminate Hfj|discriminate Hs1]. }
    rewrite EJ in *. destruct (finish_next_hbh false fx payload l) as [_ Hh']. rewrite <- HR in Hh'. rewrite Hh', EH, HR.
    apply finish_idem.
Qed.

Lemma add_jumbo_eq l : add_jumbo l =
  let h := match p_hbh l with Some h => h | None => mkExt (p_next l) 0 0 [] [] [] end in
  mkIp6 (p_version l) (p_tclass l) (p_flow l) (p_length l) (match p_hbh l with Some _ => p_next l | None => 0 end) (p_hop l)
        (p_src l) (p_dst l)
        (Some (mkExt (e_next h) (e_hlen h) (e_alen h) (aj_opts (e_opts h)) (e_contents h) (e_payload h))) (p_contents l) (p_payload l).
Proof. unfold add_jumbo, aj_opts. destruct (p_hbh l); reflexivity. Qed.

Lemma aj_after os x : (x = map (fixlen true) (aj_opts os) \/
                       replace_first_jumbo 0 x = replace_first_jumbo 0 (map (fixlen true) (aj_opts os)) /\ replace_first_jumbo 0 x <> None) ->
  aj_opts x = map (fixlen true) (aj_opts os).
Proof.
  assert (H0 : replace_first_jumbo 0 (map (fixlen true) (aj_opts os)) = Some (map (fixlen true) (aj_opts os))).
  { rewrite replace_first_map, aj_opts_fix. reflexivity. }
  intros [->|[H _]].
  - change (aj_opts (map (fixlen true) (aj_opts os))) with
      (match replace_first_jumbo 0 (map (fixlen true) (aj_opts os)) with Some os' => os' | None => map (fixlen true) (aj_opts os) ++ [set_jumbo 0 (mkTlv 0 0 0 [] 0 0)] end).
    rewrite H0. reflexivity.
  - change (aj_opts x) with (match replace_first_jumbo 0 x with Some os' => os' | None => x ++ [set_jumbo 0 (mkTlv 0 0 0 [] 0 0)] end).
    rewrite H, H0. reflexivity.
Qed.

Lemma aj_after_rf os L : aj_opts (match replace_first_jumbo L (map (fixlen true) (aj_opts os)) with Some o => o | None => map (fixlen true) (aj_opts os) end)
  = map (fixlen true) (aj_opts os).
Proof.
  destruct (replace_first_jumbo L _) as [x|] eqn:E; apply aj_after; [right|left; reflexivity].
  rewrite (replace_first_twice L 0 _ x E). split; [reflexivity|]. rewrite replace_first_map, aj_opts_fix. discriminate.
Qed.

Lemma ip6_wire_idem_jumbo l payload : (65535 <? n6_len payload) = true ->
  ip6_wire (snd (ip6_wire l payload true)) payload true = ip6_wire l payload true.
Proof.
  intros EJ. remember (ip6_wire l payload true) as R eqn:HR. rewrite ip6_wire_finish in HR. cbv zeta in HR.
  rewrite (ip6_wire_finish (snd R)). cbv zeta. rewrite EJ in *. cbn [andb] in *.
  rewrite add_jumbo_eq in HR. cbv zeta in HR. cbn [p_hbh] in HR.
  set (h0 := match p_hbh l with Some h => h | None => mkExt (p_next l) 0 0 [] [] [] end) in *.
  set (h1 := mkExt (e_next h0) (e_hlen h0) (e_alen h0) (aj_opts (e_opts h0)) (e_contents h0) (e_payload h0)) in *.
  destruct (ext_wire false h1 payload true) as [r h1'] eqn:EW.
  destruct (ext_wire_shape _ _ _ _ _ _ EW) as [hl Hshape]. cbn [h1 e_next e_alen e_opts e_contents e_payload] in Hshape.
  pose proof (ext_wire_idem _ _ _ _ _ _ EW) as EI.
  set (os1 := map (fixlen true) (aj_opts (e_opts h0))) in *.
  (* what the second call's addIPv6JumboOption makes of a layer whose hop-by-hop header is h1' but for the jumbo data *)
  assert (AJ : forall len nh os', aj_opts os' = os1 ->
     add_jumbo (mkIp6 (p_version l) (p_tclass l) (p_flow l) len nh (p_hop l) (p_src l) (p_dst l)
                      (Some (mkExt (e_next h0) hl (e_alen h0) os' (e_contents h0) (e_payload h0))) (p_contents l) (p_payload l))
     = mkIp6 (p_version l) (p_tclass l) (p_flow l) len nh (p_hop l) (p_src l) (p_dst l) (Some h1') (p_contents l) (p_payload l)).
  { intros len nh os' Ho. rewrite add_jumbo_eq. cbv zeta. cbn [p_hbh p_version p_tclass p_flow p_length p_next p_hop p_src p_dst p_contents p_payload
      e_next e_hlen e_alen e_opts e_contents e_payload]. rewrite Ho, Hshape. reflexivity. }
  assert (AJ1 : aj_opts os1 = os1) by (apply aj_after; left; reflexivity).
  assert (AJ2 : forall L, aj_opts (match replace_first_jumbo L os1 with Some o => o | None => os1 end) = os1) by (intros; apply aj_after_rf).
  rewrite Hshape in HR. cbn [e_next e_hlen e_alen e_opts e_contents e_payload] in HR.
  destruct r as [bytes|e|s].
  - destruct (set_jumbo_len bytes) as [bytes'|e|s] eqn:ESJ.
    + set (hq := mkExt (e_next h0) hl (e_alen h0) _ (e_contents h0) (e_payload h0)) in *.
      set (X := set_len_next _ _ 0 (Some hq)) in *.
      destruct (finish_shape true true bytes' X) as [len' Hl']. rewrite <- HR in Hl'. rewrite Hl'.
      assert (A : add_jumbo (set_len_next X len' (p_next X) (p_hbh X)) =
                  mkIp6 (p_version l) (p_tclass l) (p_flow l) len' 0 (p_hop l) (p_src l) (p_dst l) (Some h1') (p_contents l) (p_payload l)).
      { unfold X, hq. simp_l. apply AJ. apply AJ2. }
      rewrite A. cbn [p_hbh]. rewrite EI, ESJ. simp_l. rewrite Hshape. cbn [e_next e_hlen e_alen e_opts e_contents e_payload]. fold hq. rewrite HR.
      change (mkIp6 (p_version l) (p_tclass l) (p_flow l) len' 0 (p_hop l) (p_src l) (p_dst l) (Some hq) (p_contents l) (p_payload l))
        with (set_len_next X len' (p_next X) (p_hbh X)).
      apply finish_jumbo_len.
    + rewrite HR. cbn [snd]. simp_l. rewrite AJ by exact AJ1. cbn [p_hbh]. rewrite EI, ESJ. simp_l. rewrite Hshape. reflexivity.
    + rewrite HR. cbn [snd]. simp_l. rewrite AJ by exact AJ1. cbn [p_hbh]. rewrite EI, ESJ. simp_l. rewrite Hshape. reflexivity.
  - rewrite HR. cbn [snd]. simp_l. rewrite AJ by exact AJ1. cbn [p_hbh]. rewrite EI. simp_l. rewrite Hshape. reflexivity.
  - rewrite HR. cbn [snd]. simp_l. rewrite AJ by exact AJ1. cbn [p_hbh]. rewrite EI. simp_l. rewrite Hshape. reflexivity.
Qed.

Theorem ip6_wire_idem l payload fx : ip6_wire (snd (ip6_wire l payload fx)) payload fx = ip6_wire l payload fx.
Proof.
  destruct (fx && (65535 <? n6_len payload)) eqn:E; [|apply ip6_wire_idem_plain, E].
  apply andb_prop in E as [-> EJ]. apply ip6_wire_idem_jumbo, EJ.
Qed.

(* the layer after SerializeTo is again a value of the Go types *)
Lemma ext_wire_wf b h payload fx : ext_wf h -> ext_wf (snd (ext_wire b h payload fx)).
Proof.
  intros Hw. unfold ext_wire. destruct (tlvs_ser b fx (e_opts h) 2) as [[segs os'] total] eqn:ES.
  destruct (tlvs_ser_spec b fx (e_opts h) 2 segs os' total Hw ltac:(lia) ES) as (_ & _ & Hwf & _).
  destruct (negb _); exact Hwf.
Qed.

Lemma finish_wf jumbo fx pl l2 : ip6_wf l2 -> ip6_wf (snd (finish jumbo fx pl l2)).
Proof. intros H. destruct (finish_shape jumbo fx pl l2) as [len ->]. exact H. Qed.

Lemma ip6_wire_wf l payload fx : ip6_wf l -> ip6_wf (snd (ip6_wire l payload fx)).
Proof.
  intros Hw. rewrite ip6_wire_finish. cbv zeta.
  set (step1 := if 65535 <? n6_len payload then _ else _).
  assert (H1 : forall l1, step1 = Ok l1 -> ip6_wf l1).
  { subst step1. intros l1. destruct (65535 <? n6_len payload); [|intros [= <-]; exact Hw].
    destruct fx; [intros [= <-]; apply add_jumbo_wf, Hw|].
    destruct (p_hbh l); [|discriminate]. destruct (get_jumbo e) as [[? [|]]|?|?]; try discriminate. intros [= <-]. exact Hw. }
  destruct step1 as [l1|e|s]; try exact Hw. specialize (H1 l1 eq_refl).
  destruct (p_hbh l1) as [h|] eqn:EH; [|apply finish_wf, H1].
  assert (Hwh : ext_wf h) by (unfold ip6_wf in H1; rewrite EH in H1; exact H1).
  pose proof (ext_wire_wf false h payload fx Hwh) as Hw'.
  destruct (ext_wire false h payload fx) as [r h']. cbn [snd] in Hw'.
  assert (W2 : ip6_wf (set_len_next l1 (p_length l1) 0 (Some h'))) by exact Hw'.
  destruct r; try exact W2. destruct (fx && _); [|apply finish_wf, W2].
  destruct (set_jumbo_len v); try exact W2. apply finish_wf. unfold ip6_wf, ext_wf. simp_l. cbn [e_opts].
  destruct (replace_first_jumbo _ _) eqn:E; [eapply replace_first_jumbo_wf; eauto|exact Hw'].
Qed.

Lemma ip6_serialize_idem l payload fx cs j1 j2 : ip6_wf l ->
  ip6_serialize (snd (ip6_serialize l payload fx cs j1)) payload fx cs j2 = ip6_serialize l payload fx cs j1.
Proof.
  intros Hw. rewrite (ip6_serialize_closed l) by exact Hw.
  rewrite ip6_serialize_closed by (apply ip6_wire_wf, Hw). apply ip6_wire_idem.
Qed.

(* extension headers alone *)
Lemma ext_serialize_idem l payload fx cs j1 j2 : ext_wf l ->
  ext_serialize (snd (ext_serialize l payload fx cs j1)) payload fx cs j2 = ext_serialize l payload fx cs j1.
Proof.
  intros Hw. unfold ext_serialize.
  pose proof (ext_serialize_gen_closed false l payload fx j1 Hw) as H1.
  destruct (ext_serialize_gen false l payload fx j1) as [[r1 l1] ?]. cbn [snd].
  assert (Hw1 : ext_wf l1) by (pose proof (ext_wire_wf false l payload fx Hw) as P; rewrite <- H1 in P; exact P).
  pose proof (ext_serialize_gen_closed false l1 payload fx j2 Hw1) as H2.
  destruct (ext_serialize_gen false l1 payload fx j2) as [[r2 l2] ?].
  symmetry in H1. rewrite (ext_wire_idem _ _ _ _ _ _ H1) in H2. exact H2.
Qed.
