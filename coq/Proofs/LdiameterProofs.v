(* Lemmas about the Diameter codec model (Model/LdiameterModel.v): decoder. *)
From GP Require Import Base ListX Codec MiscLib LdiameterModel.
From Coq Require Import Lia ZifyBool ZifyNat.
Open Scope Z_scope.
Ltac Zify.zify_post_hook ::= Z.div_mod_to_equations.

Lemma pad4_bounds n : 0 <= n -> n <= pad4 n <= n + 3 /\ pad4 n mod 4 = 0.
Proof. intros H. unfold pad4. destruct (n mod 4 =? 0) eqn:E; lia. Qed.

Lemma zlen_slice' (l : list Z) a b : 0 <= a <= b -> b <= zlen l -> zlen (slice l (Z.to_nat a) (Z.to_nat b)) = b - a.
Proof. intros H1 H2. unfold zlen in *. rewrite slice_length by lia. lia. Qed.

Section Table.
Variable isg : Z -> Z -> bool.


(* unfolding equations of the mutual fixpoint, with the sibling folded *)
Lemma dm_walk_S f data : dm_walk isg (S f) data =
    if zlen data <? 8 then ([], Ok tt) else
    match dm_one isg f data with
    | Ok (a, c) =>
      match cd_slc data c (zlen data) with
      | Ok rest => let '(l, o) := dm_walk isg f rest in (a :: l, o)
      | Err e => ([a], Err e)
      | Panic s => ([a], Panic s)
      end
    | Err e => ([], Err e)
    | Panic s => ([], Panic s)
    end.
Proof. reflexivity. Qed.

Lemma dm_one_S f data : dm_one isg (S f) data =
    let n := zlen data in
    if n <? 8 then Err 1 else
    obind (ml_rd32 data 0) (fun code =>
    obind (cd_idx data 4) (fun fl =>
    obind (cd_idx data 5) (fun l0 => obind (cd_idx data 6) (fun l1 => obind (cd_idx data 7) (fun l2 =>
    let len := (l0 * 256 + l1) * 256 + l2 in
    if len <? 8 then Err 2 else
    let fv := (fl / 128) mod 2 =? 1 in
    if fv && (n <? 12) then Err 3 else
    obind (if fv then ml_rd32 data 8 else Ok 0) (fun vendor =>
    let hs := if fv then 12 else 8 in
    let plen := pad4 len in
    if n <? plen then Err 4 else
    if len <? hs then Err 5 else
    obind (cd_slc data hs (hs + (len - hs))) (fun dat =>
    match (if isg code vendor then let '(sl, so) := dm_walk isg f dat in (Some sl, so) else (None, Ok tt)) with
    | (_, Panic s) => Panic s
    | (sub, Err e) =>
      if e =? 99 then Err 99
      else Ok (mkAvp code fv ((fl / 64) mod 2 =? 1) ((fl / 32) mod 2 =? 1) len vendor dat sub, plen)
    | (sub, Ok _) => Ok (mkAvp code fv ((fl / 64) mod 2 =? 1) ((fl / 32) mod 2 =? 1) len vendor dat sub, plen)
    end))))))).
Proof. reflexivity. Qed.

Definition walk_safe (fuel : nat) : Prop := forall data, bytes_ok data -> zlen data < Z.of_nat fuel ->
  is_panic (snd (dm_walk isg fuel data)) = false /\ snd (dm_walk isg fuel data) <> Err 99.
Definition one_safe (fuel : nat) : Prop := forall data, bytes_ok data -> 8 <= zlen data <= Z.of_nat fuel ->
  match dm_one isg fuel data with
  | Ok (_, c) => 8 <= c <= zlen data
  | Err e => e <> 99
  | Panic _ => False
  end.

Lemma dm_one_step f : walk_safe f -> one_safe (S f).
Proof.
  intros IH data Hb Hn. rewrite dm_one_S. cbv zeta.
  destruct (zlen data <? 8) eqn:C0; [lia|].
  rewrite ml_rd32_ok by lia. rewrite !cd_idx_ok by lia. cbn [obind].
  pose proof (bytes_ok_nth data (Z.to_nat 5) Hb) as B5. pose proof (bytes_ok_nth data (Z.to_nat 6) Hb) as B6.
  pose proof (bytes_ok_nth data (Z.to_nat 7) Hb) as B7.
  set (len := (nth (Z.to_nat 5) data 0 * 256 + nth (Z.to_nat 6) data 0) * 256 + nth (Z.to_nat 7) data 0) in *.
  destruct (len <? 8) eqn:C1; [discriminate|].
  set (fv := (nth (Z.to_nat 4) data 0 / 128) mod 2 =? 1).
  destruct (fv && (zlen data <? 12)) eqn:C2; [discriminate|].
  assert (Hv : exists vendor, (if fv then ml_rd32 data 8 else Ok 0) = Ok vendor).
  { destruct fv; [|eexists; reflexivity]. cbn [andb] in C2. rewrite ml_rd32_ok by lia. eexists; reflexivity. }
  destruct Hv as [vendor Ev]. rewrite Ev. cbn [obind].
  pose proof (pad4_bounds len ltac:(lia)) as [Pb _].
  destruct (zlen data <? pad4 len) eqn:C3; [discriminate|].
  set (hs := if fv then 12 else 8). assert (Hhs : 8 <= hs <= 12) by (unfold hs; destruct fv; lia).
  destruct (len <? hs) eqn:C4; [discriminate|].
  rewrite cd_slc_ok by lia. cbn [obind].
  set (dat := slice data (Z.to_nat hs) (Z.to_nat (hs + (len - hs)))).
  assert (Hdat : zlen dat = len - hs) by (unfold dat; rewrite zlen_slice' by lia; lia).
  destruct (isg _ vendor).
  - assert (Hlt : zlen dat < Z.of_nat f) by lia.
    destruct (IH dat (bytes_ok_slice _ _ _ Hb) Hlt) as [P1 P2].
    destruct (dm_walk isg f dat) as [sl so]. cbn [snd] in *.
    destruct so as [u|e|s]; cbv beta iota; [lia| |discriminate].
    destruct (e =? 99) eqn:E99; [exfalso; apply P2; f_equal; lia|lia].
  - lia.
Qed.

Lemma dm_walk_step f : walk_safe f -> one_safe f -> walk_safe (S f).
Proof.
  intros IHw IHo data Hb Hn. rewrite dm_walk_S.
  destruct (zlen data <? 8) eqn:C0; [cbn [snd]; split; [reflexivity|discriminate]|].
  specialize (IHo data Hb ltac:(lia)).
  destruct (dm_one isg f data) as [[a c]|e|s]; [|cbn [snd]; split; [reflexivity|congruence]|contradiction].
  rewrite cd_slc_ok by lia.
  set (rest := slice data (Z.to_nat c) (Z.to_nat (zlen data))).
  assert (Hr : zlen rest = zlen data - c) by (unfold rest; rewrite zlen_slice' by lia; lia).
  destruct (IHw rest (bytes_ok_slice _ _ _ Hb) ltac:(lia)) as [P1 P2].
  destruct (dm_walk isg f rest) as [l o]. cbn [snd] in *. split; assumption.
Qed.

Lemma dm_safe : forall fuel, walk_safe fuel /\ one_safe fuel.
Proof.
  induction fuel as [|f [IHw IHo]].
  - split; [intros data Hb Hn; pose proof (zlen_nonneg data); lia|intros data Hb Hn; lia].
  - split; [apply dm_walk_step; assumption|apply dm_one_step; assumption].
Qed.

Lemma dm_decode_safe old data : bytes_ok data ->
  is_panic (snd (fst (dm_decode_into isg old data))) = false /\ snd (fst (dm_decode_into isg old data)) <> Err 99.
Proof.
  intros Hb. unfold dm_decode_into. cbv zeta. destruct (zlen data <? 20) eqn:C0; [split; [reflexivity|discriminate]|].
  rewrite !cd_idx_ok by lia. cbn [ml_bind].
  destruct (negb (nth (Z.to_nat 0) data 0 =? 1)); [split; [reflexivity|discriminate]|].
  pose proof (bytes_ok_nth data (Z.to_nat 1) Hb) as B1. pose proof (bytes_ok_nth data (Z.to_nat 2) Hb) as B2.
  pose proof (bytes_ok_nth data (Z.to_nat 3) Hb) as B3.
  set (ml := (nth (Z.to_nat 1) data 0 * 256 + nth (Z.to_nat 2) data 0) * 256 + nth (Z.to_nat 3) data 0) in *.
  destruct (ml <? 20) eqn:C1; [split; [reflexivity|discriminate]|].
  destruct (zlen data <? ml) eqn:C2; [split; [reflexivity|discriminate]|].
  rewrite !ml_rd32_ok by lia. cbn [ml_bind]. rewrite cd_slc_ok by lia. cbn [ml_bind].
  set (avpdata := slice data (Z.to_nat 20) (Z.to_nat ml)).
  destruct (dm_safe (S (length avpdata))) as [W _].
  destruct (W avpdata (bytes_ok_slice _ _ _ Hb) ltac:(unfold zlen; lia)) as [P1 P2].
  destruct (dm_walk isg (S (length avpdata)) avpdata) as [avps o]. cbn [snd] in P1, P2.
  destruct o as [u|e|s]; [| |discriminate].
  - rewrite cd_slc_ok by lia. cbn [ml_bind fst snd]. split; [reflexivity|discriminate].
  - destruct e; try (rewrite cd_slc_ok by lia; cbn [ml_bind fst snd]; split; [reflexivity|discriminate]).
    (* positive e: the pattern Err 99 is a positive match *)
    repeat (match goal with |- context [match ?p with _ => _ end] => destruct p end;
            try (rewrite cd_slc_ok by lia; cbn [ml_bind fst snd]; split; [reflexivity|discriminate])).
    all: try (exfalso; apply P2; reflexivity).
Qed.
End Table.
