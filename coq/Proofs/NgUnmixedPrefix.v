(* Prefix theorem with WantMixedLinkType = false: cuts at block boundaries and inside interface
   description, statistics and decryption secrets blocks. *)
From GP Require Import Base NgModel NgIoProofs NgExec NgRoundtrip NgFile NgPrefix NgPrefixFile NgUnmixed.
From Coq Require Import Lia ZifyBool ZifyNat.
Open Scope Z_scope.

Definition not_packet (op : wop) : Prop := match op with WPacket _ _ _ _ _ _ => False | _ => True end.

Theorem prefix_file_u ro sec i0 ops pre nxt post k :
  ro_mixed ro = false -> sec_ok sec -> ops_ok [] (WAddIf i0 :: ops) -> zlen ops < 4294967290 ->
  ops = pre ++ nxt :: post -> (k < length (enc_op nxt))%nat -> (k = 0%nat \/ not_packet nxt) ->
  let file := write_file sec i0 ops in
  forall F, (fuel_for (zlen file) <= F)%nat ->
  let cut := (length (enc_shb sec) + length (enc_idb i0) + length (enc_ops pre) + k)%nat in
  let r := fst (run_d (session ro F) (firstn cut file)) in
  let e := exp_unmixed (ro_errmis ro) (wi_link i0) [i0] pre in
  fst (fst (fst r)) = 0 /\ snd (fst (fst r)) = fst e
  /\ snd (fst r) = (if snd e =? 3 then 3 else if (k =? 0)%nat then 1 else 2).
Proof.
  intros Hmix Hsec Hok Hb Hsplit Hk Hnp. cbv zeta. intros F HFge.
  destruct (write_file_shape sec i0 ops Hok Hb) as (Hfile & _). rewrite Hfile in *.
  destruct (script_sizes (WAddIf i0 :: ops) [] Hok) as (Sz1 & Sz2).
  cbn [ops_ok app] in Hok. destruct Hok as (Hw & Hok).
  unfold enc_ops in *. cbn [map concat enc_op] in *. fold (enc_ops ops) in *.
  destruct (enc_shb_shape sec Hsec) as (Eshb & HLs). cbv zeta in *.
  assert (28 <= zlen (enc_shb sec)) as Hshb.
  { rewrite Eshb. rewrite !zlen_app, !zlen_le_bytes. change (zlen [10;13;13;10]) with 4. change (zlen [77;60;43;26]) with 4.
    change (zlen shb_fixed) with 12. pose proof (zlen_nonneg (opts_enc (shb_options sec))). lia. }
  assert (Z.of_nat F >= zlen (enc_shb sec) + zlen (enc_idb i0 ++ enc_ops ops) + 2) as HF
    by (unfold fuel_for in HFge; rewrite zlen_app in HFge; pose proof (zlen_nonneg (enc_idb i0 ++ enc_ops ops)); lia).
  pose proof (zlen_nonneg (enc_idb i0 ++ enc_ops ops)) as Hnn. clear HFge.
  assert (zlen (WAddIf i0 :: ops) = zlen ops + 1) as Hsl by (unfold zlen; cbn [length]; lia).
  inversion Sz2 as [|? ? _ Sz2']. subst ops.
  assert (zlen (WAddIf i0 :: pre ++ nxt :: post) = zlen (pre ++ nxt :: post) + 1) as Hsl2 by (unfold zlen; cbn [length]; lia).
  pose proof (zlen_nonneg (pre ++ nxt :: post)) as Hnn2.
  assert (fuel_ok F (pre ++ nxt :: post)) as Hfo.
  { split; [lia|]. eapply Forall_impl; [|exact Sz2']. intros [] Ha; auto. unfold zlen in *. lia. }
  assert (length (pre ++ nxt :: post) < F)%nat as HlF by (clear - Sz1 HF Hsl2 Hnn2 Hshb; unfold zlen in *; lia).
  (* the cut input *)
  rewrite enc_ops_app in *. cbn [enc_ops map concat] in *. fold (enc_ops post) in *. fold (enc_ops pre) in *.
  rewrite firstn_app_split by lia.
  replace (length (enc_shb sec) + length (enc_idb i0) + length (enc_ops pre) + k - length (enc_shb sec))%nat
    with (length (enc_idb i0) + length (enc_ops pre) + k)%nat by lia.
  rewrite firstn_app_split by lia.
  replace (length (enc_idb i0) + length (enc_ops pre) + k - length (enc_idb i0))%nat with (length (enc_ops pre) + k)%nat by lia.
  rewrite firstn_app_split by lia. replace (length (enc_ops pre) + k - length (enc_ops pre))%nat with k by lia.
  rewrite firstn_app_le by lia.
  destruct (ops_ok_app pre [i0] (nxt :: post) Hok) as (Hokpre & Hoknxt).
  destruct Hfo as (HF12 & HFp). apply Forall_app in HFp. destruct HFp as (HFpre & HFnp).
  rewrite app_length in HlF. cbn [length] in HlF.
  unfold session. rewrite run_d_bind.
  match goal with |- context [run_d (newReader ro F init_rst) ?l] => change (run_d (newReader ro F init_rst) l) with (exec (newReader ro F) init_rst l) end.
  destruct (exec_newReader_unmixed ro F sec i0 (enc_ops pre ++ firstn k (enc_op nxt)) Hmix Hsec Hw HF12) as (s0 & E0 & Q1 & Q2 & Q3 & Q4).
  rewrite E0. cbn [snd fst]. rewrite run_d_bind.
  assert (sinvu (wi_link i0) [i0] s0) as Hs0 by (split; [split; [exact Q1|rewrite Q2; reflexivity]|exact Q3]).
  assert (tail_ends_u ro F (wi_link i0) (ws_after [i0] pre) (firstn k (enc_op nxt)) (if (k =? 0)%nat then 1 else 2)) as Htail.
  { destruct k as [|k']; [cbn [firstn Nat.eqb]; apply tail_ends_u_nil|]. cbn [Nat.eqb].
    destruct Hnp as [Hk0|Hnp]; [discriminate|].
    intros s g ((Hbig & Hifs) & Hlk) Hg. destruct g as [|g]; [lia|].
    destruct nxt as [w|ifid ts caplen len data o|ifid st|ty pl]; cbn [ops_ok enc_op not_packet] in *; try contradiction.
    - destruct Hoknxt as (Hw' & _). destruct (trunc_idb ro F g s w (S k') Hbig Hw') as (s' & E); [pose proof (idb_options_len w); lia|lia|eauto].
    - destruct Hoknxt as (Hid & Hid2 & _).
      destruct (nth_iface _ s ifid Hifs Hid) as (i & Ei).
      destruct (sinv_link _ s ifid i Hifs Ei) as (_ & Hm & Hd).
      destruct (trunc_isb ro F g s ifid st i (S k') Hbig ltac:(lia) Ei ltac:(rewrite Hm; unfold E9; lia) ltac:(rewrite Hd; lia) ltac:(lia)) as (s' & E); [lia|eauto].
    - destruct Hoknxt as (_ & Hty & Hpl & _). destruct (trunc_dsb ro F g s ty pl (S k') Hbig Hty Hpl) as (s' & E); [lia|eauto]. }
  assert (length pre < F)%nat as HlFp by lia.
  destruct (read_all_script_u ro F (wi_link i0) _ _ _ Hmix Htail (length pre) pre [i0] s0 [] F
              (le_n _) HlFp HlFp Hs0 Hokpre (conj HF12 HFpre) eq_refl) as (s' & l' & E).
  rewrite E. cbn [fst snd run_d rev app]. repeat split; reflexivity.
Qed.
