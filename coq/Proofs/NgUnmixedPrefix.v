(* Prefix theorem with WantMixedLinkType = false: cuts at block boundaries and inside interface
   description, statistics and decryption secrets blocks. *)
From GP Require Import Base NgModel NgIoProofs NgExec NgRoundtrip NgFile NgPrefix NgPrefixFile NgUnmixed.
From Coq Require Import Lia ZifyBool ZifyNat.
Open Scope Z_scope.

(* a packet block cut short, only the first link type wanted *)
Lemma trunc_epb_u ro F g s ifid ts caplen len data o k :
  ro_mixed ro = false -> r_big s = false -> (length (popts_to_options o) + 2 < F)%nat ->
  wf_packet (r_ifaces s) ifid ts caplen len data o ->
  (0 < k < length (enc_epb ifid ts caplen len data o))%nat ->
  exists s', exec (readPacketG ro F (S g)) s (firstn k (enc_epb ifid ts caplen len data o)) = ((s', Err 2), []).
Proof.
  intros Hmix Hbig HF Hwf Hk.
  pose proof (enc_epb_shape _ _ _ _ _ _ _ Hwf) as (Hshape & HL & _). cbv zeta in *.
  destruct (hdr_epb_x ro F g s ifid ts caplen len data o Hbig Hwf) as (i & s2 & Ei & P1 & P2 & P3 & P4 & P5 & P6 & P7 & P8 & Hshort & Hx).
  cbv zeta in *.
  set (L := zlen (opts_enc (popts_to_options o)) + 32 + zlen data + pad4 (zlen data)) in *.
  set (b20 := le_bytes 4 ifid ++ (le_bytes 4 (u32 (ts / 4294967296)) ++ le_bytes 4 (u32 ts)) ++ le_bytes 4 caplen ++ le_bytes 4 len) in *.
  set (tf := data ++ zeros (pad4 (zlen data)) ++ opts_enc (popts_to_options o) ++ le_bytes 4 L) in *.
  assert (length b20 = 20%nat) as Hb20 by (unfold b20; rewrite !app_length, !le_bytes_length; reflexivity).
  assert (zlen tf = L - 28) as Htf.
  { unfold tf. pose proof (pad4_range (zlen data)). rewrite !zlen_app, zlen_le_bytes, zlen_zeros by lia. subst L. lia. }
  rewrite Hshape in *. rewrite !app_length, !le_bytes_length, Hb20 in Hk. fold tf in Hk.
  destruct (Nat.lt_ge_cases k 8) as [H8|H8].
  - apply rpg_short. rewrite zlen_firstn by (rewrite !app_length, !le_bytes_length; lia). lia.
  - rewrite (app_assoc (le_bytes 4 6)). rewrite firstn_app_split by (rewrite app_length, !le_bytes_length; lia).
    rewrite app_length, !le_bytes_length. rewrite <- app_assoc. cbn [Nat.add].
    destruct (Nat.lt_ge_cases k 28) as [H28|H28].
    + destruct (Hshort (firstn (k - 8) (b20 ++ tf))) as (s' & E).
      { unfold zlen. rewrite firstn_length. lia. }
      exists s'. unfold readPacketG. rewrite exec_bind, E. reflexivity.
    + rewrite firstn_app_split by lia. rewrite Hb20. replace (k - 8 - 20)%nat with (k - 28)%nat by lia.
      unfold readPacketG. rewrite exec_bind, Hx, Hmix.
      destruct (negb (if_link i =? r_link s)) eqn:El.
      * rewrite exec_disc_short by (unfold zlen in *; rewrite firstn_length; lia). eauto.
      * (* wanted: the rest of the read is cut *)
        destruct (exec_epb_gen ro F g s ifid ts caplen len data o []) as (sf & i' & _ & Efull & _); auto.
        { right. split; [exact Hmix|]. intros j Ej. rewrite Ej in Ei. inversion Ei; subst j.
          destruct (if_link i =? r_link s) eqn:E2; [lia|discriminate]. }
        rewrite app_nil_r in Efull. rewrite Hshape in Efull. repeat rewrite <- app_assoc in Efull. fold b20 in Efull.
        unfold readPacketG in Efull. rewrite exec_bind in Efull.
        change (data ++ zeros (pad4 (zlen data)) ++ opts_enc (popts_to_options o) ++ le_bytes 4 L) with tf in Efull.
        rewrite Hx, Hmix in Efull. cbv iota in Efull.
        eapply trunc_all; [apply eof2_rp_tail|exact Efull|]. unfold zlen in Htf. lia.
Qed.

Definition not_packet (op : wop) : Prop := match op with WPacket _ _ _ _ _ _ => False | _ => True end.

Theorem prefix_file_u ro sec i0 ops pre nxt post k :
  ro_mixed ro = false -> sec_ok sec -> ops_ok [] (WAddIf i0 :: ops) -> zlen ops < 4294967290 ->
  ops = pre ++ nxt :: post -> (k < length (enc_op nxt))%nat ->
  let file := write_file sec i0 ops in
  forall F, (fuel_for (zlen file) <= F)%nat ->
  let cut := (length (enc_shb sec) + length (enc_idb i0) + length (enc_ops pre) + k)%nat in
  let r := fst (run_d (session ro F) (firstn cut file)) in
  let e := exp_unmixed (ro_errmis ro) (wi_link i0) [i0] pre in
  fst (fst (fst r)) = 0 /\ snd (fst (fst r)) = fst e
  /\ snd (fst r) = (if snd e =? 3 then 3 else if (k =? 0)%nat then 1 else 2).
Proof.
  intros Hmix Hsec Hok Hb Hsplit Hk. cbv zeta. intros F HFge.
  destruct (write_file_shape sec i0 ops Hok Hb) as (Hfile & _). rewrite Hfile in *.
  destruct (script_sizes (WAddIf i0 :: ops) [] Hok) as (Sz1 & Sz2).
  cbn [ops_ok app] in Hok. destruct Hok as (Hw & Hok).
  unfold enc_ops in *. cbn [map concat enc_op] in *. fold (enc_ops ops) in *.
  destruct (enc_shb_shape sec Hsec) as (Eshb & HLs). cbv zeta in *.
  assert (28 <= zlen (enc_shb sec)) as Hshb.
  { rewrite Eshb. rewrite !zlen_app, !zlen_le_bytes. change (zlen [10;13;13;10]) with 4. change (zlen [77;60;43;26]) with 4.
    change (zlen shb_fixed) with 12. pose proof (zlen_nonneg (opts_enc (shb_options sec))). lia. }
  assert (Z.of_nat F >= zlen (enc_shb sec) + zlen (enc_idb i0 ++ enc_ops ops) + 2) as HF
    by (unfold fuel_for in HFge; rewrite zlen_app in HFge; pose proof (zlen_nonneg (enc_idb i0 ++ enc_ops ops)); lia).
  pose proof (zlen_nonneg (enc_idb i0 ++ enc_ops ops)) as Hnn. clear HFge.
  assert (zlen (WAddIf i0 :: ops) = zlen ops + 1) as Hsl by (unfold zlen; cbn [length]; lia).
  inversion Sz2 as [|? ? _ Sz2']. subst ops.
  assert (zlen (WAddIf i0 :: pre ++ nxt :: post) = zlen (pre ++ nxt :: post) + 1) as Hsl2 by (unfold zlen; cbn [length]; lia).
  pose proof (zlen_nonneg (pre ++ nxt :: post)) as Hnn2.
  assert (fuel_ok F (pre ++ nxt :: post)) as Hfo.
  { split; [lia|]. eapply Forall_impl; [|exact Sz2']. intros [] Ha; auto. unfold zlen in *. lia. }
  assert (length (pre ++ nxt :: post) < F)%nat as HlF by (clear - Sz1 HF Hsl2 Hnn2 Hshb; unfold zlen in *; lia).
  (* the cut input *)
  rewrite enc_ops_app in *. cbn [enc_ops map concat] in *. fold (enc_ops post) in *. fold (enc_ops pre) in *.
  rewrite firstn_app_split by lia.
  replace (length (enc_shb sec) + length (enc_idb i0) + length (enc_ops pre) + k - length (enc_shb sec))%nat
    with (length (enc_idb i0) + length (enc_ops pre) + k)%nat by lia.
  rewrite firstn_app_split by lia.
  replace (length (enc_idb i0) + length (enc_ops pre) + k - length (enc_idb i0))%nat with (length (enc_ops pre) + k)%nat by lia.
  rewrite firstn_app_split by lia. replace (length (enc_ops pre) + k - length (enc_ops pre))%nat with k by lia.
  rewrite firstn_app_le by lia.
  destruct (ops_ok_app pre [i0] (nxt :: post) Hok) as (Hokpre & Hoknxt).
  destruct Hfo as (HF12 & HFp). apply Forall_app in HFp. destruct HFp as (HFpre & HFnp).
  rewrite app_length in HlF. cbn [length] in HlF.
  unfold session. rewrite run_d_bind.
  match goal with |- context [run_d (newReader ro F init_rst) ?l] => change (run_d (newReader ro F init_rst) l) with (exec (newReader ro F) init_rst l) end.
  destruct (exec_newReader_unmixed ro F sec i0 (enc_ops pre ++ firstn k (enc_op nxt)) Hmix Hsec Hw HF12) as (s0 & E0 & Q1 & Q2 & Q3 & Q4).
  rewrite E0. cbn [snd fst]. rewrite run_d_bind.
  assert (sinvu (wi_link i0) [i0] s0) as Hs0 by (split; [split; [exact Q1|rewrite Q2; reflexivity]|exact Q3]).
  assert (tail_ends_u ro F (wi_link i0) (ws_after [i0] pre) (firstn k (enc_op nxt)) (if (k =? 0)%nat then 1 else 2)) as Htail.
  { destruct k as [|k']; [cbn [firstn Nat.eqb]; apply tail_ends_u_nil|]. cbn [Nat.eqb].
    intros s g ((Hbig & Hifs) & Hlk) Hg. destruct g as [|g]; [lia|].
    inversion HFnp as [|? ? HFn _]; subst.
    destruct nxt as [w|ifid ts caplen len data o|ifid st|ty pl]; cbn [ops_ok enc_op] in *.
    - destruct Hoknxt as (Hw' & _). destruct (trunc_idb ro F g s w (S k') Hbig Hw') as (s' & E); [pose proof (idb_options_len w); lia|lia|eauto].
    - destruct Hoknxt as (Hwf & _). rewrite <- Hifs in Hwf. apply wf_packet_clear in Hwf.
      destruct (trunc_epb_u ro F g s ifid ts caplen len data o (S k') Hmix Hbig HFn Hwf) as (s' & E); [lia|eauto].
    - destruct Hoknxt as (Hid & Hid2 & _).
      destruct (nth_iface _ s ifid Hifs Hid) as (i & Ei).
      destruct (sinv_link _ s ifid i Hifs Ei) as (_ & Hm & Hd).
      destruct (trunc_isb ro F g s ifid st i (S k') Hbig ltac:(lia) Ei ltac:(rewrite Hm; unfold E9; lia) ltac:(rewrite Hd; lia) ltac:(lia)) as (s' & E); [lia|eauto].
    - destruct Hoknxt as (_ & Hty & Hpl & _). destruct (trunc_dsb ro F g s ty pl (S k') Hbig Hty Hpl) as (s' & E); [lia|eauto]. }
  assert (length pre < F)%nat as HlFp by lia.
  destruct (read_all_script_u ro F (wi_link i0) _ _ _ Hmix Htail (length pre) pre [i0] s0 [] F
              (le_n _) HlFp HlFp Hs0 Hokpre (conj HF12 HFpre) eq_refl) as (s' & l' & E).
  rewrite E. cbn [fst snd run_d rev app]. repeat split; reflexivity.
Qed.
