(* C09: the half-connection machine on segment histories that start with the SYN, with no page
   limit, no KeepFrom and no flush: the bytes handed to the stream are S in order, exactly once.
   Uses the case lemmas of C09Proofs.v with the window base w0 separated from the lower bound
   w of the queue (the queue lies strictly beyond the delivery point). *)
From GP Require Import Base C09Model C09Spec C09Seq C09Proofs.
From Coq Require Import Lia ZifyBool ZifyNat.
Ltac Zify.zify_post_hook ::= Z.div_mod_to_equations.
Open Scope Z_scope.

Ltac ex4 o := exists o; split; [|split; [|split]].

(* ---------------------------------------------------------------- the cursor loop, general form *)
Lemma co_loop_gen : forall S i w0 w hi s e,
  w0 <= w -> w0 <= s -> s <= e -> e <= hi -> hi <= HI w0 -> 0 <= s -> e <= zlen S ->
  forall left right bytes rel tags m,
  w <= m -> rok S i w m left -> qok S i m hi right ->
  (bytes = [] \/ (bytes = sub S s (e - s) /\ e <= m)) ->
  let r := co_loop fixedv (sq i s) (sq i e) left right bytes rel tags in
  co_panic r = false /\
  exists m1 m2, m1 <= m2 /\ w <= m2 /\ rok S i w m1 (co_left r) /\ qok S i m2 hi (co_right r) /\
    (co_bytes r = [] \/ (co_bytes r = sub S s (e - s) /\ m1 <= s /\ e <= m2)).
Proof.
  intros S i w0 w hi s e Hw0 Hs Hse He Hhi Hs0 HeS.
  induction left as [|cur rest IH]; intros right bytes rel tags m Hwm Hl Hr Hb r.
  - subst r. cbn [co_loop co_panic co_left co_right co_bytes]. split; [reflexivity|].
    pose proof (qok_bounds _ _ _ _ _ Hr).
    exists (Z.min s m), m. split; [lia|]. split; [lia|]. split; [exact I|]. split; [assumption|].
    destruct Hb as [Hb|[Hb Hm]]; [left; assumption|right; repeat split; try assumption; lia].
  - cbn [rok] in Hl. destruct Hl as (cs & Hcs & Hce & Hcur & Hrest).
    pose proof (qok_bounds _ _ _ _ _ Hr) as Hmhi.
    assert (Hs' : w0 <= s) by lia.
    assert (Hcs' : w0 <= cs) by lia.
    assert (Hce' : cs + plen cur <= w0 + (HALFW - 1)) by (unfold HI in *; lia).
    assert (He' : e <= w0 + (HALFW - 1)) by (unfold HI in *; lia).
    assert (Hbz : zlen bytes = e - s \/ bytes = []).
    { destruct Hb as [Hb|[Hb _]]; [right; assumption|left]. subst bytes. apply zlen_sub; lia. }
    assert (Hbs : bytes = sub S s (e - s) \/ bytes = []) by (destruct Hb as [Hb|[Hb _]]; auto).
    assert (Hex := co_cases_exhaustive S i s e cs cur Hcur).
    pose proof Hcur as Hcur'. destruct Hcur' as (Hc0 & Hcl & HcS & Hcq & Hcb).
    destruct Hex as [C5|[C1|[C3|[C2|[C4|[C6|C0]]]]]].
    + subst r. rewrite (co_case5 S i w0 s e cs cur) by (try assumption; lia).
      apply (IH (cur :: right) bytes rel (5 :: tags) cs); try assumption; try lia.
      * cbn [qok]. ex4 cs; try lia; try assumption. eapply qok_weaken; eauto; lia.
      * destruct Hb as [Hb|[Hb Hm]]; [left; assumption|right; split; [assumption|lia]].
    + subst r. rewrite (co_case1 S i w0 s e cs cur) by (try assumption; lia).
      cbn [co_panic co_left co_right co_bytes]. split; [reflexivity|].
      destruct Hb as [Hb|[Hb Hm]].
      * exists m, m. split; [lia|]. split; [lia|]. split; [|split; [assumption|left; assumption]].
        cbn [rok]. ex4 cs; try lia; assumption.
      * exists s, m. split; [lia|]. split; [lia|]. split; [|split; [assumption|]].
        -- cbn [rok]. ex4 cs; try lia; assumption.
        -- right. repeat split; try assumption; lia.
    + subst r. rewrite (co_case3 S i w0 s e cs cur) by (try assumption; lia).
      apply (IH right bytes (rel + 1) (3 :: tags) m); try assumption; try lia.
      eapply rok_weaken; eauto; lia.
    + subst r. rewrite (co_case2 S i w0 s e cs cur) by (try assumption; lia).
      cbn [co_panic co_left co_right co_bytes]. split; [reflexivity|].
      assert (Hp2' : pg S i cs (set_bytes cur (ztake (s - cs) (pbytes cur)))) by (apply case2_page; try assumption; lia).
      assert (Hl2 : plen (set_bytes cur (ztake (s - cs) (pbytes cur))) = s - cs).
      { unfold plen, set_bytes. cbn [pbytes]. apply zlen_ztake. unfold plen in *. lia. }
      destruct Hb as [Hb|[Hb Hm]].
      * exists m, m. split; [lia|]. split; [lia|]. split; [|split; [assumption|left; assumption]].
        cbn [rok]. rewrite Hl2. ex4 cs; try lia; assumption.
      * exists s, m. split; [lia|]. split; [lia|]. split; [|split; [assumption|]].
        -- cbn [rok]. rewrite Hl2. ex4 cs; try lia; assumption.
        -- right. repeat split; try assumption; lia.
    + subst r. rewrite (co_case4 S i w0 s e cs cur) by (try assumption; lia).
      assert (H4 := case4_page S i e cs cur).
      destruct H4 as (Hp4 & Hl4); try assumption; try lia.
      apply (IH _ bytes rel (4 :: tags) e); try assumption; try lia.
      * eapply rok_weaken; eauto; lia.
      * cbn [qok]. ex4 e; try rewrite Hl4; try lia; try assumption.
        eapply qok_weaken; eauto; lia.
      * destruct Hb as [Hb|[Hb Hm]]; [left; assumption|right; split; [assumption|lia]].
    + subst r. rewrite (co_case6 S i w0 s e cs cur) by (try assumption; lia).
      rewrite (case6_same S i s e cs cur) by (try assumption; lia).
      rewrite set_bytes_same.
      apply (IH (cur :: right) [] rel (6 :: tags) cs); try assumption; try lia.
      * cbn [qok]. ex4 cs; try lia; try assumption. eapply qok_weaken; eauto; lia.
      * left; reflexivity.
    + subst r. rewrite (co_case0 S i w0 s e cs cur) by (try assumption; lia).
      apply (IH (cur :: right) bytes rel tags cs); try assumption; try lia.
      * cbn [qok]. ex4 cs; try lia; try assumption. eapply qok_weaken; eauto; lia.
      * destruct Hb as [Hb|[Hb Hm]]; [left; assumption|right; split; [assumption|lia]].
Qed.

(* when every page lies strictly beyond the start of the new segment, case 6 cannot occur and
   the bytes of the live packet are left alone *)
Lemma co_loop_keeps_bytes : forall S i w0 w hi s e,
  w0 <= w -> w0 <= s -> s <= e -> e <= hi -> hi <= HI w0 -> s < w ->
  forall left right bytes rel tags m,
  m <= hi -> rok S i w m left ->
  co_bytes (co_loop fixedv (sq i s) (sq i e) left right bytes rel tags) = bytes.
Proof.
  intros S i w0 w hi s e Hw0 Hs Hse He Hhi Hsw.
  induction left as [|cur rest IH]; intros right bytes rel tags m Hm Hl.
  - reflexivity.
  - cbn [rok] in Hl. destruct Hl as (cs & Hcs & Hce & Hcur & Hrest).
    assert (Hcs' : w0 <= cs) by lia.
    assert (Hce' : cs + plen cur <= w0 + (HALFW - 1)) by (unfold HI in *; lia).
    assert (He' : e <= w0 + (HALFW - 1)) by (unfold HI in *; lia).
    assert (Hex := co_cases_exhaustive S i s e cs cur Hcur).
    pose proof Hcur as Hcur'. destruct Hcur' as (Hc0 & Hcl & HcS & Hcq & Hcb).
    destruct Hex as [C5|[C1|[C3|[C2|[C4|[C6|C0]]]]]].
    + rewrite (co_case5 S i w0 s e cs cur) by (try assumption; lia). apply (IH _ _ _ _ cs); [lia|assumption].
    + rewrite (co_case1 S i w0 s e cs cur) by (try assumption; lia). reflexivity.
    + rewrite (co_case3 S i w0 s e cs cur) by (try assumption; lia). apply (IH _ _ _ _ cs); [lia|assumption].
    + lia.
    + rewrite (co_case4 S i w0 s e cs cur) by (try assumption; lia). apply (IH _ _ _ _ cs); [lia|assumption].
    + lia.
    + rewrite (co_case0 S i w0 s e cs cur) by (try assumption; lia). apply (IH _ _ _ _ cs); [lia|assumption].
Qed.

(* a reversed part whose pages start at or after w cannot end at or before s < w *)
Lemma rok_empty : forall S i w m l, rok S i w m l -> m < w + 1 -> l = [].
Proof.
  intros S i w m l H Hm. destruct l as [|p t]; [reflexivity|].
  cbn [rok] in H. destruct H as (o & H1 & H2 & (_ & H3 & _) & _). lia.
Qed.

(* ---------------------------------------------------------------- checkOverlap, both modes *)
Lemma check_overlap_queue : forall S i w0 w hi q s n ts fl,
  qok S i w hi q -> w0 <= w -> w <= s -> 0 <= s -> 0 <= n -> s + n <= hi -> hi <= HI w0 -> s + n <= zlen S ->
  let r := check_overlap fixedv q (sub S s n) (sq i s) ts fl true in
  c2_panic r = false /\ qok S i w hi (c2_queue r).
Proof.
  intros S i w0 w hi q s n ts fl Hq Hw0 Hws Hs Hn Hhi Hhi0 HS r. subst r. unfold check_overlap.
  rewrite zlen_sub by lia. rewrite sadd_sq.
  pose proof (qok_bounds _ _ _ _ _ Hq) as Hb.
  assert (Hinv := co_loop_gen S i w0 w hi s (s + n) Hw0 ltac:(lia) ltac:(lia) Hhi Hhi0 Hs HS (rev q) [] (sub S s n) 0 [] hi).
  replace (s + n - s) with n in Hinv by lia.
  destruct Hinv as (Hp & m1 & m2 & H12 & Hw2 & Hl & Hr & Hby).
  - lia.
  - apply unzip_ok. assumption.
  - cbn [qok]. lia.
  - right. split; [reflexivity|lia].
  - rewrite Hp.
    destruct ((0 <? zlen (co_bytes (co_loop fixedv (sq i s) (sq i (s + n)) (rev q) [] (sub S s n) 0 []))) && true) eqn:E.
    + cbn [c2_panic c2_queue]. split; [reflexivity|].
      destruct Hby as [Hby|(Hby & Hm1 & Hm2)].
      * rewrite Hby in E. cbn in E. discriminate.
      * rewrite Hby in *. rewrite zlen_sub in E by lia.
        eapply (zip_ok S i _ _ w m1 s hi); try lia; try assumption.
        eapply qok_app; [apply to_pages_ok; lia|].
        eapply qok_weaken; eauto; lia.
    + cbn [c2_panic c2_queue]. split; [reflexivity|].
      eapply (zip_ok S i _ _ w m1 m2 hi); try lia; assumption.
Qed.

(* in-order mode: the new segment starts at the delivery point pos, the queue lies beyond it;
   afterwards the queue lies beyond the end of the new segment as well *)
Lemma check_overlap_inorder : forall S i w0 hi q pos n ts fl,
  qok S i (pos + 1) hi q -> w0 <= pos -> 0 <= pos -> 0 <= n -> pos + n <= hi -> hi <= HI w0 -> pos + n <= zlen S ->
  let r := check_overlap fixedv q (sub S pos n) (sq i pos) ts fl false in
  c2_panic r = false /\ c2_bytes r = sub S pos n /\ c2_added r = 0 /\
  qok S i (Z.max (pos + n) (pos + 1)) hi (c2_queue r).
Proof.
  intros S i w0 hi q pos n ts fl Hq Hw0 Hp0 Hn Hhi Hhi0 HS r. subst r. unfold check_overlap.
  rewrite zlen_sub by lia. rewrite sadd_sq.
  pose proof (qok_bounds _ _ _ _ _ Hq) as Hb.
  assert (Hinv := co_loop_gen S i w0 (pos + 1) hi pos (pos + n) ltac:(lia) Hw0 ltac:(lia) Hhi Hhi0 Hp0 HS (rev q) [] (sub S pos n) 0 [] hi).
  replace (pos + n - pos) with n in Hinv by lia.
  assert (Hkeep := co_loop_keeps_bytes S i w0 (pos + 1) hi pos (pos + n) ltac:(lia) Hw0 ltac:(lia) Hhi Hhi0 ltac:(lia)
                     (rev q) [] (sub S pos n) 0 [] hi ltac:(lia)).
  destruct Hinv as (Hp & m1 & m2 & H12 & Hw2 & Hl & Hr & Hby).
  - lia.
  - apply unzip_ok. assumption.
  - cbn [qok]. lia.
  - right. split; [reflexivity|lia].
  - rewrite Hkeep in * by (apply unzip_ok; assumption).
    rewrite Hp. rewrite andb_false_r. cbn [c2_panic c2_bytes c2_added c2_queue].
    split; [reflexivity|]. split; [reflexivity|]. split; [reflexivity|].
    destruct (Z.eq_dec n 0) as [Hn0|Hn0].
    + subst n. replace (Z.max (pos + 0) (pos + 1)) with (pos + 1) by lia.
      eapply (zip_ok S i _ _ (pos + 1) m1 m2 hi); try lia; assumption.
    + destruct Hby as [Hby|(Hby & Hm1 & Hm2)].
      * assert (Hz : zlen (sub S pos n) = n) by (apply zlen_sub; lia). rewrite Hby in Hz. cbn in Hz. lia.
      * assert (Hnil : co_left (co_loop fixedv (sq i pos) (sq i (pos + n)) (rev q) [] (sub S pos n) 0 []) = []).
        { eapply rok_empty; eauto. lia. }
        rewrite Hnil. cbn [rev app].
        eapply qok_weaken; eauto; lia.
Qed.

(* ---------------------------------------------------------------- addContiguous *)
Definition pages_bytes (l : list page) : list Z := concat (map pbytes l).

Lemma pages_bytes_cons : forall p t, pages_bytes (p :: t) = pbytes p ++ pages_bytes t.
Proof. reflexivity. Qed.

Lemma contig_loop_ok : forall S i w0 hi q e lo,
  qok S i lo hi q -> e <= lo -> w0 <= e -> 0 <= e -> hi <= HI w0 -> zlen S < hi -> e <= zlen S ->
  exists e' tk q1, contig_loop fixedv q (sq i e) = (tk, q1, sq i e') /\ e <= e' /\ e' <= zlen S /\
    pages_bytes tk = sub S e (e' - e) /\ qok S i (e' + 1) hi q1 /\ (tk = [] -> e' = e) /\ (q = [] -> tk = []).
Proof.
  intros S i w0 hi. induction q as [|p t IH]; intros e lo Hq Hlo Hw0 He0 Hhi HSh HeS.
  - exists e, [], []. cbn [contig_loop qok]. split; [reflexivity|]. split; [lia|]. split; [lia|].
    split; [replace (e - e) with 0 by lia; reflexivity|]. split; [lia|]. split; intros _; reflexivity.
  - cbn [qok] in Hq. destruct Hq as (o & Ho & Hoe & Hpg & Ht).
    pose proof Hpg as (Hp0 & Hpl & HpS & Hpq & Hpb).
    cbn [contig_loop]. unfold diffv. cbn [v_diff fixedv]. rewrite Hpq.
    rewrite diff_sq by (unfold HI, HALFW in *; lia).
    destruct (o - e =? 0) eqn:E.
    + assert (o = e) by lia. subst o.
      change (zlen (pbytes p)) with (plen p). rewrite sadd_sq.
      destruct (IH (e + plen p) (e + plen p)) as (e' & tk & q1 & Heq & H1 & H2 & H3 & H4 & H5 & _); try lia; try assumption.
      rewrite Heq. exists e', (p :: tk), q1. split; [reflexivity|]. split; [lia|]. split; [lia|].
      split; [|split; [assumption|split; intros; discriminate]].
      rewrite pages_bytes_cons, H3, Hpb.
      replace (e' - e) with (plen p + (e' - (e + plen p))) by lia.
      apply sub_app; lia.
    + exists e, [], (p :: t). split; [reflexivity|]. split; [lia|]. split; [lia|].
      split; [replace (e - e) with 0 by lia; reflexivity|]. split; [|split; [intros _; reflexivity|intros; discriminate]].
      cbn [qok]. ex4 o; try lia; assumption.
Qed.

Lemma add_contiguous_sq : forall q i e, add_contiguous fixedv q (sq i e) = contig_loop fixedv q (sq i e).
Proof.
  intros. destruct q as [|p t]; [reflexivity|]. unfold add_contiguous. rewrite sq_not_invalid. reflexivity.
Qed.

Lemma cbytes_pages : forall l, concat (map cbytes (map CPage l)) = pages_bytes l.
Proof. induction l as [|p t IH]; [reflexivity|]. cbn [map concat cbytes]. rewrite IH. reflexivity. Qed.

Lemma count_pages_pages : forall l, count_pages (map CPage l) = zlen l.
Proof.
  unfold count_pages. induction l as [|p t IH]; [reflexivity|].
  cbn [map filter is_page]. unfold zlen in *. cbn [length]. lia.
Qed.

(* ---------------------------------------------------------------- sendToConnection for the live packet *)
Definition cfg0 : cfg := mkCfg 0 0 [].

(* from here on: any assembler options c, for a stream that never calls KeepFrom *)
Section Cfg.
Variable c : cfg.
Hypothesis Hk : c_keep c = [].

Lemma send_inorder : forall S i w0 hi h used pos n st en ts sid nc,
  h_saved h = [] -> h_next h = sq i pos ->
  qok S i (Z.max (pos + n) (pos + 1)) hi (h_queue h) ->
  w0 <= pos -> 0 <= pos -> 0 <= n -> pos + n <= zlen S -> zlen S < hi -> hi <= HI w0 ->
  exists e' tk q1,
    pos + n <= e' /\ e' <= zlen S /\ qok S i (e' + 1) hi q1 /\ (tk = [] -> e' = pos + n) /\
    (h_queue h = [] -> tk = []) /\
    send fixedv c h used (CLive (mkLive (sub S pos n) (sq i pos) st en ts)) sid nc =
    mkSres (mkHalf (h_pages h - zlen tk) [] q1 (h_next h) (h_seen h) (h_closed h))
           (used - 0 - zlen tk + 0) (sq i e')
           (last_end (CLive (mkLive (sub S pos n) (sq i pos) st en ts) :: map CPage tk))
           [ESG sid (sub S pos (e' - pos)) st
                (last_end (CLive (mkLive (sub S pos n) (sq i pos) st en ts) :: map CPage tk)) 0 (e' - pos) 0]
           false.
Proof.
  intros S i w0 hi h used pos n st en ts sid nc Hsv Hnx Hq Hw0 Hp0 Hn HS HSh Hhi.
  destruct (contig_loop_ok S i w0 hi (h_queue h) (pos + n) (Z.max (pos + n) (pos + 1)))
    as (e' & tk & q1 & Heq & H1 & H2 & H3 & H4 & H5 & H6); try lia; try assumption.
  exists e', tk, q1. split; [lia|]. split; [lia|]. split; [assumption|]. split; [assumption|]. split; [assumption|].
  unfold send. rewrite Hsv, Hnx. rewrite sq_not_invalid.
  unfold clen. cbn [cseq lseq cbytes lbytes add_pending].
  rewrite zlen_sub by lia. rewrite sadd_sq. rewrite add_contiguous_sq. rewrite Heq.
  unfold diffv. cbn [v_diff fixedv]. rewrite diff_sq by (unfold HALFW; lia).
  replace (pos - pos) with 0 by lia.
  cbn [map app concat cbytes lbytes].
  rewrite cbytes_pages, H3.
  rewrite sub_app by lia. replace (n + (e' - (pos + n))) with (e' - pos) by lia.
  rewrite zlen_sub by lia.
  unfold keep_choice. rewrite Hk.
  replace (-1 <? 0) with true by reflexivity.
  rewrite firstn_all, skipn_all. cbn [keep_conv].
  replace (count_pages (CLive (mkLive (sub S pos n) (sq i pos) st en ts) :: map CPage tk)) with (zlen tk)
    by (unfold count_pages; cbn [filter is_page]; fold (count_pages (map CPage tk)); rewrite count_pages_pages; reflexivity).
  cbn [first_start cstart lstart].
  replace (0 >? 0) with false by reflexivity. cbn [app].
  reflexivity.
Qed.

(* ---------------------------------------------------------------- the machine invariant *)
Definition HIS : Z := HALFW - 1.      (* window [0, 2^30 - 1]: streams shorter than 2^30 - 1 *)

Record inv (S : list Z) (i pos : Z) (st : st) : Prop := mkInv {
  i_exists : s_exists st = true;
  i_cfg : s_cfg st = c;
  i_rev : s_rev_closed st = false;
  i_saved : h_saved (s_half st) = [];
  i_open : h_closed (s_half st) = false ->
           h_next (s_half st) = sq i pos /\ qok S i (pos + 1) HIS (h_queue (s_half st));
  i_pos : 0 <= pos <= zlen S
}.

Definition ev_new (ev : list event) : list Z :=
  concat (map (fun e => match e with ESG _ b _ _ _ _ sv => zskip sv b | _ => [] end) ev).

Definition ev_clean1 (e : event) : Prop :=
  match e with
  | ESG _ _ _ _ skip _ saved => skip = 0 /\ saved = 0
  | EPanic _ => False
  | EDone _ => False
  | _ => True
  end.
Definition ev_clean (ev : list event) : Prop := Forall ev_clean1 ev.

Lemma ev_new_app : forall a b, ev_new (a ++ b) = ev_new a ++ ev_new b.
Proof. intros. unfold ev_new. rewrite map_app, concat_app. reflexivity. Qed.

Lemma ev_new_tags : forall l, ev_new (map ETag l) = [].
Proof. induction l as [|x t IH]; [reflexivity|]. cbn [map]. unfold ev_new in *. cbn [map concat app]. exact IH. Qed.

Lemma ev_clean_tags : forall l, ev_clean (map ETag l).
Proof. induction l as [|x t IH]; constructor; [exact I|exact IH]. Qed.

Lemma ev_clean_app : forall a b, ev_clean a -> ev_clean b -> ev_clean (a ++ b).
Proof. intros. apply Forall_app; split; assumption. Qed.

Lemma qok_beyond_end : forall S i lo hi q, qok S i lo hi q -> zlen S <= lo -> q = [].
Proof.
  intros S i lo hi q H Hlo. destruct q as [|p t]; [reflexivity|].
  cbn [qok] in H. destruct H as (o & H1 & H2 & (_ & H3 & H4 & _) & _). lia.
Qed.

Lemma HIS_HI : HIS <= HI 0.
Proof. unfold HIS, HI. lia. Qed.

(* a segment beyond the delivery point is queued: no event, the invariant stays *)
Lemma assemble_queue : forall S i pos st o n fin rst ts,
  c_mpc c <= 0 /\ c_mt c <= 0 ->
  zlen S < HIS -> inv S i pos st -> h_closed (s_half st) = false ->
  pos < o -> 0 <= n -> o + n <= zlen S ->
  exists st' ev, assemble fixedv st (mkSeg (sq i o) false fin rst false ts (sub S o n)) = (st', ev, false) /\
    s_rev_seen st' = s_rev_seen st /\ inv S i pos st' /\ ev_new ev = [] /\ ev_clean ev.
Proof.
  intros S i pos st o n fin rst ts Hnl HS Hinv Hopen Ho Hn HoS.
  destruct Hinv as [Hex Hcfg Hrev Hsv Hop Hpos]. destruct (Hop Hopen) as (Hnx & Hq).
  destruct st as [c0 ex h rc rs used sid nc]. cbn [s_exists s_cfg s_rev_closed s_half] in *. subst c0 ex rc.
  destruct h as [pg_ sv q nx seen cl]. cbn [h_saved h_closed h_next h_queue] in *. subst sv cl nx.
  unfold assemble. cbn [s_exists s_half s_cfg s_used s_sid s_ncalls s_rev_closed s_rev_seen
                        h_pages h_saved h_queue h_next h_seen h_closed
                        g_seq g_syn g_fin g_rst g_force g_ts g_bytes].
  rewrite sq_not_invalid. cbn [v_syn fixedv andb].
  unfold diffv. cbn [v_diff fixedv].
  rewrite diff_sq by (unfold HIS, HALFW in *; lia).
  replace (o - pos >? 0) with true by lia.
  cbn [set_next h_pages h_saved h_queue h_next h_seen h_closed].
  set (r := check_overlap fixedv q (sub S o n) (sq i o) ts (rst || fin) true).
  destruct (check_overlap_queue S i 0 (pos + 1) HIS q o n ts (rst || fin)) as (Hp & Hq');
    try lia; try assumption; try apply HIS_HI.
  fold r in Hp, Hq'. rewrite Hp.
  unfold limit_hit. replace (0 <? c_mpc c) with false by lia. replace (0 <? c_mt c) with false by lia. cbn [andb orb].
  eexists. eexists. split; [reflexivity|]. split; [reflexivity|]. split; [|split].
  - constructor; cbn [s_exists s_cfg s_rev_closed s_half h_saved h_closed h_next h_queue]; try reflexivity; try lia.
    intros _. split; [reflexivity|assumption].
  - cbn [app]. apply ev_new_tags.
  - cbn [app]. apply ev_clean_tags.
Qed.

Lemma trimmed_eq : forall (S : list Z) (o n pos : Z), 0 <= o -> 0 <= n -> o <= pos ->
  let k := Z.min (pos - o) n in
  sub S (o + k) (n - k) = sub S pos (Z.max pos (o + n) - pos).
Proof.
  intros S o n pos Ho Hn Hle k. subst k.
  destruct (Z.le_gt_cases (pos - o) n).
  - replace (Z.min (pos - o) n) with (pos - o) by lia. f_equal; lia.
  - replace (Z.min (pos - o) n) with n by lia.
    replace (n - n) with 0 by lia. replace (Z.max pos (o + n) - pos) with 0 by lia. reflexivity.
Qed.

Lemma ev_new_if_tag : forall (b : bool) t, ev_new (if b then [ETag t] else []) = [].
Proof. intros. destruct b; reflexivity. Qed.
Lemma ev_clean_if_tag : forall (b : bool) t, ev_clean (if b then [ETag t] else []).
Proof. intros. destruct b; [constructor; [exact I|constructor]|constructor]. Qed.

(* a segment at or before the delivery point: its new suffix and whatever became contiguous
   are handed over in one ScatterGather with skip 0 *)
Lemma assemble_inorder : forall S i pos st sqv (syn : bool) o n fin rst ts,
  zlen S < HIS -> inv S i pos st -> h_closed (s_half st) = false ->
  (if syn then sadd sqv 1 else sqv) = sq i o ->
  0 <= o -> o <= pos -> 0 <= n -> o + n <= zlen S -> (fin = true -> o + n = zlen S) ->
  exists st' ev pos', assemble fixedv st (mkSeg sqv syn fin rst false ts (sub S o n)) = (st', ev, false) /\
    s_rev_seen st' = s_rev_seen st /\
    pos <= pos' /\ inv S i pos' st' /\ ev_new ev = sub S pos (pos' - pos) /\ ev_clean ev.
Proof.
  intros S i pos st sqv syn o n fin rst ts HS Hinv Hopen Hseq Ho Hop Hn HoS Hfin.
  destruct Hinv as [Hex Hcfg Hrev Hsv Hopn Hpos]. destruct (Hopn Hopen) as (Hnx & Hq).
  destruct st as [c0 ex h rc rs used sid nc]. cbn [s_exists s_cfg s_rev_closed s_half] in *. subst c0 ex rc.
  destruct h as [pg_ sv q nx seen cl]. cbn [h_saved h_closed h_next h_queue] in *. subst sv cl nx.
  unfold assemble. cbn [s_exists s_half s_cfg s_used s_sid s_ncalls s_rev_closed s_rev_seen
                        h_pages h_saved h_queue h_next h_seen h_closed
                        g_seq g_syn g_fin g_rst g_force g_ts g_bytes].
  rewrite sq_not_invalid. cbn [v_syn fixedv andb]. rewrite Hseq.
  unfold diffv. cbn [v_diff fixedv].
  rewrite diff_sq by (unfold HIS, HALFW in *; lia).
  replace (o - pos >? 0) with false by lia.
  cbn [set_next h_pages h_saved h_queue h_next h_seen h_closed].
  rewrite inorder_path by (unfold HIS, HALFW in *; lia).
  rewrite trimmed_eq by lia.
  set (n' := Z.max pos (o + n) - pos).
  set (r := check_overlap fixedv q (sub S pos n') (sq i pos) ts (rst || fin) false).
  destruct (check_overlap_inorder S i 0 HIS q pos n' ts (rst || fin)) as (Hp & Hb & Ha & Hq');
    try lia; try assumption; try apply HIS_HI.
  fold r in Hp, Hb, Ha, Hq'. rewrite Hp, Hb.
  assert (Hn' : 0 <= n') by (subst n'; lia).
  assert (HnS : pos + n' <= zlen S) by (subst n'; lia).
  rewrite (zlen_sub S pos n') by lia.
  destruct ((0 <? n') || (rst || fin) || syn) eqn:Esend.
  - unfold send_st. cbn [s_cfg s_sid s_ncalls s_exists s_rev_closed s_rev_seen].
    destruct (send_inorder S i 0 HIS
                (mkHalf (pg_ - c2_rel r) [] (c2_queue r) (sq i pos) (if seen <? ts then ts else seen) false)
                (used - c2_rel r) pos n' syn (rst || fin) ts sid nc)
      as (e' & tk & q1 & He1 & He2 & Hq1 & Htk & Htk0 & Heq);
      cbn [h_saved h_next h_queue]; try reflexivity; try lia; try assumption; try apply HIS_HI.
    rewrite Heq. cbn [sr_panic sr_end sr_half sr_used sr_next sr_ev h_pages h_saved h_queue h_next h_seen h_closed].
    destruct (last_end (CLive (mkLive (sub S pos n') (sq i pos) syn (rst || fin) ts) :: map CPage tk)) eqn:Eend.
    + (* the last container carried End: the half is closed *)
      unfold close_c2s. cbn [s_half s_rev_closed s_cfg s_exists s_rev_seen s_used s_sid s_ncalls
                            h_pages h_saved h_queue h_next h_seen h_closed].
      rewrite sq_not_invalid.
      eexists. eexists. exists e'. split; [reflexivity|]. split; [reflexivity|]. split; [lia|]. split; [|split].
      * constructor; cbn [s_exists s_cfg s_rev_closed s_half set_half set_next h_saved h_closed h_next h_queue];
          try reflexivity; try lia; try (intros Hc; discriminate).
      * cbn [app]. rewrite !ev_new_app, ev_new_tags, ev_new_if_tag. cbn [app].
        unfold ev_new. cbn [map concat]. rewrite zskip_0. rewrite app_nil_r. reflexivity.
      * cbn [app]. repeat apply ev_clean_app; try apply ev_clean_tags; try apply ev_clean_if_tag.
        constructor; [split; reflexivity|constructor].
    + rewrite sq_not_invalid.
      assert (Hfin0 : fin = false).
      { destruct fin; [|reflexivity]. exfalso.
        assert (Hend : pos + n' = zlen S) by (subst n'; specialize (Hfin eq_refl); lia).
        assert (Hqe : c2_queue r = []) by (eapply qok_beyond_end; [exact Hq'|lia]).
        rewrite (Htk0 Hqe) in Eend. cbn in Eend. rewrite orb_true_r in Eend. discriminate. }
      subst fin.
      eexists. eexists. exists e'. split; [reflexivity|]. split; [reflexivity|]. split; [lia|]. split; [|split].
      * constructor; cbn [s_exists s_cfg s_rev_closed s_half set_half set_next h_saved h_closed h_next h_queue];
          try reflexivity; try lia. intros _. split; [reflexivity|assumption].
      * cbn [app]. rewrite !ev_new_app, ev_new_tags, ev_new_if_tag. cbn [app].
        unfold ev_new. cbn [map concat]. rewrite zskip_0. rewrite app_nil_r. reflexivity.
      * cbn [app]. repeat apply ev_clean_app; try apply ev_clean_tags; try apply ev_clean_if_tag.
        constructor; [split; reflexivity|constructor].
  - (* nothing new and no flag: nothing is sent *)
    assert (n' = 0) by lia.
    eexists. eexists. exists pos. split; [reflexivity|]. split; [reflexivity|]. split; [lia|]. split; [|split].
    + constructor; cbn [s_exists s_cfg s_rev_closed s_half h_saved h_closed h_next h_queue]; try reflexivity; try lia.
      intros _. split; [reflexivity|]. eapply qok_weaken; eauto; lia.
    + cbn [app]. rewrite ev_new_app, ev_new_tags, ev_new_if_tag. replace (pos - pos) with 0 by lia. reflexivity.
    + cbn [app]. apply ev_clean_app; [apply ev_clean_tags|apply ev_clean_if_tag].
Qed.

(* a closed half ignores the segment *)
Lemma assemble_closed : forall S i pos st g,
  inv S i pos st -> h_closed (s_half st) = true ->
  exists st', assemble fixedv st g = (st', [], false) /\ s_rev_seen st' = s_rev_seen st /\ inv S i pos st'.
Proof.
  intros S i pos st g Hinv Hcl.
  destruct Hinv as [Hex Hcfg Hrev Hsv Hopn Hpos].
  destruct st as [c0 ex h rc rs used sid nc]. cbn [s_exists s_cfg s_rev_closed s_half] in *. subst c0 ex rc.
  destruct h as [pg_ sv q nx seen cl]. cbn [h_saved h_closed h_next h_queue] in *. subst sv cl.
  unfold assemble. cbn [s_exists s_half h_pages h_saved h_queue h_next h_seen h_closed].
  eexists. split; [reflexivity|]. split; [reflexivity|].
  constructor; cbn [s_exists s_cfg s_rev_closed s_half set_half h_saved h_closed h_next h_queue];
    try reflexivity; try lia; try (intros Hc; discriminate).
Qed.

Lemma ev_new_cons_new : forall sid l, ev_new (ENew sid :: l) = ev_new l.
Proof. reflexivity. Qed.

Lemma syn_seq : forall i, sadd (i mod M32) 1 = sq i 0.
Proof. intros. unfold sadd, sq, M32. lia. Qed.

(* the first packet of the connection is the SYN: the stream is created and the payload of the
   SYN (if any) is handed over with Start *)
Lemma assemble_first_syn : forall S i n ts,
  zlen S < HIS -> 0 <= n <= zlen S ->
  exists st' ev, assemble fixedv (mkSt c false (new_half 0) false 0 0 0 0)
                          (mkSeg (i mod M32) true false false false ts (sub S 0 n)) = (st', ev, false) /\
    s_rev_seen st' = ts /\ inv S i n st' /\ ev_new ev = sub S 0 n /\ ev_clean ev.
Proof.
  intros S i n ts HS Hn.
  unfold assemble. cbn [s_exists s_half s_cfg s_used s_sid s_ncalls s_rev_closed s_rev_seen new_half
                        h_pages h_saved h_queue h_next h_seen h_closed
                        g_seq g_syn g_fin g_rst g_force g_ts g_bytes].
  replace (INVALID =? INVALID) with true by reflexivity. cbn [andb orb].
  rewrite syn_seq.
  cbn [set_next h_pages h_saved h_queue h_next h_seen h_closed].
  unfold overlap_existing. rewrite sq_not_invalid. unfold diffv. cbn [v_diff fixedv].
  rewrite diff_sq by (unfold HALFW; lia). replace (0 - 0 =? 0) with true by reflexivity.
  unfold check_overlap. cbn [rev co_loop co_panic co_bytes co_left co_right co_rel co_tags app].
  rewrite andb_false_r. cbn [c2_panic c2_tags c2_bytes c2_rel c2_queue map app].
  rewrite orb_true_r.
  unfold send_st. cbn [s_cfg s_sid s_ncalls s_exists s_rev_closed s_rev_seen].
  destruct (send_inorder S i 0 HIS
              (mkHalf (0 - 0) [] [] (sq i 0) (if ts <? ts then ts else ts) false)
              (0 - 0) 0 n true false ts 1%nat 0%nat)
    as (e' & tk & q1 & He1 & He2 & Hq1 & Htk & Htk0 & Heq);
    cbn [h_saved h_next h_queue qok]; try reflexivity; try apply HIS_HI.
  all: try (unfold HIS, HALFW in *; lia).
  rewrite Heq.
  rewrite (Htk0 eq_refl) in *. specialize (Htk eq_refl). subst e'.
  cbn [sr_panic sr_end sr_half sr_used sr_next sr_ev h_pages h_saved h_queue h_next h_seen h_closed
       map last_end rev app cend lend orb].
  rewrite sq_not_invalid.
  eexists. eexists. split; [reflexivity|]. split; [reflexivity|]. split; [|split].
  - constructor; cbn [s_exists s_cfg s_rev_closed s_half set_half set_next h_saved h_closed h_next h_queue];
      try reflexivity; try lia. intros _. split; [reflexivity|]. replace (n + 1) with (0 + n + 1) by lia. assumption.
  - cbn [app]. rewrite ev_new_cons_new, ev_new_app, ev_new_if_tag. cbn [app].
    unfold ev_new. cbn [map concat]. rewrite zskip_0, app_nil_r. f_equal. lia.
  - cbn [app]. constructor; [exact I|]. apply ev_clean_app; [apply ev_clean_if_tag|].
    constructor; [split; reflexivity|constructor].
Qed.

(* ---------------------------------------------------------------- histories *)
Definition seg_hop (h : hop) : bool := match h with HSyn _ _ | HData _ _ _ _ _ => true | _ => false end.

Lemma step_hop : forall S i pos st h,
  c_mpc c <= 0 /\ c_mt c <= 0 ->
  zlen S < HIS -> inv S i pos st -> seg_hop h = true -> hop_okb S h = true ->
  exists st' ev pos', step fixedv st (op_of S i h) = (st', ev, false) /\
    s_rev_seen st' = s_rev_seen st /\
    pos <= pos' /\ inv S i pos' st' /\ ev_new ev = sub S pos (pos' - pos) /\ ev_clean ev.
Proof.
  intros S i pos st h Hnl HS Hinv Hseg Hok.
  destruct (h_closed (s_half st)) eqn:Hcl.
  - (* closed *)
    destruct h as [| |n ts|o n fin rst ts| |]; try discriminate; cbn [op_of step].
    + destruct (assemble_closed S i pos st (mkSeg (i mod M32) true false false false ts (sub S 0 n)) Hinv Hcl) as (st' & He & Hr & Hi).
      exists st', [], pos. split; [exact He|]. split; [exact Hr|]. split; [lia|]. split; [exact Hi|].
      split; [replace (pos - pos) with 0 by lia; reflexivity|constructor].
    + destruct (assemble_closed S i pos st (mkSeg (sq i o) false fin rst false ts (sub S o n)) Hinv Hcl) as (st' & He & Hr & Hi).
      exists st', [], pos. split; [exact He|]. split; [exact Hr|]. split; [lia|]. split; [exact Hi|].
      split; [replace (pos - pos) with 0 by lia; reflexivity|constructor].
  - destruct h as [| |n ts|o n fin rst ts| |]; try discriminate; cbn [op_of step hop_okb] in *.
    + (* a SYN when the start is already known: its payload lies at offset 0 *)
      pose proof (i_pos _ _ _ _ Hinv).
      apply (assemble_inorder S i pos st (i mod M32) true 0 n false false ts); try assumption; try lia;
        try apply syn_seq; try (intros; discriminate).
    + destruct (Z.le_gt_cases o pos) as [Hle|Hgt].
      * apply (assemble_inorder S i pos st (sq i o) false o n fin rst ts); try assumption; try lia;
          try reflexivity.
        intros Hf. subst fin. cbn [negb orb] in Hok. lia.
      * destruct (assemble_queue S i pos st o n fin rst ts Hnl) as (st' & ev & He & Hr & Hi & Hn & Hc); try assumption; try lia.
        exists st', ev, pos. split; [exact He|]. split; [exact Hr|]. split; [lia|]. split; [exact Hi|].
        split; [rewrite Hn; replace (pos - pos) with 0 by lia; reflexivity|exact Hc].
Qed.

Lemma sub_app3 : forall S a b c, 0 <= a -> a <= b -> b <= c ->
  sub S a (b - a) ++ sub S b (c - b) = sub S a (c - a).
Proof.
  intros. replace b with (a + (b - a)) at 2 by lia. rewrite sub_app by lia. f_equal. lia.
Qed.

Lemma delivered_cons : forall ev u tr, delivered ((ev, u) :: tr) = ev_new ev ++ delivered tr.
Proof.
  intros. unfold delivered, ev_new. cbn [map concat fst]. rewrite map_app, concat_app. reflexivity.
Qed.

Lemma run_hops : forall S i hs pos st,
  c_mpc c <= 0 /\ c_mt c <= 0 ->
  zlen S < HIS -> inv S i pos st -> forallb seg_hop hs = true -> forallb (hop_okb S) hs = true ->
  exists pos', pos <= pos' /\ pos' <= zlen S /\
    let tr := run_trace fixedv st (map (op_of S i) hs) in
    length tr = length hs /\ delivered tr = sub S pos (pos' - pos) /\ Forall (fun x => ev_clean (fst x)) tr.
Proof.
  intros S i. induction hs as [|h t IH]; intros pos st Hnl HS Hinv Hseg Hok.
  - exists pos. pose proof (i_pos _ _ _ _ Hinv). split; [lia|]. split; [lia|]. cbn [map run_trace length].
    split; [reflexivity|]. split; [replace (pos - pos) with 0 by lia; reflexivity|constructor].
  - cbn [forallb] in Hseg, Hok. apply andb_prop in Hseg. apply andb_prop in Hok.
    destruct Hseg as (Hs1 & Hs2). destruct Hok as (Ho1 & Ho2).
    destruct (step_hop S i pos st h Hnl HS Hinv Hs1 Ho1) as (st' & ev & pos1 & He & _ & Hp & Hi & Hn & Hc).
    destruct (IH pos1 st' Hnl HS Hi Hs2 Ho2) as (pos' & Hp1 & Hp2 & Hl & Hd & Hcl).
    exists pos'. split; [lia|]. split; [lia|]. cbn [map run_trace]. rewrite He.
    cbn [length]. split; [rewrite Hl; reflexivity|]. split.
    + rewrite delivered_cons, Hn, Hd. pose proof (i_pos _ _ _ _ Hinv).
      apply sub_app3; lia.
    + constructor; [exact Hc|exact Hcl].
Qed.

End Cfg.

(* C09_stream_partial: a connection whose first packet is the SYN, any ISN, any order of
   consistent data segments, duplicates, overlapping retransmissions, repeated SYNs, FIN/RST;
   no page limit, no KeepFrom, no flush.  The bytes handed to the stream as new data are
   S[0, pos) — in order, nothing duplicated, reordered, altered or invented —, every
   ScatterGather has skip 0 and no saved bytes, there is no panic and no premature completion. *)
Theorem stream_partial : forall S i n0 ts0 hs,
  zlen S < HIS -> 0 <= n0 <= zlen S ->
  forallb seg_hop hs = true -> forallb (hop_okb S) hs = true ->
  let tr := run_hist fixedv S i (HSyn n0 ts0 :: hs) in
  length tr = length (HSyn n0 ts0 :: hs) /\
  exists pos, n0 <= pos <= zlen S /\ delivered tr = sub S 0 pos /\ Forall (fun x => ev_clean (fst x)) tr.
Proof.
  intros S i n0 ts0 hs HS Hn0 Hseg Hok tr. subst tr. unfold run_hist. cbn [map op_of run_trace step].
  destruct (assemble_first_syn cfg0 eq_refl S i n0 ts0 HS Hn0) as (st' & ev & He & _ & Hi & Hn & Hc).
  change init with (mkSt cfg0 false (new_half 0) false 0 0 0 0). rewrite He.
  destruct (run_hops cfg0 eq_refl S i hs n0 st' ltac:(cbn; lia) HS Hi Hseg Hok) as (pos' & Hp1 & Hp2 & Hl & Hd & Hcl).
  cbn [length]. split; [rewrite Hl; reflexivity|].
  exists pos'. split; [lia|]. split.
  - rewrite delivered_cons, Hn, Hd.
    replace (sub S 0 n0) with (sub S 0 (n0 - 0)) by (f_equal; lia).
    replace pos' with (pos' - 0) at 2 by lia. apply sub_app3; lia.
  - constructor; [exact Hc|exact Hcl].
Qed.
