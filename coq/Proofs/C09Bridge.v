(* C09: from the Prop-level reading of a run (gtrace, C09Full.v) to the executable statement
   trace_okb of Model/C09Spec.v: the oracle state is simulated by the abstract state. *)
From GP Require Import Base C09Model C09Spec C09Seq C09Proofs C09Stream C09Flush C09Keep C09Send C09Cover C09NoNew C09Full.
From Coq Require Import Lia ZifyBool ZifyNat.
Ltac Zify.zify_post_hook ::= Z.div_mod_to_equations.
Open Scope Z_scope.

Lemma list_eqb_refl : forall l, list_eqb l l = true.
Proof.
  intros. unfold list_eqb. rewrite Z.eqb_refl. cbn [andb].
  induction l as [|x t IH]; [reflexivity|]. cbn [combine forallb fst snd]. rewrite Z.eqb_refl. exact IH.
Qed.

(* a stream that is gone: either its start was never seen, or it was ended by FIN/RST, or it
   received nothing, or everything it received was delivered *)
Definition dead_fine (o : ost) : Prop :=
  o_known o = false \/ o_ended o = true \/ o_recv o = [] \/ o_pos o = Z.max (max_recv (o_recv o)) (o_start o).

Definition sim (S : list Z) (c : cfg) (nc : nat) (g : gst) (R : list (Z * Z)) (o : ost) : Prop :=
  o_cfg o = c /\ o_ncalls o = nc /\
  match g with
  | GDead => o_live o = false /\ dead_fine o
  | GLive kn en =>
    o_live o = true /\ o_ended o = en /\ (en = false -> o_recv o = R) /\
    match kn with
    | None => o_known o = false /\ o_prev o = None
    | Some (A, p) => o_known o = true /\ o_pos o = p /\ o_start o <= p /\ 0 <= A /\ A <= p /\
                     match o_prev o with None => A = p | Some K => K = sub S A (p - A) end
    end
  end.

(* ---------------------------------------------------------------- noting a segment *)
Definition hop_off (h : hop) : Z := match h with HData o _ _ _ _ => o | _ => 0 end.
Definition hop_len (h : hop) : Z := match h with HSyn n _ => n | HData _ n _ _ _ => n | _ => 0 end.

Lemma rstep_seg : forall g R h, is_seg h = true ->
  rstep g R h = rnote (gnote (glive g) (syn_of h)) (rbase g R) (hop_off h) (hop_len h).
Proof. intros g R h Hs. destruct h; try discriminate; reflexivity. Qed.

Lemma sim_note : forall S c nc kn en R o h,
  is_seg h = true -> sim S c nc (GLive kn en) R o ->
  sim S c nc (gnote (GLive kn en) (syn_of h)) (rnote (gnote (GLive kn en) (syn_of h)) R (hop_off h) (hop_len h)) (note_seg o h).
Proof.
  intros S c nc kn en R o h Hseg Hsim.
  destruct o as [lv kw ps sta rc ed pv ncl cf]. unfold sim in Hsim.
  cbn [o_cfg o_ncalls o_live o_ended o_recv o_known o_pos o_start o_prev] in Hsim.
  destruct Hsim as (Hc & Hn & Hl & He & Hr & Hk). subst cf ncl lv ed.
  unfold note_seg. cbn [o_cfg o_ncalls o_live o_ended o_recv o_known o_pos o_start o_prev negb orb].
  destruct en.
  - replace (gnote (GLive kn true) (syn_of h)) with (GLive kn true) by (destruct kn as [(?, ?)|]; reflexivity).
    cbn [rnote]. unfold sim. cbn [o_cfg o_ncalls o_live o_ended o_recv o_known o_pos o_start o_prev]. auto 10.
  - specialize (Hr eq_refl). subst rc.
    assert (Hh : (match h with HSyn n _ => (0, n, true) | HData o0 n _ _ _ => (o0, n, false) | _ => (0, 0, false) end)
                 = (hop_off h, hop_len h, syn_of h)) by (destruct h; try discriminate; reflexivity).
    rewrite Hh. set (off := hop_off h). set (n := hop_len h).
    destruct kn as [(A, p)|].
    + destruct Hk as (K1 & K2 & K3 & K4 & K5 & K6). subst kw ps. cbn [negb andb orb].
      replace (gnote (GLive (Some (A, p)) false) (syn_of h)) with (GLive (Some (A, p)) false) by reflexivity.
      cbn [rnote o_cfg o_ncalls o_live o_ended o_recv o_known o_pos o_start o_prev negb orb].
      destruct ((0 <? n) && (p <? off + n)) eqn:E;
        unfold sim; cbn [o_cfg o_ncalls o_live o_ended o_recv o_known o_pos o_start o_prev]; auto 12.
    + destruct Hk as (K1 & K2). subst kw pv. cbn [negb andb].
      destruct (syn_of h) eqn:Esyn.
      * cbn [gnote rnote o_cfg o_ncalls o_live o_ended o_recv o_known o_pos o_start o_prev negb orb].
        destruct ((0 <? n) && (0 <? off + n)) eqn:E;
          unfold sim; cbn [o_cfg o_ncalls o_live o_ended o_recv o_known o_pos o_start o_prev];
          (split; [reflexivity|]; split; [reflexivity|]; split; [reflexivity|]; split; [reflexivity|]; split; [intros _; reflexivity|];
           split; [reflexivity|]; split; [reflexivity|]; split; [lia|]; split; [lia|]; split; [lia|reflexivity]).
      * cbn [gnote rnote o_cfg o_ncalls o_live o_ended o_recv o_known o_pos o_start o_prev negb orb].
        rewrite andb_true_r.
        destruct (0 <? n) eqn:E;
          unfold sim; cbn [o_cfg o_ncalls o_live o_ended o_recv o_known o_pos o_start o_prev]; auto 12.
Qed.

(* ---------------------------------------------------------------- one event *)
Lemma sim_event : forall S R c h syn nc g e g' o,
  gev R S c (allow_of c h) syn nc g e g' -> not_new e = true -> sim S c nc g R o ->
  exists o', check_event S h o e = (o', true) /\ sim S c (if is_sg e then Datatypes.S nc else nc) g' R o'.
Proof.
  intros S R c h syn nc g e g' o Hg Hnn Hsim.
  destruct o as [lv kw ps sta rc ed pv ncl cf]. unfold sim in Hsim.
  cbn [o_cfg o_ncalls o_live o_ended o_recv o_known o_pos o_start o_prev] in Hsim.
  destruct Hsim as (Hc & Hn & Hm). subst cf ncl.
  destruct e as [sid|sid b st en skip avail saved|sid|site|t]; cbn [gev] in Hg; try discriminate.
  - (* ReassembledSG *)
    destruct Hg as (kn & a & e' & Hgl & Ha0 & Hae & HeS & Hkn & Hskip & Hsaved & Havail & Hb & Hg').
    subst g. destruct Hm as (Hl & He & Hr & Hk). subst lv ed. specialize (Hr eq_refl). subst rc.
    cbn [is_sg check_event o_cfg o_ncalls o_live o_ended o_recv o_known o_pos o_start o_prev negb andb].
    set (A' := sg_start kn a) in *.
    assert (HA' : 0 <= A' <= a).
    { subst A'. destruct kn as [(A, p)|]; cbn [sg_start]; [destruct (a =? p) eqn:E; lia|lia]. }
    assert (Hzb : zlen b = e' - A') by (rewrite Hb; apply zlen_sub; lia).
    assert (Hnewb : zskip saved b = sub S a (e' - a)).
    { rewrite Hb, Hsaved. rewrite zskip_sub by lia. f_equal; lia. }
    assert (Hzn : zlen (zskip saved b) = e' - a) by (rewrite Hnewb; apply zlen_sub; lia).
    rewrite Hzn, Hnewb.
    replace ((0 <=? saved) && (saved <=? avail) && (avail =? zlen b)) with true by lia.
    set (k := keep_choice c nc avail saved) in *.
    set (Anew := if (0 <=? k) && (k <? avail) then A' + k else e') in *.
    assert (Hprev : (if (0 <=? k) && (k <? avail) then zskip k b else []) = sub S Anew (e' - Anew)).
    { subst Anew. destruct ((0 <=? k) && (k <? avail)) eqn:E.
      - rewrite Hb. rewrite zskip_sub by lia. f_equal; lia.
      - replace (e' - e') with 0 by lia. reflexivity. }
    assert (HAn : 0 <= Anew <= e') by (subst Anew; destruct ((0 <=? k) && (k <? avail)) eqn:E; lia).
    subst g'.
    destruct kn as [(A, p)|].
    + destruct Hk as (K1 & K2 & K3 & K4 & K5 & K6). subst kw ps.
      destruct Hkn as (_ & _ & Hpa & Hal & Hhit). cbn [sg_skip sg_start] in *.
      replace (skip =? -1) with false by lia. replace (skip <? 0) with false by lia.
      cbn [andb]. replace (p + skip) with a by lia.
      assert (Hokskip : (skip =? 0) || (negb (is_seg h) || limits_on c) && negb (hits R p a) = true).
      { destruct (Z.eq_dec a p) as [E|E]; [replace (skip =? 0) with true by lia; reflexivity|].
        replace (skip =? 0) with false by lia. cbn [orb].
        destruct Hal as [Hal|Hal]; [lia|]. unfold allow_of in Hal. rewrite Hal.
        rewrite (Hhit ltac:(lia)). reflexivity. }
      rewrite Hokskip.
      assert (Hokkept : match pv with
                        | Some K => if skip =? 0 then list_eqb (ztake saved b) K else (saved =? 0) || list_eqb (ztake saved b) K
                        | None => saved =? 0
                        end = true).
      { destruct (Z.eq_dec a p) as [E|E].
        - subst a. subst A'. rewrite Z.eqb_refl in *. replace (skip =? 0) with true by lia.
          destruct pv as [K|].
          + subst K. rewrite Hb, Hsaved. rewrite ztake_sub by lia. apply list_eqb_refl.
          + lia.
        - assert (A' = a) by (subst A'; replace (a =? p) with false by lia; reflexivity).
          replace (skip =? 0) with false by lia. replace (saved =? 0) with true by lia.
          destruct pv; reflexivity. }
      rewrite Hokkept.
      replace ((0 <=? a) && (a + (e' - a) <=? zlen S)) with true by lia.
      rewrite list_eqb_refl. cbn [andb].
      eexists. split; [reflexivity|].
      unfold sim. cbn [o_cfg o_ncalls o_live o_ended o_recv o_known o_pos o_start o_prev].
      split; [reflexivity|]. split; [reflexivity|]. split; [reflexivity|]. split; [reflexivity|].
      split; [intros _; reflexivity|]. split; [reflexivity|]. split; [lia|]. split; [lia|]. split; [lia|]. split; [lia|].
      exact Hprev.
    + destruct Hk as (K1 & K2). subst kw pv. cbn [sg_skip sg_start] in *. subst skip.
      replace (-1 =? -1) with true by reflexivity. cbn [negb andb].
      assert (A' = a) by reflexivity.
      rewrite <- Hkn. replace (saved =? 0) with true by lia.
      replace ((0 <=? a) && (a + (e' - a) <=? zlen S)) with true by lia.
      rewrite list_eqb_refl. cbn [andb].
      eexists. split; [reflexivity|].
      unfold sim. cbn [o_cfg o_ncalls o_live o_ended o_recv o_known o_pos o_start o_prev].
      split; [reflexivity|]. split; [reflexivity|]. split; [reflexivity|]. split; [reflexivity|].
      split; [intros _; reflexivity|]. split; [reflexivity|]. split; [lia|]. split; [lia|]. split; [lia|]. split; [lia|].
      exact Hprev.
  - (* ReassemblyComplete *)
    destruct Hg as ((kn & en & Hgl & Hfin) & Hg'). subst g g'.
    destruct Hm as (Hl & He & Hr & Hk). subst lv ed.
    cbn [is_sg check_event o_cfg o_ncalls o_live o_ended o_recv o_known o_pos o_start o_prev].
    eexists. split; [reflexivity|].
    unfold sim, dead_fine. cbn [o_cfg o_ncalls o_live o_ended o_recv o_known o_pos o_start o_prev].
    split; [reflexivity|]. split; [reflexivity|]. split; [reflexivity|].
    destruct Hfin as [Hfin|Hfin]; [right; left; exact Hfin|].
    destruct en; [right; left; reflexivity|]. specialize (Hr eq_refl). subst rc.
    destruct kn as [(A, p)|].
    + destruct Hk as (K1 & K2 & K3 & _). destruct Hfin as (F1 & [F2|F2]); [right; right; left; exact F2|].
      right; right; right. lia.
    + destruct Hk as (K1 & _). left. exact K1.
  - (* panic: never *) contradiction.
  - (* tag *)
    subst g'. eexists. split; [reflexivity|]. unfold sim. cbn [is_sg]. auto.
Qed.

(* ---------------------------------------------------------------- the events of a step *)
Lemma sim_events : forall S R c h syn evs nc g g' o,
  gevs R S c (allow_of c h) syn nc g evs g' -> nonew evs -> sim S c nc g R o ->
  exists o', check_events S h o evs = (o', true) /\ sim S c (nc + nsg evs)%nat g' R o'.
Proof.
  intros S R c h syn. induction evs as [|e t IH]; intros nc g g' o Hg Hnn Hsim; cbn [gevs check_events] in *.
  - subst g'. exists o. split; [reflexivity|]. unfold nsg. cbn. rewrite Nat.add_0_r. exact Hsim.
  - destruct Hg as (gm & He & Ht). unfold nonew in Hnn. cbn [forallb] in Hnn. apply andb_prop in Hnn. destruct Hnn as (Hn1 & Hn2).
    destruct (sim_event S R c h syn nc g e gm o He Hn1 Hsim) as (o1 & Hc1 & Hs1). rewrite Hc1.
    destruct (IH _ _ _ _ Ht Hn2 Hs1) as (o2 & Hc2 & Hs2). rewrite Hc2. exists o2. split; [reflexivity|].
    unfold nsg in *. cbn [filter]. destruct (is_sg e); cbn [length].
    + replace (nc + Datatypes.S (length (filter is_sg t)))%nat with (Datatypes.S nc + length (filter is_sg t))%nat by lia. exact Hs2.
    + exact Hs2.
Qed.

Lemma sim_fresh : forall S c nc, sim S c nc (GLive None false) [] (mkOst true false 0 0 [] false None nc c).
Proof. intros. unfold sim. cbn. auto 10. Qed.

(* one operation: the oracle accepts the events and the simulation goes on *)
Lemma sim_step : forall S c nc g R o h ev g',
  sim S c nc g R o ->
  gevs (rstep g R h) S (cfg_after c h) (allow_of (cfg_after c h) h) (syn_of h) nc (gnote g (syn_of h)) ev g' ->
  (nonew ev \/ (g = GDead /\ is_seg h = true /\ exists sid rest, ev = ENew sid :: rest /\ nonew rest)) ->
  (h = HFlushAll -> g' = GDead) ->
  exists o', check_step S o h ev = (o', true) /\ sim S (cfg_after c h) (nc + nsg ev)%nat g' (rstep g R h) o'.
Proof.
  intros S c nc g R o h ev g' Hsim Hg Hnn Hfa.
  (* the oracle state after the operation has been noted *)
  set (o0 := match h with
             | HCfg a b => set_cfg o (mkCfg a b (c_keep (o_cfg o)))
             | HKeep k => set_cfg o (mkCfg (c_mpc (o_cfg o)) (c_mt (o_cfg o)) k)
             | _ => if is_seg h then note_seg o h else o
             end).
  assert (Hev : exists o1, check_events S h o0 ev = (o1, true) /\
                           sim S (cfg_after c h) (nc + nsg ev)%nat g' (rstep g R h) o1).
  { destruct (is_seg h) eqn:Hseg.
    - (* a segment *)
      assert (Ho0 : o0 = note_seg o h) by (subst o0; destruct h; try discriminate; reflexivity).
      assert (Hcfg : cfg_after c h = c) by (destruct h; try discriminate; reflexivity).
      rewrite Hcfg in *. rewrite Ho0.
      destruct g as [|kn en].
      + (* no connection: the segment creates the stream *)
        assert (Hnote : note_seg o h = o).
        { unfold note_seg. destruct Hsim as (_ & _ & Hl & _). rewrite Hl. reflexivity. }
        rewrite Hnote.
        destruct Hnn as [Hnn|(_ & _ & sid & rest & Hev & Hnn)].
        * replace (gnote GDead (syn_of h)) with GDead in Hg by reflexivity.
          destruct (sim_events S (rstep GDead R h) c h (syn_of h) ev nc GDead g' o Hg Hnn) as (o1 & H1 & H2).
          { destruct Hsim as (H1 & H2 & H3). unfold sim. auto. }
          exists o1. auto.
        * subst ev. cbn [gevs] in Hg. destruct Hg as (gm & (_ & Hgm) & Hrest). cbn [is_sg] in Hrest.
          cbn [check_events check_event]. rewrite Hseg.
          destruct Hsim as (Hc & Hn & Hl & _). rewrite Hl, Hc, Hn. cbn [negb].
          assert (Hs0 : sim S c nc gm (rstep GDead R h) (note_seg (mkOst true false 0 0 [] false None nc c) h)).
          { subst gm. rewrite (rstep_seg GDead R h Hseg). cbn [glive rbase].
            apply (sim_note S c nc None false [] _ h Hseg). apply sim_fresh. }
          destruct (sim_events S (rstep GDead R h) c h (syn_of h) rest nc gm g' _ Hrest Hnn Hs0) as (o1 & H1 & H2).
          rewrite H1. exists o1. split; [reflexivity|].
          unfold nsg in *. cbn [filter is_sg]. exact H2.
      + (* a live stream *)
        destruct Hnn as [Hnn|(Hd & _)]; [|discriminate].
        assert (Hs0 : sim S c nc (gnote (GLive kn en) (syn_of h)) (rstep (GLive kn en) R h) (note_seg o h)).
        { rewrite (rstep_seg _ R h Hseg). cbn [glive rbase]. apply sim_note; assumption. }
        destruct (sim_events S _ c h (syn_of h) ev nc _ g' _ Hg Hnn Hs0) as (o1 & H1 & H2).
        exists o1. auto.
    - (* options or a flush *)
      destruct Hnn as [Hnn|(_ & Hs & _)]; [|congruence].
      assert (Hsyn : syn_of h = false) by (destruct h; try discriminate; reflexivity).
      rewrite Hsyn in *. rewrite gnote_false in Hg.
      assert (HR : rstep g R h = R) by (destruct h; try discriminate; reflexivity).
      rewrite HR in *.
      assert (Hs0 : sim S (cfg_after c h) nc g R o0).
      { destruct Hsim as (Hc & Hn & Hm). subst o0.
        destruct h; try discriminate; unfold sim, set_cfg, dead_fine in *;
          cbn [cfg_after is_seg o_cfg o_ncalls o_live o_ended o_recv o_known o_pos o_start o_prev];
          try rewrite Hc; auto. }
      destruct (sim_events S R (cfg_after c h) h false ev nc g g' o0 Hg Hnn Hs0) as (o1 & H1 & H2).
      exists o1. auto. }
  destruct Hev as (o1 & Hce & Hs1).
  unfold check_step. fold o0. rewrite Hce.
  destruct h; try (exists o1; split; [reflexivity|exact Hs1]).
  (* FlushAll: no stream is left, and the last one got everything it had received *)
  specialize (Hfa eq_refl). subst g'. destruct Hs1 as (Hc1 & Hn1 & Hl1 & Hdf).
  exists o1. split; [|unfold sim; auto].
  rewrite Hl1. cbn [negb andb].
  replace (negb (o_known o1) || o_ended o1 ||
           match o_recv o1 with [] => true | _ :: _ => o_pos o1 =? Z.max (max_recv (o_recv o1)) (o_start o1) end) with true; [reflexivity|].
  symmetry. destruct Hdf as [H|[H|[H|H]]].
  - rewrite H. reflexivity.
  - rewrite H. rewrite orb_true_r. reflexivity.
  - rewrite H. apply orb_true_r.
  - destruct (o_recv o1); [apply orb_true_r|]. rewrite H, Z.eqb_refl. apply orb_true_r.
Qed.

(* the whole run *)
Lemma sim_trace : forall S hs tr c g R nc o,
  gtrace S c g R nc hs tr -> sim S c nc g R o -> check_trace S o hs tr = true.
Proof.
  intros S. induction hs as [|h t IH]; intros tr c g R nc o Hg Hsim; destruct tr as [|(ev, u) tr']; cbn [gtrace check_trace] in *;
    try reflexivity; try contradiction.
  destruct Hg as (g' & Hgev & Hfa & Hnn & Hrest).
  destruct (sim_step S c nc g R o h ev g' Hsim Hgev Hnn Hfa) as (o' & Hcs & Hs').
  rewrite Hcs. cbn [andb]. eapply IH; eauto.
Qed.

Theorem stream_okb : forall S i hs,
  zlen S < HIS -> forallb (hop_okb S) hs = true -> hist_okb fullv S i hs = true.
Proof.
  intros S i hs HS Hok. unfold hist_okb, trace_okb.
  apply (sim_trace S hs _ (mkCfg 0 0 []) GDead [] 0%nat ost0).
  - apply stream_events; assumption.
  - unfold sim, ost0, dead_fine. cbn. auto.
Qed.
