(* C12 — without recycling every stream that was entered in the pool is completed exactly once
   by the time the pool is empty (in particular at the end of a complete run that flushed
   everything).  With recycling the statement is refuted (Props/C12.v). *)
From GP Require Import Base ListX C12Model C12Proofs.
From Coq Require Import Lia.
Open Scope nat_scope.

Lemma completes_in sid t c l : In (ECall t sid c CComplete) l -> 1 <= completes sid l.
Proof.
  unfold completes. induction l as [|e r IH]; [intros []|]. intros [->|H]; cbn [filter].
  - rewrite Nat.eqb_refl. cbn. lia.
  - specialize (IH H). destruct e as [| t0 s0 c0 [|] | |]; cbn; try lia. destruct (Nat.eqb s0 sid); cbn; lia.
Qed.
Lemma count_complete_in evs : count_complete evs = 1 -> In CComplete evs.
Proof.
  unfold count_complete. induction evs as [|e r IH]; cbn; [discriminate|].
  destruct e; cbn; [intros H; right; auto|intros _; left; reflexivity].
Qed.

Section Once.
Variable cstate : Type.
Variable cinit : cstate.
Variable cclosed : cstate -> bool.
Variable creset : packet -> cstate.
Variable process : cstate -> bool -> packet -> cstate * list cevent * bool.
Variable flush : option Z -> cstate -> cstate * list cevent * bool.
Variable ctrail : option Z -> cstate -> bool.
Hypothesis Hm : machine_ok cstate cinit cclosed creset process flush.

Notation State := (state cstate).
Notation exec' := (exec cstate cinit cclosed creset process flush ctrail).
Notation obj' := (obj cstate cinit).
Notation Reach := (reachable cstate cinit cclosed creset process flush ctrail).

Definition refs (s : State) (c : nat) : Prop := exists t, In c (rest_of_pc (t_pc (thr s t))).

Record inv_once (s : State) : Prop := mkIO {
  io_open : forall c, c < length (s_objs s) -> cclosed (c_st (obj' s c)) = false ->
            In (c_key (obj' s c), c) (s_conns s) \/ ~ refs s c;
  io_rem : forall t c k, t_pc (thr s t) = PRemove c k ->
            In (c_key (obj' s c), c) (s_conns s) /\ completes (c_stream (obj' s c)) (s_log s) = 1;
  io_kept : forall sid, In sid (s_kept s) ->
            completes sid (s_log s) = 1 \/
            exists k c, In (k, c) (s_conns s) /\ c_stream (obj' s c) = sid /\ completes sid (s_log s) = 0 }.

Lemma inv_once_init progs : inv_once (init cstate progs).
Proof.
  constructor.
  - intros c L. cbn in L. lia.
  - intros t c k H. destruct (init_pc cstate progs t) as [E|E]; rewrite E in H; discriminate.
  - intros sid H. destruct H.
Qed.

Lemma miss_next_pc g (s : State) t s' p :
  t_pc (thr s t) = PMiss p -> exec' g s t = Some s' ->
  t_pc (thr s' t) = PPanic \/ exists c fwd, t_pc (thr s' t) = PWant c (WPkt p fwd).
Proof.
  intros Hpc E. assert (Lt : t < length (s_thr s)).
  { apply (enabled_lt cstate cinit). unfold exec in E. destruct (enabled cstate cinit s t); [reflexivity|discriminate]. }
  revert E. unfold exec. destruct (enabled cstate cinit s t); cbn [negb]; [|discriminate].
  rewrite Hpc.
  assert (Hthr : forall c f (o : list (conn cstate)) n k th l tg,
     thr (mkSt c f o n k (set_thr cstate s t th) l tg) t = th).
  { intros. unfold thr; cbn [s_thr]. unfold set_thr. apply nth_upd_eq; assumption. }
  destruct (s_free s); destruct (lookup g (s_conns s) (p_key p)) as [[c2 f2]|];
    try match goal with |- context[if ?b then _ else _] => destruct b end;
    intros H; inversion H; subst; clear H; rewrite Hthr; cbn [t_pc];
    first [left; reflexivity | right; do 2 eexists; reflexivity].
Qed.

Lemma inv_once_step g s t s' :
  g_recycle g = false -> no_trail cstate s ->
  inv_pool cstate cinit cclosed g s -> inv_str cstate cinit cclosed s -> inv_str cstate cinit cclosed s' ->
  inv_nr cstate cinit g s -> inv_once s -> exec' g s t = Some s' -> inv_once s'.
Proof.
  intros G NT IP IS IS' NR [Io Ir Ik] E.
  assert (Lt : t < length (s_thr s)).
  { apply (enabled_lt cstate cinit). unfold exec in E. destruct (enabled cstate cinit s t); [reflexivity|discriminate]. }
  pose proof (exec_rest _ _ _ _ _ _ _ _ _ _ _ E) as Hrest.
  destruct IP as [Pk Pv Pe Prv Pf Pfe Prm Prg].
  pose proof (nr_free _ _ _ _ NR) as Nf.
  (* new references of the stepping thread are old ones or entries of the map *)
  assert (Hkey_in : forall x, In x (map snd (s_conns s)) -> In (c_key (obj' s x), x) (s_conns s)).
  { intros x Hx. apply in_map_iff in Hx as [[k1 c1] [E1 Hin]]. cbn in E1; subst c1.
    destruct (Pe _ _ Hin) as [A _]. rewrite A. exact Hin. }
  destruct (exec_spec _ _ _ _ _ _ _ _ _ _ _ E) as
    [th' Hc Hf Ho Hn Hk Hl Ht Hnr Hnp Hnr0 Hnm0 Htr
    |p th' c free' objs0 Hpc Hpop Hf Ho Hn Ht Hnr Hl Hcn Hpan Htr
    |c w st' evs closes th' Hpc Hlk Hw Ho Hc Hf Hn Hk Ht Hcl Hncl Hnp Htr
    |c k th' Hpc Ho Hcf Hn Hk Hl Ht Hnr Hnp Htr
    |c age rest th' Hpc Ho Hcf Hn Hk Hl Ht Hnr Hnp Htr].
  - (* local *)
    assert (Hobj : forall x, obj' s' x = obj' s x) by (intros x; apply obj_same; assumption).
    constructor.
    + intros x L Hop. rewrite Hobj in *. rewrite Ho in L. rewrite Hc.
      destruct (Io x L Hop) as [A|A]; [left; exact A|].
      destruct (in_dec Nat.eq_dec x (map snd (s_conns s))) as [Hi|Hi]; [left; apply Hkey_in; exact Hi|].
      right. intros [t2 Hr]. apply A. destruct (Nat.eq_dec t2 t) as [->|N].
      * destruct (Hrest _ Hr) as [H|[H|[p0 [Hp _]]]]; [exists t; exact H|contradiction|exfalso; exact (Hnm0 _ Hp)].
      * exists t2. rewrite (thr_upd_ne _ _ _ _ _ _ N Ht) in Hr. exact Hr.
    + intros t2 c k Hp2. rewrite Hobj, Hc, Hl. destruct (Nat.eq_dec t2 t) as [->|N].
      * rewrite (thr_upd_eq _ _ _ _ _ Lt Ht) in Hp2. exfalso; exact (Hnr _ _ Hp2).
      * rewrite (thr_upd_ne _ _ _ _ _ _ N Ht) in Hp2. eauto.
    + intros sid Hs. rewrite Hk in Hs. rewrite Hl, Hc. destruct (Ik sid Hs) as [A|[k1 [c1 [A [B C]]]]]; [left; exact A|].
      right. exists k1, c1. rewrite Hobj. auto.
  - (* miss: the object is a new one *)
    destruct (pop_cases _ _ _ _ _ _ Hpop) as [[Ef _]|[_ [Ef' [Ec Eo]]]]; [rewrite Nf in Ef; discriminate|].
    assert (Hother : forall x, x <> c -> obj' s' x = obj' s x)
      by (intros x N; eapply miss_obj_other; eassumption).
    assert (Hlen' : length (s_objs s') = S (length (s_objs s))).
    { rewrite Ho, upd_length, Eo, app_length. cbn. lia. }
    assert (Hnew : obj' s' c = mkConn (p_key p) (s_nsid s) (creset p) None).
    { unfold obj. rewrite Ho, nth_upd_eq by (rewrite Eo, app_length; cbn; lia).
      rewrite Eo, Ec, app_nth2, Nat.sub_diag by lia. reflexivity. }
    assert (Hcomp : forall sid, completes sid (s_log s') = completes sid (s_log s)).
    { intros sid. destruct Hl as [Hl|Hl]; rewrite Hl; reflexivity. }
    assert (Hsub : forall e, In e (s_conns s) -> In e (s_conns s')).
    { intros e He. destruct Hcn as [[_ [Hc _]]|[_ [Hc _]]]; rewrite Hc; [right|]; exact He. }
    assert (Hrefs : forall x, x <> c -> refs s' x -> refs s x \/ In x (map snd (s_conns s))).
    { intros x N [t2 Hr]. destruct (Nat.eq_dec t2 t) as [->|N2].
      - destruct (Hrest _ Hr) as [H|[H|[p0 [_ Hp]]]]; [left; exists t; exact H|right; exact H|].
        rewrite Hpop in Hp. cbn in Hp. congruence.
      - left. exists t2. rewrite (thr_upd_ne _ _ _ _ _ _ N2 Ht) in Hr. exact Hr. }
    constructor.
    + intros x L Hop. destruct (Nat.eq_dec x c) as [->|N].
      * rewrite Hnew. cbn [c_key].
        destruct Hcn as [[HL [Hc Hk]]|[HL [Hc Hk]]].
        -- left. rewrite Hc. left; reflexivity.
        -- right. intros [t2 Hr]. destruct (Nat.eq_dec t2 t) as [->|N2].
           ++ destruct (Hrest _ Hr) as [H|[H|[p0 [_ Hp]]]].
              ** rewrite Hpc in H. destruct H.
              ** apply in_map_iff in H as [[k1 c1] [E1 Hin]]. cbn in E1; subst c1. destruct (Pe _ _ Hin) as [_ L1]. lia.
              ** (* the thread's own new reference is the connection it found, not the one it dropped *)
                 pose proof (exec_want _ _ _ _ _ _ _ _ _ _ _ E) as Hw.
                 destruct (miss_next_pc _ _ _ _ _ Hpc E) as [Epc'|[c3 [f3 Epc']]]; rewrite Epc' in Hr; cbn in Hr; [destruct Hr|].
                 destruct Hr as [<-|[]]. destruct (Hw _ _ _ Epc') as [HLk|[Hp3 [HLn _]]]; [|contradiction].
                 destruct (lookup_key _ _ _ _ _ HLk) as [Hin _]. destruct (Pe _ _ Hin) as [_ L1]. lia.
           ++ rewrite (thr_upd_ne _ _ _ _ _ _ N2 Ht) in Hr. specialize (Prg _ _ Hr). lia.
      * rewrite Hother in * by assumption. assert (Lx : x < length (s_objs s)) by lia.
        destruct (Io x Lx Hop) as [A|A]; [left; apply Hsub; exact A|].
        destruct (in_dec Nat.eq_dec x (map snd (s_conns s))) as [Hi|Hi]; [left; apply Hsub, Hkey_in; exact Hi|].
        right. intros Hr. destruct (Hrefs _ N Hr); contradiction.
    + intros t2 c2 k2 Hp2. assert (t2 <> t).
      { intros ->. rewrite (thr_upd_eq _ _ _ _ _ Lt Ht) in Hp2. exact (Hnr _ _ Hp2). }
      rewrite (thr_upd_ne _ _ _ _ _ _ H Ht) in Hp2.
      assert (c2 <> c) by (assert (c2 < length (s_objs s)) by (apply (Prg t2); rewrite Hp2; destruct k2; left; reflexivity); lia).
      rewrite Hother by assumption. rewrite Hcomp. destruct (Ir _ _ _ Hp2) as [A B]. split; [apply Hsub; exact A|exact B].
    + intros sid Hs. rewrite Hcomp.
      assert (Hold : In sid (s_kept s) -> completes sid (s_log s) = 1 \/
                (exists k1 c1, In (k1, c1) (s_conns s') /\ c_stream (obj' s' c1) = sid /\ completes sid (s_log s) = 0)).
      { intros Hs0. destruct (Ik sid Hs0) as [A|[k1 [c1 [A [B C]]]]]; [left; exact A|]. right. exists k1, c1.
        assert (c1 <> c) by (destruct (Pe _ _ A) as [_ L1]; lia).
        rewrite Hother by assumption. split; [apply Hsub; exact A|auto]. }
      destruct Hcn as [[HL [Hc Hk]]|[HL [Hc Hk]]]; rewrite Hk in Hs.
      * destruct Hs as [<-|Hs0]; [|apply Hold; exact Hs0].
        right. exists (p_key p), c. rewrite Hc, Hnew. cbn. split; [left; reflexivity|]. split; [reflexivity|].
        destruct (completes (s_nsid s) (s_log s)) eqn:Ecm; [reflexivity|].
        assert (Hne : completes (s_nsid s) (s_log s) <> 0) by lia.
        destruct (completes_pos _ _ Hne) as [t0 [c0 Hin]]. pose proof (is_log _ _ _ _ IS _ _ _ _ Hin). lia.
      * apply Hold; exact Hs.
  - (* processing *)
    assert (Lc : c < length (s_objs s)) by (apply (Prg t); rewrite Hpc; destruct w; left; reflexivity).
    assert (Hother : forall x, x <> c -> obj' s' x = obj' s x) by (intros x N; eapply obj_upd_ne; eassumption).
    pose proof (obj_upd_eq cstate cinit _ _ _ _ Lc Ho) as Hnew.
    assert (Hlen' : length (s_objs s') = length (s_objs s)) by (rewrite Ho; apply upd_length).
    assert (Hkey : forall x, c_key (obj' s' x) = c_key (obj' s x)).
    { intros x. destruct (Nat.eq_dec x c) as [->|N]; [rewrite Hnew; reflexivity|rewrite Hother; auto]. }
    assert (Hstr : forall x, c_stream (obj' s' x) = c_stream (obj' s x)).
    { intros x. destruct (Nat.eq_dec x c) as [->|N]; [rewrite Hnew; reflexivity|rewrite Hother; auto]. }
    set (sg := c_stream (obj' s c)) in *.
    assert (Hcl2 : (closes = true -> cclosed (c_st (obj' s c)) = false /\ cclosed st' = true) /\
                   (cclosed (c_st (obj' s c)) = true -> cclosed st' = true) /\
                   count_complete evs = (if closes then 1 else 0)).
    { destruct Hm as [_ [_ [Hp Hfl]]].
      destruct Hw as [[p [fwd [_ [Hpr _]]]]|[age [rest [_ [Hpr _]]]]];
        [destruct (Hp _ _ _ _ _ _ Hpr) as [A [B C]]|destruct (Hfl _ _ _ _ _ Hpr) as [A [B C]]]; auto. }
    destruct Hcl2 as [Hcl2 [Hcl3 Hcnt]].
    assert (Hcomp : forall sid, completes sid (s_log s') =
                     (if Nat.eqb sg sid then count_complete evs else 0) + completes sid (s_log s)).
    { intros sid. destruct Hw as [[p [fwd [_ [_ Hl]]]]|[age [rest [_ [_ Hl]]]]]; rewrite Hl, completes_app, completes_rev, completes_calls.
      - change (EProc t p c (c_key (obj' s c)) sg :: s_log s) with ([EProc t p c (c_key (obj' s c)) sg] ++ s_log s).
        rewrite completes_app. cbn. lia.
      - reflexivity. }
    assert (Hle1 : forall sid, completes sid (s_log s') <= 1) by (intros sid; apply (is_once _ _ _ _ IS')).
    assert (Hrefs : forall x, refs s' x -> refs s x \/ In x (map snd (s_conns s))).
    { intros x [t2 Hr]. destruct (Nat.eq_dec t2 t) as [->|N2].
      - destruct (Hrest _ Hr) as [H|[H|[p0 [Hp _]]]]; [left; exists t; exact H|right; exact H|].
        rewrite Hpc in Hp. discriminate.
      - left. exists t2. rewrite (thr_upd_ne _ _ _ _ _ _ N2 Ht) in Hr. exact Hr. }
    assert (Hopen_c : cclosed (c_st (obj' s c)) = false -> In (c_key (obj' s c), c) (s_conns s)).
    { intros Hop. destruct (Io c Lc Hop) as [A|A]; [exact A|]. exfalso. apply A. exists t. rewrite Hpc. destruct w; left; reflexivity. }
    constructor.
    + intros x L Hop. rewrite Hkey, Hc. rewrite Hlen' in L.
      destruct (Nat.eq_dec x c) as [->|N].
      * left. apply Hopen_c. rewrite Hnew in Hop. cbn in Hop.
        destruct (cclosed (c_st (obj' s c))) eqn:Eb; [rewrite (Hcl3 eq_refl) in Hop; discriminate|reflexivity].
      * rewrite Hother in Hop by assumption. destruct (Io x L Hop) as [A|A]; [left; exact A|].
        destruct (in_dec Nat.eq_dec x (map snd (s_conns s))) as [Hi|Hi]; [left; apply Hkey_in; exact Hi|].
        right. intros Hr. destruct (Hrefs _ Hr); contradiction.
    + intros t2 c2 k2 Hp2. rewrite Hkey, Hstr, Hc. destruct (Nat.eq_dec t2 t) as [->|N].
      * rewrite (thr_upd_eq _ _ _ _ _ Lt Ht) in Hp2.
        destruct closes; [|exfalso; exact (Hncl eq_refl _ _ Hp2)].
        destruct (Hcl eq_refl) as [k3 Hk3]. rewrite Hk3 in Hp2. inversion Hp2; subst c2.
        destruct (Hcl2 eq_refl) as [A B]. split; [apply Hopen_c; exact A|].
        fold sg. specialize (Hle1 sg). rewrite Hcomp, Nat.eqb_refl, Hcnt in *. lia.
      * rewrite (thr_upd_ne _ _ _ _ _ _ N Ht) in Hp2. destruct (Ir _ _ _ Hp2) as [A B]. split; [exact A|].
        specialize (Hle1 (c_stream (obj' s c2))). rewrite Hcomp in *. lia.
    + intros sid Hs. rewrite Hk in Hs. rewrite Hc.
      destruct (Ik sid Hs) as [A|[k1 [c1 [A [B C]]]]].
      * left. specialize (Hle1 sid). rewrite Hcomp in *. lia.
      * destruct (Nat.eqb sg sid) eqn:Es.
        -- apply Nat.eqb_eq in Es. destruct closes.
           ++ left. specialize (Hle1 sid). rewrite Hcomp, <- Es, Nat.eqb_refl, Hcnt in *. lia.
           ++ right. exists k1, c1. rewrite Hstr, Hcomp, <- Es, Nat.eqb_refl, Hcnt. rewrite Es. cbn. auto.
        -- right. exists k1, c1. rewrite Hstr, Hcomp, Es. cbn. auto.
  - (* remove *)
    destruct (Ir _ _ _ Hpc) as [Rin Rcomp].
    destruct (Prm _ _ _ Hpc) as [_ [Rcl _]].
    assert (Lc : c < length (s_objs s)) by (apply (Prg t); rewrite Hpc; destruct k; left; reflexivity).
    assert (Hother : forall x, x <> c -> obj' s' x = obj' s x) by (intros x N; eapply obj_upd_ne; eassumption).
    pose proof (obj_upd_eq cstate cinit _ _ _ _ Lc Ho) as Hnew.
    assert (Hlen' : length (s_objs s') = length (s_objs s)) by (rewrite Ho; apply upd_length).
    assert (Hkey : forall x, c_key (obj' s' x) = c_key (obj' s x)).
    { intros x. destruct (Nat.eq_dec x c) as [->|N]; [rewrite Hnew; reflexivity|rewrite Hother; auto]. }
    assert (Hstr : forall x, c_stream (obj' s' x) = c_stream (obj' s x)).
    { intros x. destruct (Nat.eq_dec x c) as [->|N]; [rewrite Hnew; reflexivity|rewrite Hother; auto]. }
    assert (Hst : forall x, c_st (obj' s' x) = c_st (obj' s x)).
    { intros x. destruct (Nat.eq_dec x c) as [->|N]; [rewrite Hnew; reflexivity|rewrite Hother; auto]. }
    (* an entry other than c's own survives the removal *)
    assert (Hsurv : forall k1 c1, In (k1, c1) (s_conns s) -> c1 <> c -> In (k1, c1) (s_conns s')).
    { intros k1 c1 Hin N. destruct Hcf as [[Hc _]|[Hc _]]; rewrite Hc; [exact Hin|].
      assert (k1 <> c_key (obj' s c)).
      { intros ->. apply N. clear -Pk Hin Rin.
        induction (s_conns s) as [|[k2 c2] r IH]; [destruct Hin|]. cbn in Pk. inversion Pk; subst.
        destruct Hin as [H|H]; destruct Rin as [H'|H']; try congruence.
        - inversion H; subst. exfalso. apply H1. apply in_map_iff. eexists; split; [|exact H']. reflexivity.
        - inversion H'; subst. exfalso. apply H1. apply in_map_iff. eexists; split; [|exact H]. reflexivity.
        - apply IH; assumption. }
      clear -Hin H. induction (s_conns s) as [|[k2 c2] r IH]; [destruct Hin|]. cbn.
      destruct (key_eqb (c_key (obj' s c)) k2) eqn:Ek.
      - apply key_eqb_eq in Ek. destruct Hin as [Hi|Hi]; [inversion Hi; congruence|auto].
      - destruct Hin as [Hi|Hi]; [left; exact Hi|right; auto]. }
    assert (Hrefs : forall x, refs s' x -> refs s x).
    { intros x [t2 Hr]. destruct (Nat.eq_dec t2 t) as [->|N2].
      - destruct (Hrest _ Hr) as [H|[H|[p0 [Hp _]]]]; [exists t; exact H| |rewrite Hpc in Hp; discriminate].
        (* after remove the thread only keeps references it already had *)
        exists t. rewrite Hpc.
        clear -Hr E Hpc Lt. revert E. unfold exec. destruct (enabled cstate cinit s t); cbn [negb]; [|discriminate].
        rewrite Hpc. intros H0; inversion H0; subst; clear H0.
        unfold thr in Hr; cbn [s_thr] in Hr. unfold set_thr in Hr. rewrite nth_upd_eq in Hr by assumption. cbn [t_pc] in Hr.
        destruct k as [|a r [|]]; cbn in *.
        + rewrite rest_next_pc in Hr. destruct Hr.
        + exact Hr.
        + apply rest_cont_flush in Hr. auto.
      - exists t2. rewrite (thr_upd_ne _ _ _ _ _ _ N2 Ht) in Hr. exact Hr. }
    constructor.
    + intros x L Hop. rewrite Hkey. rewrite Hst in Hop. rewrite Hlen' in L.
      assert (x <> c) by (intros ->; congruence).
      destruct (Io x L Hop) as [A|A]; [left; apply Hsurv; assumption|right; intros Hr; apply A, Hrefs, Hr].
    + intros t2 c2 k2 Hp2. assert (t2 <> t).
      { intros ->. rewrite (thr_upd_eq _ _ _ _ _ Lt Ht) in Hp2. exact (Hnr _ _ Hp2). }
      rewrite (thr_upd_ne _ _ _ _ _ _ H Ht) in Hp2. rewrite Hkey, Hstr, Hl.
      destruct (Ir _ _ _ Hp2) as [A B]. split; [|exact B]. apply Hsurv; [exact A|].
      intros ->. destruct (Prm _ _ _ Hp2) as [_ [_ L2]]. destruct (Prm _ _ _ Hpc) as [_ [_ L1]]. congruence.
    + intros sid Hs. rewrite Hk in Hs. rewrite Hl.
      destruct (Ik sid Hs) as [A|[k1 [c1 [A [B C]]]]]; [left; exact A|].
      right. exists k1, c1. rewrite Hstr. split; [|auto]. apply Hsurv; [exact A|].
      intros ->. rewrite B in Rcomp. lia.
  - exfalso. specialize (NT t). rewrite Hpc in NT. discriminate.
Qed.

Lemma inv_once_reachable g progs s :
  trail_cfg g = false -> g_recycle g = false -> Reach g progs s -> inv_once s.
Proof.
  intros GT G. induction 1 as [|s t s' R IH E]; [apply inv_once_init|].
  assert (R' : Reach g progs s') by (eapply R_step; eassumption).
  eapply inv_once_step; try eassumption.
  - eapply no_trail_reachable; eassumption.
  - eapply inv_pool_reachable; eassumption.
  - eapply inv_str_reachable; eassumption.
  - eapply inv_str_reachable; eassumption.
  - eapply inv_nr_reachable; eassumption.
Qed.

(* exactly once: when the pool is empty every stream that was kept has been completed exactly once *)
Lemma complete_exactly_once g progs s :
  trail_cfg g = false -> g_recycle g = false -> Reach g progs s -> s_conns s = [] ->
  forall sid, In sid (s_kept s) -> completes sid (s_log s) = 1.
Proof.
  intros GT G R Hc sid Hs. destruct (io_kept _ (inv_once_reachable _ _ _ GT G R) sid Hs) as [A|[k [c [A _]]]]; [exact A|].
  rewrite Hc in A. destruct A.
Qed.
End Once.
