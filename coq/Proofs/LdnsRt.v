(* Ldns — round trip (C06): decoding the wire functions of LdnsSer gives the value back. *)
From GP Require Import Base ListX N6Lib LdnsModel LdnsDec LdnsSer.
From Coq Require Import Lia ZifyBool ZifyNat.
Ltac Zify.zify_post_hook ::= Z.div_mod_to_equations.
Open Scope Z_scope.

(* ---------------------------------------------------------------- names as the decoder presents them *)
(* labels joined by '.', no leading or trailing dot *)
Fixpoint join (ls : list (list Z)) : list Z :=
  match ls with
  | [] => []
  | l :: t => match t with [] => l | _ => l ++ 46 :: join t end
  end.
(* what decodeName appends to the name buffer *)
Definition dotted (ls : list (list Z)) : list Z := concat (map (fun l => 46 :: l) ls).

Lemma dotted_join ls : dotted ls = match ls with [] => [] | _ => 46 :: join ls end.
Proof.
  induction ls as [|l t IH]; [reflexivity|]. unfold dotted in *. cbn [map concat join].
  rewrite IH. destruct t; [rewrite app_nil_r; reflexivity|]. reflexivity.
Qed.

Definition label_ok (l : list Z) : Prop := 1 <= n6_len l <= 63 /\ bytes_ok l.
Definition label_okb (l : list Z) : bool := (1 <=? n6_len l) && (n6_len l <=? 63) && bytes_okb l.

Lemma label_okb_ok l : label_okb l = true <-> label_ok l.
Proof.
  unfold label_okb, label_ok. rewrite !andb_true_iff, bytes_okb_ok, !Z.leb_le. tauto.
Qed.

Lemma land192_small b : 0 <= b < 64 -> Z.land b 192 = 0.
Proof.
  intros H. destruct b as [|p|p]; [reflexivity| |lia].
  do 7 (destruct p as [p|p|]; try lia; try reflexivity).
Qed.

Lemma labels_body_app a b : labels_body (a ++ b) = labels_body a ++ labels_body b.
Proof. unfold labels_body. rewrite map_app, concat_app. reflexivity. Qed.

Lemma labels_body_cons l t : labels_body (l :: t) = u8 (n6_len l) :: l ++ labels_body t.
Proof. reflexivity. Qed.

Lemma u8_small x : 0 <= x < 256 -> u8 x = x.
Proof. intros. unfold u8. lia. Qed.

(* reading inside pre ++ mid ++ post *)
Lemma idx_mid pre (x : Z) post i : i = n6_len pre -> n6_idx (pre ++ x :: post) i = Some x.
Proof.
  intros ->. rewrite n6_idx_eq by (rewrite n6_len_app, n6_len_cons; pose proof (n6_len_nonneg pre); pose proof (n6_len_nonneg post); lia).
  unfold nthZ, n6_len. rewrite Nat2Z.id, app_nth2, Nat.sub_diag by lia. reflexivity.
Qed.

Lemma slice_mid pre mid post a b : a = n6_len pre -> b = n6_len pre + n6_len mid ->
  n6_slice (pre ++ mid ++ post) a b = Some mid.
Proof.
  intros -> ->. pose proof (n6_len_nonneg pre). pose proof (n6_len_nonneg mid). pose proof (n6_len_nonneg post).
  rewrite n6_slice_eq by (rewrite ?n6_len_app; lia). f_equal.
  unfold slice, n6_len. rewrite Nat2Z.id. replace (Z.to_nat (Z.of_nat (length pre) + Z.of_nat (length mid))) with (length pre + length mid)%nat by lia.
  rewrite app_assoc, firstn_app. replace (length pre + length mid - length (pre ++ mid))%nat with 0%nat by (rewrite app_length; lia).
  cbn [firstn]. rewrite app_nil_r, firstn_all2 by (rewrite app_length; lia).
  rewrite skipn_app, skipn_all, Nat.sub_diag. reflexivity.
Qed.

(* ---------------------------------------------------------------- collectDNSWireLabels on uncompressed labels *)
Definition append_each (acc : labels) (ls : list (list Z)) : labels := fold_left (fun a l => go_append a [l]) ls acc.

Lemma append_each_none ls : ls <> [] -> append_each None ls = Some ls.
Proof.
  destruct ls as [|l t]; [congruence|]. intros _. unfold append_each. cbn [fold_left go_append].
  assert (G : forall t acc, fold_left (fun a l0 => go_append a [l0]) t (Some acc) = Some (acc ++ t)).
  { induction t0 as [|x t0 IH]; intros acc; cbn [fold_left go_append]; [rewrite app_nil_r; reflexivity|].
    rewrite IH, <- app_assoc. reflexivity. }
  apply G.
Qed.

Lemma append_each_some acc ls : append_each (Some acc) ls = Some (acc ++ ls).
Proof.
  revert acc. induction ls as [|x t IH]; intros acc; unfold append_each in *; cbn [fold_left go_append]; [rewrite app_nil_r; reflexivity|].
  rewrite IH, <- app_assoc. reflexivity.
Qed.

Lemma collect_loop_wire : forall ls pre post fuel off acc,
  Forall label_ok ls -> off = n6_len pre -> (length ls < fuel)%nat ->
  collect_loop (pre ++ labels_body ls ++ post) fuel off (n6_len pre + n6_len (labels_body ls)) acc
  = Some (append_each acc ls).
Proof.
  induction ls as [|l t IH]; intros pre post fuel off acc Hok -> Hf; (destruct fuel as [|f]; [cbn in Hf; lia|]); cbn [collect_loop].
  - replace (n6_len pre <? n6_len pre + n6_len (labels_body [])) with false by (cbn; lia). reflexivity.
  - inversion Hok as [|? ? [Hl Hb] Hok']; subst.
    rewrite labels_body_cons. pose proof (n6_len_nonneg (labels_body t)).
    replace (n6_len pre <? n6_len pre + n6_len (u8 (n6_len l) :: l ++ labels_body t)) with true by (lens; lia).
    cbn [app]. rewrite idx_mid by reflexivity. rewrite u8_small by lia.
    rewrite land192_small by lia. cbn [Z.eqb negb].
    replace ((n6_len pre + n6_len l + 1 >? n6_len pre + n6_len (n6_len l :: l ++ labels_body t)) ||
             (n6_len pre + n6_len l + 1 >? n6_len (pre ++ n6_len l :: (l ++ labels_body t) ++ post))) with false
      by (pose proof (n6_len_nonneg post); lens; lia).
    replace (pre ++ n6_len l :: (l ++ labels_body t) ++ post) with ((pre ++ [n6_len l]) ++ l ++ (labels_body t ++ post))
      by (rewrite <- !app_assoc; reflexivity).
    rewrite slice_mid by (lens; lia).
    replace ((pre ++ [n6_len l]) ++ l ++ labels_body t ++ post) with (((pre ++ [n6_len l]) ++ l) ++ labels_body t ++ post)
      by (rewrite <- !app_assoc; reflexivity).
    specialize (IH ((pre ++ [n6_len l]) ++ l) post f (n6_len pre + n6_len l + 1) (go_append acc [l]) Hok').
    replace (n6_len pre + n6_len (n6_len l :: l ++ labels_body t)) with (n6_len ((pre ++ [n6_len l]) ++ l) + n6_len (labels_body t)) by (lens; lia).
    rewrite IH by (try (lens; lia); cbn [length] in Hf; lia). reflexivity.
Qed.

Lemma body_len_ge ls : Forall label_ok ls -> Z.of_nat (length ls) <= n6_len (labels_body ls).
Proof.
  induction 1 as [|l t [Hl _] _ IH]; [cbn; lia|]. rewrite labels_body_cons. cbn [length]. lens. lia.
Qed.

Lemma existsb_snoc {A} (f : A -> bool) l x : existsb f (l ++ [x]) = existsb f l || f x.
Proof. rewrite existsb_app. cbn. rewrite orb_false_r. reflexivity. Qed.

(* ---------------------------------------------------------------- decodeName on uncompressed labels *)
Definition meta_of (ls : list (list Z)) : labels := if existsb needs_pres ls then Some ls else None.

Lemma dn_loop_wire rec : forall ls done_ls pre post data fuel start buf,
  data = pre ++ labels_body done_ls ++ labels_wire ls ++ post ->
  Forall label_ok (done_ls ++ ls) -> n6_len (labels_body (done_ls ++ ls)) + 1 <= 255 -> (length ls < fuel)%nat ->
  dn_loop data rec fuel (n6_len pre) start (n6_len pre + n6_len (labels_body done_ls)) buf (meta_of done_ls)
  = dn_finish start (n6_len pre + n6_len (labels_body (done_ls ++ ls))) (buf ++ dotted ls) (meta_of (done_ls ++ ls)).
Proof.
  induction ls as [|l t IH]; intros done_ls pre post data fuel start buf Hd Hok Hlen Hf;
    (destruct fuel as [|f]; [cbn in Hf; lia|]); cbn [dn_loop].
  - unfold labels_wire in Hd. cbn [labels_body map concat app] in Hd.
    replace data with ((pre ++ labels_body done_ls) ++ 0 :: post) by (rewrite Hd, <- app_assoc; reflexivity).
    rewrite idx_mid by (lens; lia). cbn [Z.eqb]. rewrite app_nil_r. unfold dotted. cbn [map concat]. rewrite app_nil_r. reflexivity.
  - assert (Hok' := Hok). apply Forall_app in Hok' as [Hokd Hokl]. inversion Hokl as [|? ? [Hl Hb] Hokt]; subst x l0.
    pose proof (n6_len_nonneg (labels_body done_ls)) as Hd0. pose proof (n6_len_nonneg pre). pose proof (n6_len_nonneg post).
    pose proof (n6_len_nonneg (labels_body t)) as Ht0.
    assert (Hbody : n6_len (labels_body (done_ls ++ l :: t)) = n6_len (labels_body done_ls) + 1 + n6_len l + n6_len (labels_body t))
      by (rewrite labels_body_app, labels_body_cons; lens; lia).
    assert (Hdata : data = (pre ++ labels_body done_ls) ++ n6_len l :: l ++ labels_wire t ++ post).
    { rewrite Hd. unfold labels_wire. rewrite labels_body_cons, u8_small by lia. rewrite <- !app_assoc. cbn [app]. rewrite <- !app_assoc. reflexivity. }
    assert (Hdl : n6_len data = n6_len pre + n6_len (labels_body done_ls) + 1 + n6_len l + n6_len (labels_body t) + 1 + n6_len post)
      by (rewrite Hdata; unfold labels_wire; lens; lia).
    rewrite Hdata at 1. rewrite idx_mid by (lens; lia).
    replace (n6_len l =? 0) with false by lia.
    rewrite land192_small by lia. cbn [Z.eqb].
    replace (n6_len pre + n6_len (labels_body done_ls) + n6_len l + 1 - n6_len pre >? 255) with false by lia.
    replace ((n6_len pre + n6_len (labels_body done_ls) + n6_len l + 1 <? n6_len pre + n6_len (labels_body done_ls) + 1)
             || (n6_len pre + n6_len (labels_body done_ls) + n6_len l + 1 >? n6_len data)) with false by lia.
    replace (n6_slice data (n6_len pre + n6_len (labels_body done_ls) + 1) (n6_len pre + n6_len (labels_body done_ls) + n6_len l + 1)) with (Some l).
    2:{ rewrite Hdata. replace ((pre ++ labels_body done_ls) ++ n6_len l :: l ++ labels_wire t ++ post)
          with (((pre ++ labels_body done_ls) ++ [n6_len l]) ++ l ++ (labels_wire t ++ post)) by (rewrite <- !app_assoc; reflexivity).
        symmetry. apply slice_mid; lens; lia. }
    assert (Hd2 : data = pre ++ labels_body (done_ls ++ [l]) ++ labels_wire t ++ post).
    { rewrite Hdata, labels_body_app, labels_body_cons, u8_small by lia. cbn [labels_body map concat]. rewrite <- !app_assoc. cbn [app]. rewrite <- !app_assoc. reflexivity. }
    assert (Hb2 : n6_len (labels_body (done_ls ++ [l])) = n6_len (labels_body done_ls) + 1 + n6_len l)
      by (rewrite labels_body_app, labels_body_cons; cbn [labels_body map concat]; lens; lia).
    assert (Hmeta : (match meta_of done_ls with
                     | Some ls0 => Some (Some (ls0 ++ [l]))
                     | None => if needs_pres l then collect data (n6_len pre) (n6_len pre + n6_len (labels_body done_ls) + n6_len l + 1) else Some None
                     end) = Some (meta_of (done_ls ++ [l]))).
    { unfold meta_of. rewrite existsb_snoc. destruct (existsb needs_pres done_ls); [reflexivity|]. cbn [orb].
      destruct (needs_pres l); [|reflexivity].
      unfold collect. rewrite Hd2.
      replace (n6_len pre + n6_len (labels_body done_ls) + n6_len l + 1) with (n6_len pre + n6_len (labels_body (done_ls ++ [l]))) by lia.
      rewrite collect_loop_wire.
      - rewrite append_each_none by (destruct done_ls; discriminate). reflexivity.
      - apply Forall_app. split; [exact Hokd|constructor; [split; assumption|constructor]].
      - reflexivity.
      - rewrite <- Hd2. pose proof (body_len_ge (done_ls ++ [l])) as P.
        assert (Forall label_ok (done_ls ++ [l])) as Q by (apply Forall_app; split; [exact Hokd|constructor; [split; assumption|constructor]]).
        specialize (P Q). unfold n6_len in *. lia. }
    rewrite Hmeta.
    replace (n6_len pre + n6_len (labels_body done_ls) + n6_len l + 1 >=? n6_len data) with false by lia.
    replace (n6_len pre + n6_len (labels_body done_ls) + n6_len l + 1) with (n6_len pre + n6_len (labels_body (done_ls ++ [l]))) by lia.
    rewrite (IH (done_ls ++ [l]) pre post data f start (buf ++ 46 :: l) Hd2).
    + rewrite <- ?app_assoc. cbn [app]. unfold dotted. cbn [map concat]. rewrite <- ?app_assoc. cbn [app]. reflexivity.
    + rewrite <- app_assoc. exact Hok.
    + rewrite <- app_assoc. exact Hlen.
    + cbn [length] in Hf. lia.
Qed.

Definition labels_okP (ls : list (list Z)) : Prop := Forall label_ok ls /\ n6_len (labels_wire ls) <= 255.

Lemma skipn_app_len {A} (a b : list A) n : n = length a -> skipn n (a ++ b) = b.
Proof. intros ->. apply skipn_app_exact. reflexivity. Qed.

Lemma decode_name_lv_S lf data offset buf :
  decode_name_lv (S lf) data offset buf =
  if offset >=? n6_len data then NErr E_NAME
  else if offset <? 0 then NErr E_NAME
  else dn_loop data (decode_name_lv lf data) (S (length data)) offset (n6_len buf) offset buf None.
Proof. reflexivity. Qed.

Lemma decode_name_wire ls pre post buf : labels_okP ls ->
  decode_name (pre ++ labels_wire ls ++ post) (n6_len pre) buf
  = NOk (join ls) (meta_of ls) (n6_len pre + n6_len (labels_wire ls)) (buf ++ dotted ls).
Proof.
  intros [Hok Hlen]. unfold decode_name. rewrite (decode_name_lv_S 254).
  pose proof (n6_len_nonneg pre). pose proof (n6_len_nonneg post). pose proof (n6_len_nonneg (labels_body ls)).
  unfold labels_wire in *.
  replace (n6_len pre >=? n6_len (pre ++ (labels_body ls ++ [0]) ++ post)) with false by (lens; lia).
  replace (n6_len pre <? 0) with false by lia.
  pose proof (dn_loop_wire (decode_name_lv 254 (pre ++ (labels_body ls ++ [0]) ++ post)) ls [] pre post
                (pre ++ (labels_body ls ++ [0]) ++ post) (S (length (pre ++ (labels_body ls ++ [0]) ++ post))) (n6_len buf) buf) as P.
  cbn [app labels_body map concat] in P. change (n6_len []) with 0 in P. rewrite Z.add_0_r in P.
  change (meta_of []) with (@None (list (list Z))) in P.
  rewrite P; clear P.
  - unfold dn_finish. fold (labels_body ls). rewrite dotted_join. destruct ls as [|l t].
    + rewrite app_nil_r. replace (n6_len buf <=? n6_len buf) with true by lia.
      unfold n6_len. rewrite Nat2Z.id, skipn_all. cbn. f_equal. lia.
    + replace (n6_len (buf ++ 46 :: join (l :: t)) <=? n6_len buf) with false by (pose proof (n6_len_nonneg (join (l :: t))); lens; lia).
      replace (buf ++ 46 :: join (l :: t)) with ((buf ++ [46]) ++ join (l :: t)) by (rewrite <- app_assoc; reflexivity).
      rewrite skipn_app_len by (rewrite app_length; cbn [length]; unfold n6_len; lia).
      f_equal. lens. lia.
  - unfold labels_wire. reflexivity.
  - exact Hok.
  - cbn [app]. lens. unfold labels_body in *. lia.
  - pose proof (body_len_ge ls Hok). rewrite !app_length. unfold n6_len in *. lia.
Qed.

(* ---------------------------------------------------------------- presentation form of clean labels *)
Lemma needs_pres_cons c l : needs_pres (c :: l) = false -> (c =? 46) = false /\ (c =? 92) = false /\ needs_pres l = false.
Proof. unfold needs_pres. cbn [existsb]. intros H. apply orb_false_iff in H as [H1 H2]. apply orb_false_iff in H1 as [? ?]. auto. Qed.

Lemma ap_label : forall l rest done cur sep, needs_pres l = false ->
  ap_loop (l ++ rest) 0 done cur sep = ap_loop rest 0 done (cur ++ l) (match l with [] => sep | _ => false end).
Proof.
  induction l as [|c l IH]; intros rest done cur sep H; [rewrite app_nil_r; reflexivity|].
  apply needs_pres_cons in H as (H46 & H92 & Hl). cbn [app ap_loop]. rewrite H46, H92.
  rewrite IH by exact Hl. replace ((cur ++ [c]) ++ l) with (cur ++ c :: l) by (rewrite <- app_assoc; reflexivity).
  destruct l; reflexivity.
Qed.

Definition clean_label (l : list Z) : Prop := label_ok l /\ needs_pres l = false.

Lemma join_snoc_cons a ls l : join ((a :: ls) ++ [l]) = a ++ 46 :: join (ls ++ [l]).
Proof. cbn [app join]. destruct (ls ++ [l]) eqn:E; [destruct ls; discriminate|reflexivity]. Qed.

Lemma ap_join : forall ls l done sep, Forall clean_label (ls ++ [l]) ->
  ap_loop (join (ls ++ [l])) 0 done [] sep = Ok (done ++ labels_body ls, l, false).
Proof.
  induction ls as [|a ls IH]; intros l done sep H.
  - cbn [app join]. inversion H as [|? ? [[Hl _] Hc] _]; subst.
    rewrite <- (app_nil_r l) at 1. rewrite ap_label by exact Hc. cbn [app ap_loop labels_body map concat]. rewrite app_nil_r.
    destruct l; [cbn in Hl; lia|reflexivity].
  - rewrite join_snoc_cons. inversion H as [|? ? [[Hl _] Hc] Ht]; subst.
    rewrite ap_label by exact Hc. cbn [app ap_loop Z.eqb].
    change (46 =? 46) with true. cbn iota. replace (n6_len a >? 63) with false by lia.
    rewrite IH by exact Ht. rewrite labels_body_cons, <- app_assoc. reflexivity.
Qed.

Lemma join_nonempty_head ls : ls <> [] -> Forall clean_label ls ->
  1 <= n6_len (join ls) /\ (nth 0 (join ls) 0 =? 46) = false.
Proof.
  destruct ls as [|a t]; [congruence|]. intros _ H. inversion H as [|? ? [[Hl _] Hc] _]; subst.
  destruct a as [|c a']; [cbn in Hl; lia|]. apply needs_pres_cons in Hc as (H46 & _ & _).
  cbn [join]. destruct t; cbn [app nth]; (split; [lens; pose proof (n6_len_nonneg a'); try pose proof (n6_len_nonneg (join (l :: t))); lia|exact H46]).
Qed.

Lemma pres_wire_clean ls : labels_okP ls -> Forall (fun l => needs_pres l = false) ls ->
  pres_wire (join ls) = Ok (labels_wire ls).
Proof.
  intros [Hok Hlen] Hc. unfold pres_wire.
  destruct ls as [|a t] eqn:Els; [reflexivity|]. rewrite <- Els in *.
  assert (Hcl : Forall clean_label ls).
  { apply Forall_forall. intros x Hx. split; [eapply Forall_forall in Hok; eauto|eapply Forall_forall in Hc; eauto]. }
  destruct (join_nonempty_head ls ltac:(subst; discriminate) Hcl) as [H1 H46].
  replace ((n6_len (join ls) =? 0) || ((n6_len (join ls) =? 1) && (nth 0 (join ls) 0 =? 46))) with false
    by (rewrite H46, andb_false_r; lia).
  destruct (@exists_last _ ls ltac:(subst; discriminate)) as (ls' & l & E). rewrite E in *.
  rewrite ap_join by exact Hcl.
  apply Forall_app in Hok as [_ Hl]. inversion Hl as [|? ? [Hl1 _] _]; subst.
  replace (n6_len l >? 63) with false by lia. cbn [app].
  unfold labels_wire in *. rewrite labels_body_app in *. cbn [labels_body map concat] in *. rewrite app_nil_r in *.
  replace (labels_body ls' ++ u8 (n6_len l) :: l ++ [0]) with ((labels_body ls' ++ u8 (n6_len l) :: l) ++ [0]) by (rewrite <- app_assoc; reflexivity).
  unfold labels_body in *.
  destruct (n6_len ((concat (map (fun l0 => u8 (n6_len l0) :: l0) ls') ++ u8 (n6_len l) :: l) ++ [0]) >? 255) eqn:E255; [lia|reflexivity].
Qed.

Lemma bytes_eqb_refl l : bytes_eqb l l = true.
Proof. induction l as [|x t IH]; [reflexivity|]. cbn. rewrite Z.eqb_refl. exact IH. Qed.

Lemma labels_size_loop_ok : forall ls size, Forall label_ok ls -> size + n6_len (labels_body ls) <= 255 ->
  labels_size_loop ls size = Ok (size + n6_len (labels_body ls)).
Proof.
  induction ls as [|l t IH]; intros size Hok Hlen; cbn [labels_size_loop].
  - cbn. f_equal. lia.
  - inversion Hok as [|? ? [Hl _] Ht]; subst. rewrite labels_body_cons in *. pose proof (n6_len_nonneg (labels_body t)).
    replace (n6_len l >? 63) with false by lia.
    replace (size + 1 + n6_len l >? 255) with false by (lens; lia).
    rewrite IH by (try assumption; lens; lia). f_equal. lens. lia.
Qed.

Lemma labels_size_ok ls : labels_okP ls -> labels_size ls = Ok (n6_len (labels_wire ls)).
Proof.
  intros [Hok Hlen]. unfold labels_size. unfold labels_wire in *. rewrite labels_size_loop_ok by (try assumption; lens; lia).
  f_equal. lens. lia.
Qed.

(* a name as the decoder presents it: the labels, the dotted name, and metadata exactly when some
   label holds a literal dot or backslash *)
Definition labels_none (m : option nmeta) : Prop := match m with Some m' => nm_labels m' = None | None => True end.

Definition wf_name (name : list Z) (m : option nmeta) (ls : list (list Z)) : Prop :=
  labels_okP ls /\ name = join ls /\
  (if existsb needs_pres ls then m = Some (mkNmeta (Some ls) name) else labels_none m).

Lemma existsb_false_Forall {A} (f : A -> bool) l : existsb f l = false -> Forall (fun x => f x = false) l.
Proof. induction l as [|x t IH]; cbn; [constructor|]. intros H. apply orb_false_iff in H as [? ?]. constructor; auto. Qed.

Lemma name_wire_wf name m ls : wf_name name m ls -> name_wire name m = Ok (labels_wire ls).
Proof.
  intros (Hok & -> & Hm). unfold name_wire. destruct (existsb needs_pres ls) eqn:E.
  - subst m. unfold use_preserved. cbn [nm_labels nm_orig]. rewrite bytes_eqb_refl.
    rewrite labels_size_ok by exact Hok. reflexivity.
  - assert (use_preserved (join ls) m = None) as ->.
    { unfold use_preserved. destruct m as [m'|]; [|reflexivity]. cbn in Hm. rewrite Hm. reflexivity. }
    apply pres_wire_clean; [exact Hok|apply existsb_false_Forall, E].
Qed.

(* ---------------------------------------------------------------- reading fields back *)
Lemma rdsl_mid pre mid post a b : a = n6_len pre -> b = n6_len pre + n6_len mid ->
  rdsl (pre ++ mid ++ post) a b = Ok mid.
Proof. intros. unfold rdsl. rewrite slice_mid by assumption. reflexivity. Qed.

Lemma rd16_mid pre v post i : 0 <= v < 65536 -> i = n6_len pre -> rd16 (pre ++ be_bytes 2 v ++ post) i = Ok v.
Proof.
  intros Hv ->. unfold rd16. rewrite rdsl_mid by (lens; lia). cbn [obind]. rewrite be_val_be_bytes.
  change (256 ^ Z.of_nat 2) with 65536. f_equal. lia.
Qed.

Lemma rd32_mid pre v post i : 0 <= v < 4294967296 -> i = n6_len pre -> rd32 (pre ++ be_bytes 4 v ++ post) i = Ok v.
Proof.
  intros Hv ->. unfold rd32. rewrite rdsl_mid by (lens; lia). cbn [obind]. rewrite be_val_be_bytes.
  change (256 ^ Z.of_nat 4) with 4294967296. f_equal. lia.
Qed.

(* ---------------------------------------------------------------- questions *)
Definition wf_q (q : question) : Prop :=
  exists ls, labels_okP ls /\ q_name q = join ls /\ q_meta q = q_meta_of (join ls) (meta_of ls) /\
             0 <= q_type q < 65536 /\ 0 <= q_class q < 65536.

Lemma wf_q_name q ls : labels_okP ls -> q_name q = join ls -> q_meta q = q_meta_of (join ls) (meta_of ls) ->
  wf_name (q_name q) (q_meta q) ls.
Proof.
  intros Hok Hn Hm. split; [exact Hok|]. split; [exact Hn|]. rewrite Hm, Hn. unfold q_meta_of, meta_of.
  destruct (existsb needs_pres ls); [reflexivity|exact I].
Qed.

Lemma q_roundtrip q pre post buf : wf_q q ->
  exists w ls, q_wire q = Ok w /\
    q_decode (pre ++ w ++ post) (n6_len pre) buf = Ok (q, n6_len pre + n6_len w, buf ++ dotted ls).
Proof.
  intros (ls & Hok & Hn & Hm & Ht & Hc). pose proof (wf_q_name q ls Hok Hn Hm) as Hw.
  unfold q_wire. rewrite (name_wire_wf _ _ _ Hw). cbn [obind].
  eexists. exists ls. split; [reflexivity|].
  unfold q_decode. rewrite <- app_assoc. rewrite decode_name_wire by exact Hok.
  pose proof (n6_len_nonneg (labels_wire ls)). pose proof (n6_len_nonneg pre). pose proof (n6_len_nonneg post).
  replace (n6_len (pre ++ labels_wire ls ++ (be_bytes 2 (q_type q) ++ be_bytes 2 (q_class q)) ++ post)
           <? n6_len pre + n6_len (labels_wire ls) + 4) with false by (lens; lia).
  replace (pre ++ labels_wire ls ++ (be_bytes 2 (q_type q) ++ be_bytes 2 (q_class q)) ++ post)
    with ((pre ++ labels_wire ls) ++ be_bytes 2 (q_type q) ++ (be_bytes 2 (q_class q) ++ post)) by (rewrite <- !app_assoc; reflexivity).
  rewrite rd16_mid by (try assumption; lens; lia). cbn [obind].
  replace ((pre ++ labels_wire ls) ++ be_bytes 2 (q_type q) ++ be_bytes 2 (q_class q) ++ post)
    with (((pre ++ labels_wire ls) ++ be_bytes 2 (q_type q)) ++ be_bytes 2 (q_class q) ++ post) by (rewrite <- !app_assoc; reflexivity).
  rewrite rd16_mid by (try assumption; lens; lia). cbn [obind].
  f_equal. apply triple_eq; [|lens; lia|reflexivity].
  destruct q as [qn qt qc qm]. cbn [q_name q_type q_class q_meta] in *. subst qn qm. reflexivity.
Qed.

(* ---------------------------------------------------------------- character strings *)
Definition txt_ok (t : list Z) : Prop := n6_len t <= 255 /\ bytes_ok t.

Lemma cs_loop_wire : forall txts pre fuel acc, Forall txt_ok txts -> (length txts < fuel)%nat ->
  cs_loop (pre ++ txts_wire txts) fuel (n6_len pre) acc = Ok (acc ++ txts).
Proof.
  induction txts as [|t r IH]; intros pre fuel acc Hok Hf; (destruct fuel as [|f]; [cbn in Hf; lia|]); cbn [cs_loop].
  - unfold txts_wire. cbn [map concat]. rewrite !app_nil_r. rewrite Z.eqb_refl. reflexivity.
  - inversion Hok as [|? ? [Hl Hb] Hr]; subst. unfold txts_wire in *. cbn [map concat].
    set (body := concat (map (fun t0 => u8 (n6_len t0) :: t0) r)) in *.
    pose proof (n6_len_nonneg t). pose proof (n6_len_nonneg body). pose proof (n6_len_nonneg pre).
    replace (n6_len pre =? n6_len (pre ++ (u8 (n6_len t) :: t) ++ body)) with false by (lens; lia).
    unfold rd8. cbn [app]. rewrite idx_mid by reflexivity. cbn [opt_out obind]. rewrite u8_small by lia.
    replace (n6_len pre + 1 + n6_len t >? n6_len (pre ++ n6_len t :: t ++ body)) with false by (lens; lia).
    replace (pre ++ n6_len t :: t ++ body) with ((pre ++ [n6_len t]) ++ t ++ body) by (rewrite <- !app_assoc; reflexivity).
    rewrite rdsl_mid by (lens; lia). cbn [obind].
    replace ((pre ++ [n6_len t]) ++ t ++ body) with (((pre ++ [n6_len t]) ++ t) ++ body) by (rewrite <- !app_assoc; reflexivity).
    replace (n6_len pre + 1 + n6_len t) with (n6_len ((pre ++ [n6_len t]) ++ t)) by (lens; lia).
    rewrite IH by (try assumption; cbn [length] in Hf; lia). rewrite <- app_assoc. reflexivity.
Qed.

Lemma char_strings_wire txts : Forall txt_ok txts -> char_strings (txts_wire txts) = Ok txts.
Proof.
  intros H. unfold char_strings. pose proof (cs_loop_wire txts [] (S (length (txts_wire txts))) [] H) as P.
  cbn [app] in P. change (n6_len []) with 0 in P. apply P.
  pose proof (txts_wire_len txts). pose proof (sum_len_nonneg txts). unfold n6_len in *. lia.
Qed.

(* ---------------------------------------------------------------- OPT options and SVCB parameters *)
Lemma opts_loop_wire : forall os pre fuel acc,
  Forall (fun o => 0 <= op_code o < 65536 /\ n6_len (op_data o) <= 65535 /\ bytes_ok (op_data o)) os -> (length os < fuel)%nat ->
  opts_loop (pre ++ opts_wire os) fuel (n6_len pre) acc = Ok (acc ++ os).
Proof.
  induction os as [|o r IH]; intros pre fuel acc Hok Hf; (destruct fuel as [|f]; [cbn in Hf; lia|]); cbn [opts_loop].
  - unfold opts_wire. cbn [map concat]. rewrite !app_nil_r. replace (n6_len pre <? n6_len pre) with false by lia. reflexivity.
  - inversion Hok as [|? ? (Hc & Hl & Hb) Hr]; subst. unfold opts_wire in *. cbn [map concat].
    set (body := concat (map (fun o0 => be_bytes 2 (op_code o0) ++ be_bytes 2 (u16 (n6_len (op_data o0))) ++ op_data o0) r)) in *.
    pose proof (n6_len_nonneg (op_data o)). pose proof (n6_len_nonneg body). pose proof (n6_len_nonneg pre).
    assert (Hu : u16 (n6_len (op_data o)) = n6_len (op_data o)) by (unfold u16; lia). rewrite Hu.
    replace (n6_len pre <? n6_len (pre ++ (be_bytes 2 (op_code o) ++ be_bytes 2 (n6_len (op_data o)) ++ op_data o) ++ body)) with true by (lens; lia).
    replace (n6_len (pre ++ (be_bytes 2 (op_code o) ++ be_bytes 2 (n6_len (op_data o)) ++ op_data o) ++ body) <? n6_len pre + 4) with false by (lens; lia).
    replace (pre ++ (be_bytes 2 (op_code o) ++ be_bytes 2 (n6_len (op_data o)) ++ op_data o) ++ body)
      with (pre ++ be_bytes 2 (op_code o) ++ (be_bytes 2 (n6_len (op_data o)) ++ op_data o ++ body)) by (rewrite <- !app_assoc; reflexivity).
    rewrite rd16_mid by (try assumption; reflexivity). cbn [obind].
    replace (pre ++ be_bytes 2 (op_code o) ++ be_bytes 2 (n6_len (op_data o)) ++ op_data o ++ body)
      with ((pre ++ be_bytes 2 (op_code o)) ++ be_bytes 2 (n6_len (op_data o)) ++ (op_data o ++ body)) by (rewrite <- !app_assoc; reflexivity).
    rewrite rd16_mid by (try (lens; lia); lia). cbn [obind].
    replace (n6_len pre + 4 + n6_len (op_data o) >? n6_len ((pre ++ be_bytes 2 (op_code o)) ++ be_bytes 2 (n6_len (op_data o)) ++ op_data o ++ body)) with false by (lens; lia).
    replace ((pre ++ be_bytes 2 (op_code o)) ++ be_bytes 2 (n6_len (op_data o)) ++ op_data o ++ body)
      with (((pre ++ be_bytes 2 (op_code o)) ++ be_bytes 2 (n6_len (op_data o))) ++ op_data o ++ body) by (rewrite <- !app_assoc; reflexivity).
    rewrite rdsl_mid by (lens; lia). cbn [obind].
    replace (((pre ++ be_bytes 2 (op_code o)) ++ be_bytes 2 (n6_len (op_data o))) ++ op_data o ++ body)
      with ((((pre ++ be_bytes 2 (op_code o)) ++ be_bytes 2 (n6_len (op_data o))) ++ op_data o) ++ body) by (rewrite <- !app_assoc; reflexivity).
    replace (n6_len pre + n6_len (op_data o) + 4) with (n6_len (((pre ++ be_bytes 2 (op_code o)) ++ be_bytes 2 (n6_len (op_data o))) ++ op_data o)) by (lens; lia).
    rewrite IH by (try assumption; cbn [length] in Hf; lia). rewrite <- app_assoc. destruct o. reflexivity.
Qed.

Lemma svc_loop_wire : forall ps pre fuel acc,
  Forall (fun p => 0 <= sp_key p < 65536 /\ n6_len (sp_value p) <= 65535 /\ bytes_ok (sp_value p)) ps -> (length ps < fuel)%nat ->
  svc_loop (pre ++ params_wire ps) fuel (n6_len pre) acc = Ok (acc ++ ps).
Proof.
  induction ps as [|o r IH]; intros pre fuel acc Hok Hf; (destruct fuel as [|f]; [cbn in Hf; lia|]); cbn [svc_loop].
  - unfold params_wire. cbn [map concat]. rewrite !app_nil_r. replace (n6_len pre <? n6_len pre) with false by lia. reflexivity.
  - inversion Hok as [|? ? (Hc & Hl & Hb) Hr]; subst. unfold params_wire in *. cbn [map concat].
    set (body := concat (map (fun o0 => be_bytes 2 (sp_key o0) ++ be_bytes 2 (u16 (n6_len (sp_value o0))) ++ sp_value o0) r)) in *.
    pose proof (n6_len_nonneg (sp_value o)). pose proof (n6_len_nonneg body). pose proof (n6_len_nonneg pre).
    assert (Hu : u16 (n6_len (sp_value o)) = n6_len (sp_value o)) by (unfold u16; lia). rewrite Hu.
    replace (n6_len pre <? n6_len (pre ++ (be_bytes 2 (sp_key o) ++ be_bytes 2 (n6_len (sp_value o)) ++ sp_value o) ++ body)) with true by (lens; lia).
    replace (n6_len pre + 4 >? n6_len (pre ++ (be_bytes 2 (sp_key o) ++ be_bytes 2 (n6_len (sp_value o)) ++ sp_value o) ++ body)) with false by (lens; lia).
    replace (pre ++ (be_bytes 2 (sp_key o) ++ be_bytes 2 (n6_len (sp_value o)) ++ sp_value o) ++ body)
      with (pre ++ be_bytes 2 (sp_key o) ++ (be_bytes 2 (n6_len (sp_value o)) ++ sp_value o ++ body)) by (rewrite <- !app_assoc; reflexivity).
    rewrite rd16_mid by (try assumption; reflexivity). cbn [obind].
    replace (pre ++ be_bytes 2 (sp_key o) ++ be_bytes 2 (n6_len (sp_value o)) ++ sp_value o ++ body)
      with ((pre ++ be_bytes 2 (sp_key o)) ++ be_bytes 2 (n6_len (sp_value o)) ++ (sp_value o ++ body)) by (rewrite <- !app_assoc; reflexivity).
    rewrite rd16_mid by (try (lens; lia); lia). cbn [obind].
    replace (n6_len pre + 4 + n6_len (sp_value o) >? n6_len ((pre ++ be_bytes 2 (sp_key o)) ++ be_bytes 2 (n6_len (sp_value o)) ++ sp_value o ++ body)) with false by (lens; lia).
    replace ((pre ++ be_bytes 2 (sp_key o)) ++ be_bytes 2 (n6_len (sp_value o)) ++ sp_value o ++ body)
      with (((pre ++ be_bytes 2 (sp_key o)) ++ be_bytes 2 (n6_len (sp_value o))) ++ sp_value o ++ body) by (rewrite <- !app_assoc; reflexivity).
    rewrite rdsl_mid by (lens; lia). cbn [obind].
    replace (((pre ++ be_bytes 2 (sp_key o)) ++ be_bytes 2 (n6_len (sp_value o))) ++ sp_value o ++ body)
      with ((((pre ++ be_bytes 2 (sp_key o)) ++ be_bytes 2 (n6_len (sp_value o))) ++ sp_value o) ++ body) by (rewrite <- !app_assoc; reflexivity).
    replace (n6_len pre + 4 + n6_len (sp_value o)) with (n6_len (((pre ++ be_bytes 2 (sp_key o)) ++ be_bytes 2 (n6_len (sp_value o))) ++ sp_value o)) by (lens; lia).
    rewrite IH by (try assumption; cbn [length] in Hf; lia). rewrite <- app_assoc. destruct o. reflexivity.
Qed.

Lemma rd8_mid pre (x : Z) post i : i = n6_len pre -> rd8 (pre ++ x :: post) i = Ok x.
Proof. intros. unfold rd8. rewrite idx_mid by assumption. reflexivity. Qed.

(* ---------------------------------------------------------------- records: the fixed part *)
Definition rr_base (ls0 : list (list Z)) (t c ttl : Z) (rd : list Z) : rr :=
  rr_meta_name (mkRR (join ls0) t c ttl (n6_len rd) rd [] [] [] [] [] soa0 srv0 mx0 naptr0 [] rrsig0 dnskey0 svcb0 uri0 [] None)
               (join ls0) (meta_of ls0).

Definition rr_hdr_wire (ls0 : list (list Z)) (t c ttl : Z) (rd : list Z) : list Z :=
  labels_wire ls0 ++ be_bytes 2 t ++ be_bytes 2 c ++ be_bytes 4 ttl ++ be_bytes 2 (u16 (n6_len rd)) ++ rd.

Lemma firstn_app_exact {A} (a b : list A) n : n = length a -> firstn n (a ++ b) = a.
Proof. intros ->. rewrite firstn_app, Nat.sub_diag, firstn_all. cbn. apply app_nil_r. Qed.

Lemma rr_decode_hdr pre post buf ls0 t c ttl rd :
  labels_okP ls0 -> 0 <= t < 65536 -> 0 <= c < 65536 -> 0 <= ttl < 4294967296 -> n6_len rd <= 65535 ->
  rr_decode (pre ++ rr_hdr_wire ls0 t c ttl rd ++ post) (n6_len pre) buf =
    if 0 <? n6_len rd then
      do (r', buf2) <- decode_rdata (rr_base ls0 t c ttl rd) (pre ++ rr_hdr_wire ls0 t c ttl rd)
                                    (n6_len pre + n6_len (labels_wire ls0) + 10) (buf ++ dotted ls0);
      Ok (r', n6_len pre + n6_len (rr_hdr_wire ls0 t c ttl rd), buf2)
    else Ok (rr_base ls0 t c ttl rd, n6_len pre + n6_len (rr_hdr_wire ls0 t c ttl rd), buf ++ dotted ls0).
Proof.
  intros Hok Ht Hc Httl Hrd. unfold rr_decode, rr_hdr_wire.
  set (nw := labels_wire ls0). set (dl := u16 (n6_len rd)).
  pose proof (n6_len_nonneg nw). pose proof (n6_len_nonneg pre). pose proof (n6_len_nonneg post). pose proof (n6_len_nonneg rd).
  assert (Hdl : dl = n6_len rd) by (unfold dl, u16; lia).
  replace (pre ++ (nw ++ be_bytes 2 t ++ be_bytes 2 c ++ be_bytes 4 ttl ++ be_bytes 2 dl ++ rd) ++ post)
    with (pre ++ nw ++ (be_bytes 2 t ++ be_bytes 2 c ++ be_bytes 4 ttl ++ be_bytes 2 dl ++ rd ++ post)) by (rewrite <- !app_assoc; reflexivity).
  unfold nw at 1. rewrite decode_name_wire by exact Hok. fold nw.
  set (data := pre ++ nw ++ be_bytes 2 t ++ be_bytes 2 c ++ be_bytes 4 ttl ++ be_bytes 2 dl ++ rd ++ post).
  assert (Hlen : n6_len data = n6_len pre + n6_len nw + 10 + n6_len rd + n6_len post) by (unfold data; lens; lia).
  replace (n6_len data <? n6_len pre + n6_len nw + 10) with false by lia.
  assert (E1 : rd16 data (n6_len pre + n6_len nw) = Ok t).
  { unfold data. replace (pre ++ nw ++ be_bytes 2 t ++ be_bytes 2 c ++ be_bytes 4 ttl ++ be_bytes 2 dl ++ rd ++ post)
      with ((pre ++ nw) ++ be_bytes 2 t ++ (be_bytes 2 c ++ be_bytes 4 ttl ++ be_bytes 2 dl ++ rd ++ post)) by (rewrite <- !app_assoc; reflexivity).
    apply rd16_mid; [assumption|lens; lia]. }
  assert (E2 : rd16 data (n6_len pre + n6_len nw + 2) = Ok c).
  { unfold data. replace (pre ++ nw ++ be_bytes 2 t ++ be_bytes 2 c ++ be_bytes 4 ttl ++ be_bytes 2 dl ++ rd ++ post)
      with (((pre ++ nw) ++ be_bytes 2 t) ++ be_bytes 2 c ++ (be_bytes 4 ttl ++ be_bytes 2 dl ++ rd ++ post)) by (rewrite <- !app_assoc; reflexivity).
    apply rd16_mid; [assumption|lens; lia]. }
  assert (E3 : rd32 data (n6_len pre + n6_len nw + 4) = Ok ttl).
  { unfold data. replace (pre ++ nw ++ be_bytes 2 t ++ be_bytes 2 c ++ be_bytes 4 ttl ++ be_bytes 2 dl ++ rd ++ post)
      with ((((pre ++ nw) ++ be_bytes 2 t) ++ be_bytes 2 c) ++ be_bytes 4 ttl ++ (be_bytes 2 dl ++ rd ++ post)) by (rewrite <- !app_assoc; reflexivity).
    apply rd32_mid; [assumption|lens; lia]. }
  assert (E4 : rd16 data (n6_len pre + n6_len nw + 8) = Ok dl).
  { unfold data. replace (pre ++ nw ++ be_bytes 2 t ++ be_bytes 2 c ++ be_bytes 4 ttl ++ be_bytes 2 dl ++ rd ++ post)
      with (((((pre ++ nw) ++ be_bytes 2 t) ++ be_bytes 2 c) ++ be_bytes 4 ttl) ++ be_bytes 2 dl ++ (rd ++ post)) by (rewrite <- !app_assoc; reflexivity).
    apply rd16_mid; [lia|lens; lia]. }
  rewrite E1. cbn [obind]. rewrite E2. cbn [obind]. rewrite E3. cbn [obind]. rewrite E4. cbn [obind].
  replace (n6_len pre + n6_len nw + 10 + dl >? n6_len data) with false by lia.
  assert (E5 : rdsl data (n6_len pre + n6_len nw + 10) (n6_len pre + n6_len nw + 10 + dl) = Ok rd).
  { unfold data. replace (pre ++ nw ++ be_bytes 2 t ++ be_bytes 2 c ++ be_bytes 4 ttl ++ be_bytes 2 dl ++ rd ++ post)
      with ((((((pre ++ nw) ++ be_bytes 2 t) ++ be_bytes 2 c) ++ be_bytes 4 ttl) ++ be_bytes 2 dl) ++ rd ++ post) by (rewrite <- !app_assoc; reflexivity).
    apply rdsl_mid; lens; lia. }
  rewrite E5. cbn [obind]. rewrite Hdl. fold (rr_base ls0 t c ttl rd).
  assert (Ew : n6_len pre + n6_len nw + 10 + n6_len rd = n6_len pre + n6_len (nw ++ be_bytes 2 t ++ be_bytes 2 c ++ be_bytes 4 ttl ++ be_bytes 2 (n6_len rd) ++ rd))
    by (lens; lia).
  destruct (0 <? n6_len rd) eqn:E0.
  - assert (E6 : rdsl data 0 (n6_len pre + n6_len nw + 10 + n6_len rd) = Ok (pre ++ nw ++ be_bytes 2 t ++ be_bytes 2 c ++ be_bytes 4 ttl ++ be_bytes 2 (n6_len rd) ++ rd)).
    { rewrite rdsl_ok by lia. f_equal. unfold slice. cbn [Z.to_nat skipn]. unfold data. rewrite Hdl.
      replace (pre ++ nw ++ be_bytes 2 t ++ be_bytes 2 c ++ be_bytes 4 ttl ++ be_bytes 2 (n6_len rd) ++ rd ++ post)
        with ((pre ++ nw ++ be_bytes 2 t ++ be_bytes 2 c ++ be_bytes 4 ttl ++ be_bytes 2 (n6_len rd) ++ rd) ++ post) by (rewrite <- !app_assoc; reflexivity).
      apply firstn_app_exact. rewrite !app_length, !be_bytes_length. unfold n6_len. lia. }
    rewrite E6. cbn [obind]. rewrite <- Ew. reflexivity.
  - rewrite <- Ew. reflexivity.
Qed.

(* ---------------------------------------------------------------- records: RDATA by type *)
Definition nm_of (name : list Z) (l : labels) : nmeta := match l with Some ls => new_meta name ls | None => nmeta0 end.

(* the private metadata block as decode builds it: absent unless some name needs preservation *)
Definition canon_names (n0 : list Z) (l0 : labels) (n1 : list Z) (l1 : labels) (n2 : list Z) (l2 : labels) : option rmeta :=
  match l0, l1, l2 with
  | None, None, None => None
  | _, _, _ => Some (mkRmeta (nm_of n0 l0) (nm_of n1 l1) (nm_of n2 l2))
  end.

Definition u16_ok (x : Z) : Prop := 0 <= x < 65536.
Definition u32_ok (x : Z) : Prop := 0 <= x < 4294967296.

Definition opt_ok (o : dopt) : Prop := 0 <= op_code o < 65536 /\ n6_len (op_data o) <= 65535 /\ bytes_ok (op_data o).
Definition param_ok (p : svcparam) : Prop := 0 <= sp_key p < 65536 /\ n6_len (sp_value p) <= 65535 /\ bytes_ok (sp_value p).

(* the type-specific part of a well-formed record: ls1, ls2 = the labels of its RDATA names *)
Definition wf_rdata (r : rr) (ls1 ls2 : list (list Z)) : Prop :=
  let t := r_type r in
  if t =? T_A then n6_len (r_ip r) = 4 /\ bytes_ok (r_ip r) /\ ls1 = [] /\ ls2 = []
  else if t =? T_AAAA then n6_len (r_ip r) = 16 /\ bytes_ok (r_ip r) /\ ls1 = [] /\ ls2 = []
  else if t =? T_NS then labels_okP ls1 /\ r_ns r = join ls1 /\ ls2 = []
  else if t =? T_CNAME then labels_okP ls1 /\ r_cname r = join ls1 /\ ls2 = []
  else if t =? T_PTR then labels_okP ls1 /\ r_ptr r = join ls1 /\ ls2 = []
  else if t =? T_SOA then
    labels_okP ls1 /\ labels_okP ls2 /\ so_mname (r_soa r) = join ls1 /\ so_rname (r_soa r) = join ls2 /\
    u32_ok (so_serial (r_soa r)) /\ u32_ok (so_refresh (r_soa r)) /\ u32_ok (so_retry (r_soa r)) /\
    u32_ok (so_expire (r_soa r)) /\ u32_ok (so_minimum (r_soa r))
  else if t =? T_MX then labels_okP ls1 /\ mx_name (r_mx r) = join ls1 /\ u16_ok (mx_pref (r_mx r)) /\ ls2 = []
  else if t =? T_TXT then Forall txt_ok (r_txts r) /\ n6_len (txts_wire (r_txts r)) <= 65535 /\ ls1 = [] /\ ls2 = []
  else if t =? T_SRV then
    labels_okP ls1 /\ sv_name (r_srv r) = join ls1 /\ u16_ok (sv_prio (r_srv r)) /\ u16_ok (sv_weight (r_srv r)) /\
    u16_ok (sv_port (r_srv r)) /\ ls2 = []
  else if t =? T_NAPTR then
    labels_okP ls1 /\ na_repl (r_naptr r) = join ls1 /\ u16_ok (na_order (r_naptr r)) /\ u16_ok (na_pref (r_naptr r)) /\
    txt_ok (na_flags (r_naptr r)) /\ txt_ok (na_service (r_naptr r)) /\ txt_ok (na_regexp (r_naptr r)) /\ ls2 = []
  else if t =? T_URI then
    u16_ok (u_prio (r_uri r)) /\ u16_ok (u_weight (r_uri r)) /\ bytes_ok (u_target (r_uri r)) /\
    n6_len (u_target (r_uri r)) + 4 <= 65535 /\ ls1 = [] /\ ls2 = []
  else if t =? T_OPT then
    Forall opt_ok (r_opt r) /\ n6_len (opts_wire (r_opt r)) <= 65535 /\ ls1 = [] /\ ls2 = []
  else if t =? T_RRSIG then
    let g := r_rrsig r in
    labels_okP ls1 /\ sg_signer g = join ls1 /\ u16_ok (sg_covered g) /\ 0 <= sg_alg g < 256 /\ 0 <= sg_labels g < 256 /\
    u32_ok (sg_ottl g) /\ u32_ok (sg_exp g) /\ u32_ok (sg_inc g) /\ u16_ok (sg_tag g) /\ bytes_ok (sg_sig g) /\
    18 + n6_len (labels_wire ls1) + n6_len (sg_sig g) <= 65535 /\ ls2 = []
  else if t =? T_DNSKEY then
    let k := r_dnskey r in
    u16_ok (dk_flags k) /\ 0 <= dk_proto k < 256 /\ 0 <= dk_alg k < 256 /\ bytes_ok (dk_key k) /\
    n6_len (dk_key k) + 4 <= 65535 /\ ls1 = [] /\ ls2 = []
  else if (t =? T_SVCB) || (t =? T_HTTPS) then
    labels_okP ls1 /\ sb_target (r_svcb r) = join ls1 /\ u16_ok (sb_prio (r_svcb r)) /\ Forall param_ok (sb_params (r_svcb r)) /\
    2 + n6_len (labels_wire ls1) + n6_len (params_wire (sb_params (r_svcb r))) <= 65535 /\ ls2 = []
  else False.

Definition wf_rr (r : rr) : Prop :=
  exists ls0 ls1 ls2,
    labels_okP ls0 /\ r_name r = join ls0 /\ u16_ok (r_type r) /\ u16_ok (r_class r) /\ u32_ok (r_ttl r) /\
    r_names r = canon_names (join ls0) (meta_of ls0) (join ls1) (meta_of ls1) (join ls2) (meta_of ls2) /\
    wf_rdata r ls1 ls2.

(* "the same fields": everything a record of that type carries, the private name metadata included;
   DataLength/Data (and the raw TXT copy) describe the wire form and are excluded *)
Definition rdata_same (r r2 : rr) : Prop :=
  let t := r_type r in
  if (t =? T_A) || (t =? T_AAAA) then r_ip r2 = r_ip r
  else if t =? T_NS then r_ns r2 = r_ns r
  else if t =? T_CNAME then r_cname r2 = r_cname r
  else if t =? T_PTR then r_ptr r2 = r_ptr r
  else if t =? T_SOA then r_soa r2 = r_soa r
  else if t =? T_MX then r_mx r2 = r_mx r
  else if t =? T_TXT then r_txts r2 = r_txts r
  else if t =? T_SRV then r_srv r2 = r_srv r
  else if t =? T_NAPTR then r_naptr r2 = r_naptr r
  else if t =? T_URI then r_uri r2 = r_uri r
  else if t =? T_OPT then r_opt r2 = r_opt r
  else if t =? T_RRSIG then r_rrsig r2 = r_rrsig r
  else if t =? T_DNSKEY then r_dnskey r2 = r_dnskey r
  else if (t =? T_SVCB) || (t =? T_HTTPS) then r_svcb r2 = r_svcb r
  else True.

Definition rr_same (r r2 : rr) : Prop :=
  r_name r2 = r_name r /\ r_type r2 = r_type r /\ r_class r2 = r_class r /\ r_ttl r2 = r_ttl r /\
  r_names r2 = r_names r /\ rdata_same r r2.

Lemma decode_name_wire0 ls P buf : labels_okP ls ->
  decode_name (P ++ labels_wire ls) (n6_len P) buf = NOk (join ls) (meta_of ls) (n6_len P + n6_len (labels_wire ls)) (buf ++ dotted ls).
Proof. intros H. rewrite <- (app_nil_r (labels_wire ls)) at 1. apply decode_name_wire, H. Qed.

Lemma rd_name_wire ls P post buf : labels_okP ls ->
  rd_name (P ++ labels_wire ls ++ post) (n6_len P) buf = Ok (join ls, meta_of ls, n6_len P + n6_len (labels_wire ls), buf ++ dotted ls).
Proof. intros H. unfold rd_name. rewrite decode_name_wire by exact H. reflexivity. Qed.

Lemma meta_of_nil : meta_of [] = None. Proof. reflexivity. Qed.

Ltac wfsplit H := repeat match type of H with _ /\ _ => let H1 := fresh "W" in destruct H as [H1 H] end.

Lemma rr_base_type ls0 t c ttl rd : r_type (rr_base ls0 t c ttl rd) = t.
Proof. unfold rr_base, rr_meta_name. destruct (meta_of ls0); reflexivity. Qed.
Lemma rr_base_data ls0 t c ttl rd : r_data (rr_base ls0 t c ttl rd) = rd.
Proof. unfold rr_base, rr_meta_name. destruct (meta_of ls0); reflexivity. Qed.

(* the record round trip reduced to the RDATA round trip *)
Lemma rr_roundtrip_via r pre post buf ls0 rd :
  labels_okP ls0 -> r_name r = join ls0 -> u16_ok (r_type r) -> u16_ok (r_class r) -> u32_ok (r_ttl r) ->
  wf_name (r_name r) (owner_meta r) ls0 ->
  rdata_wire r = Ok rd -> n6_len rd <= 65535 ->
  (forall P buf1, 0 < n6_len rd -> exists r2 buf2,
      decode_rdata (rr_base ls0 (r_type r) (r_class r) (r_ttl r) rd) (P ++ rd) (n6_len P) buf1 = Ok (r2, buf2) /\ rr_same r r2) ->
  (n6_len rd = 0 -> rr_same r (rr_base ls0 (r_type r) (r_class r) (r_ttl r) rd)) ->
  exists w r2 buf2, rr_wire r = Ok w /\
    rr_decode (pre ++ w ++ post) (n6_len pre) buf = Ok (r2, n6_len pre + n6_len w, buf2) /\ rr_same r r2.
Proof.
  intros Hok0 Hn0 Ht Hc Httl Hwf0 Hrd Hlen Hdec Hzero.
  unfold rr_wire. rewrite (name_wire_wf _ _ _ Hwf0), Hrd. cbn [obind].
  pose proof (rr_decode_hdr pre post buf ls0 (r_type r) (r_class r) (r_ttl r) rd Hok0 Ht Hc Httl Hlen) as P.
  unfold rr_hdr_wire in P. pose proof (n6_len_nonneg rd).
  destruct (0 <? n6_len rd) eqn:E0.
  - specialize (Hdec (pre ++ labels_wire ls0 ++ be_bytes 2 (r_type r) ++ be_bytes 2 (r_class r) ++ be_bytes 4 (r_ttl r) ++ be_bytes 2 (u16 (n6_len rd)))
                     (buf ++ dotted ls0) ltac:(lia)).
    destruct Hdec as (r2 & buf2 & Hd & Hs).
    replace (pre ++ labels_wire ls0 ++ be_bytes 2 (r_type r) ++ be_bytes 2 (r_class r) ++ be_bytes 4 (r_ttl r) ++ be_bytes 2 (u16 (n6_len rd)) ++ rd)
      with ((pre ++ labels_wire ls0 ++ be_bytes 2 (r_type r) ++ be_bytes 2 (r_class r) ++ be_bytes 4 (r_ttl r) ++ be_bytes 2 (u16 (n6_len rd))) ++ rd) in P
      by (rewrite <- !app_assoc; reflexivity).
    replace (n6_len pre + n6_len (labels_wire ls0) + 10)
      with (n6_len (pre ++ labels_wire ls0 ++ be_bytes 2 (r_type r) ++ be_bytes 2 (r_class r) ++ be_bytes 4 (r_ttl r) ++ be_bytes 2 (u16 (n6_len rd)))) in P
      by (lens; lia).
    rewrite Hd in P. cbn [obind] in P.
    eexists. exists r2, buf2. split; [reflexivity|]. split; [exact P|exact Hs].
  - eexists. eexists. eexists. split; [reflexivity|]. split; [exact P|]. apply Hzero. lia.
Qed.

Ltac names_eq Hnames Hn0 :=
  rewrite Hnames; rewrite ?meta_of_nil; unfold rr_base, rr_meta_name, rr_meta_rdata, rr_meta_rdata2, rr_ensure, canon_names, nm_of;
  repeat match goal with |- context [meta_of ?l] => destruct (meta_of l) end; cbn; rewrite ?Hn0; reflexivity.

Lemma rd_name_wire0 ls P buf : labels_okP ls ->
  rd_name (P ++ labels_wire ls) (n6_len P) buf = Ok (join ls, meta_of ls, n6_len P + n6_len (labels_wire ls), buf ++ dotted ls).
Proof. intros H. unfold rd_name. rewrite decode_name_wire0 by exact H. reflexivity. Qed.

(* reduce the tests on a known record type *)
Ltac tyred := cbv beta iota delta [T_A T_AAAA T_TXT T_HINFO T_NS T_CNAME T_PTR T_SOA T_MX T_SRV T_URI T_NAPTR T_OPT T_RRSIG
                                   T_DNSKEY T_SVCB T_HTTPS Z.eqb Pos.eqb orb].

Ltac tyred_c T := repeat match goal with |- context [T =? ?x] => let v := eval vm_compute in (T =? x) in change (T =? x) with v end; cbn [orb].

Ltac same_fields Ety Hnames Hn0 :=
  unfold rr_same, rdata_same; rewrite Ety; tyred;
  repeat split; try (unfold rr_base, rr_meta_name, rr_meta_rdata, rr_meta_rdata2; repeat match goal with |- context [meta_of ?l] => destruct (meta_of l) end; cbn; rewrite ?Hn0; congruence);
  try names_eq Hnames Hn0.

Lemma naptr_str_wire pre t post off : txt_ok t -> off = n6_len pre ->
  naptr_str (pre ++ u8 (n6_len t) :: t ++ post) off = Ok (t, n6_len pre + 1 + n6_len t).
Proof.
  intros [Hl Hb] ->. unfold naptr_str. pose proof (n6_len_nonneg t). pose proof (n6_len_nonneg pre). pose proof (n6_len_nonneg post).
  replace (n6_len (pre ++ u8 (n6_len t) :: t ++ post) <? n6_len pre + 1) with false by (lens; lia).
  rewrite rd8_mid by reflexivity. cbn [obind]. rewrite u8_small by lia.
  replace (n6_len (pre ++ n6_len t :: t ++ post) <? n6_len pre + 1 + n6_len t) with false by (lens; lia).
  replace (pre ++ n6_len t :: t ++ post) with ((pre ++ [n6_len t]) ++ t ++ post) by (rewrite <- !app_assoc; reflexivity).
  rewrite rdsl_mid by (lens; lia). reflexivity.
Qed.

Lemma signer_of_dotted ls : labels_okP ls ->
  (if 1 <? n6_len (dotted ls) then skipn 1 (dotted ls) else dotted ls) = join ls.
Proof.
  intros [Hok _]. rewrite dotted_join. destruct ls as [|l t]; [reflexivity|].
  inversion Hok as [|? ? [Hl _] _]; subst.
  assert (1 <= n6_len (join (l :: t))).
  { cbn [join]. destruct t; [lia|]. pose proof (n6_len_nonneg (join (l0 :: t))). lens. lia. }
  replace (1 <? n6_len (46 :: join (l :: t))) with true by (lens; lia). reflexivity.
Qed.

Lemma opts_wire_ge os : Z.of_nat (length os) <= n6_len (opts_wire os).
Proof. rewrite opts_wire_len. pose proof (sum_len_nonneg (map op_data os)). lia. Qed.

Lemma params_wire_ge ps : Z.of_nat (length ps) <= n6_len (params_wire ps).
Proof.
  induction ps as [|p t IH]; [cbn; lia|]. unfold params_wire in *. cbn [map concat length].
  pose proof (n6_len_nonneg (sp_value p)). lens. lia.
Qed.

(* a well-formed record: its wire form, and what decoding that wire form (anywhere in a message,
   with any name buffer) gives *)
Lemma rr_roundtrip r pre post buf : wf_rr r ->
  exists w r2 buf2, rr_wire r = Ok w /\
    rr_decode (pre ++ w ++ post) (n6_len pre) buf = Ok (r2, n6_len pre + n6_len w, buf2) /\ rr_same r r2.
Proof.
  intros (ls0 & ls1 & ls2 & Hok0 & Hn0 & Ht & Hc & Httl & Hnames & Hrd).
  assert (Hwf0 : wf_name (r_name r) (owner_meta r) ls0).
  { split; [exact Hok0|]. split; [exact Hn0|]. unfold owner_meta. rewrite Hnames, Hn0. unfold canon_names, meta_of.
    destruct (existsb needs_pres ls0); [reflexivity|].
    destruct (existsb needs_pres ls1), (existsb needs_pres ls2); cbn; reflexivity. }
  assert (Hwf1 : forall n, n = join ls1 -> labels_okP ls1 -> wf_name n (rdata_meta r) ls1).
  { intros n -> Hok1. split; [exact Hok1|]. split; [reflexivity|]. unfold rdata_meta. rewrite Hnames. unfold canon_names, meta_of.
    destruct (existsb needs_pres ls1); [destruct (existsb needs_pres ls0); reflexivity|].
    destruct (existsb needs_pres ls0), (existsb needs_pres ls2); cbn; reflexivity. }
  assert (Hwf2 : forall n, n = join ls2 -> labels_okP ls2 -> wf_name n (rdata2_meta r) ls2).
  { intros n -> Hok2. split; [exact Hok2|]. split; [reflexivity|]. unfold rdata2_meta. rewrite Hnames. unfold canon_names, meta_of.
    destruct (existsb needs_pres ls2); [destruct (existsb needs_pres ls0), (existsb needs_pres ls1); reflexivity|].
    destruct (existsb needs_pres ls0), (existsb needs_pres ls1); cbn; reflexivity. }
  unfold wf_rdata in Hrd.
  destruct (r_type r =? T_A) eqn:EA.
  { wfsplit Hrd. subst ls1 ls2.
    apply (rr_roundtrip_via r pre post buf ls0 (r_ip r)); try assumption; try lia.
    - unfold rdata_wire, to4. rewrite EA. replace (n6_len (r_ip r) =? 4) with true by lia. reflexivity.
    - intros P buf1 _. unfold decode_rdata. rewrite rr_base_type, EA. cbn [orb]. eexists. eexists. split; [reflexivity|].
      unfold rr_same, rdata_same. rewrite EA. cbn [orb]. repeat split; try (unfold rr_base, rr_meta_name; destruct (meta_of ls0); cbn; rewrite ?Hn0; reflexivity).
      names_eq Hnames Hn0. }
  destruct (r_type r =? T_AAAA) eqn:EAAAA.
  { wfsplit Hrd. subst ls1 ls2.
    apply (rr_roundtrip_via r pre post buf ls0 (r_ip r)); try assumption; try lia.
    - unfold rdata_wire, to16. rewrite EA, EAAAA. replace (n6_len (r_ip r) =? 4) with false by lia. replace (n6_len (r_ip r) =? 16) with true by lia. reflexivity.
    - intros P buf1 _. unfold decode_rdata. rewrite rr_base_type, EA, EAAAA. cbn [orb]. eexists. eexists. split; [reflexivity|].
      unfold rr_same, rdata_same. rewrite EA, EAAAA. cbn [orb]. repeat split; try (unfold rr_base, rr_meta_name; destruct (meta_of ls0); cbn; rewrite ?Hn0; reflexivity).
      names_eq Hnames Hn0. }
  destruct (r_type r =? T_NS) eqn:ENS.
  { wfsplit Hrd. subst ls2. assert (Ety : r_type r = T_NS) by (apply Z.eqb_eq; assumption).
    assert (Hl1 : n6_len (labels_wire ls1) <= 255) by apply W.
    apply (rr_roundtrip_via r pre post buf ls0 (labels_wire ls1)); try assumption; try lia.
    - unfold rdata_wire. rewrite EA, EAAAA, ENS. apply name_wire_wf, Hwf1; assumption.
    - intros P buf1 _. unfold decode_rdata. rewrite rr_base_type, Ety. tyred. rewrite rd_name_wire0 by exact W. cbn [obind].
      eexists. eexists. split; [reflexivity|]. same_fields Ety Hnames Hn0.
    - intros Hz. pose proof (n6_len_nonneg (labels_body ls1)). unfold labels_wire in Hz. lens. lia. }
  destruct (r_type r =? T_CNAME) eqn:ECN.
  { wfsplit Hrd. subst ls2. assert (Ety : r_type r = T_CNAME) by (apply Z.eqb_eq; assumption).
    assert (Hl1 : n6_len (labels_wire ls1) <= 255) by apply W.
    apply (rr_roundtrip_via r pre post buf ls0 (labels_wire ls1)); try assumption; try lia.
    - unfold rdata_wire. rewrite EA, EAAAA, ENS, ECN. apply name_wire_wf, Hwf1; assumption.
    - intros P buf1 _. unfold decode_rdata. rewrite rr_base_type, Ety. tyred. rewrite rd_name_wire0 by exact W. cbn [obind].
      eexists. eexists. split; [reflexivity|]. same_fields Ety Hnames Hn0.
    - intros Hz. pose proof (n6_len_nonneg (labels_body ls1)). unfold labels_wire in Hz. lens. lia. }
  destruct (r_type r =? T_PTR) eqn:EPTR.
  { wfsplit Hrd. subst ls2. assert (Ety : r_type r = T_PTR) by (apply Z.eqb_eq; assumption).
    assert (Hl1 : n6_len (labels_wire ls1) <= 255) by apply W.
    apply (rr_roundtrip_via r pre post buf ls0 (labels_wire ls1)); try assumption; try lia.
    - unfold rdata_wire. rewrite EA, EAAAA, ENS, ECN, EPTR. apply name_wire_wf, Hwf1; assumption.
    - intros P buf1 _. unfold decode_rdata. rewrite rr_base_type, Ety. tyred. rewrite rd_name_wire0 by exact W. cbn [obind].
      eexists. eexists. split; [reflexivity|]. same_fields Ety Hnames Hn0.
    - intros Hz. pose proof (n6_len_nonneg (labels_body ls1)). unfold labels_wire in Hz. lens. lia. }
  destruct (r_type r =? T_SOA) eqn:ESOA.
  { destruct Hrd as (W1 & W2 & Wm & Wr & Ws1 & Ws2 & Ws3 & Ws4 & Ws5).
    assert (Ety : r_type r = T_SOA) by (apply Z.eqb_eq; assumption).
    assert (Hl1 : n6_len (labels_wire ls1) <= 255) by apply W1. assert (Hl2 : n6_len (labels_wire ls2) <= 255) by apply W2.
    pose proof (n6_len_nonneg (labels_wire ls1)). pose proof (n6_len_nonneg (labels_wire ls2)).
    set (tail := be_bytes 4 (so_serial (r_soa r)) ++ be_bytes 4 (so_refresh (r_soa r)) ++ be_bytes 4 (so_retry (r_soa r)) ++ be_bytes 4 (so_expire (r_soa r)) ++ be_bytes 4 (so_minimum (r_soa r))).
    assert (Htl : n6_len tail = 20) by (unfold tail; lens; lia).
    apply (rr_roundtrip_via r pre post buf ls0 (labels_wire ls1 ++ labels_wire ls2 ++ tail)); try assumption; try (lens; lia).
    - unfold rdata_wire. rewrite EA, EAAAA, ENS, ECN, EPTR, ESOA.
      rewrite (name_wire_wf _ _ _ (Hwf1 _ Wm W1)), (name_wire_wf _ _ _ (Hwf2 _ Wr W2)). reflexivity.
    - intros P buf1 _. unfold decode_rdata. rewrite rr_base_type, Ety. tyred.
      pose proof (n6_len_nonneg P).
      rewrite rd_name_wire by exact W1. cbn [obind].
      replace (P ++ labels_wire ls1 ++ labels_wire ls2 ++ tail) with ((P ++ labels_wire ls1) ++ labels_wire ls2 ++ tail) by (rewrite <- !app_assoc; reflexivity).
      replace (n6_len P + n6_len (labels_wire ls1)) with (n6_len (P ++ labels_wire ls1)) by (lens; lia).
      rewrite rd_name_wire by exact W2. cbn [obind].
      set (Q := (P ++ labels_wire ls1) ++ labels_wire ls2). 
      replace ((P ++ labels_wire ls1) ++ labels_wire ls2 ++ tail) with (Q ++ tail) by (unfold Q; rewrite <- !app_assoc; reflexivity).
      replace (n6_len (P ++ labels_wire ls1) + n6_len (labels_wire ls2)) with (n6_len Q) by (unfold Q; lens; lia).
      replace (n6_len (Q ++ tail) <? n6_len Q + 20) with false by (lens; lia).
      unfold tail.
      rewrite (rd32_mid Q) by (try apply Ws1; reflexivity). cbn [obind].
      replace (Q ++ be_bytes 4 (so_serial (r_soa r)) ++ be_bytes 4 (so_refresh (r_soa r)) ++ be_bytes 4 (so_retry (r_soa r)) ++ be_bytes 4 (so_expire (r_soa r)) ++ be_bytes 4 (so_minimum (r_soa r)))
        with ((Q ++ be_bytes 4 (so_serial (r_soa r))) ++ be_bytes 4 (so_refresh (r_soa r)) ++ (be_bytes 4 (so_retry (r_soa r)) ++ be_bytes 4 (so_expire (r_soa r)) ++ be_bytes 4 (so_minimum (r_soa r)))) by (rewrite <- !app_assoc; reflexivity).
      rewrite rd32_mid by (try apply Ws2; lens; lia). cbn [obind].
      replace ((Q ++ be_bytes 4 (so_serial (r_soa r))) ++ be_bytes 4 (so_refresh (r_soa r)) ++ be_bytes 4 (so_retry (r_soa r)) ++ be_bytes 4 (so_expire (r_soa r)) ++ be_bytes 4 (so_minimum (r_soa r)))
        with (((Q ++ be_bytes 4 (so_serial (r_soa r))) ++ be_bytes 4 (so_refresh (r_soa r))) ++ be_bytes 4 (so_retry (r_soa r)) ++ (be_bytes 4 (so_expire (r_soa r)) ++ be_bytes 4 (so_minimum (r_soa r)))) by (rewrite <- !app_assoc; reflexivity).
      rewrite rd32_mid by (try apply Ws3; lens; lia). cbn [obind].
      replace (((Q ++ be_bytes 4 (so_serial (r_soa r))) ++ be_bytes 4 (so_refresh (r_soa r))) ++ be_bytes 4 (so_retry (r_soa r)) ++ be_bytes 4 (so_expire (r_soa r)) ++ be_bytes 4 (so_minimum (r_soa r)))
        with ((((Q ++ be_bytes 4 (so_serial (r_soa r))) ++ be_bytes 4 (so_refresh (r_soa r))) ++ be_bytes 4 (so_retry (r_soa r))) ++ be_bytes 4 (so_expire (r_soa r)) ++ (be_bytes 4 (so_minimum (r_soa r)))) by (rewrite <- !app_assoc; reflexivity).
      rewrite rd32_mid by (try apply Ws4; lens; lia). cbn [obind].
      replace ((((Q ++ be_bytes 4 (so_serial (r_soa r))) ++ be_bytes 4 (so_refresh (r_soa r))) ++ be_bytes 4 (so_retry (r_soa r))) ++ be_bytes 4 (so_expire (r_soa r)) ++ be_bytes 4 (so_minimum (r_soa r)))
        with (((((Q ++ be_bytes 4 (so_serial (r_soa r))) ++ be_bytes 4 (so_refresh (r_soa r))) ++ be_bytes 4 (so_retry (r_soa r))) ++ be_bytes 4 (so_expire (r_soa r))) ++ be_bytes 4 (so_minimum (r_soa r)) ++ []) by (rewrite <- !app_assoc, app_nil_r; reflexivity).
      rewrite rd32_mid by (try apply Ws5; lens; lia). cbn [obind].
      eexists. eexists. split; [reflexivity|].
      unfold rr_same, rdata_same. rewrite Ety. tyred.
      repeat split; try (unfold rr_base, rr_meta_name, rr_meta_rdata, rr_meta_rdata2; repeat match goal with |- context [meta_of ?l] => destruct (meta_of l) end; cbn; rewrite ?Hn0; congruence).
      + names_eq Hnames Hn0.
      + rewrite <- Wm, <- Wr. destruct (r_soa r). unfold rr_base, rr_meta_name, rr_meta_rdata, rr_meta_rdata2;
          repeat match goal with |- context [meta_of ?l] => destruct (meta_of l) end; reflexivity. }
  destruct (r_type r =? T_MX) eqn:EMX.
  { destruct Hrd as (W1 & Wn & Wp & ->).
    assert (Ety : r_type r = T_MX) by (apply Z.eqb_eq; assumption).
    assert (Hl1 : n6_len (labels_wire ls1) <= 255) by apply W1. pose proof (n6_len_nonneg (labels_wire ls1)).
    apply (rr_roundtrip_via r pre post buf ls0 (be_bytes 2 (mx_pref (r_mx r)) ++ labels_wire ls1)); try assumption; try (lens; lia).
    - unfold rdata_wire. rewrite EA, EAAAA, ENS, ECN, EPTR, ESOA, EMX.
      rewrite (name_wire_wf _ _ _ (Hwf1 _ Wn W1)). reflexivity.
    - intros P buf1 _. unfold decode_rdata. rewrite rr_base_type, Ety. tyred. pose proof (n6_len_nonneg P).
      replace (n6_len (P ++ be_bytes 2 (mx_pref (r_mx r)) ++ labels_wire ls1) <? n6_len P + 2) with false by (lens; lia).
      rewrite rd16_mid by (try apply Wp; reflexivity). cbn [obind].
      replace (P ++ be_bytes 2 (mx_pref (r_mx r)) ++ labels_wire ls1) with ((P ++ be_bytes 2 (mx_pref (r_mx r))) ++ labels_wire ls1) by (rewrite <- !app_assoc; reflexivity).
      replace (n6_len P + 2) with (n6_len (P ++ be_bytes 2 (mx_pref (r_mx r)))) by (lens; lia).
      rewrite rd_name_wire0 by exact W1. cbn [obind].
      eexists. eexists. split; [reflexivity|].
      unfold rr_same, rdata_same. rewrite Ety. tyred.
      repeat split; try (unfold rr_base, rr_meta_name, rr_meta_rdata, rr_meta_rdata2; repeat match goal with |- context [meta_of ?l] => destruct (meta_of l) end; cbn; rewrite ?Hn0; congruence).
      + names_eq Hnames Hn0.
      + rewrite <- Wn. destruct (r_mx r). unfold rr_base, rr_meta_name, rr_meta_rdata, rr_meta_rdata2;
          repeat match goal with |- context [meta_of ?l] => destruct (meta_of l) end; reflexivity. }
  destruct (r_type r =? T_TXT) eqn:ETXT.
  { destruct Hrd as (Wt & Wl & -> & ->).
    assert (Ety : r_type r = T_TXT) by (apply Z.eqb_eq; assumption).
    apply (rr_roundtrip_via r pre post buf ls0 (txts_wire (r_txts r))); try assumption; try lia.
    - unfold rdata_wire. rewrite EA, EAAAA, ENS, ECN, EPTR, ESOA, EMX, ETXT. reflexivity.
    - intros P buf1 _. unfold decode_rdata. rewrite rr_base_type, rr_base_data, Ety. tyred.
      rewrite char_strings_wire by exact Wt. cbn [obind].
      eexists. eexists. split; [reflexivity|]. same_fields Ety Hnames Hn0.
    - intros Hz. unfold rr_same, rdata_same. rewrite Ety. tyred.
      assert (r_txts r = []) as Et.
      { destruct (r_txts r) as [|t0 tr]; [reflexivity|]. unfold txts_wire in Hz. cbn [map concat] in Hz.
        pose proof (n6_len_nonneg (t0 ++ concat (map (fun t => u8 (n6_len t) :: t) tr))). lens. lia. }
      repeat split; try (unfold rr_base, rr_meta_name; destruct (meta_of ls0); cbn; rewrite ?Hn0, ?Et; congruence).
      names_eq Hnames Hn0. }
  destruct (r_type r =? T_SRV) eqn:ESRV.
  { destruct Hrd as (W1 & Wn & Wp & Ww & Wpo & ->).
    assert (Ety : r_type r = T_SRV) by (apply Z.eqb_eq; assumption).
    assert (Hl1 : n6_len (labels_wire ls1) <= 255) by apply W1. pose proof (n6_len_nonneg (labels_wire ls1)).
    apply (rr_roundtrip_via r pre post buf ls0 (be_bytes 2 (sv_prio (r_srv r)) ++ be_bytes 2 (sv_weight (r_srv r)) ++ be_bytes 2 (sv_port (r_srv r)) ++ labels_wire ls1));
      try assumption; try (lens; lia).
    - unfold rdata_wire. rewrite EA, EAAAA, ENS, ECN, EPTR, ESOA, EMX, ETXT, ESRV.
      rewrite (name_wire_wf _ _ _ (Hwf1 _ Wn W1)). reflexivity.
    - intros P buf1 _. unfold decode_rdata. rewrite rr_base_type, Ety. tyred. pose proof (n6_len_nonneg P).
      set (b1 := be_bytes 2 (sv_prio (r_srv r))). set (b2 := be_bytes 2 (sv_weight (r_srv r))). set (b3 := be_bytes 2 (sv_port (r_srv r))).
      assert (n6_len b1 = 2 /\ n6_len b2 = 2 /\ n6_len b3 = 2) as (Hb1 & Hb2 & Hb3) by (unfold b1, b2, b3; lens; lia).
      replace (n6_len (P ++ b1 ++ b2 ++ b3 ++ labels_wire ls1) <? n6_len P + 6) with false by (lens; lia).
      unfold b1 at 1. rewrite rd16_mid by (try apply Wp; reflexivity). cbn [obind]. fold b1.
      replace (P ++ b1 ++ b2 ++ b3 ++ labels_wire ls1) with ((P ++ b1) ++ b2 ++ (b3 ++ labels_wire ls1)) by (rewrite <- !app_assoc; reflexivity).
      unfold b2 at 1. rewrite rd16_mid by (try apply Ww; lens; lia). cbn [obind]. fold b2.
      replace ((P ++ b1) ++ b2 ++ b3 ++ labels_wire ls1) with (((P ++ b1) ++ b2) ++ b3 ++ (labels_wire ls1)) by (rewrite <- !app_assoc; reflexivity).
      unfold b3 at 1. rewrite rd16_mid by (try apply Wpo; lens; lia). cbn [obind]. fold b3.
      replace (((P ++ b1) ++ b2) ++ b3 ++ labels_wire ls1) with ((((P ++ b1) ++ b2) ++ b3) ++ labels_wire ls1) by (rewrite <- !app_assoc; reflexivity).
      replace (n6_len P + 6) with (n6_len (((P ++ b1) ++ b2) ++ b3)) by (lens; lia).
      rewrite rd_name_wire0 by exact W1. cbn [obind].
      eexists. eexists. split; [reflexivity|].
      unfold rr_same, rdata_same. rewrite Ety. tyred.
      repeat split; try (unfold rr_base, rr_meta_name, rr_meta_rdata, rr_meta_rdata2; repeat match goal with |- context [meta_of ?l] => destruct (meta_of l) end; cbn; rewrite ?Hn0; congruence).
      + names_eq Hnames Hn0.
      + rewrite <- Wn. destruct (r_srv r). unfold rr_base, rr_meta_name, rr_meta_rdata, rr_meta_rdata2;
          repeat match goal with |- context [meta_of ?l] => destruct (meta_of l) end; reflexivity. }
  destruct (r_type r =? T_NAPTR) eqn:ENAPTR.
  { destruct Hrd as (W1 & Wn & Wo & Wp & Wf & Wsv & Wre & ->).
    assert (Ety : r_type r = T_NAPTR) by (apply Z.eqb_eq; assumption).
    assert (Hl1 : n6_len (labels_wire ls1) <= 255) by apply W1. pose proof (n6_len_nonneg (labels_wire ls1)).
    set (na := r_naptr r) in *.
    pose proof (txts_wire_len [na_flags na; na_service na; na_regexp na]) as Htl. cbn [length sum_len fold_right] in Htl.
    destruct Wf as [Wf1 Wf2]. destruct Wsv as [Ws1 Ws2]. destruct Wre as [Wr1 Wr2].
    pose proof (n6_len_nonneg (na_flags na)). pose proof (n6_len_nonneg (na_service na)). pose proof (n6_len_nonneg (na_regexp na)).
    apply (rr_roundtrip_via r pre post buf ls0 (be_bytes 2 (na_order na) ++ be_bytes 2 (na_pref na) ++ txts_wire [na_flags na; na_service na; na_regexp na] ++ labels_wire ls1));
      try assumption; try (lens; lia).
    - unfold rdata_wire. rewrite EA, EAAAA, ENS, ECN, EPTR, ESOA, EMX, ETXT, ESRV, ENAPTR. fold na.
      rewrite (name_wire_wf _ _ _ (Hwf1 _ Wn W1)). reflexivity.
    - intros P buf1 _. unfold decode_rdata. rewrite rr_base_type, Ety. tyred. pose proof (n6_len_nonneg P).
      unfold txts_wire. cbn [map concat]. rewrite app_nil_r.
      set (b1 := be_bytes 2 (na_order na)). set (b2 := be_bytes 2 (na_pref na)).
      assert (n6_len b1 = 2 /\ n6_len b2 = 2) as (Hb1 & Hb2) by (unfold b1, b2; lens; lia).
      set (F := u8 (n6_len (na_flags na)) :: na_flags na). set (S1 := u8 (n6_len (na_service na)) :: na_service na).
      set (R1 := u8 (n6_len (na_regexp na)) :: na_regexp na).
      assert (n6_len F = 1 + n6_len (na_flags na) /\ n6_len S1 = 1 + n6_len (na_service na) /\ n6_len R1 = 1 + n6_len (na_regexp na)) as (HF & HS & HR)
        by (unfold F, S1, R1; lens; lia).
      replace (n6_len (P ++ b1 ++ b2 ++ (F ++ S1 ++ R1) ++ labels_wire ls1) <? n6_len P + 4) with false by (lens; lia).
      unfold b1 at 1. rewrite rd16_mid by (try apply Wo; reflexivity). cbn [obind]. fold b1.
      replace (P ++ b1 ++ b2 ++ (F ++ S1 ++ R1) ++ labels_wire ls1) with ((P ++ b1) ++ b2 ++ ((F ++ S1 ++ R1) ++ labels_wire ls1)) by (rewrite <- !app_assoc; reflexivity).
      unfold b2 at 1. rewrite rd16_mid by (try apply Wp; lens; lia). cbn [obind]. fold b2.
      replace ((P ++ b1) ++ b2 ++ (F ++ S1 ++ R1) ++ labels_wire ls1)
        with (((P ++ b1) ++ b2) ++ u8 (n6_len (na_flags na)) :: na_flags na ++ (S1 ++ R1 ++ labels_wire ls1)) by (unfold F; rewrite <- !app_assoc; reflexivity).
      rewrite naptr_str_wire by (try (split; assumption); lens; lia). cbn [obind].
      replace (((P ++ b1) ++ b2) ++ u8 (n6_len (na_flags na)) :: na_flags na ++ S1 ++ R1 ++ labels_wire ls1)
        with ((((P ++ b1) ++ b2) ++ F) ++ u8 (n6_len (na_service na)) :: na_service na ++ (R1 ++ labels_wire ls1)) by (unfold F, S1; rewrite <- !app_assoc; reflexivity).
      rewrite naptr_str_wire by (try (split; assumption); lens; lia). cbn [obind].
      replace ((((P ++ b1) ++ b2) ++ F) ++ u8 (n6_len (na_service na)) :: na_service na ++ R1 ++ labels_wire ls1)
        with (((((P ++ b1) ++ b2) ++ F) ++ S1) ++ u8 (n6_len (na_regexp na)) :: na_regexp na ++ (labels_wire ls1)) by (unfold S1, R1; rewrite <- !app_assoc; reflexivity).
      rewrite naptr_str_wire by (try (split; assumption); lens; lia). cbn [obind].
      replace (((((P ++ b1) ++ b2) ++ F) ++ S1) ++ u8 (n6_len (na_regexp na)) :: na_regexp na ++ labels_wire ls1)
        with ((((((P ++ b1) ++ b2) ++ F) ++ S1) ++ R1) ++ labels_wire ls1) by (unfold R1; rewrite <- !app_assoc; reflexivity).
      replace (n6_len ((((P ++ b1) ++ b2) ++ F) ++ S1) + 1 + n6_len (na_regexp na)) with (n6_len (((((P ++ b1) ++ b2) ++ F) ++ S1) ++ R1)) by (lens; lia).
      rewrite rd_name_wire0 by exact W1. cbn [obind].
      eexists. eexists. split; [reflexivity|].
      unfold rr_same, rdata_same. rewrite Ety. tyred.
      repeat split; try (unfold rr_base, rr_meta_name, rr_meta_rdata, rr_meta_rdata2; repeat match goal with |- context [meta_of ?l] => destruct (meta_of l) end; cbn; rewrite ?Hn0; congruence).
      + names_eq Hnames Hn0.
      + fold na. rewrite <- Wn. destruct na. unfold rr_base, rr_meta_name, rr_meta_rdata, rr_meta_rdata2;
          repeat match goal with |- context [meta_of ?l] => destruct (meta_of l) end; reflexivity. }
  destruct (r_type r =? T_URI) eqn:EURI.
  { destruct Hrd as (Wp & Ww & Wb & Wl & -> & ->).
    assert (Ety : r_type r = T_URI) by (apply Z.eqb_eq; assumption).
    set (u := r_uri r) in *. pose proof (n6_len_nonneg (u_target u)).
    apply (rr_roundtrip_via r pre post buf ls0 (be_bytes 2 (u_prio u) ++ be_bytes 2 (u_weight u) ++ u_target u)); try assumption; try (lens; lia).
    - unfold rdata_wire. rewrite EA, EAAAA, ENS, ECN, EPTR, ESOA, EMX, ETXT, ESRV, ENAPTR, EURI. reflexivity.
    - intros P buf1 _. unfold decode_rdata. rewrite rr_base_type, rr_base_data, Ety. tyred. pose proof (n6_len_nonneg P).
      replace (n6_len (be_bytes 2 (u_prio u) ++ be_bytes 2 (u_weight u) ++ u_target u) <? 4) with false by (lens; lia).
      rewrite rd16_mid by (try apply Wp; reflexivity). cbn [obind].
      replace (P ++ be_bytes 2 (u_prio u) ++ be_bytes 2 (u_weight u) ++ u_target u)
        with ((P ++ be_bytes 2 (u_prio u)) ++ be_bytes 2 (u_weight u) ++ u_target u) by (rewrite <- !app_assoc; reflexivity).
      rewrite rd16_mid by (try apply Ww; lens; lia). cbn [obind].
      replace (be_bytes 2 (u_prio u) ++ be_bytes 2 (u_weight u) ++ u_target u)
        with ((be_bytes 2 (u_prio u) ++ be_bytes 2 (u_weight u)) ++ u_target u ++ []) by (rewrite <- !app_assoc, app_nil_r; reflexivity).
      rewrite rdsl_mid by (lens; lia). cbn [obind].
      eexists. eexists. split; [reflexivity|].
      unfold rr_same, rdata_same. rewrite Ety. tyred.
      repeat split; try (unfold rr_base, rr_meta_name; destruct (meta_of ls0); cbn; rewrite ?Hn0; congruence).
      + names_eq Hnames Hn0.
      + fold u. destruct u. unfold rr_base, rr_meta_name; destruct (meta_of ls0); reflexivity. }
  destruct (r_type r =? T_OPT) eqn:EOPT.
  { destruct Hrd as (Wo & Wl & -> & ->).
    assert (Ety : r_type r = T_OPT) by (apply Z.eqb_eq; assumption).
    apply (rr_roundtrip_via r pre post buf ls0 (opts_wire (r_opt r))); try assumption; try lia.
    - unfold rdata_wire. rewrite EA, EAAAA, ENS, ECN, EPTR, ESOA, EMX, ETXT, ESRV, ENAPTR, EURI, EOPT. reflexivity.
    - intros P buf1 Hpos. unfold decode_rdata. rewrite rr_base_type, Ety. tyred. pose proof (n6_len_nonneg P).
      unfold decode_opts.
      replace (n6_len P =? n6_len (P ++ opts_wire (r_opt r))) with false by (lens; lia).
      assert (4 <= n6_len (opts_wire (r_opt r))).
      { destruct (r_opt r) as [|o t]; [cbn in Hpos; lia|]. unfold opts_wire. cbn [map concat].
        pose proof (n6_len_nonneg (op_data o)).
        pose proof (n6_len_nonneg (concat (map (fun o0 => be_bytes 2 (op_code o0) ++ be_bytes 2 (u16 (n6_len (op_data o0))) ++ op_data o0) t))). lens. lia. }
      replace (n6_len P + 4 >? n6_len (P ++ opts_wire (r_opt r))) with false by (lens; lia).
      rewrite opts_loop_wire by (try exact Wo; pose proof (opts_wire_ge (r_opt r)); rewrite app_length; unfold n6_len in *; lia).
      cbn [obind app]. eexists. eexists. split; [reflexivity|]. same_fields Ety Hnames Hn0.
    - intros Hz. unfold rr_same, rdata_same. rewrite Ety. tyred.
      assert (r_opt r = []) as Et.
      { destruct (r_opt r) as [|o t]; [reflexivity|]. unfold opts_wire in Hz. cbn [map concat] in Hz.
        pose proof (n6_len_nonneg (op_data o)).
        pose proof (n6_len_nonneg (concat (map (fun o0 => be_bytes 2 (op_code o0) ++ be_bytes 2 (u16 (n6_len (op_data o0))) ++ op_data o0) t))). lens. lia. }
      repeat split; try (unfold rr_base, rr_meta_name; destruct (meta_of ls0); cbn; rewrite ?Hn0, ?Et; congruence).
      names_eq Hnames Hn0. }
  destruct (r_type r =? T_RRSIG) eqn:ERRSIG.
  { cbv zeta in Hrd. destruct Hrd as (W1 & Wn & Wc & Wa & Wlb & Wo & We & Wi & Wt & Wsb & Wl & ->).
    assert (Ety : r_type r = T_RRSIG) by (apply Z.eqb_eq; assumption).
    assert (Hl1 : n6_len (labels_wire ls1) <= 255) by apply W1. pose proof (n6_len_nonneg (labels_wire ls1)).
    set (g := r_rrsig r) in *. pose proof (n6_len_nonneg (sg_sig g)).
    set (fixed := be_bytes 2 (sg_covered g) ++ [u8 (sg_alg g)] ++ [u8 (sg_labels g)] ++ be_bytes 4 (sg_ottl g) ++ be_bytes 4 (sg_exp g)
                  ++ be_bytes 4 (sg_inc g) ++ be_bytes 2 (sg_tag g)).
    assert (Hfl : n6_len fixed = 18) by (unfold fixed; lens; lia).
    apply (rr_roundtrip_via r pre post buf ls0 (fixed ++ labels_wire ls1 ++ sg_sig g)); try assumption; try (lens; lia).
    - unfold rdata_wire. rewrite EA, EAAAA, ENS, ECN, EPTR, ESOA, EMX, ETXT, ESRV, ENAPTR, EURI, EOPT, ERRSIG. cbv zeta. fold g.
      rewrite (name_wire_wf _ _ _ (Hwf1 _ Wn W1)). cbn [obind]. unfold fixed. rewrite <- !app_assoc. reflexivity.
    - intros P buf1 _. unfold decode_rdata. rewrite rr_base_type, Ety. tyred. pose proof (n6_len_nonneg P).
      replace (n6_len (P ++ fixed ++ labels_wire ls1 ++ sg_sig g) <? n6_len P + 18) with false by (lens; lia).
      set (tl := labels_wire ls1 ++ sg_sig g).
      replace (P ++ fixed ++ tl) with (P ++ be_bytes 2 (sg_covered g) ++ ([u8 (sg_alg g)] ++ [u8 (sg_labels g)] ++ be_bytes 4 (sg_ottl g) ++ be_bytes 4 (sg_exp g)
                  ++ be_bytes 4 (sg_inc g) ++ be_bytes 2 (sg_tag g) ++ tl)) by (unfold fixed; rewrite <- !app_assoc; reflexivity).
      rewrite rd16_mid by (try apply Wc; reflexivity). cbn [obind].
      set (Q1 := P ++ be_bytes 2 (sg_covered g)).
      replace (P ++ be_bytes 2 (sg_covered g) ++ [u8 (sg_alg g)] ++ [u8 (sg_labels g)] ++ be_bytes 4 (sg_ottl g) ++ be_bytes 4 (sg_exp g) ++ be_bytes 4 (sg_inc g) ++ be_bytes 2 (sg_tag g) ++ tl)
        with (Q1 ++ u8 (sg_alg g) :: ([u8 (sg_labels g)] ++ be_bytes 4 (sg_ottl g) ++ be_bytes 4 (sg_exp g) ++ be_bytes 4 (sg_inc g) ++ be_bytes 2 (sg_tag g) ++ tl))
        by (unfold Q1; rewrite <- !app_assoc; reflexivity).
      rewrite rd8_mid by (unfold Q1; lens; lia). cbn [obind].
      set (Q2 := Q1 ++ [u8 (sg_alg g)]).
      replace (Q1 ++ u8 (sg_alg g) :: [u8 (sg_labels g)] ++ be_bytes 4 (sg_ottl g) ++ be_bytes 4 (sg_exp g) ++ be_bytes 4 (sg_inc g) ++ be_bytes 2 (sg_tag g) ++ tl)
        with (Q2 ++ u8 (sg_labels g) :: (be_bytes 4 (sg_ottl g) ++ be_bytes 4 (sg_exp g) ++ be_bytes 4 (sg_inc g) ++ be_bytes 2 (sg_tag g) ++ tl))
        by (unfold Q2; rewrite <- !app_assoc; reflexivity).
      rewrite rd8_mid by (unfold Q2, Q1; lens; lia). cbn [obind].
      set (Q3 := Q2 ++ [u8 (sg_labels g)]).
      replace (Q2 ++ u8 (sg_labels g) :: be_bytes 4 (sg_ottl g) ++ be_bytes 4 (sg_exp g) ++ be_bytes 4 (sg_inc g) ++ be_bytes 2 (sg_tag g) ++ tl)
        with (Q3 ++ be_bytes 4 (sg_ottl g) ++ (be_bytes 4 (sg_exp g) ++ be_bytes 4 (sg_inc g) ++ be_bytes 2 (sg_tag g) ++ tl))
        by (unfold Q3; rewrite <- !app_assoc; reflexivity).
      rewrite rd32_mid by (try apply Wo; unfold Q3, Q2, Q1; lens; lia). cbn [obind].
      replace (Q3 ++ be_bytes 4 (sg_ottl g) ++ be_bytes 4 (sg_exp g) ++ be_bytes 4 (sg_inc g) ++ be_bytes 2 (sg_tag g) ++ tl)
        with ((Q3 ++ be_bytes 4 (sg_ottl g)) ++ be_bytes 4 (sg_exp g) ++ (be_bytes 4 (sg_inc g) ++ be_bytes 2 (sg_tag g) ++ tl))
        by (rewrite <- !app_assoc; reflexivity).
      rewrite rd32_mid by (try apply We; unfold Q3, Q2, Q1; lens; lia). cbn [obind].
      replace ((Q3 ++ be_bytes 4 (sg_ottl g)) ++ be_bytes 4 (sg_exp g) ++ be_bytes 4 (sg_inc g) ++ be_bytes 2 (sg_tag g) ++ tl)
        with (((Q3 ++ be_bytes 4 (sg_ottl g)) ++ be_bytes 4 (sg_exp g)) ++ be_bytes 4 (sg_inc g) ++ (be_bytes 2 (sg_tag g) ++ tl))
        by (rewrite <- !app_assoc; reflexivity).
      rewrite rd32_mid by (try apply Wi; unfold Q3, Q2, Q1; lens; lia). cbn [obind].
      replace (((Q3 ++ be_bytes 4 (sg_ottl g)) ++ be_bytes 4 (sg_exp g)) ++ be_bytes 4 (sg_inc g) ++ be_bytes 2 (sg_tag g) ++ tl)
        with ((((Q3 ++ be_bytes 4 (sg_ottl g)) ++ be_bytes 4 (sg_exp g)) ++ be_bytes 4 (sg_inc g)) ++ be_bytes 2 (sg_tag g) ++ tl)
        by (rewrite <- !app_assoc; reflexivity).
      rewrite rd16_mid by (try apply Wt; unfold Q3, Q2, Q1; lens; lia). cbn [obind].
      set (Q := ((((Q3 ++ be_bytes 4 (sg_ottl g)) ++ be_bytes 4 (sg_exp g)) ++ be_bytes 4 (sg_inc g)) ++ be_bytes 2 (sg_tag g))).
      assert (HQ : n6_len Q = n6_len P + 18) by (unfold Q, Q3, Q2, Q1; lens; lia).
      replace ((((Q3 ++ be_bytes 4 (sg_ottl g)) ++ be_bytes 4 (sg_exp g)) ++ be_bytes 4 (sg_inc g)) ++ be_bytes 2 (sg_tag g) ++ tl)
        with (Q ++ labels_wire ls1 ++ sg_sig g) by (unfold Q, tl; rewrite <- !app_assoc; reflexivity).
      replace (n6_len P + 18) with (n6_len Q) by lia.
      rewrite decode_name_wire by exact W1. cbn [app].
      rewrite signer_of_dotted by exact W1.
      replace (Q ++ labels_wire ls1 ++ sg_sig g) with ((Q ++ labels_wire ls1) ++ sg_sig g ++ []) by (rewrite <- !app_assoc, app_nil_r; reflexivity).
      rewrite rdsl_mid by (lens; lia). cbn [obind].
      eexists. eexists. split; [reflexivity|].
      rewrite !u8_small by lia.
      unfold rr_same, rdata_same. rewrite Ety. tyred.
      repeat split; try (unfold rr_base, rr_meta_name, rr_meta_rdata, rr_meta_rdata2; repeat match goal with |- context [meta_of ?l] => destruct (meta_of l) end; cbn; rewrite ?Hn0; congruence).
      + names_eq Hnames Hn0.
      + fold g. rewrite <- Wn. destruct g. unfold rr_base, rr_meta_name, rr_meta_rdata, rr_meta_rdata2;
          repeat match goal with |- context [meta_of ?l] => destruct (meta_of l) end; reflexivity. }
  destruct (r_type r =? T_DNSKEY) eqn:EDNSKEY.
  { cbv zeta in Hrd. destruct Hrd as (Wf & Wp & Wa & Wb & Wl & -> & ->).
    assert (Ety : r_type r = T_DNSKEY) by (apply Z.eqb_eq; assumption).
    set (k := r_dnskey r) in *. pose proof (n6_len_nonneg (dk_key k)).
    apply (rr_roundtrip_via r pre post buf ls0 (be_bytes 2 (dk_flags k) ++ [u8 (dk_proto k)] ++ [u8 (dk_alg k)] ++ dk_key k)); try assumption; try (lens; lia).
    - unfold rdata_wire. rewrite EA, EAAAA, ENS, ECN, EPTR, ESOA, EMX, ETXT, ESRV, ENAPTR, EURI, EOPT, ERRSIG, EDNSKEY. reflexivity.
    - intros P buf1 _. unfold decode_rdata. rewrite rr_base_type, Ety. tyred. pose proof (n6_len_nonneg P).
      replace (n6_len (P ++ be_bytes 2 (dk_flags k) ++ [u8 (dk_proto k)] ++ [u8 (dk_alg k)] ++ dk_key k) <? n6_len P + 4) with false by (lens; lia).
      rewrite rd16_mid by (try apply Wf; reflexivity). cbn [obind].
      replace (P ++ be_bytes 2 (dk_flags k) ++ [u8 (dk_proto k)] ++ [u8 (dk_alg k)] ++ dk_key k)
        with ((P ++ be_bytes 2 (dk_flags k)) ++ u8 (dk_proto k) :: ([u8 (dk_alg k)] ++ dk_key k)) by (rewrite <- !app_assoc; reflexivity).
      rewrite rd8_mid by (lens; lia). cbn [obind].
      replace ((P ++ be_bytes 2 (dk_flags k)) ++ u8 (dk_proto k) :: [u8 (dk_alg k)] ++ dk_key k)
        with (((P ++ be_bytes 2 (dk_flags k)) ++ [u8 (dk_proto k)]) ++ u8 (dk_alg k) :: dk_key k) by (rewrite <- !app_assoc; reflexivity).
      rewrite rd8_mid by (lens; lia). cbn [obind].
      replace (((P ++ be_bytes 2 (dk_flags k)) ++ [u8 (dk_proto k)]) ++ u8 (dk_alg k) :: dk_key k)
        with ((((P ++ be_bytes 2 (dk_flags k)) ++ [u8 (dk_proto k)]) ++ [u8 (dk_alg k)]) ++ dk_key k ++ []) by (rewrite <- !app_assoc, app_nil_r; reflexivity).
      rewrite rdsl_mid by (lens; lia). cbn [obind].
      eexists. eexists. split; [reflexivity|]. rewrite !u8_small by lia.
      unfold rr_same, rdata_same. rewrite Ety. tyred.
      repeat split; try (unfold rr_base, rr_meta_name; destruct (meta_of ls0); cbn; rewrite ?Hn0; congruence).
      + names_eq Hnames Hn0.
      + fold k. destruct k. unfold rr_base, rr_meta_name; destruct (meta_of ls0); reflexivity. }
  destruct ((r_type r =? T_SVCB) || (r_type r =? T_HTTPS)) eqn:ESVCB; [|contradiction].
  destruct Hrd as (W1 & Wn & Wp & Wps & Wl & ->).
  assert (Hl1 : n6_len (labels_wire ls1) <= 255) by apply W1. pose proof (n6_len_nonneg (labels_wire ls1)).
  set (v := r_svcb r) in *. pose proof (n6_len_nonneg (params_wire (sb_params v))).
  apply (rr_roundtrip_via r pre post buf ls0 (be_bytes 2 (sb_prio v) ++ labels_wire ls1 ++ params_wire (sb_params v))); try assumption; try (lens; lia).
  - unfold rdata_wire. rewrite EA, EAAAA, ENS, ECN, EPTR, ESOA, EMX, ETXT, ESRV, ENAPTR, EURI, EOPT, ERRSIG, EDNSKEY, ESVCB. fold v.
    rewrite (name_wire_wf _ _ _ (Hwf1 _ Wn W1)). reflexivity.
  - intros P buf1 _. pose proof (n6_len_nonneg P).
    assert (Hdec : decode_rdata (rr_base ls0 (r_type r) (r_class r) (r_ttl r) (be_bytes 2 (sb_prio v) ++ labels_wire ls1 ++ params_wire (sb_params v)))
                     (P ++ be_bytes 2 (sb_prio v) ++ labels_wire ls1 ++ params_wire (sb_params v)) (n6_len P) buf1
                   = Ok (rr_meta_rdata (rr_set_svcb (rr_base ls0 (r_type r) (r_class r) (r_ttl r) (be_bytes 2 (sb_prio v) ++ labels_wire ls1 ++ params_wire (sb_params v)))
                                                     (mkSvcb (sb_prio v) (join ls1) (sb_params v))) (join ls1) (meta_of ls1), buf1 ++ dotted ls1)).
    { unfold decode_rdata. rewrite rr_base_type.
      apply orb_true_iff in ESVCB. destruct ESVCB as [E|E]; apply Z.eqb_eq in E; rewrite E; [tyred_c T_SVCB|tyred_c T_HTTPS];
      (replace (n6_len P =? n6_len (P ++ be_bytes 2 (sb_prio v) ++ labels_wire ls1 ++ params_wire (sb_params v))) with false by (lens; lia);
       replace (n6_len P + 3 >? n6_len (P ++ be_bytes 2 (sb_prio v) ++ labels_wire ls1 ++ params_wire (sb_params v))) with false by (unfold labels_wire; lens; pose proof (n6_len_nonneg (labels_body ls1)); lia);
       rewrite rd16_mid by (try apply Wp; reflexivity); cbn [obind];
       replace (P ++ be_bytes 2 (sb_prio v) ++ labels_wire ls1 ++ params_wire (sb_params v))
         with ((P ++ be_bytes 2 (sb_prio v)) ++ labels_wire ls1 ++ params_wire (sb_params v)) by (rewrite <- !app_assoc; reflexivity);
       replace (n6_len P + 2) with (n6_len (P ++ be_bytes 2 (sb_prio v))) by (lens; lia);
       rewrite rd_name_wire by exact W1; cbn [obind];
       replace ((P ++ be_bytes 2 (sb_prio v)) ++ labels_wire ls1 ++ params_wire (sb_params v))
         with (((P ++ be_bytes 2 (sb_prio v)) ++ labels_wire ls1) ++ params_wire (sb_params v)) by (rewrite <- !app_assoc; reflexivity);
       replace (n6_len (P ++ be_bytes 2 (sb_prio v)) + n6_len (labels_wire ls1)) with (n6_len ((P ++ be_bytes 2 (sb_prio v)) ++ labels_wire ls1)) by (lens; lia);
       rewrite svc_loop_wire by (try exact Wps; pose proof (params_wire_ge (sb_params v)); rewrite !app_length; unfold n6_len in *; lia);
       cbn [obind app]; reflexivity). }
    rewrite Hdec. eexists. eexists. split; [reflexivity|].
    unfold rr_same, rdata_same.
    assert (Hnot : forall T, T <> T_SVCB -> T <> T_HTTPS -> (r_type r =? T) = false).
    { intros T Hx1 Hx2. apply orb_true_iff in ESVCB. destruct ESVCB as [E|E]; apply Z.eqb_eq in E; rewrite E; apply Z.eqb_neq; congruence. }
    rewrite !Hnot by (unfold T_A, T_AAAA, T_NS, T_CNAME, T_PTR, T_SOA, T_MX, T_TXT, T_SRV, T_NAPTR, T_URI, T_OPT, T_RRSIG, T_DNSKEY, T_SVCB, T_HTTPS; lia).
    cbn [orb]. rewrite ESVCB.
    repeat split; try (unfold rr_base, rr_meta_name, rr_meta_rdata, rr_meta_rdata2; repeat match goal with |- context [meta_of ?l] => destruct (meta_of l) end; cbn; rewrite ?Hn0; congruence).
    + names_eq Hnames Hn0.
    + fold v. rewrite <- Wn. destruct v. unfold rr_base, rr_meta_name, rr_meta_rdata, rr_meta_rdata2;
        repeat match goal with |- context [meta_of ?l] => destruct (meta_of l) end; reflexivity.
Qed.

(* ---------------------------------------------------------------- the lists *)
Lemma q_loop_wire : forall qs pre post buf acc w, Forall wf_q qs -> qs_wire qs = Ok w ->
  exists buf2, q_loop (pre ++ w ++ post) (length qs) (n6_len pre) buf acc = (acc ++ qs, Ok (n6_len pre + n6_len w, buf2)).
Proof.
  induction qs as [|q t IH]; intros pre post buf acc w Hwf Hw; cbn [qs_wire q_loop length] in *.
  - apply Ok_inj in Hw. subst w. exists buf. rewrite app_nil_r. cbn [app]. f_equal. apply pair_eq; [lens; lia|reflexivity].
  - inversion Hwf as [|? ? Hq Ht]; subst.
    destruct (q_roundtrip q pre [] buf Hq) as (w1 & ls & Hw1 & _). rewrite Hw1 in Hw. cbn [obind] in Hw.
    destruct (qs_wire t) as [wt|e|s] eqn:Et; cbn [obind] in Hw; try discriminate. apply Ok_inj in Hw. subst w.
    destruct (q_roundtrip q pre (wt ++ post) buf Hq) as (w1' & ls' & Hw1' & Hd). rewrite Hw1 in Hw1'. apply Ok_inj in Hw1'. subst w1'.
    replace (pre ++ (w1 ++ wt) ++ post) with (pre ++ w1 ++ wt ++ post) by (rewrite <- !app_assoc; reflexivity).
    rewrite Hd.
    destruct (IH (pre ++ w1) post (buf ++ dotted ls') (acc ++ [q]) wt Ht eq_refl) as (buf2 & Hl).
    replace (pre ++ w1 ++ wt ++ post) with ((pre ++ w1) ++ wt ++ post) by (rewrite <- !app_assoc; reflexivity).
    replace (n6_len pre + n6_len w1) with (n6_len (pre ++ w1)) by (lens; lia).
    rewrite Hl. exists buf2. rewrite <- app_assoc. cbn [app]. f_equal. apply pair_eq; [lens; lia|reflexivity].
Qed.

Lemma qs_wire_ok qs : Forall wf_q qs -> exists w, qs_wire qs = Ok w.
Proof.
  induction 1 as [|q t Hq _ [wt IH]]; cbn [qs_wire]; [eauto|].
  destruct (q_roundtrip q [] [] [] Hq) as (w1 & ls & Hw1 & _). rewrite Hw1, IH. cbn [obind]. eauto.
Qed.

Lemma rrs_wire_ok rs : Forall wf_rr rs -> exists w, rrs_wire rs = Ok w.
Proof.
  induction 1 as [|r t Hr _ [wt IH]]; cbn [rrs_wire]; [eauto|].
  destruct (rr_roundtrip r [] [] [] Hr) as (w1 & r2 & b2 & Hw1 & _). rewrite Hw1, IH. cbn [obind]. eauto.
Qed.

(* the extended RCODE (406-408): OPT records among the Additionals OR their TTL bits 24..27 into the
   response code as the loop goes by *)
Definition ext_step (rc : Z) (r : rr) : Z :=
  if r_type r =? T_OPT then Z.lor (u8 rc) (u8 (Z.land (Z.shiftr (r_ttl r) 20) 240)) else rc.
Definition ext_rcode (ext : bool) (rc : Z) (rs : list rr) : Z := if ext then fold_left ext_step rs rc else rc.

Lemma rr_loop_wire ext : forall rs pre post buf acc rc w, Forall wf_rr rs -> rrs_wire rs = Ok w ->
  exists rs2 buf2,
    rr_loop (pre ++ w ++ post) ext (length rs) (n6_len pre) buf acc rc
      = (acc ++ rs2, ext_rcode ext rc rs, Ok (n6_len pre + n6_len w, buf2))
    /\ Forall2 rr_same rs rs2.
Proof.
  induction rs as [|r t IH]; intros pre post buf acc rc w Hwf Hw; cbn [rrs_wire rr_loop length] in *.
  - apply Ok_inj in Hw. subst w. exists [], buf. rewrite !app_nil_r. split; [|constructor]. cbn [app].
    replace (ext_rcode ext rc []) with rc by (destruct ext; reflexivity). f_equal. apply pair_eq; [lens; lia|reflexivity].
  - inversion Hwf as [|? ? Hr Ht]; subst.
    destruct (rr_roundtrip r pre [] buf Hr) as (w1 & r2' & b2' & Hw1 & _). rewrite Hw1 in Hw. cbn [obind] in Hw.
    destruct (rrs_wire t) as [wt|e|s] eqn:Et; cbn [obind] in Hw; try discriminate. apply Ok_inj in Hw. subst w.
    destruct (rr_roundtrip r pre (wt ++ post) buf Hr) as (w1' & r2 & b2 & Hw1' & Hd & Hs). rewrite Hw1 in Hw1'. apply Ok_inj in Hw1'. subst w1'.
    replace (pre ++ (w1 ++ wt) ++ post) with (pre ++ w1 ++ wt ++ post) by (rewrite <- !app_assoc; reflexivity).
    rewrite Hd.
    assert (Hstep : (if ext && (r_type r2 =? T_OPT) then Z.lor (u8 rc) (u8 (Z.land (Z.shiftr (r_ttl r2) 20) 240)) else rc)
                    = if ext then ext_step rc r else rc).
    { destruct Hs as (_ & Ety & _ & Ettl & _). unfold ext_step. rewrite Ety, Ettl. destruct ext; reflexivity. }
    rewrite Hstep.
    destruct (IH (pre ++ w1) post b2 (acc ++ [r2]) (if ext then ext_step rc r else rc) wt Ht eq_refl) as (rs2 & buf2 & Hl & Hf).
    replace (pre ++ w1 ++ wt ++ post) with ((pre ++ w1) ++ wt ++ post) by (rewrite <- !app_assoc; reflexivity).
    replace (n6_len pre + n6_len w1) with (n6_len (pre ++ w1)) by (lens; lia).
    rewrite Hl. exists (r2 :: rs2), buf2. split; [|constructor; assumption].
    rewrite <- app_assoc. cbn [app].
    replace (ext_rcode ext (if ext then ext_step rc r else rc) t) with (ext_rcode ext rc (r :: t)) by (destruct ext; reflexivity).
    f_equal. apply pair_eq; [lens; lia|reflexivity].
Qed.

(* ---------------------------------------------------------------- the header bits *)
Lemma hdr_bits2 (qr aa tc rd : bool) op : 0 <= op < 16 ->
  let b2 := u8 (Z.lor (Z.lor (Z.lor (Z.lor (Z.shiftl (b2i qr) 7) (Z.shiftl op 3)) (Z.shiftl (b2i aa) 2)) (Z.shiftl (b2i tc) 1)) (b2i rd)) in
  bit b2 128 = qr /\ Z.land (Z.shiftr b2 3) 15 = op /\ bit b2 4 = aa /\ bit b2 2 = tc /\ bit b2 1 = rd /\ 0 <= b2 < 256.
Proof.
  intros H. destruct (Z.eq_dec op 0) as [->|]; [destruct qr, aa, tc, rd; vm_compute; repeat split; try reflexivity; intro; discriminate|]. destruct (Z.eq_dec op 1) as [->|]; [destruct qr, aa, tc, rd; vm_compute; repeat split; try reflexivity; intro; discriminate|]. destruct (Z.eq_dec op 2) as [->|]; [destruct qr, aa, tc, rd; vm_compute; repeat split; try reflexivity; intro; discriminate|]. destruct (Z.eq_dec op 3) as [->|]; [destruct qr, aa, tc, rd; vm_compute; repeat split; try reflexivity; intro; discriminate|]. destruct (Z.eq_dec op 4) as [->|]; [destruct qr, aa, tc, rd; vm_compute; repeat split; try reflexivity; intro; discriminate|]. destruct (Z.eq_dec op 5) as [->|]; [destruct qr, aa, tc, rd; vm_compute; repeat split; try reflexivity; intro; discriminate|]. destruct (Z.eq_dec op 6) as [->|]; [destruct qr, aa, tc, rd; vm_compute; repeat split; try reflexivity; intro; discriminate|]. destruct (Z.eq_dec op 7) as [->|]; [destruct qr, aa, tc, rd; vm_compute; repeat split; try reflexivity; intro; discriminate|]. destruct (Z.eq_dec op 8) as [->|]; [destruct qr, aa, tc, rd; vm_compute; repeat split; try reflexivity; intro; discriminate|]. destruct (Z.eq_dec op 9) as [->|]; [destruct qr, aa, tc, rd; vm_compute; repeat split; try reflexivity; intro; discriminate|]. destruct (Z.eq_dec op 10) as [->|]; [destruct qr, aa, tc, rd; vm_compute; repeat split; try reflexivity; intro; discriminate|]. destruct (Z.eq_dec op 11) as [->|]; [destruct qr, aa, tc, rd; vm_compute; repeat split; try reflexivity; intro; discriminate|]. destruct (Z.eq_dec op 12) as [->|]; [destruct qr, aa, tc, rd; vm_compute; repeat split; try reflexivity; intro; discriminate|]. destruct (Z.eq_dec op 13) as [->|]; [destruct qr, aa, tc, rd; vm_compute; repeat split; try reflexivity; intro; discriminate|]. destruct (Z.eq_dec op 14) as [->|]; [destruct qr, aa, tc, rd; vm_compute; repeat split; try reflexivity; intro; discriminate|]. destruct (Z.eq_dec op 15) as [->|]; [destruct qr, aa, tc, rd; vm_compute; repeat split; try reflexivity; intro; discriminate|]. lia.
Qed.

Ltac enum_rc rc ra := destruct (Z.eq_dec rc 0) as [->|]; [destruct ra; vm_compute; repeat split; try reflexivity; intro; discriminate|destruct (Z.eq_dec rc 1) as [->|]; [destruct ra; vm_compute; repeat split; try reflexivity; intro; discriminate|destruct (Z.eq_dec rc 2) as [->|]; [destruct ra; vm_compute; repeat split; try reflexivity; intro; discriminate|destruct (Z.eq_dec rc 3) as [->|]; [destruct ra; vm_compute; repeat split; try reflexivity; intro; discriminate|destruct (Z.eq_dec rc 4) as [->|]; [destruct ra; vm_compute; repeat split; try reflexivity; intro; discriminate|destruct (Z.eq_dec rc 5) as [->|]; [destruct ra; vm_compute; repeat split; try reflexivity; intro; discriminate|destruct (Z.eq_dec rc 6) as [->|]; [destruct ra; vm_compute; repeat split; try reflexivity; intro; discriminate|destruct (Z.eq_dec rc 7) as [->|]; [destruct ra; vm_compute; repeat split; try reflexivity; intro; discriminate|destruct (Z.eq_dec rc 8) as [->|]; [destruct ra; vm_compute; repeat split; try reflexivity; intro; discriminate|destruct (Z.eq_dec rc 9) as [->|]; [destruct ra; vm_compute; repeat split; try reflexivity; intro; discriminate|destruct (Z.eq_dec rc 10) as [->|]; [destruct ra; vm_compute; repeat split; try reflexivity; intro; discriminate|destruct (Z.eq_dec rc 11) as [->|]; [destruct ra; vm_compute; repeat split; try reflexivity; intro; discriminate|destruct (Z.eq_dec rc 12) as [->|]; [destruct ra; vm_compute; repeat split; try reflexivity; intro; discriminate|destruct (Z.eq_dec rc 13) as [->|]; [destruct ra; vm_compute; repeat split; try reflexivity; intro; discriminate|destruct (Z.eq_dec rc 14) as [->|]; [destruct ra; vm_compute; repeat split; try reflexivity; intro; discriminate|destruct (Z.eq_dec rc 15) as [->|]; [destruct ra; vm_compute; repeat split; try reflexivity; intro; discriminate|lia]]]]]]]]]]]]]]]].

Lemma hdr_bits3 (ra : bool) z rc : 0 <= z < 8 -> 0 <= rc < 16 ->
  let b3 := u8 (Z.lor (Z.lor (Z.shiftl (b2i ra) 7) (Z.shiftl z 4)) (Z.land rc 15)) in
  bit b3 128 = ra /\ Z.land (Z.shiftr b3 4) 7 = z /\ Z.land b3 15 = rc /\ 0 <= b3 < 256.
Proof.
  intros Hz Hrc. destruct (Z.eq_dec z 0) as [->|]; [enum_rc rc ra|]. destruct (Z.eq_dec z 1) as [->|]; [enum_rc rc ra|]. destruct (Z.eq_dec z 2) as [->|]; [enum_rc rc ra|]. destruct (Z.eq_dec z 3) as [->|]; [enum_rc rc ra|]. destruct (Z.eq_dec z 4) as [->|]; [enum_rc rc ra|]. destruct (Z.eq_dec z 5) as [->|]; [enum_rc rc ra|]. destruct (Z.eq_dec z 6) as [->|]; [enum_rc rc ra|]. destruct (Z.eq_dec z 7) as [->|]; [enum_rc rc ra|]. lia.
Qed.

(* ---------------------------------------------------------------- sizes of well-formed values *)
Lemma name_size_of_wire name m w : name_wire name m = Ok w -> name_size name m = Ok (n6_len w).
Proof. intros H. rewrite name_size_spec, H. reflexivity. Qed.

Lemma obind_ok {A B} (o : outcome A) (f : A -> outcome B) v : obind o f = Ok v -> exists a, o = Ok a /\ f a = Ok v.
Proof. destruct o; cbn; try discriminate. eauto. Qed.

Lemma rec_size_of_wire r rd : rdata_wire r = Ok rd -> rec_size r = Ok (n6_len rd).
Proof.
  unfold rdata_wire, rec_size. intros H.
  destruct (r_type r =? T_A). { destruct (to4 (r_ip r)) eqn:E; [|discriminate]. apply Ok_inj in H. subst. f_equal. symmetry. eapply to4_len; eauto. }
  destruct (r_type r =? T_AAAA). { destruct (to16 (r_ip r)) eqn:E; [|discriminate]. apply Ok_inj in H. subst. f_equal. symmetry. eapply to16_len; eauto. }
  destruct (r_type r =? T_NS); [apply name_size_of_wire, H|].
  destruct (r_type r =? T_CNAME); [apply name_size_of_wire, H|].
  destruct (r_type r =? T_PTR); [apply name_size_of_wire, H|].
  destruct (r_type r =? T_SOA).
  { apply obind_ok in H as (m & Hm & H). apply obind_ok in H as (n & Hn & H). apply Ok_inj in H. subst rd.
    rewrite (name_size_of_wire _ _ _ Hm), (name_size_of_wire _ _ _ Hn). cbn [obind]. f_equal. lens. lia. }
  destruct (r_type r =? T_MX).
  { apply obind_ok in H as (n & Hn & H). apply Ok_inj in H. subst rd. rewrite (name_size_of_wire _ _ _ Hn). cbn [obind]. f_equal. lens. lia. }
  destruct (r_type r =? T_TXT). { apply Ok_inj in H. subst rd. f_equal. symmetry. apply txts_wire_len. }
  destruct (r_type r =? T_SRV).
  { apply obind_ok in H as (n & Hn & H). apply Ok_inj in H. subst rd. rewrite (name_size_of_wire _ _ _ Hn). cbn [obind]. f_equal. lens. lia. }
  destruct (r_type r =? T_NAPTR).
  { apply obind_ok in H as (n & Hn & H). apply Ok_inj in H. subst rd. rewrite (name_size_of_wire _ _ _ Hn). cbn [obind]. f_equal.
    pose proof (txts_wire_len [na_flags (r_naptr r); na_service (r_naptr r); na_regexp (r_naptr r)]) as Ht.
    cbn [length sum_len fold_right] in Ht. lens. lia. }
  destruct (r_type r =? T_URI). { apply Ok_inj in H. subst rd. f_equal. lens. lia. }
  destruct (r_type r =? T_OPT). { apply Ok_inj in H. subst rd. f_equal. symmetry. apply opts_wire_len. }
  destruct (r_type r =? T_RRSIG).
  { apply obind_ok in H as (n & Hn & H). apply Ok_inj in H. subst rd. rewrite (name_size_of_wire _ _ _ Hn). cbn [obind]. f_equal. lens. lia. }
  destruct (r_type r =? T_DNSKEY). { apply Ok_inj in H. subst rd. f_equal. lens. lia. }
  destruct ((r_type r =? T_SVCB) || (r_type r =? T_HTTPS)).
  { apply obind_ok in H as (n & Hn & H). apply Ok_inj in H. subst rd. rewrite (name_size_of_wire _ _ _ Hn). cbn [obind]. f_equal.
    pose proof (params_wire_len (sb_params (r_svcb r))). lens. lia. }
  discriminate.
Qed.

Lemma compute_size_of_wire : forall rs w, rrs_wire rs = Ok w -> exists n, compute_size rs = Ok n.
Proof.
  induction rs as [|r t IH]; intros w H; cbn [rrs_wire compute_size] in *; [eauto|].
  apply obind_ok in H as (w1 & Hw1 & H). apply obind_ok in H as (wt & Hwt & _).
  unfold rr_wire in Hw1. apply obind_ok in Hw1 as (nw & Hnw & Hw1). apply obind_ok in Hw1 as (rd & Hrd & _).
  rewrite (name_size_of_wire _ _ _ Hnw), (rec_size_of_wire _ _ Hrd). cbn [obind].
  destruct (IH wt Hwt) as [n Hn]. rewrite Hn. cbn [obind]. eauto.
Qed.

Lemma q_size_of_wire : forall qs w, qs_wire qs = Ok w -> exists n, q_size qs = Ok n.
Proof.
  induction qs as [|q t IH]; intros w H; cbn [qs_wire q_size] in *; [eauto|].
  apply obind_ok in H as (w1 & Hw1 & H). apply obind_ok in H as (wt & Hwt & _).
  unfold q_wire in Hw1. apply obind_ok in Hw1 as (nw & Hnw & _).
  rewrite (name_size_of_wire _ _ _ Hnw). cbn [obind]. destruct (IH wt Hwt) as [n Hn]. rewrite Hn. cbn [obind]. eauto.
Qed.

Lemma F2_length {A B} (R : A -> B -> Prop) l1 l2 : Forall2 R l1 l2 -> length l1 = length l2.
Proof. induction 1; cbn; congruence. Qed.

(* ---------------------------------------------------------------- the message *)
Definition dns_wf (d : dns) : Prop :=
  u16_ok (d_id d) /\ 0 <= d_opcode d < 16 /\ 0 <= d_z d < 8 /\
  d_rcode d = fold_left ext_step (d_additionals d) (Z.land (d_rcode d) 15) /\
  Forall wf_q (d_questions d) /\ Forall wf_rr (d_answers d) /\ Forall wf_rr (d_authorities d) /\ Forall wf_rr (d_additionals d) /\
  zlen (d_questions d) < 65536 /\ zlen (d_answers d) < 65536 /\ zlen (d_authorities d) < 65536 /\ zlen (d_additionals d) < 65536.

Lemma be_val_be2 v : 0 <= v < 65536 -> be_val (be_bytes 2 v) = v.
Proof. intros. rewrite be_val_be_bytes. change (256 ^ Z.of_nat 2) with 65536. lia. Qed.

Theorem roundtrip_ok d payload junk : dns_wf d ->
  exists w d2,
    roundtrip d payload junk = (Ok (w ++ payload), (d2, Ok tt, false)) /\
    d_id d2 = d_id d /\ d_qr d2 = d_qr d /\ d_opcode d2 = d_opcode d /\ d_aa d2 = d_aa d /\ d_tc d2 = d_tc d /\
    d_rd d2 = d_rd d /\ d_ra d2 = d_ra d /\ d_z d2 = d_z d /\ d_rcode d2 = d_rcode d /\
    d_qdcount d2 = zlen (d_questions d) /\ d_ancount d2 = zlen (d_answers d) /\
    d_nscount d2 = zlen (d_authorities d) /\ d_arcount d2 = zlen (d_additionals d) /\
    d_questions d2 = d_questions d /\
    Forall2 rr_same (d_answers d) (d_answers d2) /\ Forall2 rr_same (d_authorities d) (d_authorities d2) /\
    Forall2 rr_same (d_additionals d) (d_additionals d2) /\
    d_contents d2 = w /\ d_payload d2 = [].
Proof.
  intros (Hid & Hop & Hz & Hrc & Hq & Ha & Hn & Hr & Lq & La & Ln & Lr).
  destruct (qs_wire_ok _ Hq) as [qw Hqw]. destruct (rrs_wire_ok _ Ha) as [aw Haw].
  destruct (rrs_wire_ok _ Hn) as [nw Hnw]. destruct (rrs_wire_ok _ Hr) as [rw Hrw].
  destruct (q_size_of_wire _ _ Hqw) as [sq Hsq]. destruct (compute_size_of_wire _ _ Haw) as [sa Hsa].
  destruct (compute_size_of_wire _ _ Hnw) as [sn Hsn]. destruct (compute_size_of_wire _ _ Hrw) as [sr Hsr].
  unfold roundtrip. rewrite serialize_eq_spec. unfold ser_spec, dns_sizes. rewrite Hsq, Hsa, Hsn, Hsr. cbn [obind].
  rewrite Hqw, Haw, Hnw, Hrw.
  pose proof (Nat2Z.is_nonneg (length (d_questions d))). pose proof (Nat2Z.is_nonneg (length (d_answers d))).
  pose proof (Nat2Z.is_nonneg (length (d_authorities d))). pose proof (Nat2Z.is_nonneg (length (d_additionals d))).
  unfold zlen in *.
  set (cq := Z.of_nat (length (d_questions d))) in *. set (ca := Z.of_nat (length (d_answers d))) in *.
  set (cn := Z.of_nat (length (d_authorities d))) in *. set (cr := Z.of_nat (length (d_additionals d))) in *.
  assert (HH : hdr_wire d true = be_bytes 2 (d_id d) ++ [hdr_b2 d] ++ [hdr_b3 d] ++ be_bytes 2 cq ++ be_bytes 2 ca ++ be_bytes 2 cn ++ be_bytes 2 cr).
  { unfold hdr_wire, counts_after. cbn [d_qdcount d_ancount d_nscount d_arcount set_counts]. unfold zlen, u16.
    fold cq ca cn cr. rewrite !Z.mod_small by lia. reflexivity. }
  set (W := hdr_wire d true ++ qw ++ aw ++ nw ++ rw).
  exists W. rewrite firstn_app_exact by (rewrite app_length; lia).
  destruct (hdr_bits2 (d_qr d) (d_aa d) (d_tc d) (d_rd d) (d_opcode d) Hop) as (B1 & B2 & B3 & B4 & B5 & B6).
  assert (Hrc16 : 0 <= Z.land (d_rcode d) 15 < 16).
  { change 15 with (Z.ones 4). rewrite Z.land_ones by lia. change (2 ^ 4) with 16. lia. }
  destruct (hdr_bits3 (d_ra d) (d_z d) (Z.land (d_rcode d) 15) Hz Hrc16) as (C1 & C2 & C3 & C4).
  replace (Z.land (Z.land (d_rcode d) 15) 15) with (Z.land (d_rcode d) 15) in C1, C2, C3, C4
    by (change 15 with (Z.ones 4); rewrite !Z.land_ones by lia; change (2 ^ 4) with 16; lia).
  fold (hdr_b2 d) in B1, B2, B3, B4, B5, B6. fold (hdr_b3 d) in C1, C2, C3, C4.
  set (body := qw ++ aw ++ nw ++ rw) in *.
  assert (HW : W = be_bytes 2 (d_id d) ++ [hdr_b2 d] ++ [hdr_b3 d] ++ be_bytes 2 cq ++ be_bytes 2 ca ++ be_bytes 2 cn ++ be_bytes 2 cr ++ body)
    by (unfold W; rewrite HH, <- !app_assoc; reflexivity).
  set (HD := be_bytes 2 (d_id d) ++ [hdr_b2 d] ++ [hdr_b3 d] ++ be_bytes 2 cq ++ be_bytes 2 ca ++ be_bytes 2 cn ++ be_bytes 2 cr).
  assert (HWD : W = HD ++ body) by (rewrite HW; unfold HD; rewrite <- !app_assoc; reflexivity).
  assert (HDl : n6_len HD = 12) by (unfold HD; lens; lia).
  pose proof (n6_len_nonneg body).
  unfold decode_into. replace (n6_len W <? 12) with false by (rewrite HWD; lens; lia).
  assert (E2 : n6_idx W 2 = Some (hdr_b2 d)).
  { rewrite HW. cbn [app]. apply (idx_mid (be_bytes 2 (d_id d))). lens. lia. }
  assert (E3 : n6_idx W 3 = Some (hdr_b3 d)).
  { rewrite HW. replace (be_bytes 2 (d_id d) ++ [hdr_b2 d] ++ [hdr_b3 d] ++ be_bytes 2 cq ++ be_bytes 2 ca ++ be_bytes 2 cn ++ be_bytes 2 cr ++ body)
      with ((be_bytes 2 (d_id d) ++ [hdr_b2 d]) ++ hdr_b3 d :: (be_bytes 2 cq ++ be_bytes 2 ca ++ be_bytes 2 cn ++ be_bytes 2 cr ++ body)) by (rewrite <- !app_assoc; reflexivity).
    apply idx_mid. lens. lia. }
  assert (Eid : n6_slice W 0 2 = Some (be_bytes 2 (d_id d))).
  { rewrite HW. apply (slice_mid [] (be_bytes 2 (d_id d))); [reflexivity|lens; lia]. }
  assert (Eqd : n6_slice W 4 6 = Some (be_bytes 2 cq)).
  { rewrite HW. replace (be_bytes 2 (d_id d) ++ [hdr_b2 d] ++ [hdr_b3 d] ++ be_bytes 2 cq ++ be_bytes 2 ca ++ be_bytes 2 cn ++ be_bytes 2 cr ++ body)
      with ((be_bytes 2 (d_id d) ++ [hdr_b2 d] ++ [hdr_b3 d]) ++ be_bytes 2 cq ++ (be_bytes 2 ca ++ be_bytes 2 cn ++ be_bytes 2 cr ++ body)) by (rewrite <- !app_assoc; reflexivity).
    apply slice_mid; lens; lia. }
  assert (Ean : n6_slice W 6 8 = Some (be_bytes 2 ca)).
  { rewrite HW. replace (be_bytes 2 (d_id d) ++ [hdr_b2 d] ++ [hdr_b3 d] ++ be_bytes 2 cq ++ be_bytes 2 ca ++ be_bytes 2 cn ++ be_bytes 2 cr ++ body)
      with ((be_bytes 2 (d_id d) ++ [hdr_b2 d] ++ [hdr_b3 d] ++ be_bytes 2 cq) ++ be_bytes 2 ca ++ (be_bytes 2 cn ++ be_bytes 2 cr ++ body)) by (rewrite <- !app_assoc; reflexivity).
    apply slice_mid; lens; lia. }
  assert (Ens : n6_slice W 8 10 = Some (be_bytes 2 cn)).
  { rewrite HW. replace (be_bytes 2 (d_id d) ++ [hdr_b2 d] ++ [hdr_b3 d] ++ be_bytes 2 cq ++ be_bytes 2 ca ++ be_bytes 2 cn ++ be_bytes 2 cr ++ body)
      with ((be_bytes 2 (d_id d) ++ [hdr_b2 d] ++ [hdr_b3 d] ++ be_bytes 2 cq ++ be_bytes 2 ca) ++ be_bytes 2 cn ++ (be_bytes 2 cr ++ body)) by (rewrite <- !app_assoc; reflexivity).
    apply slice_mid; lens; lia. }
  assert (Ear : n6_slice W 10 12 = Some (be_bytes 2 cr)).
  { rewrite HW. replace (be_bytes 2 (d_id d) ++ [hdr_b2 d] ++ [hdr_b3 d] ++ be_bytes 2 cq ++ be_bytes 2 ca ++ be_bytes 2 cn ++ be_bytes 2 cr ++ body)
      with ((be_bytes 2 (d_id d) ++ [hdr_b2 d] ++ [hdr_b3 d] ++ be_bytes 2 cq ++ be_bytes 2 ca ++ be_bytes 2 cn) ++ be_bytes 2 cr ++ body) by (rewrite <- !app_assoc; reflexivity).
    apply slice_mid; lens; lia. }
  rewrite E2, E3, Eid, Eqd, Ean, Ens, Ear.
  rewrite !be_val_be2 by (try assumption; lia).
  unfold cq at 1. rewrite Nat2Z.id.
  destruct (q_loop_wire (d_questions d) HD (aw ++ nw ++ rw) [] [] qw Hq Hqw) as (buf1 & Hql).
  replace (HD ++ qw ++ aw ++ nw ++ rw) with W in Hql by (rewrite HWD; reflexivity).
  replace (n6_len HD) with 12 in Hql by lia. rewrite Hql. cbn [app].
  unfold ca at 1. rewrite Nat2Z.id.
  destruct (rr_loop_wire false (d_answers d) (HD ++ qw) (nw ++ rw) buf1 [] (Z.land (hdr_b3 d) 15) aw Ha Haw) as (ans2 & buf2 & Hal & Has).
  replace ((HD ++ qw) ++ aw ++ nw ++ rw) with W in Hal by (rewrite HWD; unfold body; rewrite <- !app_assoc; reflexivity).
  replace (n6_len (HD ++ qw)) with (12 + n6_len qw) in Hal by (lens; lia). rewrite Hal. cbn [app].
  unfold cn at 1. rewrite Nat2Z.id.
  destruct (rr_loop_wire false (d_authorities d) ((HD ++ qw) ++ aw) rw buf2 [] (Z.land (hdr_b3 d) 15) nw Hn Hnw) as (aus2 & buf3 & Hnl & Hns).
  replace (((HD ++ qw) ++ aw) ++ nw ++ rw) with W in Hnl by (rewrite HWD; unfold body; rewrite <- !app_assoc; reflexivity).
  replace (n6_len ((HD ++ qw) ++ aw)) with (12 + n6_len qw + n6_len aw) in Hnl by (lens; lia). rewrite Hnl. cbn [app].
  unfold cr at 1. rewrite Nat2Z.id.
  destruct (rr_loop_wire true (d_additionals d) (((HD ++ qw) ++ aw) ++ nw) [] buf3 [] (Z.land (hdr_b3 d) 15) rw Hr Hrw) as (ads2 & buf4 & Hrl & Hrs).
  replace ((((HD ++ qw) ++ aw) ++ nw) ++ rw ++ []) with W in Hrl by (rewrite HWD, app_nil_r; unfold body; rewrite <- !app_assoc; reflexivity).
  replace (n6_len (((HD ++ qw) ++ aw) ++ nw)) with (12 + n6_len qw + n6_len aw + n6_len nw) in Hrl by (lens; lia). rewrite Hrl. cbn [app].
  pose proof (F2_length _ _ _ Has) as La2. pose proof (F2_length _ _ _ Hns) as Ln2. pose proof (F2_length _ _ _ Hrs) as Lr2.
  replace (negb (u16 (Z.of_nat (length (d_questions d))) =? cq)) with false by (unfold u16, cq; lia).
  replace (negb (u16 (Z.of_nat (length ans2)) =? ca)) with false by (unfold u16, ca; lia).
  replace (negb (u16 (Z.of_nat (length aus2)) =? cn)) with false by (unfold u16, cn; lia).
  replace (negb (u16 (Z.of_nat (length ads2)) =? cr)) with false by (unfold u16, cr; lia).
  eexists. split; [reflexivity|]. cbn [d_id d_qr d_opcode d_aa d_tc d_rd d_ra d_z d_rcode d_qdcount d_ancount d_nscount d_arcount
                                       d_questions d_answers d_authorities d_additionals d_contents d_payload].
  rewrite C3. cbn [ext_rcode]. rewrite <- Hrc.
  repeat split; try assumption; try reflexivity.
Qed.

(* ---------------------------------------------------------------- re-serializing the decoded layer *)
Lemma rr_wire_same r r2 : rr_same r r2 -> rr_wire r2 = rr_wire r.
Proof.
  intros (Hn & Ht & Hc & Httl & Hm & Hd). unfold rr_wire, owner_meta. rewrite Hn, Hm, Ht, Hc, Httl.
  assert (E : rdata_wire r2 = rdata_wire r).
  { unfold rdata_wire, rdata_meta, rdata2_meta. rewrite Ht, Hm. unfold rdata_same in Hd.
    destruct (r_type r =? T_A); [cbn [orb] in Hd; rewrite Hd; reflexivity|].
    destruct (r_type r =? T_AAAA); [cbn [orb] in Hd; rewrite Hd; reflexivity|]. cbn [orb] in Hd.
    destruct (r_type r =? T_NS); [rewrite Hd; reflexivity|].
    destruct (r_type r =? T_CNAME); [rewrite Hd; reflexivity|].
    destruct (r_type r =? T_PTR); [rewrite Hd; reflexivity|].
    destruct (r_type r =? T_SOA); [rewrite Hd; reflexivity|].
    destruct (r_type r =? T_MX); [rewrite Hd; reflexivity|].
    destruct (r_type r =? T_TXT); [rewrite Hd; reflexivity|].
    destruct (r_type r =? T_SRV); [rewrite Hd; reflexivity|].
    destruct (r_type r =? T_NAPTR); [rewrite Hd; reflexivity|].
    destruct (r_type r =? T_URI); [rewrite Hd; reflexivity|].
    destruct (r_type r =? T_OPT); [rewrite Hd; reflexivity|].
    destruct (r_type r =? T_RRSIG); [rewrite Hd; reflexivity|].
    destruct (r_type r =? T_DNSKEY); [rewrite Hd; reflexivity|].
    destruct ((r_type r =? T_SVCB) || (r_type r =? T_HTTPS)); [rewrite Hd; reflexivity|]. reflexivity. }
  rewrite E. reflexivity.
Qed.

Lemma rrs_wire_same rs rs2 : Forall2 rr_same rs rs2 -> rrs_wire rs2 = rrs_wire rs.
Proof. induction 1 as [|r r2 t t2 H _ IH]; cbn [rrs_wire]; [reflexivity|]. rewrite (rr_wire_same _ _ H), IH. reflexivity. Qed.

Theorem roundtrip_fixpoint d payload junk : dns_wf d ->
  exists w d2,
    roundtrip d payload junk = (Ok (w ++ payload), (d2, Ok tt, false)) /\
    forall fix_ csum junk', fst (serialize d2 payload fix_ csum junk') = Ok (w ++ payload).
Proof.
  intros Hwf. destruct (roundtrip_ok d payload junk Hwf) as (w & d2 & HR & Hid & Hqr & Hop & Haa & Htc & Hrd & Hra & Hz & Hrc
    & Hqd & Han & Hns & Har & Hq & Ha & Hn & Hr & Hc & Hp).
  exists w, d2. split; [exact HR|]. intros fix_ csum junk'.
  (* w is the wire form of d with FixLengths; the same computation for d2 gives the same bytes *)
  unfold roundtrip in HR. rewrite serialize_eq_spec in HR. rewrite serialize_eq_spec.
  unfold ser_spec in *.
  destruct (dns_sizes d) as [sz|e|s]; [|inversion HR|inversion HR].
  destruct (qs_wire (d_questions d)) as [qw|e|s] eqn:Eq; [|inversion HR|inversion HR].
  destruct (rrs_wire (d_answers d)) as [aw|e|s] eqn:Ea; [|inversion HR|inversion HR].
  destruct (rrs_wire (d_authorities d)) as [nw|e|s] eqn:En; [|inversion HR|inversion HR].
  destruct (rrs_wire (d_additionals d)) as [rw|e|s] eqn:Er; [|inversion HR|inversion HR].
  assert (Hw : (hdr_wire d true ++ qw ++ aw ++ nw ++ rw) ++ payload = w ++ payload) by (inversion HR; reflexivity).
  apply app_inv_tail in Hw.
  destruct (q_size_of_wire (d_questions d2) qw ltac:(rewrite Hq; exact Eq)) as [s1 H1].
  destruct (compute_size_of_wire (d_answers d2) aw ltac:(rewrite (rrs_wire_same _ _ Ha); exact Ea)) as [s2 H2].
  destruct (compute_size_of_wire (d_authorities d2) nw ltac:(rewrite (rrs_wire_same _ _ Hn); exact En)) as [s3 H3].
  destruct (compute_size_of_wire (d_additionals d2) rw ltac:(rewrite (rrs_wire_same _ _ Hr); exact Er)) as [s4 H4].
  unfold dns_sizes. rewrite H1, H2, H3, H4. cbn [obind].
  rewrite Hq, Eq, (rrs_wire_same _ _ Ha), Ea, (rrs_wire_same _ _ Hn), En, (rrs_wire_same _ _ Hr), Er. cbn [fst].
  f_equal. f_equal. rewrite <- Hw. f_equal.
  (* the header: same fields; the counts of d2 are already the list lengths *)
  unfold hdr_wire, hdr_b2, hdr_b3, counts_after. rewrite Hid, Hqr, Hop, Haa, Htc, Hrd, Hra, Hz, Hrc.
  pose proof (F2_length _ _ _ Ha) as La. pose proof (F2_length _ _ _ Hn) as Ln. pose proof (F2_length _ _ _ Hr) as Lr.
  destruct Hwf as (_ & _ & _ & _ & _ & _ & _ & _ & Lq' & La' & Ln' & Lr').
  destruct fix_; cbn [d_qdcount d_ancount d_nscount d_arcount set_counts].
  - unfold zlen. rewrite Hq, <- La, <- Ln, <- Lr. reflexivity.
  - rewrite Hqd, Han, Hns, Har. unfold zlen in *. unfold u16. rewrite !Z.mod_small by lia. reflexivity.
Qed.
