(* A weakest-precondition calculus for programs over the stream interface of NgModel.
   [wp p n Q]: run against ANY stream that has n bytes left (whatever their values, and however the
   stream ends), p does not panic, does not run out of fuel, and on success establishes Q of the
   result, the reader state and the number of bytes then left.  Sound for run_f (wp_sound). *)
From GP Require Import Base NgModel NgIoProofs.
From Coq Require Import Lia ZifyBool ZifyNat.
Open Scope Z_scope.

Definition rd_ok (k n : Z) (bs : list Z) (n' : Z) : Prop :=
  bytes_ok bs /\ ((k <= 0 /\ bs = [] /\ n' = n) \/ (0 < k /\ zlen bs = k /\ k <= n /\ n' = n - k)).
(* make([]byte, a): at most one 16-bit option value, or bounded by the declared snap length /
   the declared remaining length of the current block *)
Definition alloc_ok (a sn bl : Z) : Prop := a <= 65535 \/ a <= Z.max sn bl.
Definition disc_ok (k n n' : Z) : Prop :=
  (k <= 0 /\ n' = n) \/ (0 < k /\ k <= n /\ n' = n - k).

Fixpoint wp {A} (p : io (rst * outcome A)) (n : Z) (Q : A -> rst -> Z -> Prop) : Prop :=
  match p with
  | Ret r => match snd r with Ok a => Q a (fst r) n | Err c => 0 < c < 9 | Panic _ => False end
  | Rd k cont => (forall bs n', rd_ok k n bs n' -> wp (cont bs RsOk) n' Q)
                 /\ (forall bs st, st <> RsOk -> wp (cont bs st) 0 Q)
  | Disc k cont => (forall n', disc_ok k n n' -> wp (cont RsOk) n' Q)
                   /\ (forall st, st <> RsOk -> wp (cont st) 0 Q)
  | Until0 cont => (forall bs n', 0 < zlen bs -> zlen bs <= n -> n' = n - zlen bs -> wp (cont bs RsOk) n' Q)
                   /\ (forall bs st, st <> RsOk -> wp (cont bs st) 0 Q)
  | Peek2 cont => forall bs st, wp (cont bs st) n Q
  | Alloc a sn bl k => alloc_ok a sn bl /\ wp k n Q
  end.

Lemma wp_mono {A} (p : io (rst * outcome A)) : forall n (Q Q' : A -> rst -> Z -> Prop),
  (forall a s n', Q a s n' -> Q' a s n') -> wp p n Q -> wp p n Q'.
Proof.
  induction p as [r|k cont IH|k cont IH|cont IH|cont IH|a sn bl k IH]; intros n Q Q' HQ; cbn [wp].
  - destruct (snd r); auto.
  - intros [H1 H2]; split; intros; eapply IH; eauto.
  - intros [H1 H2]; split; intros; eapply IH; eauto.
  - intros [H1 H2]; split; intros; eapply IH; eauto.
  - intros H bs st. eapply IH; eauto.
  - intros [Ha H]. split; [exact Ha|]. eapply IH; eauto.
Qed.

Lemma wp_iobind {A B} (p : io (rst * outcome A)) (f : A -> SM B) : forall n Q,
  wp p n (fun a s' n' => wp (f a s') n' Q) ->
  wp (iobind p (fun r => match snd r with
                          | Ok a => f a (fst r)
                          | Err c => Ret (fst r, Err c)
                          | Panic q => Ret (fst r, Panic q) end)) n Q.
Proof.
  induction p as [r|k cont IH|k cont IH|cont IH|cont IH|a sn bl k IH]; intros n Q; cbn [wp iobind].
  - destruct r as [s o]; cbn [fst snd]. destruct o; cbn [wp fst snd]; auto.
  - intros [H1 H2]; split; intros; apply IH; auto.
  - intros [H1 H2]; split; intros; apply IH; auto.
  - intros [H1 H2]; split; intros; apply IH; auto.
  - intros H bs st. apply IH; auto.
  - intros [Ha H]. split; [exact Ha|]. apply IH; auto.
Qed.

Lemma wp_bind {A B} (m : SM A) (f : A -> SM B) s n Q :
  wp (m s) n (fun a s' n' => wp (f a s') n' Q) -> wp (sbind m f s) n Q.
Proof. unfold sbind. apply wp_iobind. Qed.

(* soundness for the flat interpreter *)
Definition sok (fs : fstream) : Prop := flen fs = zlen (fdata fs) /\ bytes_ok (fdata fs).

Lemma Forall_firstn {X} (P : X -> Prop) l k : Forall P l -> Forall P (firstn k l).
Proof. revert k; induction l; intros [|k] H; cbn; auto. inversion H; subst. constructor; auto. Qed.
Lemma Forall_skipn {X} (P : X -> Prop) l k : Forall P l -> Forall P (skipn k l).
Proof. revert k; induction l; intros [|k] H; cbn; auto. inversion H; subst. auto. Qed.

Lemma f_read_ok k fs : sok fs ->
  match f_read k fs with
  | (bs, fs', RsOk) => rd_ok k (flen fs) bs (flen fs') /\ sok fs'
  | (bs, fs', _) => flen fs' = 0 /\ fdata fs' = []
  end.
Proof.
  intros [H Hb]. unfold f_read, rd_ok, sok.
  destruct (k <=? 0) eqn:E0. { split; auto. split; [constructor|]. left. split; [lia|auto]. }
  destruct (k <=? flen fs) eqn:E1.
  - cbn [flen fdata]. split; [split|split].
    + apply Forall_firstn; exact Hb.
    + right. split; [lia|]. split; [|lia]. unfold zlen in *. rewrite firstn_length. lia.
    + unfold zlen in *. rewrite skipn_length. lia.
    + apply Forall_skipn; exact Hb.
  - unfold fend. destruct (ffail fs); cbn; auto.
Qed.

Lemma f_disc_ok k fs : sok fs ->
  match f_disc k fs with
  | (fs', RsOk) => disc_ok k (flen fs) (flen fs') /\ sok fs'
  | (fs', _) => flen fs' = 0 /\ fdata fs' = []
  end.
Proof.
  intros [H Hb]. unfold f_disc, disc_ok, sok.
  destruct (k <=? 0) eqn:E0. { split; auto. left. lia. }
  destruct (k <=? flen fs) eqn:E1.
  - cbn [flen fdata]. split; [right; lia|]. split; [unfold zlen in *; rewrite skipn_length; lia|].
    apply Forall_skipn; exact Hb.
  - unfold fend. destruct (ffail fs); cbn; auto.
Qed.

Lemma split0_pos l a r : split0 l = Some (a, r) -> 0 < zlen a.
Proof.
  destruct l as [|b t]; cbn [split0]; [discriminate|].
  destruct (b =? 0). { intros [= <- <-]. cbn. lia. }
  destruct (split0 t) as [[a' r']|]; [|discriminate]. intros [= <- <-]. unfold zlen; cbn. lia.
Qed.

Lemma f_until0_ok fs : sok fs ->
  match f_until0 fs with
  | (bs, fs', RsOk) => 0 < zlen bs /\ zlen bs <= flen fs /\ flen fs' = flen fs - zlen bs /\ sok fs'
  | (bs, fs', _) => flen fs' = 0 /\ fdata fs' = []
  end.
Proof.
  intros [H Hb]. unfold f_until0, sok. destruct (split0 (fdata fs)) as [[a r]|] eqn:E.
  - cbn [flen fdata]. pose proof (split0_pos _ _ _ E). apply split0_len in E.
    rewrite H, E. rewrite zlen_app. pose proof (zlen_nonneg r).
    repeat split; try lia. rewrite E in Hb. apply Forall_app in Hb. tauto.
  - unfold fend. destruct (ffail fs); cbn; auto.
Qed.

Definition allocs_ok (fs : fstream) : Prop :=
  Forall (fun e => alloc_ok (fst (fst (fst e))) (snd (fst (fst e))) (snd (fst e))) (fallocs fs).
Lemma sok_nil fs : flen fs = 0 -> fdata fs = [] -> sok fs.
Proof. intros H1 H2. unfold sok. rewrite H1, H2. split; [reflexivity|constructor]. Qed.

Definition res_ok {A} (Q : A -> rst -> Z -> Prop) (r : (rst * outcome A) * fstream) : Prop :=
  allocs_ok (snd r) /\
  match snd (fst r) with
  | Ok a => Q a (fst (fst r)) (flen (snd r)) /\ sok (snd r)
  | Err c => 0 < c < 9
  | Panic _ => False
  end.

Lemma f_read_allocs k fs : fallocs (snd (fst (f_read k fs))) = fallocs fs.
Proof. unfold f_read. destruct (k <=? 0); [reflexivity|]. destruct (k <=? flen fs); reflexivity. Qed.
Lemma f_disc_allocs k fs : fallocs (fst (f_disc k fs)) = fallocs fs.
Proof. unfold f_disc. destruct (k <=? 0); [reflexivity|]. destruct (k <=? flen fs); reflexivity. Qed.
Lemma f_until0_allocs fs : fallocs (snd (fst (f_until0 fs))) = fallocs fs.
Proof. unfold f_until0. destruct (split0 (fdata fs)) as [[a r]|]; reflexivity. Qed.

Theorem wp_sound {A} (p : io (rst * outcome A)) : forall fs Q,
  sok fs -> allocs_ok fs -> wp p (flen fs) Q -> res_ok Q (run_f p fs).
Proof.
  induction p as [r|k cont IH|k cont IH|cont IH|cont IH|a sn bl k IH]; intros fs Q Hl Ha; cbn [wp run_f].
  - unfold res_ok; cbn [fst snd]. destruct (snd r); auto.
  - intros [H1 H2]. pose proof (f_read_ok k fs Hl) as R. pose proof (f_read_allocs k fs) as RA.
    destruct (f_read k fs) as [[bs fs'] st]. cbn [fst snd] in RA.
    assert (allocs_ok fs') as Ha' by (unfold allocs_ok; rewrite RA; exact Ha).
    destruct st.
    + destruct R as [R1 R2]. apply IH; auto.
    + destruct R as [R1 R2]. apply IH; [apply sok_nil; auto|auto|]. rewrite R1. apply H2. discriminate.
    + destruct R as [R1 R2]. apply IH; [apply sok_nil; auto|auto|]. rewrite R1. apply H2. discriminate.
  - intros [H1 H2]. pose proof (f_disc_ok k fs Hl) as R. pose proof (f_disc_allocs k fs) as RA.
    destruct (f_disc k fs) as [fs' st]. cbn [fst snd] in RA.
    assert (allocs_ok fs') as Ha' by (unfold allocs_ok; rewrite RA; exact Ha).
    destruct st.
    + destruct R as [R1 R2]. apply IH; auto.
    + destruct R as [R1 R2]. apply IH; [apply sok_nil; auto|auto|]. rewrite R1. apply H2. discriminate.
    + destruct R as [R1 R2]. apply IH; [apply sok_nil; auto|auto|]. rewrite R1. apply H2. discriminate.
  - intros [H1 H2]. pose proof (f_until0_ok fs Hl) as R. pose proof (f_until0_allocs fs) as RA.
    destruct (f_until0 fs) as [[bs fs'] st]. cbn [fst snd] in RA.
    assert (allocs_ok fs') as Ha' by (unfold allocs_ok; rewrite RA; exact Ha).
    destruct st.
    + destruct R as (R1 & R2 & R3 & R4). apply IH; auto.
    + destruct R as [R1 R2]. apply IH; [apply sok_nil; auto|auto|]. rewrite R1. apply H2. discriminate.
    + destruct R as [R1 R2]. apply IH; [apply sok_nil; auto|auto|]. rewrite R1. apply H2. discriminate.
  - intros H. destruct (f_peek2 fs) as [bs st]. apply IH; auto.
  - intros [Hk H]. apply IH; auto.
    unfold allocs_ok; cbn [fallocs]. constructor; [cbn [fst snd]; exact Hk|exact Ha].
Qed.

(* ---------------------------------------------------------------- primitives *)
Lemma err_of_ne9 st : 0 < err_of st < 9.
Proof. destruct st; cbn; lia. Qed.

Lemma wp_s_rd k s n (Q : list Z -> rst -> Z -> Prop) :
  (forall bs n', rd_ok k n bs n' -> Q bs s n') -> wp (s_rd k s) n Q.
Proof.
  intros H. unfold s_rd; cbn [wp]. split.
  - intros bs n' R. cbn. auto.
  - intros bs st Hst. destruct st; [congruence| |]; cbn; lia.
Qed.

Lemma wp_s_disc k s n (Q : unit -> rst -> Z -> Prop) :
  (forall n', disc_ok k n n' -> Q tt (set_blen s (u32 (r_blen s - k))) n') -> wp (s_disc k s) n Q.
Proof.
  intros H. unfold s_disc; cbn [wp]. split.
  - intros n' R. cbn. auto.
  - intros st Hst. destruct st; [congruence| |]; cbn; lia.
Qed.

Lemma wp_s_alloc a sn s n (Q : unit -> rst -> Z -> Prop) :
  alloc_ok a sn (r_blen s) -> Q tt s n -> wp (s_alloc a sn s) n Q.
Proof. intros H1 H2. unfold s_alloc; cbn [wp]. split; [exact H1|]. cbn. exact H2. Qed.

Lemma wp_slift {A} (o : outcome A) s n (Q : A -> rst -> Z -> Prop) :
  (forall a, o = Ok a -> Q a s n) -> (forall c, o = Err c -> 0 < c < 9) -> (forall q, o <> Panic q) ->
  wp (slift o s) n Q.
Proof.
  intros H1 H2 H3. destruct o; cbn; auto. exfalso. eapply H3; reflexivity.
Qed.

Lemma bytes_okb_ok l : bytes_okb l = true -> bytes_ok l.
Proof.
  unfold bytes_okb, bytes_ok. rewrite forallb_forall, Forall_forall. intros H x Hx.
  specialize (H x Hx). unfold byte_okb, byte_ok in *. lia.
Qed.
