(* A weakest-precondition calculus for programs over the stream interface of NgModel.
   [wp p n Q]: run against ANY stream that has n bytes left (whatever their values, and however the
   stream ends), p does not panic, does not run out of fuel, and on success establishes Q of the
   result, the reader state and the number of bytes then left.  Sound for run_f (wp_sound). *)
From GP Require Import Base NgModel NgIoProofs.
From Coq Require Import Lia ZifyBool ZifyNat.
Open Scope Z_scope.

Definition rd_ok (k n : Z) (bs : list Z) (n' : Z) : Prop :=
  bytes_ok bs /\ ((k <= 0 /\ bs = [] /\ n' = n) \/ (0 < k /\ zlen bs = k /\ k <= n /\ n' = n - k)).
(* make([]byte, a): at most one 16-bit option value, or bounded by the declared snap length /
   the declared remaining length of the current block *)
Definition alloc_ok (a sn bl : Z) : Prop := a <= 65535 \/ a <= Z.max sn bl.
Definition disc_ok (k n n' : Z) : Prop :=
  (k <= 0 /\ n' = n) \/ (0 < k /\ k <= n /\ n' = n - k).

(* the class of an error result, given how the last stream operation ended (e): unless the stream
   ended (RsEOF) the class is 3 (an error) or 7 (gzip): io.EOF / io.ErrUnexpectedEOF are reported
   only when the stream really ended, in particular never after a read error (RsFail) *)
Definition errcls (e : rstat) (c : Z) : Prop := match e with RsEOF => 0 < c < 9 | _ => c = 3 \/ c = 7 end.
Definition upd_e (e st : rstat) : rstat := match st with RsOk => e | _ => st end.

Fixpoint wpe {A} (p : io (rst * outcome A)) (e : rstat) (n : Z) (Q : A -> rst -> Z -> Prop) : Prop :=
  match p with
  | Ret r => match snd r with Ok a => Q a (fst r) n | Err c => errcls e c | Panic _ => False end
  | Rd k cont => (forall bs n', rd_ok k n bs n' -> wpe (cont bs RsOk) e n' Q)
                 /\ (forall bs st, st <> RsOk -> wpe (cont bs st) st 0 (fun _ _ _ => False))
  | Disc k cont => (forall n', disc_ok k n n' -> wpe (cont RsOk) e n' Q)
                   /\ (forall st, st <> RsOk -> wpe (cont st) st 0 (fun _ _ _ => False))
  | Until0 cont => (forall bs n', 0 < zlen bs -> zlen bs <= n -> n' = n - zlen bs -> wpe (cont bs RsOk) e n' Q)
                   /\ (forall bs st, st <> RsOk -> wpe (cont bs st) st 0 (fun _ _ _ => False))
  | Peek2 cont => (forall bs, wpe (cont bs RsOk) e n Q)
                  /\ (forall bs st, st <> RsOk -> wpe (cont bs st) st n (fun _ _ _ => False))
  | Alloc a sn bl k => alloc_ok a sn bl /\ wpe k e n Q
  end.
Notation wp p n Q := (wpe p RsOk n Q).

Lemma wpe_mono {A} (p : io (rst * outcome A)) : forall e n (Q Q' : A -> rst -> Z -> Prop),
  (forall a s n', Q a s n' -> Q' a s n') -> wpe p e n Q -> wpe p e n Q'.
Proof.
  induction p as [r|k cont IH|k cont IH|cont IH|cont IH|a sn bl k IH]; intros e n Q Q' HQ; cbn [wpe].
  - destruct (snd r); auto.
  - intros [H1 H2]; split; intros; [eapply IH; eauto|auto].
  - intros [H1 H2]; split; intros; [eapply IH; eauto|auto].
  - intros [H1 H2]; split; intros; [eapply IH; eauto|auto].
  - intros [H1 H2]; split; intros; [eapply IH; eauto|auto].
  - intros [Ha H]. split; [exact Ha|]. eapply IH; eauto.
Qed.
Lemma wp_mono {A} (p : io (rst * outcome A)) n (Q Q' : A -> rst -> Z -> Prop) :
  (forall a s n', Q a s n' -> Q' a s n') -> wp p n Q -> wp p n Q'.
Proof. apply wpe_mono. Qed.

Lemma wpe_false_bind {A B} (p : io (rst * outcome A)) (g : rst * outcome A -> io (rst * outcome B)) :
  (forall s c, g (s, Err c) = Ret (s, Err c)) -> (forall s q, g (s, Panic q) = Ret (s, Panic q)) ->
  forall e n Q, wpe p e n (fun _ _ _ => False) -> wpe (iobind p g) e n Q.
Proof.
  intros G1 G2. induction p as [r|k cont IH|k cont IH|cont IH|cont IH|a sn bl k IH]; intros e n Q; cbn [wpe iobind].
  - destruct r as [s o]; cbn [fst snd]. destruct o; [contradiction|rewrite G1; cbn; auto|contradiction].
  - intros [H1 H2]; split; intros; apply IH; auto.
  - intros [H1 H2]; split; intros; apply IH; auto.
  - intros [H1 H2]; split; intros; apply IH; auto.
  - intros [H1 H2]; split; intros; apply IH; auto.
  - intros [Ha H]. split; [exact Ha|]. apply IH; auto.
Qed.

Lemma wp_iobind {A B} (p : io (rst * outcome A)) (f : A -> SM B) : forall e n Q,
  wpe p e n (fun a s' n' => wpe (f a s') e n' Q) ->
  wpe (iobind p (fun r => match snd r with
                          | Ok a => f a (fst r)
                          | Err c => Ret (fst r, Err c)
                          | Panic q => Ret (fst r, Panic q) end)) e n Q.
Proof.
  induction p as [r|k cont IH|k cont IH|cont IH|cont IH|a sn bl k IH]; intros e n Q; cbn [wpe iobind].
  - destruct r as [s o]; cbn [fst snd]. destruct o; cbn [wpe fst snd]; auto.
  - intros [H1 H2]; split; intros; [apply IH; auto|apply wpe_false_bind; auto].
  - intros [H1 H2]; split; intros; [apply IH; auto|apply wpe_false_bind; auto].
  - intros [H1 H2]; split; intros; [apply IH; auto|apply wpe_false_bind; auto].
  - intros [H1 H2]; split; intros; [apply IH; auto|apply wpe_false_bind; auto].
  - intros [Ha H]. split; [exact Ha|]. apply IH; auto.
Qed.

Lemma wp_bind {A B} (m : SM A) (f : A -> SM B) s n Q :
  wp (m s) n (fun a s' n' => wp (f a s') n' Q) -> wp (sbind m f s) n Q.
Proof. unfold sbind. apply wp_iobind. Qed.

(* soundness for the flat interpreter *)
Definition sok (fs : fstream) : Prop := flen fs = zlen (fdata fs) /\ bytes_ok (fdata fs).

Lemma Forall_firstn {X} (P : X -> Prop) l k : Forall P l -> Forall P (firstn k l).
Proof. revert k; induction l; intros [|k] H; cbn; auto. inversion H; subst. constructor; auto. Qed.
Lemma Forall_skipn {X} (P : X -> Prop) l k : Forall P l -> Forall P (skipn k l).
Proof. revert k; induction l; intros [|k] H; cbn; auto. inversion H; subst. auto. Qed.

Lemma f_read_ok k fs : sok fs ->
  match f_read k fs with
  | (bs, fs', RsOk) => rd_ok k (flen fs) bs (flen fs') /\ sok fs'
  | (bs, fs', _) => flen fs' = 0 /\ fdata fs' = []
  end.
Proof.
  intros [H Hb]. unfold f_read, rd_ok, sok.
  destruct (k <=? 0) eqn:E0. { split; auto. split; [constructor|]. left. split; [lia|auto]. }
  destruct (k <=? flen fs) eqn:E1.
  - cbn [flen fdata]. split; [split|split].
    + apply Forall_firstn; exact Hb.
    + right. split; [lia|]. split; [|lia]. unfold zlen in *. rewrite firstn_length. lia.
    + unfold zlen in *. rewrite skipn_length. lia.
    + apply Forall_skipn; exact Hb.
  - unfold fend. destruct (ffail fs); cbn; auto.
Qed.

Lemma f_disc_ok k fs : sok fs ->
  match f_disc k fs with
  | (fs', RsOk) => disc_ok k (flen fs) (flen fs') /\ sok fs'
  | (fs', _) => flen fs' = 0 /\ fdata fs' = []
  end.
Proof.
  intros [H Hb]. unfold f_disc, disc_ok, sok.
  destruct (k <=? 0) eqn:E0. { split; auto. left. lia. }
  destruct (k <=? flen fs) eqn:E1.
  - cbn [flen fdata]. split; [right; lia|]. split; [unfold zlen in *; rewrite skipn_length; lia|].
    apply Forall_skipn; exact Hb.
  - unfold fend. destruct (ffail fs); cbn; auto.
Qed.

Lemma split0_pos l a r : split0 l = Some (a, r) -> 0 < zlen a.
Proof.
  destruct l as [|b t]; cbn [split0]; [discriminate|].
  destruct (b =? 0). { intros [= <- <-]. cbn. lia. }
  destruct (split0 t) as [[a' r']|]; [|discriminate]. intros [= <- <-]. unfold zlen; cbn. lia.
Qed.

Lemma f_until0_ok fs : sok fs ->
  match f_until0 fs with
  | (bs, fs', RsOk) => 0 < zlen bs /\ zlen bs <= flen fs /\ flen fs' = flen fs - zlen bs /\ sok fs'
  | (bs, fs', _) => flen fs' = 0 /\ fdata fs' = []
  end.
Proof.
  intros [H Hb]. unfold f_until0, sok. destruct (split0 (fdata fs)) as [[a r]|] eqn:E.
  - cbn [flen fdata]. pose proof (split0_pos _ _ _ E). apply split0_len in E.
    rewrite H, E. rewrite zlen_app. pose proof (zlen_nonneg r).
    repeat split; try lia. rewrite E in Hb. apply Forall_app in Hb. tauto.
  - unfold fend. destruct (ffail fs); cbn; auto.
Qed.

Definition allocs_ok (fs : fstream) : Prop :=
  Forall (fun e => alloc_ok (fst (fst (fst e))) (snd (fst (fst e))) (snd (fst e))) (fallocs fs).
Lemma sok_nil fs : flen fs = 0 -> fdata fs = [] -> sok fs.
Proof. intros H1 H2. unfold sok. rewrite H1, H2. split; [reflexivity|constructor]. Qed.

Definition res_ok {A} (b : bool) (Q : A -> rst -> Z -> Prop) (r : (rst * outcome A) * fstream) : Prop :=
  allocs_ok (snd r) /\ ffail (snd r) = b /\
  match snd (fst r) with
  | Ok a => Q a (fst (fst r)) (flen (snd r)) /\ sok (snd r)
  | Err c => (c = 3 \/ c = 7) \/ (b = false /\ 0 < c < 9)
  | Panic _ => False
  end.

Lemma res_ok_false {A} b (Q : A -> rst -> Z -> Prop) r : res_ok b (fun _ _ _ => False) r -> res_ok b Q r.
Proof. unfold res_ok. intros (H1 & H2 & H3). repeat split; auto. destruct (snd (fst r)); tauto. Qed.

Lemma f_read_allocs k fs : fallocs (snd (fst (f_read k fs))) = fallocs fs.
Proof. unfold f_read. destruct (k <=? 0); [reflexivity|]. destruct (k <=? flen fs); reflexivity. Qed.
Lemma f_disc_allocs k fs : fallocs (fst (f_disc k fs)) = fallocs fs.
Proof. unfold f_disc. destruct (k <=? 0); [reflexivity|]. destruct (k <=? flen fs); reflexivity. Qed.
Lemma f_until0_allocs fs : fallocs (snd (fst (f_until0 fs))) = fallocs fs.
Proof. unfold f_until0. destruct (split0 (fdata fs)) as [[a r]|]; reflexivity. Qed.

Lemma f_read_st k fs : ffail (snd (fst (f_read k fs))) = ffail fs /\ (snd (f_read k fs) = RsOk \/ snd (f_read k fs) = fend fs).
Proof. unfold f_read. destruct (k <=? 0); [cbn; auto|]. destruct (k <=? flen fs); cbn; auto. Qed.
Lemma f_disc_st k fs : ffail (fst (f_disc k fs)) = ffail fs /\ (snd (f_disc k fs) = RsOk \/ snd (f_disc k fs) = fend fs).
Proof. unfold f_disc. destruct (k <=? 0); [cbn; auto|]. destruct (k <=? flen fs); cbn; auto. Qed.
Lemma f_until0_st fs : ffail (snd (fst (f_until0 fs))) = ffail fs /\ (snd (f_until0 fs) = RsOk \/ snd (f_until0 fs) = fend fs).
Proof. unfold f_until0. destruct (split0 (fdata fs)) as [[a r]|]; cbn; auto. Qed.
Lemma f_peek2_st fs : snd (f_peek2 fs) = RsOk \/ snd (f_peek2 fs) = fend fs.
Proof. unfold f_peek2. destruct (2 <=? flen fs); cbn; auto. Qed.

Lemma fend_same fs fs' : ffail fs' = ffail fs -> fend fs' = fend fs.
Proof. unfold fend. intros ->. reflexivity. Qed.

Theorem wpe_sound {A} (p : io (rst * outcome A)) : forall fs e Q,
  sok fs -> allocs_ok fs -> (e = RsOk \/ e = fend fs) -> wpe p e (flen fs) Q -> res_ok (ffail fs) Q (run_f p fs).
Proof.
  induction p as [r|k cont IH|k cont IH|cont IH|cont IH|a sn bl k IH]; intros fs e Q Hl Ha He; cbn [wpe run_f].
  - unfold res_ok; cbn [fst snd]. intros H. split; [exact Ha|]. split; [reflexivity|].
    destruct (snd r); auto. unfold errcls, fend in *. destruct He as [->| ->]; [auto|]. destruct (ffail fs); auto.
  - intros [H1 H2]. pose proof (f_read_ok k fs Hl) as R. pose proof (f_read_allocs k fs) as RA. pose proof (f_read_st k fs) as (RF & RS).
    destruct (f_read k fs) as [[bs fs'] st]. cbn [fst snd] in RA, RF, RS.
    assert (allocs_ok fs') as Ha' by (unfold allocs_ok; rewrite RA; exact Ha).
    rewrite <- RF. destruct st.
    + destruct R as [R1 R2]. apply IH with (e := e); auto. rewrite (fend_same _ _ RF). exact He.
    + destruct R as [R1 R2]. apply res_ok_false. apply IH with (e := RsEOF); [apply sok_nil; auto|auto| |].
      { right. rewrite (fend_same _ _ RF). destruct RS; [discriminate|auto]. }
      rewrite R1. apply H2. discriminate.
    + destruct R as [R1 R2]. apply res_ok_false. apply IH with (e := RsFail); [apply sok_nil; auto|auto| |].
      { right. rewrite (fend_same _ _ RF). destruct RS; [discriminate|auto]. }
      rewrite R1. apply H2. discriminate.
  - intros [H1 H2]. pose proof (f_disc_ok k fs Hl) as R. pose proof (f_disc_allocs k fs) as RA. pose proof (f_disc_st k fs) as (RF & RS).
    destruct (f_disc k fs) as [fs' st]. cbn [fst snd] in RA, RF, RS.
    assert (allocs_ok fs') as Ha' by (unfold allocs_ok; rewrite RA; exact Ha).
    rewrite <- RF. destruct st.
    + destruct R as [R1 R2]. apply IH with (e := e); auto. rewrite (fend_same _ _ RF). exact He.
    + destruct R as [R1 R2]. apply res_ok_false. apply IH with (e := RsEOF); [apply sok_nil; auto|auto| |].
      { right. rewrite (fend_same _ _ RF). destruct RS; [discriminate|auto]. }
      rewrite R1. apply H2. discriminate.
    + destruct R as [R1 R2]. apply res_ok_false. apply IH with (e := RsFail); [apply sok_nil; auto|auto| |].
      { right. rewrite (fend_same _ _ RF). destruct RS; [discriminate|auto]. }
      rewrite R1. apply H2. discriminate.
  - intros [H1 H2]. pose proof (f_until0_ok fs Hl) as R. pose proof (f_until0_allocs fs) as RA. pose proof (f_until0_st fs) as (RF & RS).
    destruct (f_until0 fs) as [[bs fs'] st]. cbn [fst snd] in RA, RF, RS.
    assert (allocs_ok fs') as Ha' by (unfold allocs_ok; rewrite RA; exact Ha).
    rewrite <- RF. destruct st.
    + destruct R as (R1 & R2 & R3 & R4). apply IH with (e := e); auto. rewrite (fend_same _ _ RF). exact He.
    + destruct R as [R1 R2]. apply res_ok_false. apply IH with (e := RsEOF); [apply sok_nil; auto|auto| |].
      { right. rewrite (fend_same _ _ RF). destruct RS; [discriminate|auto]. }
      rewrite R1. apply H2. discriminate.
    + destruct R as [R1 R2]. apply res_ok_false. apply IH with (e := RsFail); [apply sok_nil; auto|auto| |].
      { right. rewrite (fend_same _ _ RF). destruct RS; [discriminate|auto]. }
      rewrite R1. apply H2. discriminate.
  - intros [H1 H2]. pose proof (f_peek2_st fs) as RS. destruct (f_peek2 fs) as [bs st]. cbn [snd] in RS. destruct st.
    + apply IH with (e := e); auto.
    + apply res_ok_false. apply IH with (e := RsEOF); [exact Hl|exact Ha|right; destruct RS as [RS|RS]; [discriminate|exact RS]|apply H2; discriminate].
    + apply res_ok_false. apply IH with (e := RsFail); [exact Hl|exact Ha|right; destruct RS as [RS|RS]; [discriminate|exact RS]|apply H2; discriminate].
  - intros [Hk H]. 
    change (ffail fs) with (ffail (mkF (fdata fs) (flen fs) (ffail fs) ((a, sn, bl, flen fs) :: fallocs fs))).
    apply IH with (e := e); auto.
    unfold allocs_ok; cbn [fallocs]. constructor; [cbn [fst snd]; exact Hk|exact Ha].
Qed.

Theorem wp_sound {A} (p : io (rst * outcome A)) fs Q :
  sok fs -> allocs_ok fs -> wp p (flen fs) Q -> res_ok (ffail fs) Q (run_f p fs).
Proof. intros H1 H2 H3. apply wpe_sound with (e := RsOk); auto. Qed.

(* ---------------------------------------------------------------- primitives *)
Lemma err_of_cls st : st <> RsOk -> errcls st (err_of st).
Proof. destruct st; cbn; [congruence|lia|lia]. Qed.

Lemma wp_s_rd k s n (Q : list Z -> rst -> Z -> Prop) :
  (forall bs n', rd_ok k n bs n' -> Q bs s n') -> wp (s_rd k s) n Q.
Proof.
  intros H. unfold s_rd; cbn [wp]. split.
  - intros bs n' R. cbn. auto.
  - intros bs st Hst. destruct st; [congruence| |]; cbn; lia.
Qed.

Lemma wp_s_disc k s n (Q : unit -> rst -> Z -> Prop) :
  (forall n', disc_ok k n n' -> Q tt (set_blen s (u32 (r_blen s - k))) n') -> wp (s_disc k s) n Q.
Proof.
  intros H. unfold s_disc; cbn [wp]. split.
  - intros n' R. cbn. auto.
  - intros st Hst. destruct st; [congruence| |]; cbn; lia.
Qed.

Lemma wp_s_alloc a sn s n (Q : unit -> rst -> Z -> Prop) :
  alloc_ok a sn (r_blen s) -> Q tt s n -> wp (s_alloc a sn s) n Q.
Proof. intros H1 H2. unfold s_alloc; cbn [wp]. split; [exact H1|]. cbn. exact H2. Qed.

Lemma wp_slift {A} (o : outcome A) s n (Q : A -> rst -> Z -> Prop) :
  (forall a, o = Ok a -> Q a s n) -> (forall c, o = Err c -> c = 3 \/ c = 7) -> (forall q, o <> Panic q) ->
  wp (slift o s) n Q.
Proof.
  intros H1 H2 H3. destruct o; cbn; auto. exfalso. eapply H3; reflexivity.
Qed.

Lemma bytes_okb_ok l : bytes_okb l = true -> bytes_ok l.
Proof.
  unfold bytes_okb, bytes_ok. rewrite forallb_forall, Forall_forall. intros H x Hx.
  specialize (H x Hx). unfold byte_okb, byte_ok in *. lia.
Qed.
