(* Truncation: a program over the stream interface all of whose end-of-stream continuations return
   io.ErrUnexpectedEOF (eof2), run on a proper prefix of an input it would have consumed further,
   returns io.ErrUnexpectedEOF; run on a prefix that covers what it consumes, it behaves the same. *)
From GP Require Import Base NgModel NgIoProofs NgExec NgRoundtrip.
From Coq Require Import Lia ZifyBool ZifyNat.
Open Scope Z_scope.

Fixpoint eof2 {A} (p : io (rst * outcome A)) : Prop :=
  match p with
  | Ret _ => True
  | Rd n k => (forall bs, eof2 (k bs RsOk)) /\ (forall bs, exists s, k bs RsEOF = Ret (s, Err 2))
  | Disc n k => eof2 (k RsOk) /\ (exists s, k RsEOF = Ret (s, Err 2))
  | Until0 k => False
  | Peek2 k => False
  | Alloc _ _ _ k => eof2 k
  end.

Lemma skipn_firstn_comm' {X} (l : list X) n k : (n <= k)%nat -> skipn n (firstn k l) = firstn (k - n) (skipn n l).
Proof. intros H. rewrite skipn_firstn_comm. reflexivity. Qed.

Lemma skipn_skipn' {X} (l : list X) a b : skipn a (skipn b l) = skipn (b + a) l.
Proof. revert l; induction b as [|b IH]; intros l; [reflexivity|]. destruct l; [destruct a; reflexivity|]. cbn. apply IH. Qed.

Lemma zlen_firstn {X} (l : list X) k : (k <= length l)%nat -> zlen (firstn k l) = Z.of_nat k.
Proof. intros H. unfold zlen. rewrite firstn_length. lia. Qed.

Lemma trunc {A} (p : io (rst * outcome A)) : eof2 p -> forall l k, (k <= length l)%nat ->
  (exists s, run_d p (firstn k l) = ((s, Err 2), []))
  \/ (exists c, (c <= k)%nat /\ snd (run_d p l) = skipn c l
                /\ run_d p (firstn k l) = (fst (run_d p l), firstn (k - c) (skipn c l))).
Proof.
  induction p as [r|n cont IH|n cont IH|cont IH|cont IH|a sn bl cont IH]; intros He l k Hk; cbn [eof2] in He.
  - right. exists 0%nat. cbn [run_d fst snd skipn]. rewrite Nat.sub_0_r. repeat split; auto. lia.
  - destruct He as [He1 He2]. cbn [run_d]. destruct (n <=? 0) eqn:E0.
    + apply IH; auto.
    + rewrite (zlen_firstn l k Hk).
      destruct (n <=? Z.of_nat k) eqn:E1.
      * assert (n <=? zlen l = true) as -> by (unfold zlen; lia).
        assert (Z.to_nat n <= k)%nat as Hn by lia.
        rewrite firstn_firstn, Nat.min_l by lia. rewrite skipn_firstn_comm' by lia.
        destruct (IH (firstn (Z.to_nat n) l) RsOk (He1 _) (skipn (Z.to_nat n) l) (k - Z.to_nat n)%nat) as [L|(c & C1 & C2 & C3)].
        { rewrite skipn_length. lia. }
        { left. exact L. }
        { right. exists (Z.to_nat n + c)%nat. rewrite skipn_skipn' in C2, C3.
          repeat split; [lia|exact C2|]. rewrite C3. f_equal. f_equal. lia. }
      * left. destruct (He2 (firstn k l)) as (s & ->). cbn [run_d]. eauto.
  - destruct He as [He1 (s0 & He2)]. cbn [run_d]. destruct (n <=? 0) eqn:E0.
    + apply IH; auto.
    + rewrite (zlen_firstn l k Hk).
      destruct (n <=? Z.of_nat k) eqn:E1.
      * assert (n <=? zlen l = true) as -> by (unfold zlen; lia).
        assert (Z.to_nat n <= k)%nat as Hn by lia.
        rewrite skipn_firstn_comm' by lia.
        destruct (IH RsOk He1 (skipn (Z.to_nat n) l) (k - Z.to_nat n)%nat) as [L|(c & C1 & C2 & C3)].
        { rewrite skipn_length. lia. }
        { left. exact L. }
        { right. exists (Z.to_nat n + c)%nat. rewrite skipn_skipn' in C2, C3.
          repeat split; [lia|exact C2|]. rewrite C3. f_equal. f_equal. lia. }
      * left. rewrite He2. cbn [run_d]. eauto.
  - contradiction.
  - contradiction.
  - cbn [run_d]. apply IH; auto.
Qed.

(* the use: the whole input is consumed by the full run, so a proper prefix ends in UnexpectedEOF *)
Corollary trunc_all {A} (m : SM A) s l res k : eof2 (m s) -> exec m s l = (res, []) -> (k < length l)%nat ->
  exists s', exec m s (firstn k l) = ((s', Err 2), []).
Proof.
  intros He Hfull Hk. unfold exec in *. destruct (trunc (m s) He l k ltac:(lia)) as [L|(c & C1 & C2 & C3)]; [exact L|].
  rewrite Hfull in C2. cbn [snd] in C2. exfalso.
  assert (length (skipn c l) = 0)%nat as Hl by (rewrite <- C2; reflexivity). rewrite skipn_length in Hl. lia.
Qed.

(* ---------------------------------------------------------------- eof2 of the reader's pieces *)
Lemma eof2_iobind {A B} (p : io (rst * outcome A)) (f : A -> SM B) :
  eof2 p -> (forall a s, eof2 (f a s)) ->
  eof2 (iobind p (fun r => match snd r with
                            | Ok a => f a (fst r)
                            | Err c => Ret (fst r, Err c)
                            | Panic q => Ret (fst r, Panic q) end)).
Proof.
  intros Hp Hf. induction p as [r|n cont IH|n cont IH|cont IH|cont IH|a sn bl cont IH]; cbn [eof2 iobind] in *.
  - destruct r as [s o]; cbn [fst snd]. destruct o; cbn [eof2]; auto.
  - destruct Hp as [H1 H2]. split; [intros bs; apply IH; apply H1|].
    intros bs. destruct (H2 bs) as (s & ->). cbn [iobind snd fst]. eauto.
  - destruct Hp as [H1 (s & H2)]. split; [apply IH; exact H1|]. rewrite H2. cbn [iobind snd fst]. eauto.
  - contradiction.
  - contradiction.
  - apply IH; exact Hp.
Qed.

Lemma eof2_bind {A B} (m : SM A) (f : A -> SM B) s :
  eof2 (m s) -> (forall a s', eof2 (f a s')) -> eof2 (sbind m f s).
Proof. intros. unfold sbind. apply eof2_iobind; assumption. Qed.

Lemma eof2_s_rd n s : eof2 (s_rd n s).
Proof. unfold s_rd. cbn [eof2]. split; [intros; exact I|]. intros bs. cbn. eauto. Qed.
Lemma eof2_s_disc n s : eof2 (s_disc n s).
Proof. unfold s_disc. cbn [eof2]. split; [exact I|]. cbn. eauto. Qed.
Lemma eof2_ret {A} (r : rst * outcome A) : eof2 (Ret r). Proof. exact I. Qed.

Ltac e2 :=
  repeat first
  [ progress cbv beta
  | match goal with
    | |- eof2 (sbind _ _ _) => apply eof2_bind; [|intros ? ?]
    | |- eof2 (sget _) => exact I
    | |- eof2 (sret _ _) => exact I
    | |- eof2 (smod _ _) => exact I
    | |- eof2 (sfail _ _) => exact I
    | |- eof2 (spanic _ _) => exact I
    | |- eof2 (sub_blen _ _) => exact I
    | |- eof2 (slift ?o _) => destruct o; exact I
    | |- eof2 (s_alloc _ _ _) => exact I
    | |- eof2 (s_rd _ _) => apply eof2_s_rd
    | |- eof2 (s_disc _ _) => apply eof2_s_disc
    | |- eof2 (s_wrap _ _) => unfold s_wrap
    | |- eof2 (Ret _) => exact I
    | |- eof2 ((if ?b then _ else _) _) => destruct b
    | |- eof2 (match ?x with _ => _ end _) => destruct x
    end ].

Lemma eof2_readOption s : eof2 (readOption s).
Proof. unfold readOption. e2. Qed.

Lemma eof2_shb_opts : forall fuel sec s, eof2 (shb_opts fuel sec s).
Proof. induction fuel as [|f IH]; intros sec s; cbn [shb_opts]; [exact I|]. e2; try apply eof2_readOption; apply IH. Qed.
Lemma eof2_idb_opts : forall fuel i s, eof2 (idb_opts fuel i s).
Proof. induction fuel as [|f IH]; intros i s; cbn [idb_opts]; [exact I|]. e2; try apply eof2_readOption; apply IH. Qed.
Lemma eof2_pkt_opts : forall fuel o s, eof2 (pkt_opts fuel o s).
Proof. induction fuel as [|f IH]; intros o s; cbn [pkt_opts]; [exact I|]. e2; try apply eof2_readOption; apply IH. Qed.

Lemma eof2_readIDB F s : eof2 (readIDB F s).
Proof. unfold readIDB. e2; try apply eof2_idb_opts. Qed.

Lemma eof2_put_stats id st s : eof2 (put_stats id st s).
Proof. exact I. Qed.
Lemma eof2_isb_opts : forall fuel id i st s, eof2 (isb_opts fuel id i st s).
Proof.
  induction fuel as [|f IH]; intros id i st s; cbn [isb_opts]; [exact I|].
  e2; try apply eof2_readOption; try apply eof2_put_stats; try apply IH.
Qed.
Lemma eof2_readISB F s : eof2 (readISB F s).
Proof. unfold readISB. e2; try apply eof2_put_stats; try apply eof2_isb_opts. Qed.

Lemma eof2_check_caplen snap s : eof2 (check_caplen snap s).
Proof. unfold check_caplen. e2. Qed.

Lemma eof2_rp_tail ro F s : eof2 (rp_tail ro F s).
Proof. unfold rp_tail. e2; try apply eof2_pkt_opts. Qed.
