(* C09: StreamFactory.New is reported at most once per operation, and first: only
   AssembleWithContext on a connection that is not in the pool creates a stream. *)
From GP Require Import Base C09Model C09Spec.
Open Scope Z_scope.

Definition not_new (e : event) : bool := match e with ENew _ => false | _ => true end.
Definition nonew (ev : list event) : Prop := forallb not_new ev = true.

Lemma nonew_app : forall a b, nonew a -> nonew b -> nonew (a ++ b).
Proof. intros a b Ha Hb. unfold nonew in *. rewrite forallb_app, Ha, Hb. reflexivity. Qed.

Lemma nonew_tags : forall l, nonew (map ETag l).
Proof. induction l as [|x t IH]; [reflexivity|exact IH]. Qed.

Lemma nonew_nil : nonew [].
Proof. reflexivity. Qed.

Lemma send_nonew : forall v c h used r0 sid nc, nonew (sr_ev (send v c h used r0 sid nc)).
Proof.
  intros. unfold send.
  destruct (add_pending (h_saved h) (cseq r0)) as [[[pre sl] sv1] reld].
  destruct (add_contiguous v (h_queue h) (sadd (cseq r0) (clen r0))) as [[tk q1] nx].
  match goal with |- context [if ?b then (length ?l, 0) else ?f] => destruct (if b then (length l, 0) else f) as [ndx kskip] end.
  destruct (keep_conv v (skipn ndx (map CPage pre ++ r0 :: map CPage tk)) kskip) as [[sv2 alloc] pk].
  cbn [sr_ev]. destruct (reld >? 0), (sl >? 0); reflexivity.
Qed.

Lemma close_c2s_nonew : forall v s, nonew (snd (close_c2s v s)).
Proof. intros. unfold close_c2s. destruct (s_rev_closed s); reflexivity. Qed.

Lemma close_rev_nonew : forall s, nonew (snd (close_rev s)).
Proof. intros. unfold close_rev. destruct (h_closed (s_half s)); reflexivity. Qed.

Lemma send_st_nonew : forall v s h used r0, nonew (snd (fst (send_st v s h used r0))).
Proof.
  intros. unfold send_st.
  pose proof (send_nonew v (s_cfg s) h used r0 (s_sid s) (s_ncalls s)) as Hs.
  set (r := send v (s_cfg s) h used r0 (s_sid s) (s_ncalls s)) in *.
  destruct (sr_panic r); [cbn [fst snd]; apply nonew_app; [exact Hs|reflexivity]|].
  destruct (sr_end r); [|exact Hs].
  set (s0 := mkSt _ _ _ _ _ _ _ _). pose proof (close_c2s_nonew v s0) as Hc.
  destruct (close_c2s v s0) as [s2 ev2]. cbn [fst snd] in *. apply nonew_app; assumption.
Qed.

Lemma skip_flush_nonew : forall v s, nonew (snd (fst (skip_flush v s))).
Proof.
  intros. unfold skip_flush. destruct (h_queue (s_half s)) as [|p q'].
  - pose proof (close_c2s_nonew v s) as Hc. destruct (close_c2s v s) as [s2 ev2]. exact Hc.
  - set (h1 := mkHalf _ _ _ _ _ _).
    pose proof (send_st_nonew v s h1 (s_used s) (CPage p)) as Hs.
    destruct (send_st v s h1 (s_used s) (CPage p)) as [[[s1 nx] ev] pk]. cbn [fst snd] in *. exact Hs.
Qed.

Lemma fc_loop_nonew : forall v fuel s t, nonew (snd (fst (fc_loop fuel v s t))).
Proof.
  intros v. induction fuel as [|f IH]; intros s t; cbn [fc_loop]; [reflexivity|].
  destruct (h_queue (s_half s)) as [|p q']; [reflexivity|].
  destruct (pseen p <? t); [|reflexivity].
  pose proof (skip_flush_nonew v s) as Hs.
  destruct (skip_flush v s) as [[s1 ev1] pk1]. cbn [fst snd] in *.
  destruct pk1; [exact Hs|]. destruct (h_closed (s_half s1)); [exact Hs|].
  specialize (IH s1 t). destruct (fc_loop f v s1 t) as [[s2 ev2] pk2]. cbn [fst snd] in *.
  apply nonew_app; assumption.
Qed.

Lemma flush_opts_nonew : forall v s t tc, nonew (snd (fst (flush_opts v s t tc))).
Proof.
  intros. unfold flush_opts. destruct (negb (s_exists s)); [reflexivity|].
  assert (H1 : nonew (snd (flush_close_rev s tc))).
  { unfold flush_close_rev. destruct (s_rev_closed s); [reflexivity|].
    destruct (conn_last_seen s <? tc); [apply close_rev_nonew|reflexivity]. }
  destruct (flush_close_rev s tc) as [s1 ev1]. cbn [snd] in H1.
  assert (H2 : nonew (snd (fst (flush_close_c2s v s1 t tc)))).
  { unfold flush_close_c2s. destruct (h_closed (s_half s1)); [reflexivity|].
    pose proof (fc_loop_nonew v (Datatypes.S (length (h_queue (s_half s1)))) s1 t) as Hf.
    destruct (fc_loop (Datatypes.S (length (h_queue (s_half s1)))) v s1 t) as [[s2 ev2] pk2]. cbn [fst snd] in *.
    destruct pk2; [exact Hf|]. destruct (h_closed (s_half s2)); [exact Hf|].
    destruct (h_queue (s_half s2)); [|exact Hf].
    destruct (conn_last_seen s2 <? tc); [|exact Hf].
    pose proof (close_c2s_nonew v s2) as Hc. destruct (close_c2s v s2) as [s3 ev3]. cbn [fst snd] in *.
    apply nonew_app; assumption. }
  destruct (flush_close_c2s v s1 t tc) as [[s2 ev2] pk]. cbn [fst snd] in *. apply nonew_app; assumption.
Qed.

Lemma fa_loop_nonew : forall v fuel s, nonew (snd (fst (fa_loop fuel v s))).
Proof.
  intros v. induction fuel as [|f IH]; intros s; cbn [fa_loop]; [reflexivity|].
  destruct (h_closed (s_half s)); [reflexivity|].
  pose proof (skip_flush_nonew v s) as Hs.
  destruct (skip_flush v s) as [[s1 ev1] pk1]. cbn [fst snd] in *.
  destruct pk1; [exact Hs|].
  specialize (IH s1). destruct (fa_loop f v s1) as [[s2 ev2] pk2]. cbn [fst snd] in *.
  apply nonew_app; assumption.
Qed.

Lemma flush_all_nonew : forall v s, nonew (snd (fst (flush_all v s))).
Proof.
  intros. unfold flush_all. destruct (negb (s_exists s)); [reflexivity|].
  assert (H1 : nonew (snd (if s_rev_closed s then (s, []) else close_rev s))).
  { destruct (s_rev_closed s); [reflexivity|apply close_rev_nonew]. }
  destruct (if s_rev_closed s then (s, []) else close_rev s) as [s1 ev1]. cbn [snd] in H1.
  pose proof (fa_loop_nonew v (Datatypes.S (Datatypes.S (length (h_queue (s_half s1))))) s1) as H2.
  destruct (fa_loop (Datatypes.S (Datatypes.S (length (h_queue (s_half s1))))) v s1) as [[s2 ev2] pk]. cbn [fst snd] in *.
  apply nonew_app; assumption.
Qed.
