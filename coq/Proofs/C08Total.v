(* C08 lemmas, third file: verification characterised for every input (not only emitted packets);
   corruption theorems for ICMP without a decode hypothesis. *)
From GP Require Import Base ListX C08Model C08Proofs C08Refs.
From Coq Require Import Lia ZifyBool ZifyNat ZifyN.
Open Scope Z_scope.
Ltac Zify.zify_post_hook ::= Z.div_mod_to_equations.

(* For every byte string: decoding fails, or the verifier reports exactly: Correct = the checksum the
   emitter writes over the covered region r, Actual = the stored field, Valid = their equality
   (UDP: or nothing stored; GRE: or flag clear).  No length bound. *)
Lemma tcp_verify_total : forall p data, pseudo_ok p -> bytes_ok data -> len_ok p data ->
  (exists c, tcp_verify p data = Err c) \/
  (exists ck out, tcp_emit p data = Ok (ck, out) /\
     tcp_verify p data = Ok {| v_valid := ck =? get16 data 16; v_correct := ck; v_actual := get16 data 16 |}).
Proof.
  intros p data Hp H Hl. unfold tcp_verify. destruct (tcp_decode data) as [[r e]|c|s] eqn:De.
  - right. apply tcp_decode_inv in De. destruct De as (-> & -> & L).
    destruct (tcp_verify_core p data Hp Hl H L) as (ck & out & E1 & _ & E2). exists ck, out. cbn [obind]. auto.
  - left. exists c. reflexivity.
  - exfalso. unfold tcp_decode in De.
    repeat match type of De with (if ?b then _ else _) = _ => destruct b end; discriminate.
Qed.

Lemma icmp6_verify_total : forall p data, pseudo_ok p -> bytes_ok data -> len_ok p data ->
  (exists c, icmp6_verify p data = Err c) \/
  (exists ck out, icmp6_emit p data = Ok (ck, out) /\
     icmp6_verify p data = Ok {| v_valid := ck =? get16 data 2; v_correct := ck; v_actual := get16 data 2 |}).
Proof.
  intros p data Hp H Hl. unfold icmp6_verify, icmp6_decode.
  destruct (Nat.ltb_spec (length data) 4) as [L|L]; [left; exists 1; reflexivity|right].
  destruct (icmp6_verify_core p data Hp Hl H L) as (ck & out & E1 & _ & E2). exists ck, out. cbn [obind]. auto.
Qed.

Lemma icmp4_verify_total : forall data, bytes_ok data ->
  (exists c, icmp4_verify data = Err c) \/
  (exists ck out, icmp4_emit data = Ok (ck, out) /\
     icmp4_verify data = Ok {| v_valid := ck =? get16 data 2; v_correct := ck; v_actual := get16 data 2 |}).
Proof.
  intros data H. unfold icmp4_verify, icmp4_decode.
  destruct (Nat.ltb_spec (length data) 8) as [L|L]; [left; exists 1; reflexivity|right].
  destruct (icmp4_verify_core data H L) as (ck & out & E1 & _ & E2). exists ck, out. cbn [obind]. rewrite E2. auto.
Qed.

Lemma udp_verify_total : forall p data, pseudo_ok p -> bytes_ok data -> len_ok p data ->
  (exists c, udp_verify p data = Err c) \/
  (exists k ck out, let r := firstn k data in udp_decode data = Ok (r, get16 r 6) /\ udp_emit p r = Ok (ck, out) /\
     udp_verify p data = Ok {| v_valid := (get16 r 6 =? 0) || (ck =? get16 r 6); v_correct := ck; v_actual := get16 r 6 |}).
Proof.
  intros p data Hp H Hl. unfold udp_verify. destruct (udp_decode data) as [[r e]|c|s] eqn:De.
  - right. pose proof De as De'. apply udp_decode_inv in De. destruct De as ((k & ->) & -> & L).
    assert (Hr : bytes_ok (firstn k data)) by (apply bytes_ok_firstn; exact H).
    assert (Hlr : len_ok p (firstn k data)).
    { unfold len_ok in *. rewrite firstn_length. destruct p; lia. }
    destruct (udp_verify_core p (firstn k data) Hp Hlr Hr L) as (ck & out & E1 & _ & E2).
    exists k, ck, out. cbn [obind]. cbv zeta. auto.
  - left. exists c. reflexivity.
  - exfalso. unfold udp_decode in De.
    repeat match type of De with (if ?b then _ else _) = _ => destruct b end; discriminate.
Qed.

Lemma ip4_verify_total : forall data, bytes_ok data ->
  (exists c, ip4_verify data = Err c) \/
  (exists k ck out, let c := firstn k data in ip4_decode data = Ok (c, get16 c 10) /\ ip4_emit c = Ok (ck, out) /\
     ip4_verify data = Ok {| v_valid := ck =? get16 c 10; v_correct := ck; v_actual := get16 c 10 |}).
Proof.
  intros data H. unfold ip4_verify. destruct (ip4_decode data) as [[r e]|c|s] eqn:De.
  - right. pose proof De as De'. apply ip4_decode_inv in De. destruct De as ((k & ->) & -> & L).
    assert (Hr : bytes_ok (firstn k data)) by (apply bytes_ok_firstn; exact H).
    destruct (ip4_verify_core (firstn k data) Hr L) as (ck & out & E1 & _ & E2).
    exists k, ck, out. cbn [obind]. cbv zeta. rewrite E2. auto.
  - left. exists c. reflexivity.
  - exfalso. unfold ip4_decode in De. cbv zeta in De.
    repeat match type of De with (if ?b then _ else _) = _ => destruct b end; discriminate.
Qed.

Lemma gre_verify_total : forall data, bytes_ok data ->
  (exists c, gre_verify data = Err c) \/
  (128 <= nthZ data 0 /\ exists ck out, gre_emit data = Ok (Some ck, out) /\
     gre_verify data = Ok {| v_valid := ck =? get16 data 4; v_correct := ck; v_actual := get16 data 4 |}) \/
  (nthZ data 0 < 128 /\ exists v, gre_verify data = Ok v /\ v_valid v = true).
Proof.
  intros data H. unfold gre_verify. destruct (gre_decode data) as [[[r e] c]|c|s] eqn:De.
  - right. apply gre_decode_inv in De. destruct De as (-> & -> & De).
    destruct (Z.leb_spec 128 (nthZ data 0)) as [C|C].
    + left. split; [exact C|]. destruct (De eq_refl) as (-> & L).
      destruct (gre_verify_core data H L C) as (ck & out & E1 & _ & E2). exists ck, out. cbn [obind]. rewrite E2. auto.
    + right. split; [exact C|]. eexists. cbn [obind]. split; [reflexivity|]. reflexivity.
  - left. exists c. reflexivity.
  - exfalso. unfold gre_decode in De. cbv zeta in De.
    repeat match type of De with
    | (if ?b then _ else _) = _ => destruct b
    | match ?x with Some _ => _ | None => _ end = _ => destruct x
    end; discriminate.
Qed.

(* ICMP: every bit of an emitted message is protected (the decoders look at the length only) *)
Lemma flip_bit_length : forall bs i, length (flip_bit bs i) = length bs.
Proof. intros. unfold flip_bit. apply upd_length. Qed.

Lemma icmp4_bitflip_all : forall bs ck pk i, bytes_ok bs -> (8 <= length bs)%nat -> Z.of_nat (length bs) <= 131074 ->
  icmp4_emit bs = Ok (ck, pk) -> (i < 8 * length pk)%nat ->
  icmp4_verify (flip_bit pk i) =
    Ok {| v_valid := false; v_correct := rfc1071 (put16 (flip_bit pk i) 2 0); v_actual := get16 (flip_bit pk i) 2 |}.
Proof.
  intros bs ck pk i H L Lb Em Li.
  assert (Lpk : length pk = length bs).
  { pose proof (icmp4_emit_spec bs H L) as Sp. cbv zeta in Sp. rewrite Sp in Em. injection Em as _ <-. rewrite !put16_length. reflexivity. }
  apply (icmp4_bitflip bs ck pk i (flip_bit pk i) (get16 (flip_bit pk i) 2)); auto.
  unfold icmp4_decode. rewrite flip_bit_length, Lpk.
  assert (E : (length bs <? 8)%nat = false) by (apply Nat.ltb_ge; lia). rewrite E. reflexivity.
Qed.

Lemma icmp6_bitflip_all : forall p bs ck pk i, pseudo_ok p -> len_ok p bs -> bytes_ok bs -> (4 <= length bs)%nat ->
  Z.of_nat (length bs) <= 131034 ->
  icmp6_emit p bs = Ok (ck, pk) -> (i < 8 * length pk)%nat ->
  icmp6_verify p (flip_bit pk i) =
    Ok {| v_valid := false; v_correct := reference p IPProtocolICMPv6 (put16 (flip_bit pk i) 2 0); v_actual := get16 (flip_bit pk i) 2 |}.
Proof.
  intros p bs ck pk i Hp Hl H L Lb Em Li.
  assert (Lpk : length pk = length bs).
  { pose proof (icmp6_emit_spec p bs Hp Hl H L) as Sp. cbv zeta in Sp. rewrite Sp in Em. injection Em as _ <-. rewrite !put16_length. reflexivity. }
  apply (icmp6_bitflip p bs ck pk i (flip_bit pk i) (get16 (flip_bit pk i) 2)); auto.
  unfold icmp6_decode. rewrite flip_bit_length, Lpk.
  assert (E : (length bs <? 4)%nat = false) by (apply Nat.ltb_ge; lia). rewrite E. reflexivity.
Qed.
