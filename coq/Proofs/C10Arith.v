(* C10: sequence-number arithmetic of tcpassembly (Sequence.Difference / Add) *)
From GP Require Import Base C10Model.
From Coq Require Import Lia ZifyBool.
Open Scope Z_scope.

Lemma seq_add_mod s t : seq_add s t = (s + t) mod uint32Size.
Proof.
  unfold seq_add, uint32Size. change 4294967295 with (Z.ones 32).
  rewrite Z.land_ones by lia. reflexivity.
Qed.

Lemma seq_add_range s t : 0 <= seq_add s t < uint32Size.
Proof. rewrite seq_add_mod. apply Z.mod_pos_bound. unfold uint32Size; lia. Qed.

Lemma seq_add_add s a b : seq_add (seq_add s a) b = seq_add s (a + b).
Proof.
  rewrite !seq_add_mod. unfold uint32Size.
  rewrite Zplus_mod_idemp_l. f_equal. lia.
Qed.

Lemma seq_add_0 s : 0 <= s < uint32Size -> seq_add s 0 = s.
Proof. intros H. rewrite seq_add_mod, Z.add_0_r. apply Z.mod_small; exact H. Qed.

(* Difference is exact inside a window of 2^30 around s, wherever s lies *)
Lemma diff_window s d :
  0 <= s < 4294967296 -> - 1073741824 < d < 1073741824 ->
  difference s ((s + d) mod 4294967296) = d.
Proof.
  intros Hs Hd. unfold difference, uint32Size, quarter.
  assert (Hm : (s + d) mod 4294967296 = s + d \/ (s + d) mod 4294967296 = s + d - 4294967296
               \/ (s + d) mod 4294967296 = s + d + 4294967296).
  { destruct (Z_lt_dec (s + d) 0); [right; right|destruct (Z_lt_dec (s + d) 4294967296); [left|right; left]].
    - rewrite <- (Z.mod_add _ 1) by lia. rewrite Z.mod_small; lia.
    - rewrite Z.mod_small; lia.
    - rewrite <- (Z.mod_add _ (-1)) by lia. rewrite Z.mod_small; lia. }
  pose proof (Z.mod_pos_bound (s + d) 4294967296 ltac:(lia)) as Hb.
  destruct Hm as [Hm|[Hm|Hm]]; rewrite Hm in *;
  repeat match goal with |- context [if ?b then _ else _] => destruct b eqn:? end; lia.
Qed.

Lemma diff_antisym s t : difference s t = - difference t s.
Proof.
  unfold difference, uint32Size, quarter.
  repeat match goal with |- context [if ?b then _ else _] => destruct b eqn:? end; lia.
Qed.

Lemma diff_self s : difference s s = 0.
Proof.
  unfold difference, uint32Size, quarter.
  repeat match goal with |- context [if ?b then _ else _] => destruct b eqn:? end; lia.
Qed.

(* the int64 arithmetic of Difference / Add cannot overflow on uint32 operands (or -1) *)
Lemma diff_bound s t : -1 <= s < 4294967296 -> -1 <= t < 4294967296 ->
  - 8589934592 < difference s t < 8589934592.
Proof.
  intros Hs Ht. unfold difference, uint32Size, quarter.
  repeat match goal with |- context [if ?b then _ else _] => destruct b eqn:? end; lia.
Qed.

(* sequence number of stream offset o for initial sequence number i (the SYN occupies i) *)
Definition sq (i o : Z) : Z := (i + 1 + o) mod uint32Size.

Lemma sq_range i o : 0 <= sq i o < uint32Size.
Proof. apply Z.mod_pos_bound. unfold uint32Size; lia. Qed.

Lemma sq_add i o n : seq_add (sq i o) n = sq i (o + n).
Proof.
  unfold sq. rewrite seq_add_mod. unfold uint32Size. rewrite Zplus_mod_idemp_l. f_equal. lia.
Qed.

Lemma syn_add i n : 0 <= i < uint32Size -> seq_add i (n + 1) = sq i n.
Proof. intros _. unfold sq. rewrite seq_add_mod. f_equal. lia. Qed.

Lemma syn_add1 i : seq_add i 1 = sq i 0.
Proof. unfold sq. rewrite seq_add_mod. f_equal. lia. Qed.

Lemma diff_sq i a b : - 1073741824 < b - a < 1073741824 ->
  difference (sq i a) (sq i b) = b - a.
Proof.
  intros H. pose proof (sq_range i a) as Hr. unfold uint32Size in Hr.
  replace (sq i b) with ((sq i a + (b - a)) mod 4294967296).
  - apply diff_window; [exact Hr|exact H].
  - unfold sq, uint32Size. rewrite Zplus_mod_idemp_l. f_equal. lia.
Qed.
