(* Lemmas about the ENIP and CIP decoder models (Model/LenipModel.v). *)
From GP Require Import Base ListX Codec MiscLib MidLib LenipModel.
From Coq Require Import Lia ZifyBool ZifyNat.
Open Scope Z_scope.
Ltac Zify.zify_post_hook ::= Z.div_mod_to_equations.

(* ------------------------------------------------------------------ ENIP *)
Lemma en_idlen_safe id d : bytes_ok d ->
  match en_idlen id d with Ok len => 2 <= len | Err e => e <> 99 | Panic _ => False end.
Proof.
  intros Hb. unfold en_idlen.
  destruct ((id =? 0) || (id =? 178) || (id =? 256) || (id =? 32768)); [lia|].
  destruct (id =? 12); [lia|].
  destruct (id =? 161).
  { destruct (zlen d <? 2) eqn:C; [lia|]. rewrite md_rd16le_ok by lia. cbn [obind].
    pose proof (bytes_ok_nth d (Z.to_nat (0 + 1)) Hb). pose proof (bytes_ok_nth d (Z.to_nat 0) Hb).
    destruct (2 + _ >? zlen d); lia. }
  destruct (id =? 177); [lia|].
  destruct ((id =? 32769) || (id =? 32770)); lia.
Qed.

Lemma en_items_safe : forall fuel data cnt i csd, bytes_ok data -> 0 <= csd ->
  Z.max 0 (zlen data - csd + 4) < Z.of_nat fuel ->
  match fst (en_items fuel data cnt i csd) with Ok c => csd <= c | Err e => e <> 99 | Panic _ => False end.
Proof.
  induction fuel as [|f IH]; intros data cnt i csd Hb H0 Hf; [lia|].
  cbn [en_items]. destruct (i <? cnt); [|cbn; lia].
  destruct (csd + 4 >? zlen data) eqn:C; [cbn; lia|].
  rewrite md_rd16le_ok by lia. rewrite cd_slc_ok by lia.
  pose proof (en_idlen_safe (nth (Z.to_nat (csd + 1)) data 0 * 256 + nth (Z.to_nat csd) data 0)
                (slice data (Z.to_nat (csd + 2)) (Z.to_nat (zlen data))) (bytes_ok_slice _ _ _ Hb)) as S.
  destruct (en_idlen _ _) as [len|e|s]; [|cbn; exact S|contradiction].
  specialize (IH data cnt (i + 1) (csd + len) Hb ltac:(lia) ltac:(lia)).
  destruct (fst (en_items f data cnt (i + 1) (csd + len))); [lia|exact IH|exact IH].
Qed.

Lemma en_decode_good old data : bytes_ok data -> md_good (snd (fst (en_decode_into old data))).
Proof.
  intros Hb. unfold en_decode_into. cbv zeta.
  destruct (zlen data <? 24) eqn:C0; [apply md_good_err; lia|].
  rewrite !md_rd16le_ok by lia. unfold md_rd32le. rewrite !md_rd16le_ok by lia. cbn [obind]. rewrite cd_slc_ok by lia.
  set (cmd := nth (Z.to_nat (0 + 1)) data 0 * 256 + nth (Z.to_nat 0) data 0).
  destruct (cmd =? 101).
  { destruct (zlen data <? 28) eqn:C1; [apply md_good_err; lia|]. rewrite !cd_slc_ok by lia. apply md_good_ok. }
  destruct ((cmd =? 112) || (cmd =? 111)).
  { destruct (zlen data <? 36) eqn:C1; [apply md_good_err; lia|]. rewrite md_rd16le_ok by lia.
    pose proof (en_items_safe (S (length data)) data (nth (Z.to_nat (30 + 1)) data 0 * 256 + nth (Z.to_nat 30) data 0) 0 32 Hb ltac:(lia) ltac:(unfold zlen in *; lia)) as S.
    destruct (en_items _ data _ 0 32) as [[csd|e|s] tr]; cbn [fst snd] in *; [|apply md_good_err; exact S|contradiction].
    destruct (zlen data <? csd) eqn:C2; [apply md_good_err; lia|]. rewrite !cd_slc_ok by lia. apply md_good_ok. }
  rewrite cd_slc_ok by lia. apply md_good_ok.
Qed.

Lemma en_decode_fresh old data :
  let r1 := en_decode_into old data in let r2 := en_decode_into en_fresh data in
  snd (fst r1) = snd (fst r2) /\ snd r1 = snd r2 /\ (snd (fst r1) = Ok tt -> fst (fst r1) = fst (fst r2)).
Proof.
  cbv zeta. unfold en_decode_into. cbv zeta.
  repeat match goal with
  | |- context [if ?c then _ else _] => destruct c
  | |- context [match ?x with _ => _ end] => destruct x
  end; cbn [fst snd]; repeat split; try reflexivity; try discriminate.
Qed.

(* ------------------------------------------------------------------ CIP *)
Lemma ci_adds_ok : forall k data off, 0 <= off -> off + 2 * Z.of_nat k <= zlen data -> exists l, ci_adds k data off = Ok l.
Proof.
  induction k as [|k IH]; intros data off H0 H1; [eexists; reflexivity|].
  cbn [ci_adds]. rewrite md_rd16le_ok by lia. cbn [obind].
  destruct (IH data (off + 2) ltac:(lia) ltac:(lia)) as [l El]. rewrite El. eexists; reflexivity.
Qed.

Lemma ci_fin_good data l off : 0 <= off -> md_good (snd (fst (ci_fin data l off))).
Proof.
  intros H. unfold ci_fin. destruct (off <? zlen data) eqn:C; [rewrite cd_slc_ok by lia; cbn [ml_bind]|]; apply md_good_ok.
Qed.

Lemma ci_after_class_good data l off : 0 <= off -> md_good (snd (fst (ci_after_class data l off))).
Proof.
  intros H. unfold ci_after_class. cbv zeta.
  destruct (off >=? zlen data) eqn:C0; [apply md_good_err; lia|]. rewrite cd_idx_ok by lia. cbn [ml_bind].
  destruct (_ =? 36).
  { destruct (off + 1 >=? zlen data) eqn:C1; [apply md_good_err; lia|]. rewrite cd_idx_ok by lia. cbn [ml_bind]. apply ci_fin_good; lia. }
  destruct (_ =? 37).
  { destruct (off + 1 + 2 >? zlen data) eqn:C1; [apply md_good_err; lia|]. rewrite md_rd16le_ok by lia. cbn [ml_bind]. apply ci_fin_good; lia. }
  apply ci_fin_good; lia.
Qed.

Lemma ci_decode_good rc old data : bytes_ok data -> md_good (snd (fst (ci_decode_gen rc old data))).
Proof.
  intros Hb. unfold ci_decode_gen. cbv zeta.
  destruct (zlen data <? 2) eqn:C0; [apply md_good_err; lia|].
  rewrite cd_idx_ok by lia.
  destruct (negb (128 <=? nth (Z.to_nat 0) data 0)).
  - rewrite cd_idx_ok by lia. cbn [ml_bind].
    destruct (_ >? 127); [apply md_good_err; lia|].
    destruct (zlen data <? 2 + 2 * _); [apply md_good_err; lia|].
    destruct (2 >=? zlen data) eqn:C1; [apply md_good_err; lia|]. rewrite cd_idx_ok by lia. cbn [ml_bind].
    destruct (_ =? 32).
    { destruct (3 >=? zlen data) eqn:C2; [apply md_good_err; lia|]. rewrite cd_idx_ok by lia. cbn [ml_bind]. apply ci_after_class_good; lia. }
    destruct (_ =? 33).
    { destruct (5 >? zlen data) eqn:C2; [apply md_good_err; lia|]. rewrite md_rd16le_ok by lia. cbn [ml_bind]. apply ci_after_class_good; lia. }
    apply ci_after_class_good; lia.
  - destruct (zlen data <? 4) eqn:C1; [apply md_good_err; lia|].
    rewrite cd_idx_ok by lia. cbn [ml_bind].
    destruct (md_idx_range data 3 Hb ltac:(lia)) as [asz [E R]]. rewrite E. cbn [ml_bind].
    destruct (zlen data <? 4 + 2 * asz) eqn:C2; [apply md_good_err; lia|].
    destruct (ci_adds_ok (Z.to_nat asz) data 4 ltac:(lia) ltac:(lia)) as [l El]. rewrite El. cbn [ml_bind].
    apply ci_fin_good; lia.
Qed.

(* the repaired decoder reads of the receiver only BaseLayer, which it never writes *)
Definition ci_keep (old : cip) : cip := mkCi (ci_contents old) (ci_payload old) false 0 0 0 0 [] [].

Lemma ci_decode_fresh old data :
  let r1 := ci_decode_into old data in let r2 := ci_decode_into (ci_keep old) data in
  snd (fst r1) = snd (fst r2) /\ snd r1 = snd r2 /\ (snd (fst r1) = Ok tt -> fst (fst r1) = fst (fst r2)).
Proof.
  cbv zeta. unfold ci_decode_into, ci_decode_gen. cbv zeta.
  destruct (zlen data <? 2); [repeat split; discriminate|].
  destruct (cd_idx data 0); [|repeat split; discriminate|repeat split; discriminate].
  repeat split; reflexivity.
Qed.
