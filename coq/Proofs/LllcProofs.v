(* Lemmas about the LLC and SNAP codec models (Model/LllcModel.v). *)
From GP Require Import Base ListX Codec CodecBits MiscLib LllcModel.
From Coq Require Import Lia ZifyBool ZifyNat.
Open Scope Z_scope.
Ltac Zify.zify_post_hook ::= Z.div_mod_to_equations.

Lemma llc_decode_no_panic old data : is_panic (snd (fst (llc_decode_into old data))) = false.
Proof.
  unfold llc_decode_into. cbv zeta. destruct (zlen data <? 3) eqn:Hn; [reflexivity|].
  rewrite !cd_idx_ok by lia. cbn [ml_bind].
  match goal with |- context [if ?c then _ else _] => destruct c end.
  - destruct (zlen data <? 4) eqn:H4; [reflexivity|].
    rewrite !cd_idx_ok by lia. rewrite !cd_slc_ok by lia. reflexivity.
  - rewrite !cd_slc_ok by lia. reflexivity.
Qed.

Ltac lstep :=
  match goal with
  | |- context [ml_bind ?o _ _ _] => destruct o eqn:?; cbn [ml_bind]
  | |- context [if ?c then _ else _] => destruct c eqn:?
  end.
Ltac fresh_tac :=
  repeat (lstep; try solve [cbn [fst snd]; split; [reflexivity | split; [reflexivity | try (intros X; discriminate X); try reflexivity]]]);
  try (cbn [fst snd]; split; [reflexivity | split; [reflexivity | intros _; reflexivity]]).

Lemma llc_decode_fresh old data :
  let r1 := llc_decode_into old data in
  let r2 := llc_decode_into llc_fresh data in
  snd (fst r1) = snd (fst r2) /\ snd r1 = snd r2 /\
  (snd (fst r1) = Ok tt -> fst (fst r1) = fst (fst r2)).
Proof. cbv zeta. unfold llc_decode_into. cbv zeta. fresh_tac. Qed.

Definition llc_four (orig : bool) (l : llc) : bool :=
  if orig then negb (c_control l / 256 =? 0)
  else negb (c_control l / 256 =? 0) || negb (c_control l mod 4 =? 3).

Definition llc_hdr (orig : bool) (l : llc) : list Z :=
  [(c_dsap l + if c_ig l then 1 else 0) mod 256; (c_ssap l + if c_cr l then 1 else 0) mod 256] ++
  (if llc_four orig l then [(c_control l / 256) mod 256; c_control l mod 256] else [c_control l mod 256]).

Definition llc_ser_spec (orig : bool) (l : llc) (payload : list Z) : outcome (list Z) * llc :=
  if negb (c_dsap l mod 2 =? 0) then (Err 1, l) else
  if negb (c_ssap l mod 2 =? 0) then (Err 2, l) else
  (Ok (llc_hdr orig l ++ payload), l).

Lemma llc_serialize_spec orig l payload fixl csum junk :
  llc_serialize_gen orig l payload fixl csum junk = llc_ser_spec orig l payload.
Proof.
  unfold llc_serialize_gen, llc_ser_spec, llc_hdr. cbv zeta. fold (llc_four orig l).
  destruct (negb (c_dsap l mod 2 =? 0)); [reflexivity|].
  destruct (negb (c_ssap l mod 2 =? 0)); [reflexivity|].
  destruct (llc_four orig l).
  - pose proof (ml_tile_init 4 junk ltac:(lia)) as T. do 4 ml_tile_step T.
    apply ml_tile_done in T; [|reflexivity]. subst. reflexivity.
  - pose proof (ml_tile_init 3 junk ltac:(lia)) as T. do 3 ml_tile_step T.
    apply ml_tile_done in T; [|reflexivity]. subst. reflexivity.
Qed.

Lemma llc_serialize_junk_free orig l payload fixl csum junk1 junk2 :
  llc_serialize_gen orig l payload fixl csum junk1 = llc_serialize_gen orig l payload fixl csum junk2.
Proof. rewrite !llc_serialize_spec. reflexivity. Qed.

Lemma llc_serialize_no_panic orig l payload fixl csum junk :
  is_panic (fst (llc_serialize_gen orig l payload fixl csum junk)) = false.
Proof.
  rewrite llc_serialize_spec. unfold llc_ser_spec.
  destruct (negb (c_dsap l mod 2 =? 0)); [reflexivity|]. destruct (negb (c_ssap l mod 2 =? 0)); reflexivity.
Qed.

(* C06 hypothesis: SAP values are even bytes (the flag bit is a separate field); Control is a
   uint16 whose high byte, when present, does not end in binary 11 (a first control byte ending in
   11 announces the one byte U-format, so such a value has no wire form) *)
Definition llc_wf (l : llc) : Prop :=
  0 <= c_dsap l < 256 /\ c_dsap l mod 2 = 0 /\ 0 <= c_ssap l < 256 /\ c_ssap l mod 2 = 0 /\
  0 <= c_control l < 65536 /\ (256 <= c_control l -> (c_control l / 256) mod 4 <> 3).

Lemma llc_roundtrip l payload fixl csum junk bytes l' old :
  llc_wf l -> llc_serialize l payload fixl csum junk = (Ok bytes, l') ->
  l' = l /\ bytes = llc_hdr false l ++ payload /\
  llc_decode_into old bytes =
    (mkLlc (llc_hdr false l) payload (c_dsap l) (c_ig l) (c_ssap l) (c_cr l) (c_control l), Ok tt, false).
Proof.
  intros [Hd [Hd2 [Hs [Hs2 [Hc Hc2]]]]]. unfold llc_serialize. rewrite llc_serialize_spec. unfold llc_ser_spec.
  replace (c_dsap l mod 2 =? 0) with true by lia. replace (c_ssap l mod 2 =? 0) with true by lia. cbn [negb].
  intros X. assert (E1 : bytes = llc_hdr false l ++ payload) by congruence. assert (E2 : l' = l) by congruence. clear X.
  split; [exact E2|]. split; [exact E1|]. subst bytes l'.
  set (b0 := (c_dsap l + if c_ig l then 1 else 0) mod 256). set (b1 := (c_ssap l + if c_cr l then 1 else 0) mod 256).
  assert (B0 : b0 / 2 * 2 = c_dsap l /\ (b0 mod 2 =? 1) = c_ig l) by (unfold b0; destruct (c_ig l); split; lia).
  assert (B1 : b1 / 2 * 2 = c_ssap l /\ (b1 mod 2 =? 1) = c_cr l) by (unfold b1; destruct (c_cr l); split; lia).
  destruct B0 as [B0a B0b]. destruct B1 as [B1a B1b].
  pose proof (zlen_nonneg payload) as Np.
  unfold llc_hdr. fold b0 b1. destruct (llc_four false l) eqn:F; unfold llc_four in F.
  - set (b2 := (c_control l / 256) mod 256). set (b3 := c_control l mod 256).
    remember ([b0; b1] ++ [b2; b3]) as h eqn:Hh. remember (h ++ payload) as data eqn:Hdata.
    assert (Hn : zlen data = 4 + zlen payload) by (subst data h; rewrite zlen_app; reflexivity).
    assert (Hnth : forall k, (k < 4)%nat -> nth k data 0 = nth k h 0) by (intros; subst data; apply app_nth1; subst h; assumption).
    unfold llc_decode_into. cbv zeta. destruct (zlen data <? 3) eqn:C1; [lia|].
    rewrite !cd_idx_ok by lia. cbn [ml_bind].
    change (Z.to_nat 0) with 0%nat; change (Z.to_nat 1) with 1%nat; change (Z.to_nat 2) with 2%nat.
    rewrite !Hnth by lia. subst h. cbn [nth app].
    assert (C : (b2 mod 2 =? 0) || (b2 mod 4 =? 1) = true) by (unfold b2; lia). rewrite C.
    destruct (zlen data <? 4) eqn:C2; [lia|]. rewrite ?cd_idx_ok by lia. rewrite !cd_slc_ok by lia. cbn [ml_bind].
    change (Z.to_nat 3) with 3%nat. rewrite ?Hnth by lia. cbn [nth app].
    cbn [c_dsap c_ig c_ssap c_cr].
    rewrite B0a, B0b, B1a, B1b.
    assert (L : Z.lor ((b2 * 256) mod 65536) b3 = c_control l).
    { rewrite (Z.mod_small (b2 * 256)) by (unfold b2; lia). change 256 with (2 ^ 8) at 1.
      rewrite cd_lor_disjoint by (unfold b3; change (2 ^ 8) with 256; lia). change (2 ^ 8) with 256. unfold b2, b3. lia. }
    rewrite L.
    assert (S1 : slice data (Z.to_nat 0) (Z.to_nat 4) = [b0; b1] ++ [b2; b3]) by (subst data; apply slice_from_start; reflexivity).
    assert (S2 : slice data (Z.to_nat 4) (Z.to_nat (zlen data)) = payload).
    { rewrite Hn. subst data. apply slice_to_end; [reflexivity|]. cbn [length app]. unfold zlen. lia. }
    rewrite S1, S2. reflexivity.
  - set (b2 := c_control l mod 256).
    remember ([b0; b1] ++ [b2]) as h eqn:Hh. remember (h ++ payload) as data eqn:Hdata.
    assert (Hn : zlen data = 3 + zlen payload) by (subst data h; rewrite zlen_app; reflexivity).
    assert (Hnth : forall k, (k < 3)%nat -> nth k data 0 = nth k h 0) by (intros; subst data; apply app_nth1; subst h; assumption).
    unfold llc_decode_into. cbv zeta. destruct (zlen data <? 3) eqn:C1; [lia|].
    rewrite !cd_idx_ok by lia. cbn [ml_bind].
    change (Z.to_nat 0) with 0%nat; change (Z.to_nat 1) with 1%nat; change (Z.to_nat 2) with 2%nat.
    rewrite !Hnth by lia. subst h. cbn [nth app].
    assert (C : (b2 mod 2 =? 0) || (b2 mod 4 =? 1) = false) by (unfold b2; lia). rewrite C.
    rewrite !cd_slc_ok by lia. cbn [ml_bind]. cbn [c_dsap c_ig c_ssap c_cr].
    rewrite B0a, B0b, B1a, B1b.
    assert (L : b2 = c_control l) by (unfold b2; lia). rewrite L.
    assert (S1 : slice data (Z.to_nat 0) (Z.to_nat 3) = [b0; b1] ++ [c_control l]) by (subst data; rewrite <- L; apply slice_from_start; reflexivity).
    assert (S2 : slice data (Z.to_nat 3) (Z.to_nat (zlen data)) = payload).
    { rewrite Hn. subst data. apply slice_to_end; [reflexivity|]. cbn [length app]. unfold zlen. lia. }
    rewrite S1, S2. reflexivity.
Qed.

Lemma llc_decoded_wf old data l tr : bytes_ok data -> llc_decode_into old data = (l, Ok tt, tr) -> llc_wf l.
Proof.
  intros Hb. unfold llc_decode_into. cbv zeta. destruct (zlen data <? 3) eqn:Hn; [discriminate|].
  rewrite !cd_idx_ok by lia. cbn [ml_bind].
  pose proof (bytes_ok_nth data (Z.to_nat 0) Hb) as H0. pose proof (bytes_ok_nth data (Z.to_nat 1) Hb) as H1.
  pose proof (bytes_ok_nth data (Z.to_nat 2) Hb) as H2. pose proof (bytes_ok_nth data (Z.to_nat 3) Hb) as H3.
  set (b0 := nth (Z.to_nat 0) data 0) in *. set (b1 := nth (Z.to_nat 1) data 0) in *. set (b2 := nth (Z.to_nat 2) data 0) in *.
  destruct ((b2 mod 2 =? 0) || (b2 mod 4 =? 1)) eqn:C.
  - destruct (zlen data <? 4) eqn:C4; [discriminate|]. rewrite !cd_idx_ok by lia. rewrite !cd_slc_ok by lia. cbn [ml_bind].
    set (b3 := nth (Z.to_nat 3) data 0) in *. intros X.
    match type of X with (?t, _, _) = _ => assert (El : l = t) by congruence end. subst l. clear X.
    unfold llc_wf. cbn [c_dsap c_ssap c_control].
    assert (L : Z.lor ((b2 * 256) mod 65536) b3 = b2 * 256 + b3).
    { rewrite (Z.mod_small (b2 * 256)) by lia. change 256 with (2 ^ 8) at 1.
      rewrite cd_lor_disjoint by (change (2 ^ 8) with 256; lia). reflexivity. }
    rewrite L. repeat split; try lia.
  - rewrite !cd_slc_ok by lia. cbn [ml_bind]. intros X.
    match type of X with (?t, _, _) = _ => assert (El : l = t) by congruence end. subst l. clear X.
    unfold llc_wf. cbn [c_dsap c_ssap c_control]. repeat split; try lia.
Qed.

(* before the repair: a decoded layer (two byte control field 00 05) does not survive *)
Lemma llc_roundtrip_orig_refuted :
  exists data l bytes l2, bytes_ok data /\ llc_decode_into llc_fresh data = (l, Ok tt, false) /\
    fst (llc_serialize_orig l [9;9] true true []) = Ok bytes /\
    llc_decode_into llc_fresh bytes = (l2, Ok tt, false) /\ c_payload l2 <> [9;9] /\ c_control l2 <> c_control l.
Proof.
  exists [170;170;0;5;7]. eexists. eexists. eexists.
  split; [repeat constructor; discriminate|]. split; [vm_compute; reflexivity|]. split; [vm_compute; reflexivity|].
  split; [vm_compute; reflexivity|]. split; cbn; discriminate.
Qed.

(* ---------------------------------------------------------------- SNAP *)
Lemma snap_decode_no_panic old data : is_panic (snd (fst (snap_decode_into old data))) = false.
Proof.
  unfold snap_decode_into. cbv zeta. destruct (zlen data <? 5) eqn:Hn; [reflexivity|].
  rewrite !cd_slc_ok by lia. rewrite cd_rd16_ok by lia. reflexivity.
Qed.

Lemma snap_decode_fresh old data :
  let r1 := snap_decode_into old data in
  let r2 := snap_decode_into snap_fresh data in
  snd (fst r1) = snd (fst r2) /\ snd r1 = snd r2 /\
  (snd (fst r1) = Ok tt -> fst (fst r1) = fst (fst r2)).
Proof. cbv zeta. unfold snap_decode_into. cbv zeta. fresh_tac. Qed.

Definition snap_ser_spec (l : snap) (payload : list Z) : outcome (list Z) * snap :=
  if zlen (s_oui l) <? 3 then (Err 1, l)
  else (Ok ([nth 0 (s_oui l) 0; nth 1 (s_oui l) 0; nth 2 (s_oui l) 0] ++ cd_put16 (s_type l) ++ payload), l).

Lemma snap_serialize_spec l payload fixl csum junk :
  snap_serialize l payload fixl csum junk = snap_ser_spec l payload.
Proof.
  unfold snap_serialize, snap_serialize_gen, snap_ser_spec. cbv zeta. cbn [negb andb].
  destruct (zlen (s_oui l) <? 3) eqn:C; [reflexivity|].
  rewrite !cd_idx_ok by lia.
  change (Z.to_nat 0) with 0%nat; change (Z.to_nat 1) with 1%nat; change (Z.to_nat 2) with 2%nat.
  pose proof (ml_tile_init 5 junk ltac:(lia)) as T. cbn [obind].
  ml_tile_step T. ml_tile_step T. ml_tile_step T. ml_tile_step T.
  apply ml_tile_done in T; [|reflexivity]. subst. cbn [app]. reflexivity.
Qed.

Lemma snap_serialize_junk_free l payload fixl csum junk1 junk2 :
  snap_serialize l payload fixl csum junk1 = snap_serialize l payload fixl csum junk2.
Proof. rewrite !snap_serialize_spec. reflexivity. Qed.

Lemma snap_serialize_no_panic l payload fixl csum junk : is_panic (fst (snap_serialize l payload fixl csum junk)) = false.
Proof. rewrite snap_serialize_spec. unfold snap_ser_spec. destruct (zlen (s_oui l) <? 3); reflexivity. Qed.

Lemma snap_serialize_orig_panics : exists l, fst (snap_serialize_orig l [] true true []) = Panic 1 /\
  exists data, fst (fst (snap_decode_into snap_fresh data)) = l.
Proof. exists snap_fresh. split; [vm_compute; reflexivity|]. exists [1;2;3]. vm_compute. reflexivity. Qed.

Definition snap_wf (l : snap) : Prop := zlen (s_oui l) = 3 /\ 0 <= s_type l < 65536.

Lemma snap_roundtrip l payload fixl csum junk bytes l' old :
  snap_wf l -> snap_serialize l payload fixl csum junk = (Ok bytes, l') ->
  l' = l /\ bytes = s_oui l ++ cd_put16 (s_type l) ++ payload /\
  snap_decode_into old bytes = (mkSnap (s_oui l ++ cd_put16 (s_type l)) payload (s_oui l) (s_type l), Ok tt, false).
Proof.
  intros [Ho Ht]. rewrite snap_serialize_spec. unfold snap_ser_spec.
  destruct (zlen (s_oui l) <? 3) eqn:C; [lia|].
  destruct (s_oui l) as [|o0 [|o1 [|o2 [|o3 r]]]] eqn:Eo; try (unfold zlen in Ho; cbn [length] in Ho; lia).
  cbn [nth]. intros X. assert (E1 : bytes = [o0; o1; o2] ++ cd_put16 (s_type l) ++ payload) by congruence.
  assert (E2 : l' = l) by congruence. clear X. split; [exact E2|]. split; [exact E1|]. subst bytes l'.
  pose proof (zlen_nonneg payload) as Np.
  remember ([o0; o1; o2] ++ cd_put16 (s_type l)) as h eqn:Hh.
  replace ([o0; o1; o2] ++ cd_put16 (s_type l) ++ payload) with (h ++ payload) by (subst h; rewrite <- app_assoc; reflexivity).
  remember (h ++ payload) as data eqn:Hdata.
  assert (Hn : zlen data = 5 + zlen payload) by (subst data h; rewrite zlen_app; reflexivity).
  assert (Hnth : forall k, (k < 5)%nat -> nth k data 0 = nth k h 0) by (intros; subst data; apply app_nth1; subst h; assumption).
  unfold snap_decode_into. cbv zeta. destruct (zlen data <? 5) eqn:C1; [lia|].
  rewrite !cd_slc_ok by lia. rewrite cd_rd16_ok by lia. cbn [ml_bind].
  assert (S0 : slice data (Z.to_nat 0) (Z.to_nat 3) = [o0; o1; o2]).
  { subst data h. rewrite <- app_assoc. apply slice_from_start. reflexivity. }
  assert (S1 : slice data (Z.to_nat 0) (Z.to_nat 5) = h) by (subst data; apply slice_from_start; subst h; reflexivity).
  assert (S2 : slice data (Z.to_nat 5) (Z.to_nat (zlen data)) = payload).
  { rewrite Hn. subst data. apply slice_to_end; [subst h; reflexivity|]. subst h. cbn [length app cd_put16]. unfold zlen. lia. }
  rewrite S0, S1, S2.
  change (Z.to_nat 3) with 3%nat; change (Z.to_nat (3 + 1)) with 4%nat. rewrite !Hnth by lia.
  subst h. cbn [nth app cd_put16]. rewrite cd_put16_be by lia. reflexivity.
Qed.

Lemma snap_decoded_wf old data l tr : bytes_ok data -> snap_decode_into old data = (l, Ok tt, tr) -> snap_wf l.
Proof.
  intros Hb. unfold snap_decode_into. cbv zeta. destruct (zlen data <? 5) eqn:Hn; [discriminate|].
  rewrite !cd_slc_ok by lia. rewrite cd_rd16_ok by lia. cbn [ml_bind]. intros X.
  match type of X with (?t, _, _) = _ => assert (El : l = t) by congruence end. subst l. clear X.
  unfold snap_wf. cbn [s_oui s_type].
  pose proof (bytes_ok_nth data (Z.to_nat 3) Hb). pose proof (bytes_ok_nth data (Z.to_nat (3 + 1)) Hb).
  split; [|lia]. unfold zlen in *. rewrite slice_length by lia. lia.
Qed.
