(* Lemmas about the ICMPv4 codec model (Model/Licmp4Model.v). *)
From GP Require Import Base ListX Codec Licmp4Model.
From Coq Require Import Lia ZifyBool ZifyNat.
Open Scope Z_scope.
Ltac Zify.zify_post_hook ::= Z.div_mod_to_equations.

Lemma icmp4_decode_no_panic old data : is_panic (snd (fst (icmp4_decode_into old data))) = false.
Proof.
  unfold icmp4_decode_into. cbv zeta. destruct (zlen data <? 8) eqn:Hn; [reflexivity|].
  rewrite !cd_rd16_ok by lia. rewrite (cd_slc_ok data 0 8), (cd_slc_ok data 8 (zlen data)) by lia. reflexivity.
Qed.

Ltac istep :=
  match goal with
  | |- context [ibind ?o _ _ _] => destruct o eqn:?; cbn [ibind]
  | |- context [if ?c then _ else _] => destruct c eqn:?
  end.

Lemma icmp4_decode_fresh old data :
  let r1 := icmp4_decode_into old data in
  let r2 := icmp4_decode_into icmp4_fresh data in
  snd (fst r1) = snd (fst r2) /\ snd r1 = snd r2 /\
  (snd (fst r1) = Ok tt -> fst (fst r1) = fst (fst r2)).
Proof.
  cbv zeta. unfold icmp4_decode_into. cbv zeta.
  repeat (istep; try solve [cbn [fst snd]; split; [reflexivity | split; [reflexivity | try (intros X; discriminate X); try reflexivity]]]).
  all: cbn [fst snd]; split; [reflexivity | split; [reflexivity | intros _; reflexivity]].
Qed.

Definition icmp4_hdr (l : icmp4) (ck : Z) : list Z :=
  cd_put16 (ic_typecode l) ++ cd_put16 ck ++ cd_put16 (ic_id l) ++ cd_put16 (ic_seq l).

Definition icmp4_ck (l : icmp4) (payload : list Z) (csum : bool) : Z :=
  if csum then cd_fold (cd_csum (icmp4_hdr l 0 ++ payload) 0) else ic_csum l.

Definition icmp4_ser_spec (l : icmp4) (payload : list Z) (csum : bool) : outcome (list Z) * icmp4 :=
  (Ok (icmp4_hdr l (icmp4_ck l payload csum) ++ payload), ic_set_csum l (icmp4_ck l payload csum)).

Lemma ic_wrc_ok b i vs : 0 <= i -> i + zlen vs <= zlen b -> ic_wrc b i vs = Ok (cd_wr b i vs).
Proof. intros. unfold ic_wrc. destruct (0 <=? i) eqn:A, (i + zlen vs <=? zlen b) eqn:B; try reflexivity; lia. Qed.

Lemma ilist8 (h : list Z) : zlen h = 8 -> exists a0 a1 a2 a3 a4 a5 a6 a7, h = [a0;a1;a2;a3;a4;a5;a6;a7].
Proof.
  unfold zlen. intros H. do 8 (destruct h as [|? h]; [cbn in H; lia|]). destruct h; [|cbn in H; lia].
  repeat eexists.
Qed.

Lemma izlen1 (x : Z) : zlen [x] = 1. Proof. reflexivity. Qed.
Lemma izlen_put16 x : zlen (cd_put16 x) = 2. Proof. reflexivity. Qed.

Lemma icmp4_serialize_spec l payload fixl csum junk :
  icmp4_serialize l payload fixl csum junk = icmp4_ser_spec l payload csum.
Proof.
  unfold icmp4_serialize, icmp4_ser_spec, icmp4_ck. cbv zeta.
  pose proof (cd_region_length 8 junk ltac:(lia)) as Hlen.
  destruct (ilist8 _ Hlen) as [a0 [a1 [a2 [a3 [a4 [a5 [a6 [a7 E]]]]]]]]. rewrite E in *. clear E.
  do 3 (rewrite ic_wrc_ok by (rewrite ?cd_wr_length, ?izlen_put16, ?izlen1; lia); cbn [obind]).
  destruct csum.
  - do 3 (rewrite ic_wrc_ok by (rewrite ?cd_wr_length, ?izlen_put16, ?izlen1; lia); cbn [obind]).
    unfold cd_wr. change (Z.to_nat 0) with 0%nat; change (Z.to_nat 2) with 2%nat; change (Z.to_nat 3) with 3%nat;
    change (Z.to_nat 4) with 4%nat; change (Z.to_nat 6) with 6%nat.
    unfold icmp4_hdr. cbn [cd_put16 upd_range upd app]. reflexivity.
  - rewrite ic_wrc_ok by (rewrite ?cd_wr_length, ?izlen_put16, ?izlen1; lia). cbn [obind].
    unfold cd_wr. change (Z.to_nat 0) with 0%nat; change (Z.to_nat 2) with 2%nat;
    change (Z.to_nat 4) with 4%nat; change (Z.to_nat 6) with 6%nat.
    unfold icmp4_hdr. cbn [cd_put16 upd_range upd app]. reflexivity.
Qed.

Lemma icmp4_serialize_junk_free l payload fixl csum junk1 junk2 :
  icmp4_serialize l payload fixl csum junk1 = icmp4_serialize l payload fixl csum junk2.
Proof. rewrite !icmp4_serialize_spec. reflexivity. Qed.

Lemma icmp4_serialize_no_panic l payload fixl csum junk :
  is_panic (fst (icmp4_serialize l payload fixl csum junk)) = false.
Proof. rewrite icmp4_serialize_spec. reflexivity. Qed.

Definition icmp4_wf (l : icmp4) : Prop :=
  0 <= ic_typecode l < 65536 /\ 0 <= ic_id l < 65536 /\ 0 <= ic_seq l < 65536.

Lemma islice8 (a0 a1 a2 a3 a4 a5 a6 a7 : Z) p :
  slice (a0 :: a1 :: a2 :: a3 :: a4 :: a5 :: a6 :: a7 :: p) 8 (8 + length p) = p.
Proof.
  unfold slice. replace (8 + length p)%nat with (length (a0 :: a1 :: a2 :: a3 :: a4 :: a5 :: a6 :: a7 :: p)) by (cbn [length]; lia).
  rewrite firstn_all. reflexivity.
Qed.

Lemma icmp4_ck_range l payload csum : (csum = true \/ 0 <= ic_csum l < 65536) -> 0 <= icmp4_ck l payload csum < 65536.
Proof.
  intros H. unfold icmp4_ck. destruct csum.
  - apply cd_fold_range. apply cd_csum_range. lia.
  - destruct H as [H|H]; [discriminate|exact H].
Qed.

Lemma icmp4_roundtrip l payload fixl csum junk bytes l' old :
  icmp4_wf l -> (csum = true \/ 0 <= ic_csum l < 65536) ->
  icmp4_serialize l payload fixl csum junk = (Ok bytes, l') ->
  l' = ic_set_csum l (icmp4_ck l payload csum) /\ bytes = icmp4_hdr l' (ic_csum l') ++ payload /\
  icmp4_decode_into old bytes =
    (mkIcmp4 (icmp4_hdr l' (ic_csum l')) payload (ic_typecode l) (ic_csum l') (ic_id l) (ic_seq l), Ok tt, false).
Proof.
  intros [Ht [Hi Hs]] Hc. rewrite icmp4_serialize_spec. unfold icmp4_ser_spec.
  pose proof (icmp4_ck_range l payload csum Hc) as Hck. set (ck := icmp4_ck l payload csum) in *.
  intros X; inversion X; subst bytes l'. clear X. split; [reflexivity|].
  cbn [ic_set_csum ic_csum]. unfold icmp4_hdr. cbn [ic_set_csum ic_typecode ic_id ic_seq].
  split; [reflexivity|].
  unfold icmp4_decode_into. cbv zeta. cbn [cd_put16 app].
  match goal with |- context [zlen ?d <? 8] => set (data := d) end.
  assert (Hn : zlen data = 8 + zlen payload) by (unfold data, zlen; cbn [length]; lia).
  assert (Hp0 : 0 <= zlen payload) by (unfold zlen; lia).
  destruct (zlen data <? 8) eqn:A; [lia|].
  rewrite !cd_rd16_ok by lia. rewrite (cd_slc_ok data 0 8), (cd_slc_ok data 8 (zlen data)) by lia. cbn [ibind].
  replace (Z.to_nat (zlen data)) with (8 + length payload)%nat by (unfold zlen in *; lia).
  change (Z.to_nat (0 + 1)) with 1%nat; change (Z.to_nat (2 + 1)) with 3%nat; change (Z.to_nat (4 + 1)) with 5%nat;
  change (Z.to_nat (6 + 1)) with 7%nat; change (Z.to_nat 0) with 0%nat; change (Z.to_nat 2) with 2%nat;
  change (Z.to_nat 4) with 4%nat; change (Z.to_nat 6) with 6%nat; change (Z.to_nat 8) with 8%nat.
  subst data. rewrite islice8. cbn [nth slice firstn skipn].
  rewrite !cd_put16_be by lia. reflexivity.
Qed.

(* with ComputeChecksums the written bytes do not depend on the stored checksum: serializing the
   decoded layer (same type/code, id, seq) again gives the same bytes *)
Lemma icmp4_fixpoint l d payload fixl junk junk' :
  ic_typecode d = ic_typecode l -> ic_id d = ic_id l -> ic_seq d = ic_seq l ->
  fst (icmp4_serialize d payload fixl true junk') = fst (icmp4_serialize l payload fixl true junk).
Proof.
  intros H1 H2 H3. rewrite !icmp4_serialize_spec. unfold icmp4_ser_spec, icmp4_ck, icmp4_hdr. cbn [fst].
  rewrite H1, H2, H3. reflexivity.
Qed.
