(* SIP: the decoder's result does not depend on the BaseLayer of the receiver either (C05 against a zero object). *)
From GP Require Import Base ListX Codec MiscLib MidLib LsipModel LsipProofs.
From Coq Require Import Lia ZifyBool ZifyNat.
Open Scope Z_scope.

Definition sp_core (s : sip) :=
  (sp_version s, sp_method s, sp_headers s, sp_uri s, sp_isresp s, sp_code s, sp_status s, sp_cseq s, sp_clen s, sp_last s).
Definition spR (s t : sip) : Prop := sp_core s = sp_core t.

Ltac par := repeat match goal with |- context [match ?x with _ => _ end] => destruct x end; cbn; try (split; reflexivity).
Ltac open_R H s t :=
  destruct s as [c1 p1 v1 m1 h1 u1 r1 cd1 st1 cs1 cl1 la1], t as [c2 p2 v2 m2 h2 u2 r2 cd2 st2 cs2 cl2 la2];
  unfold spR, sp_core in H; cbn in H; inversion H; subst; clear H.

Lemma sp_first_line_R s t l : spR s t ->
  spR (fst (sp_first_line s l)) (fst (sp_first_line t l)) /\ snd (sp_first_line s l) = snd (sp_first_line t l).
Proof. intros H. open_R H s t. unfold sp_first_line, spR, sp_core. par. Qed.

Lemma sp_specific_R s t n v : spR s t ->
  spR (fst (sp_specific s n v)) (fst (sp_specific t n v)) /\ snd (sp_specific s n v) = snd (sp_specific t n v).
Proof. intros H. open_R H s t. unfold sp_specific, spR, sp_core. cbn [sp_isresp sp_with_cseq]. par. Qed.

Lemma sp_header_R s t l : spR s t ->
  spR (fst (sp_header s l)) (fst (sp_header t l)) /\ snd (sp_header s l) = snd (sp_header t l).
Proof.
  intros H. unfold sp_header.
  destruct (cd_idx l 0); [|split; [exact H|reflexivity]|split; [exact H|reflexivity]].
  destruct ((_ =? 9) || (_ =? 32)).
  { open_R H s t. unfold spR, sp_core. cbn [sp_last sp_headers]. par. }
  destruct (cut 58 l) as [[a r]|]; [|split; [exact H|reflexivity]].
  destruct (cd_slc l 0 (zlen a)) as [na|e1|p1], (cd_slc l (zlen a + 1) (zlen l)) as [va|e2|p2]; try (split; [exact H|reflexivity]).
  apply sp_specific_R. open_R H s t. unfold spR, sp_core. reflexivity.
Qed.

Lemma sp_lines_R : forall fuel s t count offset rest, spR s t ->
  let a := sp_lines fuel s count offset rest in let b := sp_lines fuel t count offset rest in
  spR (fst (fst (fst a))) (fst (fst (fst b))) /\ snd (fst (fst a)) = snd (fst (fst b)) /\ snd (fst a) = snd (fst b) /\ snd a = snd b.
Proof.
  induction fuel as [|f IH]; intros s t count offset rest H; cbv zeta; cbn [sp_lines]; [repeat split; exact H|].
  destruct (readline rest) as [[line rest']|]; [|repeat split; exact H].
  destruct (zlen (trimset is_crlf line) =? 0); [destruct (count =? 0); repeat split; exact H|].
  assert (Hs : spR (fst (if count =? 0 then sp_first_line s (trimset is_crlf line) else sp_header s (trimset is_crlf line)))
                   (fst (if count =? 0 then sp_first_line t (trimset is_crlf line) else sp_header t (trimset is_crlf line))) /\
               snd (if count =? 0 then sp_first_line s (trimset is_crlf line) else sp_header s (trimset is_crlf line)) =
               snd (if count =? 0 then sp_first_line t (trimset is_crlf line) else sp_header t (trimset is_crlf line))).
  { destruct (count =? 0); [apply sp_first_line_R|apply sp_header_R]; exact H. }
  destruct (if count =? 0 then sp_first_line s _ else sp_header s _) as [s' o1].
  destruct (if count =? 0 then sp_first_line t _ else sp_header t _) as [t' o2].
  cbn [fst snd] in Hs. destruct Hs as [HR Ho]. subst o2.
  destruct o1 as [u|e|p]; [apply IH; exact HR|repeat split; exact HR|repeat split; exact HR].
Qed.

Lemma sp_decode_fresh0 old data :
  let r1 := sp_decode_into old data in let r2 := sp_decode_into sp_fresh data in
  snd (fst r1) = snd (fst r2) /\ snd r1 = snd r2 /\ (snd (fst r1) = Ok tt -> fst (fst r1) = fst (fst r2)).
Proof.
  cbv zeta. unfold sp_decode_into, sp_decode_gen. destruct (negb (ascii_ok data)); [repeat split; discriminate|]. cbv zeta.
  pose proof (sp_lines_R (S (length data)) (sp_reset old) (sp_reset sp_fresh) 0 0 data eq_refl) as H. cbv zeta in H.
  destruct (sp_lines _ (sp_reset old) 0 0 data) as [[[s o] eoh] offset].
  destruct (sp_lines _ (sp_reset sp_fresh) 0 0 data) as [[[s2 o2] eoh2] offset2].
  cbn [fst snd] in H. destruct H as [HR [Ho [He Hoff]]]. subst o2 eoh2 offset2.
  destruct o as [u|e|p]; [|repeat split; discriminate|repeat split; discriminate].
  open_R HR s s2. cbn [sp_clen sp_version sp_method sp_headers sp_uri sp_isresp sp_code sp_status sp_cseq sp_last].
  par; repeat split; try reflexivity; try discriminate.
Qed.
