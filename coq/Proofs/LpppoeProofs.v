(* Lemmas about the PPPoE codec model (Model/LpppoeModel.v). *)
From GP Require Import Base ListX Codec CodecBits MiscLib LpppoeModel.
From Coq Require Import Lia ZifyBool ZifyNat.
Open Scope Z_scope.
Ltac Zify.zify_post_hook ::= Z.div_mod_to_equations.

Lemma poe_decode_no_panic data : bytes_ok data -> is_panic (snd (fst (poe_decode data))) = false.
Proof.
  intros Hb. unfold poe_decode. cbv zeta. destruct (zlen data <? 6) eqn:Hn; [reflexivity|].
  rewrite !cd_idx_ok by lia. rewrite !cd_rd16_ok by lia. cbn [ml_bind].
  pose proof (bytes_ok_nth data (Z.to_nat 4) Hb). pose proof (bytes_ok_nth data (Z.to_nat (4 + 1)) Hb).
  match goal with |- context [if ?c then _ else _] => destruct c eqn:C end; [reflexivity|].
  rewrite !cd_slc_ok by lia. reflexivity.
Qed.

Definition poe_fixed (fixl : bool) (l : pppoe) (payload : list Z) : pppoe :=
  if fixl then mkPoe (o_contents l) (o_payload l) (o_version l) (o_type l) (o_code l) (o_session l) (zlen payload mod 65536) else l.

Definition poe_hdr (l : pppoe) : list Z :=
  [Z.lor ((o_version l * 16) mod 256) (o_type l); o_code l mod 256] ++ cd_put16 (o_session l) ++ cd_put16 (o_length l).

Lemma poe_fixed_same fixl l payload :
  o_version (poe_fixed fixl l payload) = o_version l /\ o_type (poe_fixed fixl l payload) = o_type l /\
  o_code (poe_fixed fixl l payload) = o_code l /\ o_session (poe_fixed fixl l payload) = o_session l.
Proof. destruct fixl; cbn; repeat split; reflexivity. Qed.

Lemma poe_serialize_spec l payload fixl csum junk :
  poe_serialize l payload fixl csum junk = (Ok (poe_hdr (poe_fixed fixl l payload) ++ payload), poe_fixed fixl l payload).
Proof.
  unfold poe_serialize, poe_hdr. cbv zeta. fold (poe_fixed fixl l payload).
  destruct (poe_fixed_same fixl l payload) as [A1 [A2 [A3 A4]]]. rewrite A1, A2, A3, A4.
  pose proof (ml_tile_init 6 junk ltac:(lia)) as T. do 4 ml_tile_step T.
  apply ml_tile_done in T; [|reflexivity]. subst. rewrite <- !app_assoc. reflexivity.
Qed.

Lemma poe_serialize_junk_free l payload fixl csum junk1 junk2 :
  poe_serialize l payload fixl csum junk1 = poe_serialize l payload fixl csum junk2.
Proof. rewrite !poe_serialize_spec. reflexivity. Qed.

Lemma poe_serialize_no_panic l payload fixl csum junk : is_panic (fst (poe_serialize l payload fixl csum junk)) = false.
Proof. rewrite poe_serialize_spec. reflexivity. Qed.

(* C06 hypothesis: 4-bit version and type, 8-bit code, 16-bit session id, payload below 65536 bytes *)
Definition poe_wf (l : pppoe) (payload : list Z) : Prop :=
  0 <= o_version l < 16 /\ 0 <= o_type l < 16 /\ 0 <= o_code l < 256 /\ 0 <= o_session l < 65536 /\ zlen payload < 65536.

Lemma poe_roundtrip l payload csum junk bytes l' :
  poe_wf l payload -> poe_serialize l payload true csum junk = (Ok bytes, l') ->
  l' = poe_fixed true l payload /\ bytes = poe_hdr l' ++ payload /\
  poe_decode bytes =
    (mkPoe (poe_hdr l') payload (o_version l) (o_type l) (o_code l) (o_session l) (zlen payload), Ok tt, false).
Proof.
  intros [Hv [Ht [Hc [Hs Hp]]]]. rewrite poe_serialize_spec. intros X.
  assert (E1 : bytes = poe_hdr (poe_fixed true l payload) ++ payload) by congruence.
  assert (E2 : l' = poe_fixed true l payload) by congruence. clear X.
  split; [exact E2|]. split; [rewrite E2; exact E1|]. subst bytes l'.
  pose proof (zlen_nonneg payload) as Np.
  assert (B0 : Z.lor ((o_version l * 16) mod 256) (o_type l) = o_version l * 16 + o_type l).
  { rewrite Z.mod_small by lia. change 16 with (2 ^ 4) at 1. rewrite cd_lor_disjoint by (change (2 ^ 4) with 16; lia). reflexivity. }
  remember (poe_hdr (poe_fixed true l payload)) as h eqn:Hh. remember (h ++ payload) as data eqn:Hdata.
  assert (Hlh : length h = 6%nat) by (subst h; reflexivity).
  assert (Hn : zlen data = 6 + zlen payload) by (subst data; rewrite zlen_app; unfold zlen at 1; rewrite Hlh; reflexivity).
  assert (Hnth : forall k, (k < 6)%nat -> nth k data 0 = nth k h 0) by (intros; subst data; apply app_nth1; lia).
  unfold poe_decode. cbv zeta. destruct (zlen data <? 6) eqn:C1; [lia|].
  rewrite !cd_idx_ok by lia. rewrite !cd_rd16_ok by lia. cbn [ml_bind].
  change (Z.to_nat 0) with 0%nat; change (Z.to_nat 1) with 1%nat; change (Z.to_nat 2) with 2%nat; change (Z.to_nat (2 + 1)) with 3%nat;
  change (Z.to_nat 4) with 4%nat; change (Z.to_nat (4 + 1)) with 5%nat.
  rewrite Hh in Hnth. rewrite !Hnth by lia. unfold poe_hdr. cbn [poe_fixed o_version o_type o_code o_session o_length nth app cd_put16].
  rewrite B0. rewrite !cd_put16_be by lia.
  replace (zlen payload mod 65536) with (zlen payload) by lia.
  destruct (zlen data <? 6 + zlen payload) eqn:C2; [lia|].
  rewrite !cd_slc_ok by lia. cbn [ml_bind].
  assert (S1 : slice data (Z.to_nat 0) (Z.to_nat 6) = h) by (subst data; apply slice_from_start; rewrite Hlh; reflexivity).
  assert (S2 : slice data (Z.to_nat 6) (Z.to_nat (6 + zlen payload)) = payload).
  { subst data. apply slice_to_end; [rewrite Hlh; reflexivity|]. rewrite Hlh. unfold zlen. lia. }
  rewrite S1, S2. f_equal. f_equal. f_equal; lia.
Qed.

Lemma poe_decoded_wf data l tr : bytes_ok data -> poe_decode data = (l, Ok tt, tr) -> poe_wf l (o_payload l) /\ o_length l = zlen (o_payload l).
Proof.
  intros Hb. unfold poe_decode. cbv zeta. destruct (zlen data <? 6) eqn:Hn; [discriminate|].
  rewrite !cd_idx_ok by lia. rewrite !cd_rd16_ok by lia. cbn [ml_bind].
  pose proof (bytes_ok_nth data (Z.to_nat 0) Hb). pose proof (bytes_ok_nth data (Z.to_nat 1) Hb).
  pose proof (bytes_ok_nth data (Z.to_nat 2) Hb). pose proof (bytes_ok_nth data (Z.to_nat (2 + 1)) Hb).
  pose proof (bytes_ok_nth data (Z.to_nat 4) Hb). pose proof (bytes_ok_nth data (Z.to_nat (4 + 1)) Hb).
  match goal with |- context [if ?c then _ else _] => destruct c eqn:C end; [discriminate|].
  rewrite !cd_slc_ok by lia. cbn [ml_bind]. intros X.
  match type of X with (?t, _, _) = _ => assert (El : l = t) by congruence end. subst l. clear X.
  unfold poe_wf. cbn [o_version o_type o_code o_session o_length o_payload].
  assert (SL : zlen (slice data (Z.to_nat 6) (Z.to_nat (6 + (nth (Z.to_nat 4) data 0 * 256 + nth (Z.to_nat (4 + 1)) data 0)))) =
               nth (Z.to_nat 4) data 0 * 256 + nth (Z.to_nat (4 + 1)) data 0).
  { unfold zlen in *. rewrite slice_length by lia. lia. }
  rewrite SL. repeat split; lia.
Qed.
