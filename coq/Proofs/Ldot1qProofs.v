(* Lemmas about the 802.1Q codec model (Model/Ldot1qModel.v). *)
From GP Require Import Base ListX Codec CodecBits Ldot1qModel.
From Coq Require Import Lia ZifyBool ZifyNat.
Open Scope Z_scope.
Ltac Zify.zify_post_hook ::= Z.div_mod_to_equations.

Lemma q_decode_no_panic old data : is_panic (snd (fst (q_decode_into old data))) = false.
Proof.
  unfold q_decode_into. cbv zeta. destruct (zlen data <? 4) eqn:Hn; [reflexivity|].
  rewrite cd_idx_ok, !cd_rd16_ok by lia. rewrite (cd_slc_ok data 0 4), (cd_slc_ok data 4 (zlen data)) by lia.
  reflexivity.
Qed.

Ltac qstep :=
  match goal with
  | |- context [qbind ?o _ _ _] => destruct o eqn:?; cbn [qbind]
  | |- context [if ?c then _ else _] => destruct c eqn:?
  end.

Lemma q_decode_fresh old data :
  let r1 := q_decode_into old data in
  let r2 := q_decode_into q_fresh data in
  snd (fst r1) = snd (fst r2) /\ snd r1 = snd r2 /\
  (snd (fst r1) = Ok tt -> fst (fst r1) = fst (fst r2)).
Proof.
  cbv zeta. unfold q_decode_into. cbv zeta.
  repeat (qstep; try solve [cbn [fst snd]; split; [reflexivity | split; [reflexivity | try (intros X; discriminate X); try reflexivity]]]).
  all: cbn [fst snd]; split; [reflexivity | split; [reflexivity | intros _; reflexivity]].
Qed.

Definition q_firstbytes (l : dot1q) : Z :=
  let fb := Z.lor ((q_prio l * 8192) mod 65536) (q_vid l) in if q_dei l then Z.lor fb 4096 else fb.

Definition q_ser_spec (l : dot1q) (payload : list Z) : outcome (list Z) * dot1q :=
  if q_vid l >? 4095 then (Err 1, l)
  else (Ok (cd_put16 (q_firstbytes l) ++ cd_put16 (q_type l) ++ payload), l).

Lemma q_wrc_ok b i vs : 0 <= i -> i + zlen vs <= zlen b -> q_wrc b i vs = Ok (cd_wr b i vs).
Proof. intros. unfold q_wrc. destruct (0 <=? i) eqn:A, (i + zlen vs <=? zlen b) eqn:B; try reflexivity; lia. Qed.

Lemma qlist4 (h : list Z) : zlen h = 4 -> exists a0 a1 a2 a3, h = [a0;a1;a2;a3].
Proof.
  unfold zlen. intros H. do 4 (destruct h as [|? h]; [cbn in H; lia|]). destruct h; [|cbn in H; lia].
  repeat eexists.
Qed.

Lemma q_serialize_spec l payload fixl csum junk : q_serialize l payload fixl csum junk = q_ser_spec l payload.
Proof.
  unfold q_serialize, q_ser_spec. cbv zeta. fold (q_firstbytes l).
  destruct (q_vid l >? 4095); [reflexivity|].
  pose proof (cd_region_length 4 junk ltac:(lia)) as Hlen.
  destruct (qlist4 _ Hlen) as [a0 [a1 [a2 [a3 E]]]]. rewrite E.
  rewrite q_wrc_ok by (unfold zlen; cbn [length cd_put16]; lia). cbn [obind].
  rewrite q_wrc_ok by (rewrite ?cd_wr_length; unfold zlen; cbn [length cd_put16]; lia).
  unfold cd_wr. change (Z.to_nat 0) with 0%nat; change (Z.to_nat 2) with 2%nat.
  cbn [cd_put16 upd_range upd app]. reflexivity.
Qed.

Lemma q_serialize_junk_free l payload fixl csum junk1 junk2 :
  q_serialize l payload fixl csum junk1 = q_serialize l payload fixl csum junk2.
Proof. rewrite !q_serialize_spec. reflexivity. Qed.

Lemma q_serialize_no_panic l payload fixl csum junk : is_panic (fst (q_serialize l payload fixl csum junk)) = false.
Proof. rewrite q_serialize_spec. unfold q_ser_spec. destruct (q_vid l >? 4095); reflexivity. Qed.

Definition q_wf (l : dot1q) : Prop := 0 <= q_prio l < 8 /\ 0 <= q_vid l < 4096 /\ 0 <= q_type l < 65536.

Lemma q_firstbytes_val l : q_wf l ->
  q_firstbytes l = q_prio l * 8192 + (if q_dei l then 4096 else 0) + q_vid l.
Proof.
  intros [Hp [Hv Ht]]. unfold q_firstbytes. cbv zeta.
  rewrite (Z.mod_small (q_prio l * 8192) 65536) by lia.
  change 8192 with (2 ^ 13). rewrite cd_lor_disjoint by (change (2 ^ 13) with 8192; lia).
  destruct (q_dei l); [|change (2 ^ 13) with 8192; lia].
  change 4096 with (2 ^ 12) at 1. rewrite cd_lor_bit; change (2 ^ 13) with 8192; change (2 ^ 12) with 4096; lia.
Qed.

Lemma qslice4 (a0 a1 a2 a3 : Z) p : slice (a0 :: a1 :: a2 :: a3 :: p) 4 (4 + length p) = p.
Proof.
  unfold slice. replace (4 + length p)%nat with (length (a0 :: a1 :: a2 :: a3 :: p)) by (cbn [length]; lia).
  rewrite firstn_all. reflexivity.
Qed.

Lemma q_roundtrip l payload fixl csum junk bytes l' old :
  q_wf l -> q_serialize l payload fixl csum junk = (Ok bytes, l') ->
  l' = l /\ bytes = cd_put16 (q_firstbytes l) ++ cd_put16 (q_type l) ++ payload /\
  q_decode_into old bytes =
    (mkQ (cd_put16 (q_firstbytes l) ++ cd_put16 (q_type l)) payload (q_prio l) (q_dei l) (q_vid l) (q_type l), Ok tt, false).
Proof.
  intros Hwf. pose proof (q_firstbytes_val l Hwf) as Fv. destruct Hwf as [Hp [Hv Ht]].
  rewrite q_serialize_spec. unfold q_ser_spec. destruct (q_vid l >? 4095) eqn:V; [discriminate|].
  intros X; inversion X; subst bytes l'. clear X. split; [reflexivity|]. split; [reflexivity|].
  set (fb := q_firstbytes l) in *.
  assert (Hfb : 0 <= fb < 65536) by (destruct (q_dei l); lia).
  unfold q_decode_into. cbv zeta. cbn [cd_put16 app].
  match goal with |- context [zlen ?d <? 4] => set (data := d) end.
  assert (Hn : zlen data = 4 + zlen payload) by (unfold data, zlen; cbn [length]; lia).
  assert (Hp0 : 0 <= zlen payload) by (unfold zlen; lia).
  destruct (zlen data <? 4) eqn:A; [lia|].
  rewrite cd_idx_ok, !cd_rd16_ok by lia. rewrite (cd_slc_ok data 0 4), (cd_slc_ok data 4 (zlen data)) by lia.
  cbn [qbind].
  replace (Z.to_nat (zlen data)) with (4 + length payload)%nat by (unfold zlen in *; lia).
  change (Z.to_nat (0 + 1)) with 1%nat; change (Z.to_nat (2 + 1)) with 3%nat; change (Z.to_nat 0) with 0%nat;
  change (Z.to_nat 2) with 2%nat; change (Z.to_nat 4) with 4%nat.
  subst data. rewrite qslice4. cbn [nth slice firstn skipn].
  rewrite !cd_put16_be by lia.
  f_equal. f_equal. f_equal.
  - destruct (q_dei l); lia.
  - destruct (q_dei l); lia.
  - destruct (q_dei l); lia.
Qed.

Lemma q_decoded_wf old data l tr : bytes_ok data -> q_decode_into old data = (l, Ok tt, tr) -> q_wf l.
Proof.
  intros Hb. unfold q_decode_into. cbv zeta. destruct (zlen data <? 4) eqn:Hn; [discriminate|].
  rewrite cd_idx_ok, !cd_rd16_ok by lia. rewrite (cd_slc_ok data 0 4), (cd_slc_ok data 4 (zlen data)) by lia.
  cbn [qbind]. intros X; inversion X; subst. unfold q_wf. cbn [q_prio q_vid q_type].
  assert (B : forall i, 0 <= nth i data 0 < 256).
  { intros i. destruct (Nat.lt_ge_cases i (length data)) as [L|L].
    - unfold bytes_ok in Hb. rewrite Forall_forall in Hb. apply Hb. apply nth_In. exact L.
    - rewrite nth_overflow by lia. lia. }
  pose proof (B 0%nat); pose proof (B (Pos.to_nat 1)); pose proof (B (Pos.to_nat 2)); pose proof (B (Pos.to_nat 3)).
  lia.
Qed.
