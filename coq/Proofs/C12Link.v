(* C12 — the boolean checker chk_one_entry evaluated by the model runner is exactly the predicate of
   theorem C12_one_entry. *)
From GP Require Import Base ListX C12Model C12Proofs.
From Coq Require Import Lia.
Open Scope nat_scope.

(* ================================================================ the boolean checker of the runner is the theorem's predicate *)
Lemma existsb_eqb_in x l : existsb (Nat.eqb x) l = true <-> In x l.
Proof.
  rewrite existsb_exists. split.
  - intros [y [Hy E]]. apply Nat.eqb_eq in E. subst. exact Hy.
  - intros H. exists x. split; [exact H|apply Nat.eqb_refl].
Qed.
Lemma nodupb_iff l : nodupb l = true <-> NoDup l.
Proof.
  induction l as [|x r IH]; cbn [nodupb].
  - split; [constructor|reflexivity].
  - rewrite andb_true_iff, negb_true_iff, IH. split.
    + intros [A B]. constructor; [|exact B]. intros Hin. apply existsb_eqb_in in Hin. congruence.
    + intros H. inversion H; subst. split; [|assumption].
      apply not_true_iff_false. intros E. apply existsb_eqb_in in E. contradiction.
Qed.
Lemma nodup_keys_iff l : nodup_keys l = true <-> NoDup (map fst l).
Proof.
  induction l as [|[k c] r IH]; cbn [nodup_keys map fst].
  - split; [constructor|reflexivity].
  - rewrite andb_true_iff, negb_true_iff, IH.
    assert (Hex : existsb (fun e : key * nat => key_eqb k (fst e)) r = true <-> In k (map fst r)).
    { rewrite existsb_exists. split.
      - intros [[k2 c2] [Hin E]]. cbn in E. apply key_eqb_eq in E. subst. apply in_map_iff. exists (k2, c2); auto.
      - intros Hin. apply in_map_iff in Hin as [[k2 c2] [E Hin]]. cbn in E; subst.
        exists (k, c2). split; [exact Hin|apply key_eqb_refl]. }
    split.
    + intros [A B]. constructor; [|exact B]. intros Hin. apply Hex in Hin. congruence.
    + intros H. inversion H; subst. split; [|assumption].
      apply not_true_iff_false. intros E. apply Hex in E. contradiction.
Qed.

Section Link.
Variable cstate : Type.
Variable cinit : cstate.

Definition one_entry_prop (g : config) (s : state cstate) : Prop :=
  NoDup (map fst (s_conns s)) /\
  NoDup (map snd (s_conns s)) /\
  (forall k c, In (k, c) (s_conns s) -> c_key (obj cstate cinit s c) = k /\ c < length (s_objs s)) /\
  (is_rsm g = true -> forall k c, In (k, c) (s_conns s) -> assoc (key_rev k) (s_conns s) = None) /\
  NoDup (s_free s) /\
  (forall c, In c (s_free s) -> ~ In c (map snd (s_conns s)) /\ c < length (s_objs s)).

Lemma chk_one_entry_iff g (s : state cstate) : chk_one_entry cstate cinit g s = true <-> one_entry_prop g s.
Proof.
  unfold chk_one_entry, one_entry_prop.
  rewrite !andb_true_iff, nodup_keys_iff, !nodupb_iff, !forallb_forall.
  split.
  - intros [[[[[A B] C] D] E] F]. repeat split; auto.
    + specialize (C _ H). cbn in C. apply andb_true_iff in C as [C _]. apply key_eqb_eq in C. exact C.
    + specialize (C _ H). cbn in C. apply andb_true_iff in C as [_ C]. apply Nat.ltb_lt in C. exact C.
    + intros G k c Hin. rewrite G in D. rewrite forallb_forall in D. specialize (D _ Hin). cbn in D.
      destruct (assoc (key_rev k) (s_conns s)); [discriminate|reflexivity].
    + specialize (F _ H). apply andb_true_iff in F as [F _]. apply negb_true_iff in F.
      intros Hin. apply existsb_eqb_in in Hin. congruence.
    + specialize (F _ H). apply andb_true_iff in F as [_ F]. apply Nat.ltb_lt in F. exact F.
  - intros [A [B [C [D [E F]]]]]. repeat split; auto.
    + intros [k c] Hin. cbn. destruct (C _ _ Hin) as [C1 C2]. rewrite C1, key_eqb_refl. cbn. apply Nat.ltb_lt. exact C2.
    + destruct (is_rsm g); [|reflexivity]. apply forallb_forall. intros [k c] Hin. cbn.
      rewrite (D eq_refl _ _ Hin). reflexivity.
    + intros c Hin. destruct (F _ Hin) as [F1 F2]. apply andb_true_iff. split; [|apply Nat.ltb_lt; exact F2].
      apply negb_true_iff. apply not_true_iff_false. intros Hx. apply existsb_eqb_in in Hx. contradiction.
Qed.
End Link.
