(* C16 — lemmas about the PacketSource model (Model/C16Model.v) *)
From GP Require Import Base C16Model.
From Coq Require Import Lia.
Open Scope nat_scope.

(* ------------------------------------------------------------------ memory *)
Definition mem_ok (m : mem) : Prop := 1 <= length m.

(* memory only grows; arrays other than the zero-copy buffer (array 0) never change;
   the buffer keeps its length *)
Definition mem_ext (m m' : mem) : Prop :=
  length m <= length m' /\
  (forall i, 1 <= i < length m -> nth i m' [] = nth i m []) /\
  length (nth 0 m' []) = length (nth 0 m []).

Definition fresh_ok (m : mem) (v : view) : Prop := 1 <= v_arr v < length m.

Lemma mem_ext_refl m : mem_ext m m.
Proof. repeat split; auto. Qed.

Lemma mem_ext_trans m1 m2 m3 : mem_ext m1 m2 -> mem_ext m2 m3 -> mem_ext m1 m3.
Proof.
  intros (L1 & A1 & B1) (L2 & A2 & B2). split; [lia|split].
  - intros i Hi. rewrite A2 by lia. apply A1; lia.
  - congruence.
Qed.

Lemma vread_ext m m' v : mem_ext m m' -> fresh_ok m v -> vread m' v = vread m v.
Proof. intros (_ & A & _) F. unfold vread. rewrite A; auto. Qed.

Lemma fresh_ok_ext m m' v : mem_ext m m' -> fresh_ok m v -> fresh_ok m' v.
Proof. intros (L & _) F. unfold fresh_ok in *. lia. Qed.

Lemma mem_ok_ext m m' : mem_ext m m' -> mem_ok m -> mem_ok m'.
Proof. intros (L & _) F. unfold mem_ok in *. lia. Qed.

Lemma alloc_spec m d m' v : mem_ok m -> alloc m d = (m', v) ->
  mem_ext m m' /\ fresh_ok m' v /\ vread m' v = d /\ v_arr v = length m /\ length m' = S (length m).
Proof.
  unfold alloc, mem_ok. intros Hm E. inversion E; subst; clear E.
  assert (HL : length (m ++ [d]) = S (length m)) by (rewrite app_length; cbn; lia).
  split; [|split; [|split; [|split]]].
  - split; [lia|split].
    + intros i Hi. rewrite app_nth1 by lia. reflexivity.
    + rewrite app_nth1 by lia. reflexivity.
  - unfold fresh_ok; cbn [v_arr]. lia.
  - unfold vread; cbn [v_arr v_len]. rewrite app_nth2 by lia. rewrite Nat.sub_diag. cbn. apply firstn_all.
  - reflexivity.
  - exact HL.
Qed.

Lemma bufwrite_spec m d m' v : mem_ok m -> length d <= length (nth 0 m []) -> bufwrite m d = (m', v) ->
  mem_ext m m' /\ vread m' v = d /\ v_arr v = 0 /\ length m' = length m.
Proof.
  unfold bufwrite, mem_ok. destruct m as [|b rest]; cbn [length]; [lia|]. intros _ Hd E.
  cbn [nth] in Hd. rewrite Nat.min_l in E by lia. inversion E; subst; clear E.
  split; [|split; [|split]].
  - split; [cbn [length]; lia|split].
    + intros i Hi. destruct i; [lia|]. reflexivity.
    + cbn [nth]. rewrite app_length, firstn_length, skipn_length. lia.
  - unfold vread; cbn [v_arr v_len nth]. rewrite firstn_all. rewrite firstn_app.
    rewrite firstn_all. rewrite Nat.sub_diag. cbn. rewrite app_nil_r. reflexivity.
  - reflexivity.
  - reflexivity.
Qed.

(* ------------------------------------------------------------------ data sources *)
Fixpoint cut_eof (h : list item) : list item :=
  match h with
  | [] => []
  | IErr k :: t => if f_eof (feat k) then [] else IErr k :: cut_eof t
  | it :: t => it :: cut_eof t
  end.

(* the sequence of results a source is specified to give (followed by io.EOF for ever) *)
Definition flat (s : src) : list item :=
  match s_kind s with
  | SConcat => concat (map cut_eof (s_h s))
  | _ => match s_h s with h :: _ => h | [] => [] end
  end.

Definition total_items (hs : list (list item)) : nat := fold_right (fun h a => length h + a) 0 hs.

Lemma concat_read_spec hs it hs' : concat_read hs = (it, hs') ->
  (concat (map cut_eof hs) = it :: concat (map cut_eof hs') /\ S (total_items hs') <= total_items hs) \/
  (concat (map cut_eof hs) = [] /\ it = IErr KEof /\ hs' = []).
Proof.
  revert it hs'. induction hs as [|h rest IH]; intros it hs' E; cbn [concat_read] in E.
  - inversion E; subst. right. auto.
  - destruct h as [|x h'].
    + destruct (IH _ _ E) as [(A & B)|(A & B & C)]; [left|right]; cbn [map concat cut_eof total_items fold_right length app]; auto.
    + destruct x as [d c|k].
      * inversion E; subst. left. cbn [map concat cut_eof app total_items fold_right length]. split; [reflexivity|lia].
      * destruct (f_eof (feat k)) eqn:Fe.
        -- destruct (IH _ _ E) as [(A & B)|(A & B & C)]; [left|right];
             cbn [map concat cut_eof total_items fold_right length app]; rewrite Fe; cbn [app]; auto.
           split; [exact A|]. fold (total_items rest). lia.
        -- inversion E; subst. left. cbn [map concat cut_eof app total_items fold_right length]. rewrite Fe.
           split; [reflexivity|lia].
Qed.

(* all packets of a zero-copy source fit its buffer *)
Definition item_fits (n : nat) (it : item) : Prop := match it with IPkt d _ => length d <= n | IErr _ => True end.
Definition fits (s : src) (m : mem) : Prop :=
  s_kind s = SZero -> Forall (item_fits (length (nth 0 m []))) (flat s).

Inductive read_spec (s : src) (m : mem) : rres -> src -> mem -> Prop :=
| RS_end : flat s = [] -> forall s', flat s' = [] -> s_kind s' = s_kind s -> read_spec s m (RErr KEof) s' m
| RS_err : forall k rest s', flat s = IErr k :: rest -> flat s' = rest -> s_kind s' = s_kind s ->
    items_left s' < items_left s -> read_spec s m (RErr k) s' m
| RS_pkt : forall d c rest s' m' v, flat s = IPkt d c :: rest -> flat s' = rest -> s_kind s' = s_kind s ->
    items_left s' < items_left s ->
    mem_ext m m' -> vread m' v = d ->
    (s_kind s <> SZero -> fresh_ok m' v /\ v_arr v = length m /\ length m' = S (length m)) ->
    (s_kind s = SZero -> v_arr v = 0 /\ length m' = length m) ->
    read_spec s m (RData v c) s' m'.

Lemma items_left_total s : items_left s = total_items (s_h s).
Proof. reflexivity. Qed.

Lemma src_read_spec s m r s' m' : mem_ok m -> fits s m -> src_read s m = (r, s', m') -> read_spec s m r s' m'.
Proof.
  intros Hm Hf E. unfold src_read in E.
  destruct s as [k hs]. cbn [s_kind s_h] in E.
  assert (Hcases : exists it hs', (match k with SConcat => concat_read hs | _ => plain_read hs end) = (it, hs') /\
     ((flat (mksrc k hs) = it :: flat (mksrc k hs') /\ items_left (mksrc k hs') < items_left (mksrc k hs)) \/
      (flat (mksrc k hs) = [] /\ it = IErr KEof /\ flat (mksrc k hs') = []))).
  { destruct k.
    1,2: (destruct hs as [|[|x h] rest]; cbn [plain_read];
      [ eexists; eexists; split; [reflexivity|right; auto]
      | eexists; eexists; split; [reflexivity|right; auto]
      | eexists; eexists; split; [reflexivity|left; unfold flat, items_left; cbn; split; [reflexivity|lia]] ]).
    destruct (concat_read hs) as [it hs'] eqn:Ec. exists it, hs'. split; [reflexivity|].
    destruct (concat_read_spec _ _ _ Ec) as [(A & B)|(A & B & C)]; [left|right]; unfold flat, items_left; cbn [s_kind s_h].
    - split; [exact A|]. fold (total_items hs'). fold (total_items hs). lia.
    - subst. auto. }
  destruct Hcases as (it & hs' & Er & Hc). rewrite Er in E.
  destruct Hc as [(Hfl & Hlt)|(Hfl & Hit & Hfl')].
  - destruct it as [d c|ke].
    + assert (Hfit : k = SZero -> length d <= length (nth 0 m [])).
      { intros Hk. specialize (Hf Hk). rewrite Hfl in Hf. inversion Hf; subst. assumption. }
      destruct k.
      * destruct (alloc m d) as [m1 v] eqn:Ea. inversion E; subst; clear E.
        destruct (alloc_spec _ _ _ _ Hm Ea) as (X1 & X2 & X3 & X4 & X5).
        eapply RS_pkt; eauto. intros C; discriminate C.
      * destruct (bufwrite m d) as [m1 v] eqn:Ea. inversion E; subst; clear E.
        destruct (bufwrite_spec _ _ _ _ Hm (Hfit eq_refl) Ea) as (X1 & X2 & X3 & X4).
        eapply RS_pkt; eauto. intros C; exfalso; apply C; reflexivity.
      * destruct (alloc m d) as [m1 v] eqn:Ea. inversion E; subst; clear E.
        destruct (alloc_spec _ _ _ _ Hm Ea) as (X1 & X2 & X3 & X4 & X5).
        eapply RS_pkt; eauto. intros C; discriminate C.
    + inversion E; subst; clear E. eapply RS_err; eauto.
  - subst it. inversion E; subst; clear E. apply RS_end; auto.
Qed.

Lemma fits_ext s m m' : mem_ext m m' -> fits s m -> fits s m'.
Proof. intros (_ & _ & L) F K. rewrite L. auto. Qed.

Lemma read_spec_fits s m r s' m' : fits s m -> read_spec s m r s' m' -> fits s' m' /\ mem_ext m m'.
Proof.
  intros F R. inversion R; subst.
  - split; [|apply mem_ext_refl]. intros K. rewrite H0. constructor.
  - split; [|apply mem_ext_refl]. intros K. rewrite H1 in K. specialize (F K). rewrite H in F. inversion F; subst; assumption.
  - split; [|assumption]. intros K. rewrite H1 in K. specialize (F K). rewrite H in F. inversion F; subst.
    destruct H3 as (_ & _ & L). rewrite L. assumption.
Qed.

(* ------------------------------------------------------------------ NextPacket *)
Section WithDecoder.
Variable dec : list Z -> bool.

(* what the property says a packet read as (d, c) must look like *)
Definition spec_pkt (d : list Z) (c : cinfo) : pobs := mkpobs d c (dec d || (ci_cap c <? ci_len c)%Z).

(* the configuration does not combine a buffer-reusing source with NoCopy *)
Definition safe (cfg : pcfg) (s : src) : Prop := s_kind s = SZero -> p_nocopy cfg = false.

Inductive next_spec (cfg : pcfg) (s : src) (m : mem) : nres -> src -> mem -> Prop :=
| NS_end : flat s = [] -> forall s', flat s' = [] -> s_kind s' = s_kind s -> next_spec cfg s m (NErr KEof) s' m
| NS_err : forall k rest s', flat s = IErr k :: rest -> flat s' = rest -> s_kind s' = s_kind s ->
    items_left s' < items_left s -> next_spec cfg s m (NErr k) s' m
| NS_pkt : forall d c rest s' m' p, flat s = IPkt d c :: rest -> flat s' = rest -> s_kind s' = s_kind s ->
    items_left s' < items_left s ->
    mem_ext m m' -> observe m' p = spec_pkt d c ->
    (safe cfg s -> fresh_ok m' (k_data p) /\ length m <= v_arr (k_data p)) ->
    v_arr (k_data p) < length m' ->
    next_spec cfg s m (NPkt p) s' m'.

Lemma skind_zero_dec (k : skind) : {k = SZero} + {k <> SZero}.
Proof. destruct k; [right; discriminate|left; reflexivity|right; discriminate]. Qed.

Lemma next_packet_spec cfg s m r s' m' : mem_ok m -> fits s m ->
  next_packet dec cfg s m = (r, s', m') -> next_spec cfg s m r s' m'.
Proof.
  intros Hm Hf E. unfold next_packet in E.
  destruct (src_read s m) as [[rr s1] m1] eqn:Er.
  pose proof (src_read_spec _ _ _ _ _ Hm Hf Er) as R.
  destruct R as [Hfl s1 Hfl' Hk | k rest s1 Hfl Hfl' Hk Hlt | d c rest s1 m1 v Hfl Hfl' Hk Hlt Hext Hv Hnz Hz].
  - inversion E; subst. apply NS_end; auto.
  - inversion E; subst. eapply NS_err; eauto.
  - unfold new_packet in E. destruct (p_nocopy cfg) eqn:Nc.
    + inversion E; subst; clear E.
      apply (NS_pkt cfg s m _ c _ s' m' _ Hfl eq_refl Hk Hlt Hext).
      * unfold observe, spec_pkt; cbn [k_data k_ci k_trunc]. reflexivity.
      * intros Sf. cbn [k_data]. assert (K : s_kind s <> SZero) by (intros K; specialize (Sf K); congruence).
        destruct (Hnz K) as (A & B & C). split; [assumption|lia].
      * cbn [k_data]. destruct (skind_zero_dec (s_kind s)) as [K|K].
        -- destruct (Hz K) as (A & B). rewrite A, B. exact Hm.
        -- destruct (Hnz K) as (A & _). unfold fresh_ok in A. lia.
    + destruct (alloc m1 (vread m1 v)) as [m2 pv] eqn:Ea.
      inversion E; subst; clear E.
      destruct (alloc_spec _ _ _ _ (mem_ok_ext _ _ Hext Hm) Ea) as (X1 & X2 & X3 & X4 & X5).
      apply (NS_pkt cfg s m _ c _ s' m' _ Hfl eq_refl Hk Hlt (mem_ext_trans _ _ _ Hext X1)).
      * unfold observe, spec_pkt; cbn [k_data k_ci k_trunc]. rewrite X3. reflexivity.
      * intros _. cbn [k_data]. split; [assumption|]. destruct Hext as (L & _). lia.
      * cbn [k_data]. unfold fresh_ok in X2. lia.
Qed.

Lemma next_spec_frame cfg s m r s' m' : fits s m -> next_spec cfg s m r s' m' -> fits s' m' /\ mem_ext m m'.
Proof.
  intros F R.
  destruct R as [Hfl s1 Hfl' Hk | k rest s1 Hfl Hfl' Hk Hlt | d c rest s1 m1 p Hfl Hfl' Hk Hlt Hext Hobs Hsafe Hbnd].
  - split; [|apply mem_ext_refl]. intros K. rewrite Hfl'. constructor.
  - split; [|apply mem_ext_refl]. intros K. rewrite Hk in K. specialize (F K). rewrite Hfl in F. subst rest. inversion F; subst; assumption.
  - split; [|assumption]. intros K. rewrite Hk in K. specialize (F K). rewrite Hfl in F. subst rest. inversion F; subst.
    destruct Hext as (_ & _ & L). rewrite L. assumption.
Qed.

(* ------------------------------------------------------------------ pull interface *)
Definition spec_res (it : item) : pobs + ekind :=
  match it with IPkt d c => inl (spec_pkt d c) | IErr k => inr k end.

Lemma firstn_repeat {A} (x : A) n k : n <= k -> firstn n (repeat x k) = repeat x n.
Proof. revert k; induction n as [|n IH]; intros k H; [reflexivity|]. destruct k; [lia|]. cbn. f_equal. apply IH; lia. Qed.

Lemma pull_n_spec n : forall k s, n <= k -> mem_ok (t_mem s) -> fits (t_src s) (t_mem s) ->
  fst (pull_n dec n s) = map spec_res (firstn n (flat (t_src s) ++ repeat (IErr KEof) k)).
Proof.
  induction n as [|n IH]; intros k s Hk Hm Hf; [reflexivity|].
  cbn [pull_n]. unfold pull.
  destruct (next_packet dec (t_cfg s) (t_src s) (t_mem s)) as [[r s1] m1] eqn:En.
  pose proof (next_packet_spec _ _ _ _ _ _ Hm Hf En) as R.
  destruct (next_spec_frame _ _ _ _ _ _ Hf R) as (Hf1 & Hx).
  pose proof (mem_ok_ext _ _ Hx Hm) as Hm1.
  match goal with |- context [pull_n dec n ?S1] => destruct (pull_n dec n S1) as [l s2] eqn:Ep;
    assert (IHs := IH k S1) end.
  cbn [t_mem t_src] in IHs. rewrite Ep in IHs. cbn [fst] in *. specialize (IHs ltac:(lia) Hm1 Hf1). subst l.
  destruct R as [Hfl s1 Hfl' Hkd | ke rest s1 Hfl Hfl' Hkd Hlt | d c rest s1 m1 p Hfl Hfl' Hkd Hlt Hext Hobs Hsafe Hbnd].
  - cbn [t_src] in *. rewrite Hfl, Hfl'. cbn [app]. rewrite !firstn_repeat by lia. reflexivity.
  - cbn [t_src] in *. rewrite Hfl. subst rest. cbn [app firstn map spec_res t_mem]. reflexivity.
  - cbn [t_src] in *. rewrite Hfl. subst rest. cbn [app firstn map spec_res t_mem]. f_equal. f_equal. exact Hobs.
Qed.

(* ------------------------------------------------------------------ channel interface: the invariant *)
Definition held (p : pc) : list packet := match p with PSel x => [x] | _ => [] end.

(* the packets a consumer of the channel must get: those before the first end-of-input error *)
Fixpoint before_stop (l : list item) : list pobs :=
  match l with
  | [] => []
  | IPkt d c :: t => spec_pkt d c :: before_stop t
  | IErr k :: t => match classify k with CStop => [] | _ => before_stop t end
  end.

Definition arr_of (p : packet) : nat := v_arr (k_data p).
Definition live (s : st) : list packet := t_recv s ++ t_chan s ++ held (t_pc s).

Record Inv (all : list pobs) (s : st) : Prop := mkInv {
  I_mem : mem_ok (t_mem s);
  I_fits : fits (t_src s) (t_mem s);
  I_safe : safe (t_cfg s) (t_src s);
  I_started : t_pc s <> PIdle;
  I_fresh : Forall (fun p => fresh_ok (t_mem s) (k_data p)) (live s);
  I_nodup : NoDup (map arr_of (live s));
  I_run : t_pc s <> PDone ->
          map (observe (t_mem s)) (live s) ++ before_stop (flat (t_src s)) = all;
  I_done : t_pc s = PDone ->
          exists rest, map (observe (t_mem s)) (live s) ++ rest = all /\ (t_cancel s = false -> rest = []);
  I_closed : t_closed s = true <-> t_pc s = PDone;
  I_seen : t_seen_closed s = true -> t_closed s = true /\ t_chan s = []
}.

Lemma observe_ext m m' l : mem_ext m m' -> Forall (fun p => fresh_ok m (k_data p)) l ->
  map (observe m') l = map (observe m) l.
Proof.
  intros X F. induction F as [|p l Hp F IH]; [reflexivity|]. cbn [map]. rewrite IH. f_equal.
  unfold observe. rewrite (vread_ext _ _ _ X Hp). reflexivity.
Qed.

Lemma fresh_all_ext m m' l : mem_ext m m' -> Forall (fun p => fresh_ok m (k_data p)) l ->
  Forall (fun p => fresh_ok m' (k_data p)) l.
Proof. intros X F. eapply Forall_impl; [|exact F]. intros p Hp. eapply fresh_ok_ext; eauto. Qed.

Lemma classify_eof : classify KEof = CStop.
Proof. reflexivity. Qed.

Lemma inv_cancel all s : Inv all s -> Inv all (step_cancel s).
Proof.
  intros [A B C D E F G H I J]. constructor; cbn [step_cancel t_mem t_src t_cfg t_pc t_chan t_recv t_closed t_cancel t_seen_closed]; auto.
  intros P. destruct (H P) as (rest & R1 & R2). exists rest. split; [assumption|discriminate].
Qed.

Lemma inv_recv all s : Inv all s -> Inv all (step_recv s).
Proof.
  intros HI. pose proof HI as [A B C D E F G H I J]. unfold step_recv.
  destruct (t_chan s) as [|p rest] eqn:Hc.
  - destruct (t_closed s) eqn:Hcl.
    + constructor; unfold live in *; cbn [t_mem t_src t_cfg t_pc t_chan t_recv t_closed t_cancel t_seen_closed]; rewrite ?Hc in *; auto.
    + exact HI.
  - assert (L : forall h, (t_recv s ++ [p]) ++ rest ++ h = t_recv s ++ (p :: rest) ++ h).
    { intros h. rewrite <- app_assoc. reflexivity. }
    unfold live in *; rewrite Hc in *.
    constructor; unfold live; cbn [t_mem t_src t_cfg t_pc t_chan t_recv t_closed t_cancel t_seen_closed];
      rewrite ?L; auto.
    intros S. destruct (J S) as (_ & X). discriminate X.
Qed.

Lemma NoDup_app_new l x : NoDup l -> (forall y, In y l -> y < x) -> NoDup (l ++ [x]).
Proof.
  intros N B. induction N as [|a l Ha N IH]; cbn [app].
  - constructor; [intros []|constructor].
  - constructor.
    + rewrite in_app_iff. intros [X|[X|[]]]; [contradiction|]. subst. specialize (B a (or_introl eq_refl)). lia.
    + apply IH. intros y Hy. apply B. right. assumption.
Qed.

Ltac stfields := cbn [t_mem t_src t_cfg t_pc t_chan t_recv t_closed t_cancel t_seen_closed t_reads t_reads_ac t_sends_ac].

Ltac mkinv := constructor; unfold live; stfields; cbn [held].
Ltac absurd_neq := let X := fresh in intros X; exfalso; apply X; reflexivity.

Lemma inv_prod all c b s : Inv all s -> Inv all (step_prod dec c b s).
Proof.
  intros HI. pose proof HI as [A B C D E F G H I J]. unfold step_prod.
  destruct (t_pc s) eqn:Hpc.
  - exact HI.
  - (* PTop *)
    unfold live in *. rewrite Hpc in E, F, G, H. cbn [held] in *.
    destruct (t_cancel s) eqn:Hcan.
    + unfold close_done. mkinv.
      * exact A. * exact B. * exact C. * discriminate. * exact E. * exact F.
      * absurd_neq.
      * intros _. exists (before_stop (flat (t_src s))). split; [apply G; discriminate|rewrite Hcan; discriminate].
      * split; reflexivity.
      * intros S. destruct (J S) as (X & _). apply I in X. discriminate X.
    + mkinv.
      * exact A. * exact B. * exact C. * discriminate. * exact E. * exact F.
      * intros _. apply G. discriminate.
      * discriminate.
      * split; [intros X; apply I in X; discriminate X|discriminate].
      * exact J.
  - (* PRead *)
    unfold live in *. rewrite Hpc in E, F, G, H. cbn [held] in *.
    destruct (next_packet dec (t_cfg s) (t_src s) (t_mem s)) as [[r s1] m1] eqn:En.
    pose proof (next_packet_spec _ _ _ _ _ _ A B En) as R.
    destruct (next_spec_frame _ _ _ _ _ _ B R) as (Hf1 & Hx).
    pose proof (mem_ok_ext _ _ Hx A) as Hm1.
    assert (Gr := G ltac:(discriminate)).
    assert (NC : t_closed s = false).
    { destruct (t_closed s) eqn:X; [|reflexivity]. destruct I as (I1 & _). specialize (I1 eq_refl). discriminate I1. }
    assert (NS : t_seen_closed s = true -> False).
    { intros S. destruct (J S) as (X & _). congruence. }
    destruct R as [Hfl s1 Hfl' Hkd | ke rest s1 Hfl Hfl' Hkd Hlt | d ci rest s1 m1 p Hfl Hfl' Hkd Hlt Hext Hobs Hsafe Hbnd].
    + (* implicit io.EOF *)
      rewrite classify_eof. rewrite Hfl in Gr. cbn [before_stop] in Gr.
      mkinv.
      * exact A. * exact Hf1. * unfold safe. rewrite Hkd. exact C. * discriminate. * exact E. * exact F.
      * absurd_neq.
      * intros _. exists []. split; [exact Gr|reflexivity].
      * split; reflexivity.
      * intros S. destruct (NS S).
    + rewrite Hfl in Gr. cbn [before_stop] in Gr.
      destruct (classify ke) eqn:Hcl.
      * mkinv.
        -- exact A. -- exact Hf1. -- unfold safe. rewrite Hkd. exact C. -- discriminate. -- exact E. -- exact F.
        -- intros _. rewrite Hfl'. exact Gr.
        -- discriminate.
        -- rewrite NC. split; discriminate.
        -- intros S. destruct (NS S).
      * mkinv.
        -- exact A. -- exact Hf1. -- unfold safe. rewrite Hkd. exact C. -- discriminate. -- exact E. -- exact F.
        -- absurd_neq.
        -- intros _. exists []. split; [exact Gr|reflexivity].
        -- split; reflexivity.
        -- intros S. destruct (NS S).
      * mkinv.
        -- exact A. -- exact Hf1. -- unfold safe. rewrite Hkd. exact C. -- discriminate. -- exact E. -- exact F.
        -- intros _. rewrite Hfl'. exact Gr.
        -- discriminate.
        -- rewrite NC. split; discriminate.
        -- intros S. destruct (NS S).
    + (* a packet *)
      rewrite Hfl in Gr. cbn [before_stop] in Gr.
      destruct (Hsafe C) as (Hfr & Hge).
      assert (L : t_recv s ++ t_chan s ++ [p] = (t_recv s ++ t_chan s ++ []) ++ [p]).
      { rewrite app_nil_r. rewrite app_assoc. reflexivity. }
      mkinv.
      * exact Hm1. * exact Hf1. * unfold safe. rewrite Hkd. exact C. * discriminate.
      * rewrite L. apply Forall_app. split; [eapply fresh_all_ext; eauto|]. constructor; [exact Hfr|constructor].
      * rewrite L. rewrite map_app. cbn [map]. apply NoDup_app_new; [exact F|].
        intros y Hy. apply in_map_iff in Hy. destruct Hy as (q & Hq & Hin).
        rewrite Forall_forall in E. specialize (E q Hin). unfold fresh_ok, arr_of in *. subst y. lia.
      * intros _. rewrite L. rewrite map_app. rewrite (observe_ext _ _ _ Hext E). cbn [map]. rewrite Hobs.
        rewrite <- app_assoc. cbn [app]. rewrite Hfl'. exact Gr.
      * discriminate.
      * rewrite NC. split; discriminate.
      * intros S. destruct (NS S).
  - (* PSel *)
    unfold live in *. rewrite Hpc in E, F, G, H. cbn [held] in *.
    assert (Gr := G ltac:(discriminate)).
    assert (NC : t_closed s = false).
    { destruct (t_closed s) eqn:X; [|reflexivity]. destruct I as (I1 & _). specialize (I1 eq_refl). discriminate I1. }
    assert (NS : t_seen_closed s = true -> False).
    { intros S. destruct (J S) as (X & _). congruence. }
    assert (L : (t_recv s ++ (t_chan s ++ [p]) ++ []) = t_recv s ++ t_chan s ++ [p]).
    { rewrite app_nil_r. reflexivity. }
    assert (Hsend : Inv all (send s p)).
    { unfold send. mkinv; rewrite ?L.
      - exact A. - exact B. - exact C. - discriminate. - exact E. - exact F.
      - intros _. exact Gr.
      - discriminate.
      - rewrite NC. split; discriminate.
      - intros S. destruct (NS S). }
    assert (Hret : t_cancel s = true -> Inv all (close_done s)).
    { intros Hcan. unfold close_done. mkinv.
      - exact A. - exact B. - exact C. - discriminate.
      - rewrite app_nil_r. rewrite app_assoc in E. apply Forall_app in E. destruct E as (E1 & _). exact E1.
      - rewrite app_nil_r. rewrite app_assoc, map_app in F. cbn [map] in F.
        apply NoDup_remove_1 in F. rewrite app_nil_r in F. exact F.
      - absurd_neq.
      - intros _. exists (observe (t_mem s) p :: before_stop (flat (t_src s))). split; [|rewrite Hcan; discriminate].
        rewrite <- Gr. rewrite app_nil_r. rewrite !map_app. cbn [map]. rewrite <- !app_assoc. reflexivity.
      - split; reflexivity.
      - intros S. destruct (NS S). }
    destruct (t_cancel s) eqn:Hcan.
    + destruct ((length (t_chan s) <? c) && negb b); [exact Hsend|apply Hret; reflexivity].
    + destruct (length (t_chan s) <? c); [exact Hsend|exact HI].
  - exact HI.
Qed.

(* an assignment of NoCopy keeps the configuration safe unless it switches NoCopy on for a
   buffer-reusing source *)
Definition ev_safe (k : skind) (e : ev) : Prop :=
  match e with EvSetOpt true => k <> SZero | _ => True end.

Lemma inv_setopt all b s : ev_safe (s_kind (t_src s)) (EvSetOpt b) -> Inv all s -> Inv all (step_setopt b s).
Proof.
  intros Sf [A B C D E F G H I J]. unfold step_setopt. mkinv; try assumption.
  unfold safe; cbn [p_nocopy]. intros K. destruct b; [contradiction (Sf K)|reflexivity].
Qed.

Lemma step_kind c s e : s_kind (t_src (step dec c s e)) = s_kind (t_src s).
Proof.
  destruct e as [b| | |b]; cbn [step]; try reflexivity.
  - unfold step_prod. destruct (t_pc s); try reflexivity.
    + destruct (t_cancel s); reflexivity.
    + unfold next_packet, src_read.
      destruct (match s_kind (t_src s) with SConcat => concat_read (s_h (t_src s)) | _ => plain_read (s_h (t_src s)) end) as [it hs'].
      destruct it as [d ci|k]; [|reflexivity].
      destruct (s_kind (t_src s)) eqn:K;
        [destruct (alloc (t_mem s) d) as [m1 v]|destruct (bufwrite (t_mem s) d) as [m1 v]|destruct (alloc (t_mem s) d) as [m1 v]];
        destruct (new_packet dec (p_nocopy (t_cfg s)) m1 v) as [[m2 pv] tr]; stfields; cbn [s_kind]; reflexivity.
    + destruct (t_cancel s); [destruct ((length (t_chan s) <? c) && negb b)|destruct (length (t_chan s) <? c)]; reflexivity.
  - unfold step_recv. destruct (t_chan s); [destruct (t_closed s)|]; reflexivity.
Qed.

Lemma inv_step all c s e : ev_safe (s_kind (t_src s)) e -> Inv all s -> Inv all (step dec c s e).
Proof. destruct e; cbn [step]; intros Sf; [apply inv_prod|apply inv_recv|apply inv_cancel|apply inv_setopt; exact Sf]. Qed.

Lemma inv_run all c evs : forall s, Forall (ev_safe (s_kind (t_src s))) evs -> Inv all s -> Inv all (run dec c s evs).
Proof.
  induction evs as [|e evs IH]; intros s HF HI; [exact HI|]. cbn [run fold_left].
  inversion HF; subst. apply IH; [rewrite step_kind; assumption|apply inv_step; assumption].
Qed.

(* ------------------------------------------------------------------ before PacketsCtx *)
Record PreStart (s : st) : Prop := mkPre {
  P_mem : mem_ok (t_mem s);
  P_fits : fits (t_src s) (t_mem s);
  P_pc : t_pc s = PIdle;
  P_recv : t_recv s = [];
  P_chan : t_chan s = [];
  P_closed : t_closed s = false;
  P_seen : t_seen_closed s = false;
  P_rac : t_reads_ac s = 0;
  P_sac : t_sends_ac s = 0
}.

Lemma pre_init cfg s buf : (s_kind s = SZero -> Forall (item_fits (length buf)) (flat s)) -> PreStart (init cfg s buf).
Proof. intros F. constructor; cbn; auto. unfold mem_ok; cbn; lia. Qed.

Lemma pre_pull s r s1 : PreStart s -> pull dec s = (r, s1) -> PreStart s1 /\ mem_ext (t_mem s) (t_mem s1).
Proof.
  intros [A B C D E F G G1 G2] Ep. unfold pull in Ep.
  destruct (next_packet dec (t_cfg s) (t_src s) (t_mem s)) as [[r0 s0] m0] eqn:En.
  pose proof (next_packet_spec _ _ _ _ _ _ A B En) as R.
  destruct (next_spec_frame _ _ _ _ _ _ B R) as (Hf1 & Hx).
  inversion Ep; subst; clear Ep. split; [|exact Hx].
  constructor; stfields; auto. eapply mem_ok_ext; eauto.
Qed.

Lemma guard_safe s s1 : (s_kind (t_src s) = SZero -> p_zero (t_cfg s) = true) ->
  packets_ctx s = Ok s1 -> safe (t_cfg s) (t_src s).
Proof.
  intros Z E K. specialize (Z K). unfold packets_ctx in E. rewrite Z in E.
  destruct (p_nocopy (t_cfg s)); [discriminate E|reflexivity].
Qed.

Lemma inv_start s s1 : PreStart s -> safe (t_cfg s) (t_src s) -> packets_ctx s = Ok s1 ->
  Inv (before_stop (flat (t_src s))) s1.
Proof.
  intros [A B C D E F G G1 G2] Sf Ep. unfold packets_ctx in Ep.
  destruct (p_nocopy (t_cfg s) && p_zero (t_cfg s)); [discriminate Ep|].
  rewrite C in Ep. inversion Ep; subst; clear Ep. unfold set_pc.
  mkinv; rewrite ?D, ?E; cbn [app map].
  - exact A. - exact B. - exact Sf. - discriminate. - constructor. - constructor.
  - intros _. reflexivity.
  - discriminate.
  - rewrite F. split; discriminate.
  - rewrite G. discriminate.
Qed.

(* what C16_chan says about a state *)
Definition chan_ok (all : list pobs) (s : st) : Prop :=
  (exists rest,
     map (observe (t_mem s)) (t_recv s) ++ map (observe (t_mem s)) (t_chan s) ++ rest = all /\
     (t_pc s <> PDone -> rest = map (observe (t_mem s)) (held (t_pc s)) ++ before_stop (flat (t_src s))) /\
     (t_pc s = PDone -> t_cancel s = false -> rest = [])) /\
  (t_closed s = true <-> t_pc s = PDone) /\
  (t_seen_closed s = true -> t_closed s = true /\ t_chan s = []) /\
  (t_seen_closed s = true -> t_cancel s = false -> map (observe (t_mem s)) (t_recv s) = all).

Lemma inv_chan_ok all s : Inv all s -> chan_ok all s.
Proof.
  intros [A B C D E F G H I J]. unfold live in *.
  assert (P1 : exists rest,
     map (observe (t_mem s)) (t_recv s) ++ map (observe (t_mem s)) (t_chan s) ++ rest = all /\
     (t_pc s <> PDone -> rest = map (observe (t_mem s)) (held (t_pc s)) ++ before_stop (flat (t_src s))) /\
     (t_pc s = PDone -> t_cancel s = false -> rest = [])).
  { destruct (t_pc s) eqn:Hpc.
    1,2,3,4: (eexists; split; [|split; [intros _; reflexivity|discriminate]];
      rewrite <- (G ltac:(discriminate)); rewrite !map_app, <- !app_assoc; reflexivity).
    destruct (H eq_refl) as (rest & R1 & R2). exists rest. split; [|split].
    - rewrite <- R1. cbn [held]. rewrite app_nil_r. rewrite !map_app, <- !app_assoc. reflexivity.
    - intros X; exfalso; apply X; reflexivity.
    - intros _. exact R2. }
  split; [exact P1|]. split; [exact I|]. split; [exact J|].
  intros S Nc. destruct (J S) as (Cl & Ch). apply I in Cl.
  destruct P1 as (rest & R1 & _ & R3). rewrite (R3 Cl Nc) in R1. rewrite Ch in R1. cbn [map app] in R1.
  rewrite app_nil_r in R1. exact R1.
Qed.

(* ------------------------------------------------------------------ cancellation *)
Definition CInv (s : st) : Prop :=
  (t_cancel s = false -> t_reads_ac s = 0 /\ t_sends_ac s = 0) /\
  (t_cancel s = true ->
     match t_pc s with
     | PRead => t_reads_ac s = 0 /\ t_sends_ac s = 0
     | PSel _ => t_reads_ac s <= 1 /\ t_sends_ac s = 0
     | _ => t_reads_ac s <= 1 /\ t_sends_ac s <= 1
     end).

Lemma cinv_step c s e : CInv s -> CInv (step dec c s e).
Proof.
  intros HC. pose proof HC as (A & B). destruct e as [b| | |bo]; cbn [step].
  - unfold step_prod. destruct (t_pc s) eqn:Hpc; try exact HC.
    + destruct (t_cancel s) eqn:Hc.
      * unfold close_done, CInv; stfields. rewrite ?Hc. split; [discriminate|]. intros _. apply B. reflexivity.
      * unfold CInv; stfields. rewrite ?Hc. split; [intros _; apply A; reflexivity|discriminate].
    + destruct (next_packet dec (t_cfg s) (t_src s) (t_mem s)) as [[r s1] m1].
      destruct (t_cancel s) eqn:Hc.
      * specialize (B eq_refl). destruct B as (B1 & B2).
        unfold CInv; stfields. rewrite ?Hc, ?B1, ?B2. split; [discriminate|]. intros _.
        destruct r as [p|k]; [|destruct (classify k)]; lia.
      * specialize (A eq_refl). unfold CInv; stfields. rewrite ?Hc. split; [intros _; exact A|discriminate].
    + destruct (t_cancel s) eqn:Hc.
      * specialize (B eq_refl). destruct B as (B1 & B2).
        destruct ((length (t_chan s) <? c) && negb b).
        -- unfold send, CInv; stfields. rewrite ?Hc, ?B2. split; [discriminate|]. intros _. lia.
        -- unfold close_done, CInv; stfields. rewrite ?Hc. split; [discriminate|]. intros _. lia.
      * specialize (A eq_refl). destruct (length (t_chan s) <? c).
        -- unfold send, CInv; stfields. rewrite ?Hc. split; [intros _; exact A|discriminate].
        -- exact HC.
  - unfold step_recv. destruct (t_chan s); [destruct (t_closed s)|]; unfold CInv; stfields; split; assumption.
  - unfold step_cancel, CInv; stfields. split; [discriminate|]. intros _.
    destruct (t_cancel s) eqn:Hc.
    + apply B. reflexivity.
    + destruct (A eq_refl) as (A1 & A2). rewrite A1, A2. destruct (t_pc s); lia.
  - exact HC.
Qed.

Lemma cinv_run c evs : forall s, CInv s -> CInv (run dec c s evs).
Proof. induction evs as [|e evs IH]; intros s H; [exact H|]. cbn [run fold_left]. apply IH, cinv_step, H. Qed.

Lemma cinv_bounds s : CInv s -> t_reads_ac s <= 1 /\ t_sends_ac s <= 1.
Proof.
  intros (A & B). destruct (t_cancel s).
  - specialize (B eq_refl). destruct (t_pc s); lia.
  - destruct (A eq_refl). lia.
Qed.

(* after the cancel the producer is at most three of its own steps from having closed *)
Definition crank (p : pc) : nat := match p with PRead => 3 | PSel _ => 2 | PTop => 1 | _ => 0 end.
Fixpoint count_prod (evs : list ev) : nat :=
  match evs with [] => 0 | EvProd _ :: t => S (count_prod t) | _ :: t => count_prod t end.

Lemma crank_step c s e : t_cancel s = true ->
  t_cancel (step dec c s e) = true /\
  crank (t_pc (step dec c s e)) <= crank (t_pc s) - (match e with EvProd _ => 1 | _ => 0 end).
Proof.
  intros Hc. destruct e as [b| | |bo]; cbn [step].
  - unfold step_prod. destruct (t_pc s) eqn:Hpc; rewrite ?Hc; cbn [crank]; try (rewrite Hpc; cbn [crank]; split; [first [assumption|reflexivity]|lia]).
    + unfold close_done; stfields. cbn [crank]. split; [first [assumption|reflexivity]|lia].
    + destruct (next_packet dec (t_cfg s) (t_src s) (t_mem s)) as [[r s1] m1]. stfields.
      split; [first [assumption|reflexivity]|]. destruct r as [p|k]; [|destruct (classify k)]; cbn [crank]; lia.
    + destruct ((length (t_chan s) <? c) && negb b); unfold send, close_done; stfields; cbn [crank]; split; first [assumption|reflexivity|lia].
  - unfold step_recv. destruct (t_chan s); [destruct (t_closed s)|]; stfields; split; first [assumption|reflexivity|lia].
  - unfold step_cancel; stfields. split; [reflexivity|lia].
  - unfold step_setopt; stfields. split; [assumption|lia].
Qed.

Lemma crank_run c evs : forall s, t_cancel s = true ->
  t_cancel (run dec c s evs) = true /\ crank (t_pc (run dec c s evs)) <= crank (t_pc s) - count_prod evs.
Proof.
  induction evs as [|e evs IH]; intros s Hc; cbn [run fold_left count_prod].
  - split; [assumption|lia].
  - destruct (crank_step c s e Hc) as (C1 & C2). destruct (IH _ C1) as (D1 & D2). fold (run dec c (step dec c s e) evs) in *.
    split; [assumption|]. destruct e; lia.
Qed.

Lemma started_step c s e : t_pc s <> PIdle -> t_pc (step dec c s e) <> PIdle.
Proof.
  intros H. destruct e as [b| | |bo]; cbn [step].
  - unfold step_prod. destruct (t_pc s) eqn:Hpc; try (rewrite Hpc; assumption).
    + destruct (t_cancel s); unfold close_done; stfields; discriminate.
    + destruct (next_packet dec (t_cfg s) (t_src s) (t_mem s)) as [[r s1] m1]. stfields.
      destruct r as [p|k]; [|destruct (classify k)]; discriminate.
    + destruct (t_cancel s); [destruct ((length (t_chan s) <? c) && negb b)|destruct (length (t_chan s) <? c)];
        unfold send, close_done; stfields; try discriminate. rewrite Hpc. discriminate.
  - unfold step_recv. destruct (t_chan s); [destruct (t_closed s)|]; stfields; assumption.
  - exact H.
  - exact H.
Qed.

(* reads and sends after a cancel: potentials *)
Definition reading (p : pc) : nat := match p with PRead => 1 | _ => 0 end.
Definition may_send (p : pc) : nat := match p with PRead | PSel _ => 1 | _ => 0 end.
Definition sent (s : st) : nat := length (t_recv s) + length (t_chan s).

Lemma cancel_pot_step c s e : t_cancel s = true ->
  t_reads (step dec c s e) + reading (t_pc (step dec c s e)) <= t_reads s + reading (t_pc s) /\
  sent (step dec c s e) + may_send (t_pc (step dec c s e)) <= sent s + may_send (t_pc s).
Proof.
  intros Hc. unfold sent. destruct e as [b| | |bo]; cbn [step].
  - unfold step_prod. destruct (t_pc s) eqn:Hpc; rewrite ?Hc; try (rewrite Hpc; lia).
    + unfold close_done; stfields. cbn [reading may_send]. lia.
    + destruct (next_packet dec (t_cfg s) (t_src s) (t_mem s)) as [[r s1] m1]. stfields.
      destruct r as [p|k]; [|destruct (classify k)]; cbn [reading may_send]; lia.
    + destruct ((length (t_chan s) <? c) && negb b); unfold send, close_done; stfields; cbn [reading may_send];
        rewrite ?app_length; cbn [length]; lia.
  - unfold step_recv. destruct (t_chan s) eqn:Hch; [destruct (t_closed s)|]; stfields; rewrite ?Hch, ?app_length; cbn [length]; lia.
  - unfold step_cancel; stfields. lia.
  - unfold step_setopt; stfields. lia.
Qed.

Lemma cancel_pot_run c evs : forall s, t_cancel s = true ->
  t_reads (run dec c s evs) + reading (t_pc (run dec c s evs)) <= t_reads s + reading (t_pc s) /\
  sent (run dec c s evs) + may_send (t_pc (run dec c s evs)) <= sent s + may_send (t_pc s).
Proof.
  induction evs as [|e evs IH]; intros s Hc; cbn [run fold_left]; [lia|].
  destruct (crank_step c s e Hc) as (C1 & _). destruct (cancel_pot_step c s e Hc) as (P1 & P2).
  destruct (IH _ C1) as (Q1 & Q2). fold (run dec c (step dec c s e) evs) in *. lia.
Qed.

(* ------------------------------------------------------------------ progress *)
Lemma src_read_items s m r s' m' : src_read s m = (r, s', m') ->
  items_left s' < items_left s \/ (r = RErr KEof /\ m' = m).
Proof.
  unfold src_read. destruct s as [k hs]; cbn [s_kind s_h].
  assert (X : forall it hs', (match k with SConcat => concat_read hs | _ => plain_read hs end) = (it, hs') ->
     total_items hs' < total_items hs \/ it = IErr KEof).
  { intros it hs' E. destruct k.
    1,2: (destruct hs as [|[|x h] rest]; cbn [plain_read] in E; inversion E; subst; auto; left; cbn; lia).
    destruct (concat_read_spec _ _ _ E) as [(_ & B)|(_ & B & _)]; [left; lia|right; assumption]. }
  destruct (match k with SConcat => concat_read hs | _ => plain_read hs end) as [it hs'] eqn:Er.
  specialize (X _ _ eq_refl). intros E.
  destruct it as [d c|ke].
  - destruct X as [X|X]; [|discriminate X]. left.
    destruct k; [destruct (alloc m d)|destruct (bufwrite m d)|destruct (alloc m d)]; inversion E; subst; exact X.
  - inversion E; subst. destruct X as [X|X]; [left; exact X|right]. inversion X; subst. auto.
Qed.

Definition prod_enabled (c : nat) (s : st) : Prop :=
  match t_pc s with
  | PTop | PRead => True
  | PSel _ => t_cancel s = true \/ length (t_chan s) < c
  | _ => False
  end.

Lemma prod_measure c b s : prod_enabled c s -> measure (step_prod dec c b s) < measure s.
Proof.
  unfold prod_enabled, step_prod, measure. destruct (t_pc s) eqn:Hpc; try contradiction; intros En.
  - destruct (t_cancel s) eqn:Hc; unfold close_done; stfields; rewrite ?Hc; cbn [pc_weight]; lia.
  - unfold next_packet. destruct (src_read (t_src s) (t_mem s)) as [[rr s1] m1] eqn:Er.
    destruct (src_read_items _ _ _ _ _ Er) as [Lt|(Hr & _)].
    + destruct rr as [v ci|k].
      * destruct (new_packet dec (p_nocopy (t_cfg s)) m1 v) as [[m2 pv] tr]. stfields. cbn [pc_weight]. lia.
      * stfields. destruct (classify k); cbn [pc_weight]; lia.
    + subst rr. rewrite classify_eof. stfields. cbn [pc_weight]. lia.
  - assert (Hs : measure (send s p) < measure s).
    { unfold measure, send; stfields. rewrite Hpc. cbn [pc_weight]. rewrite app_length. cbn [length]. lia. }
    assert (Hr : measure (close_done s) < measure s).
    { unfold measure, close_done; stfields. rewrite Hpc. cbn [pc_weight]. lia. }
    unfold measure in Hs, Hr. rewrite Hpc in Hs, Hr.
    destruct (t_cancel s) eqn:Hc.
    + destruct ((length (t_chan s) <? c) && negb b); [exact Hs|exact Hr].
    + destruct En as [En|En]; [discriminate En|]. apply Nat.ltb_lt in En. rewrite En. exact Hs.
Qed.

Lemma st_eta s : s = mkst (t_cfg s) (t_src s) (t_mem s) (t_pc s) (t_chan s) (t_closed s) (t_cancel s) (t_recv s)
  (t_seen_closed s) (t_reads s) (t_reads_ac s) (t_sends_ac s).
Proof. destruct s; reflexivity. Qed.

(* every event either leaves the state alone (not enabled / nothing to do) or decreases the
   measure; an assignment of the option leaves the measure as it is *)
Definition is_opt (e : ev) : bool := match e with EvSetOpt _ => true | _ => false end.

Lemma step_measure c s e : step dec c s e = s \/ measure (step dec c s e) < measure s \/
  (is_opt e = true /\ measure (step dec c s e) = measure s).
Proof.
  destruct e as [b| | |bo]; cbn [step]; [| | |right; right; split; reflexivity];
  match goal with |- ?A \/ ?B \/ _ => cut (A \/ B); [intros [X|X]; auto|] end.
  - destruct (t_pc s) eqn:Hpc.
    + left. unfold step_prod. rewrite Hpc. reflexivity.
    + right. apply prod_measure. unfold prod_enabled. rewrite Hpc. exact Logic.I.
    + right. apply prod_measure. unfold prod_enabled. rewrite Hpc. exact Logic.I.
    + destruct (t_cancel s) eqn:Hc.
      * right. apply prod_measure. unfold prod_enabled. rewrite Hpc. left. first [assumption|reflexivity].
      * destruct (length (t_chan s) <? c) eqn:Hr.
        -- right. apply prod_measure. unfold prod_enabled. rewrite Hpc. right. apply Nat.ltb_lt. exact Hr.
        -- left. unfold step_prod. rewrite Hpc, Hc, Hr. reflexivity.
    + left. unfold step_prod. rewrite Hpc. reflexivity.
  - unfold step_recv. destruct (t_chan s) as [|p rest] eqn:Hch.
    + destruct (t_closed s) eqn:Hcl; [|left; reflexivity].
      destruct (t_seen_closed s) eqn:Hs.
      * left. destruct s; cbn in *; subst; reflexivity.
      * right. unfold measure; stfields. rewrite Hch, Hs. lia.
    + right. unfold measure; stfields. rewrite Hch. cbn [length]. lia.
  - unfold step_cancel. destruct (t_cancel s) eqn:Hc.
    + left. destruct s; cbn in *; subst; reflexivity.
    + right. unfold measure; stfields. rewrite Hc. lia.
Qed.

Lemma run_measure c evs : forall s, measure (run dec c s evs) <= measure s.
Proof.
  induction evs as [|e evs IH]; intros s; cbn [run fold_left]; [lia|].
  specialize (IH (step dec c s e)). fold (run dec c (step dec c s e) evs) in *.
  destruct (step_measure c s e) as [E|[L|(_ & L)]]; [rewrite E in *; exact IH|lia|lia].
Qed.

(* a schedule all of whose events (other than option assignments) do something has no more
   such events than the measure *)
Fixpoint effective (c : nat) (s : st) (evs : list ev) : Prop :=
  match evs with
  | [] => True
  | e :: t => (is_opt e = false -> step dec c s e <> s) /\ effective c (step dec c s e) t
  end.
Definition work (evs : list ev) : nat := length (filter (fun e => negb (is_opt e)) evs).

Lemma effective_bound c evs : forall s, effective c s evs -> work evs + measure (run dec c s evs) <= measure s.
Proof.
  unfold work. induction evs as [|e evs IH]; intros s E; cbn [run fold_left length filter]; [lia|].
  destruct E as (E1 & E2). specialize (IH _ E2). fold (run dec c (step dec c s e) evs) in *.
  destruct (step_measure c s e) as [X|[L|(O & L)]].
  - destruct (is_opt e) eqn:O; cbn [negb length]; [rewrite X in *; lia|contradiction (E1 eq_refl)].
  - destruct (is_opt e); cbn [negb length]; lia.
  - rewrite O. cbn [negb]. lia.
Qed.

(* until the consumer has seen the close, some event does something *)
Lemma no_deadlock all c s : 1 <= c -> Inv all s -> t_seen_closed s = false -> exists e, measure (step dec c s e) < measure s.
Proof.
  intros Hc [A B C D E F G H I J] Hs.
  destruct (t_pc s) eqn:Hpc.
  - contradiction D; reflexivity.
  - exists (EvProd true). apply prod_measure. unfold prod_enabled. rewrite Hpc. exact Logic.I.
  - exists (EvProd true). apply prod_measure. unfold prod_enabled. rewrite Hpc. exact Logic.I.
  - destruct (t_cancel s) eqn:Hcan.
    + exists (EvProd true). apply prod_measure. unfold prod_enabled. rewrite Hpc. left. first [assumption|reflexivity].
    + destruct (length (t_chan s) <? c) eqn:Hr.
      * exists (EvProd true). apply prod_measure. unfold prod_enabled. rewrite Hpc. right. apply Nat.ltb_lt. exact Hr.
      * exists EvRecv. cbn [step]. unfold step_recv. apply Nat.ltb_ge in Hr.
        destruct (t_chan s) as [|q rest] eqn:Hch; [cbn [length] in Hr; lia|].
        unfold measure; stfields. rewrite Hch. cbn [length]. lia.
  - exists EvRecv. cbn [step]. unfold step_recv. assert (Cl : t_closed s = true) by (apply I; reflexivity).
    destruct (t_chan s) as [|q rest] eqn:Hch.
    + rewrite Cl. unfold measure; stfields. rewrite Hch, Hs. lia.
    + unfold measure; stfields. rewrite Hch. cbn [length]. lia.
Qed.

(* hence a complete run exists from every reachable state, of bounded length *)
Lemma terminates all c : 1 <= c -> forall n s, measure s <= n -> Inv all s ->
  exists evs, t_seen_closed (run dec c s evs) = true /\ length evs <= n.
Proof.
  intros Hc. induction n as [|n IH]; intros s Hn HI.
  - destruct (t_seen_closed s) eqn:Hs.
    + exists []. split; [exact Hs|cbn; lia].
    + destruct (no_deadlock all c s Hc HI Hs) as (e & L). lia.
  - destruct (t_seen_closed s) eqn:Hs.
    + exists []. split; [exact Hs|cbn; lia].
    + destruct (no_deadlock all c s Hc HI Hs) as (e & L).
      assert (Se : ev_safe (s_kind (t_src s)) e).
      { destruct e as [b| | |[|]]; try exact Logic.I. exfalso.
        cbn [step] in L. unfold step_setopt, measure in L; cbn in L. lia. }
      destruct (IH (step dec c s e) ltac:(lia) (inv_step all c s e Se HI)) as (evs & R & Len).
      exists (e :: evs). split; [exact R|cbn [length]; lia].
Qed.

(* ------------------------------------------------------------------ immutability, over everything a user can do *)
Inductive act := APull | AStart | AEv (e : ev).
Definition astep (c : nat) (s : st) (a : act) : st :=
  match a with
  | APull => snd (pull dec s)
  | AStart => match packets_ctx s with Ok s' => s' | _ => s end
  | AEv e => step dec c s e
  end.
Definition arun (c : nat) (s : st) (acts : list act) : st := fold_left (astep c) acts s.

Definition MInv (s : st) : Prop := mem_ok (t_mem s) /\ fits (t_src s) (t_mem s).

Lemma astep_mem c s a : MInv s ->
  MInv (astep c s a) /\ mem_ext (t_mem s) (t_mem (astep c s a)) /\ p_zero (t_cfg (astep c s a)) = p_zero (t_cfg s).
Proof.
  intros (A & B).
  assert (Same : forall s', t_mem s' = t_mem s -> t_src s' = t_src s -> p_zero (t_cfg s') = p_zero (t_cfg s) ->
            MInv s' /\ mem_ext (t_mem s) (t_mem s') /\ p_zero (t_cfg s') = p_zero (t_cfg s)).
  { intros s' E1 E2 E3. unfold MInv. rewrite E1, E2. split; [split; assumption|split; [apply mem_ext_refl|exact E3]]. }
  assert (Next : forall r s1 m1 s', next_packet dec (t_cfg s) (t_src s) (t_mem s) = (r, s1, m1) ->
            t_mem s' = m1 -> t_src s' = s1 -> p_zero (t_cfg s') = p_zero (t_cfg s) ->
            MInv s' /\ mem_ext (t_mem s) (t_mem s') /\ p_zero (t_cfg s') = p_zero (t_cfg s)).
  { intros r s1 m1 s' En E1 E2 E3.
    pose proof (next_packet_spec _ _ _ _ _ _ A B En) as R.
    destruct (next_spec_frame _ _ _ _ _ _ B R) as (Hf1 & Hx).
    unfold MInv. rewrite E1, E2. split; [split; [eapply mem_ok_ext; eauto|exact Hf1]|split; [exact Hx|exact E3]]. }
  destruct a as [| |e]; cbn [astep].
  - unfold pull. destruct (next_packet dec (t_cfg s) (t_src s) (t_mem s)) as [[r s1] m1] eqn:En. cbn [snd].
    eapply Next; eauto.
  - unfold packets_ctx. destruct (p_nocopy (t_cfg s) && p_zero (t_cfg s)); [apply Same; reflexivity|].
    destruct (t_pc s); apply Same; reflexivity.
  - destruct e as [b| | |bo]; cbn [step]; [| | |apply Same; reflexivity].
    + unfold step_prod. destruct (t_pc s); try (apply Same; reflexivity).
      * destruct (t_cancel s); apply Same; reflexivity.
      * destruct (next_packet dec (t_cfg s) (t_src s) (t_mem s)) as [[r s1] m1] eqn:En. eapply Next; eauto.
      * destruct (t_cancel s); [destruct ((length (t_chan s) <? c) && negb b)|destruct (length (t_chan s) <? c)];
          apply Same; reflexivity.
    + unfold step_recv. destruct (t_chan s); [destruct (t_closed s)|]; apply Same; reflexivity.
    + apply Same; reflexivity.
Qed.

Lemma arun_mem c acts : forall s, MInv s ->
  MInv (arun c s acts) /\ mem_ext (t_mem s) (t_mem (arun c s acts)) /\ p_zero (t_cfg (arun c s acts)) = p_zero (t_cfg s).
Proof.
  induction acts as [|a acts IH]; intros s M; cbn [arun fold_left].
  - split; [exact M|]. split; [apply mem_ext_refl|reflexivity].
  - destruct (astep_mem c s a M) as (M1 & X1 & C1). destruct (IH _ M1) as (M2 & X2 & C2).
    fold (arun c (astep c s a) acts) in *. split; [exact M2|]. split; [eapply mem_ext_trans; eauto|congruence].
Qed.

Lemma immut_fresh c s v : MInv s -> fresh_ok (t_mem s) v ->
  forall acts, vread (t_mem (arun c s acts)) v = vread (t_mem s) v.
Proof. intros M F acts. destruct (arun_mem c acts s M) as (_ & X & _). apply vread_ext; assumption. Qed.

Lemma immut_pull c s p s1 : MInv s -> safe (t_cfg s) (t_src s) -> pull dec s = (NPkt p, s1) ->
  fresh_ok (t_mem s1) (k_data p) /\ length (t_mem s) <= v_arr (k_data p) /\
  forall acts, vread (t_mem (arun c s1 acts)) (k_data p) = vread (t_mem s1) (k_data p).
Proof.
  intros (A & B) Sf Ep. unfold pull in Ep.
  destruct (next_packet dec (t_cfg s) (t_src s) (t_mem s)) as [[r s0] m0] eqn:En.
  pose proof (next_packet_spec _ _ _ _ _ _ A B En) as R.
  destruct (next_spec_frame _ _ _ _ _ _ B R) as (Hf1 & Hx).
  inversion Ep; subst; clear Ep.
  inversion R; subst.
  match goal with H : safe _ _ -> _ |- _ => destruct (H Sf) as (F1 & F2) end.
  split; [exact F1|]. split; [exact F2|].
  apply immut_fresh; [|exact F1]. split; stfields; [eapply mem_ok_ext; eauto|exact Hf1].
Qed.

Lemma inv_minv all s : Inv all s -> MInv s.
Proof. intros [A B C D E F G H I J]. split; assumption. Qed.

Lemma immut_chan all c s p : Inv all s -> In p (live s) ->
  fresh_ok (t_mem s) (k_data p) /\
  forall acts, vread (t_mem (arun c s acts)) (k_data p) = vread (t_mem s) (k_data p).
Proof.
  intros HI Hin. pose proof HI as [A B C D E F G H I J]. rewrite Forall_forall in E. specialize (E p Hin).
  split; [exact E|]. apply immut_fresh; [apply (inv_minv all); exact HI|exact E].
Qed.

(* with copying decode the configuration is safe whatever the source *)
Lemma copy_safe cfg s : p_nocopy cfg = false -> safe cfg s.
Proof. intros H _. exact H. Qed.

(* ------------------------------------------------------------------ the harness script is one of the schedules *)
Definition reach (c : nat) (s s' : st) : Prop := exists acts, s' = arun c s acts.

Lemma reach_refl c s : reach c s s.
Proof. exists []. reflexivity. Qed.
Lemma reach_trans c s1 s2 s3 : reach c s1 s2 -> reach c s2 s3 -> reach c s1 s3.
Proof. intros (a1 & E1) (a2 & E2). exists (a1 ++ a2). unfold arun in *. rewrite fold_left_app. congruence. Qed.
Lemma reach_one c s a : reach c s (astep c s a).
Proof. exists [a]. reflexivity. Qed.

Lemma quiesce_reach c fuel : forall s tok, reach c s (fst (fst (quiesce dec c fuel s tok))).
Proof.
  induction fuel as [|f IH]; intros s tok; cbn [quiesce]; [apply reach_refl|].
  destruct (t_pc s) eqn:Hpc; cbn [fst]; try apply reach_refl.
  - eapply reach_trans; [apply (reach_one c s (AEv (EvProd true)))|apply IH].
  - destruct tok as [[|k]|]; cbn [fst]; try apply reach_refl;
      (eapply reach_trans; [apply (reach_one c s (AEv (EvProd true)))|apply IH]).
  - destruct (t_cancel s || (length (t_chan s) <? c)); cbn [fst]; [|apply reach_refl].
    eapply reach_trans; [apply (reach_one c s (AEv (EvProd true)))|apply IH].
Qed.

Lemma q_reach c x : reach c (x_t x) (x_t (q dec c x)).
Proof.
  unfold q. pose proof (quiesce_reach c (S (measure (x_t x))) (x_t x) (x_tok x)) as R.
  destruct (quiesce dec c (S (measure (x_t x))) (x_t x) (x_tok x)) as [[s tok] oof]. exact R.
Qed.

Lemma recv_n_reach c n : forall x acc, reach c (x_t x) (x_t (fst (fst (recv_n dec c n x acc)))).
Proof.
  induction n as [|n IH]; intros x acc; cbn [recv_n]; [apply reach_refl|].
  pose proof (q_reach c x) as Q.
  destruct (t_chan (x_t (q dec c x))) as [|p rest] eqn:Hch.
  - destruct (t_closed (x_t (q dec c x))); cbn [fst x_t]; [|exact Q].
    eapply reach_trans; [exact Q|apply (reach_one c _ (AEv EvRecv))].
  - eapply reach_trans; [exact Q|]. eapply reach_trans; [|apply IH]. cbn [x_t]. apply (reach_one c _ (AEv EvRecv)).
Qed.

Lemma sstep_reach c x o : reach c (x_t x) (x_t (fst (sstep dec c x o))).
Proof.
  destruct o; cbn [sstep].
  - destruct (started (x_t x)); [apply reach_refl|].
    pose proof (reach_one c (x_t x) APull) as R. cbn [astep] in R.
    destruct (pull dec (x_t x)) as [r s1]. cbn [snd] in R. destruct r; cbn [fst x_t]; exact R.
  - pose proof (reach_one c (x_t x) AStart) as R. cbn [astep] in R.
    destruct (packets_ctx (x_t x)); cbn [fst x_t]; try apply reach_refl. exact R.
  - pose proof (q_reach c x) as Q. pose proof (reach_one c (x_t (q dec c x)) AStart) as R. cbn [astep] in R.
    destruct (packets_ctx (x_t (q dec c x))); cbn [fst x_t]; try exact Q. eapply reach_trans; eauto.
  - destruct (negb (started (x_t x))); [apply reach_refl|]. cbn [fst].
    eapply reach_trans; [apply q_reach|]. match goal with |- reach _ _ (x_t (q dec c ?y)) => apply (q_reach c y) end.
  - destruct (negb (started (x_t x))); [apply reach_refl|]. cbn [fst].
    eapply reach_trans; [apply q_reach|]. match goal with |- reach _ _ (x_t (q dec c ?y)) => apply (q_reach c y) end.
  - destruct (negb (started (x_t x))); [apply reach_refl|].
    pose proof (recv_n_reach c n x []) as R. destruct (recv_n dec c n x []) as [[x1 ps] cl]. cbn [fst] in *.
    eapply reach_trans; [exact R|apply q_reach].
  - cbn [fst]. eapply reach_trans; [apply q_reach|].
    eapply reach_trans; [apply (reach_one c _ (AEv EvCancel))|].
    match goal with |- reach _ _ (x_t (q dec c ?y)) => apply (q_reach c y) end.
  - destruct (negb (started (x_t x))); [apply reach_refl|].
    match goal with |- context [recv_n dec c ?n ?y []] => pose proof (recv_n_reach c n y []) as R;
      destruct (recv_n dec c n y []) as [[x1 ps] cl] end. cbn [fst x_t] in *.
    eapply reach_trans; [exact R|apply q_reach].
  - destruct (negb (started (x_t x))); [apply reach_refl|].
    match goal with |- context [recv_n dec c n ?y []] => pose proof (recv_n_reach c n y []) as R;
      destruct (recv_n dec c n y []) as [[x1 ps1] cl1] end. cbn [fst x_t] in R.
    match goal with |- context [recv_n dec c ?m ?y []] => pose proof (recv_n_reach c m y []) as R2;
      destruct (recv_n dec c m y []) as [[x3 ps3] cl3] end. cbn [fst x_t] in *.
    eapply reach_trans; [exact R|]. eapply reach_trans; [apply (reach_one c _ (AEv EvCancel))|].
    eapply reach_trans; [exact R2|apply q_reach].
  - cbn [fst x_t]. eapply reach_trans; [apply q_reach|apply (reach_one c _ (AEv (EvSetOpt nocopy)))].
Qed.

Definition sfinal (c : nat) (x : sst) (ops : list sop) : sst := fold_left (fun x o => fst (sstep dec c x o)) ops x.

Lemma sfinal_reach c ops : forall x, reach c (x_t x) (x_t (sfinal c x ops)).
Proof.
  induction ops as [|o ops IH]; intros x; cbn [sfinal fold_left]; [apply reach_refl|].
  eapply reach_trans; [apply sstep_reach|apply IH].
Qed.

(* the fuel given to quiesce is enough *)
Lemma quiesce_fuel c fuel : forall s tok, measure s < fuel -> snd (quiesce dec c fuel s tok) = false.
Proof.
  induction fuel as [|f IH]; intros s tok L; [lia|]. cbn [quiesce].
  destruct (t_pc s) eqn:Hpc; cbn [snd]; try reflexivity.
  - apply IH. assert (X := prod_measure c true s). unfold prod_enabled in X. rewrite Hpc in X. specialize (X Logic.I). lia.
  - assert (X := prod_measure c true s). unfold prod_enabled in X. rewrite Hpc in X. specialize (X Logic.I).
    destruct tok as [[|k]|]; cbn [snd]; try reflexivity; apply IH; lia.
  - destruct (t_cancel s || (length (t_chan s) <? c)) eqn:Hen; cbn [snd]; [|reflexivity].
    apply IH. assert (X := prod_measure c true s). unfold prod_enabled in X. rewrite Hpc in X.
    apply orb_true_iff in Hen. rewrite Nat.ltb_lt in Hen. specialize (X Hen). lia.
Qed.

(* a cancel may come before PacketsCtx *)
Lemma pre_cancel s : PreStart s -> PreStart (step_cancel s).
Proof. intros [A B C D E F G G1 G2]. constructor; unfold step_cancel; stfields; assumption. Qed.

Lemma cinv_start s s1 : PreStart s -> packets_ctx s = Ok s1 -> CInv s1.
Proof.
  intros [A B C D E F G G1 G2] Ep. unfold packets_ctx in Ep.
  destruct (p_nocopy (t_cfg s) && p_zero (t_cfg s)); [discriminate Ep|].
  rewrite C in Ep. inversion Ep; subst; clear Ep. unfold set_pc, CInv; stfields. rewrite G1, G2. split; intros _; lia.
Qed.

Lemma start_pc s s1 : PreStart s -> packets_ctx s = Ok s1 -> t_pc s1 = PTop /\ t_closed s1 = false.
Proof.
  intros [A B C D E F G G1 G2] Ep. unfold packets_ctx in Ep.
  destruct (p_nocopy (t_cfg s) && p_zero (t_cfg s)); [discriminate Ep|].
  rewrite C in Ep. inversion Ep; subst; clear Ep. unfold set_pc; stfields. split; [reflexivity|exact F].
Qed.

(* the deferred close *)
Definition ClInv (s : st) : Prop := t_pc s = PDone -> t_closed s = true.

Lemma clinv_step c s e : ClInv s -> ClInv (step dec c s e).
Proof.
  intros H. destruct e as [b| | |bo]; cbn [step].
  - unfold step_prod. destruct (t_pc s) eqn:Hpc; try exact H.
    + destruct (t_cancel s); unfold close_done, ClInv; stfields; [reflexivity|discriminate].
    + destruct (next_packet dec (t_cfg s) (t_src s) (t_mem s)) as [[r s1] m1]. unfold ClInv; stfields.
      destruct r as [p|k]; [discriminate|destruct (classify k); try discriminate; reflexivity].
    + destruct (t_cancel s); [destruct ((length (t_chan s) <? c) && negb b)|destruct (length (t_chan s) <? c)];
        unfold send, close_done, ClInv; stfields; try discriminate; try reflexivity. exact H.
  - unfold step_recv. destruct (t_chan s); [destruct (t_closed s)|]; unfold ClInv in *; stfields; first [exact H|intros; reflexivity].
  - exact H.
  - exact H.
Qed.

Lemma clinv_run c evs : forall s, ClInv s -> ClInv (run dec c s evs).
Proof. induction evs as [|e evs IH]; intros s H; [exact H|]. cbn [run fold_left]. apply IH, clinv_step, H. Qed.

Lemma started_run c evs : forall s, t_pc s <> PIdle -> t_pc (run dec c s evs) <> PIdle.
Proof. induction evs as [|e evs IH]; intros s H; [exact H|]. cbn [run fold_left]. apply IH, started_step, H. Qed.

(* everything C16_cancel says, about the run after a cancel *)
Lemma cancel_summary c s evs : CInv s -> ClInv s -> t_pc s <> PIdle ->
  let sc := step_cancel s in
  let s' := run dec c sc evs in
  t_reads s' <= t_reads sc + reading (t_pc sc) /\
  sent s' <= sent sc + 1 /\
  (3 <= count_prod evs -> t_pc s' = PDone /\ t_closed s' = true) /\
  t_reads_ac s' <= 1 /\ t_sends_ac s' <= 1.
Proof.
  intros HC HL HS sc s'.
  assert (Hc : t_cancel sc = true) by reflexivity.
  destruct (cancel_pot_run c evs sc Hc) as (P1 & P2). fold s' in P1, P2.
  destruct (crank_run c evs sc Hc) as (_ & R). fold s' in R.
  assert (HCs : CInv s') by (apply cinv_run; apply (cinv_step c s EvCancel); exact HC).
  assert (HLs : ClInv s') by (apply clinv_run; apply (clinv_step c s EvCancel); exact HL).
  assert (HSs : t_pc s' <> PIdle) by (apply started_run; exact HS).
  split; [lia|]. split; [destruct (t_pc sc); cbn [may_send] in P2; lia|]. split; [|apply cinv_bounds; exact HCs].
  intros N. assert (Z : crank (t_pc s') = 0). { destruct (t_pc sc); cbn [crank] in R; lia. }
  assert (PD : t_pc s' = PDone). { destruct (t_pc s'); cbn [crank] in Z; try lia; [contradiction HSs; reflexivity|reflexivity]. }
  split; [exact PD|apply HLs; exact PD].
Qed.

(* ------------------------------------------------------------------ options changed mid-stream
   Without any assumption on the option assignments: every live packet's view lies inside the
   memory, and those not on the source's buffer (array 0) are immutable for ever.  A packet
   decoded while NoCopy was false is never on array 0. *)
Record WInv (s : st) : Prop := mkWInv {
  W_mem : mem_ok (t_mem s);
  W_fits : fits (t_src s) (t_mem s);
  W_live : Forall (fun p => v_arr (k_data p) < length (t_mem s)) (live s)
}.

Lemma winv_weaken m m' l : mem_ext m m' -> Forall (fun p : packet => v_arr (k_data p) < length m) l ->
  Forall (fun p : packet => v_arr (k_data p) < length m') l.
Proof. intros (L & _) F. eapply Forall_impl; [|exact F]. cbn. intros p Hp. lia. Qed.

Lemma winv_step c s e : WInv s -> WInv (step dec c s e).
Proof.
  intros HW. pose proof HW as [A B L]. unfold live in L.
  destruct e as [b| | |bo]; cbn [step].
  - unfold step_prod. destruct (t_pc s) eqn:Hpc; try exact HW.
    + destruct (t_cancel s); constructor; unfold live, close_done; stfields; cbn [held]; cbn [held] in L; assumption.
    + destruct (next_packet dec (t_cfg s) (t_src s) (t_mem s)) as [[r s1] m1] eqn:En.
      pose proof (next_packet_spec _ _ _ _ _ _ A B En) as R.
      destruct (next_spec_frame _ _ _ _ _ _ B R) as (Hf1 & Hx).
      cbn [held] in L. rewrite app_nil_r in L.
      constructor; unfold live; stfields; [eapply mem_ok_ext; eauto|exact Hf1|].
      destruct R as [Hfl s1 Hfl' Hkd | ke rest s1 Hfl Hfl' Hkd Hlt | d ci rest s1 m1 p Hfl Hfl' Hkd Hlt Hext Hobs Hsafe Hbnd].
      * rewrite classify_eof. cbn [held]. rewrite app_nil_r. exact L.
      * destruct (classify ke); cbn [held]; rewrite app_nil_r; exact L.
      * cbn [held]. rewrite app_assoc. apply Forall_app. split; [eapply winv_weaken; eauto|].
        constructor; [exact Hbnd|constructor].
    + cbn [held] in L.
      assert (Hs : WInv (send s p)).
      { constructor; unfold live, send; stfields; cbn [held]; try assumption.
        rewrite app_nil_r. exact L. }
      assert (Hr : WInv (close_done s)).
      { constructor; unfold live, close_done; stfields; cbn [held]; try assumption.
        rewrite app_nil_r. rewrite app_assoc in L. apply Forall_app in L. destruct L as (L1 & _). exact L1. }
      destruct (t_cancel s); [destruct ((length (t_chan s) <? c) && negb b)|destruct (length (t_chan s) <? c)];
        try exact Hs; try exact Hr. exact HW.
  - unfold step_recv. destruct (t_chan s) as [|q0 rest] eqn:Hch; [destruct (t_closed s); [|exact HW]|].
    + constructor; unfold live; stfields; try assumption.
    + constructor; unfold live; stfields; try assumption; try (rewrite <- app_assoc; exact L).
  - constructor; unfold live, step_cancel; stfields; assumption.
  - constructor; unfold live, step_setopt; stfields; assumption.
Qed.

Lemma winv_run c evs : forall s, WInv s -> WInv (run dec c s evs).
Proof. induction evs as [|e evs IH]; intros s H; [exact H|]. cbn [run fold_left]. apply IH, winv_step, H. Qed.

Lemma winv_start s s1 : PreStart s -> packets_ctx s = Ok s1 -> WInv s1.
Proof.
  intros [A B C D E F G G1 G2] Ep. unfold packets_ctx in Ep.
  destruct (p_nocopy (t_cfg s) && p_zero (t_cfg s)); [discriminate Ep|].
  rewrite C in Ep. inversion Ep; subst; clear Ep. constructor; unfold live, set_pc; stfields; try assumption.
  rewrite D, E. constructor.
Qed.

(* live packets off the buffer never change, whatever is done to the options *)
Lemma winv_immut c s p : WInv s -> In p (live s) -> v_arr (k_data p) <> 0 ->
  forall acts, vread (t_mem (arun c s acts)) (k_data p) = vread (t_mem s) (k_data p).
Proof.
  intros [A B L] Hin Nz. rewrite Forall_forall in L. specialize (L p Hin).
  apply immut_fresh; [split; assumption|]. unfold fresh_ok. lia.
Qed.

(* a read performed while NoCopy is false yields a packet off the buffer *)
Lemma read_copy_fresh c b s : WInv s -> t_pc s = PRead -> p_nocopy (t_cfg s) = false ->
  forall p, t_pc (step_prod dec c b s) = PSel p ->
  fresh_ok (t_mem (step_prod dec c b s)) (k_data p) /\ length (t_mem s) <= v_arr (k_data p).
Proof.
  intros [A B L] Hpc Nc p. unfold step_prod. rewrite Hpc.
  destruct (next_packet dec (t_cfg s) (t_src s) (t_mem s)) as [[r s1] m1] eqn:En.
  pose proof (next_packet_spec _ _ _ _ _ _ A B En) as R. stfields.
  destruct R as [Hfl s1 Hfl' Hkd | ke rest s1 Hfl Hfl' Hkd Hlt | d ci rest s1 m1 p0 Hfl Hfl' Hkd Hlt Hext Hobs Hsafe Hbnd].
  - rewrite classify_eof. discriminate.
  - destruct (classify ke); discriminate.
  - intros E. inversion E; subst. apply Hsafe. apply copy_safe. exact Nc.
Qed.

(* the zero-copy flag is set at construction and never changes *)
Lemma zero_flag_run c acts : forall s, p_zero (t_cfg (arun c s acts)) = p_zero (t_cfg s).
Proof.
  induction acts as [|a acts IH]; intros s; cbn [arun fold_left]; [reflexivity|].
  fold (arun c (astep c s a) acts). rewrite IH. clear IH.
  destruct a as [| |e]; cbn [astep].
  - unfold pull. destruct (next_packet dec (t_cfg s) (t_src s) (t_mem s)) as [[r s1] m1]. reflexivity.
  - unfold packets_ctx. destruct (p_nocopy (t_cfg s) && p_zero (t_cfg s)); [reflexivity|]. destruct (t_pc s); reflexivity.
  - destruct e as [b| | |bo]; cbn [step]; try reflexivity.
    + unfold step_prod. destruct (t_pc s); try reflexivity.
      * destruct (t_cancel s); reflexivity.
      * destruct (next_packet dec (t_cfg s) (t_src s) (t_mem s)) as [[r s1] m1]. reflexivity.
      * destruct (t_cancel s); [destruct ((length (t_chan s) <? c) && negb b)|destruct (length (t_chan s) <? c)]; reflexivity.
    + unfold step_recv. destruct (t_chan s); [destruct (t_closed s)|]; reflexivity.
Qed.

Lemma start_src s s1 : packets_ctx s = Ok s1 -> s_kind (t_src s1) = s_kind (t_src s).
Proof.
  unfold packets_ctx. destruct (p_nocopy (t_cfg s) && p_zero (t_cfg s)); [discriminate|].
  destruct (t_pc s); intros E; inversion E; reflexivity.
Qed.

Lemma arun_events c evs : forall s, arun c s (map AEv evs) = run dec c s evs.
Proof. induction evs as [|e evs IH]; intros s; [reflexivity|]. cbn [map arun fold_left run]. apply IH. Qed.

End WithDecoder.

(* ------------------------------------------------------------------ the guard *)
Lemma guard_refuses s : p_zero (t_cfg s) = true -> p_nocopy (t_cfg s) = true -> packets_ctx s = Panic 1%Z.
Proof. intros Z N. unfold packets_ctx. rewrite Z, N. reflexivity. Qed.

Lemma guard_accepts s : p_zero (t_cfg s) = false \/ p_nocopy (t_cfg s) = false -> exists s', packets_ctx s = Ok s'.
Proof.
  intros H. unfold packets_ctx.
  assert (E : p_nocopy (t_cfg s) && p_zero (t_cfg s) = false) by (destruct H as [H|H]; rewrite H; [apply andb_false_r|reflexivity]).
  rewrite E. destruct (t_pc s); eexists; reflexivity.
Qed.
