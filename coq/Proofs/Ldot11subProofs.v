(* Ldot11data / Ldot11ctrl — proofs about the sub-layer model *)
From GP Require Import Base Codec MiscLib Ldot11Model Ldot11subModel.
Open Scope Z_scope.

Theorem sb_decode_no_panic k old data : is_panic (snd (fst (sb_decode_into k old data))) = false.
Proof. destruct k; reflexivity. Qed.

(* what a history of decodes leaves unassigned is still nil *)
Definition sb_inv (k : sbkind) (s : sub) : Prop :=
  match k with KContents => sb_payload s = [] | KPayload => sb_contents s = [] | KBase => True end.

Lemma sb_hist_inv k : forall hist s, sb_inv k s -> sb_inv k (fold_left (fun st d => fst (fst (sb_decode_into k st d))) hist s).
Proof. induction hist as [|d t IH]; intros s H; [exact H|]. cbn [fold_left]. apply IH. destruct k; cbn in *; auto. Qed.

Theorem sb_decode_fresh k hist data :
  sb_decode_into k (fold_left (fun st d => fst (fst (sb_decode_into k st d))) hist sb_fresh) data = sb_decode_into k sb_fresh data.
Proof.
  pose proof (sb_hist_inv k hist sb_fresh) as H. set (s := fold_left _ hist sb_fresh) in *.
  assert (I : sb_inv k s) by (apply H; destruct k; reflexivity).
  destruct k; cbn in *; rewrite ?I; reflexivity.
Qed.
