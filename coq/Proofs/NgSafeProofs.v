(* The pcapng reader of NgModel, for every stream: no panic, fuel suffices, allocations bounded by
   what the stream declares, returned packets well shaped.  Function by function in the wp calculus. *)
From GP Require Import Base NgModel NgIoProofs NgWp.
From Coq Require Import Lia ZifyBool ZifyNat.
Open Scope Z_scope.

Definition iface_ok (i : iface) : Prop := if_mask i <> 0 /\ if_down i <> 0 /\ 0 <= if_snap i.
Definition Inv (s : rst) : Prop := Forall iface_ok (r_ifaces s).
Definition same_if (s s' : rst) : Prop :=
  r_ifaces s' = r_ifaces s /\ r_ci s' = r_ci s /\ r_pcap s' = r_pcap s /\ r_link s' = r_link s /\ r_first s' = r_first s.

Ltac sim := cbn [r_ifaces r_ci r_blen r_ocode r_oval r_ocap r_big r_btyp r_link r_first r_pcap r_ancil r_names
                 set_block set_blen set_opt set_ifaces set_link set_section set_ci set_ancil set_pcap set_names
                 fst snd ci_if ci_cap ci_len ci_ts] in *.

Lemma wp_sget s n (Q : rst -> rst -> Z -> Prop) : Q s s n -> wp (sget s) n Q.
Proof. intros H; exact H. Qed.
Lemma wp_sret {A} (a : A) s n (Q : A -> rst -> Z -> Prop) : Q a s n -> wp (sret a s) n Q.
Proof. intros H; exact H. Qed.
Lemma wp_smod f s n (Q : unit -> rst -> Z -> Prop) : Q tt (f s) n -> wp (smod f s) n Q.
Proof. intros H; exact H. Qed.
Lemma wp_sub_blen k s n (Q : unit -> rst -> Z -> Prop) : Q tt (set_blen s (u32 (r_blen s - k))) n -> wp (sub_blen k s) n Q.
Proof. intros H; exact H. Qed.
Lemma wp_sfail {A} c s n (Q : A -> rst -> Z -> Prop) : c = 3 \/ c = 7 -> wp (sfail c s) n Q.
Proof. intros H; exact H. Qed.

Ltac wps :=
  repeat first
  [ progress cbv beta
  | match goal with
    | |- wp (sbind _ _ _) _ _ => apply wp_bind
    | |- wp (sget _) _ _ => apply wp_sget
    | |- wp (sret _ _) _ _ => apply wp_sret
    | |- wp (smod _ _) _ _ => apply wp_smod
    | |- wp (sub_blen _ _) _ _ => apply wp_sub_blen
    | |- wp (sfail _ _) _ _ => apply wp_sfail; lia
    | |- wp (s_rd _ _) _ _ => apply wp_s_rd; intros ? ? ?
    | |- wp (s_disc _ _) _ _ => apply wp_s_disc; intros ? ?
    | |- wp (s_wrap _ _) _ _ => unfold s_wrap
    | |- wp (Ret _) _ _ => progress cbn [wpe errcls fst snd]
    | |- wp ((if ?b then _ else _) _) _ _ => destruct b eqn:?
    end ].

Ltac okall := repeat match goal with
  | H : rd_ok _ _ _ _ |- _ => destruct H as (? & [(? & ? & ?)|(? & ? & ? & ?)])
  | H : disc_ok _ _ _ |- _ => destruct H as [(? & ?)|(? & ? & ?)]
  end; subst.
Ltac fin := okall; unfold same_if; sim; repeat split; auto; try lia.

Ltac use L := eapply wp_mono; [| eapply L]; cbv beta.

Lemma same_if_refl s : same_if s s. Proof. unfold same_if; auto. Qed.
Lemma same_if_trans a b c : same_if a b -> same_if b c -> same_if a c.
Proof. unfold same_if. intros (H1 & H2 & H3 & H3a & H3b) (H4 & H5 & H6 & H6a & H6b). repeat split; congruence. Qed.
Lemma same_if_inv a b : same_if a b -> Inv a -> Inv b.
Proof. unfold same_if, Inv. intros (H & _) I. rewrite H. exact I. Qed.

Ltac rdok H := let Hb := fresh "Hb" in destruct H as (Hb & [(? & ? & ?)|(? & ? & ? & ?)]); [try lia|]; subst.
Ltac dok H := destruct H as [(? & ?)|(? & ? & ?)]; subst.

(* ---- bytes to numbers *)
Lemma le_val_bound l : bytes_ok l -> 0 <= le_val l < 256 ^ zlen l.
Proof.
  induction l as [|b t IH]; intros H. { cbn. lia. }
  inversion H as [|? ? Hb Ht]; subst. specialize (IH Ht). cbn [le_val]. unfold byte_ok in Hb.
  replace (zlen (b :: t)) with (zlen t + 1) by (unfold zlen; cbn [length]; lia).
  rewrite Z.pow_add_r by (unfold zlen; lia). lia.
Qed.

Lemma be_val_acc l : forall acc, bytes_ok l -> 0 <= acc ->
  acc * 256 ^ zlen l <= fold_left (fun a b => a * 256 + b) l acc < (acc + 1) * 256 ^ zlen l.
Proof.
  induction l as [|b t IH]; intros acc H Ha. { cbn. lia. }
  inversion H as [|? ? Hb Ht]; subst. cbn [fold_left]. unfold byte_ok in Hb.
  specialize (IH (acc * 256 + b) Ht ltac:(lia)).
  replace (zlen (b :: t)) with (zlen t + 1) by (unfold zlen; cbn [length]; lia).
  rewrite Z.pow_add_r by (unfold zlen; lia).
  assert (0 < 256 ^ zlen t) by (apply Z.pow_pos_nonneg; unfold zlen; lia). nia.
Qed.

Lemma getu_bound b l : bytes_ok l -> 0 <= getu b l < 256 ^ zlen l.
Proof.
  intros H. unfold getu. destruct b; [|apply le_val_bound; exact H].
  unfold be_val. pose proof (be_val_acc l 0 H ltac:(lia)). lia.
Qed.

Lemma sl_ok l a b : bytes_ok l -> bytes_ok (sl l a b).
Proof. intros H. unfold sl. apply Forall_firstn, Forall_skipn, H. Qed.
Lemma sl_len l a b : zlen (sl l a b) <= Z.of_nat (b - a).
Proof. unfold sl, zlen. rewrite firstn_length. lia. Qed.

Lemma getu_sl_bound big l a b : bytes_ok l -> 0 <= getu big (sl l a b) < 256 ^ Z.of_nat (b - a).
Proof.
  intros H. pose proof (getu_bound big (sl l a b) (sl_ok l a b H)) as G. pose proof (sl_len l a b) as L.
  assert (256 ^ zlen (sl l a b) <= 256 ^ Z.of_nat (b - a)) as P by (apply Z.pow_le_mono_r; [lia|unfold zlen in *; lia]).
  revert G P. generalize (256 ^ zlen (sl l a b)) (256 ^ Z.of_nat (b - a)) (getu big (sl l a b)). intros; lia.
Qed.

Lemma getu_u16 big l : bytes_ok l -> 0 <= getu big (sl l 2 4) < 65536.
Proof. intros H. pose proof (getu_sl_bound big l 2 4 H) as G. change (256 ^ Z.of_nat (4 - 2)) with 65536 in G. exact G. Qed.
Lemma getu_u32 big l a : bytes_ok l -> 0 <= getu big (sl l a (a + 4)) < 4294967296.
Proof.
  intros H. pose proof (getu_sl_bound big l a (a + 4) H) as G.
  replace (a + 4 - a)%nat with 4%nat in G by lia. change (256 ^ Z.of_nat 4) with 4294967296 in G. exact G.
Qed.

(* ---- readBlock *)
Lemma readBlock_ok s n : 0 <= n ->
  wp (readBlock s) n (fun _ s' n' => same_if s s' /\ 0 <= n' <= n - 8).
Proof.
  intros Hn. unfold readBlock. cbn [wpe]. split.
  - intros bs n' R. rdok R.
    destruct (_ =? BT_SHB).
    + cbn [wpe]. split.
      * intros m n'' R. rdok R.
        destruct (be_val m =? BOM); [cbn [wpe errcls fst snd]; unfold same_if; sim; repeat split; lia|].
        destruct (le_val m =? BOM); cbn [wpe errcls fst snd]; [unfold same_if; sim; repeat split; lia|lia].
      * intros m st Hst. destruct st; [congruence| |]; cbn [wpe errcls fst snd err_of]; lia.
    + cbn [wpe errcls fst snd]. unfold same_if; sim. repeat split; lia.
  - intros bs st Hst. destruct st; [congruence| |]; cbn [wpe errcls fst snd]; [destruct bs; lia|lia].
Qed.

(* ---- readOption *)
Lemma readOption_ok s n : 0 <= n ->
  wp (readOption s) n (fun _ s' n' => same_if s s' /\ 0 <= n' <= n /\ (r_ocode s' = 0 \/ n' <= n - 4)).
Proof.
  intros Hn. unfold readOption. wps; try solve [fin].
  all: apply wp_s_alloc; [|wps; solve [fin]].
  all: left; okall; try lia; sim;
    match goal with Hb : bytes_ok ?bs |- context [getu ?b (sl ?bs 2 4)] =>
      pose proof (getu_u16 b bs Hb); lia end.
Qed.

(* ---- option loops *)
Ltac rec_same IH s1 :=
  use IH; [intros ? ? ? (? & ?); split; [eapply same_if_trans; eauto|lia] | lia].

Lemma shb_opts_ok : forall fuel sec s n, 0 <= n < Z.of_nat fuel ->
  wp (shb_opts fuel sec s) n (fun _ s' n' => same_if s s' /\ 0 <= n' <= n).
Proof.
  induction fuel as [|f IH]; intros sec s n Hn; [lia|].
  cbn [shb_opts]. apply wp_bind. use readOption_ok; [|lia].
  intros _ s1 n1 (S1 & B1 & D1). wps; try (split; [assumption|lia]); rec_same IH s1.
Qed.

Lemma idb_opts_ok : forall fuel i s n, 0 <= n < Z.of_nat fuel ->
  wp (idb_opts fuel i s) n (fun _ s' n' => same_if s s' /\ 0 <= n' <= n).
Proof.
  induction fuel as [|f IH]; intros i s n Hn; [lia|].
  cbn [idb_opts]. apply wp_bind. use readOption_ok; [|lia].
  intros _ s1 n1 (S1 & B1 & D1). wps; try (split; [assumption|lia]); try (rec_same IH s1).
  all: destruct (r_oval s1); wps; rec_same IH s1.
Qed.

Lemma pkt_opts_ok : forall fuel o s n, 0 <= n < Z.of_nat fuel ->
  wp (pkt_opts fuel o s) n (fun _ s' n' => same_if s s' /\ 0 <= n' <= n).
Proof.
  induction fuel as [|f IH]; intros o s n Hn; [lia|].
  cbn [pkt_opts]. apply wp_bind. use readOption_ok; [|lia].
  intros _ s1 n1 (S1 & B1 & D1). wps; try (split; [assumption|lia]); try (rec_same IH s1).
  all: destruct (r_oval s1); wps; rec_same IH s1.
Qed.

(* ---- readInterfaceDescriptor: the appended interface has a non-zero divisor and scale *)
Lemma pow_pos_nz b e : 0 < b -> 0 <= e -> b ^ e <> 0.
Proof. intros. pose proof (Z.pow_pos_nonneg b e). lia. Qed.

Lemma mask_nz res : (if 128 <=? res then 2 ^ (res mod 128) else 10 ^ (res mod 128)) <> 0.
Proof. destruct (128 <=? res); apply pow_pos_nz; try lia; apply Z.mod_pos_bound; lia. Qed.

Lemma Inv_app s i : Inv s -> iface_ok i -> Forall iface_ok (r_ifaces s ++ [i]).
Proof. intros H Hi. apply Forall_app. split; [exact H|constructor; [exact Hi|constructor]]. Qed.

Lemma idb_opts_snap : forall fuel i s n, 0 <= n < Z.of_nat fuel -> 0 <= if_snap i ->
  wp (idb_opts fuel i s) n (fun i' _ _ => 0 <= if_snap i').
Proof.
  induction fuel as [|f IH]; intros i s n Hn Hs; [lia|].
  cbn [idb_opts]. apply wp_bind. use readOption_ok; [|lia].
  intros _ s1 n1 (S1 & B1 & D1). wps; try assumption; try (use IH; [auto | lia | assumption]).
  all: destruct (r_oval s1); wps; use IH; [auto | lia | assumption].
Qed.

Lemma wpe_and {A} (p : io (rst * outcome A)) : forall e n (Q1 Q2 : A -> rst -> Z -> Prop),
  wpe p e n Q1 -> wpe p e n Q2 -> wpe p e n (fun a s n' => Q1 a s n' /\ Q2 a s n').
Proof.
  induction p as [r|k cont IH|k cont IH|cont IH|cont IH|a sn bl k IH]; intros e n Q1 Q2; cbn [wpe].
  - destruct (snd r); auto.
  - intros [A1 A2] [B1 B2]; split; intros; [apply IH; auto|auto].
  - intros [A1 A2] [B1 B2]; split; intros; [apply IH; auto|auto].
  - intros [A1 A2] [B1 B2]; split; intros; [apply IH; auto|auto].
  - intros [A1 A2] [B1 B2]; split; intros; [apply IH; auto|auto].
  - intros [A0 A1] [B0 B1]. split; auto.
Qed.
Lemma wp_and {A} (p : io (rst * outcome A)) n (Q1 Q2 : A -> rst -> Z -> Prop) :
  wp p n Q1 -> wp p n Q2 -> wp p n (fun a s n' => Q1 a s n' /\ Q2 a s n').
Proof. apply wpe_and. Qed.

Lemma readIDB_ok F s n : 0 <= n < Z.of_nat F -> Inv s ->
  wp (readIDB F s) n (fun _ s' n' => Inv s' /\ r_ifaces s' <> [] /\ r_ci s' = r_ci s /\ r_link s' = r_link s /\ r_first s' = r_first s /\ 0 <= n' <= n - 8).
Proof.
  intros Hn HI. unfold readIDB. wps. okall; [lia|].
  sim. eapply wp_mono; [| apply wp_and; [apply idb_opts_ok; lia | apply idb_opts_snap; [lia|]]];
    [| cbn [if_snap]; match goal with Hb : bytes_ok ?b |- 0 <= getu ?g (sl ?b 4 8) =>
         pose proof (getu_u32 g b 4 Hb) as G; cbn [Nat.add] in G; lia end].
  cbv beta. intros i s1 n1 (((S1 & S2 & S3 & S4 & S5) & B1) & Hsnap). wps.
  all: okall.
  1,2: exfalso; match goal with H : (_ =? 0) = true |- _ => apply Z.eqb_eq in H; exact (mask_nz _ H) end.
  all: unfold Inv in *; sim; rewrite S1; sim.
  all: (split; [apply Inv_app; [exact HI|]|]).
  1,3: unfold iface_ok; cbn [if_mask if_down if_snap set_if_scale]; (split; [apply mask_nz|split]);
       [match goal with |- (if ?m <? E9 then 1 else _) <> 0 =>
         destruct (m <? E9) eqn:EE; [lia|]; assert (0 < m / E9) by (apply Z.div_str_pos; unfold E9 in *; lia); lia end
       | exact Hsnap].
  all: repeat split; try congruence; try lia; intros E; apply app_eq_nil in E; destruct E; discriminate.
Qed.

(* ---- convertTime never divides by zero on an interface of the list *)
Lemma convert_time_ok i ts : iface_ok i -> exists t, convert_time i ts = Ok t.
Proof.
  intros (Hm & Hd & _). unfold convert_time.
  destruct (if_mask i =? 0) eqn:E1; [lia|]. destruct (if_down i =? 0) eqn:E2; [lia|]. eauto.
Qed.

Lemma wp_convert i ts s n (Q : Z * Z -> rst -> Z -> Prop) :
  iface_ok i -> (forall t, Q t s n) -> wp (slift (convert_time i ts) s) n Q.
Proof. intros Hi HQ. destruct (convert_time_ok i ts Hi) as [t ->]. cbn. apply HQ. Qed.

Lemma Forall_upd {X} (P : X -> Prop) l k v : Forall P l -> P v -> Forall P (upd l k v).
Proof.
  revert k; induction l as [|h t IH]; intros k Hl Hv; cbn; auto.
  inversion Hl; subst. destruct k; constructor; auto.
Qed.
Lemma Forall_nth_error {X} (P : X -> Prop) l k v : Forall P l -> nth_error l k = Some v -> P v.
Proof. intros H E. rewrite Forall_forall in H. apply H. eapply nth_error_In; eauto. Qed.

Lemma put_stats_ok id st s n (Q : unit -> rst -> Z -> Prop) :
  Inv s -> (forall s', Inv s' -> r_blen s' = r_blen s -> Q tt s' n) -> wp (put_stats id st s) n Q.
Proof.
  intros HI HQ. unfold put_stats, smod. cbn [wpe errcls fst snd]. apply HQ.
  - destruct (nth_error (r_ifaces s) (Z.to_nat id)) eqn:E; [|exact HI].
    unfold Inv; sim. apply Forall_upd; [exact HI|].
    pose proof (Forall_nth_error _ _ _ _ HI E) as (A & B & C). repeat split; assumption.
  - destruct (nth_error (r_ifaces s) (Z.to_nat id)); reflexivity.
Qed.

Global Opaque put_stats.

Lemma isb_opts_ok : forall fuel id i st s n, 0 <= n < Z.of_nat fuel -> Inv s -> iface_ok i ->
  wp (isb_opts fuel id i st s) n (fun _ s' n' => Inv s' /\ 0 <= n' <= n).
Proof.
  induction fuel as [|f IH]; intros id i st s n Hn HI Hi; [lia|].
  cbn [isb_opts]. apply wp_bind. use readOption_ok; [|lia].
  intros _ s1 n1 (S1 & B1 & D1). pose proof (same_if_inv _ _ S1 HI) as HI1.
  wps; try (split; [assumption|lia]).
  all: try (apply wp_convert; [exact Hi|intros t; wps]).
  all: try (apply put_stats_ok; [assumption|intros s2 HI2 _; wps]).
  all: use IH; try assumption; try lia; intros ? ? ? (? & ?); split; [assumption|lia].
Qed.

Lemma readISB_ok F s n : 0 <= n < Z.of_nat F -> Inv s ->
  wp (readISB F s) n (fun _ s' n' => Inv s' /\ 0 <= n' <= n - 12).
Proof.
  intros Hn HI. unfold readISB. wps. okall; [lia|]. sim.
  destruct (nth_error (r_ifaces s) _) as [i|] eqn:E.
  - assert (iface_ok i) as Hi by (eapply Forall_nth_error; [exact HI|exact E]).
    wps. apply wp_convert; [exact Hi|intros t]. wps.
    apply put_stats_ok; [exact HI|intros s2 HI2 _]. wps.
    use isb_opts_ok; try assumption; try lia.
    intros _ s3 n3 (HI3 & B3). wps. okall; (split; [exact HI3|lia]).
  - (* the index was checked against the length *)
    exfalso. apply nth_error_None in E.
    match goal with H : (zlen _ <=? _) = false |- _ => unfold zlen in H; sim end.
    pose proof (getu_u32 (r_big s) bs 0 H). cbn [Nat.add] in *. lia.
Qed.

(* ---- decryption secrets, name resolution *)
Lemma Inv_names s nm k : Inv s -> Inv (set_names s nm k).
Proof. intros H; exact H. Qed.

Lemma readDSB_ok s n : 0 <= n -> Inv s ->
  wp (readDSB s) n (fun _ s' n' => Inv s' /\ 0 <= n' <= n - 8).
Proof.
  intros Hn HI. unfold readDSB. wps. okall; [lia|]. sim. wps.
  apply wp_s_alloc; [right; sim; lia|]. wps. okall; sim; (split; [exact HI|lia]).
Qed.

Lemma nrb_names_ok : forall fuel len acc s n, 0 <= n < Z.of_nat fuel ->
  wp (nrb_names fuel len acc s) n (fun _ s' n' => s' = s /\ 0 <= n' <= n).
Proof.
  induction fuel as [|f IH]; intros len acc s n Hn; [lia|].
  cbn [nrb_names]. destruct (len <=? 0). { apply wp_sret. split; [reflexivity|lia]. }
  apply wp_bind. cbn [wpe]. split.
  - intros bs n' H1 H2 ->. cbn [wpe errcls fst snd]. use IH; [|lia]. intros ? ? ? (-> & ?). split; [reflexivity|lia].
  - intros bs st Hst. destruct st; [congruence| |]; cbn [wpe errcls fst snd err_of]; lia.
Qed.

Lemma nrb_loop_ok F : forall fuel s n, 0 <= n < Z.of_nat fuel -> n < Z.of_nat F -> Inv s ->
  wp (nrb_loop F fuel s) n (fun _ s' n' => Inv s' /\ 0 <= n' <= n).
Proof.
  induction fuel as [|f IH]; intros s n Hn HF HI; [lia|].
  cbn [nrb_loop]. wps; try (split; [exact HI|lia]).
  all: okall; try lia; sim.
  all: try (split; [exact HI|lia]).
  all: try (use nrb_names_ok; [|lia]; intros nm s1 n1 (-> & B1); wps; okall; sim).
  all: use IH; [intros ? ? ? (? & ?); split; [assumption|lia] | lia | lia | exact HI].
Qed.

Lemma readNRB_ok F s n : 0 <= n < Z.of_nat F -> Inv s ->
  wp (readNRB F s) n (fun _ s' n' => Inv s' /\ 0 <= n' <= n).
Proof.
  intros Hn HI. unfold readNRB. wps. use nrb_loop_ok; try lia; try assumption.
  intros _ s1 n1 (HI1 & B1). wps. okall; sim; (split; [exact HI1|lia]).
Qed.

(* ---- sections *)
Lemma skipSection_ok : forall fuel s n, 0 <= n < Z.of_nat fuel ->
  wp (skipSection fuel s) n (fun _ s' n' => same_if s s' /\ 0 <= n' <= n).
Proof.
  induction fuel as [|f IH]; intros s n Hn; [lia|].
  cbn [skipSection]. wps. use readBlock_ok; [|lia]. intros _ s1 n1 (S1 & B1). wps.
  - split; [exact S1|lia].
  - okall; (use IH; [intros ? ? ? (? & ?); split; [eapply same_if_trans; [exact S1|]; eapply same_if_trans; [|eassumption]; unfold same_if; sim; auto|lia] | lia]).
Qed.

Ltac hi2 := unfold Inv in *; sim;
  match goal with E : r_ifaces _ = _ |- _ =>
    first [assumption | rewrite E; assumption | rewrite <- E; assumption | rewrite E in *; assumption] end.

Lemma firstInterface_ok ro F : forall fuel s n, 0 <= n < Z.of_nat fuel -> n < Z.of_nat F -> Inv s ->
  wp (firstInterface ro F fuel s) n (fun _ s' n' => Inv s' /\ 0 <= n' <= n).
Proof.
  induction fuel as [|f IH]; intros s n Hn HF HI; [lia|].
  cbn [firstInterface]. wps. use readBlock_ok; [|lia]. intros _ s1 n1 (S1 & B1).
  pose proof (same_if_inv _ _ S1 HI) as HI1. wps.
  - use readIDB_ok; [|lia|exact HI1]. intros _ s2 n2 (HI2 & NE & _ & _ & _ & B2). wps.
    assert (Inv s2) as HI2' by exact HI2.
    destruct (r_ifaces s2) as [|i0 rest] eqn:E; [congruence|]. wps.
    + split; [hi2|lia].
    + use IH; [intros ? ? ? (? & ?); split; [assumption|lia] | lia | lia | hi2].
    + split; [hi2|lia].
  - use readDSB_ok; [|lia|exact HI1]. intros _ s2 n2 (HI2 & B2). wps. okall;
      (use IH; [intros ? ? ? (? & ?); split; [assumption|lia] | lia | lia | exact HI2]).
  - use readNRB_ok; [|lia|exact HI1]. intros _ s2 n2 (HI2 & B2). wps. okall;
      (use IH; [intros ? ? ? (? & ?); split; [assumption|lia] | lia | lia | exact HI2]).
  - okall; (use IH; [intros ? ? ? (? & ?); split; [assumption|lia] | lia | lia | exact HI1]).
Qed.

Lemma rsh_version_ok ro F : forall fuel s n, 0 <= n < Z.of_nat fuel -> n < Z.of_nat F ->
  wp (rsh_version ro F fuel s) n (fun _ s' n' => same_if s s' /\ 0 <= n' <= n).
Proof.
  induction fuel as [|f IH]; intros s n Hn HF; [lia|].
  cbn [rsh_version]. wps. okall; [lia|]. sim. wps.
  - split; [unfold same_if; sim; auto|lia].
  - okall; sim.
    all: use skipSection_ok; [|lia]; intros _ s2 n2 (S2 & B2).
    all: use IH; [intros ? ? ? (? & ?); split; [eapply same_if_trans; [|eassumption]; eapply same_if_trans; [|exact S2]; unfold same_if; sim; auto|lia] | lia | lia].
Qed.

Lemma readSectionHeader_ok ro F s n : 0 <= n < Z.of_nat F ->
  wp (readSectionHeader ro F s) n (fun _ s' n' => Inv s' /\ 0 <= n' <= n).
Proof.
  intros Hn. unfold readSectionHeader. wps.
  use rsh_version_ok; try lia. intros _ s1 n1 ((S1 & _) & B1). sim.
  wps. use shb_opts_ok; [|lia]. intros sec s2 n2 ((S2 & _) & B2). wps.
  all: assert (forall x a b, Inv (set_section (set_blen s2 x) a b)) as HE
    by (intros; unfold Inv; sim; rewrite S2, S1; apply Forall_nil).
  all: okall; sim.
  all: try (split; [apply HE|lia]).
  all: use firstInterface_ok; [intros ? ? ? (? & ?); split; [assumption|lia] | lia | lia | apply HE].
Qed.

Lemma newReader_ok ro F n : 0 <= n < Z.of_nat F ->
  wp (newReader ro F init_rst) n (fun _ s' n' => Inv s' /\ 0 <= n' <= n).
Proof.
  intros Hn. unfold newReader. apply wp_bind. cbn [wpe]. split;
    [intros bs; cbn [wpe errcls fst snd]|intros bs st Hst; destruct st; [congruence| |]; cbn [wpe errcls fst snd]; [destruct bs; lia|lia]].
  wps. use readBlock_ok; [|lia]. intros _ s1 n1 (S1 & B1). wps.
  use readSectionHeader_ok; [|lia]. intros ? ? ? (? & ?). split; [assumption|lia].
Qed.

(* ---- packets *)
Definition hdr_ok (s : rst) : Prop :=
  0 <= ci_cap (r_ci s) /\ ci_cap (r_ci s) <= ci_len (r_ci s) /\ ci_cap (r_ci s) <= r_blen s.

Lemma check_caplen_ok snap s n (Q : unit -> rst -> Z -> Prop) :
  (ci_cap (r_ci s) <= r_blen s -> ci_cap (r_ci s) <= ci_len (r_ci s) -> Q tt s n) ->
  wp (check_caplen snap s) n Q.
Proof. intros H. unfold check_caplen. wps. apply H; lia. Qed.
Global Opaque check_caplen.

Lemma nth_error_in_range {X} (l : list X) k : 0 <= k -> k < zlen l -> exists x, nth_error l (Z.to_nat k) = Some x.
Proof.
  intros H0 H1. destruct (nth_error l (Z.to_nat k)) eqn:E; [eauto|].
  apply nth_error_None in E. unfold zlen in H1. lia.
Qed.

Lemma readPacketHeader_ok ro F : forall fuel s n, 0 <= n < Z.of_nat fuel -> n < Z.of_nat F -> Inv s ->
  wp (readPacketHeader ro F fuel s) n (fun _ s' n' => Inv s' /\ 0 <= n' <= n - 8 /\ hdr_ok s').
Proof.
  induction fuel as [|f IH]; intros s n Hn HF HI; [lia|].
  cbn [readPacketHeader]. wps. use readBlock_ok; [|lia]. intros _ s1 n1 (S1 & B1).
  pose proof (same_if_inv _ _ S1 HI) as HI1. wps.
  - (* enhanced / obsolete packet block *)
    okall; [lia|]. sim.
    match goal with |- context [nth_error (r_ifaces s1) (Z.to_nat ?id)] =>
      assert (0 <= id) as Hid by
        (destruct (r_btyp s1 =? 6); cbv iota;
         [pose proof (getu_u32 (r_big s1) bs 0 H) as G; cbn [Nat.add] in G; lia
         |pose proof (getu_sl_bound (r_big s1) bs 0 2 H) as G; lia]);
      destruct (nth_error_in_range (r_ifaces s1) id Hid ltac:(lia)) as [i Ei]; rewrite Ei
    end.
    assert (iface_ok i) as Hi by (eapply Forall_nth_error; [exact HI1|exact Ei]).
    wps. apply wp_convert; [exact Hi|intros tm]. wps. apply check_caplen_ok. sim. intros C1 C2. wps. sim. rewrite Ei.
    assert (0 <= getu (r_big s1) (sl bs 12 16)) as Hc
      by (pose proof (getu_u32 (r_big s1) bs 12 H) as G; cbn [Nat.add] in G; lia).
    wps.
    + okall; sim; (use IH; [intros ? ? ? (? & ? & ?); (split; [assumption | split; [lia | assumption]]) | lia | lia | exact HI1]).
    + repeat split; sim; try assumption; lia.
    + repeat split; sim; try assumption; lia.
  - (* simple packet block *)
    okall; [lia|]. sim.
    assert (0 <= getu (r_big s1) (sl bs 0 4)) as Hc
      by (pose proof (getu_u32 (r_big s1) bs 0 H) as G; cbn [Nat.add] in G; lia).
    destruct (r_ifaces s1) as [|i0 rest] eqn:E; wps.
    all: unfold Inv in HI1; rewrite E in HI1.
    all: assert (iface_ok i0) as (_ & _ & Hs0) by (inversion HI1; assumption).
    all: apply check_caplen_ok; sim; intros C1 C2; wps; sim; rewrite E; cbn [nth_error Z.to_nat]; wps.
    all: try (okall; sim; (use IH; [intros ? ? ? (? & ? & ?); (split; [assumption | split; [lia | assumption]]) | lia | lia | unfold Inv; sim; rewrite E; exact HI1])).
    all: unfold hdr_ok, Inv; sim; rewrite ?E; repeat split; try lia; try exact HI1.
  - use readIDB_ok; [|lia|exact HI1]. intros _ s2 n2 (HI2 & _ & _ & _ & _ & B2).
    use IH; [intros ? ? ? (? & ? & ?); (split; [assumption | split; [lia | assumption]]) | lia | lia | exact HI2].
  - use readISB_ok; [|lia|exact HI1]. intros _ s2 n2 (HI2 & B2).
    use IH; [intros ? ? ? (? & ? & ?); (split; [assumption | split; [lia | assumption]]) | lia | lia | exact HI2].
  - use readSectionHeader_ok; [|lia]. intros _ s2 n2 (HI2 & B2).
    use IH; [intros ? ? ? (? & ? & ?); (split; [assumption | split; [lia | assumption]]) | lia | lia | exact HI2].
  - use readNRB_ok; [|lia|exact HI1]. intros _ s2 n2 (HI2 & B2).
    use IH; [intros ? ? ? (? & ? & ?); (split; [assumption | split; [lia | assumption]]) | lia | lia | exact HI2].
  - okall; sim; (use IH; [intros ? ? ? (? & ? & ?); (split; [assumption | split; [lia | assumption]]) | lia | lia | exact HI1]).
Qed.

Definition pkt_shape (p : pkt) : Prop :=
  zlen (p_data p) = ci_cap (p_ci p) /\ ci_cap (p_ci p) <= ci_len (p_ci p).

Lemma readPacket_ok ro F s n : 0 <= n < Z.of_nat F -> Inv s ->
  wp (readPacket ro F s) n (fun p s' n' => Inv s' /\ 0 <= n' <= n - 8 /\ pkt_shape p).
Proof.
  intros Hn HI. unfold readPacket. wps. use readPacketHeader_ok; [|lia|lia|exact HI].
  intros _ s1 n1 (HI1 & B1 & (C0 & C1 & C2)). wps.
  all: try (apply wp_s_alloc; [right; lia|]); wps.
  all: okall; sim; try lia.
  all: try (use pkt_opts_ok; [|lia]; intros po s2 n2 (S2 & B2); wps; okall).
  all: unfold pkt_shape; cbn [p_data p_ci]; sim.
  all: try (split; [eapply same_if_inv; [exact S2|]; exact HI1|]).
  all: try (split; [exact HI1|]).
  all: repeat split; try lia; try (unfold zlen; cbn [length]; lia).
Qed.

(* ---- whole sessions, against the flat interpreter *)
Lemma sok_nonneg fs : sok fs -> 0 <= flen fs.
Proof. intros [H _]. rewrite H. apply zlen_nonneg. Qed.

Definition clsok (b : bool) (c : Z) : Prop := (c = 3 \/ c = 7) \/ (b = false /\ 0 < c < 9).

Lemma read_all_ok ro F : forall fuel acc s fs,
  sok fs -> allocs_ok fs -> Inv s -> flen fs < Z.of_nat fuel -> flen fs < Z.of_nat F -> Forall pkt_shape acc ->
  let r := run_f (read_all ro F fuel acc s) fs in
  clsok (ffail fs) (snd (fst (fst r))) /\ Forall pkt_shape (fst (fst (fst r))) /\ allocs_ok (snd r).
Proof.
  induction fuel as [|f IH]; intros acc s fs Hs Ha HI Hf HF Hacc; [pose proof (sok_nonneg fs Hs); lia|].
  cbn [read_all]. rewrite run_f_bind.
  pose proof (wp_sound (readPacket ro F s) fs _ Hs Ha (readPacket_ok ro F s (flen fs) ltac:(pose proof (sok_nonneg fs Hs); lia) HI)) as R.
  destruct (run_f (readPacket ro F s) fs) as [[s' o] fs']. unfold res_ok in R; cbn [fst snd] in R.
  destruct R as (Ra & Rf & R). destruct o as [p|c|q]; cbn [fst snd]; [|cbn [run_f fst snd cls_of]|contradiction].
  - destruct R as ((HI' & B & Sh) & Hs'). rewrite <- Rf. apply IH; auto; try lia.
  - repeat split; auto. apply Forall_rev; exact Hacc.
Qed.

Theorem session_flat_ok ro d fail : bytes_ok d ->
  let r := session_flat ro d fail in
  (* class of NewNgReader and of the terminal result: never a panic (>= 1000), never out of fuel (9);
     io.EOF / io.ErrUnexpectedEOF (1, 2) only when the stream ends without a read error *)
  0 <= fst (fst (fst (fst r))) < 9 /\ 0 < snd (fst (fst r)) < 9
  /\ Forall pkt_shape (snd (fst (fst (fst r)))) /\ allocs_ok (snd r)
  /\ (fst (fst (fst (fst r))) = 0 \/ clsok fail (fst (fst (fst (fst r))))) /\ clsok fail (snd (fst (fst r))).
Proof.
  intros Hd. unfold session_flat, session.
  set (F := fuel_for (zlen d)). set (fs := fstream_of d fail).
  assert (sok fs) as Hs by (unfold sok, fs, fstream_of; cbn; auto).
  assert (allocs_ok fs) as Ha by (unfold allocs_ok, fs, fstream_of; cbn; constructor).
  assert (flen fs < Z.of_nat F) as HF by (unfold F, fuel_for, fs, fstream_of; cbn [flen]; pose proof (zlen_nonneg d); lia).
  assert (ffail fs = fail) as Hff by reflexivity.
  rewrite run_f_bind.
  pose proof (wp_sound (newReader ro F init_rst) fs _ Hs Ha (newReader_ok ro F (flen fs) ltac:(pose proof (sok_nonneg fs Hs); lia))) as R.
  destruct (run_f (newReader ro F init_rst) fs) as [[s' o] fs']. unfold res_ok in R; cbn [fst snd] in R.
  destruct R as (Ra & Rf & R). rewrite Hff in *. destruct o as [u|c|q]; cbn [fst snd]; [|cbn [run_f fst snd cls_of]|contradiction].
  - destruct R as ((HI' & B) & Hs'). rewrite run_f_bind.
    pose proof (read_all_ok ro F F [] s' fs' Hs' Ra HI' ltac:(lia) ltac:(lia) ltac:(constructor)) as RA.
    cbv zeta in RA. rewrite Rf in RA. destruct (run_f (read_all ro F F [] s') fs') as [[[pk cls] st] fs'']. cbn [fst snd run_f] in *.
    destruct RA as (C & P & AL). unfold clsok in *. repeat split; try tauto; try lia.
  - unfold clsok in *. repeat split; try tauto; try lia; auto.
Qed.
