(* Lip6 — round trip of an IPv6 jumbogram whose hop-by-hop header is created by FixLengths *)
From GP Require Import Base ListX N6Lib Lip6Model Lip6Proofs Lip6Rt Lip6Rt2 Lip6Rt3.
From Coq Require Import Lia ZifyBool ZifyNat.
Open Scope Z_scope.
Ltac Zify.zify_post_hook ::= Z.div_mod_to_equations.

Lemma ip6_roundtrip_jumbo l payload junk : ip6_okb l = true -> p_hbh l = None -> bytes_ok payload ->
  65535 < n6_len payload < 4294967296 - 8 ->
  exists bytes l2 h2 jl,
    ip6_roundtrip l payload junk = (Ok bytes, (l2, Ok tt, false)) /\
    jl = be_bytes 4 (n6_len payload + 8) /\
    p_payload l2 = [p_next l; 0; JUMBO; 4] ++ jl ++ payload /\
    p_hbh l2 = Some h2 /\ e_payload h2 = payload /\ e_next h2 = p_next l /\
    tlv_nonpad (e_opts h2) = [(JUMBO, jl)] /\
    p_length l2 = 0 /\ p_next l2 = 0 /\
    ip6_fields l2 = ip6_fields (snd (ip6_serialize l payload true true junk)).
Proof.
  intros Hok Hh Hp Hlen. pose proof (ip6_okb_spec l Hok) as (Hv & Htc & Hfl & Hnh & Hhop & Hsb & Hsl & Hdb & Hdl & Hnn).
  rewrite Hh in Hnn.
  assert (Hw : ip6_wf l) by (unfold ip6_wf; rewrite Hh; exact I).
  unfold ip6_roundtrip. rewrite ip6_serialize_closed by exact Hw. unfold ip6_wire.
  replace (65535 <? n6_len payload) with true by lia. cbn [andb negb].
  unfold add_jumbo. rewrite Hh. cbn [replace_first_jumbo e_opts e_next e_hlen e_alen e_contents e_payload app p_hbh].
  (* the hop-by-hop header FixLengths creates: 8 octets *)
  assert (EW : ext_wire false (mkExt (p_next l) 0 0 [set_jumbo 0 (mkTlv 0 0 0 [] 0 0)] [] []) payload true =
               (Ok ([u8 (p_next l); 0; JUMBO; 4; 0; 0; 0; 0] ++ payload),
                mkExt (p_next l) 0 0 [set_jumbo 0 (mkTlv 0 0 0 [] 0 0)] [] [])) by reflexivity.
  rewrite EW. replace (u8 (p_next l)) with (p_next l) by (unfold u8; lia). cbn [app].
  set (bytes := p_next l :: 0 :: JUMBO :: 4 :: 0 :: 0 :: 0 :: 0 :: payload).
  assert (HLb : n6_len bytes = n6_len payload + 8) by (subst bytes; rewrite !n6_len_cons; lia).
  remember (be_bytes 4 (n6_len payload + 8)) as jl eqn:Ejl.
  assert (Ljl : length jl = 4%nat) by (subst; apply be_bytes_length).
  assert (Vjl : be_val jl = n6_len payload + 8) by (subst; rewrite be_val_be_bytes; change (256 ^ Z.of_nat 4) with 4294967296; lia).
  assert (Bjl : bytes_ok jl) by (subst; apply be_bytes_ok).
  assert (ESJ : set_jumbo_len bytes = Ok (p_next l :: 0 :: JUMBO :: 4 :: jl ++ payload)).
  { unfold set_jumbo_len. replace (n6_len bytes <? 8) with false by lia.
    rewrite (n6_idx_eq bytes 1) by lia. change (nthZ bytes (Z.to_nat 1)) with 0. change ((0 + 1) * 8) with 8.
    replace (n6_len bytes <? 8) with false by lia. change (Z.to_nat 8) with 8%nat. cbn [jumbo_loop]. change (2 <? 8) with true. cbv iota.
    rewrite (n6_idx_eq bytes 2), (n6_idx_eq bytes (2 + 1)) by lia.
    change (nthZ bytes (Z.to_nat 2)) with JUMBO. change (nthZ bytes (Z.to_nat (2 + 1))) with 4.
    change (JUMBO =? 0) with false. change (JUMBO =? JUMBO) with true. change (4 =? 4) with true. cbv iota.
    replace (n6_len bytes <? 2 + 6) with false by lia. f_equal.
    replace (u32 (n6_len bytes)) with (n6_len payload + 8) by (unfold u32; lia). rewrite <- Ejl.
    destruct jl as [|j0 [|j1 [|j2 [|j3 [|]]]]]; try discriminate Ljl.
    change (Z.to_nat (2 + 2)) with 4%nat. unfold n6_put, bytes. cbn [firstn skipn length Nat.sub Nat.add app]. rewrite firstn_nil. reflexivity. }
  rewrite ESJ. unfold set_len_next.
  cbn [p_version p_tclass p_flow p_length p_next p_hop p_src p_dst p_hbh p_contents p_payload snd e_next e_hlen e_alen e_opts e_contents e_payload
       replace_first_jumbo set_jumbo t_type].
  change (JUMBO =? JUMBO) with true. cbv iota. unfold set_jumbo.
  replace (u32 (n6_len bytes)) with (n6_len payload + 8) by (unfold u32; lia). rewrite <- Ejl.
  replace (negb (n6_len (p_src l) =? 16)) with false by lia. replace (negb (n6_len (p_dst l) =? 16)) with false by lia.
  set (hq := mkExt (p_next l) 0 0 [mkTlv JUMBO 4 6 jl 4 2] [] []).
  set (l3 := mkIp6 (p_version l) (p_tclass l) (p_flow l) 0 0 (p_hop l) (p_src l) (p_dst l) (Some hq) (p_contents l) (p_payload l)).
  set (bytes' := p_next l :: 0 :: JUMBO :: 4 :: jl ++ payload).
  assert (H3 : ip6_hdr_ok l3) by (unfold ip6_hdr_ok; cbn; repeat split; lia).
  rewrite (ip6_decode_wire ip6_fresh l3 bytes' H3). cbn [l3 p_version p_tclass p_flow p_length p_next p_hop p_src p_dst].
  unfold ip6_body. cbn [p_next p_payload p_length Z.eqb].
  (* the hop-by-hop header decoded *)
  destruct jl as [|j0 [|j1 [|j2 [|j3 [|]]]]]; try discriminate Ljl.
  assert (Bb : bytes_ok bytes').
  { subst bytes'. repeat (constructor; [unfold byte_ok, JUMBO; lia|]). inversion Bjl as [|? ? B0 T0]; subst. inversion T0 as [|? ? B1 T1]; subst.
    inversion T1 as [|? ? B2 T2]; subst. inversion T2 as [|? ? B3 T3]; subst. repeat (constructor; [assumption|]). exact Hp. }
  assert (HLb' : n6_len bytes' = n6_len payload + 8) by (subst bytes'; cbn [app]; rewrite !n6_len_cons; lia).
  assert (HD : ext_decode_into ext_fresh bytes' =
               (mkExt (p_next l) 0 8 [mkTlv JUMBO 4 6 [j0; j1; j2; j3] 0 0] [p_next l; 0; JUMBO; 4; j0; j1; j2; j3] payload, Ok tt, false)).
  { unfold ext_decode_into. rewrite ext_decode_eq by exact Bb. replace (n6_len bytes' <? 2) with false by lia. cbv zeta.
    change (nthZ bytes' 0) with (p_next l). change (nthZ bytes' 1) with 0. change (0 * 8 + 8) with 8.
    replace (n6_len bytes' <? 8) with false by lia.
    change (length bytes') with (S (S (S (S (S (S (S (S (length payload))))))))).
    cbn [ext_loop]. change (2 <? 8) with true. cbv iota. rewrite (n6_from_eq bytes' 2) by lia.
    change (skipn (Z.to_nat 2) bytes') with (JUMBO :: 4 :: j0 :: j1 :: j2 :: j3 :: payload).
    assert (TD : tlv_decode (JUMBO :: 4 :: j0 :: j1 :: j2 :: j3 :: payload) = (Ok (mkTlv JUMBO 4 6 [j0; j1; j2; j3] 0 0), false)).
    { unfold tlv_decode. rewrite !n6_len_cons. pose proof (n6_len_nonneg payload).
      replace (1 + (1 + (1 + (1 + (1 + (1 + n6_len payload))))) <? 1) with false by lia.
      rewrite n6_idx_eq by (rewrite !n6_len_cons; lia). change (nthZ _ (Z.to_nat 0)) with JUMBO. change (JUMBO =? 0) with false. cbv iota.
      replace (1 + (1 + (1 + (1 + (1 + (1 + n6_len payload))))) <? 2) with false by lia.
      rewrite n6_idx_eq by (rewrite !n6_len_cons; lia). change (nthZ _ (Z.to_nat 1)) with 4.
      replace (1 + (1 + (1 + (1 + (1 + (1 + n6_len payload))))) <? 4 + 2) with false by lia.
      rewrite n6_slice_eq by (rewrite ?n6_len_cons; lia). reflexivity. }
    rewrite TD. cbn [t_alen]. change (8 <? 2 + 6) with false. cbv iota. change (2 + 6 <? 8) with false. cbv iota. cbn [app].
    reflexivity. }
  rewrite HD. cbv zeta. unfold get_jumbo. cbn [e_opts find t_type t_data]. change (JUMBO =? JUMBO) with true. cbv iota.
  cbn [t_data]. change (n6_len [j0; j1; j2; j3] =? 4) with true. cbn [negb]. rewrite Vjl.
  replace (n6_len payload + 8 <=? 65535) with false by lia. cbn [andb Z.eqb].
  rewrite HLb'. replace (n6_len payload + 8 <? n6_len payload + 8) with false by lia.
  rewrite (n6_slice_eq bytes' 0 (n6_len payload + 8)) by lia. change (Z.to_nat 0) with 0%nat.
  replace (Z.to_nat (n6_len payload + 8)) with (length bytes') by (clear - HLb'; unfold n6_len in *; lia). rewrite slice_0_all.
  cbn [e_alen]. rewrite (n6_from_eq bytes' 8) by lia. change (skipn (Z.to_nat 8) bytes') with payload.
  exists (ip6_hdr_bytes l3 ++ bytes'). eexists. eexists. exists [j0; j1; j2; j3].
  split; [reflexivity|]. split; [reflexivity|]. cbn [set_payload ext_set_payload p_payload p_hbh p_length p_next e_payload e_next e_opts].
  repeat split.
Qed.
