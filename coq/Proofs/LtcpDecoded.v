(* Every layer value produced by a successful decode that carries no MPTCP option is
   representable (tcp_wf), so C06_tcp_roundtrip applies to it. *)
From Coq Require Import Lia ZifyBool ZifyNat.
From GP Require Import Base ListX LtcpModel LtcpProofs LtcpRoundtrip.
Open Scope Z_scope.
Ltac Zify.zify_post_hook ::= Z.div_mod_to_equations.

Definition no_mptcp (os : list tcpopt) : Prop := Forall (fun o => o_type o <> 30) os.

Lemma ends_eol_cons o r : ends_eol r -> ends_eol (o :: r).
Proof. intros [r' ->]. exists (o :: r'). reflexivity. Qed.

Lemma slice_app_within {A} (l tl : list A) a b : (b <= length l)%nat -> slice (l ++ tl) a b = slice l a b.
Proof.
  intros H. unfold slice. rewrite firstn_app. replace (b - length l)%nat with 0%nat by lia.
  cbn [firstn]. rewrite app_nil_r. reflexivity.
Qed.

Lemma split_generic (k : Z) (rest : list Z) (L : nat) :
  (2 <= L <= length (k :: rest))%nat ->
  k :: nth 1 (k :: rest) 0 :: slice (k :: rest) 2 L ++ skipn L (k :: rest) = k :: rest.
Proof.
  intros H. destruct rest as [|l1 rest']; [cbn in H; lia|].
  destruct L as [|[|n]]; try lia. cbn [nth]. unfold slice. cbn [firstn skipn].
  rewrite firstn_skipn. reflexivity.
Qed.

(* the result of the loop on its Ok path: the options appended, and - when none of them is an
   MPTCP option - they are well formed, their wire form followed by the padding is exactly the
   option area, padding only after End-of-list, Multipath untouched *)
Lemma loop_inv : forall fuel od tl acc mp,
  len od < 256 ->
  r_out (opt_loop true fuel od tl acc mp) = Ok tt ->
  exists os, r_opts (opt_loop true fuel od tl acc mp) = rev acc ++ os /\
    r_trunc (opt_loop true fuel od tl acc mp) = false /\
    (no_mptcp os ->
       opts_ok os /\ opts_bytes true os ++ r_pad (opt_loop true fuel od tl acc mp) = od /\
       (r_pad (opt_loop true fuel od tl acc mp) = [] \/ ends_eol os) /\
       r_mp (opt_loop true fuel od tl acc mp) = mp).
Proof.
  induction fuel as [|fuel IH]; intros od tl acc mp Hlen Hout; [cbn in Hout; discriminate|].
  cbn [opt_loop] in *. destruct od as [|k rest].
  { exists []. cbn. rewrite app_nil_r. split; [reflexivity|]. split; [reflexivity|]. intros _. repeat split; auto. constructor. }
  destruct (k =? 0) eqn:K0.
  { exists [eol]. cbn [stop r_opts r_pad r_mp r_trunc rev]. split; [reflexivity|]. split; [reflexivity|]. intros _.
    assert (k = 0) by lia. subst k. repeat split; [apply ok_eol | right; exists []; reflexivity]. }
  destruct (k =? 1) eqn:K1.
  { assert (k = 1) by lia. subst k.
    assert (Hl' : len rest < 256) by (unfold len in *; cbn [length] in Hlen; lia).
    destruct (IH rest tl (mkopt 1 1 [] 0 MPnone :: acc) mp Hl' Hout) as (os & Ho & Htr & Hrest).
    exists (nop :: os). split; [|split; [exact Htr|]].
    - rewrite Ho. cbn [rev]. rewrite <- app_assoc. reflexivity.
    - intros Hn. inversion Hn as [|? ? _ Hn']; subst.
      destruct (Hrest Hn') as (H1 & H2 & H3 & H4). repeat split.
      + apply ok_nop. exact H1.
      + cbn [opts_bytes flat_map]. fold (opts_bytes true os). change (opt_bytes true nop) with [1].
        cbn [app]. rewrite H2. reflexivity.
      + destruct H3 as [H3|H3]; [left; exact H3|right; apply ends_eol_cons; exact H3].
      + exact H4. }
  destruct (k =? 30) eqn:K30.
  { (* MPTCP: whenever the loop goes on, the appended option has kind 30 *)
    cbn [andb] in *.
    destruct (len (k :: rest) <? 2); [cbn in Hout; discriminate|].
    destruct (idx 100 (k :: rest) 1) as [L|c|s]; [|cbn in Hout; discriminate|cbn in Hout; discriminate].
    destruct (L <? 3); [cbn in Hout; discriminate|].
    destruct (len (k :: rest) <? L); [cbn in Hout; discriminate|].
    destruct (idx 101 (k :: rest) 2) as [b2|c|s]; [|cbn in Hout; discriminate|cbn in Hout; discriminate].
    destruct (mp_sub true (k :: rest) tl L b2 (b2 / 16)) as [info o].
    destruct o as [u|c|s]; [|cbn in Hout; discriminate|cbn in Hout; discriminate].
    unfold from in *. destruct ((0 <=? L) && (L <=? len (k :: rest))) eqn:HL; [|cbn in Hout; discriminate].
    assert (Hl' : len (skipn (Z.to_nat L) (k :: rest)) < 256).
    { unfold len in *. rewrite skipn_length. lia. }
    destruct (IH _ tl (mkopt 30 L [] (b2 / 16) info :: acc) true Hl' Hout) as (os & Ho & Htr & _).
    exists (mkopt 30 L [] (b2 / 16) info :: os). split; [|split; [exact Htr|]].
    - rewrite Ho. cbn [rev]. rewrite <- app_assoc. reflexivity.
    - intros Hn. inversion Hn as [|? ? H30 _]; subst. cbn in H30. congruence. }
  (* generic *)
  destruct (len (k :: rest) <? 2) eqn:H2; [cbn in Hout; discriminate|].
  set (L := nth 1 (k :: rest) 0) in *.
  destruct (L <? 2) eqn:HL2; [cbn in Hout; discriminate|].
  destruct (len (k :: rest) <? L) eqn:HLl; [cbn in Hout; discriminate|].
  rewrite slc_eq in * by lia. rewrite from_eq in * by lia.
  assert (Hl' : len (skipn (Z.to_nat L) (k :: rest)) < 256).
  { unfold len in *. rewrite skipn_length. lia. }
  set (d := slice ((k :: rest) ++ tl) (Z.to_nat 2) (Z.to_nat L)) in *.
  destruct (IH _ tl (mkopt k L d 0 MPnone :: acc) mp Hl' Hout) as (os & Ho & Htr & Hrest).
  exists (mkopt k L d 0 MPnone :: os). split; [|split; [exact Htr|]].
  - rewrite Ho. cbn [rev]. rewrite <- app_assoc. reflexivity.
  - intros Hn. inversion Hn as [|? ? _ Hn']; subst.
    destruct (Hrest Hn') as (H1 & H2' & H3 & H4).
    assert (Hd : d = slice (k :: rest) 2 (Z.to_nat L)).
    { unfold d. apply slice_app_within. unfold len in *. lia. }
    assert (Hdl : len d = L - 2).
    { rewrite Hd. unfold len in *. rewrite slice_length by lia. lia. }
    repeat split.
    + apply ok_gen; [|exact H1]. unfold gen_ok. cbn [o_type o_len o_data o_mp o_info mkopt].
      repeat split; try lia.
    + cbn [opts_bytes flat_map]. fold (opts_bytes true os). unfold opt_bytes.
      cbn [o_type o_len o_data mkopt].
      replace (is01 k) with false by (unfold is01; lia).
      replace (u8 (len d + 2)) with L by (unfold u8; lia).
      cbn [app]. rewrite <- app_assoc. rewrite H2'. rewrite Hd.
      apply (split_generic k rest (Z.to_nat L)). unfold len in *. lia.
    + destruct H3 as [H3|H3]; [left; exact H3|right; apply ends_eol_cons; exact H3].
    + exact H4.
Qed.


(* ------------------------------------------------------------------ decoded values are representable *)
Lemma be_val_range l : bytes_ok l -> 0 <= be_val l < 256 ^ len l.
Proof.
  induction l as [|b l IH] using rev_ind; intros H.
  - cbn. lia.
  - apply Forall_app in H. destruct H as [Hl Hb]. inversion Hb as [|? ? Hb' _]; subst.
    rewrite be_val_snoc. specialize (IH Hl). unfold byte_ok in Hb'.
    unfold len in *. rewrite app_length. cbn [length].
    replace (Z.of_nat (length l + 1)) with (Z.succ (Z.of_nat (length l))) by lia.
    rewrite Z.pow_succ_r by lia. lia.
Qed.

Lemma Forall_firstn {A} (P : A -> Prop) n l : Forall P l -> Forall P (firstn n l).
Proof. revert l; induction n as [|n IH]; intros l H; cbn; [constructor|]. destruct H; constructor; auto. Qed.
Lemma Forall_skipn {A} (P : A -> Prop) n l : Forall P l -> Forall P (skipn n l).
Proof. revert l; induction n as [|n IH]; intros l H; cbn; [exact H|]. destruct H; [constructor|auto]. Qed.
Lemma bytes_ok_slice l a b : bytes_ok l -> bytes_ok (slice l a b).
Proof. intros H. unfold slice. apply Forall_skipn, Forall_firstn, H. Qed.
Lemma bytes_ok_nth l i : bytes_ok l -> 0 <= nth i l 0 < 256.
Proof.
  intros H. destruct (Nat.lt_ge_cases i (length l)) as [Hi|Hi].
  - apply (proj1 (Forall_forall _ _) H). apply nth_In. exact Hi.
  - rewrite nth_overflow by exact Hi. lia.
Qed.

Lemma field_range data a b n : bytes_ok data -> (b <= length data)%nat -> Z.of_nat (b - a) = n ->
  0 <= be_val (slice data a b) < 256 ^ n.
Proof.
  intros Hb Hl Hn. pose proof (be_val_range _ (bytes_ok_slice data a b Hb)) as H.
  unfold len in H. rewrite slice_length in H by exact Hl. rewrite Hn in H. exact H.
Qed.

Lemma decode_wf old data extra t tr : bytes_ok data ->
  decode_into old data extra = (t, tr, Ok tt) -> no_mptcp (t_opts t) -> tcp_wf t /\ tr = false.
Proof.
  intros Hb. unfold decode_into, decode_gen.
  destruct (len data <? 20) eqn:H20; [discriminate|]. cbv zeta.
  pose proof (bytes_ok_nth data 12 Hb) as Hb12. pose proof (bytes_ok_nth data 13 Hb) as Hb13.
  unfold b_at. set (b12 := nth 12 data 0) in *. set (b13 := nth 13 data 0) in *.
  destruct (b12 / 16 <? 5) eqn:H5; [discriminate|].
  destruct (len data <? b12 / 16 * 4) eqn:Hds; [discriminate|].
  set (dsn := Z.to_nat (b12 / 16 * 4)).
  set (od := slice data 20 dsn).
  assert (Hodl : len od = b12 / 16 * 4 - 20).
  { unfold od, len in *. rewrite slice_length by lia. lia. }
  set (r := opt_loop true _ _ _ _ _).
  pose proof (loop_inv (S (length od)) od (skipn dsn data ++ extra) [] false ltac:(lia)) as Hinv.
  change (opt_loop true (S (length od)) od (skipn dsn data ++ extra) [] false) with r in Hinv.
  clearbody r.
  intros Heq Hno. injection Heq as Ht Htr Hout. subst t. cbn [t_opts] in Hno.
  destruct (Hinv Hout) as (os & Ho & Htrunc & Hrest).
  cbn [rev app] in Ho. rewrite Ho in Hno.
  destruct (Hrest Hno) as (Hok & Hbytes & Hpad & Hmp).
  split; [|congruence].
  assert (Hsum : opts_len os + len (r_pad r) = len od).
  { rewrite <- (opts_bytes_len true os), <- len_app, Hbytes. reflexivity. }
  pose proof (opts_len_nonneg os) as Hol. pose proof (len_nonneg (r_pad r)) as Hpl.
  assert (Hlen : (20 <= length data)%nat) by (unfold len in *; lia).
  assert (F0 : 0 <= be_val (slice data 0 2) < 65536) by (apply (field_range data 0 2 2); [exact Hb | lia | reflexivity]).
  assert (F2 : 0 <= be_val (slice data 2 4) < 65536) by (apply (field_range data 2 4 2); [exact Hb | lia | reflexivity]).
  assert (F4 : 0 <= be_val (slice data 4 8) < 4294967296) by (apply (field_range data 4 8 4); [exact Hb | lia | reflexivity]).
  assert (F8 : 0 <= be_val (slice data 8 12) < 4294967296) by (apply (field_range data 8 12 4); [exact Hb | lia | reflexivity]).
  assert (F14 : 0 <= be_val (slice data 14 16) < 65536) by (apply (field_range data 14 16 2); [exact Hb | lia | reflexivity]).
  assert (F18 : 0 <= be_val (slice data 18 20) < 65536) by (apply (field_range data 18 20 2); [exact Hb | lia | reflexivity]).
  assert (Ffl : 0 <= b13 + 256 * Z.land b12 1 < 512) by (rewrite land_1; lia).
  match goal with |- tcp_wf ?T => set (T' := T) end.
  assert (Hsp : ser_pad T' true =
                if negb (opts_len os mod 4 =? 0) then repeat 0 (Z.to_nat (4 - opts_len os mod 4)) else r_pad r).
  { unfold ser_pad, T'. cbn [t_opts t_pad andb]. rewrite Ho. reflexivity. }
  assert (Hto : t_opts T' = os) by exact Ho.
  unfold tcp_wf. rewrite Hsp, Hto.
  split; [exact F0|]. split; [exact F2|]. split; [exact F4|]. split; [exact F8|].
  split; [exact Ffl|]. split; [exact F14|]. split; [exact F18|].
  split; [exact Hok|]. split; [exact Hmp|].
  destruct (opts_len os mod 4 =? 0) eqn:Hm; cbn [negb].
  - split; [exact Hpad|]. split; lia.
  - split; [|split].
    + right. destruct Hpad as [Hp|Hp]; [|exact Hp]. rewrite Hp in Hsum. unfold len in Hsum at 1. cbn [length] in Hsum. lia.
    + unfold len at 1. rewrite repeat_length. lia.
    + unfold len at 1. rewrite repeat_length. lia.
Qed.
