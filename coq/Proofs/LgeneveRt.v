(* Round trip of the Geneve model: gn_decode_into (gn_serialize l) under gn_wf. *)
From GP Require Import Base ListX Codec CodecBits MiscLib LgeneveModel LgeneveProofs LgeneveSer.
From Coq Require Import Lia ZifyBool ZifyNat.
Open Scope Z_scope.
Ltac Zify.zify_post_hook ::= Z.div_mod_to_equations.

(* an option as the decoder produces it: fields in range, data in whole words, Length = 4 + len(Data) *)
Definition gn_owf (o : gopt) : Prop :=
  0 <= go_class o < 65536 /\ 0 <= go_type o < 256 /\ 0 <= go_flags o < 8 /\
  zlen (go_data o) mod 4 = 0 /\ zlen (go_data o) <= 124 /\ go_length o = 4 + zlen (go_data o).

Lemma gn_owf_dlen o : gn_owf o -> gn_dlen o = zlen (go_data o).
Proof. intros [_ [_ [_ [Hm _]]]]. unfold gn_dlen. pose proof (zlen_nonneg (go_data o)). lia. Qed.

Lemma gn_flagbyte_val o : gn_owf o -> gn_flagbyte o = go_flags o * 32 + zlen (go_data o) / 4.
Proof.
  intros [_ [_ [Hf [Hm [Hl Hlen]]]]]. unfold gn_flagbyte. pose proof (zlen_nonneg (go_data o)).
  rewrite Hlen. replace ((4 + zlen (go_data o) - 4) mod 256 / 4 mod 32) with (zlen (go_data o) / 4) by lia.
  rewrite Z.mod_small by lia. change 32 with (2 ^ 5) at 1. rewrite cd_lor_disjoint by (change (2 ^ 5) with 32; lia). reflexivity.
Qed.

Lemma gn_decode_option_bytes o rest : gn_owf o ->
  gn_decode_option (gn_opt_bytes o ++ rest) = Ok (o, 4 + zlen (go_data o)).
Proof.
  intros W. pose proof (gn_flagbyte_val o W) as Fb. pose proof (gn_owf_dlen o W) as Dl.
  destruct W as [Hc [Ht [Hf [Hm [Hl Hlen]]]]]. pose proof (zlen_nonneg (go_data o)) as Nd. pose proof (zlen_nonneg rest) as Nr.
  unfold gn_opt_bytes. rewrite Dl. rewrite firstn_all2 by (unfold zlen; lia). rewrite Fb.
  set (fb := go_flags o * 32 + zlen (go_data o) / 4).
  remember ((cd_put16 (go_class o) ++ [go_type o mod 256] ++ [fb] ++ go_data o) ++ rest) as d eqn:Hd.
  assert (Hd' : d = [(go_class o / 256) mod 256; go_class o mod 256; go_type o mod 256; fb] ++ go_data o ++ rest).
  { subst d. cbn [cd_put16 app]. rewrite <- ?app_assoc. reflexivity. }
  assert (Hn : zlen d = 4 + zlen (go_data o) + zlen rest) by (rewrite Hd', !zlen_app; unfold zlen at 1; cbn [length]; lia).
  assert (Hnth : forall k, (k < 4)%nat -> nth k d 0 = nth k [(go_class o / 256) mod 256; go_class o mod 256; go_type o mod 256; fb] 0).
  { intros k Hk. rewrite Hd'. apply app_nth1. exact Hk. }
  unfold gn_decode_option. destruct (zlen d <? 4) eqn:C; [lia|].
  rewrite cd_rd16_ok by lia. rewrite !cd_idx_ok by lia. cbn [obind].
  change (Z.to_nat 0) with 0%nat; change (Z.to_nat (0 + 1)) with 1%nat; change (Z.to_nat 2) with 2%nat; change (Z.to_nat 3) with 3%nat.
  rewrite !Hnth by lia. cbn [nth].
  assert (Hlen' : ((fb mod 32) * 4 + 4) mod 256 = 4 + zlen (go_data o)) by (unfold fb; lia).
  rewrite Hlen'. destruct (zlen d <? 4 + zlen (go_data o)) eqn:C2; [lia|].
  rewrite cd_slc_ok by lia. cbn [obind].
  assert (S1 : slice d (Z.to_nat 4) (Z.to_nat (4 + zlen (go_data o))) = go_data o).
  { rewrite Hd'. apply slice_at; [reflexivity|]. cbn [length]. unfold zlen. lia. }
  rewrite S1. rewrite cd_put16_be by lia.
  replace (fb / 32) with (go_flags o) by (unfold fb; lia). replace (go_type o mod 256) with (go_type o) by lia.
  rewrite <- Hlen. destruct o; reflexivity.
Qed.

Lemma gn_opt_bytes_len_wf o : gn_owf o -> zlen (gn_opt_bytes o) = 4 + zlen (go_data o).
Proof. intros W. rewrite gn_opt_bytes_len, (gn_owf_dlen o W). reflexivity. Qed.

Lemma gn_opts_bytes : forall os fuel pre rest acc, Forall gn_owf os -> (length os < fuel)%nat ->
  gn_opts fuel (pre ++ concat (map gn_opt_bytes os) ++ rest) (zlen pre) (zlen (concat (map gn_opt_bytes os))) acc =
  (acc ++ os, Ok (zlen pre + zlen (concat (map gn_opt_bytes os)))).
Proof.
  induction os as [|o t IH]; intros fuel pre rest acc W Hf.
  - cbn [map concat]. change (zlen (@nil Z)) with 0. destruct fuel; cbn [gn_opts]; rewrite app_nil_r, Z.add_0_r; reflexivity.
  - inversion W as [|? ? Wo Wt]; subst. destruct fuel as [|f]; [cbn [length] in Hf; lia|].
    pose proof (gn_opt_bytes_len_wf o Wo) as Lo. pose proof (zlen_nonneg (go_data o)) as Nd.
    pose proof (zlen_nonneg pre) as Np. pose proof (zlen_nonneg rest) as Nr.
    cbn [map concat]. set (ct := concat (map gn_opt_bytes t)) in *. pose proof (zlen_nonneg ct) as Nc.
    set (data := pre ++ (gn_opt_bytes o ++ ct) ++ rest).
    assert (Hlen : zlen (gn_opt_bytes o ++ ct) = 4 + zlen (go_data o) + zlen ct) by (rewrite zlen_app, Lo; lia).
    assert (Hdata : zlen data = zlen pre + (4 + zlen (go_data o) + zlen ct) + zlen rest) by (unfold data; rewrite !zlen_app, Lo; lia).
    cbn [gn_opts]. rewrite Hlen.
    destruct (4 + zlen (go_data o) + zlen ct >? 0) eqn:C; [|lia].
    rewrite cd_slc_ok by lia.
    assert (S1 : slice data (Z.to_nat (zlen pre)) (Z.to_nat (zlen pre + (4 + zlen (go_data o) + zlen ct))) = gn_opt_bytes o ++ ct).
    { unfold data. apply slice_at; [unfold zlen; lia|]. rewrite <- Hlen. unfold zlen. lia. }
    rewrite S1. rewrite gn_decode_option_bytes by exact Wo.
    replace (4 + zlen (go_data o) + zlen ct - (4 + zlen (go_data o))) with (zlen ct) by lia.
    replace (zlen pre + (4 + zlen (go_data o))) with (zlen (pre ++ gn_opt_bytes o)) by (rewrite zlen_app, Lo; lia).
    replace data with ((pre ++ gn_opt_bytes o) ++ ct ++ rest) by (unfold data; rewrite <- !app_assoc; reflexivity).
    unfold ct. rewrite IH by (try assumption; cbn [length] in Hf; lia).
    fold ct. rewrite <- app_assoc. cbn [app]. f_equal. f_equal. rewrite zlen_app, Lo. lia.
Qed.

Definition gn_wf (l : geneve) : Prop :=
  0 <= gn_version l < 4 /\ 0 <= gn_vni l < 16777216 /\ 0 <= gn_protocol l < 65536 /\
  Forall (fun o => 0 <= go_class o < 65536 /\ 0 <= go_type o < 256 /\ 0 <= go_flags o < 8 /\
                   zlen (go_data o) mod 4 = 0 /\ zlen (go_data o) <= 124) (gn_options l) /\
  fold_left (fun a o => a + 4 + gn_dlen o) (gn_options l) 0 <= 252.

Lemma gn_fixed_owf os :
  Forall (fun o => 0 <= go_class o < 65536 /\ 0 <= go_type o < 256 /\ 0 <= go_flags o < 8 /\
                   zlen (go_data o) mod 4 = 0 /\ zlen (go_data o) <= 124) os ->
  Forall gn_owf (map (gn_fix_opt true) os).
Proof.
  induction 1 as [|o t [Hc [Ht [Hf [Hm Hl]]]] _ IH]; cbn [map]; constructor; [|exact IH].
  unfold gn_owf, gn_fix_opt, gn_dlen. cbn [go_class go_type go_flags go_data go_length].
  pose proof (zlen_nonneg (go_data o)). repeat split; lia.
Qed.

Lemma gn_olen_mult4 os : gn_olen os mod 4 = 0.
Proof.
  induction os as [|o t IH]; [reflexivity|]. rewrite gn_olen_cons. unfold gn_dlen. lia.
Qed.

Lemma gn_roundtrip l payload csum junk bytes l' old :
  gn_wf l -> gn_serialize l payload true csum junk = (Ok bytes, l') ->
  exists d, gn_decode_into old bytes = (d, Ok tt, false) /\ gn_payload d = payload /\
    gn_version d = gn_version l /\ gn_vni d = gn_vni l /\ gn_protocol d = gn_protocol l /\
    gn_oam d = gn_oam l /\ gn_critical d = gn_critical l /\ gn_options d = gn_options l' /\ gn_optlen d = gn_optlen l'.
Proof.
  intros [Hv [Hvni [Hpr [Hos Hol]]]]. fold (gn_olen (gn_options l)) in Hol.
  rewrite gn_serialize_spec. unfold gn_ser_spec. cbn [andb].
  destruct (gn_olen (gn_options l) >? 252) eqn:C0; [lia|].
  change (gn_vni (gn_l1 true l)) with (gn_vni l). destruct (gn_vni l >=? 16777216) eqn:C1; [lia|].
  intros X.
  match type of X with (Ok ?b, ?x) = _ => assert (Eb : bytes = b) by congruence; assert (El : l' = x) by congruence end. clear X.
  set (ol := gn_olen (gn_options l)) in *. pose proof (gn_olen_nonneg (gn_options l)) as Nol. fold ol in Nol.
  pose proof (gn_olen_mult4 (gn_options l)) as M4. fold ol in M4.
  set (os2 := map (gn_fix_opt true) (gn_options l)).
  assert (Wos : Forall gn_owf os2) by (apply gn_fixed_owf; exact Hos).
  assert (Eos : gn_options (gn_l2 true l) = os2) by reflexivity.
  assert (Eol : gn_optlen (gn_l2 true l) = ol) by (cbn; fold ol; lia).
  rewrite Eos in Eb.
  set (ct := concat (map gn_opt_bytes os2)) in *.
  assert (Hct : zlen ct = ol) by (unfold ct; rewrite gn_concat_len; unfold os2; rewrite gn_olen_fix; reflexivity).
  (* the eight header bytes *)
  set (b0 := gn_version l * 64 + ol / 4). set (b1 := (if gn_oam l then 128 else 0) + (if gn_critical l then 64 else 0)).
  assert (H8 : gn_hdr8 (gn_l1 true l) =
    [b0; b1; (gn_protocol l / 256) mod 256; gn_protocol l mod 256; (gn_vni l / 65536) mod 256; (gn_vni l / 256) mod 256; gn_vni l mod 256; 0]).
  { unfold gn_hdr8. cbn [gn_l1 gn_version gn_optlen gn_oam gn_critical gn_protocol gn_vni cd_put16 ml_put32 app]. fold ol.
    assert (L0 : Z.lor ((gn_version l * 64) mod 256) ((ol mod 256 / 4) mod 64) = b0).
    { rewrite (Z.mod_small (gn_version l * 64)) by lia. replace ((ol mod 256 / 4) mod 64) with (ol / 4) by lia.
      change 64 with (2 ^ 6) at 1. rewrite cd_lor_disjoint by (change (2 ^ 6) with 64; lia). reflexivity. }
    rewrite L0. fold b1. assert (V : (gn_vni l * 256) mod 4294967296 = gn_vni l * 256) by (apply Z.mod_small; lia). rewrite V. unfold ml_put32. clear - Hvni. do 4 f_equal. f_equal; [lia|]. f_equal; [lia|]. f_equal; [lia|]. f_equal; lia. }
  rewrite H8 in Eb. set (h8 := [b0; b1; (gn_protocol l / 256) mod 256; gn_protocol l mod 256; (gn_vni l / 65536) mod 256; (gn_vni l / 256) mod 256; gn_vni l mod 256; 0]) in *.
  assert (Eb' : bytes = h8 ++ ct ++ payload) by (rewrite Eb, <- app_assoc; reflexivity). clear Eb.
  pose proof (zlen_nonneg payload) as Npl.
  assert (Hn : zlen bytes = 8 + ol + zlen payload) by (rewrite Eb', !zlen_app, Hct; change (zlen h8) with 8; lia).
  assert (Hnth : forall k, (k < 8)%nat -> nth k bytes 0 = nth k h8 0) by (intros k Hk; rewrite Eb'; apply app_nth1; exact Hk).
  unfold gn_decode_into. cbv zeta. destruct (zlen bytes <? 8) eqn:C2; [lia|].
  rewrite !cd_idx_ok by lia. rewrite cd_rd16_ok by lia. rewrite cd_slc_ok by lia. cbn [ml_bind].
  assert (S47 : slice bytes (Z.to_nat 4) (Z.to_nat 7) = [(gn_vni l / 65536) mod 256; (gn_vni l / 256) mod 256; gn_vni l mod 256]).
  { rewrite Eb'. change h8 with ([b0; b1; (gn_protocol l / 256) mod 256; gn_protocol l mod 256] ++ [(gn_vni l / 65536) mod 256; (gn_vni l / 256) mod 256; gn_vni l mod 256] ++ [0]).
    rewrite <- !app_assoc. apply slice_at; reflexivity. }
  rewrite S47.
  change (Z.to_nat 0) with 0%nat; change (Z.to_nat 1) with 1%nat; change (Z.to_nat 2) with 2%nat; change (Z.to_nat (2 + 1)) with 3%nat.
  rewrite !Hnth by lia. cbn [nth h8].
  assert (Eo : ((b0 mod 64) * 4) mod 256 = ol) by (unfold b0; lia). rewrite Eo.
  destruct (zlen bytes <? ol + 8) eqn:C3; [lia|].
  assert (G : gn_opts 64 bytes 8 ol [] = (os2, Ok (8 + ol))).
  { assert (B : forall os, 4 * Z.of_nat (length os) <= gn_olen os).
    { induction os as [|o t IH]; [unfold gn_olen; cbn; lia|]. rewrite gn_olen_cons. pose proof (gn_dlen_bounds o). cbn [length]. lia. }
    specialize (B os2). unfold os2 in B at 2. rewrite gn_olen_fix in B. fold ol in B.
    pose proof (gn_opts_bytes os2 64 h8 payload [] Wos ltac:(lia)) as G0.
    fold ct in G0. rewrite Hct in G0. change (zlen h8) with 8 in G0. rewrite Eb'. exact G0. }
  rewrite G. rewrite !cd_slc_ok by lia. cbn [ml_bind].
  assert (S2 : slice bytes (Z.to_nat (8 + ol)) (Z.to_nat (zlen bytes)) = payload).
  { rewrite Hn, Eb'. rewrite app_assoc. apply slice_to_end; rewrite app_length; unfold zlen in *; cbn [length h8] in *; lia. }
  rewrite S2.
  eexists. split; [reflexivity|]. cbn [gn_payload gn_version gn_vni gn_protocol gn_oam gn_critical gn_options gn_optlen].
  rewrite El, Eos, Eol.
  split; [reflexivity|]. split; [unfold b0; lia|]. split; [lia|]. split; [lia|].
  split; [unfold b1; destruct (gn_oam l), (gn_critical l); reflexivity|].
  split; [unfold b1; destruct (gn_oam l), (gn_critical l); reflexivity|]. split; reflexivity.
Qed.
