(* Ldns — lemmas about the decoder model: no checked operation fails (C19), fuel bounds, and the
   receiver's old state is not consulted once the length check has passed (C05). *)
From GP Require Import Base ListX N6Lib LdnsModel.
From Coq Require Import Lia ZifyBool ZifyNat.
Ltac Zify.zify_post_hook ::= Z.div_mod_to_equations.
Open Scope Z_scope.

Lemma idx_inv data i b : bytes_ok data -> n6_idx data i = Some b -> 0 <= i < n6_len data /\ 0 <= b < 256.
Proof.
  intros Hb H. unfold n6_idx in H. destruct ((0 <=? i) && (i <? n6_len data)) eqn:E; [|discriminate].
  injection H as <-. split; [lia|]. apply nthZ_ok; [exact Hb|]. unfold n6_len in E. lia.
Qed.

Lemma idx_none data i : n6_idx data i = None -> i < 0 \/ n6_len data <= i.
Proof. unfold n6_idx. destruct ((0 <=? i) && (i <? n6_len data)) eqn:E; [discriminate|]. lia. Qed.

Lemma slice_inv data a b s : bytes_ok data -> n6_slice data a b = Some s -> bytes_ok s /\ n6_len s = b - a.
Proof.
  intros Hb H. split; [|eapply n6_slice_len; exact H].
  unfold n6_slice in H. destruct ((0 <=? a) && (a <=? b) && (b <=? n6_len data)); [|discriminate].
  injection H as <-. apply bytes_ok_slice, Hb.
Qed.

Lemma be_val_nonneg l : bytes_ok l -> 0 <= be_val l.
Proof.
  intros H. unfold be_val. assert (G : forall acc, 0 <= acc -> 0 <= fold_left (fun acc b => acc * 256 + b) l acc).
  { induction H as [|x l Hx Hl IH]; intros acc Ha; cbn [fold_left]; [exact Ha|]. apply IH. unfold byte_ok in Hx. lia. }
  apply G. lia.
Qed.

(* ---------------------------------------------------------------- checked reads *)
Lemma rd8_ok data i : 0 <= i < n6_len data -> exists b, rd8 data i = Ok b.
Proof. intros H. unfold rd8. rewrite n6_idx_eq by lia. eexists; reflexivity. Qed.

Lemma rdsl_ok data a b : 0 <= a <= b -> b <= n6_len data -> rdsl data a b = Ok (slice data (Z.to_nat a) (Z.to_nat b)).
Proof. intros H1 H2. unfold rdsl. rewrite n6_slice_eq by lia. reflexivity. Qed.

Lemma rd16_ok data i : 0 <= i -> i + 2 <= n6_len data -> exists v, rd16 data i = Ok v.
Proof. intros. unfold rd16. rewrite rdsl_ok by lia. cbn [obind]. eexists; reflexivity. Qed.

Lemma rd32_ok data i : 0 <= i -> i + 4 <= n6_len data -> exists v, rd32 data i = Ok v.
Proof. intros. unfold rd32. rewrite rdsl_ok by lia. cbn [obind]. eexists; reflexivity. Qed.

Lemma rd16_nonneg data i v : bytes_ok data -> rd16 data i = Ok v -> 0 <= v.
Proof.
  intros Hb H. unfold rd16, rdsl in H. destruct (n6_slice data i (i + 2)) eqn:E; cbn in H; [|discriminate].
  injection H as <-. apply be_val_nonneg. eapply slice_inv; eauto.
Qed.

(* ---------------------------------------------------------------- collectDNSWireLabels *)
Lemma collect_loop_some data : bytes_ok data -> forall fuel off end_ acc,
  0 <= off <= n6_len data -> n6_len data - off < Z.of_nat fuel ->
  collect_loop data fuel off end_ acc <> None.
Proof.
  intros Hb. induction fuel as [|f IH]; intros off end_ acc H1 H2; [lia|].
  cbn [collect_loop]. destruct (off <? end_); [|discriminate].
  destruct (n6_idx data off) as [b|] eqn:Ei; [|discriminate].
  destruct (idx_inv _ _ _ Hb Ei) as [Hi Hbyte].
  destruct (negb (Z.land b 192 =? 0)); [discriminate|].
  destruct ((off + b + 1 >? end_) || (off + b + 1 >? n6_len data)) eqn:Ec; [discriminate|].
  rewrite n6_slice_eq by lia. apply IH; lia.
Qed.

Lemma collect_some data off end_ : bytes_ok data -> 0 <= off <= n6_len data -> collect data off end_ <> None.
Proof. intros Hb H. unfold collect. apply collect_loop_some; [exact Hb|exact H|]. unfold n6_len. lia. Qed.

(* ---------------------------------------------------------------- decodeName *)
(* what callers need of a decodeName result: no panic, and the returned index lies in (offset, len] *)
Definition nres_good (data : list Z) (offset : Z) (r : nres) : Prop :=
  match r with
  | NPanic _ => False
  | NErr _ => True
  | NOk _ _ next _ => offset < next <= n6_len data
  end.

Definition nres_np (r : nres) : Prop := match r with NPanic _ => False | _ => True end.

Lemma dn_finish_good data offset start index buf l :
  offset <= index -> index < n6_len data -> nres_good data offset (dn_finish start index buf l).
Proof. intros. unfold dn_finish. destruct (n6_len buf <=? start); cbn; lia. Qed.

Lemma dn_loop_good data rec : bytes_ok data -> (forall o b, nres_np (rec o b)) ->
  forall fuel offset start index buf l,
  0 <= offset <= index -> index < n6_len data -> n6_len data - index < Z.of_nat fuel ->
  nres_good data offset (dn_loop data rec fuel offset start index buf l).
Proof.
  intros Hb Hrec. induction fuel as [|f IH]; intros offset start index buf l H1 H2 H3; [lia|].
  cbn [dn_loop]. rewrite n6_idx_eq by lia.
  assert (Hbyte : 0 <= nthZ data (Z.to_nat index) < 256) by (apply nthZ_ok; [exact Hb|unfold n6_len in H2; lia]).
  set (b := nthZ data (Z.to_nat index)) in *.
  destruct (b =? 0); [apply dn_finish_good; lia|].
  destruct (Z.land b 192 =? 192).
  - destruct (index + 2 >? n6_len data) eqn:E2; [exact I|].
    rewrite n6_slice_eq by lia.
    destruct (Z.land (be_val (slice data (Z.to_nat index) (Z.to_nat (index + 2)))) 16383 >? n6_len data); [exact I|].
    match goal with |- context [rec ?o ?bb] => pose proof (Hrec o bb) as Hr; destruct (rec o bb) as [pn pl pnext buf'|e|s] end;
      [|exact I|exact Hr].
    destruct pl as [pls|].
    + destruct l as [ls|].
      * apply dn_finish_good; lia.
      * destruct (collect data offset index) eqn:Ec; [apply dn_finish_good; lia|].
        exfalso. eapply collect_some; [exact Hb| |exact Ec]. lia.
    + destruct l as [ls|]; [|apply dn_finish_good; lia].
      destruct (0 <? n6_len pn); apply dn_finish_good; lia.
  - destruct (Z.land b 192 =? 64); [exact I|]. destruct (Z.land b 192 =? 128); [exact I|].
    destruct (index + b + 1 - offset >? 255); [exact I|].
    destruct ((index + b + 1 <? index + 1) || (index + b + 1 >? n6_len data)) eqn:Eb; [exact I|].
    rewrite n6_slice_eq by lia.
    set (label := slice data _ _).
    assert (Hc : forall x, (match l with
              | Some ls => Some (Some (ls ++ [label]))
              | None => if needs_pres label then collect data offset (index + b + 1) else Some None
              end) = x -> x <> None).
    { intros x <-. destruct l; [discriminate|]. destruct (needs_pres label); [|discriminate].
      apply collect_some; [exact Hb|lia]. }
    destruct (match l with Some ls => _ | None => _ end) as [l'|] eqn:El; [|exfalso; eapply Hc; eauto].
    destruct (index + b + 1 >=? n6_len data) eqn:Ee; [exact I|].
    specialize (IH offset start (index + b + 1) (buf ++ 46 :: label) l').
    assert (G : nres_good data offset (dn_loop data rec f offset start (index + b + 1) (buf ++ 46 :: label) l')) by (apply IH; lia).
    exact G.
Qed.

Lemma decode_name_lv_good data : bytes_ok data -> forall lf offset buf,
  nres_good data offset (decode_name_lv lf data offset buf).
Proof.
  intros Hb. induction lf as [|lf IH]; intros offset buf; [exact I|].
  cbn [decode_name_lv]. destruct (offset >=? n6_len data) eqn:E1; [exact I|].
  destruct (offset <? 0) eqn:E2; [exact I|].
  apply dn_loop_good; [exact Hb| |lia|lia|unfold n6_len; lia].
  intros o b. specialize (IH o b). destruct (decode_name_lv lf data o b); cbn in *; auto.
Qed.

Lemma decode_name_good data offset buf : bytes_ok data -> nres_good data offset (decode_name data offset buf).
Proof. intros. apply decode_name_lv_good. assumption. Qed.

(* ---------------------------------------------------------------- questions, character strings, RDATA *)
Definition out_np {A} (o : outcome A) : Prop := match o with Panic _ => False | _ => True end.

Lemma q_decode_good data offset buf : bytes_ok data -> 0 <= offset ->
  match q_decode data offset buf with
  | Panic _ => False
  | Err _ => True
  | Ok (_, off', _) => offset < off' <= n6_len data
  end.
Proof.
  intros Hb H0. unfold q_decode. pose proof (decode_name_good data offset buf Hb) as G.
  destruct (decode_name data offset buf) as [name l endq buf'|e|s]; cbn in G; [|exact I|exact G].
  destruct (n6_len data <? endq + 4) eqn:E; [exact I|].
  destruct (rd16_ok data endq) as [t Ht]; [lia|lia|]. destruct (rd16_ok data (endq + 2)) as [c Hc]; [lia|lia|].
  rewrite Ht, Hc. cbn [obind]. lia.
Qed.

Lemma cs_loop_np data : bytes_ok data -> forall fuel index acc,
  0 <= index <= n6_len data -> n6_len data - index < Z.of_nat fuel -> out_np (cs_loop data fuel index acc).
Proof.
  intros Hb. induction fuel as [|f IH]; intros index acc H1 H2; [lia|].
  cbn [cs_loop]. destruct (index =? n6_len data) eqn:E; [exact I|].
  unfold rd8. rewrite n6_idx_eq by lia. cbn [opt_out obind].
  assert (Hbyte : 0 <= nthZ data (Z.to_nat index) < 256) by (apply nthZ_ok; [exact Hb|unfold n6_len in *; lia]).
  set (b := nthZ data (Z.to_nat index)) in *.
  destruct (index + 1 + b >? n6_len data) eqn:E2; [exact I|].
  rewrite rdsl_ok by lia. cbn [obind]. apply IH; lia.
Qed.

Lemma char_strings_np data : bytes_ok data -> out_np (char_strings data).
Proof. intros Hb. unfold char_strings. apply cs_loop_np; [exact Hb|pose proof (n6_len_nonneg data); lia|unfold n6_len; lia]. Qed.

Lemma rd_name_good data offset buf : bytes_ok data ->
  match rd_name data offset buf with
  | Panic _ => False
  | Err _ => True
  | Ok (_, _, next, _) => offset < next <= n6_len data
  end.
Proof.
  intros Hb. unfold rd_name. pose proof (decode_name_good data offset buf Hb) as G.
  destruct (decode_name data offset buf); cbn in G; auto.
Qed.

Ltac rdname Hb :=
  match goal with |- context [rd_name ?d ?o ?b] =>
    let G := fresh "G" in pose proof (rd_name_good d o b Hb) as G;
    destruct (rd_name d o b) as [[[[? ?] ?] ?]|?|?]; [|exact I|exact G]; cbn [obind]
  end.

Lemma rd8_ok' data i : 0 <= i < n6_len data -> exists b, rd8 data i = Ok b.
Proof. apply rd8_ok. Qed.

Lemma naptr_str_good data offset : bytes_ok data -> 0 <= offset ->
  match naptr_str data offset with
  | Panic _ => False
  | Err _ => True
  | Ok (_, o') => offset < o' <= n6_len data
  end.
Proof.
  intros Hb H0. unfold naptr_str. destruct (n6_len data <? offset + 1) eqn:E; [exact I|].
  unfold rd8. rewrite n6_idx_eq by lia. cbn [opt_out obind].
  assert (Hbyte : 0 <= nthZ data (Z.to_nat offset) < 256) by (apply nthZ_ok; [exact Hb|unfold n6_len in *; lia]).
  set (b := nthZ data (Z.to_nat offset)) in *.
  destruct (n6_len data <? offset + 1 + b) eqn:E2; [exact I|].
  rewrite rdsl_ok by lia. cbn [obind]. lia.
Qed.

Lemma opts_loop_np data : bytes_ok data -> forall fuel i acc,
  0 <= i <= n6_len data -> n6_len data - i < Z.of_nat fuel -> out_np (opts_loop data fuel i acc).
Proof.
  intros Hb. induction fuel as [|f IH]; intros i acc H1 H2; [lia|].
  - cbn [opts_loop]. destruct (i <? n6_len data) eqn:E; [|exact I].
    destruct (n6_len data <? i + 4) eqn:E4; [exact I|].
    destruct (rd16_ok data i) as [c Hc]; [lia|lia|]. rewrite Hc. cbn [obind].
    destruct (rd16_ok data (i + 2)) as [l Hl]; [lia|lia|]. rewrite Hl. cbn [obind].
    pose proof (rd16_nonneg _ _ _ Hb Hl).
    destruct (i + 4 + l >? n6_len data) eqn:E5; [exact I|].
    rewrite rdsl_ok by lia. cbn [obind]. apply IH; lia.
Qed.

Lemma svc_loop_np data : bytes_ok data -> forall fuel i acc,
  0 <= i <= n6_len data -> n6_len data - i < Z.of_nat fuel -> out_np (svc_loop data fuel i acc).
Proof.
  intros Hb. induction fuel as [|f IH]; intros i acc H1 H2; [lia|].
  - cbn [svc_loop]. destruct (i <? n6_len data) eqn:E; [|exact I].
    destruct (i + 4 >? n6_len data) eqn:E4; [exact I|].
    destruct (rd16_ok data i) as [c Hc]; [lia|lia|]. rewrite Hc. cbn [obind].
    destruct (rd16_ok data (i + 2)) as [l Hl]; [lia|lia|]. rewrite Hl. cbn [obind].
    pose proof (rd16_nonneg _ _ _ Hb Hl).
    destruct (i + 4 + l >? n6_len data) eqn:E5; [exact I|].
    rewrite rdsl_ok by lia. cbn [obind]. apply IH; lia.
Qed.

Ltac rd16s data := repeat match goal with |- context [rd16 data ?i] =>
      let v := fresh "v" in let Hv := fresh "Hv" in destruct (rd16_ok data i) as [v Hv]; [lia|lia|]; rewrite Hv; cbn [obind] end.
Ltac rd32s data := repeat match goal with |- context [rd32 data ?i] =>
      let v := fresh "v" in let Hv := fresh "Hv" in destruct (rd32_ok data i) as [v Hv]; [lia|lia|]; rewrite Hv; cbn [obind] end.
Ltac rd8s data := repeat match goal with |- context [rd8 data ?i] =>
      let v := fresh "v" in let Hv := fresh "Hv" in destruct (rd8_ok data i) as [v Hv]; [lia|]; rewrite Hv; cbn [obind] end.

Lemma decode_rdata_np r data offset buf : bytes_ok data -> bytes_ok (r_data r) -> 0 <= offset ->
  n6_len data = offset + n6_len (r_data r) ->
  out_np (decode_rdata r data offset buf).
Proof.
  intros Hb Hd H0 Hlen. unfold decode_rdata. pose proof (n6_len_nonneg (r_data r)) as Hd0.
  destruct ((r_type r =? T_A) || (r_type r =? T_AAAA)); [exact I|].
  destruct ((r_type r =? T_TXT) || (r_type r =? T_HINFO)).
  { pose proof (char_strings_np (r_data r) Hd) as G. destruct (char_strings (r_data r)); cbn in *; auto. }
  destruct (r_type r =? T_NS); [rdname Hb; exact I|].
  destruct (r_type r =? T_CNAME); [rdname Hb; exact I|].
  destruct (r_type r =? T_PTR); [rdname Hb; exact I|].
  destruct (r_type r =? T_SOA).
  { rdname Hb. rdname Hb.
    match goal with |- context [n6_len data <? ?e + 20] => destruct (n6_len data <? e + 20) eqn:E; [exact I|] end.
    rd32s data. exact I. }
  destruct (r_type r =? T_MX).
  { destruct (n6_len data <? offset + 2) eqn:E; [exact I|]. rd16s data. rdname Hb. exact I. }
  destruct (r_type r =? T_SRV).
  { destruct (n6_len data <? offset + 6) eqn:E; [exact I|]. rd16s data. rdname Hb. exact I. }
  destruct (r_type r =? T_URI).
  { destruct (n6_len (r_data r) <? 4) eqn:E; [exact I|]. rd16s data. rewrite rdsl_ok by lia. exact I. }
  destruct (r_type r =? T_NAPTR).
  { destruct (n6_len data <? offset + 4) eqn:E; [exact I|]. rd16s data.
    pose proof (naptr_str_good data (offset + 4) Hb ltac:(lia)) as G1.
    destruct (naptr_str data (offset + 4)) as [[s1 o1]|?|?]; [|exact I|exact G1]. cbn [obind].
    pose proof (naptr_str_good data o1 Hb ltac:(lia)) as G2.
    destruct (naptr_str data o1) as [[s2 o2]|?|?]; [|exact I|exact G2]. cbn [obind].
    pose proof (naptr_str_good data o2 Hb ltac:(lia)) as G3.
    destruct (naptr_str data o2) as [[s3 o3]|?|?]; [|exact I|exact G3]. cbn [obind].
    rdname Hb. exact I. }
  destruct (r_type r =? T_OPT).
  { unfold decode_opts. destruct (offset =? n6_len data); [exact I|]. destruct (offset + 4 >? n6_len data) eqn:Eo4; [exact I|].
    pose proof (opts_loop_np data Hb (S (length data)) offset [] ltac:(lia) ltac:(unfold n6_len; lia)) as G.
    destruct (opts_loop data (S (length data)) offset []); cbn in *; auto. }
  destruct (r_type r =? T_RRSIG).
  { destruct (n6_len data <? offset + 18) eqn:E; [exact I|]. rd16s data. rd8s data. rd32s data. rd16s data.
    pose proof (decode_name_good data (offset + 18) [] Hb) as G.
    destruct (decode_name data (offset + 18) []) as [nm l next sbuf|?|?]; cbn in G; [|exact I|exact G].
    rewrite rdsl_ok by lia. exact I. }
  destruct (r_type r =? T_DNSKEY).
  { destruct (n6_len data <? offset + 4) eqn:E; [exact I|]. rd16s data. rd8s data. rewrite rdsl_ok by lia. exact I. }
  destruct ((r_type r =? T_SVCB) || (r_type r =? T_HTTPS)); [|exact I].
  destruct (offset =? n6_len data) eqn:E1; [exact I|]. destruct (offset + 3 >? n6_len data) eqn:E2; [exact I|].
  rd16s data.
  match goal with |- context [rd_name ?d ?o ?b] =>
    let G := fresh "G" in pose proof (rd_name_good d o b Hb) as G;
    destruct (rd_name d o b) as [[[[tg l] ofs] buf']|?|?]; [|exact I|exact G]; cbn [obind] end.
  pose proof (svc_loop_np data Hb (S (length data)) ofs [] ltac:(lia) ltac:(unfold n6_len; lia)) as G2.
  destruct (svc_loop data (S (length data)) ofs []); cbn in *; auto.
Qed.

Lemma rr_decode_good data offset buf : bytes_ok data -> 0 <= offset ->
  match rr_decode data offset buf with
  | Panic _ => False
  | Err _ => True
  | Ok (_, off', _) => offset < off' <= n6_len data
  end.
Proof.
  intros Hb H0. unfold rr_decode. pose proof (decode_name_good data offset buf Hb) as G.
  destruct (decode_name data offset buf) as [name l endq buf1|e|s]; cbn in G; [|exact I|exact G].
  destruct (n6_len data <? endq + 10) eqn:E; [exact I|].
  destruct (rd16_ok data endq) as [t Ht]; [lia|lia|]. rewrite Ht. cbn [obind].
  destruct (rd16_ok data (endq + 2)) as [c Hc]; [lia|lia|]. rewrite Hc. cbn [obind].
  destruct (rd32_ok data (endq + 4)) as [ttl Httl]; [lia|lia|]. rewrite Httl. cbn [obind].
  destruct (rd16_ok data (endq + 8)) as [dl Hdl]; [lia|lia|]. rewrite Hdl. cbn [obind].
  pose proof (rd16_nonneg _ _ _ Hb Hdl) as Hdl0.
  destruct (endq + 10 + dl >? n6_len data) eqn:E2; [exact I|].
  rewrite rdsl_ok by lia. cbn [obind].
  set (rdata := slice data _ _). set (r := rr_meta_name _ name l).
  destruct (0 <? dl) eqn:E3; [|lia].
  rewrite rdsl_ok by lia. cbn [obind].
  assert (Hr : r_data r = rdata) by (unfold r, rr_meta_name; destruct l; reflexivity).
  pose proof (decode_rdata_np r (slice data (Z.to_nat 0) (Z.to_nat (endq + 10 + dl))) (endq + 10) buf1) as P.
  destruct (decode_rdata r _ (endq + 10) buf1) as [[r' buf2]|e|s]; cbn [obind]; [lia|exact I|].
  apply P; [apply bytes_ok_slice, Hb|rewrite Hr; apply bytes_ok_slice, Hb|lia|].
  rewrite Hr. unfold rdata, n6_len. rewrite !slice_length by (unfold n6_len in *; lia). lia.
Qed.

Lemma q_loop_np data : bytes_ok data -> forall n offset buf acc, 0 <= offset ->
  match snd (q_loop data n offset buf acc) with
  | Panic _ => False | Err _ => True | Ok (off', _) => 0 <= off' end.
Proof.
  intros Hb. induction n as [|n IH]; intros offset buf acc H0; cbn [q_loop]; [cbn; lia|].
  pose proof (q_decode_good data offset buf Hb H0) as G.
  destruct (q_decode data offset buf) as [[[q off'] buf']|e|s]; [|exact I|exact G]. apply IH. lia.
Qed.

Lemma rr_loop_np data ext : bytes_ok data -> forall n offset buf acc rc, 0 <= offset ->
  match snd (rr_loop data ext n offset buf acc rc) with
  | Panic _ => False | Err _ => True | Ok (off', _) => 0 <= off' end.
Proof.
  intros Hb. induction n as [|n IH]; intros offset buf acc rc H0; cbn [rr_loop]; [cbn; lia|].
  pose proof (rr_decode_good data offset buf Hb H0) as G.
  destruct (rr_decode data offset buf) as [[[r off'] buf']|e|s]; [|exact I|exact G]. apply IH. lia.
Qed.

(* ---------------------------------------------------------------- DecodeFromBytes *)
Lemma hdr_reads data : 12 <= n6_len data ->
  exists b2 b3 sid sqd san sns sar,
    n6_idx data 2 = Some b2 /\ n6_idx data 3 = Some b3 /\ n6_slice data 0 2 = Some sid /\
    n6_slice data 4 6 = Some sqd /\ n6_slice data 6 8 = Some san /\ n6_slice data 8 10 = Some sns /\
    n6_slice data 10 12 = Some sar.
Proof.
  intros H. rewrite !n6_idx_eq by lia. rewrite !n6_slice_eq by lia. repeat eexists.
Qed.

Theorem decode_into_no_panic old data : bytes_ok data -> is_panic (snd (fst (decode_into old data))) = false.
Proof.
  intros Hb. unfold decode_into. destruct (n6_len data <? 12) eqn:E; [reflexivity|].
  destruct (hdr_reads data ltac:(lia)) as (b2 & b3 & sid & sqd & san & sns & sar & H2 & H3 & Hid & Hqd & Han & Hns & Har).
  rewrite H2, H3, Hid, Hqd, Han, Hns, Har.
  pose proof (q_loop_np data Hb (Z.to_nat (be_val sqd)) 12 [] [] ltac:(lia)) as Gq.
  destruct (q_loop data (Z.to_nat (be_val sqd)) 12 [] []) as [qs [[off1 buf1]|e|s]]; cbn [snd] in Gq; [|reflexivity|contradiction].
  pose proof (rr_loop_np data false Hb (Z.to_nat (be_val san)) off1 buf1 [] (Z.land b3 15) Gq) as Ga.
  destruct (rr_loop data false (Z.to_nat (be_val san)) off1 buf1 [] (Z.land b3 15)) as [[ans rc1] [[off2 buf2]|e|s]]; cbn [snd] in Ga; [|reflexivity|contradiction].
  pose proof (rr_loop_np data false Hb (Z.to_nat (be_val sns)) off2 buf2 [] (Z.land b3 15) Ga) as Gn.
  destruct (rr_loop data false (Z.to_nat (be_val sns)) off2 buf2 [] (Z.land b3 15)) as [[aus rc2] [[off3 buf3]|e|s]]; cbn [snd] in Gn; [|reflexivity|contradiction].
  pose proof (rr_loop_np data true Hb (Z.to_nat (be_val sar)) off3 buf3 [] (Z.land b3 15) Gn) as Gr.
  destruct (rr_loop data true (Z.to_nat (be_val sar)) off3 buf3 [] (Z.land b3 15)) as [[ads rc3] [[off4 buf4]|e|s]]; cbn [snd] in Gr; [|reflexivity|contradiction].
  repeat match goal with |- context [if ?c then _ else _] => destruct c end; reflexivity.
Qed.

(* C05: the old value is returned unchanged when the input is shorter than a header and is not
   consulted at all otherwise *)
Lemma decode_into_old_irrelevant old data : 12 <= n6_len data -> decode_into old data = decode_into dns_fresh data.
Proof.
  intros H. unfold decode_into. destruct (n6_len data <? 12) eqn:E; [lia|].
  destruct (hdr_reads data H) as (b2 & b3 & sid & sqd & san & sns & sar & H2 & H3 & Hid & Hqd & Han & Hns & Har).
  rewrite H2, H3, Hid, Hqd, Han, Hns, Har. reflexivity.
Qed.

Lemma decode_into_short old data : n6_len data < 12 -> decode_into old data = (old, Err E_SHORT, true).
Proof. intros H. unfold decode_into. destruct (n6_len data <? 12) eqn:E; [reflexivity|lia]. Qed.

Theorem decode_into_fresh old data :
  let '(l1, r1, t1) := decode_into old data in
  let '(l2, r2, t2) := decode_into dns_fresh data in
  r1 = r2 /\ t1 = t2 /\ (12 <= n6_len data -> l1 = l2) /\ (n6_len data < 12 -> l1 = old /\ r1 = Err E_SHORT).
Proof.
  destruct (Z_lt_ge_dec (n6_len data) 12) as [H|H].
  - rewrite !decode_into_short by exact H. repeat split; try lia.
  - rewrite (decode_into_old_irrelevant old) by lia.
    destruct (decode_into dns_fresh data) as [[l r] t]. repeat split; try lia.
Qed.
