(* Lip6 — re-serializing the decoded IPv6 layer gives the same bytes (C06 fixpoint clause) *)
From GP Require Import Base ListX N6Lib Lip6Model Lip6Proofs Lip6Rt Lip6Rt2 Lip6Rt3 Lip6Idem.
From Coq Require Import Lia ZifyBool ZifyNat.
Open Scope Z_scope.

(* without hop-by-hop header and with FixLengths the bytes depend on these fields only *)
Lemma ip6_wire_nohbh_fields a b payload : p_hbh a = None -> p_hbh b = None ->
  p_version a = p_version b -> p_tclass a = p_tclass b -> p_flow a = p_flow b -> p_next a = p_next b -> p_hop a = p_hop b ->
  p_src a = p_src b -> p_dst a = p_dst b -> (65535 <? n6_len payload) = false ->
  fst (ip6_wire a payload true) = fst (ip6_wire b payload true).
Proof.
  intros Ha Hb Hv Ht Hf Hn Hh Hs Hd HJ. rewrite !ip6_wire_finish. cbv zeta. rewrite HJ, Ha, Hb.
  unfold finish. rewrite HJ. cbn [negb andb]. cbv zeta. simp_l. rewrite ?Ha, ?Hb, ?Hs, ?Hd.
  destruct (negb (n6_len (p_src b) =? 16)); [reflexivity|]. destruct (negb (n6_len (p_dst b) =? 16)); [reflexivity|].
  cbn [fst]. unfold ip6_hdr_bytes. simp_l. rewrite ?Hv, ?Ht, ?Hf, ?Hn, ?Hh, ?Hs, ?Hd. reflexivity.
Qed.

Lemma ip6_fields_proj a b : ip6_fields a = ip6_fields b ->
  p_version a = p_version b /\ p_tclass a = p_tclass b /\ p_flow a = p_flow b /\ p_length a = p_length b /\
  p_next a = p_next b /\ p_hop a = p_hop b /\ p_src a = p_src b /\ p_dst a = p_dst b.
Proof. unfold ip6_fields. intros H. injection H as -> -> -> -> -> -> -> -> _. repeat split. Qed.

Lemma ip6_fixpoint_nohbh l payload junk junk' : ip6_okb l = true -> p_hbh l = None -> 1 <= n6_len payload <= 65535 ->
  match ip6_roundtrip l payload junk with
  | (Ok bytes, (l2, _, _)) => fst (ip6_serialize l2 payload true true junk') = Ok bytes
  | _ => False
  end.
Proof.
  intros Hok Hh Hlen. destruct (ip6_roundtrip_nohbh l payload junk Hok Hh Hlen) as (bytes & l2 & HR & Hp & Hc & HF & HL).
  rewrite HR. assert (Hw : ip6_wf l) by (unfold ip6_wf; rewrite Hh; exact I).
  unfold ip6_roundtrip in HR. rewrite (ip6_serialize_closed l payload true true junk Hw) in HR, HF.
  destruct (ip6_wire l payload true) as [r l3] eqn:EW. destruct r as [b|e|s]; try discriminate HR.
  injection HR as <- HD. cbn [snd] in HF.
  assert (H2 : p_hbh l2 = None).
  { unfold ip6_fields in HF. destruct (p_hbh l2); [|reflexivity].
    assert (H3 : p_hbh l3 = None).
    { pose proof (ip6_wire_finish l payload true) as W. cbv zeta in W. replace (65535 <? n6_len payload) with false in W by lia.
      rewrite Hh, EW in W. destruct (finish_next_hbh false true payload l) as [_ X]. rewrite <- W in X. cbn [snd] in X. rewrite X. exact Hh. }
    rewrite H3 in HF. discriminate HF. }
  assert (H3 : p_hbh l3 = None).
  { pose proof (ip6_wire_finish l payload true) as W. cbv zeta in W. replace (65535 <? n6_len payload) with false in W by lia.
    rewrite Hh, EW in W. destruct (finish_next_hbh false true payload l) as [_ X]. rewrite <- W in X. cbn [snd] in X. rewrite X. exact Hh. }
  rewrite ip6_serialize_closed by (unfold ip6_wf; rewrite H2; exact I).
  destruct (ip6_fields_proj l2 l3 HF) as (E1 & E2 & E3 & _ & E5 & E6 & E7 & E8).
  rewrite (ip6_wire_nohbh_fields l2 l3 payload H2 H3 E1 E2 E3 E5 E6 E7 E8 ltac:(lia)).
  pose proof (ip6_wire_idem l payload true) as HI. rewrite EW in HI. cbn [snd] in HI. rewrite HI. reflexivity.
Qed.

Lemma ext_wire_fst_payload b h p q fx : fst (ext_wire b (ext_set_payload h p) q fx) = fst (ext_wire b h q fx).
Proof.
  unfold ext_wire, ext_set_payload. cbn [e_opts e_next e_hlen e_alen e_contents e_payload].
  destruct (tlvs_ser b fx (e_opts h) 2) as [[segs os'] total]. destruct (negb _); reflexivity.
Qed.

Lemma ip6_roundtrip_hbh_fix l h payload junk : ip6_okb l = true -> p_hbh l = Some h -> no_jumbo (e_opts h) ->
  bytes_ok payload -> ext_size h + n6_len payload <= 65535 ->
  exists bytes l2 h2,
    ip6_roundtrip l payload junk = (Ok bytes, (l2, Ok tt, false)) /\
    p_payload l2 = payload /\ p_hbh l2 = Some h2 /\ e_payload h2 = payload /\
    p_length l2 = ext_size h + n6_len payload /\
    ip6_fields l2 = ip6_fields (snd (ip6_serialize l payload true true junk)) /\
    p_next l2 = 0 /\ ext_wf h2 /\
    fst (ext_wire false h2 payload true) = Ok (skipn 40 bytes) /\
    exists h3, p_hbh (snd (ip6_serialize l payload true true junk)) = Some h3 /\ ext_wf h3 /\
               fst (ext_wire false h3 payload true) = Ok (skipn 40 bytes).
Proof.
  intros Hok Hh Hnj Hp Hfit. pose proof (ip6_okb_spec l Hok) as (Hv & Htc & Hfl & Hnh & Hhop & Hsb & Hsl & Hdb & Hdl & Hhb).
  rewrite Hh in Hhb. destruct Hhb as [Hokh Hn0]. pose proof (ext_okb_wf h Hokh) as Hwh.
  assert (Hw : ip6_wf l) by (unfold ip6_wf; rewrite Hh; exact Hwh).
  pose proof (n6_len_nonneg payload) as Hpn.
  (* the extension header: serialized, and decoded again *)
  destruct (ext_roundtrip_ok h payload [] Hokh Hp) as (bytes & h2 & HR & Hn2 & Hhl2 & Hpl2 & Hnp2 & _).
  unfold ext_roundtrip, ext_serialize in HR, Hhl2.
  pose proof (ext_serialize_gen_closed false h payload true [] Hwh) as HC.
  destruct (ext_serialize_gen false h payload true []) as [[r0 h0] j0].
  destruct (ext_wire false h payload true) as [r h'] eqn:EW. injection HC as -> ->. cbn [snd] in Hhl2.
  destruct r as [bytes0|e|s]; try discriminate HR. injection HR as -> HD.
  destruct (ext_wire_facts h payload bytes h' Hwh EW) as (HLb & Hnx & Hnp' & H8).
  destruct (ext_wire_bytes false h payload true bytes h' Hwh Hp EW) as (Hbb & _ & _ & _).
  pose proof (ext_decode_ok false ext_fresh bytes h2 false Hbb HD) as (_ & Hal & Hall & _ & _ & _ & _ & Hpay).
  (* serialization of the IPv6 layer *)
  unfold ip6_roundtrip. rewrite ip6_serialize_closed by exact Hw. unfold ip6_wire.
  replace (65535 <? n6_len payload) with false by lia. rewrite Hh, EW. cbn [andb negb].
  replace (65535 <? n6_len bytes) with false by lia.
  unfold set_len_next. cbn [p_version p_tclass p_flow p_length p_next p_hop p_src p_dst p_hbh p_contents p_payload snd].
  replace (negb (n6_len (p_src l) =? 16)) with false by lia. replace (negb (n6_len (p_dst l) =? 16)) with false by lia.
  assert (Hu16 : u16 (n6_len bytes) = n6_len bytes) by (unfold u16; lia). rewrite Hu16.
  set (l3 := mkIp6 (p_version l) (p_tclass l) (p_flow l) (n6_len bytes) 0 (p_hop l) (p_src l) (p_dst l) (Some h') (p_contents l) (p_payload l)).
  assert (H3 : ip6_hdr_ok l3) by (unfold ip6_hdr_ok; cbn; repeat split; lia).
  rewrite (ip6_decode_wire ip6_fresh l3 bytes H3). cbn [l3 p_version p_tclass p_flow p_length p_next p_hop p_src p_dst].
  unfold ip6_body. cbn [p_next p_payload p_length Z.eqb]. rewrite HD. cbv zeta.
  unfold get_jumbo. rewrite (find_jumbo_none (e_opts h) (e_opts h2) Hnj Hnp2). cbn [andb].
  replace (n6_len bytes =? 0) with false by lia.
  rewrite (n6_from_eq bytes (e_alen h2)) by lia. rewrite <- Hpay, Hpl2.
  unfold ip6_trim. cbn [set_payload p_length p_payload p_hbh].
  replace (n6_len bytes =? 0) with false by lia.
  assert (Hal2 : n6_len bytes - e_alen h2 = n6_len payload).
  { assert (HX : n6_len (e_payload h2) = n6_len bytes - e_alen h2) by (rewrite Hpay; unfold n6_len in *; rewrite skipn_length; lia).
    rewrite Hpl2 in HX. lia. }
  rewrite Hal2. replace (n6_len payload <? 0) with false by lia. replace (n6_len payload <? n6_len payload) with false by lia.
  rewrite n6_slice_eq by lia. change (Z.to_nat 0) with 0%nat. replace (Z.to_nat (n6_len payload)) with (length payload) by (unfold n6_len; lia).
  rewrite slice_0_all.
  assert (H40 : skipn 40 (ip6_hdr_bytes l3 ++ bytes) = bytes).
  { destruct (ip6_head_wire l3 bytes H3) as [_ HL40]. replace 40%nat with (length (ip6_hdr_bytes l3)) by (unfold n6_len in HL40; lia).
    rewrite skipn_app, skipn_all, Nat.sub_diag. reflexivity. }
  pose proof (ext_decode_wf false ext_fresh bytes Hbb ltac:(constructor)) as Hwf2. unfold ext_decode_into in HD. rewrite HD in Hwf2. cbn [fst] in Hwf2.
  pose proof (ext_decode_ok false ext_fresh bytes h2 false Hbb HD) as (_ & _ & _ & _ & _ & _ & Hcont & _).
  assert (HS2 : fst (ext_wire false h2 payload true) = Ok bytes).
  { pose proof (ext_serialize_decoded ext_fresh bytes h2 false payload true [] Hbb HD) as X. unfold ext_serialize in X.
    pose proof (ext_serialize_gen_closed false h2 payload true [] Hwf2) as HC2.
    destruct (ext_serialize_gen false h2 payload true []) as [[r2 hh2] jj2]. rewrite <- HC2. cbn [fst] in *. rewrite X.
    f_equal. rewrite Hcont, <- Hpl2, Hpay. apply firstn_skipn. }
  eexists. eexists. eexists. split; [reflexivity|]. cbn [p_payload p_hbh p_length p_next ext_set_payload e_payload].
  split; [reflexivity|]. split; [reflexivity|]. split; [reflexivity|]. split; [exact HLb|].
  split.
  { subst l3. unfold ip6_fields, set_payload, ext_set_payload. cbn [snd p_version p_tclass p_flow p_length p_next p_hop p_src p_dst p_hbh e_next e_hlen e_opts].
    rewrite Hn2, Hhl2, Hnp2, Hnx, Hnp'. reflexivity. }
  split; [reflexivity|]. split; [exact Hwf2|]. rewrite H40. split; [rewrite ext_wire_fst_payload; exact HS2|].
  exists h'. cbn [snd p_hbh l3]. split; [reflexivity|]. split.
  { pose proof (ext_wire_wf false h payload true Hwh) as X. rewrite EW in X. exact X. }
  rewrite (ext_wire_idem _ _ _ _ _ _ EW). reflexivity.
Qed.

(* with a hop-by-hop header (no jumbogram) and FixLengths the bytes depend on these fields and on what
   the header serializes to *)
Lemma ip6_wire_hbh_fields a b ha hb payload : p_hbh a = Some ha -> p_hbh b = Some hb ->
  fst (ext_wire false ha payload true) = fst (ext_wire false hb payload true) ->
  p_version a = p_version b -> p_tclass a = p_tclass b -> p_flow a = p_flow b -> p_hop a = p_hop b ->
  p_src a = p_src b -> p_dst a = p_dst b -> (65535 <? n6_len payload) = false ->
  fst (ip6_wire a payload true) = fst (ip6_wire b payload true).
Proof.
  intros Ha Hb HE Hv Ht Hf Hh Hs Hd HJ. rewrite !ip6_wire_finish. cbv zeta. rewrite HJ, Ha, Hb.
  destruct (ext_wire false ha payload true) as [ra ha'], (ext_wire false hb payload true) as [rb hb']. cbn [fst] in HE. subst rb.
  destruct ra as [eb|e|s]; try reflexivity. cbn [andb].
  unfold finish. cbn [negb andb]. cbv zeta. simp_l.
  destruct (65535 <? n6_len eb); [reflexivity|]. rewrite ?Hs, ?Hd.
  destruct (negb (n6_len (p_src b) =? 16)); [reflexivity|]. destruct (negb (n6_len (p_dst b) =? 16)); [reflexivity|].
  cbn [fst]. unfold ip6_hdr_bytes. simp_l. rewrite ?Hv, ?Ht, ?Hf, ?Hh, ?Hs, ?Hd. reflexivity.
Qed.

Lemma ip6_fixpoint_hbh l h payload junk junk' : ip6_okb l = true -> p_hbh l = Some h -> no_jumbo (e_opts h) ->
  bytes_ok payload -> ext_size h + n6_len payload <= 65535 ->
  match ip6_roundtrip l payload junk with
  | (Ok bytes, (l2, _, _)) => fst (ip6_serialize l2 payload true true junk') = Ok bytes
  | _ => False
  end.
Proof.
  intros Hok Hh Hnj Hp Hfit.
  destruct (ip6_roundtrip_hbh_fix l h payload junk Hok Hh Hnj Hp Hfit) as (bytes & l2 & h2 & HR & _ & Hh2 & _ & _ & HF & _ & Hw2 & HS2 & h3 & Hh3 & Hw3 & HS3).
  rewrite HR.
  assert (Hw : ip6_wf l).
  { unfold ip6_wf. rewrite Hh. pose proof (ip6_okb_spec l Hok) as X. rewrite Hh in X. apply ext_okb_wf. apply X. }
  assert (HJ : (65535 <? n6_len payload) = false).
  { pose proof (ext_okb_wf h ltac:(pose proof (ip6_okb_spec l Hok) as X; rewrite Hh in X; apply X)) as Hwh.
    destruct (ext_wire false h payload true) as [r hh] eqn:EW.
    pose proof (n6_len_nonneg payload). unfold ext_size in Hfit. destruct (tlvs_ser false true (e_opts h) 2) as [[sg oo] tt0] eqn:ES.
    destruct (tlvs_ser_spec false true (e_opts h) 2 sg oo tt0 Hwh ltac:(lia) ES) as (Ht & _ & _ & _). pose proof (n6_len_nonneg (concat sg)). lia. }
  unfold ip6_roundtrip in HR. rewrite (ip6_serialize_closed l payload true true junk Hw) in HR, HF, Hh3.
  destruct (ip6_wire l payload true) as [r l3] eqn:EW. destruct r as [b|e|s]; try discriminate HR.
  injection HR as <- _. cbn [snd] in HF, Hh3.
  rewrite ip6_serialize_closed by (unfold ip6_wf; rewrite Hh2; exact Hw2).
  destruct (ip6_fields_proj l2 l3 HF) as (E1 & E2 & E3 & _ & _ & E6 & E7 & E8).
  rewrite (ip6_wire_hbh_fields l2 l3 h2 h3 payload Hh2 Hh3 ltac:(rewrite HS2, HS3; reflexivity) E1 E2 E3 E6 E7 E8 HJ).
  pose proof (ip6_wire_idem l payload true) as HI. rewrite EW in HI. cbn [snd] in HI. rewrite HI. reflexivity.
Qed.
