(* Lip6 — re-serializing the decoded IPv6 layer gives the same bytes (C06 fixpoint clause) *)
From GP Require Import Base ListX N6Lib Lip6Model Lip6Proofs Lip6Rt Lip6Rt2 Lip6Rt3 Lip6Idem.
Ltac Zify.zify_post_hook ::= Z.div_mod_to_equations.
From Coq Require Import Lia ZifyBool ZifyNat.
Open Scope Z_scope.

(* without hop-by-hop header and with FixLengths the bytes depend on these fields only *)
Lemma ip6_wire_nohbh_fields a b payload : p_hbh a = None -> p_hbh b = None ->
  p_version a = p_version b -> p_tclass a = p_tclass b -> p_flow a = p_flow b -> p_next a = p_next b -> p_hop a = p_hop b ->
  p_src a = p_src b -> p_dst a = p_dst b -> (65535 <? n6_len payload) = false ->
  fst (ip6_wire a payload true) = fst (ip6_wire b payload true).
Proof.
  intros Ha Hb Hv Ht Hf Hn Hh Hs Hd HJ. rewrite !ip6_wire_finish. cbv zeta. rewrite HJ, Ha, Hb.
  unfold finish. rewrite HJ. cbn [negb andb]. cbv zeta. simp_l. rewrite ?Ha, ?Hb, ?Hs, ?Hd.
  destruct (negb (n6_len (p_src b) =? 16)); [reflexivity|]. destruct (negb (n6_len (p_dst b) =? 16)); [reflexivity|].
  cbn [fst]. unfold ip6_hdr_bytes. simp_l. rewrite ?Hv, ?Ht, ?Hf, ?Hn, ?Hh, ?Hs, ?Hd. reflexivity.
Qed.

Lemma ip6_fields_proj a b : ip6_fields a = ip6_fields b ->
  p_version a = p_version b /\ p_tclass a = p_tclass b /\ p_flow a = p_flow b /\ p_length a = p_length b /\
  p_next a = p_next b /\ p_hop a = p_hop b /\ p_src a = p_src b /\ p_dst a = p_dst b.
Proof. unfold ip6_fields. intros H. injection H as -> -> -> -> -> -> -> -> _. repeat split. Qed.

Lemma ip6_fixpoint_nohbh l payload junk junk' : ip6_okb l = true -> p_hbh l = None -> 1 <= n6_len payload <= 65535 ->
  match ip6_roundtrip l payload junk with
  | (Ok bytes, (l2, _, _)) => fst (ip6_serialize l2 payload true true junk') = Ok bytes
  | _ => False
  end.
Proof.
  intros Hok Hh Hlen. destruct (ip6_roundtrip_nohbh l payload junk Hok Hh Hlen) as (bytes & l2 & HR & Hp & Hc & HF & HL).
  rewrite HR. assert (Hw : ip6_wf l) by (unfold ip6_wf; rewrite Hh; exact I).
  unfold ip6_roundtrip in HR. rewrite (ip6_serialize_closed l payload true true junk Hw) in HR, HF.
  destruct (ip6_wire l payload true) as [r l3] eqn:EW. destruct r as [b|e|s]; try discriminate HR.
  injection HR as <- HD. cbn [snd] in HF.
  assert (H2 : p_hbh l2 = None).
  { unfold ip6_fields in HF. destruct (p_hbh l2); [|reflexivity].
    assert (H3 : p_hbh l3 = None).
    { pose proof (ip6_wire_finish l payload true) as W. cbv zeta in W. replace (65535 <? n6_len payload) with false in W by lia.
      rewrite Hh, EW in W. destruct (finish_next_hbh false true payload l) as [_ X]. rewrite <- W in X. cbn [snd] in X. rewrite X. exact Hh. }
    rewrite H3 in HF. discriminate HF. }
  assert (H3 : p_hbh l3 = None).
  { pose proof (ip6_wire_finish l payload true) as W. cbv zeta in W. replace (65535 <? n6_len payload) with false in W by lia.
    rewrite Hh, EW in W. destruct (finish_next_hbh false true payload l) as [_ X]. rewrite <- W in X. cbn [snd] in X. rewrite X. exact Hh. }
  rewrite ip6_serialize_closed by (unfold ip6_wf; rewrite H2; exact I).
  destruct (ip6_fields_proj l2 l3 HF) as (E1 & E2 & E3 & _ & E5 & E6 & E7 & E8).
  rewrite (ip6_wire_nohbh_fields l2 l3 payload H2 H3 E1 E2 E3 E5 E6 E7 E8 ltac:(lia)).
  pose proof (ip6_wire_idem l payload true) as HI. rewrite EW in HI. cbn [snd] in HI. rewrite HI. reflexivity.
Qed.

Lemma ext_wire_fst_payload b h p q fx : fst (ext_wire b (ext_set_payload h p) q fx) = fst (ext_wire b h q fx).
Proof.
  unfold ext_wire, ext_set_payload. cbn [e_opts e_next e_hlen e_alen e_contents e_payload].
  destruct (tlvs_ser b fx (e_opts h) 2) as [[segs os'] total]. destruct (negb _); reflexivity.
Qed.

Lemma ip6_roundtrip_hbh_fix l h payload junk : ip6_okb l = true -> p_hbh l = Some h -> no_jumbo (e_opts h) ->
  bytes_ok payload -> ext_size h + n6_len payload <= 65535 ->
  exists bytes l2 h2,
    ip6_roundtrip l payload junk = (Ok bytes, (l2, Ok tt, false)) /\
    p_payload l2 = payload /\ p_hbh l2 = Some h2 /\ e_payload h2 = payload /\
    p_length l2 = ext_size h + n6_len payload /\
    ip6_fields l2 = ip6_fields (snd (ip6_serialize l payload true true junk)) /\
    p_next l2 = 0 /\ ext_wf h2 /\
    fst (ext_wire false h2 payload true) = Ok (skipn 40 bytes) /\
    exists h3, p_hbh (snd (ip6_serialize l payload true true junk)) = Some h3 /\ ext_wf h3 /\
               fst (ext_wire false h3 payload true) = Ok (skipn 40 bytes).
Proof.
  intros Hok Hh Hnj Hp Hfit. pose proof (ip6_okb_spec l Hok) as (Hv & Htc & Hfl & Hnh & Hhop & Hsb & Hsl & Hdb & Hdl & Hhb).
  rewrite Hh in Hhb. destruct Hhb as [Hokh Hn0]. pose proof (ext_okb_wf h Hokh) as Hwh.
  assert (Hw : ip6_wf l) by (unfold ip6_wf; rewrite Hh; exact Hwh).
  pose proof (n6_len_nonneg payload) as Hpn.
  (* the extension header: serialized, and decoded again *)
  destruct (ext_roundtrip_ok h payload [] Hokh Hp) as (bytes & h2 & HR & Hn2 & Hhl2 & Hpl2 & Hnp2 & _).
  unfold ext_roundtrip, ext_serialize in HR, Hhl2.
  pose proof (ext_serialize_gen_closed false h payload true [] Hwh) as HC.
  destruct (ext_serialize_gen false h payload true []) as [[r0 h0] j0].
  destruct (ext_wire false h payload true) as [r h'] eqn:EW. injection HC as -> ->. cbn [snd] in Hhl2.
  destruct r as [bytes0|e|s]; try discriminate HR. injection HR as -> HD.
  destruct (ext_wire_facts h payload bytes h' Hwh EW) as (HLb & Hnx & Hnp' & H8).
  destruct (ext_wire_bytes false h payload true bytes h' Hwh Hp EW) as (Hbb & _ & _ & _).
  pose proof (ext_decode_ok false ext_fresh bytes h2 false Hbb HD) as (_ & Hal & Hall & _ & _ & _ & _ & Hpay).
  (* serialization of the IPv6 layer *)
  unfold ip6_roundtrip. rewrite ip6_serialize_closed by exact Hw. unfold ip6_wire.
  replace (65535 <? n6_len payload) with false by lia. rewrite Hh, EW. cbn [andb negb].
  replace (65535 <? n6_len bytes) with false by lia.
  unfold set_len_next. cbn [p_version p_tclass p_flow p_length p_next p_hop p_src p_dst p_hbh p_contents p_payload snd].
  replace (negb (n6_len (p_src l) =? 16)) with false by lia. replace (negb (n6_len (p_dst l) =? 16)) with false by lia.
  assert (Hu16 : u16 (n6_len bytes) = n6_len bytes) by (unfold u16; lia). rewrite Hu16.
  set (l3 := mkIp6 (p_version l) (p_tclass l) (p_flow l) (n6_len bytes) 0 (p_hop l) (p_src l) (p_dst l) (Some h') (p_contents l) (p_payload l)).
  assert (H3 : ip6_hdr_ok l3) by (unfold ip6_hdr_ok; cbn; repeat split; lia).
  rewrite (ip6_decode_wire ip6_fresh l3 bytes H3). cbn [l3 p_version p_tclass p_flow p_length p_next p_hop p_src p_dst].
  unfold ip6_body. cbn [p_next p_payload p_length Z.eqb]. rewrite HD. cbv zeta.
  unfold get_jumbo. rewrite (find_jumbo_none (e_opts h) (e_opts h2) Hnj Hnp2). cbn [andb].
  replace (n6_len bytes =? 0) with false by lia.
  rewrite (n6_from_eq bytes (e_alen h2)) by lia. rewrite <- Hpay, Hpl2.
  unfold ip6_trim. cbn [set_payload p_length p_payload p_hbh].
  replace (n6_len bytes =? 0) with false by lia.
  assert (Hal2 : n6_len bytes - e_alen h2 = n6_len payload).
  { assert (HX : n6_len (e_payload h2) = n6_len bytes - e_alen h2) by (rewrite Hpay; unfold n6_len in *; rewrite skipn_length; lia).
    rewrite Hpl2 in HX. lia. }
  rewrite Hal2. replace (n6_len payload <? 0) with false by lia. replace (n6_len payload <? n6_len payload) with false by lia.
  rewrite n6_slice_eq by lia. change (Z.to_nat 0) with 0%nat. replace (Z.to_nat (n6_len payload)) with (length payload) by (unfold n6_len; lia).
  rewrite slice_0_all.
  assert (H40 : skipn 40 (ip6_hdr_bytes l3 ++ bytes) = bytes).
  { destruct (ip6_head_wire l3 bytes H3) as [_ HL40]. replace 40%nat with (length (ip6_hdr_bytes l3)) by (unfold n6_len in HL40; lia).
    rewrite skipn_app, skipn_all, Nat.sub_diag. reflexivity. }
  pose proof (ext_decode_wf false ext_fresh bytes Hbb ltac:(constructor)) as Hwf2. unfold ext_decode_into in HD. rewrite HD in Hwf2. cbn [fst] in Hwf2.
  pose proof (ext_decode_ok false ext_fresh bytes h2 false Hbb HD) as (_ & _ & _ & _ & _ & _ & Hcont & _).
  assert (HS2 : fst (ext_wire false h2 payload true) = Ok bytes).
  { pose proof (ext_serialize_decoded ext_fresh bytes h2 false payload true [] Hbb HD) as X. unfold ext_serialize in X.
    pose proof (ext_serialize_gen_closed false h2 payload true [] Hwf2) as HC2.
    destruct (ext_serialize_gen false h2 payload true []) as [[r2 hh2] jj2]. rewrite <- HC2. cbn [fst] in *. rewrite X.
    f_equal. rewrite Hcont, <- Hpl2, Hpay. apply firstn_skipn. }
  eexists. eexists. eexists. split; [reflexivity|]. cbn [p_payload p_hbh p_length p_next ext_set_payload e_payload].
  split; [reflexivity|]. split; [reflexivity|]. split; [reflexivity|]. split; [exact HLb|].
  split.
  { subst l3. unfold ip6_fields, set_payload, ext_set_payload. cbn [snd p_version p_tclass p_flow p_length p_next p_hop p_src p_dst p_hbh e_next e_hlen e_opts].
    rewrite Hn2, Hhl2, Hnp2, Hnx, Hnp'. reflexivity. }
  split; [reflexivity|]. split; [exact Hwf2|]. rewrite H40. split; [rewrite ext_wire_fst_payload; exact HS2|].
  exists h'. cbn [snd p_hbh l3]. split; [reflexivity|]. split.
  { pose proof (ext_wire_wf false h payload true Hwh) as X. rewrite EW in X. exact X. }
  rewrite (ext_wire_idem _ _ _ _ _ _ EW). reflexivity.
Qed.

(* with a hop-by-hop header (no jumbogram) and FixLengths the bytes depend on these fields and on what
   the header serializes to *)
Lemma ip6_wire_hbh_fields a b ha hb payload : p_hbh a = Some ha -> p_hbh b = Some hb ->
  fst (ext_wire false ha payload true) = fst (ext_wire false hb payload true) ->
  p_version a = p_version b -> p_tclass a = p_tclass b -> p_flow a = p_flow b -> p_hop a = p_hop b ->
  p_src a = p_src b -> p_dst a = p_dst b -> (65535 <? n6_len payload) = false ->
  fst (ip6_wire a payload true) = fst (ip6_wire b payload true).
Proof.
  intros Ha Hb HE Hv Ht Hf Hh Hs Hd HJ. rewrite !ip6_wire_finish. cbv zeta. rewrite HJ, Ha, Hb.
  destruct (ext_wire false ha payload true) as [ra ha'], (ext_wire false hb payload true) as [rb hb']. cbn [fst] in HE. subst rb.
  destruct ra as [eb|e|s]; try reflexivity. cbn [andb].
  unfold finish. cbn [negb andb]. cbv zeta. simp_l.
  destruct (65535 <? n6_len eb); [reflexivity|]. rewrite ?Hs, ?Hd.
  destruct (negb (n6_len (p_src b) =? 16)); [reflexivity|]. destruct (negb (n6_len (p_dst b) =? 16)); [reflexivity|].
  cbn [fst]. unfold ip6_hdr_bytes. simp_l. rewrite ?Hv, ?Ht, ?Hf, ?Hh, ?Hs, ?Hd. reflexivity.
Qed.

Lemma ip6_fixpoint_hbh l h payload junk junk' : ip6_okb l = true -> p_hbh l = Some h -> no_jumbo (e_opts h) ->
  bytes_ok payload -> ext_size h + n6_len payload <= 65535 ->
  match ip6_roundtrip l payload junk with
  | (Ok bytes, (l2, _, _)) => fst (ip6_serialize l2 payload true true junk') = Ok bytes
  | _ => False
  end.
Proof.
  intros Hok Hh Hnj Hp Hfit.
  destruct (ip6_roundtrip_hbh_fix l h payload junk Hok Hh Hnj Hp Hfit) as (bytes & l2 & h2 & HR & _ & Hh2 & _ & _ & HF & _ & Hw2 & HS2 & h3 & Hh3 & Hw3 & HS3).
  rewrite HR.
  assert (Hw : ip6_wf l).
  { unfold ip6_wf. rewrite Hh. pose proof (ip6_okb_spec l Hok) as X. rewrite Hh in X. apply ext_okb_wf. apply X. }
  assert (HJ : (65535 <? n6_len payload) = false).
  { pose proof (ext_okb_wf h ltac:(pose proof (ip6_okb_spec l Hok) as X; rewrite Hh in X; apply X)) as Hwh.
    destruct (ext_wire false h payload true) as [r hh] eqn:EW.
    pose proof (n6_len_nonneg payload). unfold ext_size in Hfit. destruct (tlvs_ser false true (e_opts h) 2) as [[sg oo] tt0] eqn:ES.
    destruct (tlvs_ser_spec false true (e_opts h) 2 sg oo tt0 Hwh ltac:(lia) ES) as (Ht & _ & _ & _). pose proof (n6_len_nonneg (concat sg)). lia. }
  unfold ip6_roundtrip in HR. rewrite (ip6_serialize_closed l payload true true junk Hw) in HR, HF, Hh3.
  destruct (ip6_wire l payload true) as [r l3] eqn:EW. destruct r as [b|e|s]; try discriminate HR.
  injection HR as <- _. cbn [snd] in HF, Hh3.
  rewrite ip6_serialize_closed by (unfold ip6_wf; rewrite Hh2; exact Hw2).
  destruct (ip6_fields_proj l2 l3 HF) as (E1 & E2 & E3 & _ & _ & E6 & E7 & E8).
  rewrite (ip6_wire_hbh_fields l2 l3 h2 h3 payload Hh2 Hh3 ltac:(rewrite HS2, HS3; reflexivity) E1 E2 E3 E6 E7 E8 HJ).
  pose proof (ip6_wire_idem l payload true) as HI. rewrite EW in HI. cbn [snd] in HI. rewrite HI. reflexivity.
Qed.

Lemma ip6_roundtrip_jumbo_exact l payload junk : ip6_okb l = true -> p_hbh l = None -> bytes_ok payload ->
  65535 < n6_len payload < 4294967296 - 8 ->
  exists bytes jl, jl = be_bytes 4 (n6_len payload + 8) /\
    bytes = ip6_hdr_bytes (mkIp6 (p_version l) (p_tclass l) (p_flow l) 0 0 (p_hop l) (p_src l) (p_dst l) None [] [])
            ++ [p_next l; 0; JUMBO; 4] ++ jl ++ payload /\
    ip6_roundtrip l payload junk =
      (Ok bytes, (mkIp6 (p_version l) (p_tclass l) (p_flow l) 0 0 (p_hop l) (p_src l) (p_dst l)
                        (Some (mkExt (p_next l) 0 8 [mkTlv JUMBO 4 6 jl 0 0] ([p_next l; 0; JUMBO; 4] ++ jl) payload))
                        (firstn 40 bytes) ([p_next l; 0; JUMBO; 4] ++ jl ++ payload), Ok tt, false)).
Proof.
  intros Hok Hh Hp Hlen. pose proof (ip6_okb_spec l Hok) as (Hv & Htc & Hfl & Hnh & Hhop & Hsb & Hsl & Hdb & Hdl & Hnn).
  rewrite Hh in Hnn.
  assert (Hw : ip6_wf l) by (unfold ip6_wf; rewrite Hh; exact I).
  unfold ip6_roundtrip. rewrite ip6_serialize_closed by exact Hw. unfold ip6_wire.
  replace (65535 <? n6_len payload) with true by lia. cbn [andb negb].
  unfold add_jumbo. rewrite Hh. cbn [replace_first_jumbo e_opts e_next e_hlen e_alen e_contents e_payload app p_hbh].
  (* the hop-by-hop header FixLengths creates: 8 octets *)
  assert (EW : ext_wire false (mkExt (p_next l) 0 0 [set_jumbo 0 (mkTlv 0 0 0 [] 0 0)] [] []) payload true =
               (Ok ([u8 (p_next l); 0; JUMBO; 4; 0; 0; 0; 0] ++ payload),
                mkExt (p_next l) 0 0 [set_jumbo 0 (mkTlv 0 0 0 [] 0 0)] [] [])) by reflexivity.
  rewrite EW. replace (u8 (p_next l)) with (p_next l) by (unfold u8; lia). cbn [app].
  set (bytes := p_next l :: 0 :: JUMBO :: 4 :: 0 :: 0 :: 0 :: 0 :: payload).
  assert (HLb : n6_len bytes = n6_len payload + 8) by (subst bytes; rewrite !n6_len_cons; lia).
  remember (be_bytes 4 (n6_len payload + 8)) as jl eqn:Ejl.
  assert (Ljl : length jl = 4%nat) by (subst; apply be_bytes_length).
  assert (Vjl : be_val jl = n6_len payload + 8) by (subst; rewrite be_val_be_bytes; change (256 ^ Z.of_nat 4) with 4294967296; lia).
  assert (Bjl : bytes_ok jl) by (subst; apply be_bytes_ok).
  assert (ESJ : set_jumbo_len bytes = Ok (p_next l :: 0 :: JUMBO :: 4 :: jl ++ payload)).
  { unfold set_jumbo_len. replace (n6_len bytes <? 8) with false by lia.
    rewrite (n6_idx_eq bytes 1) by lia. change (nthZ bytes (Z.to_nat 1)) with 0. change ((0 + 1) * 8) with 8.
    replace (n6_len bytes <? 8) with false by lia. change (Z.to_nat 8) with 8%nat. cbn [jumbo_loop]. change (2 <? 8) with true. cbv iota.
    rewrite (n6_idx_eq bytes 2), (n6_idx_eq bytes (2 + 1)) by lia.
    change (nthZ bytes (Z.to_nat 2)) with JUMBO. change (nthZ bytes (Z.to_nat (2 + 1))) with 4.
    change (JUMBO =? 0) with false. change (JUMBO =? JUMBO) with true. change (4 =? 4) with true. cbv iota.
    replace (n6_len bytes <? 2 + 6) with false by lia. f_equal.
    replace (u32 (n6_len bytes)) with (n6_len payload + 8) by (unfold u32; lia). rewrite <- Ejl.
    destruct jl as [|j0 [|j1 [|j2 [|j3 [|]]]]]; try discriminate Ljl.
    change (Z.to_nat (2 + 2)) with 4%nat. unfold n6_put, bytes. cbn [firstn skipn length Nat.sub Nat.add app]. rewrite firstn_nil. reflexivity. }
  rewrite ESJ. unfold set_len_next.
  cbn [p_version p_tclass p_flow p_length p_next p_hop p_src p_dst p_hbh p_contents p_payload snd e_next e_hlen e_alen e_opts e_contents e_payload
       replace_first_jumbo set_jumbo t_type].
  change (JUMBO =? JUMBO) with true. cbv iota. unfold set_jumbo.
  replace (u32 (n6_len bytes)) with (n6_len payload + 8) by (unfold u32; lia). rewrite <- Ejl.
  replace (negb (n6_len (p_src l) =? 16)) with false by lia. replace (negb (n6_len (p_dst l) =? 16)) with false by lia.
  set (hq := mkExt (p_next l) 0 0 [mkTlv JUMBO 4 6 jl 4 2] [] []).
  set (l3 := mkIp6 (p_version l) (p_tclass l) (p_flow l) 0 0 (p_hop l) (p_src l) (p_dst l) (Some hq) (p_contents l) (p_payload l)).
  set (bytes' := p_next l :: 0 :: JUMBO :: 4 :: jl ++ payload).
  assert (H3 : ip6_hdr_ok l3) by (unfold ip6_hdr_ok; cbn; repeat split; lia).
  rewrite (ip6_decode_wire ip6_fresh l3 bytes' H3). cbn [l3 p_version p_tclass p_flow p_length p_next p_hop p_src p_dst].
  unfold ip6_body. cbn [p_next p_payload p_length Z.eqb].
  (* the hop-by-hop header decoded *)
  destruct jl as [|j0 [|j1 [|j2 [|j3 [|]]]]]; try discriminate Ljl.
  assert (Bb : bytes_ok bytes').
  { subst bytes'. repeat (constructor; [unfold byte_ok, JUMBO; lia|]). inversion Bjl as [|? ? B0 T0]; subst. inversion T0 as [|? ? B1 T1]; subst.
    inversion T1 as [|? ? B2 T2]; subst. inversion T2 as [|? ? B3 T3]; subst. repeat (constructor; [assumption|]). exact Hp. }
  assert (HLb' : n6_len bytes' = n6_len payload + 8) by (subst bytes'; cbn [app]; rewrite !n6_len_cons; lia).
  assert (HD : ext_decode_into ext_fresh bytes' =
               (mkExt (p_next l) 0 8 [mkTlv JUMBO 4 6 [j0; j1; j2; j3] 0 0] [p_next l; 0; JUMBO; 4; j0; j1; j2; j3] payload, Ok tt, false)).
  { unfold ext_decode_into. rewrite ext_decode_eq by exact Bb. replace (n6_len bytes' <? 2) with false by lia. cbv zeta.
    change (nthZ bytes' 0) with (p_next l). change (nthZ bytes' 1) with 0. change (0 * 8 + 8) with 8.
    replace (n6_len bytes' <? 8) with false by lia.
    change (length bytes') with (S (S (S (S (S (S (S (S (length payload))))))))).
    cbn [ext_loop]. change (2 <? 8) with true. cbv iota. rewrite (n6_from_eq bytes' 2) by lia.
    change (skipn (Z.to_nat 2) bytes') with (JUMBO :: 4 :: j0 :: j1 :: j2 :: j3 :: payload).
    assert (TD : tlv_decode (JUMBO :: 4 :: j0 :: j1 :: j2 :: j3 :: payload) = (Ok (mkTlv JUMBO 4 6 [j0; j1; j2; j3] 0 0), false)).
    { unfold tlv_decode. rewrite !n6_len_cons. pose proof (n6_len_nonneg payload).
      replace (1 + (1 + (1 + (1 + (1 + (1 + n6_len payload))))) <? 1) with false by lia.
      rewrite n6_idx_eq by (rewrite !n6_len_cons; lia). change (nthZ _ (Z.to_nat 0)) with JUMBO. change (JUMBO =? 0) with false. cbv iota.
      replace (1 + (1 + (1 + (1 + (1 + (1 + n6_len payload))))) <? 2) with false by lia.
      rewrite n6_idx_eq by (rewrite !n6_len_cons; lia). change (nthZ _ (Z.to_nat 1)) with 4.
      replace (1 + (1 + (1 + (1 + (1 + (1 + n6_len payload))))) <? 4 + 2) with false by lia.
      rewrite n6_slice_eq by (rewrite ?n6_len_cons; lia). reflexivity. }
    rewrite TD. cbn [t_alen]. change (8 <? 2 + 6) with false. cbv iota. change (2 + 6 <? 8) with false. cbv iota. cbn [app].
    reflexivity. }
  rewrite HD. cbv zeta. unfold get_jumbo. cbn [e_opts find t_type t_data]. change (JUMBO =? JUMBO) with true. cbv iota.
  cbn [t_data]. change (n6_len [j0; j1; j2; j3] =? 4) with true. cbn [negb]. rewrite Vjl.
  replace (n6_len payload + 8 <=? 65535) with false by lia. cbn [andb Z.eqb].
  rewrite HLb'. replace (n6_len payload + 8 <? n6_len payload + 8) with false by lia.
  rewrite (n6_slice_eq bytes' 0 (n6_len payload + 8)) by lia. change (Z.to_nat 0) with 0%nat.
  replace (Z.to_nat (n6_len payload + 8)) with (length bytes') by (clear - HLb'; unfold n6_len in *; lia). rewrite slice_0_all.
  cbn [e_alen]. rewrite (n6_from_eq bytes' 8) by lia. change (skipn (Z.to_nat 8) bytes') with payload.
  exists (ip6_hdr_bytes l3 ++ bytes'), [j0; j1; j2; j3]. split; [reflexivity|]. split; [reflexivity|].
  destruct (ip6_head_wire l3 bytes' H3) as [_ HL40].
  assert (HF40 : firstn 40 (ip6_hdr_bytes l3 ++ bytes') = ip6_hdr_bytes l3).
  { replace 40%nat with (length (ip6_hdr_bytes l3)) by (unfold n6_len in HL40; lia). rewrite firstn_app, Nat.sub_diag, firstn_all. cbn [firstn]. apply app_nil_r. }
  rewrite HF40. reflexivity.
Qed.

Lemma set_jumbo_len_8 nx payload : 65535 < n6_len payload < 4294967296 - 8 ->
  set_jumbo_len (nx :: 0 :: JUMBO :: 4 :: 0 :: 0 :: 0 :: 0 :: payload) =
    Ok (nx :: 0 :: JUMBO :: 4 :: be_bytes 4 (n6_len payload + 8) ++ payload).
Proof.
  intros Hlen. set (bytes := nx :: 0 :: JUMBO :: 4 :: 0 :: 0 :: 0 :: 0 :: payload).
  assert (HLb : n6_len bytes = n6_len payload + 8) by (subst bytes; rewrite !n6_len_cons; lia).
  remember (be_bytes 4 (n6_len payload + 8)) as jl eqn:Ejl. assert (Ljl : length jl = 4%nat) by (subst; apply be_bytes_length).
  unfold set_jumbo_len. replace (n6_len bytes <? 8) with false by lia.
  rewrite (n6_idx_eq bytes 1) by lia. change (nthZ bytes (Z.to_nat 1)) with 0. change ((0 + 1) * 8) with 8.
  replace (n6_len bytes <? 8) with false by lia. change (Z.to_nat 8) with 8%nat. cbn [jumbo_loop]. change (2 <? 8) with true. cbv iota.
  rewrite (n6_idx_eq bytes 2), (n6_idx_eq bytes (2 + 1)) by lia.
  change (nthZ bytes (Z.to_nat 2)) with JUMBO. change (nthZ bytes (Z.to_nat (2 + 1))) with 4.
  change (JUMBO =? 0) with false. change (JUMBO =? JUMBO) with true. change (4 =? 4) with true. cbv iota.
  replace (n6_len bytes <? 2 + 6) with false by lia. f_equal.
  replace (u32 (n6_len bytes)) with (n6_len payload + 8) by (unfold u32; lia). rewrite <- Ejl.
  destruct jl as [|j0 [|j1 [|j2 [|j3 [|]]]]]; try discriminate Ljl.
  change (Z.to_nat (2 + 2)) with 4%nat. unfold n6_put, bytes. cbn [firstn skipn length Nat.sub Nat.add app]. rewrite firstn_nil. reflexivity.
Qed.

Lemma ip6_fixpoint_jumbo l payload junk junk' : ip6_okb l = true -> p_hbh l = None -> bytes_ok payload ->
  65535 < n6_len payload < 4294967296 - 8 ->
  match ip6_roundtrip l payload junk with
  | (Ok bytes, (l2, _, _)) => fst (ip6_serialize l2 payload true true junk') = Ok bytes
  | _ => False
  end.
Proof.
  intros Hok Hh Hp Hlen. destruct (ip6_roundtrip_jumbo_exact l payload junk Hok Hh Hp Hlen) as (bytes & jl & Hjl & Hb & HR).
  rewrite HR. pose proof (ip6_okb_spec l Hok) as (Hv & Htc & Hfl & Hnh & Hhop & Hsb & Hsl & Hdb & Hdl & _).
  set (L2 := mkIp6 _ _ _ 0 0 _ _ _ (Some _) _ _).
  assert (Hw2 : ip6_wf L2).
  { unfold ip6_wf, L2, ext_wf. cbn [p_hbh e_opts]. constructor; [|constructor]. unfold tlv_wf. cbn [t_ax t_ay t_data t_olen].
    repeat split; try lia. rewrite Hjl. apply be_bytes_ok. }
  rewrite ip6_serialize_closed by exact Hw2. rewrite ip6_wire_finish. cbv zeta.
  replace (65535 <? n6_len payload) with true by lia. cbn [andb].
  unfold add_jumbo, L2. cbn [p_hbh e_opts replace_first_jumbo t_type e_next e_hlen e_alen e_contents e_payload
                             p_version p_tclass p_flow p_length p_next p_hop p_src p_dst p_contents p_payload].
  change (JUMBO =? JUMBO) with true. cbv iota. cbn [p_hbh].
  set (C := [p_next l; 0; JUMBO; 4] ++ jl). set (o := mkTlv JUMBO 4 6 jl 0 0).
  assert (EW : ext_wire false (mkExt (p_next l) 0 8 [set_jumbo 0 o] C payload) payload true =
               (Ok ([u8 (p_next l); 0; JUMBO; 4; 0; 0; 0; 0] ++ payload), mkExt (p_next l) 0 8 [set_jumbo 0 o] C payload)) by reflexivity.
  rewrite EW. replace (u8 (p_next l)) with (p_next l) by (unfold u8; lia). cbn [app].
  rewrite (set_jumbo_len_8 (p_next l) payload Hlen). rewrite <- Hjl.
  unfold finish. cbn [negb andb]. cbv zeta. simp_l.
  replace (negb (n6_len (p_src l) =? 16)) with false by lia. replace (negb (n6_len (p_dst l) =? 16)) with false by lia.
  cbn [fst]. rewrite Hb. f_equal.
Qed.
