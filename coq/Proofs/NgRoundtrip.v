(* Round trip: the model reader run on what the model writer produced. *)
From GP Require Import Base NgModel NgIoProofs NgExec.
From Coq Require Import Lia ZifyBool ZifyNat.
Open Scope Z_scope.

Definition core (s : rst) :=
  (r_big s, r_btyp s, r_ifaces s, r_link s, r_first s, r_active s, r_sect s, r_ci s, r_ancil s, r_pcap s, r_names s, r_nsec s).

Ltac sim := cbn [r_ifaces r_ci r_blen r_ocode r_oval r_ocap r_big r_btyp r_link r_first r_pcap r_ancil r_names r_nsec r_active r_sect
                 set_block set_blen set_opt set_ifaces set_link set_section set_ci set_ancil set_pcap set_names
                 fst snd ci_if ci_cap ci_len ci_ts core] in *.

Lemma core_fields s1 s : core s1 = core s ->
  r_big s1 = r_big s /\ r_btyp s1 = r_btyp s /\ r_ifaces s1 = r_ifaces s /\ r_link s1 = r_link s /\
  r_first s1 = r_first s /\ r_ci s1 = r_ci s /\ r_ancil s1 = r_ancil s /\ r_pcap s1 = r_pcap s /\
  r_sect s1 = r_sect s /\ r_active s1 = r_active s /\ r_names s1 = r_names s /\ r_nsec s1 = r_nsec s.
Proof. unfold core. intros H. inversion H. repeat split; reflexivity. Qed.

Lemma u32_small x : 0 <= x < 4294967296 -> u32 x = x.
Proof. intros H. unfold u32. apply Z.mod_small. exact H. Qed.

Lemma u64_id x : 0 <= x < 18446744073709551616 -> u64 x = x.
Proof. intros H. unfold u64. apply Z.mod_small. exact H. Qed.

Lemma opt_size_pos o : 4 <= opt_size o.
Proof. unfold opt_size. pose proof (pad4_range (zlen (snd o))). pose proof (zlen_nonneg (snd o)). lia. Qed.

Lemma zlen_opt_enc code v : zlen (opt_enc (code, v)) = opt_size (code, v).
Proof.
  unfold opt_enc, opt_size. cbn [snd]. rewrite !zlen_app, !zlen_le_bytes, zlen_zeros by apply pad4_range. lia.
Qed.

(* ---- one option *)
Lemma exec_readOption s code v rest :
  r_big s = false -> 0 < code < 65536 -> zlen v < 65536 ->
  opt_size (code, v) + 4 <= r_blen s -> r_blen s < 4294967296 ->
  exists s', exec readOption s (opt_enc (code, v) ++ rest) = ((s', Ok tt), rest)
    /\ r_ocode s' = code /\ r_oval s' = v /\ r_blen s' = r_blen s - opt_size (code, v) /\ core s' = core s.
Proof.
  intros Hbig Hc Hv Hb1 Hb2. pose proof (opt_size_pos (code, v)) as Hp. pose proof (zlen_nonneg v) as Hv0.
  pose proof (pad4_range (zlen v)) as Hpad.
  unfold readOption. rewrite exec_bind, exec_sget. cbv iota beta.
  assert (r_blen s =? 4 = false) as -> by lia.
  unfold opt_enc.
  replace ((le_bytes 2 code ++ le_bytes 2 (zlen v mod 65536) ++ v ++ zeros (pad4 (zlen v))) ++ rest)
    with ((le_bytes 2 code ++ le_bytes 2 (zlen v mod 65536)) ++ (v ++ zeros (pad4 (zlen v)) ++ rest))
    by (rewrite <- !app_assoc; reflexivity).
  rewrite exec_bind, exec_rd_app by (rewrite zlen_app, !zlen_le_bytes; reflexivity). cbv iota beta.
  rewrite exec_bind, exec_sub_blen. cbv iota beta.
  rewrite exec_bind, exec_sget. cbv iota beta. sim. rewrite Hbig. unfold getu.
  rewrite sl_0 by apply le_bytes_length.
  rewrite (sl_skip (le_bytes 2 code) _ 2 2 4) by (try apply le_bytes_length; lia). cbn [Nat.sub].
  rewrite sl_all by apply le_bytes_length.
  rewrite !le_val_le_bytes by (change (256 ^ Z.of_nat 2) with 65536; try lia; apply Z.mod_pos_bound; lia).
  rewrite (Z.mod_small (zlen v)) by lia.
  rewrite exec_bind, exec_smod. cbv iota beta. sim.
  assert (code =? 0 = false) as -> by lia.
  rewrite (u32_small (r_blen s - 4)) by lia.
  destruct (zlen v =? 0) eqn:E0.
  - (* empty value *)
    assert (v = []) as -> by (destruct v; [reflexivity|unfold zlen in E0; cbn in E0; lia]).
    change (zlen (@nil Z)) with 0 in *. change (pad4 0) with 0. change (zeros 0) with (@nil Z). cbn [app].
    rewrite exec_smod. eexists; split; [reflexivity|]. sim. unfold opt_size; cbn [snd]. change (zlen (@nil Z)) with 0.
    change (pad4 0) with 0. repeat split; lia.
  - set (s1 := set_opt (set_blen s (r_blen s - 4)) code (r_oval s) (r_ocap s)).
    assert (exists cap, exec (if zlen v <? r_ocap s then sret tt
              else s_alloc (zlen v) 0;;; smod (fun s0 : rst => set_opt s0 code (r_oval s0) (zlen v))) s1
              (v ++ zeros (pad4 (zlen v)) ++ rest)
             = ((set_opt (set_blen s (r_blen s - 4)) code (r_oval s) cap, Ok tt), v ++ zeros (pad4 (zlen v)) ++ rest)) as [cap Hcap].
    { destruct (zlen v <? r_ocap s).
      - exists (r_ocap s). reflexivity.
      - exists (zlen v). rewrite exec_bind, exec_s_alloc. cbv iota beta. rewrite exec_smod. reflexivity. }
    rewrite exec_bind. fold s1. rewrite Hcap. cbv iota beta.
    rewrite exec_bind, exec_rd_app by reflexivity. cbv iota beta.
    rewrite exec_bind, exec_smod. cbv iota beta. sim.
    rewrite exec_bind.
    assert (forall s2, r_blen s2 = r_blen s - 4 ->
            exec (if 0 <? zlen v mod 4 then s_disc (4 - zlen v mod 4) else sret tt) s2 (zeros (pad4 (zlen v)) ++ rest)
            = ((set_blen s2 (r_blen s - 4 - pad4 (zlen v)), Ok tt), rest)) as Hd.
    { intros s2 H2. unfold pad4 in *. destruct (0 <? zlen v mod 4) eqn:E4.
      - rewrite exec_disc_app by (rewrite zlen_zeros by lia; Z.div_mod_to_equations; lia).
        rewrite H2. rewrite u32_small by (Z.div_mod_to_equations; lia).
        replace ((4 - zlen v mod 4) mod 4) with (4 - zlen v mod 4) by (Z.div_mod_to_equations; lia).
        reflexivity.
      - assert ((4 - zlen v mod 4) mod 4 = 0) as -> by (Z.div_mod_to_equations; lia).
        change (zeros 0) with (@nil Z). cbn [app]. rewrite exec_sret. rewrite Z.sub_0_r.
        rewrite <- H2. destruct s2; reflexivity. }
    rewrite Hd by (sim; reflexivity). cbv iota beta. rewrite exec_sub_blen. sim.
    eexists; split; [reflexivity|]. sim. unfold opt_size in *; cbn [snd] in *.
    rewrite u32_small by lia. repeat split; lia.
Qed.

Lemma exec_readOption_eoo s rest :
  r_big s = false -> 8 <= r_blen s -> r_blen s < 4294967296 ->
  exists s', exec readOption s ([0;0;0;0] ++ rest) = ((s', Ok tt), rest)
    /\ r_ocode s' = 0 /\ r_blen s' = r_blen s - 4 /\ core s' = core s.
Proof.
  intros Hbig Hb1 Hb2. unfold readOption. rewrite exec_bind, exec_sget. cbv iota beta.
  assert (r_blen s =? 4 = false) as -> by lia.
  rewrite exec_bind, exec_rd_app by reflexivity. cbv iota beta.
  rewrite exec_bind, exec_sub_blen. cbv iota beta.
  rewrite exec_bind, exec_sget. cbv iota beta. sim. rewrite Hbig.
  change (getu false (sl [0; 0; 0; 0] 0 2)) with 0. change (getu false (sl [0; 0; 0; 0] 2 4)) with 0.
  rewrite exec_bind, exec_smod. cbv iota beta. cbn [Z.eqb]. rewrite exec_sret.
  eexists; split; [reflexivity|]. sim. rewrite u32_small by lia. repeat split; lia.
Qed.

Lemma exec_readOption_fake s rest :
  r_blen s = 4 ->
  exists s', exec readOption s rest = ((s', Ok tt), rest) /\ r_ocode s' = 0 /\ r_blen s' = 4 /\ core s' = core s.
Proof.
  intros Hb. unfold readOption. rewrite exec_bind, exec_sget. cbv iota beta.
  assert (r_blen s =? 4 = true) as -> by lia. rewrite exec_smod.
  eexists; split; [reflexivity|]. sim. repeat split; auto.
Qed.

(* ---- the packet option loop computes a fold over the options *)
Definition pstep (o : popts) (cv : Z * list Z) : popts :=
  let '(c, v) := cv in
  if c =? 1 then mkPopts (po_comments o ++ [v]) (po_flags o) (po_hashes o) (po_drop o) (po_pid o) (po_queue o) (po_verdicts o)
  else if c =? 2 then mkPopts (po_comments o) (Some (flags_from_u32 (le_val (sl v 0 4)))) (po_hashes o) (po_drop o) (po_pid o) (po_queue o) (po_verdicts o)
  else if c =? 3 then mkPopts (po_comments o) (po_flags o) (po_hashes o ++ [(hd 0 v, tl v)]) (po_drop o) (po_pid o) (po_queue o) (po_verdicts o)
  else if c =? 4 then mkPopts (po_comments o) (po_flags o) (po_hashes o) (Some (le_val (sl v 0 8))) (po_pid o) (po_queue o) (po_verdicts o)
  else if c =? 5 then mkPopts (po_comments o) (po_flags o) (po_hashes o) (po_drop o) (Some (le_val (sl v 0 8))) (po_queue o) (po_verdicts o)
  else if c =? 6 then mkPopts (po_comments o) (po_flags o) (po_hashes o) (po_drop o) (po_pid o) (Some (le_val (sl v 0 4))) (po_verdicts o)
  else if c =? 7 then mkPopts (po_comments o) (po_flags o) (po_hashes o) (po_drop o) (po_pid o) (po_queue o) (po_verdicts o ++ [(hd 0 v, tl v)])
  else o.

(* an option the packet option parser accepts *)
Definition popt_ok (cv : Z * list Z) : Prop :=
  let '(c, v) := cv in
  0 < c < 65536 /\ zlen v < 65536 /\
  ((c = 2 \/ c = 6) -> 4 <= zlen v) /\ ((c = 4 \/ c = 5) -> 8 <= zlen v) /\ ((c = 3 \/ c = 7) -> 1 <= zlen v).

Definition opts_bytes (l : list (Z * list Z)) : Z := fold_right (fun o acc => opt_size o + acc) 0 l.

Lemma exec_pkt_opts : forall opts fuel o s rest,
  (length opts < fuel)%nat -> r_big s = false -> Forall popt_ok opts ->
  r_blen s = opts_bytes opts + 8 -> r_blen s < 4294967296 ->
  exists s', exec (pkt_opts fuel o) s (concat (map opt_enc opts) ++ [0;0;0;0] ++ rest)
             = ((s', Ok (fold_left pstep opts o)), rest)
    /\ r_blen s' = 4 /\ core s' = core s.
Proof.
  induction opts as [|[c v] t IH]; intros fuel o s rest Hf Hbig Hok Hb1 Hb2.
  - destruct fuel as [|f]; [cbn in Hf; lia|]. cbn [pkt_opts map concat app fold_left opts_bytes fold_right] in *.
    destruct (exec_readOption_eoo s rest Hbig ltac:(lia) Hb2) as (s1 & E1 & C1 & B1 & K1).
    rewrite exec_bind. change ([0;0;0;0] ++ rest) with ([0;0;0;0] ++ rest) in E1. cbn [app] in E1. rewrite E1. cbv iota beta.
    rewrite exec_bind, exec_sget. cbv iota beta. rewrite C1. cbn [Z.eqb]. rewrite exec_sret.
    exists s1. repeat split; auto; lia.
  - destruct fuel as [|f]; [cbn in Hf; lia|]. inversion Hok as [|? ? Hcv Ht]; subst.
    destruct Hcv as (Hc & Hv & H26 & H45 & H37).
    cbn [map concat opts_bytes fold_right fold_left] in *. rewrite <- app_assoc.
    pose proof (opt_size_pos (c, v)) as Hp.
    assert (0 <= opts_bytes t) as Hnn.
    { clear. induction t as [|x t IHt]; cbn [opts_bytes fold_right]; [lia|]. pose proof (opt_size_pos x). fold (opts_bytes t). lia. }
    fold (opts_bytes t) in Hb1.
    destruct (exec_readOption s c v (concat (map opt_enc t) ++ [0;0;0;0] ++ rest) Hbig Hc Hv ltac:(lia) Hb2)
      as (s1 & E1 & C1 & V1 & B1 & K1).
    cbn [pkt_opts]. rewrite exec_bind, E1. cbv iota beta. rewrite exec_bind, exec_sget. cbv iota beta.
    rewrite C1, V1.
    assert (r_big s1 = false) as Hbig1 by (destruct (core_fields _ _ K1) as (-> & _); exact Hbig).
    assert (exists s', exec (pkt_opts f (pstep o (c, v))) s1 (concat (map opt_enc t) ++ [0;0;0;0] ++ rest)
              = ((s', Ok (fold_left pstep t (pstep o (c, v)))), rest) /\ r_blen s' = 4 /\ core s' = core s1) as (s2 & E2 & B2 & K2).
    { apply IH; auto; try lia. cbn in Hf. lia. }
    match goal with |- exists s', exec ?body s1 ?l = _ /\ _ =>
      assert (body = pkt_opts f (pstep o (c, v))) as Hbody end.
    { unfold pstep. assert (c =? 0 = false) as -> by lia.
      destruct (c =? 1) eqn:X1; [reflexivity|].
      destruct (c =? 2) eqn:X2; [assert (zlen v <? 4 = false) as -> by lia; reflexivity|].
      destruct (c =? 3) eqn:X3; [destruct v as [|a h]; [unfold zlen in H37; cbn in H37; lia|reflexivity]|].
      destruct (c =? 4) eqn:X4; [assert (zlen v <? 8 = false) as -> by lia; reflexivity|].
      destruct (c =? 5) eqn:X5; [assert (zlen v <? 8 = false) as -> by lia; reflexivity|].
      destruct (c =? 6) eqn:X6; [assert (zlen v <? 4 = false) as -> by lia; reflexivity|].
      destruct (c =? 7) eqn:X7; [destruct v as [|a h]; [unfold zlen in H37; cbn in H37; lia|reflexivity]|].
      reflexivity. }
    rewrite Hbody, E2. exists s2. repeat split; auto. rewrite K2; exact K1.
Qed.

(* ---- what the writer emits for NgPacketOptions is read back as the same NgPacketOptions *)
Definition flags_wf (f : flags4) : Prop :=
  let '(d, r, fc, ll) := f in
  0 <= d < 4 /\ (exists k, 0 <= k < 8 /\ r = 4 * k) /\ (exists k, 0 <= k < 32 /\ fc = 32 * k)
  /\ (exists k, 0 <= k < 65536 /\ ll = 65536 * k).

Definition wf_popts (o : popts) : Prop :=
  Forall (fun c => zlen c < 65536) (po_comments o)
  /\ match po_flags o with Some f => flags_wf f | None => True end
  /\ Forall (fun h => zlen (snd h) < 65535) (po_hashes o)
  /\ match po_drop o with Some v => 0 <= v < 18446744073709551616 | None => True end
  /\ match po_pid o with Some v => 0 <= v < 18446744073709551616 | None => True end
  /\ match po_queue o with Some v => 0 <= v < 4294967296 | None => True end
  /\ Forall (fun h => zlen (snd h) < 65535) (po_verdicts o).

Lemma flags_roundtrip f : flags_wf f -> flags_from_u32 (flags_to_u32 f) = f /\ 0 <= flags_to_u32 f < 4294967296.
Proof.
  destruct f as [[[d r] fc] ll]. intros (Hd & (k1 & Hk1 & ->) & (k2 & Hk2 & ->) & (k3 & Hk3 & ->)).
  unfold flags_to_u32, flags_from_u32.
  assert (d mod 4 = d) as -> by (apply Z.mod_small; lia).
  assert (4 * k1 / 4 mod 8 = k1) as -> by (rewrite Z.mul_comm, Z.div_mul by lia; apply Z.mod_small; lia).
  assert (32 * k2 / 32 mod 32 = k2) as -> by (rewrite Z.mul_comm, Z.div_mul by lia; apply Z.mod_small; lia).
  assert (65536 * k3 / 65536 mod 65536 = k3) as -> by (rewrite Z.mul_comm, Z.div_mul by lia; apply Z.mod_small; lia).
  split; [|lia].
  assert ((d + k1 * 4 + k2 * 32 + k3 * 65536) mod 4 = d) as -> by (Z.div_mod_to_equations; lia).
  assert ((d + k1 * 4 + k2 * 32 + k3 * 65536) / 4 mod 8 = k1) as ->.
  { replace (d + k1 * 4 + k2 * 32 + k3 * 65536) with (d + (k1 + k2 * 8 + k3 * 16384) * 4) by lia.
    rewrite Z.div_add by lia. rewrite (Z.div_small d) by lia. Z.div_mod_to_equations; lia. }
  assert ((d + k1 * 4 + k2 * 32 + k3 * 65536) / 32 mod 32 = k2) as ->.
  { replace (d + k1 * 4 + k2 * 32 + k3 * 65536) with (d + k1 * 4 + (k2 + k3 * 2048) * 32) by lia.
    rewrite Z.div_add by lia. rewrite (Z.div_small (d + k1 * 4)) by lia. Z.div_mod_to_equations; lia. }
  assert ((d + k1 * 4 + k2 * 32 + k3 * 65536) / 65536 mod 65536 = k3) as ->.
  { replace (d + k1 * 4 + k2 * 32 + k3 * 65536) with (d + k1 * 4 + k2 * 32 + k3 * 65536) by lia.
    rewrite Z.div_add by lia. rewrite (Z.div_small (d + k1 * 4 + k2 * 32)) by lia. apply Z.mod_small; lia. }
  rewrite (Z.mul_comm k1), (Z.mul_comm k2), (Z.mul_comm k3). reflexivity.
Qed.

Lemma le_val_sl_le_bytes n x : 0 <= x < 256 ^ Z.of_nat n -> le_val (sl (le_bytes n x) 0 n) = x.
Proof. intros H. rewrite sl_all by apply le_bytes_length. apply le_val_le_bytes; exact H. Qed.

Definition set_comments o cs := mkPopts cs (po_flags o) (po_hashes o) (po_drop o) (po_pid o) (po_queue o) (po_verdicts o).
Definition set_hashes o hs := mkPopts (po_comments o) (po_flags o) hs (po_drop o) (po_pid o) (po_queue o) (po_verdicts o).
Definition set_verdicts o vs := mkPopts (po_comments o) (po_flags o) (po_hashes o) (po_drop o) (po_pid o) (po_queue o) vs.

Lemma fold_comments cs : forall o, fold_left pstep (map (fun c => (1, c)) cs) o = set_comments o (po_comments o ++ cs).
Proof.
  induction cs as [|c t IH]; intros o; cbn [map fold_left].
  - unfold set_comments. rewrite app_nil_r. destruct o; reflexivity.
  - rewrite IH. unfold pstep, set_comments. cbn [Z.eqb Pos.eqb po_comments po_flags po_hashes po_drop po_pid po_queue po_verdicts].
    rewrite <- app_assoc. reflexivity.
Qed.
Lemma fold_hashes hs : forall o, fold_left pstep (map (fun h => (3, fst h :: snd h)) hs) o = set_hashes o (po_hashes o ++ hs).
Proof.
  induction hs as [|[a h] t IH]; intros o; cbn [map fold_left].
  - unfold set_hashes. rewrite app_nil_r. destruct o; reflexivity.
  - rewrite IH. unfold pstep, set_hashes. cbn [Z.eqb Pos.eqb po_comments po_flags po_hashes po_drop po_pid po_queue po_verdicts fst snd hd tl].
    rewrite <- app_assoc. reflexivity.
Qed.
Lemma fold_verdicts hs : forall o, fold_left pstep (map (fun h => (7, fst h :: snd h)) hs) o = set_verdicts o (po_verdicts o ++ hs).
Proof.
  induction hs as [|[a h] t IH]; intros o; cbn [map fold_left].
  - unfold set_verdicts. rewrite app_nil_r. destruct o; reflexivity.
  - rewrite IH. unfold pstep, set_verdicts. cbn [Z.eqb Pos.eqb po_comments po_flags po_hashes po_drop po_pid po_queue po_verdicts fst snd hd tl].
    rewrite <- app_assoc. reflexivity.
Qed.

Lemma pstep_2 o v : pstep o (2, v) = mkPopts (po_comments o) (Some (flags_from_u32 (le_val (sl v 0 4)))) (po_hashes o) (po_drop o) (po_pid o) (po_queue o) (po_verdicts o).
Proof. reflexivity. Qed.
Lemma pstep_4 o v : pstep o (4, v) = mkPopts (po_comments o) (po_flags o) (po_hashes o) (Some (le_val (sl v 0 8))) (po_pid o) (po_queue o) (po_verdicts o).
Proof. reflexivity. Qed.
Lemma pstep_5 o v : pstep o (5, v) = mkPopts (po_comments o) (po_flags o) (po_hashes o) (po_drop o) (Some (le_val (sl v 0 8))) (po_queue o) (po_verdicts o).
Proof. reflexivity. Qed.
Lemma pstep_6 o v : pstep o (6, v) = mkPopts (po_comments o) (po_flags o) (po_hashes o) (po_drop o) (po_pid o) (Some (le_val (sl v 0 4))) (po_verdicts o).
Proof. reflexivity. Qed.

Lemma popts_fold o : wf_popts o -> fold_left pstep (popts_to_options o) empty_popts = o.
Proof.
  intros (Hc & Hf & Hh & Hd & Hp & Hq & Hv). unfold popts_to_options.
  rewrite !fold_left_app, fold_comments.
  destruct o as [cs fl hs dr pid qu vs]. cbn [po_comments po_flags po_hashes po_drop po_pid po_queue po_verdicts empty_popts app] in *.
  unfold set_comments; cbn [po_comments po_flags po_hashes po_drop po_pid po_queue po_verdicts].
  assert (forall x, 0 <= x < 4294967296 -> le_val (sl (le_bytes 4 x) 0 4) = x) as L4
    by (intros; apply le_val_sl_le_bytes; change (256 ^ Z.of_nat 4) with 4294967296; lia).
  assert (forall x, 0 <= x < 18446744073709551616 -> le_val (sl (le_bytes 8 x) 0 8) = x) as L8
    by (intros; apply le_val_sl_le_bytes; change (256 ^ Z.of_nat 8) with 18446744073709551616; lia).
  destruct fl as [f|]; cbn [fold_left];
    [rewrite pstep_2; destruct (flags_roundtrip f Hf) as [R1 R2]; rewrite L4, R1 by exact R2|];
  rewrite fold_hashes; unfold set_hashes; cbn [po_comments po_flags po_hashes po_drop po_pid po_queue po_verdicts app];
  (destruct dr as [d|]; cbn [fold_left]; [rewrite pstep_4, L8 by exact Hd|]);
  (destruct pid as [p|]; cbn [fold_left]; [rewrite pstep_5, L8 by exact Hp|]);
  (destruct qu as [q|]; cbn [fold_left]; [rewrite pstep_6, L4 by exact Hq|]);
  cbn [po_comments po_flags po_hashes po_drop po_pid po_queue po_verdicts];
  rewrite fold_verdicts; unfold set_verdicts; cbn [po_comments po_flags po_hashes po_drop po_pid po_queue po_verdicts app]; reflexivity.
Qed.

Lemma popts_ok o : wf_popts o -> Forall popt_ok (popts_to_options o).
Proof.
  intros (Hc & Hf & Hh & Hd & Hp & Hq & Hv). unfold popts_to_options.
  repeat (apply Forall_app; split).
  - rewrite Forall_map. eapply Forall_impl; [|exact Hc]. intros c H. unfold popt_ok. cbv beta in *. repeat split; intros; lia.
  - destruct (po_flags o); constructor; [|constructor]. unfold popt_ok. rewrite zlen_le_bytes. repeat split; intros; lia.
  - rewrite Forall_map. eapply Forall_impl; [|exact Hh]. intros [a h] H. unfold popt_ok. cbv beta in *. cbn [fst snd] in *.
    replace (zlen (a :: h)) with (zlen h + 1) by (unfold zlen; cbn [length]; lia). pose proof (zlen_nonneg h). repeat split; intros; lia.
  - destruct (po_drop o); constructor; [|constructor]. unfold popt_ok. rewrite zlen_le_bytes. repeat split; intros; lia.
  - destruct (po_pid o); constructor; [|constructor]. unfold popt_ok. rewrite zlen_le_bytes. repeat split; intros; lia.
  - destruct (po_queue o); constructor; [|constructor]. unfold popt_ok. rewrite zlen_le_bytes. repeat split; intros; lia.
  - rewrite Forall_map. eapply Forall_impl; [|exact Hv]. intros [a h] H. unfold popt_ok. cbv beta in *. cbn [fst snd] in *.
    replace (zlen (a :: h)) with (zlen h + 1) by (unfold zlen; cbn [length]; lia). pose proof (zlen_nonneg h). repeat split; intros; lia.
Qed.

(* ---- option area: sizes *)
Lemma opts_bytes_nonneg l : 0 <= opts_bytes l.
Proof. induction l as [|x t IH]; cbn [opts_bytes fold_right]; [lia|]. pose proof (opt_size_pos x). fold (opts_bytes t). lia. Qed.

Lemma opts_fold_small l : forall acc, 0 <= acc -> acc + opts_bytes l < 4294967296 ->
  fold_left (fun a o => u32 (a + opt_size o)) l acc = acc + opts_bytes l.
Proof.
  induction l as [|x t IH]; intros acc Ha Hb; cbn [fold_left opts_bytes fold_right] in *; [lia|].
  fold (opts_bytes t) in *. pose proof (opt_size_pos x). pose proof (opts_bytes_nonneg t).
  rewrite u32_small by lia. rewrite IH by lia. lia.
Qed.

Lemma opts_size_small l : opts_bytes l + 4 < 4294967296 ->
  opts_size l = match l with [] => 0 | _ => opts_bytes l + 4 end.
Proof.
  intros H. unfold opts_size. rewrite opts_fold_small by (pose proof (opts_bytes_nonneg l); lia). cbn [Z.add].
  destruct l as [|x t]; [reflexivity|].
  assert (0 <? opts_bytes (x :: t) = true) as ->.
  { cbn [opts_bytes fold_right]. fold (opts_bytes t). pose proof (opt_size_pos x). pose proof (opts_bytes_nonneg t). lia. }
  apply u32_small. pose proof (opts_bytes_nonneg (x :: t)). lia.
Qed.

Lemma opt_size_mod4 o : opt_size o mod 4 = 0.
Proof. unfold opt_size. pose proof (pad4_aligned (zlen (snd o))). Z.div_mod_to_equations. lia. Qed.
Lemma opts_bytes_mod4 l : opts_bytes l mod 4 = 0.
Proof.
  induction l as [|x t IH]; cbn [opts_bytes fold_right]; [reflexivity|]. fold (opts_bytes t).
  pose proof (opt_size_mod4 x). Z.div_mod_to_equations. lia.
Qed.

(* ---- block header of a block other than a section header, little endian *)
Lemma exec_readBlock_plain s typ len rest :
  r_big s = false -> 0 <= typ < 4294967296 -> typ <> BT_SHB -> 8 <= len < 4294967296 ->
  exec readBlock s (le_bytes 4 typ ++ le_bytes 4 len ++ rest) = ((set_block s false typ (len - 8), Ok tt), rest).
Proof.
  intros Hbig Ht Hn Hl. unfold exec, readBlock. cbn [run_d].
  rewrite app_assoc. rewrite zlen_app, zlen_app, !zlen_le_bytes.
  pose proof (zlen_nonneg rest). assert (8 <=? Z.of_nat 4 + Z.of_nat 4 + zlen rest = true) as -> by lia.
  cbn [Z.leb Z.compare].
  replace (Z.to_nat 8) with (length (le_bytes 4 typ ++ le_bytes 4 len)) by (rewrite app_length, !le_bytes_length; reflexivity).
  rewrite firstn_app_exact, skipn_app_exact. rewrite Hbig. unfold getu.
  rewrite sl_0 by apply le_bytes_length.
  rewrite (sl_skip (le_bytes 4 typ) _ 4 4 8) by (try apply le_bytes_length; lia). cbn [Nat.sub].
  rewrite sl_all by apply le_bytes_length.
  rewrite !le_val_le_bytes by (change (256 ^ Z.of_nat 4) with 4294967296; lia).
  assert (typ =? BT_SHB = false) as -> by lia.
  cbn [run_d]. rewrite u32_small by lia. reflexivity.
Qed.

(* ---- timestamps *)
Lemma ts_split ts : 0 <= ts < 18446744073709551616 ->
  u32 (ts / 4294967296) * 4294967296 + u32 ts = ts.
Proof. intros H. unfold u32. Z.div_mod_to_equations. lia. Qed.

Definition iface_ns (i : iface) : Prop :=
  if_mask i = E9 /\ if_up i = 1 /\ if_down i = 1 /\ if_tsoff i = 0.

Lemma convert_time_ns i ts : iface_ns i -> 0 <= ts < 9223372036854775808 ->
  convert_time i ts = Ok (ts / E9, ts mod E9).
Proof.
  intros (Hm & Hu & Hd & Ho) Hts. unfold convert_time. rewrite Hm, Hu, Hd, Ho. unfold E9. cbn [Z.eqb].
  assert (forall x, 0 <= x < 9223372036854775808 -> sint 64 (u64 x) = x) as S.
  { intros x Hx. unfold sint, u64. change (2 ^ 64) with 18446744073709551616.
    rewrite Z.mod_mod by lia. rewrite Z.mod_small by lia. change (18446744073709551616 / 2) with 9223372036854775808.
    assert (x <? 9223372036854775808 = true) as -> by lia. reflexivity. }
  assert (0 <= ts / 1000000000 < 9223372036854775808) by (Z.div_mod_to_equations; lia).
  assert (0 <= ts mod 1000000000 < 1000000000) by (apply Z.mod_pos_bound; lia).
  rewrite Z.add_0_r, Z.mul_1_r. rewrite (S (ts / 1000000000)) by lia.
  rewrite (u64_id (ts mod 1000000000)) by lia. rewrite Z.div_1_r. rewrite (S (ts mod 1000000000)) by lia.
  rewrite (Z.div_small (ts mod 1000000000)) by lia. rewrite Z.add_0_r.
  rewrite (Z.mod_small (ts mod 1000000000)) by lia.
  f_equal. f_equal. unfold sint. change (2 ^ 64) with 18446744073709551616.
  rewrite Z.mod_small by lia. change (18446744073709551616 / 2) with 9223372036854775808.
  assert (ts / 1000000000 <? 9223372036854775808 = true) as -> by lia. reflexivity.
Qed.

(* ---- one enhanced packet block: what the writer made of a packet is read back as that packet *)
Definition wf_packet (ifs : list iface) (ifid ts caplen len : Z) (data : list Z) (o : popts) : Prop :=
  0 <= ts < 9223372036854775808 /\ caplen = zlen data /\ caplen <= len /\ len < 4294967296
  /\ wf_popts o /\ opts_bytes (popts_to_options o) + zlen data + 64 < 4294967296
  /\ 0 <= ifid < 4294967296 /\ exists i, nth_error ifs (Z.to_nat ifid) = Some i /\ iface_ns i
                          /\ (if_snap i = 0 \/ caplen <= if_snap i) /\ ifid < zlen ifs.

Lemma zlen_opts_enc l : zlen (opts_enc l) = match l with [] => 0 | _ => opts_bytes l + 4 end.
Proof.
  destruct l as [|x t]; [reflexivity|]. unfold opts_enc. rewrite zlen_app. change (zlen [0;0;0;0]) with 4.
  f_equal. generalize (x :: t). intros l. induction l as [|y u IH]; cbn [map concat opts_bytes fold_right]; [reflexivity|].
  rewrite zlen_app, IH. destruct y as [c v]. rewrite zlen_opt_enc. reflexivity.
Qed.

Lemma exec_pkt_opts_written F o s rest :
  (length (popts_to_options o) < F)%nat -> r_big s = false -> wf_popts o ->
  r_blen s = zlen (opts_enc (popts_to_options o)) + 4 -> r_blen s < 4294967296 ->
  exists s', exec (pkt_opts F empty_popts) s (opts_enc (popts_to_options o) ++ rest) = ((s', Ok o), rest)
    /\ r_blen s' = 4 /\ core s' = core s.
Proof.
  intros HF Hbig Hwf Hb1 Hb2. rewrite zlen_opts_enc in Hb1.
  destruct (popts_to_options o) as [|x t] eqn:E.
  - (* no options written: the end of options is inferred from the remaining length *)
    destruct F as [|f]; [cbn in HF; lia|]. cbn [opts_enc app pkt_opts].
    destruct (exec_readOption_fake s rest ltac:(lia)) as (s1 & E1 & C1 & B1 & K1).
    rewrite exec_bind, E1. cbv iota beta. rewrite exec_bind, exec_sget. cbv iota beta. rewrite C1. cbn [Z.eqb].
    rewrite exec_sret. exists s1. repeat split; auto.
    pose proof (popts_fold o Hwf) as P. rewrite E in P. cbn in P. rewrite P. reflexivity.
  - unfold opts_enc. rewrite <- app_assoc. rewrite <- E in *.
    destruct (exec_pkt_opts (popts_to_options o) F empty_popts s rest HF Hbig (popts_ok o Hwf) ltac:(rewrite E in *; lia) Hb2)
      as (s1 & E1 & B1 & K1).
    rewrite E1. rewrite (popts_fold o Hwf). exists s1. repeat split; auto.
Qed.

Lemma hdr20_fields a h l c d :
  0 <= a < 4294967296 -> 0 <= h < 4294967296 -> 0 <= l < 4294967296 -> 0 <= c < 4294967296 -> 0 <= d < 4294967296 ->
  let b := le_bytes 4 a ++ (le_bytes 4 h ++ le_bytes 4 l) ++ le_bytes 4 c ++ le_bytes 4 d in
  zlen b = 20 /\ getu false (sl b 0 4) = a /\ ts_of false (sl b 4 12) = h * 4294967296 + l
  /\ getu false (sl b 12 16) = c /\ getu false (sl b 16 20) = d.
Proof.
  intros Ha Hh Hl Hc Hd b. subst b.
  assert (forall x, 0 <= x < 4294967296 -> le_val (le_bytes 4 x) = x) as L
    by (intros; apply le_val_le_bytes; change (256 ^ Z.of_nat 4) with 4294967296; lia).
  split; [rewrite !zlen_app, !zlen_le_bytes; reflexivity|].
  unfold getu, ts_of. split; [rewrite sl_0 by apply le_bytes_length; apply L; exact Ha|].
  split.
  - rewrite (sl_skip (le_bytes 4 a) _ 4 4 12) by (try apply le_bytes_length; lia). cbn [Nat.sub].
    rewrite <- app_assoc. unfold getu.
    assert (sl (le_bytes 4 h ++ le_bytes 4 l ++ le_bytes 4 c ++ le_bytes 4 d) 0 8 = le_bytes 4 h ++ le_bytes 4 l) as ->.
    { rewrite app_assoc. apply sl_0. rewrite app_length, !le_bytes_length. reflexivity. }
    rewrite sl_0 by apply le_bytes_length.
    rewrite (sl_skip (le_bytes 4 h) _ 4 4 8) by (try apply le_bytes_length; lia). cbn [Nat.sub].
    rewrite sl_all by apply le_bytes_length. rewrite !L by assumption. reflexivity.
  - rewrite (sl_skip (le_bytes 4 a) _ 4 12 16), (sl_skip (le_bytes 4 a) _ 4 16 20) by (try apply le_bytes_length; lia). cbn [Nat.sub].
    rewrite (sl_skip (le_bytes 4 h ++ le_bytes 4 l) _ 8 8 12), (sl_skip (le_bytes 4 h ++ le_bytes 4 l) _ 8 12 16)
      by (try (rewrite app_length, !le_bytes_length; reflexivity); lia). cbn [Nat.sub].
    rewrite sl_0 by apply le_bytes_length.
    rewrite (sl_skip (le_bytes 4 c) _ 4 4 8) by (try apply le_bytes_length; lia). cbn [Nat.sub].
    rewrite sl_all by apply le_bytes_length. rewrite !L by assumption. split; reflexivity.
Qed.

Lemma enc_epb_shape ifs ifid ts caplen len data o :
  wf_packet ifs ifid ts caplen len data o ->
  let options := popts_to_options o in
  let L := zlen (opts_enc options) + 32 + zlen data + pad4 (zlen data) in
  enc_epb ifid ts caplen len data o =
    le_bytes 4 6 ++ le_bytes 4 L
    ++ (le_bytes 4 ifid ++ (le_bytes 4 (u32 (ts / 4294967296)) ++ le_bytes 4 (u32 ts)) ++ le_bytes 4 caplen ++ le_bytes 4 len)
    ++ data ++ zeros (pad4 (zlen data)) ++ opts_enc options ++ le_bytes 4 L
  /\ 32 <= L < 4294967296 /\ 0 <= ifid < 4294967296.
Proof.
  intros (Hts & Hcap & Hcl & Hlen & Hwf & Hsz & Hid0 & i & Ei & Hns & Hsnap & Hidlt). cbv zeta.
  set (options := popts_to_options o) in *.
  pose proof (opts_bytes_nonneg options) as Hob. pose proof (opts_bytes_mod4 options) as Hom.
  pose proof (zlen_nonneg data) as Hd0. pose proof (pad4_range (zlen data)) as Hpd.
  assert (opts_size options = zlen (opts_enc options)) as Hos
    by (rewrite opts_size_small by lia; rewrite zlen_opts_enc; reflexivity).
  assert (0 <= zlen (opts_enc options) <= opts_bytes options + 4 /\ zlen (opts_enc options) mod 4 = 0) as (Hz1 & Hz2).
  { rewrite zlen_opts_enc. destruct options; [cbn; lia|]. split; [lia|]. Z.div_mod_to_equations; lia. }
  unfold enc_epb. cbv zeta. fold options. rewrite Hos.
  rewrite (u32_small (zlen data)) by lia.
  rewrite (u32_small (zlen (opts_enc options) + 28 + zlen data + 4)) by lia.
  assert ((4 - (zlen (opts_enc options) + 28 + zlen data + 4) mod 4) mod 4 = pad4 (zlen data)) as ->
    by (unfold pad4; Z.div_mod_to_equations; lia).
  rewrite (u32_small (zlen (opts_enc options) + 28 + zlen data + 4 + pad4 (zlen data))) by lia.
  rewrite (u32_small ifid), (u32_small caplen), (u32_small len) by lia.
  replace (zlen (opts_enc options) + 28 + zlen data + 4 + pad4 (zlen data))
    with (zlen (opts_enc options) + 32 + zlen data + pad4 (zlen data)) by lia.
  unfold enc_ts. split; [|lia].
  repeat rewrite <- app_assoc. reflexivity.
Qed.

(* readPacket with the fuel of its block loop made a parameter: readPacket ro F = readPacketG ro F F *)
Definition rp_tail (ro : ropts) (F : nat) : SM pkt :=
  s <- sget ;;
  let ci := r_ci s in
  let cap := ci_cap ci in
  let snap := match nth_error (r_ifaces s) (Z.to_nat (ci_if ci)) with Some i => if_snap i | None => 0 end in
  (if ro_zc ro then
     (if r_pcap s <? cap then
        s_alloc (Z.max snap cap) snap ;;; smod (fun s => set_pcap s (Z.max snap cap))
      else sret tt)
   else s_alloc cap snap) ;;;
  data <- s_rd cap ;;
  sub_blen cap ;;;
  (if 0 <? pad4 cap then s_disc (pad4 cap) else sret tt) ;;;
  opts <- (if r_btyp s =? 6 then pkt_opts F empty_popts else sret empty_popts) ;;
  s2 <- sget ;;
  s_disc (r_blen s2) ;;;
  sret (mkPkt ci (if ro_mixed ro then r_ancil s else -1) data opts).
Definition readPacketG (ro : ropts) (F g : nat) : SM pkt := readPacketHeader ro F g ;;; rp_tail ro F.
Lemma readPacket_unfold ro F : readPacket ro F = readPacketG ro F F.
Proof. reflexivity. Qed.

(* all link types wanted, or only the first interface's and this packet's interface has it *)
Lemma exec_epb_gen ro F g s ifid ts caplen len data o rest :
  (ro_mixed ro = true \/
   (ro_mixed ro = false /\ forall i, nth_error (r_ifaces s) (Z.to_nat ifid) = Some i -> if_link i = r_link s)) ->
  r_big s = false -> (length (popts_to_options o) + 2 < F)%nat ->
  wf_packet (r_ifaces s) ifid ts caplen len data o ->
  exists s' i, nth_error (r_ifaces s) (Z.to_nat ifid) = Some i /\
    exec (readPacketG ro F (S g)) s (enc_epb ifid ts caplen len data o ++ rest)
      = ((s', Ok (mkPkt (mkCi ifid (ts / E9, ts mod E9) caplen len) (if ro_mixed ro then if_link i else -1) data o)), rest)
    /\ r_big s' = false /\ r_ifaces s' = r_ifaces s /\ r_link s' = r_link s /\ r_first s' = r_first s
    /\ r_sect s' = r_sect s /\ r_names s' = r_names s.
Proof.
  intros Hsel Hbig HF Hwf. pose proof (enc_epb_shape _ _ _ _ _ _ _ Hwf) as (Hshape & HL & Hid). cbv zeta in *.
  destruct Hwf as (Hts & Hcap & Hcl & Hlen & Hwo & Hsz & _ & i & Ei & Hns & Hsnap & Hidlt).
  set (options := popts_to_options o) in *.
  set (L := zlen (opts_enc options) + 32 + zlen data + pad4 (zlen data)) in *.
  pose proof (zlen_nonneg data) as Hd0. pose proof (pad4_range (zlen data)) as Hpd.
  assert (0 <= zlen (opts_enc options)) as Hoe by apply zlen_nonneg.
  rewrite Hshape. destruct F as [|f]; [lia|].
  destruct (hdr20_fields ifid (u32 (ts / 4294967296)) (u32 ts) caplen len ltac:(lia)
              ltac:(unfold u32; apply Z.mod_pos_bound; lia) ltac:(unfold u32; apply Z.mod_pos_bound; lia) ltac:(lia) ltac:(lia))
    as (Hb20 & Hf1 & Hf2 & Hf3 & Hf4).
  set (b20 := le_bytes 4 ifid ++ (le_bytes 4 (u32 (ts / 4294967296)) ++ le_bytes 4 (u32 ts)) ++ le_bytes 4 caplen ++ le_bytes 4 len) in *.
  rewrite ts_split in Hf2 by lia.
  repeat rewrite <- app_assoc.
  set (tail := data ++ zeros (pad4 (zlen data)) ++ opts_enc options ++ le_bytes 4 L ++ rest).
  (* the header *)
  assert (exists s1, exec (readPacketHeader ro (S f) (S g)) s (le_bytes 4 6 ++ le_bytes 4 L ++ b20 ++ tail) = ((s1, Ok tt), tail)
            /\ r_big s1 = false /\ r_btyp s1 = 6 /\ r_blen s1 = L - 28
            /\ r_ci s1 = mkCi ifid (ts / E9, ts mod E9) caplen len /\ (ro_mixed ro = true -> r_ancil s1 = if_link i)
            /\ r_ifaces s1 = r_ifaces s /\ r_link s1 = r_link s /\ r_first s1 = r_first s /\ r_pcap s1 = r_pcap s
            /\ r_sect s1 = r_sect s /\ r_names s1 = r_names s) as (s1 & Eh & A1 & A2 & A3 & A4 & A5 & A6 & A7 & A8 & A9 & A10 & A11).
  { cbn [readPacketHeader]. cbv zeta.
    rewrite exec_bind, exec_readBlock_plain by (try assumption; try lia; unfold BT_SHB; lia). cbv iota beta.
    rewrite exec_bind, exec_sget. cbv iota beta. sim. cbn [Z.eqb Pos.eqb orb].
    rewrite exec_bind, exec_rd_app by exact Hb20. cbv iota beta.
    rewrite exec_bind, exec_sub_blen. cbv iota beta.
    rewrite exec_bind, exec_sget. cbv iota beta. sim. rewrite Hf1, Hf2.
    rewrite exec_bind, exec_smod. cbv iota beta. sim.
    assert (zlen (r_ifaces s) <=? ifid = false) as -> by lia. rewrite Ei.
    rewrite exec_bind. rewrite (convert_time_ns i ts Hns Hts). cbn [slift]. rewrite exec_sret. cbv iota beta.
    rewrite exec_bind, exec_smod. cbv iota beta. sim. rewrite Hf3, Hf4.
    rewrite exec_bind. unfold check_caplen. rewrite exec_bind, exec_sget. cbv iota beta. sim.
    rewrite u32_small by lia.
    assert (L - 8 - 20 <? caplen = false) as -> by (subst L; lia).
    assert (len <? caplen = false) as -> by lia.
    assert (negb (if_snap i =? 0) && (if_snap i <? caplen) = false) as -> by (destruct Hsnap; lia).
    rewrite exec_sret. cbv iota beta.
    rewrite exec_bind, exec_sget. cbv iota beta. sim. rewrite Ei.
    destruct Hsel as [Hmix|(Hmix & Hl)]; rewrite Hmix; cbn [negb].
    - rewrite exec_smod. eexists. split; [reflexivity|]. sim. repeat split; auto. lia.
    - rewrite (Hl i Ei), Z.eqb_refl. cbn [negb]. rewrite exec_sret. eexists. split; [reflexivity|]. sim.
      repeat split; auto; try lia; congruence. }
  unfold readPacketG, rp_tail. rewrite exec_bind, Eh. cbv iota beta.
  rewrite exec_bind, exec_sget. cbv iota beta. rewrite A4, A2. sim. rewrite A6, Ei.
  (* allocation: three ways, the same afterwards *)
  assert (exists s2, exec (if ro_zc ro
             then if r_pcap s1 <? caplen
                  then s_alloc (Z.max (if_snap i) caplen) (if_snap i);;; smod (fun s0 : rst => set_pcap s0 (Z.max (if_snap i) caplen))
                  else sret tt
             else s_alloc caplen (if_snap i)) s1 tail = ((s2, Ok tt), tail)
          /\ r_big s2 = false /\ r_blen s2 = L - 28 /\ r_ifaces s2 = r_ifaces s /\ r_link s2 = r_link s
          /\ r_first s2 = r_first s /\ r_sect s2 = r_sect s /\ r_names s2 = r_names s)
    as (s2 & Ea & B1 & B2 & B3 & B4 & B5 & B6 & B7).
  { destruct (ro_zc ro); [destruct (r_pcap s1 <? caplen)|].
    - rewrite exec_bind, exec_s_alloc. cbv iota beta. rewrite exec_smod. eexists; split; [reflexivity|]. sim. repeat split; auto.
    - rewrite exec_sret. eexists; split; [reflexivity|]. repeat split; auto.
    - rewrite exec_s_alloc. eexists; split; [reflexivity|]. repeat split; auto. }
  rewrite exec_bind, Ea. cbv iota beta. unfold tail.
  rewrite exec_bind, exec_rd_app by (symmetry; exact Hcap). cbv iota beta.
  rewrite exec_bind, exec_sub_blen. cbv iota beta. rewrite B2.
  rewrite (u32_small (L - 28 - caplen)) by (subst L; lia).
  (* padding of the packet data *)
  rewrite exec_bind.
  assert (exec (if 0 <? pad4 caplen then s_disc (pad4 caplen) else sret tt) (set_blen s2 (L - 28 - caplen))
            (zeros (pad4 (zlen data)) ++ opts_enc options ++ le_bytes 4 L ++ rest)
          = ((set_blen s2 (zlen (opts_enc options) + 4), Ok tt), opts_enc options ++ le_bytes 4 L ++ rest)) as ->.
  { rewrite Hcap. destruct (0 <? pad4 (zlen data)) eqn:Ep.
    - rewrite exec_disc_app by (apply zlen_zeros; lia). sim. rewrite u32_small by (subst L; lia).
      replace (L - 28 - zlen data - pad4 (zlen data)) with (zlen (opts_enc options) + 4) by (subst L; lia).
      destruct s2; reflexivity.
    - assert (pad4 (zlen data) = 0) as -> by lia. change (zeros 0) with (@nil Z). cbn [app]. rewrite exec_sret.
      replace (L - 28 - zlen data) with (zlen (opts_enc options) + 4) by (subst L; lia). reflexivity. }
  cbv iota beta. cbn [Z.eqb Pos.eqb].
  (* the options *)
  rewrite exec_bind.
  assert (exists s3, exec (pkt_opts (S f) empty_popts) (set_blen s2 (zlen (opts_enc options) + 4)) (opts_enc options ++ le_bytes 4 L ++ rest)
             = ((s3, Ok o), le_bytes 4 L ++ rest) /\ r_blen s3 = 4 /\ core s3 = core (set_blen s2 (zlen (opts_enc options) + 4)))
    as (s3 & Eo & C1 & C2).
  { apply exec_pkt_opts_written; [fold options; lia | sim; exact B1 | exact Hwo | sim; fold options; lia | sim; subst L; lia]. }
  rewrite Eo. cbv iota beta.
  rewrite exec_bind, exec_sget. cbv iota beta. rewrite C1.
  rewrite exec_bind, exec_disc_app by (rewrite zlen_le_bytes; reflexivity). cbv iota beta.
  rewrite exec_sret.
  assert ((if ro_mixed ro then r_ancil s1 else -1) = (if ro_mixed ro then if_link i else -1)) as ->
    by (destruct (ro_mixed ro); [rewrite (A5 eq_refl)|]; reflexivity).
  destruct (core_fields _ _ C2) as (D1 & D2 & D3 & D4 & D5 & D6 & D7 & D8 & D9 & D10 & D11 & D12). sim.
  eexists. exists i. split; [first [exact Ei|reflexivity]|]. split; [reflexivity|]. sim.
  repeat split; congruence.
Qed.

(* only the first interface's link type wanted, and this packet's interface has another: the
   block is skipped, or rejected with ErrNgLinkTypeMismatch *)
Lemma exec_epb_skip ro F g s ifid ts caplen len data o rest :
  ro_mixed ro = false -> r_big s = false -> wf_packet (r_ifaces s) ifid ts caplen len data o ->
  (forall i, nth_error (r_ifaces s) (Z.to_nat ifid) = Some i -> if_link i <> r_link s) ->
  exists s', r_big s' = false /\ r_ifaces s' = r_ifaces s /\ r_link s' = r_link s /\ r_first s' = r_first s
    /\ exec (readPacketHeader ro F (S g)) s (enc_epb ifid ts caplen len data o ++ rest)
        = if ro_errmis ro then ((s', Err 3), rest) else exec (readPacketHeader ro F g) s' rest.
Proof.
  intros Hmix Hbig Hwf Hl. pose proof (enc_epb_shape _ _ _ _ _ _ _ Hwf) as (Hshape & HL & Hid). cbv zeta in *.
  destruct Hwf as (Hts & Hcap & Hcl & Hlen & Hwo & Hsz & _ & i & Ei & Hns & Hsnap & Hidlt).
  set (options := popts_to_options o) in *.
  set (L := zlen (opts_enc options) + 32 + zlen data + pad4 (zlen data)) in *.
  pose proof (zlen_nonneg data) as Hd0. pose proof (pad4_range (zlen data)) as Hpd.
  assert (0 <= zlen (opts_enc options)) as Hoe by apply zlen_nonneg.
  rewrite Hshape. 
  destruct (hdr20_fields ifid (u32 (ts / 4294967296)) (u32 ts) caplen len ltac:(lia)
              ltac:(unfold u32; apply Z.mod_pos_bound; lia) ltac:(unfold u32; apply Z.mod_pos_bound; lia) ltac:(lia) ltac:(lia))
    as (Hb20 & Hf1 & Hf2 & Hf3 & Hf4).
  set (b20 := le_bytes 4 ifid ++ (le_bytes 4 (u32 (ts / 4294967296)) ++ le_bytes 4 (u32 ts)) ++ le_bytes 4 caplen ++ le_bytes 4 len) in *.
  rewrite ts_split in Hf2 by lia.
  repeat rewrite <- app_assoc.
  set (tail := data ++ zeros (pad4 (zlen data)) ++ opts_enc options ++ le_bytes 4 L ++ rest).
  set (blk := data ++ zeros (pad4 (zlen data)) ++ opts_enc options ++ le_bytes 4 L).
  assert (zlen blk = L - 28) as Hblk.
  { unfold blk. rewrite !zlen_app, zlen_le_bytes, zlen_zeros by lia. subst L. lia. }
  replace tail with (blk ++ rest) by (unfold tail, blk; repeat rewrite <- app_assoc; reflexivity).
  cbn [readPacketHeader]. cbv zeta.
cbn [readPacketHeader]. cbv zeta.
  rewrite exec_bind, exec_readBlock_plain by (try assumption; try lia; unfold BT_SHB; lia). cbv iota beta.
  rewrite exec_bind, exec_sget. cbv iota beta. sim. cbn [Z.eqb Pos.eqb orb].
  rewrite exec_bind, exec_rd_app by exact Hb20. cbv iota beta.
  rewrite exec_bind, exec_sub_blen. cbv iota beta.
  rewrite exec_bind, exec_sget. cbv iota beta. sim. rewrite Hf1, Hf2.
  rewrite exec_bind, exec_smod. cbv iota beta. sim.
  assert (zlen (r_ifaces s) <=? ifid = false) as -> by lia. rewrite Ei.
  rewrite exec_bind. rewrite (convert_time_ns i ts Hns Hts). cbn [slift]. rewrite exec_sret. cbv iota beta.
  rewrite exec_bind, exec_smod. cbv iota beta. sim. rewrite Hf3, Hf4.
  rewrite exec_bind. unfold check_caplen. rewrite exec_bind, exec_sget. cbv iota beta. sim.
  rewrite u32_small by lia.
  assert (L - 8 - 20 <? caplen = false) as -> by (subst L; lia).
  assert (len <? caplen = false) as -> by lia.
  assert (negb (if_snap i =? 0) && (if_snap i <? caplen) = false) as -> by (destruct Hsnap; lia).
  rewrite exec_sret. cbv iota beta.
  rewrite exec_bind, exec_sget. cbv iota beta. sim. rewrite Ei. rewrite Hmix. cbn [negb].
  assert (if_link i =? r_link s = false) as -> by (apply Z.eqb_neq; apply Hl; exact Ei). cbn [negb].
  rewrite exec_bind, exec_disc_app by lia. cbv iota beta.
  eexists. split; [|split; [|split; [|split]]]; cycle 4.
  { destruct (ro_errmis ro); [rewrite exec_sfail; reflexivity|reflexivity]. }
  all: sim; auto.
Qed.

(* the packet block header followed by ANY bytes x: what the block loop does with it *)
Lemma hdr_epb_x ro F g s ifid ts caplen len data o :
  r_big s = false -> wf_packet (r_ifaces s) ifid ts caplen len data o ->
  let L := zlen (opts_enc (popts_to_options o)) + 32 + zlen data + pad4 (zlen data) in
  let b20 := le_bytes 4 ifid ++ (le_bytes 4 (u32 (ts / 4294967296)) ++ le_bytes 4 (u32 ts)) ++ le_bytes 4 caplen ++ le_bytes 4 len in
  exists i s2, nth_error (r_ifaces s) (Z.to_nat ifid) = Some i
    /\ r_big s2 = false /\ r_btyp s2 = 6 /\ r_blen s2 = L - 28 /\ r_ci s2 = mkCi ifid (ts / E9, ts mod E9) caplen len
    /\ r_ifaces s2 = r_ifaces s /\ r_link s2 = r_link s /\ r_first s2 = r_first s /\ r_pcap s2 = r_pcap s
    /\ (forall y, zlen y < 20 -> exists s', exec (readPacketHeader ro F (S g)) s (le_bytes 4 6 ++ le_bytes 4 L ++ y) = ((s', Err 2), []))
    /\ forall x, exec (readPacketHeader ro F (S g)) s (le_bytes 4 6 ++ le_bytes 4 L ++ b20 ++ x) =
        if ro_mixed ro then ((set_ancil s2 (if_link i), Ok tt), x)
        else if negb (if_link i =? r_link s)
             then match exec (s_disc (L - 28)) s2 x with
                  | ((s3, Ok _), l1) => if ro_errmis ro then ((s3, Err 3), l1) else exec (readPacketHeader ro F g) s3 l1
                  | ((s3, Err c), l1) => ((s3, Err c), l1)
                  | ((s3, Panic q), l1) => ((s3, Panic q), l1)
                  end
             else ((s2, Ok tt), x).
Proof.
  intros Hbig Hwf. pose proof (enc_epb_shape _ _ _ _ _ _ _ Hwf) as (Hshape & HL & Hid). cbv zeta in *.
  destruct Hwf as (Hts & Hcap & Hcl & Hlen & Hwo & Hsz & _ & i & Ei & Hns & Hsnap & Hidlt).
  set (options := popts_to_options o) in *.
  set (L := zlen (opts_enc options) + 32 + zlen data + pad4 (zlen data)) in *.
  pose proof (zlen_nonneg data) as Hd0. pose proof (pad4_range (zlen data)) as Hpd.
  assert (0 <= zlen (opts_enc options)) as Hoe by apply zlen_nonneg.
  destruct (hdr20_fields ifid (u32 (ts / 4294967296)) (u32 ts) caplen len ltac:(lia)
              ltac:(unfold u32; apply Z.mod_pos_bound; lia) ltac:(unfold u32; apply Z.mod_pos_bound; lia) ltac:(lia) ltac:(lia))
    as (Hb20 & Hf1 & Hf2 & Hf3 & Hf4).
  set (b20 := le_bytes 4 ifid ++ (le_bytes 4 (u32 (ts / 4294967296)) ++ le_bytes 4 (u32 ts)) ++ le_bytes 4 caplen ++ le_bytes 4 len) in *.
  rewrite ts_split in Hf2 by lia.
  exists i. eexists. split; [exact Ei|].
  split; [|split; [|split; [|split; [|split; [|split; [|split; [|split; [|split]]]]]]]]; cycle 9.
  { intros x. set (tail := x).
    cbn [readPacketHeader]. cbv zeta.
cbn [readPacketHeader]. cbv zeta.
    rewrite exec_bind, exec_readBlock_plain by (try assumption; try lia; unfold BT_SHB; lia). cbv iota beta.
    rewrite exec_bind, exec_sget. cbv iota beta. sim. cbn [Z.eqb Pos.eqb orb].
    rewrite exec_bind, exec_rd_app by exact Hb20. cbv iota beta.
    rewrite exec_bind, exec_sub_blen. cbv iota beta.
    rewrite exec_bind, exec_sget. cbv iota beta. sim. rewrite Hf1, Hf2.
    rewrite exec_bind, exec_smod. cbv iota beta. sim.
    assert (zlen (r_ifaces s) <=? ifid = false) as -> by lia. rewrite Ei.
    rewrite exec_bind. rewrite (convert_time_ns i ts Hns Hts). cbn [slift]. rewrite exec_sret. cbv iota beta.
    rewrite exec_bind, exec_smod. cbv iota beta. sim. rewrite Hf3, Hf4.
    rewrite exec_bind. unfold check_caplen. rewrite exec_bind, exec_sget. cbv iota beta. sim.
    rewrite u32_small by lia.
    assert (L - 8 - 20 <? caplen = false) as -> by (subst L; lia).
    assert (len <? caplen = false) as -> by lia.
    assert (negb (if_snap i =? 0) && (if_snap i <? caplen) = false) as -> by (destruct Hsnap; lia).
    rewrite exec_sret. cbv iota beta.
    rewrite exec_bind, exec_sget. cbv iota beta. sim. rewrite Ei.
    destruct (ro_mixed ro); cbn [negb].
    - rewrite exec_smod. reflexivity.
    - destruct (negb (if_link i =? r_link s)).
      + rewrite exec_bind. sim. replace (L - 8 - 20) with (L - 28) by lia.
        match goal with |- context [exec (s_disc (L - 28)) ?st tail] => destruct (exec (s_disc (L - 28)) st tail) as [[s3 o3] l3] end.
        destruct o3; [destruct (ro_errmis ro); [rewrite exec_sfail|]; reflexivity|reflexivity|reflexivity].
      + rewrite exec_sret. reflexivity. }
  all: sim; auto; try lia.
  intros y Hy. cbn [readPacketHeader]. cbv zeta.
  rewrite exec_bind, exec_readBlock_plain by (try assumption; try lia; unfold BT_SHB; lia). cbv iota beta.
  rewrite exec_bind, exec_sget. cbv iota beta. sim. cbn [Z.eqb Pos.eqb orb].
  rewrite exec_bind, exec_rd_short by lia. eauto.
Qed.

Lemma exec_epb_g ro F g s ifid ts caplen len data o rest :
  ro_mixed ro = true -> r_big s = false -> (length (popts_to_options o) + 2 < F)%nat ->
  wf_packet (r_ifaces s) ifid ts caplen len data o ->
  exists s' i, nth_error (r_ifaces s) (Z.to_nat ifid) = Some i /\
    exec (readPacketG ro F (S g)) s (enc_epb ifid ts caplen len data o ++ rest)
      = ((s', Ok (mkPkt (mkCi ifid (ts / E9, ts mod E9) caplen len) (if_link i) data o)), rest)
    /\ r_big s' = false /\ r_ifaces s' = r_ifaces s /\ r_link s' = r_link s /\ r_first s' = r_first s
    /\ r_sect s' = r_sect s /\ r_names s' = r_names s.
Proof.
  intros Hmix Hbig HF Hwf.
  destruct (exec_epb_gen ro F g s ifid ts caplen len data o rest (or_introl Hmix) Hbig HF Hwf) as (s' & i & H).
  rewrite Hmix in H. eauto.
Qed.

Lemma exec_epb ro F s ifid ts caplen len data o rest :
  ro_mixed ro = true -> r_big s = false -> (length (popts_to_options o) + 2 < F)%nat ->
  wf_packet (r_ifaces s) ifid ts caplen len data o ->
  exists s' i, nth_error (r_ifaces s) (Z.to_nat ifid) = Some i /\
    exec (readPacket ro F) s (enc_epb ifid ts caplen len data o ++ rest)
      = ((s', Ok (mkPkt (mkCi ifid (ts / E9, ts mod E9) caplen len) (if_link i) data o)), rest)
    /\ r_big s' = false /\ r_ifaces s' = r_ifaces s /\ r_link s' = r_link s /\ r_first s' = r_first s
    /\ r_sect s' = r_sect s /\ r_names s' = r_names s.
Proof.
  intros Hmix Hbig HF Hwf. rewrite readPacket_unfold. destruct F as [|f]; [lia|].
  apply exec_epb_g; assumption.
Qed.

