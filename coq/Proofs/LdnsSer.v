(* Ldns — the serializer model writes exactly the bytes of a wire function of the value:
   no checked write fails (C07 no panic), the result does not depend on the prior content of the
   region (C07 junk free), and the wire functions are what the round-trip proofs decode (C06). *)
From GP Require Import Base ListX N6Lib LdnsModel.
From Coq Require Import Lia ZifyBool ZifyNat.
Ltac Zify.zify_post_hook ::= Z.div_mod_to_equations.
Open Scope Z_scope.

(* ---------------------------------------------------------------- length bookkeeping *)
Lemma n6_len_skipn k (l : list Z) : n6_len (skipn k l) = Z.max 0 (n6_len l - Z.of_nat k).
Proof. unfold n6_len. rewrite skipn_length. lia. Qed.
Lemma n6_len_firstn k (l : list Z) : n6_len (firstn k l) = Z.min (Z.of_nat k) (n6_len l).
Proof. unfold n6_len. rewrite firstn_length. lia. Qed.
Lemma n6_len_be n x : n6_len (be_bytes n x) = Z.of_nat n.
Proof. unfold n6_len. rewrite be_bytes_length. reflexivity. Qed.
Lemma n6_len_nil : n6_len [] = 0. Proof. reflexivity. Qed.
Lemma n6_len_length (l : list Z) : Z.of_nat (length l) = n6_len l. Proof. reflexivity. Qed.

Ltac lens := repeat (progress (rewrite ?n6_len_app, ?n6_len_cons, ?n6_len_skipn, ?n6_len_firstn, ?n6_len_be, ?n6_len_nil in * )).
Ltac lensolve := lens; unfold n6_len in *; lia.

(* ---------------------------------------------------------------- writes in pre ++ rest form *)
Lemma wr8_app pre x rest off v : off = n6_len pre -> wr8 (pre ++ x :: rest) off v = Ok ((pre ++ [v]) ++ rest).
Proof.
  intros ->. unfold wr8. pose proof (n6_len_nonneg pre). pose proof (n6_len_nonneg rest).
  replace ((0 <=? n6_len pre) && (n6_len pre <? n6_len (pre ++ x :: rest))) with true by (lens; lia).
  unfold n6_len at 1. rewrite Nat2Z.id. rewrite n6_put_app by (cbn; lia). cbn. rewrite <- app_assoc. reflexivity.
Qed.

Lemma wr_copy_app pre rest off src : off = n6_len pre -> n6_len src <= n6_len rest ->
  wr_copy (pre ++ rest) off src = Ok ((pre ++ src) ++ skipn (length src) rest).
Proof.
  intros -> H. unfold wr_copy. pose proof (n6_len_nonneg pre). pose proof (n6_len_nonneg rest).
  replace ((0 <=? n6_len pre) && (n6_len pre <=? n6_len (pre ++ rest))) with true by (lens; lia).
  unfold n6_len at 1. rewrite Nat2Z.id. rewrite n6_put_app by (unfold n6_len in H; lia). rewrite <- app_assoc. reflexivity.
Qed.

Lemma wr16_app pre rest off v : off = n6_len pre -> 2 <= n6_len rest ->
  wr16 (pre ++ rest) off v = Ok ((pre ++ be_bytes 2 v) ++ skipn 2 rest).
Proof.
  intros -> H. unfold wr16. pose proof (n6_len_nonneg pre).
  replace ((0 <=? n6_len pre) && (n6_len pre + 2 <=? n6_len (pre ++ rest))) with true by (lens; lia).
  unfold n6_len at 1. rewrite Nat2Z.id. rewrite n6_put_app by (rewrite be_bytes_length; unfold n6_len in H; lia).
  rewrite be_bytes_length, <- app_assoc. reflexivity.
Qed.

Lemma wr32_app pre rest off v : off = n6_len pre -> 4 <= n6_len rest ->
  wr32 (pre ++ rest) off v = Ok ((pre ++ be_bytes 4 v) ++ skipn 4 rest).
Proof.
  intros -> H. unfold wr32. pose proof (n6_len_nonneg pre).
  replace ((0 <=? n6_len pre) && (n6_len pre + 4 <=? n6_len (pre ++ rest))) with true by (lens; lia).
  unfold n6_len at 1. rewrite Nat2Z.id. rewrite n6_put_app by (rewrite be_bytes_length; unfold n6_len in H; lia).
  rewrite be_bytes_length, <- app_assoc. reflexivity.
Qed.

(* ---------------------------------------------------------------- presentation names: the wire function *)
(* the loop of encodeDNSPresentationName as a function of the name alone: done = the labels closed
   so far, each with its length octet; cur = the bytes of the open label *)
Fixpoint ap_loop (nm : list Z) (skip : nat) (done cur : list Z) (sep : bool) : outcome (list Z * list Z * bool) :=
  match nm with
  | [] => Ok (done, cur, sep)
  | c :: rest =>
      match skip with
      | S k => ap_loop rest k done cur sep
      | O =>
          if c =? 46 then
            if n6_len cur >? 63 then Err E_ENC
            else ap_loop rest 0 (done ++ u8 (n6_len cur) :: cur) [] true
          else if c =? 92 then
            match rest with
            | [] => Err E_ENC
            | next :: r2 =>
                if (next =? 46) || (next =? 92) then ap_loop rest 1 done (cur ++ [next]) false
                else if is_digit next then
                  match r2 with
                  | d2 :: d3 :: _ =>
                      if negb (is_digit d2) || negb (is_digit d3) then Err E_ENC
                      else
                        let v := (next - 48) * 100 + (d2 - 48) * 10 + (d3 - 48) in
                        if v >? 255 then Err E_ENC else ap_loop rest 3 done (cur ++ [v]) false
                  | _ => Err E_ENC
                  end
                else ap_loop rest 1 done (cur ++ [c; next]) false
            end
          else ap_loop rest 0 done (cur ++ [c]) false
      end
  end.

Definition pres_wire (name : list Z) : outcome (list Z) :=
  if (n6_len name =? 0) || ((n6_len name =? 1) && (nth 0 name 0 =? 46)) then Ok [0]
  else
    match ap_loop name 0 [] [] false with
    | Ok (done, cur, sep) =>
        if n6_len cur >? 63 then Err E_ENC
        else
          let w := if sep then done ++ [0] else done ++ u8 (n6_len cur) :: cur ++ [0] in
          if n6_len w >? 255 then Err E_ENC else Ok w
    | Err e => Err e
    | Panic s => Panic s
    end.

Lemma ap_mono : forall nm skip done cur sep done' cur' sep',
  ap_loop nm skip done cur sep = Ok (done', cur', sep') ->
  n6_len done + n6_len cur <= n6_len done' + n6_len cur' /\ (sep' = true -> cur' = [] \/ (sep = true /\ cur' = cur)).
Proof.
  induction nm as [|c rest IH]; intros skip done cur sep done' cur' sep' H; cbn [ap_loop] in H.
  - injection H as <- <- <-. split; [lia|]. intros. right. auto.
  - destruct skip as [|k]; [|apply IH in H; exact H].
    destruct (c =? 46).
    { destruct (n6_len cur >? 63); [discriminate|]. apply IH in H. destruct H as [H1 H2]. split; [lensolve|].
      intros Hs. destruct (H2 Hs) as [->|[_ ->]]; left; reflexivity. }
    destruct (c =? 92).
    { destruct rest as [|next r2]; [discriminate|].
      destruct ((next =? 46) || (next =? 92)).
      { apply IH in H. destruct H as [H1 H2]. split; [lensolve|]. intros Hs. destruct (H2 Hs) as [->|[? _]]; [left; reflexivity|discriminate]. }
      destruct (is_digit next).
      { destruct r2 as [|d2 [|d3 r3]]; try discriminate.
        destruct (negb (is_digit d2) || negb (is_digit d3)); [discriminate|].
        destruct ((next - 48) * 100 + (d2 - 48) * 10 + (d3 - 48) >? 255); [discriminate|].
        apply IH in H. destruct H as [H1 H2]. split; [lensolve|]. intros Hs. destruct (H2 Hs) as [->|[? _]]; [left; reflexivity|discriminate]. }
      apply IH in H. destruct H as [H1 H2]. split; [lensolve|]. intros Hs. destruct (H2 Hs) as [->|[? _]]; [left; reflexivity|discriminate]. }
    apply IH in H. destruct H as [H1 H2]. split; [lensolve|]. intros Hs. destruct (H2 Hs) as [->|[? _]]; [left; reflexivity|discriminate].
Qed.

Lemma ok5 {A B} (a b c a' b' c' : Z) (d : A) (e : B) : a = a' -> b = b' -> c = c' ->
  @Ok (Z * Z * Z * A * B) (a, b, c, d, e) = Ok (a', b', c', d, e).
Proof. intros -> -> ->. reflexivity. Qed.

(* the measuring pass (data = nil) *)
Lemma ep_loop_none : forall nm skip done cur sep loff,
  ep_loop nm skip loff (loff + 1 + n6_len cur) (n6_len cur) sep None =
  match ap_loop nm skip done cur sep with
  | Ok (done', cur', sep') =>
      Ok (loff + n6_len done' - n6_len done, loff + n6_len done' - n6_len done + 1 + n6_len cur', n6_len cur', sep', None)
  | Err e => Err e
  | Panic s => Panic s
  end.
Proof.
  induction nm as [|c rest IH]; intros skip done cur sep loff; cbn [ep_loop ap_loop].
  - apply ok5; lia.
  - destruct skip as [|k]; [|apply IH].
    destruct (c =? 46).
    { destruct (n6_len cur >? 63); [reflexivity|]. cbn [owr8 obind].
      specialize (IH 0%nat (done ++ u8 (n6_len cur) :: cur) [] true (loff + 1 + n6_len cur)).
      change (n6_len []) with 0 in IH. replace (loff + 1 + n6_len cur + 1 + 0) with (loff + 1 + n6_len cur + 1) in IH by lia.
      rewrite IH. destruct (ap_loop rest 0 (done ++ u8 (n6_len cur) :: cur) [] true) as [[[d' c'] s']|e|s]; [|reflexivity|reflexivity].
      apply ok5; lensolve. }
    destruct (c =? 92).
    { destruct rest as [|next r2]; [reflexivity|].
      destruct ((next =? 46) || (next =? 92)).
      { cbn [owr8 obind]. specialize (IH 1%nat done (cur ++ [next]) false loff).
        replace (n6_len (cur ++ [next])) with (n6_len cur + 1) in IH by (lens; lia).
        replace (loff + 1 + (n6_len cur + 1)) with (loff + 1 + n6_len cur + 1) in IH by lia. exact IH. }
      destruct (is_digit next).
      { destruct r2 as [|d2 [|d3 r3]]; try reflexivity.
        destruct (negb (is_digit d2) || negb (is_digit d3)); [reflexivity|].
        destruct ((next - 48) * 100 + (d2 - 48) * 10 + (d3 - 48) >? 255); [reflexivity|].
        cbn [owr8 obind]. set (v := (next - 48) * 100 + (d2 - 48) * 10 + (d3 - 48)).
        specialize (IH 3%nat done (cur ++ [v]) false loff).
        replace (n6_len (cur ++ [v])) with (n6_len cur + 1) in IH by (lens; lia).
        replace (loff + 1 + (n6_len cur + 1)) with (loff + 1 + n6_len cur + 1) in IH by lia. exact IH. }
      cbn [owr8 obind]. specialize (IH 1%nat done (cur ++ [c; next]) false loff).
      replace (n6_len (cur ++ [c; next])) with (n6_len cur + 2) in IH by (lens; lia).
      replace (loff + 1 + (n6_len cur + 2)) with (loff + 1 + n6_len cur + 2) in IH by lia. exact IH. }
    cbn [owr8 obind]. specialize (IH 0%nat done (cur ++ [c]) false loff).
    replace (n6_len (cur ++ [c])) with (n6_len cur + 1) in IH by (lens; lia).
    replace (loff + 1 + (n6_len cur + 1)) with (loff + 1 + n6_len cur + 1) in IH by lia. exact IH.
Qed.

(* the writing pass: the region while a name is being written — closed labels, the reserved slot
   of the open label (still holding whatever the region held), the open label's bytes, the rest *)
Definition lay (done cur rest : list Z) : list Z :=
  done ++ firstn 1 (skipn (length done) rest) ++ cur ++ skipn (length done + 1 + length cur) rest.

Lemma first_skip {A} (l : list A) k : firstn 1 (skipn k l) ++ skipn (k + 1) l = skipn k l.
Proof. rewrite <- skipn_skipn'. apply firstn_skipn. Qed.

Lemma lay_nil w rest : lay w [] rest = w ++ skipn (length w) rest.
Proof. unfold lay. cbn [app length]. rewrite Nat.add_0_r. rewrite first_skip. reflexivity. Qed.

Lemma slot_len {A} (l : list A) k : (k < length l)%nat -> length (firstn 1 (skipn k l)) = 1%nat.
Proof. intros H. rewrite firstn_length, skipn_length. lia. Qed.

Lemma lay_step_cur pre done cur rest off v :
  off = n6_len pre + n6_len done + 1 + n6_len cur ->
  (length done + 1 + length cur < length rest)%nat ->
  wr8 (pre ++ lay done cur rest) off v = Ok (pre ++ lay done (cur ++ [v]) rest).
Proof.
  intros -> H. unfold lay.
  destruct (skipn (length done + 1 + length cur) rest) as [|y tail] eqn:E.
  { apply (f_equal (@length Z)) in E. rewrite skipn_length in E. cbn in E. lia. }
  assert (Et : skipn (length done + 1 + length (cur ++ [v])) rest = tail).
  { rewrite app_length. cbn [length]. replace (length done + 1 + (length cur + 1))%nat with ((length done + 1 + length cur) + 1)%nat by lia.
    rewrite <- skipn_skipn', E. reflexivity. }
  rewrite Et.
  replace (pre ++ done ++ firstn 1 (skipn (length done) rest) ++ cur ++ y :: tail)
    with ((pre ++ done ++ firstn 1 (skipn (length done) rest) ++ cur) ++ y :: tail) by (rewrite <- !app_assoc; reflexivity).
  rewrite wr8_app.
  - apply f_equal. rewrite <- !app_assoc. reflexivity.
  - unfold n6_len. rewrite !app_length, slot_len by lia. lia.
Qed.

Lemma lay_step_close pre done cur rest off v :
  off = n6_len pre + n6_len done -> (length done < length rest)%nat ->
  wr8 (pre ++ lay done cur rest) off v = Ok (pre ++ lay (done ++ v :: cur) [] rest).
Proof.
  intros -> H. rewrite lay_nil. unfold lay.
  destruct (skipn (length done) rest) as [|x t] eqn:E.
  { apply (f_equal (@length Z)) in E. rewrite skipn_length in E. cbn in E. lia. }
  cbn [firstn app].
  replace (pre ++ done ++ x :: cur ++ skipn (length done + 1 + length cur) rest)
    with ((pre ++ done) ++ x :: cur ++ skipn (length done + 1 + length cur) rest) by (rewrite <- app_assoc; reflexivity).
  rewrite wr8_app by (lens; lia). apply f_equal. rewrite <- !app_assoc. cbn [app].
  rewrite app_length. cbn [length]. replace (length done + S (length cur))%nat with (length done + 1 + length cur)%nat by lia.
  reflexivity.
Qed.

Lemma ep_loop_some : forall nm skip done cur sep pre rest done' cur' sep',
  ap_loop nm skip done cur sep = Ok (done', cur', sep') ->
  n6_len done' + 1 + n6_len cur' <= n6_len rest ->
  ep_loop nm skip (n6_len pre + n6_len done) (n6_len pre + n6_len done + 1 + n6_len cur) (n6_len cur) sep
          (Some (pre ++ lay done cur rest))
  = Ok (n6_len pre + n6_len done', n6_len pre + n6_len done' + 1 + n6_len cur', n6_len cur', sep',
        Some (pre ++ lay done' cur' rest)).
Proof.
  induction nm as [|c rest0 IH]; intros skip done cur sep pre rest done' cur' sep' H Hb; cbn [ep_loop]; cbn [ap_loop] in H.
  - injection H as <- <- <-. reflexivity.
  - destruct skip as [|k]; [|apply IH; assumption].
    destruct (c =? 46).
    { destruct (n6_len cur >? 63); [discriminate|].
      pose proof (ap_mono _ _ _ _ _ _ _ _ H) as [M _].
      cbn [owr8]. rewrite lay_step_close by (try reflexivity; unfold n6_len in *; rewrite app_length in M; cbn [length] in M; lia).
      cbn [obind].
      specialize (IH 0%nat (done ++ u8 (n6_len cur) :: cur) [] true pre rest done' cur' sep' H Hb).
      replace (n6_len pre + n6_len (done ++ u8 (n6_len cur) :: cur)) with (n6_len pre + n6_len done + 1 + n6_len cur) in IH by (lens; lia).
      change (n6_len []) with 0 in IH. replace (n6_len pre + n6_len done + 1 + n6_len cur + 1 + 0) with (n6_len pre + n6_len done + 1 + n6_len cur + 1) in IH by lia.
      exact IH. }
    destruct (c =? 92).
    { destruct rest0 as [|next r2]; [discriminate|].
      destruct ((next =? 46) || (next =? 92)).
      { pose proof (ap_mono _ _ _ _ _ _ _ _ H) as [M _].
        cbn [owr8]. rewrite (lay_step_cur pre done cur rest) by (try reflexivity; unfold n6_len in *; rewrite app_length in M; cbn [length] in M; lia).
        cbn [obind]. specialize (IH 1%nat done (cur ++ [next]) false pre rest done' cur' sep' H Hb).
        replace (n6_len (cur ++ [next])) with (n6_len cur + 1) in IH by (lens; lia).
        replace (n6_len pre + n6_len done + 1 + (n6_len cur + 1)) with (n6_len pre + n6_len done + 1 + n6_len cur + 1) in IH by lia.
        exact IH. }
      destruct (is_digit next).
      { destruct r2 as [|d2 [|d3 r3]]; try discriminate.
        destruct (negb (is_digit d2) || negb (is_digit d3)); [discriminate|].
        destruct ((next - 48) * 100 + (d2 - 48) * 10 + (d3 - 48) >? 255); [discriminate|].
        set (v := (next - 48) * 100 + (d2 - 48) * 10 + (d3 - 48)) in *.
        pose proof (ap_mono _ _ _ _ _ _ _ _ H) as [M _].
        cbn [owr8]. rewrite (lay_step_cur pre done cur rest) by (try reflexivity; unfold n6_len in *; rewrite app_length in M; cbn [length] in M; lia).
        cbn [obind]. specialize (IH 3%nat done (cur ++ [v]) false pre rest done' cur' sep' H Hb).
        replace (n6_len (cur ++ [v])) with (n6_len cur + 1) in IH by (lens; lia).
        replace (n6_len pre + n6_len done + 1 + (n6_len cur + 1)) with (n6_len pre + n6_len done + 1 + n6_len cur + 1) in IH by lia.
        exact IH. }
      pose proof (ap_mono _ _ _ _ _ _ _ _ H) as [M _].
      cbn [owr8]. rewrite (lay_step_cur pre done cur rest) by (try reflexivity; unfold n6_len in *; rewrite app_length in M; cbn [length] in M; lia).
      cbn [obind owr8]. rewrite (lay_step_cur pre done (cur ++ [c]) rest)
        by (try (lens; lia); unfold n6_len in *; rewrite !app_length in *; cbn [length] in *; lia).
      cbn [obind]. specialize (IH 1%nat done (cur ++ [c; next]) false pre rest done' cur' sep' H Hb).
      replace (n6_len (cur ++ [c; next])) with (n6_len cur + 2) in IH by (lens; lia).
      replace (n6_len pre + n6_len done + 1 + (n6_len cur + 2)) with (n6_len pre + n6_len done + 1 + n6_len cur + 2) in IH by lia.
      replace ((cur ++ [c]) ++ [next]) with (cur ++ [c; next]) by (rewrite <- app_assoc; reflexivity).
      exact IH. }
    pose proof (ap_mono _ _ _ _ _ _ _ _ H) as [M _].
    cbn [owr8]. rewrite (lay_step_cur pre done cur rest) by (try reflexivity; unfold n6_len in *; rewrite app_length in M; cbn [length] in M; lia).
    cbn [obind]. specialize (IH 0%nat done (cur ++ [c]) false pre rest done' cur' sep' H Hb).
    replace (n6_len (cur ++ [c])) with (n6_len cur + 1) in IH by (lens; lia).
    replace (n6_len pre + n6_len done + 1 + (n6_len cur + 1)) with (n6_len pre + n6_len done + 1 + n6_len cur + 1) in IH by lia.
    exact IH.
Qed.

Definition omap {A B} (f : A -> B) (o : outcome A) : outcome B :=
  match o with Ok v => Ok (f v) | Err e => Err e | Panic s => Panic s end.

Lemma enc_pres_none name off :
  enc_pres name None off = omap (fun w => (n6_len w, @None (list Z))) (pres_wire name).
Proof.
  unfold enc_pres, pres_wire.
  destruct ((n6_len name =? 0) || ((n6_len name =? 1) && (nth 0 name 0 =? 46))); [reflexivity|].
  pose proof (ep_loop_none name 0 [] [] false off) as P. change (n6_len []) with 0 in P.
  replace (off + 1 + 0) with (off + 1) in P by lia. rewrite P. clear P.
  destruct (ap_loop name 0 [] [] false) as [[[done cur] sep]|e|s]; [|reflexivity|reflexivity].
  cbn [obind]. destruct (n6_len cur >? 63); [reflexivity|].
  destruct sep; cbn [obind owr8].
  - replace (off + n6_len done - 0 + 1 - off) with (n6_len (done ++ [0])) by (lens; lia).
    destruct (n6_len (done ++ [0]) >? 255); reflexivity.
  - replace (off + n6_len done - 0 + 1 + n6_len cur + 1 - off) with (n6_len (done ++ u8 (n6_len cur) :: cur ++ [0])) by (lens; lia).
    destruct (n6_len (done ++ u8 (n6_len cur) :: cur ++ [0]) >? 255); reflexivity.
Qed.

Lemma enc_pres_some name pre rest w : pres_wire name = Ok w -> n6_len w <= n6_len rest ->
  enc_pres name (Some (pre ++ rest)) (n6_len pre) = Ok (n6_len w, Some ((pre ++ w) ++ skipn (length w) rest)).
Proof.
  unfold enc_pres, pres_wire. intros H Hb.
  destruct ((n6_len name =? 0) || ((n6_len name =? 1) && (nth 0 name 0 =? 46))).
  { injection H as <-. destruct rest as [|x t]; [cbn in Hb; lia|]. cbn [owr8]. rewrite wr8_app by reflexivity. reflexivity. }
  destruct (ap_loop name 0 [] [] false) as [[[done cur] sep]|e|s] eqn:Ea; try discriminate.
  destruct (n6_len cur >? 63) eqn:E63; [discriminate|].
  pose proof (ap_mono _ _ _ _ _ _ _ _ Ea) as [_ Ms].
  assert (Hbound : n6_len done + 1 + n6_len cur <= n6_len rest).
  { destruct sep.
    - destruct (Ms eq_refl) as [->|[? _]]; [|discriminate].
      destruct (n6_len (done ++ [0]) >? 255); [discriminate|]. injection H as <-. lensolve.
    - destruct (n6_len (done ++ u8 (n6_len cur) :: cur ++ [0]) >? 255); [discriminate|]. injection H as <-. lensolve. }
  pose proof (ep_loop_some name 0 [] [] false pre rest done cur sep Ea Hbound) as P.
  rewrite lay_nil in P. cbn [app length skipn] in P. change (n6_len []) with 0 in P.
  replace (n6_len pre + 0 + 1 + 0) with (n6_len pre + 1) in P by lia. replace (n6_len pre + 0) with (n6_len pre) in P by lia.
  rewrite P. clear P. cbn [obind]. rewrite E63.
  destruct sep.
  - destruct (Ms eq_refl) as [->|[? _]]; [|discriminate].
    destruct (n6_len (done ++ [0]) >? 255) eqn:E255; [discriminate|]. injection H as <-.
    cbn [obind owr8]. rewrite lay_step_close by (try reflexivity; unfold n6_len in *; lia). cbn [obind].
    replace (n6_len pre + n6_len done + 1 - n6_len pre) with (n6_len (done ++ [0])) by (lens; lia).
    rewrite E255. rewrite lay_nil, <- !app_assoc. reflexivity.
  - destruct (n6_len (done ++ u8 (n6_len cur) :: cur ++ [0]) >? 255) eqn:E255; [discriminate|]. injection H as <-.
    cbn [obind owr8]. rewrite lay_step_close by (try reflexivity; unfold n6_len in *; lia). cbn [obind owr8].
    rewrite lay_step_close by (lens; unfold n6_len in *; rewrite ?app_length in *; cbn [length] in *; lia). cbn [obind].
    replace (n6_len pre + n6_len done + 1 + n6_len cur + 1 - n6_len pre) with (n6_len (done ++ u8 (n6_len cur) :: cur ++ [0])) by (lens; lia).
    rewrite E255. rewrite lay_nil, <- !app_assoc. cbn [app]. rewrite <- !app_assoc. reflexivity.
Qed.

(* ---------------------------------------------------------------- preserved labels *)
Definition labels_body (ls : list (list Z)) : list Z := concat (map (fun l => u8 (n6_len l) :: l) ls).
Definition labels_wire (ls : list (list Z)) : list Z := labels_body ls ++ [0].

Lemma labels_size_loop_spec : forall ls size n, labels_size_loop ls size = Ok n -> n = size + n6_len (labels_body ls).
Proof.
  induction ls as [|l t IH]; intros size n H; cbn [labels_size_loop] in H.
  - injection H as <-. cbn. lia.
  - destruct (n6_len l >? 63); [discriminate|]. destruct (size + 1 + n6_len l >? 255); [discriminate|].
    apply IH in H. unfold labels_body in *. cbn [map concat]. lens. lia.
Qed.

Lemma labels_size_spec ls n : labels_size ls = Ok n -> n = n6_len (labels_wire ls).
Proof. intros H. apply labels_size_loop_spec in H. unfold labels_wire. lens. lia. Qed.

Lemma pair_eq {A B} (a a' : A) (b b' : B) : a = a' -> b = b' -> @Ok (A * B) (a, b) = Ok (a', b').
Proof. intros -> ->. reflexivity. Qed.

Lemma el_loop_spec : forall ls pre rest, n6_len (labels_body ls) < n6_len rest ->
  el_loop ls (pre ++ rest) (n6_len pre)
  = Ok ((pre ++ labels_body ls) ++ skipn (length (labels_body ls)) rest, n6_len pre + n6_len (labels_body ls)).
Proof.
  induction ls as [|l t IH]; intros pre rest H; cbn [el_loop].
  - unfold labels_body. cbn. rewrite app_nil_r. apply pair_eq; [reflexivity|lia].
  - unfold labels_body in *. cbn [map concat] in *.
    destruct rest as [|x rt]; [lens; pose proof (n6_len_nonneg (concat (map (fun l0 => u8 (n6_len l0) :: l0) t))); pose proof (n6_len_nonneg l); lia|].
    rewrite wr8_app by reflexivity. cbn [obind].
    rewrite wr_copy_app by (lens; pose proof (n6_len_nonneg (concat (map (fun l0 => u8 (n6_len l0) :: l0) t))); lia).
    cbn [obind].
    replace (n6_len pre + 1 + n6_len l) with (n6_len ((pre ++ [u8 (n6_len l)]) ++ l)) by (lens; lia).
    rewrite IH by (lens; unfold n6_len in *; cbn [length] in *; lia).
    apply pair_eq; [|lens; lia].
    rewrite <- !app_assoc. cbn [app length skipn]. rewrite <- ?app_assoc. rewrite app_length, skipn_skipn'. reflexivity.
Qed.

Lemma enc_labels_spec ls pre rest n : labels_size ls = Ok n -> n <= n6_len rest ->
  enc_labels ls (pre ++ rest) (n6_len pre) = Ok (n, (pre ++ labels_wire ls) ++ skipn (length (labels_wire ls)) rest).
Proof.
  intros Hs Hb. unfold enc_labels. rewrite Hs. cbn [obind].
  pose proof (labels_size_spec _ _ Hs) as En. unfold labels_wire in *.
  rewrite el_loop_spec by (lens; lia). cbn [obind].
  destruct (skipn (length (labels_body ls)) rest) as [|x t] eqn:E.
  { apply (f_equal (@length Z)) in E. rewrite skipn_length in E. cbn in E. lens. unfold n6_len in *. lia. }
  rewrite wr8_app by (lens; lia). cbn [obind].
  replace (n6_len pre + n6_len (labels_body ls) + 1 - n6_len pre =? n) with true by (lens; lia). cbn [negb].
  apply pair_eq; [reflexivity|]. rewrite <- !app_assoc. cbn [app].
  rewrite app_length. cbn [length]. rewrite <- skipn_skipn', E. reflexivity.
Qed.

(* ---------------------------------------------------------------- names *)
Definition name_wire (name : list Z) (m : option nmeta) : outcome (list Z) :=
  match use_preserved name m with
  | Some ls => do _ <- labels_size ls; Ok (labels_wire ls)
  | None => pres_wire name
  end.

Lemma name_size_spec name m : name_size name m = omap n6_len (name_wire name m).
Proof.
  unfold name_size, name_wire. destruct (use_preserved name m) as [ls|].
  - destruct (labels_size ls) as [n|e|s] eqn:E; cbn; try reflexivity. f_equal. apply labels_size_spec, E.
  - rewrite enc_pres_none. destruct (pres_wire name); reflexivity.
Qed.

Lemma enc_name_spec name m pre rest w off : name_wire name m = Ok w -> n6_len w <= n6_len rest -> off = n6_len pre ->
  enc_name name m (pre ++ rest) off = Ok (n6_len w, (pre ++ w) ++ skipn (length w) rest).
Proof.
  unfold enc_name, name_wire. intros H Hb ->. destruct (use_preserved name m) as [ls|].
  - destruct (labels_size ls) as [n|e|s] eqn:E; cbn in H; try discriminate. injection H as <-.
    pose proof (labels_size_spec _ _ E) as En. rewrite (enc_labels_spec ls pre rest n E) by lia. rewrite En. reflexivity.
  - rewrite (enc_pres_some name pre rest w H Hb). reflexivity.
Qed.

Lemma name_size_ok name m a : name_size name m = Ok a -> exists w, name_wire name m = Ok w /\ n6_len w = a.
Proof.
  rewrite name_size_spec. destruct (name_wire name m) as [w|e|s]; cbn; try discriminate.
  intros [= <-]. eauto.
Qed.

Lemma skipn_app_exact {A} (j x : list A) n : length j = n -> skipn n (j ++ x) = x.
Proof. intros <-. rewrite skipn_app, skipn_all, Nat.sub_diag. reflexivity. Qed.

(* ---------------------------------------------------------------- RDATA *)
Definition txts_wire (txts : list (list Z)) : list Z := concat (map (fun t => u8 (n6_len t) :: t) txts).

Lemma txts_wire_len txts : n6_len (txts_wire txts) = Z.of_nat (length txts) + sum_len txts.
Proof.
  induction txts as [|t r IH]; [reflexivity|]. unfold txts_wire in *. cbn [map concat sum_len fold_right length].
  lens. unfold sum_len in IH. lia.
Qed.

Lemma txt_loop_spec : forall txts pre rest off, n6_len (txts_wire txts) <= n6_len rest -> off = n6_len pre ->
  txt_loop txts (pre ++ rest) off = Ok ((pre ++ txts_wire txts) ++ skipn (length (txts_wire txts)) rest).
Proof.
  induction txts as [|t r IH]; intros pre rest off H ->; cbn [txt_loop].
  - unfold txts_wire. cbn. rewrite app_nil_r. reflexivity.
  - unfold txts_wire in *. cbn [map concat] in *.
    set (body := concat (map (fun t0 => u8 (n6_len t0) :: t0) r)) in *.
    pose proof (n6_len_nonneg body). pose proof (n6_len_nonneg t).
    destruct rest as [|x rt]; [lens; lia|].
    rewrite wr8_app by reflexivity. cbn [obind].
    rewrite wr_copy_app by (lens; lia). cbn [obind].
    rewrite IH by (lens; unfold n6_len in *; cbn [length] in *; lia).
    apply f_equal. rewrite <- !app_assoc. cbn [app length skipn]. rewrite <- ?app_assoc. rewrite app_length, skipn_skipn'. reflexivity.
Qed.

Definition opts_wire (os : list dopt) : list Z :=
  concat (map (fun o => be_bytes 2 (op_code o) ++ be_bytes 2 (u16 (n6_len (op_data o))) ++ op_data o) os).
Definition params_wire (ps : list svcparam) : list Z :=
  concat (map (fun p => be_bytes 2 (sp_key p) ++ be_bytes 2 (u16 (n6_len (sp_value p))) ++ sp_value p) ps).

Lemma opts_wire_len os : n6_len (opts_wire os) = Z.of_nat (length os) * 4 + sum_len (map op_data os).
Proof.
  induction os as [|o r IH]; [reflexivity|]. unfold opts_wire in *. cbn [map concat sum_len fold_right length].
  lens. unfold sum_len in IH. lia.
Qed.

Lemma params_wire_len ps : n6_len (params_wire ps) = fold_right (fun p a => 4 + n6_len (sp_value p) + a) 0 ps.
Proof.
  induction ps as [|o r IH]; [reflexivity|]. unfold params_wire in *. cbn [map concat fold_right]. lens. lia.
Qed.

Lemma opt_enc_loop_spec : forall os pre rest off, n6_len (opts_wire os) <= n6_len rest -> off = n6_len pre ->
  opt_enc_loop os (pre ++ rest) off = Ok ((pre ++ opts_wire os) ++ skipn (length (opts_wire os)) rest).
Proof.
  induction os as [|o r IH]; intros pre rest off H ->; cbn [opt_enc_loop].
  - unfold opts_wire. cbn. rewrite app_nil_r. reflexivity.
  - unfold opts_wire in *. cbn [map concat] in *.
    set (body := concat (map (fun o0 => be_bytes 2 (op_code o0) ++ be_bytes 2 (u16 (n6_len (op_data o0))) ++ op_data o0) r)) in *.
    pose proof (n6_len_nonneg body). pose proof (n6_len_nonneg (op_data o)).
    rewrite wr16_app by (lens; lia). cbn [obind].
    rewrite wr16_app by (lens; lia). cbn [obind].
    rewrite wr_copy_app by (lens; lia). cbn [obind].
    rewrite IH by (lens; unfold n6_len in *; lia).
    apply f_equal. rewrite <- !app_assoc. repeat (apply f_equal).
    rewrite !skipn_skipn'. rewrite !app_length, !be_bytes_length. f_equal; lia.
Qed.

Lemma svc_enc_loop_spec : forall ps pre rest off, n6_len (params_wire ps) <= n6_len rest -> off = n6_len pre ->
  svc_enc_loop ps (pre ++ rest) off = Ok ((pre ++ params_wire ps) ++ skipn (length (params_wire ps)) rest).
Proof.
  induction ps as [|o r IH]; intros pre rest off H ->; cbn [svc_enc_loop].
  - unfold params_wire. cbn. rewrite app_nil_r. reflexivity.
  - unfold params_wire in *. cbn [map concat] in *.
    set (body := concat (map (fun o0 => be_bytes 2 (sp_key o0) ++ be_bytes 2 (u16 (n6_len (sp_value o0))) ++ sp_value o0) r)) in *.
    pose proof (n6_len_nonneg body). pose proof (n6_len_nonneg (sp_value o)).
    rewrite wr16_app by (lens; lia). cbn [obind].
    rewrite wr16_app by (lens; lia). cbn [obind].
    rewrite wr_copy_app by (lens; lia). cbn [obind].
    rewrite IH by (lens; unfold n6_len in *; lia).
    apply f_equal. rewrite <- !app_assoc. repeat (apply f_equal).
    rewrite !skipn_skipn'. rewrite !app_length, !be_bytes_length. f_equal; lia.
Qed.

Lemma wr8_app' pre rest off v : off = n6_len pre -> 1 <= n6_len rest ->
  wr8 (pre ++ rest) off v = Ok ((pre ++ [v]) ++ skipn 1 rest).
Proof. intros -> H. destruct rest as [|x t]; [cbn in H; lia|]. rewrite wr8_app by reflexivity. reflexivity. Qed.

Definition rdata_wire (r : rr) : outcome (list Z) :=
  let t := r_type r in
  if t =? T_A then match to4 (r_ip r) with Some ip => Ok ip | None => Err E_ENC end
  else if t =? T_AAAA then match to16 (r_ip r) with Some ip => Ok ip | None => Err E_ENC end
  else if t =? T_NS then name_wire (r_ns r) (rdata_meta r)
  else if t =? T_CNAME then name_wire (r_cname r) (rdata_meta r)
  else if t =? T_PTR then name_wire (r_ptr r) (rdata_meta r)
  else if t =? T_SOA then
    do m <- name_wire (so_mname (r_soa r)) (rdata_meta r);
    do n <- name_wire (so_rname (r_soa r)) (rdata2_meta r);
    Ok (m ++ n ++ be_bytes 4 (so_serial (r_soa r)) ++ be_bytes 4 (so_refresh (r_soa r)) ++ be_bytes 4 (so_retry (r_soa r))
          ++ be_bytes 4 (so_expire (r_soa r)) ++ be_bytes 4 (so_minimum (r_soa r)))
  else if t =? T_MX then do n <- name_wire (mx_name (r_mx r)) (rdata_meta r); Ok (be_bytes 2 (mx_pref (r_mx r)) ++ n)
  else if t =? T_TXT then Ok (txts_wire (r_txts r))
  else if t =? T_SRV then
    do n <- name_wire (sv_name (r_srv r)) (rdata_meta r);
    Ok (be_bytes 2 (sv_prio (r_srv r)) ++ be_bytes 2 (sv_weight (r_srv r)) ++ be_bytes 2 (sv_port (r_srv r)) ++ n)
  else if t =? T_NAPTR then
    do n <- name_wire (na_repl (r_naptr r)) (rdata_meta r);
    Ok (be_bytes 2 (na_order (r_naptr r)) ++ be_bytes 2 (na_pref (r_naptr r))
        ++ txts_wire [na_flags (r_naptr r); na_service (r_naptr r); na_regexp (r_naptr r)] ++ n)
  else if t =? T_URI then Ok (be_bytes 2 (u_prio (r_uri r)) ++ be_bytes 2 (u_weight (r_uri r)) ++ u_target (r_uri r))
  else if t =? T_OPT then Ok (opts_wire (r_opt r))
  else if t =? T_RRSIG then
    let g := r_rrsig r in
    do n <- name_wire (sg_signer g) (rdata_meta r);
    Ok (be_bytes 2 (sg_covered g) ++ [u8 (sg_alg g)] ++ [u8 (sg_labels g)] ++ be_bytes 4 (sg_ottl g) ++ be_bytes 4 (sg_exp g)
        ++ be_bytes 4 (sg_inc g) ++ be_bytes 2 (sg_tag g) ++ n ++ sg_sig g)
  else if t =? T_DNSKEY then
    let k := r_dnskey r in Ok (be_bytes 2 (dk_flags k) ++ [u8 (dk_proto k)] ++ [u8 (dk_alg k)] ++ dk_key k)
  else if (t =? T_SVCB) || (t =? T_HTTPS) then
    do n <- name_wire (sb_target (r_svcb r)) (rdata_meta r);
    Ok (be_bytes 2 (sb_prio (r_svcb r)) ++ n ++ params_wire (sb_params (r_svcb r)))
  else Err E_UNSUPPORTED.

Lemma to4_len ip x : to4 ip = Some x -> n6_len x = 4.
Proof.
  unfold to4. destruct (n6_len ip =? 4) eqn:E; [intros [= <-]; lia|].
  destruct ((n6_len ip =? 16) && forallb (Z.eqb 0) (firstn 10 ip) && (nth 10 ip 0 =? 255) && (nth 11 ip 0 =? 255)) eqn:E2; [|discriminate].
  intros [= <-]. apply andb_true_iff in E2 as [E2 _]. apply andb_true_iff in E2 as [E2 _]. apply andb_true_iff in E2 as [E2 _].
  change (n6_len (skipn 12 ip) = 4). lens. change (Z.of_nat 12) with 12. lia.
Qed.

Lemma to16_len ip x : to16 ip = Some x -> n6_len x = 16.
Proof.
  unfold to16. destruct (n6_len ip =? 4) eqn:E; [intros [= <-]; unfold n6_len in *; cbn [length app]; lia|].
  destruct (n6_len ip =? 16) eqn:E2; [|discriminate]. intros [= <-]. lia.
Qed.

Lemma Ok_inj {A} (a b : A) : @Ok A a = Ok b -> a = b.
Proof. intros H. injection H as H. exact H. Qed.

Ltac name_ok H := let w := fresh "w" in let Hw := fresh "Hw" in let Hl := fresh "Hl" in
  destruct (name_size_ok _ _ _ H) as (w & Hw & Hl); rewrite Hw.

Lemma rdata_encode_spec r pre rest noff b : rec_size r = Ok b -> b <= n6_len rest -> noff + 10 = n6_len pre ->
  rdata_encode false r (pre ++ rest) noff = omap (fun rd => (pre ++ rd) ++ skipn (length rd) rest) (rdata_wire r)
  /\ forall rd, rdata_wire r = Ok rd -> n6_len rd = b.
Proof.
  intros Hs Hb Ho. unfold rdata_encode, rdata_wire. unfold rec_size in Hs.
  destruct (r_type r =? T_A).
  { apply Ok_inj in Hs; subst b. destruct (to4 (r_ip r)) as [ip|] eqn:E; cbn [omap].
    - pose proof (to4_len _ _ E). split; [apply wr_copy_app; lia|intros rd [= <-]; lia].
    - split; [reflexivity|discriminate]. }
  destruct (r_type r =? T_AAAA).
  { apply Ok_inj in Hs; subst b. destruct (to16 (r_ip r)) as [ip|] eqn:E; cbn [omap].
    - pose proof (to16_len _ _ E). split; [apply wr_copy_app; lia|intros rd [= <-]; lia].
    - split; [reflexivity|discriminate]. }
  destruct (r_type r =? T_NS).
  { name_ok Hs. cbn [omap]. split; [|intros rd [= <-]; lia]. rewrite (enc_name_spec _ _ pre rest w) by (auto; lensolve). reflexivity. }
  destruct (r_type r =? T_CNAME).
  { name_ok Hs. cbn [omap]. split; [|intros rd [= <-]; lia]. rewrite (enc_name_spec _ _ pre rest w) by (auto; lensolve). reflexivity. }
  destruct (r_type r =? T_PTR).
  { name_ok Hs. cbn [omap]. split; [|intros rd [= <-]; lia]. rewrite (enc_name_spec _ _ pre rest w) by (auto; lensolve). reflexivity. }
  destruct (r_type r =? T_SOA).
  { destruct (name_size (so_mname (r_soa r)) (rdata_meta r)) as [a1|e|s] eqn:E1; cbn [obind] in Hs; try discriminate.
    destruct (name_size (so_rname (r_soa r)) (rdata2_meta r)) as [a2|e|s] eqn:E2; cbn [obind] in Hs; try discriminate.
    apply Ok_inj in Hs; subst b. name_ok E1. name_ok E2. cbn [obind omap].
    pose proof (n6_len_nonneg w). pose proof (n6_len_nonneg w0).
    split; [|intros rd [= <-]; lensolve].
    rewrite (enc_name_spec _ _ pre rest w) by (auto; lensolve). cbn [obind].
    rewrite (enc_name_spec _ _ (pre ++ w) (skipn (length w) rest) w0) by (auto; lensolve). cbn [obind].
    rewrite wr32_app by lensolve. cbn [obind].
    rewrite wr32_app by lensolve. cbn [obind].
    rewrite wr32_app by lensolve. cbn [obind].
    rewrite wr32_app by lensolve. cbn [obind].
    rewrite wr32_app by lensolve.
    apply f_equal. rewrite <- !app_assoc. repeat (apply f_equal).
    rewrite !skipn_skipn'. rewrite !app_length, !be_bytes_length. f_equal; lia. }
  destruct (r_type r =? T_MX).
  { destruct (name_size (mx_name (r_mx r)) (rdata_meta r)) as [a1|e|s] eqn:E1; cbn [obind] in Hs; try discriminate.
    apply Ok_inj in Hs; subst b. name_ok E1. cbn [obind omap]. pose proof (n6_len_nonneg w).
    split; [|intros rd [= <-]; lensolve].
    rewrite wr16_app by lensolve. cbn [obind].
    rewrite (enc_name_spec _ _ (pre ++ be_bytes 2 (mx_pref (r_mx r))) (skipn 2 rest) w) by (auto; lensolve). cbn [obind].
    apply f_equal. rewrite <- !app_assoc. repeat (apply f_equal).
    rewrite !skipn_skipn'. rewrite !app_length, !be_bytes_length. f_equal; lia. }
  destruct (r_type r =? T_TXT).
  { apply Ok_inj in Hs; subst b. cbn [omap]. pose proof (txts_wire_len (r_txts r)).
    split; [|intros rd [= <-]; lia]. apply txt_loop_spec; lia. }
  destruct (r_type r =? T_SRV).
  { destruct (name_size (sv_name (r_srv r)) (rdata_meta r)) as [a1|e|s] eqn:E1; cbn [obind] in Hs; try discriminate.
    apply Ok_inj in Hs; subst b. name_ok E1. cbn [obind omap]. pose proof (n6_len_nonneg w).
    split; [|intros rd [= <-]; lensolve].
    rewrite wr16_app by lensolve. cbn [obind].
    rewrite wr16_app by lensolve. cbn [obind].
    rewrite wr16_app by lensolve. cbn [obind].
    rewrite (enc_name_spec _ _ _ _ w) by (auto; lensolve). cbn [obind].
    apply f_equal. rewrite <- !app_assoc. repeat (apply f_equal).
    rewrite !skipn_skipn'. rewrite !app_length, !be_bytes_length. f_equal; lia. }
  destruct (r_type r =? T_NAPTR).
  { destruct (name_size (na_repl (r_naptr r)) (rdata_meta r)) as [a1|e|s] eqn:E1; cbn [obind] in Hs; try discriminate.
    apply Ok_inj in Hs; subst b. name_ok E1. cbn [obind omap]. pose proof (n6_len_nonneg w).
    pose proof (txts_wire_len [na_flags (r_naptr r); na_service (r_naptr r); na_regexp (r_naptr r)]) as Ht.
    cbn [length sum_len fold_right] in Ht.
    pose proof (n6_len_nonneg (na_flags (r_naptr r))). pose proof (n6_len_nonneg (na_service (r_naptr r))). pose proof (n6_len_nonneg (na_regexp (r_naptr r))).
    split; [|intros rd Hrd; apply Ok_inj in Hrd; subst rd; lens; lia].
    rewrite wr16_app by lensolve. cbn [obind].
    rewrite wr16_app by lensolve. cbn [obind].
    rewrite txt_loop_spec by lensolve. cbn [obind].
    rewrite (enc_name_spec _ _ _ _ w) by (auto; lensolve). cbn [obind].
    apply f_equal. rewrite <- !app_assoc. repeat (apply f_equal).
    rewrite !skipn_skipn'. rewrite !app_length, !be_bytes_length. f_equal; lia. }
  destruct (r_type r =? T_URI).
  { apply Ok_inj in Hs; subst b. cbn [omap]. pose proof (n6_len_nonneg (u_target (r_uri r))).
    split; [|intros rd Hrd; apply Ok_inj in Hrd; subst rd; lens; lia].
    rewrite wr16_app by lensolve. cbn [obind].
    rewrite wr16_app by lensolve. cbn [obind].
    rewrite wr_copy_app by lensolve.
    apply f_equal. rewrite <- !app_assoc. repeat (apply f_equal).
    rewrite !skipn_skipn'. rewrite !app_length, !be_bytes_length. f_equal; lia. }
  destruct (r_type r =? T_OPT).
  { apply Ok_inj in Hs; subst b. cbn [omap]. pose proof (opts_wire_len (r_opt r)).
    split; [|intros rd Hrd; apply Ok_inj in Hrd; subst rd; lia]. apply opt_enc_loop_spec; lia. }
  destruct (r_type r =? T_RRSIG).
  { destruct (name_size (sg_signer (r_rrsig r)) (rdata_meta r)) as [a1|e|s] eqn:E1; cbn [obind] in Hs; try discriminate.
    apply Ok_inj in Hs; subst b. name_ok E1. cbn [obind omap]. pose proof (n6_len_nonneg w). pose proof (n6_len_nonneg (sg_sig (r_rrsig r))).
    split; [|intros rd Hrd; apply Ok_inj in Hrd; subst rd; lens; lia].
    rewrite wr16_app by lensolve. cbn [obind].
    rewrite wr8_app' by lensolve. cbn [obind].
    rewrite wr8_app' by lensolve. cbn [obind].
    rewrite wr32_app by lensolve. cbn [obind].
    rewrite wr32_app by lensolve. cbn [obind].
    rewrite wr32_app by lensolve. cbn [obind].
    rewrite wr16_app by lensolve. cbn [obind].
    rewrite (enc_name_spec _ _ _ _ w) by (auto; lensolve). cbn [obind].
    rewrite wr_copy_app by lensolve.
    apply f_equal. rewrite <- !app_assoc. cbn [app]. repeat (apply f_equal).
    rewrite !skipn_skipn'. repeat (progress (rewrite ?app_length, ?be_bytes_length; cbn [length])). f_equal; lia. }
  destruct (r_type r =? T_DNSKEY).
  { apply Ok_inj in Hs; subst b. cbn [omap]. pose proof (n6_len_nonneg (dk_key (r_dnskey r))).
    split; [|intros rd Hrd; apply Ok_inj in Hrd; subst rd; lens; lia].
    rewrite wr16_app by lensolve. cbn [obind].
    rewrite wr8_app' by lensolve. cbn [obind].
    rewrite wr8_app' by lensolve. cbn [obind].
    rewrite wr_copy_app by lensolve.
    apply f_equal. rewrite <- !app_assoc. cbn [app]. repeat (apply f_equal).
    rewrite !skipn_skipn'. repeat (progress (rewrite ?app_length, ?be_bytes_length; cbn [length])). f_equal; lia. }
  destruct ((r_type r =? T_SVCB) || (r_type r =? T_HTTPS)).
  { destruct (name_size (sb_target (r_svcb r)) (rdata_meta r)) as [a1|e|s] eqn:E1; cbn [obind] in Hs; try discriminate.
    apply Ok_inj in Hs; subst b. name_ok E1. cbn [obind omap]. pose proof (n6_len_nonneg w).
    pose proof (params_wire_len (sb_params (r_svcb r))) as Hp. pose proof (n6_len_nonneg (params_wire (sb_params (r_svcb r)))).
    split; [|intros rd Hrd; apply Ok_inj in Hrd; subst rd; lens; lia].
    rewrite wr16_app by lensolve. cbn [obind].
    rewrite (enc_name_spec _ _ _ _ w) by (auto; lensolve). cbn [obind].
    rewrite svc_enc_loop_spec by lensolve.
    apply f_equal. rewrite <- !app_assoc. repeat (apply f_equal).
    rewrite !skipn_skipn'. rewrite !app_length, !be_bytes_length. f_equal; lia. }
  split; [reflexivity|discriminate].
Qed.

Lemma name_size_nonneg name m a : name_size name m = Ok a -> 0 <= a.
Proof. intros H. destruct (name_size_ok _ _ _ H) as (w & _ & <-). apply n6_len_nonneg. Qed.

Lemma sum_len_nonneg l : 0 <= sum_len l.
Proof. induction l as [|x t IH]; cbn; [lia|]. pose proof (n6_len_nonneg x). unfold sum_len in IH. lia. Qed.

Lemma params_len_nonneg ps : 0 <= fold_right (fun p a => 4 + n6_len (sp_value p) + a) 0 ps.
Proof. induction ps as [|x t IH]; cbn [fold_right]; [lia|]. pose proof (n6_len_nonneg (sp_value x)). lia. Qed.

Lemma rec_size_nonneg r b : rec_size r = Ok b -> 0 <= b.
Proof.
  unfold rec_size. intros H.
  repeat match type of H with
  | (if ?c then _ else _) = _ => destruct c
  | Ok _ = Ok _ => apply Ok_inj in H; subst b
  | obind (name_size ?n ?m) _ = _ =>
      let a := fresh "a" in let E := fresh "E" in
      destruct (name_size n m) as [a|?|?] eqn:E; cbn [obind] in H; [apply name_size_nonneg in E|discriminate|discriminate]
  | name_size ?n ?m = Ok _ => apply name_size_nonneg in H
  end;
  try lia;
  repeat match goal with |- context [n6_len ?l] => lazymatch goal with _ : 0 <= n6_len l |- _ => fail | _ => pose proof (n6_len_nonneg l) end end;
  try (pose proof (sum_len_nonneg (r_txts r))); try (pose proof (sum_len_nonneg (map op_data (r_opt r))));
  try (pose proof (params_len_nonneg (sb_params (r_svcb r)))); try lia.
Qed.

Lemma triple_eq {A B C} (a a' : A) (b b' : B) (c c' : C) : a = a' -> b = b' -> c = c' -> (a, b, c) = (a', b', c').
Proof. intros -> -> ->. reflexivity. Qed.

(* ---------------------------------------------------------------- one record, one question *)
Definition rr_wire (r : rr) : outcome (list Z) :=
  do nw <- name_wire (r_name r) (owner_meta r);
  do rd <- rdata_wire r;
  Ok (nw ++ be_bytes 2 (r_type r) ++ be_bytes 2 (r_class r) ++ be_bytes 4 (r_ttl r) ++ be_bytes 2 (u16 (n6_len rd)) ++ rd).

Lemma rr_encode_spec r pre rest off fix_ a b :
  name_size (r_name r) (owner_meta r) = Ok a -> rec_size r = Ok b -> a + 10 + b <= n6_len rest -> off = n6_len pre ->
  rr_encode_gen false r (pre ++ rest) off fix_ =
    omap (fun w => (a + 10 + b, (pre ++ w) ++ skipn (length w) rest, if fix_ then rr_set_dlen r (u16 b) else r)) (rr_wire r)
  /\ forall w, rr_wire r = Ok w -> n6_len w = a + 10 + b.
Proof.
  intros Ha Hrs Hb ->. unfold rr_encode_gen, rr_wire.
  destruct (name_size_ok _ _ _ Ha) as (nw & Hnw & Hnl). rewrite Hnw. cbn [obind].
  pose proof (n6_len_nonneg nw). pose proof (rec_size_nonneg _ _ Hrs) as Hb0.
  rewrite (enc_name_spec _ _ pre rest nw) by (auto; lensolve). cbn [obind].
  rewrite wr16_app by lensolve. cbn [obind].
  rewrite wr16_app by lensolve. cbn [obind].
  rewrite wr32_app by lensolve. cbn [obind].
  set (P4 := (((pre ++ nw) ++ be_bytes 2 (r_type r)) ++ be_bytes 2 (r_class r)) ++ be_bytes 4 (r_ttl r)).
  set (R4 := skipn 4 (skipn 2 (skipn 2 (skipn (length nw) rest)))).
  assert (HR4 : n6_len R4 = n6_len rest - a - 8) by (unfold R4; lensolve).
  assert (HP4 : n6_len P4 = n6_len pre + a + 8) by (unfold P4; lensolve).
  replace (P4 ++ R4) with ((P4 ++ firstn 2 R4) ++ skipn 2 R4) by (rewrite <- app_assoc, firstn_skipn; reflexivity).
  destruct (rdata_encode_spec r (P4 ++ firstn 2 R4) (skipn 2 R4) (n6_len pre + n6_len nw) b Hrs) as [He Hl];
    [lensolve|lensolve|]. rewrite He.
  destruct (rdata_wire r) as [rd|e|s]; cbn [omap obind]; [|split; [reflexivity|discriminate]|split; [reflexivity|discriminate]].
  specialize (Hl rd eq_refl). rewrite Hrs. cbn [obind].
  replace (((P4 ++ firstn 2 R4) ++ rd) ++ skipn (length rd) (skipn 2 R4))
    with (P4 ++ (firstn 2 R4 ++ rd ++ skipn (length rd) (skipn 2 R4))) by (rewrite <- !app_assoc; reflexivity).
  rewrite wr16_app by lensolve. cbn [obind].
  rewrite skipn_app_exact by (rewrite firstn_length; unfold n6_len in *; lia).
  split.
  - apply f_equal. apply triple_eq; [lia| |reflexivity].
    unfold P4, R4. rewrite Hl. rewrite <- !app_assoc. repeat (apply f_equal).
    rewrite !skipn_skipn'. rewrite !app_length, !be_bytes_length. f_equal; lia.
  - intros w Hw. apply Ok_inj in Hw. subst w. lensolve.
Qed.

Definition q_wire (q : question) : outcome (list Z) :=
  do nw <- name_wire (q_name q) (q_meta q); Ok (nw ++ be_bytes 2 (q_type q) ++ be_bytes 2 (q_class q)).

Lemma q_encode_spec q pre rest off a :
  name_size (q_name q) (q_meta q) = Ok a -> a + 4 <= n6_len rest -> off = n6_len pre ->
  exists w, q_wire q = Ok w /\ n6_len w = a + 4 /\
            q_encode q (pre ++ rest) off = Ok (a + 4, (pre ++ w) ++ skipn (length w) rest).
Proof.
  intros Ha Hb ->. unfold q_encode, q_wire.
  destruct (name_size_ok _ _ _ Ha) as (nw & Hnw & Hnl). rewrite Hnw. cbn [obind].
  pose proof (n6_len_nonneg nw).
  eexists. split; [reflexivity|]. split; [lensolve|].
  rewrite (enc_name_spec _ _ pre rest nw) by (auto; lensolve). cbn [obind].
  rewrite wr16_app by lensolve. cbn [obind].
  rewrite wr16_app by lensolve. cbn [obind].
  apply pair_eq; [lia|].
  rewrite <- !app_assoc. repeat (apply f_equal).
  rewrite !skipn_skipn'. rewrite !app_length, !be_bytes_length. f_equal; lia.
Qed.

(* ---------------------------------------------------------------- the lists *)
Fixpoint qs_wire (qs : list question) : outcome (list Z) :=
  match qs with
  | [] => Ok []
  | q :: t => do w <- q_wire q; do r <- qs_wire t; Ok (w ++ r)
  end.

Lemma q_size_nonneg : forall qs n, q_size qs = Ok n -> 0 <= n.
Proof.
  induction qs as [|q t IH]; intros n H; cbn [q_size] in H; [apply Ok_inj in H; lia|].
  destruct (name_size (q_name q) (q_meta q)) as [a|e|s] eqn:E; cbn [obind] in H; try discriminate.
  destruct (q_size t) as [m|e|s] eqn:E2; cbn [obind] in H; try discriminate.
  apply Ok_inj in H. subst n. apply name_size_nonneg in E. specialize (IH m eq_refl). lia.
Qed.

Lemma q_enc_loop_spec : forall qs pre rest off n, q_size qs = Ok n -> n <= n6_len rest -> off = n6_len pre ->
  exists w, qs_wire qs = Ok w /\ n6_len w = n /\
            q_enc_loop qs (pre ++ rest) off = Ok (off + n, (pre ++ w) ++ skipn (length w) rest).
Proof.
  induction qs as [|q t IH]; intros pre rest off n H Hb ->; cbn [q_size q_enc_loop qs_wire] in *.
  - apply Ok_inj in H. subst n. exists []. split; [reflexivity|]. split; [reflexivity|].
    rewrite app_nil_r. cbn [length skipn]. apply pair_eq; [lia|reflexivity].
  - destruct (name_size (q_name q) (q_meta q)) as [a|e|s] eqn:E; cbn [obind] in H; try discriminate.
    destruct (q_size t) as [m|e|s] eqn:E2; cbn [obind] in H; try discriminate.
    apply Ok_inj in H. subst n. pose proof (q_size_nonneg _ _ E2). pose proof (name_size_nonneg _ _ _ E).
    destruct (q_encode_spec q pre rest (n6_len pre) a E ltac:(lia) eq_refl) as (w & Hw & Hwl & He).
    rewrite He, Hw. cbn [obind].
    destruct (IH (pre ++ w) (skipn (length w) rest) (n6_len pre + (a + 4)) m eq_refl ltac:(lensolve) ltac:(lensolve)) as (w2 & Hw2 & Hw2l & He2).
    rewrite He2, Hw2. cbn [obind]. exists (w ++ w2). split; [reflexivity|]. split; [lensolve|].
    apply pair_eq; [lia|].
    rewrite <- !app_assoc. repeat (apply f_equal). rewrite skipn_skipn', app_length. reflexivity.
Qed.

Fixpoint rrs_wire (rs : list rr) : outcome (list Z) :=
  match rs with
  | [] => Ok []
  | r :: t => do w <- rr_wire r; do x <- rrs_wire t; Ok (w ++ x)
  end.

(* the records after FixLengths: those encoded carry their DataLength *)
Fixpoint rrs_after (rs : list rr) (fix_ : bool) : list rr :=
  match rs with
  | [] => []
  | r :: t =>
      match rr_wire r, rec_size r with
      | Ok _, Ok b => (if fix_ then rr_set_dlen r (u16 b) else r) :: rrs_after t fix_
      | _, _ => r :: t
      end
  end.

Lemma compute_size_nonneg : forall rs n, compute_size rs = Ok n -> 0 <= n.
Proof.
  induction rs as [|r t IH]; intros n H; cbn [compute_size] in H; [apply Ok_inj in H; lia|].
  destruct (name_size (r_name r) (owner_meta r)) as [a|e|s] eqn:E; cbn [obind] in H; try discriminate.
  destruct (rec_size r) as [b|e|s] eqn:E1; cbn [obind] in H; try discriminate.
  destruct (compute_size t) as [m|e|s] eqn:E2; cbn [obind] in H; try discriminate.
  apply Ok_inj in H. subst n. apply name_size_nonneg in E. apply rec_size_nonneg in E1. specialize (IH m eq_refl). lia.
Qed.

Lemma rr_enc_loop_spec : forall rs pre rest off fix_ n, compute_size rs = Ok n -> n <= n6_len rest -> off = n6_len pre ->
  rr_enc_loop false rs (pre ++ rest) off fix_
  = (rrs_after rs fix_, omap (fun w => (off + n, (pre ++ w) ++ skipn (length w) rest)) (rrs_wire rs))
  /\ forall w, rrs_wire rs = Ok w -> n6_len w = n.
Proof.
  induction rs as [|r t IH]; intros pre rest off fix_ n H Hb ->; cbn [compute_size rr_enc_loop rrs_wire rrs_after] in *.
  - apply Ok_inj in H. subst n. cbn [omap]. split.
    + rewrite app_nil_r. cbn [length skipn]. f_equal. apply pair_eq; [lia|reflexivity].
    + intros w Hw. apply Ok_inj in Hw. subst w. reflexivity.
  - destruct (name_size (r_name r) (owner_meta r)) as [a|e|s] eqn:E; cbn [obind] in H; try discriminate.
    destruct (rec_size r) as [b|e|s] eqn:E1; cbn [obind] in H; try discriminate.
    destruct (compute_size t) as [m|e|s] eqn:E2; cbn [obind] in H; try discriminate.
    apply Ok_inj in H. subst n. pose proof (compute_size_nonneg _ _ E2). pose proof (name_size_nonneg _ _ _ E).
    pose proof (rec_size_nonneg _ _ E1).
    destruct (rr_encode_spec r pre rest (n6_len pre) fix_ a b E E1 ltac:(lia) eq_refl) as [He Hl].
    rewrite He. destruct (rr_wire r) as [w|e|s]; cbn [omap obind]; [|split; [reflexivity|discriminate]|split; [reflexivity|discriminate]].
    specialize (Hl w eq_refl).
    destruct (IH (pre ++ w) (skipn (length w) rest) (n6_len pre + (a + 10 + b)) fix_ m eq_refl ltac:(lensolve) ltac:(lensolve)) as [He2 Hl2].
    rewrite He2. destruct (rrs_wire t) as [w2|e|s]; cbn [omap obind]; [|split; [reflexivity|discriminate]|split; [reflexivity|discriminate]].
    specialize (Hl2 w2 eq_refl). split.
    + f_equal. apply pair_eq; [lia|].
      rewrite <- !app_assoc. repeat (apply f_equal). rewrite skipn_skipn', app_length. reflexivity.
    + intros w' Hw'. apply Ok_inj in Hw'. subst w'. lensolve.
Qed.

(* ---------------------------------------------------------------- no Panic in the pure functions *)
Definition onp {A} (o : outcome A) : Prop := match o with Panic _ => False | _ => True end.

Lemma obind_np {A B} (o : outcome A) (f : A -> outcome B) : onp o -> (forall v, onp (f v)) -> onp (obind o f).
Proof. destruct o; cbn; auto. Qed.

Lemma omap_np {A B} (f : A -> B) (o : outcome A) : onp o -> onp (omap f o).
Proof. destruct o; cbn; auto. Qed.

Lemma ap_loop_np : forall nm skip done cur sep, onp (ap_loop nm skip done cur sep).
Proof.
  induction nm as [|c rest IH]; intros; cbn [ap_loop]; [exact I|].
  destruct skip; [|apply IH].
  repeat match goal with
  | |- onp (if ?c then _ else _) => destruct c
  | |- onp (match ?l with [] => _ | _ :: _ => _ end) => destruct l
  | |- onp (Err _) => exact I
  | |- onp (ap_loop _ _ _ _ _) => apply IH
  end.
Qed.

Lemma pres_wire_np name : onp (pres_wire name).
Proof.
  unfold pres_wire. destruct ((n6_len name =? 0) || ((n6_len name =? 1) && (nth 0 name 0 =? 46))); [exact I|].
  pose proof (ap_loop_np name 0 [] [] false) as P. destruct (ap_loop name 0 [] [] false) as [[[d c] s]|e|s]; cbn in *; auto.
  destruct (n6_len c >? 63); [exact I|]. destruct s; match goal with |- onp (if ?c then _ else _) => destruct c end; exact I.
Qed.

Lemma labels_size_loop_np : forall ls size, onp (labels_size_loop ls size).
Proof.
  induction ls as [|l t IH]; intros; cbn [labels_size_loop]; [exact I|].
  destruct (n6_len l >? 63); [exact I|]. destruct (size + 1 + n6_len l >? 255); [exact I|apply IH].
Qed.

Lemma name_wire_np name m : onp (name_wire name m).
Proof.
  unfold name_wire. destruct (use_preserved name m); [|apply pres_wire_np].
  apply obind_np; [apply labels_size_loop_np|intros; exact I].
Qed.

Lemma name_size_np name m : onp (name_size name m).
Proof. rewrite name_size_spec. apply omap_np, name_wire_np. Qed.

Lemma rdata_wire_np r : onp (rdata_wire r).
Proof.
  unfold rdata_wire.
  repeat match goal with
  | |- onp (if ?c then _ else _) => destruct c
  | |- onp (match ?o with Some _ => _ | None => _ end) => destruct o
  | |- onp (obind _ _) => apply obind_np; [apply name_wire_np|intros]
  | |- onp (name_wire _ _) => apply name_wire_np
  | |- onp (Ok _) => exact I
  | |- onp (Err _) => exact I
  end.
Qed.

Lemma rr_wire_np r : onp (rr_wire r).
Proof. unfold rr_wire. apply obind_np; [apply name_wire_np|intros]. apply obind_np; [apply rdata_wire_np|intros; exact I]. Qed.

Lemma rrs_wire_np rs : onp (rrs_wire rs).
Proof. induction rs as [|r t IH]; cbn [rrs_wire]; [exact I|]. apply obind_np; [apply rr_wire_np|intros]. apply obind_np; [exact IH|intros; exact I]. Qed.

Lemma q_wire_np q : onp (q_wire q).
Proof. unfold q_wire. apply obind_np; [apply name_wire_np|intros; exact I]. Qed.

Lemma qs_wire_np qs : onp (qs_wire qs).
Proof. induction qs as [|q t IH]; cbn [qs_wire]; [exact I|]. apply obind_np; [apply q_wire_np|intros]. apply obind_np; [exact IH|intros; exact I]. Qed.

Lemma rec_size_np r : onp (rec_size r).
Proof.
  unfold rec_size.
  repeat match goal with
  | |- onp (if ?c then _ else _) => destruct c
  | |- onp (obind _ _) => apply obind_np; [apply name_size_np|intros]
  | |- onp (name_size _ _) => apply name_size_np
  | |- onp (Ok _) => exact I
  end.
Qed.

Lemma compute_size_np rs : onp (compute_size rs).
Proof.
  induction rs as [|r t IH]; cbn [compute_size]; [exact I|].
  apply obind_np; [apply name_size_np|intros]. apply obind_np; [apply rec_size_np|intros]. apply obind_np; [exact IH|intros; exact I].
Qed.

Lemma q_size_np qs : onp (q_size qs).
Proof.
  induction qs as [|q t IH]; cbn [q_size]; [exact I|].
  apply obind_np; [apply name_size_np|intros]. apply obind_np; [exact IH|intros; exact I].
Qed.

(* ---------------------------------------------------------------- SerializeTo *)
Definition dns_sizes (d : dns) : outcome Z :=
  do a <- q_size (d_questions d);
  do b <- compute_size (d_answers d);
  do c <- compute_size (d_authorities d);
  do e <- compute_size (d_additionals d);
  Ok (a + b + c + e).

Definition counts_after (d : dns) (fix_ : bool) : dns :=
  if fix_ then set_counts d (u16 (zlen (d_questions d))) (u16 (zlen (d_answers d)))
                          (u16 (zlen (d_authorities d))) (u16 (zlen (d_additionals d)))
  else d.

Definition hdr_b2 (d : dns) : Z :=
  u8 (Z.lor (Z.lor (Z.lor (Z.lor (Z.shiftl (b2i (d_qr d)) 7) (Z.shiftl (d_opcode d) 3))
                    (Z.shiftl (b2i (d_aa d)) 2)) (Z.shiftl (b2i (d_tc d)) 1)) (b2i (d_rd d))).
Definition hdr_b3 (d : dns) : Z :=
  u8 (Z.lor (Z.lor (Z.shiftl (b2i (d_ra d)) 7) (Z.shiftl (d_z d) 4)) (Z.land (d_rcode d) 15)).

Definition hdr_wire (d : dns) (fix_ : bool) : list Z :=
  let d1 := counts_after d fix_ in
  be_bytes 2 (d_id d) ++ [hdr_b2 d] ++ [hdr_b3 d] ++ be_bytes 2 (d_qdcount d1) ++ be_bytes 2 (d_ancount d1)
    ++ be_bytes 2 (d_nscount d1) ++ be_bytes 2 (d_arcount d1).

(* the result of SerializeTo as a function of the value, the payload and the options only *)
Definition ser_spec (d : dns) (payload : list Z) (fix_ : bool) : outcome (list Z) * dns :=
  match dns_sizes d with
  | Err e => (Err e, d)
  | Panic s => (Panic s, d)
  | Ok _ =>
      let d1 := counts_after d fix_ in
      match qs_wire (d_questions d) with
      | Err e => (Err e, d1)
      | Panic s => (Panic s, d1)
      | Ok qw =>
          let ans := rrs_after (d_answers d) fix_ in
          match rrs_wire (d_answers d) with
          | Err e => (Err e, set_records d1 ans (d_authorities d) (d_additionals d))
          | Panic s => (Panic s, set_records d1 ans (d_authorities d) (d_additionals d))
          | Ok aw =>
              let aus := rrs_after (d_authorities d) fix_ in
              match rrs_wire (d_authorities d) with
              | Err e => (Err e, set_records d1 ans aus (d_additionals d))
              | Panic s => (Panic s, set_records d1 ans aus (d_additionals d))
              | Ok nw =>
                  let ads := rrs_after (d_additionals d) fix_ in
                  match rrs_wire (d_additionals d) with
                  | Err e => (Err e, set_records d1 ans aus ads)
                  | Panic s => (Panic s, set_records d1 ans aus ads)
                  | Ok rw => (Ok ((hdr_wire d fix_ ++ qw ++ aw ++ nw ++ rw) ++ payload), set_records d1 ans aus ads)
                  end
              end
          end
      end
  end.

Lemma length0_nil {A} (l : list A) : length l = 0%nat -> l = [].
Proof. destruct l; [reflexivity|discriminate]. Qed.

Theorem serialize_eq_spec d payload fix_ csum junk : serialize d payload fix_ csum junk = ser_spec d payload fix_.
Proof.
  unfold serialize, serialize_gen, ser_spec. fold (dns_sizes d).
  destruct (dns_sizes d) as [dsz|e|s] eqn:Es; [|reflexivity|reflexivity].
  unfold dns_sizes in Es.
  destruct (q_size (d_questions d)) as [sq|?|?] eqn:Eq; cbn [obind] in Es; try discriminate.
  destruct (compute_size (d_answers d)) as [sa|?|?] eqn:Ea; cbn [obind] in Es; try discriminate.
  destruct (compute_size (d_authorities d)) as [sn|?|?] eqn:En; cbn [obind] in Es; try discriminate.
  destruct (compute_size (d_additionals d)) as [sr|?|?] eqn:Er; cbn [obind] in Es; try discriminate.
  apply Ok_inj in Es. subst dsz.
  pose proof (q_size_nonneg _ _ Eq). pose proof (compute_size_nonneg _ _ Ea).
  pose proof (compute_size_nonneg _ _ En). pose proof (compute_size_nonneg _ _ Er).
  set (region := fst (n6_take (Z.to_nat (12 + (sq + sa + sn + sr))) junk)).
  assert (Hrl : n6_len region = 12 + (sq + sa + sn + sr)) by (unfold region, n6_len; rewrite n6_take_length; lia).
  fold (counts_after d fix_). set (d1 := counts_after d fix_).
  fold (hdr_b2 d). fold (hdr_b3 d).
  change region with ([] ++ region).
  rewrite wr16_app by (cbn [n6_len length]; lensolve). cbn [obind].
  destruct (skipn 2 region) as [|x2 r2] eqn:E2; [apply (f_equal (@length Z)) in E2; rewrite skipn_length in E2; cbn [length] in E2; unfold n6_len in *; lia|].
  rewrite wr8_app by lensolve. cbn [obind].
  destruct r2 as [|x3 r3]; [apply (f_equal (@length Z)) in E2; rewrite skipn_length in E2; cbn [length] in E2; unfold n6_len in *; lia|].
  rewrite wr8_app by lensolve. cbn [obind].
  assert (Hr3 : n6_len r3 = 8 + (sq + sa + sn + sr)).
  { apply (f_equal (@length Z)) in E2. rewrite skipn_length in E2. cbn [length] in E2. unfold n6_len in *. lia. }
  rewrite wr16_app by lensolve. cbn [obind].
  rewrite wr16_app by lensolve. cbn [obind].
  rewrite wr16_app by lensolve. cbn [obind].
  rewrite wr16_app by lensolve. cbn [obind].
  match goal with |- context [q_enc_loop _ (?P ++ ?R) 12] =>
    destruct (q_enc_loop_spec (d_questions d) P R 12 sq Eq ltac:(lensolve) ltac:(lensolve)) as (qw & Hqw & Hqwl & Heq);
    set (PH := P) in *; set (RH := R) in * end.
  assert (HPH : n6_len PH = 12) by (unfold PH; lensolve).
  assert (HRH : n6_len RH = sq + sa + sn + sr) by (unfold RH; lensolve).
  rewrite Heq, Hqw.
  destruct (rr_enc_loop_spec (d_answers d) (PH ++ qw) (skipn (length qw) RH) (12 + sq) fix_ sa Ea ltac:(lensolve) ltac:(lensolve)) as [Hea Hla].
  rewrite Hea. destruct (rrs_wire (d_answers d)) as [aw|e|s]; cbn [omap]; [|reflexivity|reflexivity].
  specialize (Hla aw eq_refl).
  destruct (rr_enc_loop_spec (d_authorities d) ((PH ++ qw) ++ aw) (skipn (length aw) (skipn (length qw) RH)) (12 + sq + sa) fix_ sn En ltac:(lensolve) ltac:(lensolve)) as [Hen Hln].
  rewrite Hen. destruct (rrs_wire (d_authorities d)) as [nw|e|s]; cbn [omap]; [|reflexivity|reflexivity].
  specialize (Hln nw eq_refl).
  destruct (rr_enc_loop_spec (d_additionals d) (((PH ++ qw) ++ aw) ++ nw) (skipn (length nw) (skipn (length aw) (skipn (length qw) RH))) (12 + sq + sa + sn) fix_ sr Er ltac:(lensolve) ltac:(lensolve)) as [Her Hlr].
  rewrite Her. destruct (rrs_wire (d_additionals d)) as [rw|e|s]; cbn [omap]; [|reflexivity|reflexivity].
  specialize (Hlr rw eq_refl).
  f_equal. apply f_equal.
  rewrite (length0_nil (skipn (length rw) _)) by (rewrite !skipn_length; unfold n6_len in *; lia).
  rewrite app_nil_r. unfold PH, hdr_wire. fold d1. cbn [app]. rewrite <- !app_assoc. reflexivity.
Qed.

Theorem ser_spec_no_panic d payload fix_ : is_panic (fst (ser_spec d payload fix_)) = false.
Proof.
  unfold ser_spec.
  assert (Hs : onp (dns_sizes d)).
  { unfold dns_sizes. apply obind_np; [apply q_size_np|intros]. apply obind_np; [apply compute_size_np|intros].
    apply obind_np; [apply compute_size_np|intros]. apply obind_np; [apply compute_size_np|intros; exact I]. }
  destruct (dns_sizes d); cbn in Hs; [|reflexivity|contradiction].
  pose proof (qs_wire_np (d_questions d)) as Pq. destruct (qs_wire (d_questions d)); cbn in Pq; [|reflexivity|contradiction].
  pose proof (rrs_wire_np (d_answers d)) as Pa. destruct (rrs_wire (d_answers d)); cbn in Pa; [|reflexivity|contradiction].
  pose proof (rrs_wire_np (d_authorities d)) as Pn. destruct (rrs_wire (d_authorities d)); cbn in Pn; [|reflexivity|contradiction].
  pose proof (rrs_wire_np (d_additionals d)) as Pr. destruct (rrs_wire (d_additionals d)); cbn in Pr; [|reflexivity|contradiction].
  reflexivity.
Qed.
