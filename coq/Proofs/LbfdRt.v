(* Round trip of the BFD model: bfd_decode_into (bfd_serialize l) under bfd_wf (nothing under the layer). *)
From GP Require Import Base ListX Codec CodecBits MiscLib LbfdModel LbfdProofs.
From Coq Require Import Lia ZifyBool ZifyNat.
Open Scope Z_scope.
Ltac Zify.zify_post_hook ::= Z.div_mod_to_equations.

Definition bfd_wf (l : bfd) : Prop :=
  0 <= b_version l < 8 /\ 0 <= b_diag l < 32 /\ 0 <= b_state l < 4 /\ 0 <= b_mult l < 256 /\
  0 <= b_mydisc l < 4294967296 /\ 0 <= b_yourdisc l < 4294967296 /\ 0 <= b_mintx l < 4294967296 /\
  0 <= b_minrx l < 4294967296 /\ 0 <= b_minecho l < 4294967296 /\
  match b_auth l with
  | None => True
  | Some a => b_authp l = true /\ (ba_type a = 1 \/ ba_keyed (ba_type a) = true) /\ 0 <= ba_keyid a < 256 /\
              0 <= ba_seq a < 4294967296 /\ (ba_type a = 1 -> ba_seq a = 0) /\ 24 + ba_len a < 256
  end.

Lemma bfd_flags_octet st (p f c a d m : bool) : 0 <= st < 4 ->
  let b1 := st * 64 + b2z p * 32 + b2z f * 16 + b2z c * 8 + b2z a * 4 + b2z d * 2 + b2z m in
  b1 / 64 = st /\ ((b1 / 32) mod 2 =? 1) = p /\ ((b1 / 16) mod 2 =? 1) = f /\ ((b1 / 8) mod 2 =? 1) = c /\
  ((b1 / 4) mod 2 =? 1) = a /\ ((b1 / 2) mod 2 =? 1) = d /\ (b1 mod 2 =? 1) = m.
Proof. intros H. destruct p, f, c, a, d, m; cbn [b2z]; cbv zeta; repeat split; lia. Qed.

Lemma ba_len_pos a : ba_type a = 1 \/ ba_keyed (ba_type a) = true -> 3 <= ba_len a.
Proof.
  intros H. unfold ba_len. pose proof (zlen_nonneg (ba_data a)). destruct (ba_type a =? 1) eqn:E; [lia|].
  destruct H as [H|H]; [lia|]. rewrite H. lia.
Qed.

Lemma bfd_roundtrip l fixl csum junk bytes l' old :
  bfd_wf l -> bfd_serialize l [] fixl csum junk = (Ok bytes, l') ->
  l' = l /\ bfd_decode_into old bytes =
    (mkBfd bytes [] (b_version l) (b_diag l) (b_state l) (b_poll l) (b_final l) (b_cpi l) (b_authp l) (b_demand l) (b_mpoint l)
           (b_mult l) (b_mydisc l) (b_yourdisc l) (b_mintx l) (b_minrx l) (b_minecho l) (b_auth l), Ok tt, false).
Proof.
  intros [Hv [Hd [Hs [Hm [H1 [H2 [H3 [H4 [H5 Ha]]]]]]]]]. rewrite bfd_serialize_spec.
  assert (Hrej : bfd_rej l = false).
  { unfold bfd_rej. destruct (b_auth l) as [a|]; [|reflexivity]. destruct Ha as [Hp [Ht _]]. rewrite Hp. cbn [andb].
    pose proof (ba_len_pos a Ht). lia. }
  rewrite Hrej. cbn [app]. intros X.
  assert (E1 : bytes = bfd_hdr l ++ bfd_authbytes l) by congruence. assert (E2 : l' = l) by congruence. clear X.
  split; [exact E2|]. clear E2 l'.
  set (au := bfd_authbytes l) in *. pose proof (zlen_nonneg au) as Nau.
  assert (Halen : bfd_alen l = zlen au /\ zlen au < 232).
  { unfold bfd_alen, au, bfd_authbytes. destruct (b_auth l) as [a|]; [|split; [reflexivity|cbn; lia]].
    destruct Ha as [Hp [Ht [_ [_ [_ Hl]]]]]. rewrite Hp.
    assert (ba_len a <> 0) by (pose proof (ba_len_pos a Ht); lia).
    rewrite ba_bytes_len by assumption. split; [reflexivity|lia]. }
  destruct Halen as [Hal Hau].
  destruct (bfd_flags_octet (b_state l) (b_poll l) (b_final l) (b_cpi l) (b_authp l) (b_demand l) (b_mpoint l) Hs) as [F0 [F1 [F2 [F3 [F4 [F5 F6]]]]]].
  cbv zeta in F0, F1, F2, F3, F4, F5, F6.
  set (b1 := b_state l * 64 + b2z (b_poll l) * 32 + b2z (b_final l) * 16 + b2z (b_cpi l) * 8 + b2z (b_authp l) * 4 + b2z (b_demand l) * 2 + b2z (b_mpoint l)) in *.
  set (b0 := b_version l * 32 + b_diag l).
  assert (Hh : bfd_hdr l = [b0; b1; b_mult l; 24 + zlen au] ++ ml_put32 (b_mydisc l) ++ ml_put32 (b_yourdisc l) ++ ml_put32 (b_mintx l) ++
                           ml_put32 (b_minrx l) ++ ml_put32 (b_minecho l)).
  { unfold bfd_hdr. rewrite Hal. rewrite !(Z.mod_small (b_mydisc l)), !(Z.mod_small (b_yourdisc l)), !(Z.mod_small (b_mintx l)), !(Z.mod_small (b_minrx l)),
      !(Z.mod_small (b_minecho l)), (Z.mod_small (b_mult l)), (Z.mod_small (24 + zlen au)), (Z.mod_small (b_state l)) by lia.
    assert (L0 : Z.lor ((b_version l * 32) mod 256) (b_diag l mod 256) = b0).
    { rewrite !Z.mod_small by lia. change 32 with (2 ^ 5) at 1. rewrite cd_lor_disjoint by (change (2 ^ 5) with 32; lia). reflexivity. }
    rewrite L0. reflexivity. }
  rewrite Hh in E1. set (h := [b0; b1; b_mult l; 24 + zlen au] ++ ml_put32 (b_mydisc l) ++ ml_put32 (b_yourdisc l) ++ ml_put32 (b_mintx l) ++
                           ml_put32 (b_minrx l) ++ ml_put32 (b_minecho l)) in *.
  assert (Lh : zlen h = 24) by reflexivity.
  assert (Hn : zlen bytes = 24 + zlen au) by (rewrite E1, zlen_app, Lh; reflexivity).
  assert (HnthZ : forall k, 0 <= k < 24 -> nth (Z.to_nat k) bytes 0 = nth (Z.to_nat k) h 0).
  { intros k Hk. rewrite E1. apply app_nth1. change (length h) with 24%nat. lia. }
  unfold bfd_decode_into, bfd_decode_gen. cbv zeta. destruct (zlen bytes <? 24) eqn:C0; [lia|].
  rewrite !cd_idx_ok by lia. cbn [ml_bind]. rewrite !HnthZ by lia.
  assert (S1 : slice bytes (Z.to_nat 0) (Z.to_nat (zlen bytes)) = bytes).
  { unfold slice. change (Z.to_nat 0) with 0%nat. cbn [skipn]. apply firstn_all2. unfold zlen. lia. }
  assert (S2 : slice bytes (Z.to_nat 24) (Z.to_nat (zlen bytes)) = au).
  { rewrite Hn, E1. apply slice_to_end; [reflexivity|]. change (length h) with 24%nat. unfold zlen. lia. }
  assert (P3 : nth (Z.to_nat 3) h 0 = 24 + zlen au) by reflexivity. rewrite P3.
  replace (zlen bytes =? 24 + zlen au) with true by lia. cbn [negb].
  rewrite !cd_slc_ok by lia. rewrite !ml_rd32_ok by lia. cbn [ml_bind]. rewrite !HnthZ by lia. rewrite S1, S2.
  repeat match goal with |- context [Z.to_nat ?k] => let v := eval vm_compute in (Z.to_nat k) in change (Z.to_nat k) with v end.
  unfold h. cbn [nth app ml_put32].
  rewrite !ml_put32_be by lia. rewrite F0, F1, F2, F3, F4, F5, F6.
  replace (b0 / 32) with (b_version l) by (unfold b0; lia). replace (b0 mod 32) with (b_diag l) by (unfold b0; lia).
  (* the authentication section *)
  unfold au, bfd_authbytes in *. destruct (b_auth l) as [a|] eqn:Ea.
  - destruct Ha as [Hp [Ht [Hk [Hsq [Hs0 Hl]]]]]. rewrite Hp in *. cbn [andb].
    pose proof (zlen_nonneg (ba_data a)) as Nd.
    destruct a as [t kid sq dat]. cbn [ba_type ba_keyid ba_seq ba_data] in *.
    unfold ba_bytes, ba_len in *. cbn [ba_type ba_keyid ba_seq ba_data] in *.
    destruct (t =? 1) eqn:T1.
    + assert (t = 1) by lia. subst t. rewrite (Hs0 eq_refl).
      set (sec := [1 mod 256; (3 + zlen dat) mod 256; kid mod 256] ++ dat) in *.
      assert (Ls : zlen sec = 3 + zlen dat) by (unfold sec; rewrite zlen_app; reflexivity).
      replace (2 <? zlen sec) with true by lia.
      rewrite !cd_idx_ok by lia. rewrite cd_slc_ok by lia. cbn [ml_bind].
      assert (S3 : slice sec (Z.to_nat 3) (Z.to_nat (zlen sec)) = dat).
      { rewrite Ls. unfold sec. apply slice_to_end; [reflexivity|]. cbn [length]. unfold zlen. lia. }
      rewrite S3. unfold sec. cbn [nth app]. change (Z.to_nat 0) with 0%nat. change (Z.to_nat 2) with 2%nat. cbn [nth].
      change (1 mod 256) with 1. change (1 =? 1) with true. cbv iota. rewrite (Z.mod_small kid) by lia. reflexivity.
    + destruct Ht as [Ht|Ht]; [lia|]. rewrite Ht in *.
      set (sec := [t mod 256; (8 + zlen dat) mod 256; kid mod 256] ++ [0] ++ ml_put32 (sq mod 4294967296) ++ dat) in *.
      assert (Ls : zlen sec = 8 + zlen dat) by (unfold sec; rewrite !zlen_app, zlen_put32; change (zlen [t mod 256; (8 + zlen dat) mod 256; kid mod 256]) with 3; change (zlen [0]) with 1; lia).
      replace (2 <? zlen sec) with true by lia.
      rewrite !cd_idx_ok by lia. rewrite cd_slc_ok by lia. cbn [ml_bind].
      assert (Ht2 : 2 <= t <= 5) by (unfold ba_keyed in Ht; lia).
      set (r3 := [0] ++ ml_put32 (sq mod 4294967296) ++ dat).
      assert (S3 : slice sec (Z.to_nat 3) (Z.to_nat (zlen sec)) = r3).
      { rewrite Ls. unfold sec. apply slice_to_end; [reflexivity|]. unfold r3. cbn [length app ml_put32]. unfold zlen. lia. }
      rewrite S3. change (Z.to_nat 0) with 0%nat. change (Z.to_nat 2) with 2%nat.
      assert (N0 : nth 0 sec 0 = t mod 256) by reflexivity. assert (N2 : nth 2 sec 0 = kid mod 256) by reflexivity. rewrite !N0, !N2.
      rewrite (Z.mod_small t) by lia. rewrite T1. rewrite ?Ht.
      assert (Lr : zlen r3 = 5 + zlen dat) by (unfold r3; rewrite !zlen_app, zlen_put32; change (zlen [0]) with 1; lia).
      replace (zlen r3 <? 5) with false by lia.
      rewrite ml_rd32_ok by lia. rewrite cd_slc_ok by lia. cbn [ml_bind].
      assert (S4 : slice r3 (Z.to_nat 5) (Z.to_nat (zlen r3)) = dat).
      { rewrite Lr. unfold r3. change ([0] ++ ml_put32 (sq mod 4294967296) ++ dat) with (([0] ++ ml_put32 (sq mod 4294967296)) ++ dat).
        apply slice_to_end; [reflexivity|]. cbn [length app ml_put32]. unfold zlen. lia. }
      rewrite S4.
      repeat match goal with |- context [Z.to_nat ?k] => let v := eval vm_compute in (Z.to_nat k) in change (Z.to_nat k) with v end.
      unfold r3. cbn [nth app ml_put32]. rewrite (Z.mod_small sq) by lia. rewrite ml_put32_be by lia. rewrite (Z.mod_small kid) by lia. reflexivity.
  - change (zlen (@nil Z)) with 0. replace (2 <? 0) with false by reflexivity. rewrite andb_false_r. reflexivity.
Qed.
