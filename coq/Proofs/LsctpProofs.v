(* Lemmas about Model/LsctpModel.v: the repaired chunk walk never panics. *)
From Coq Require Import Lia ZifyBool ZifyNat.
From GP Require Import Base ListX LtcpModel LtcpProofs LtcpRoundtrip LtcpDecoded LsctpModel.
Open Scope Z_scope.
Ltac Zify.zify_post_hook ::= Z.div_mod_to_equations.

Lemma roundup4_bounds x : x <= roundup4 x < x + 4.
Proof. unfold roundup4. destruct (x mod 4 =? 0) eqn:H; lia. Qed.

Lemma be_val_nonneg l : bytes_ok l -> 0 <= be_val l.
Proof. intros H. pose proof (be_val_range l H). lia. Qed.

Lemma field_np s data tl a b : 0 <= a <= b -> b <= len data -> np (field s data tl a b).
Proof. intros H1 H2. unfold field. apply np_bind; [apply slc_np; assumption|]. intros v _. exact I. Qed.

Lemma field_nonneg s data tl a b v : bytes_ok data -> 0 <= a <= b -> b <= len data ->
  field s data tl a b = Ok v -> 0 <= v.
Proof.
  intros Hb H1 H2. unfold field. rewrite slc_eq by assumption. cbn [obind]. intros H. injection H as <-.
  rewrite slice_app_within by (unfold len in *; lia). apply be_val_nonneg, bytes_ok_slice, Hb.
Qed.

(* what decodeSCTPChunk guarantees *)
Lemma chunk_hdr_ok data c : chunk_hdr data = Ok c ->
  4 <= c_len c <= c_actual c /\ c_actual c <= len data /\ c_actual c < c_len c + 4 /\
  c_payload c = skipn (Z.to_nat (c_actual c)) data.
Proof.
  unfold chunk_hdr. destruct (len data <? 4) eqn:H4; [discriminate|].
  destruct (be_val (slice data 2 4) <? 4) eqn:HL; [discriminate|].
  destruct (len data <? roundup4 _) eqn:HA; [discriminate|].
  intros H. injection H as <-. cbn [c_len c_actual c_payload].
  pose proof (roundup4_bounds (be_val (slice data 2 4))). repeat split; lia.
Qed.

Lemma chunk_hdr_np data : np (chunk_hdr data).
Proof.
  unfold chunk_hdr. destruct (len data <? 4); [exact I|]. destruct (_ <? 4); [exact I|].
  destruct (len data <? _); exact I.
Qed.

Lemma params_np : forall fuel pd tl acc, (length pd < fuel)%nat -> np (params true fuel pd tl acc).
Proof.
  induction fuel as [|fuel IH]; intros pd tl acc Hf; [lia|].
  cbn [params andb]. destruct (len pd =? 0) eqn:H0; [exact I|].
  destruct (len pd <? 4) eqn:H4; [exact I|].
  rewrite slc_eq by lia. cbn [obind]. set (L := be_val _). clearbody L.
  destruct ((L <? 4) || (len pd <? L)) eqn:HL; [exact I|].
  rewrite slc_eq by lia. cbn [obind]. rewrite slc_eq by lia. cbn [obind].
  pose proof (roundup4_bounds L) as HR.
  destruct (len pd <? roundup4 L) eqn:HC.
  - rewrite from_eq by lia. cbn [obind]. apply IH. rewrite skipn_length. unfold len in *. lia.
  - rewrite from_eq by lia. cbn [obind]. apply IH. rewrite skipn_length. unfold len in *. lia.
Qed.

Lemma read_words_np s w : forall n br tl, 0 <= w -> w * Z.of_nat n <= len br -> np (read_words s w n br tl).
Proof.
  induction n as [|n IH]; intros br tl Hw H; cbn [read_words]; [exact I|].
  rewrite Nat2Z.inj_succ, Z.mul_succ_r in H.
  pose proof (Z.mul_nonneg_nonneg w (Z.of_nat n) Hw ltac:(lia)) as Hnn.
  rewrite slc_eq by lia. cbn [obind]. rewrite from_eq by lia. cbn [obind].
  apply np_bind; [|intros r _; exact I].
  apply IH; [exact Hw|]. rewrite len_skipn by lia. lia.
Qed.

Lemma read_words_rest s w : forall n br tl r, 0 <= w -> w * Z.of_nat n <= len br ->
  read_words s w n br tl = Ok r -> len (snd r) = len br - w * Z.of_nat n.
Proof.
  induction n as [|n IH]; intros br tl r Hw H; cbn [read_words].
  - intros E. injection E as <-. cbn [snd]. lia.
  - rewrite Nat2Z.inj_succ, Z.mul_succ_r in H. rewrite Nat2Z.inj_succ, Z.mul_succ_r.
    pose proof (Z.mul_nonneg_nonneg w (Z.of_nat n) Hw ltac:(lia)) as Hnn.
    rewrite slc_eq by lia. cbn [obind]. rewrite from_eq by lia. cbn [obind].
    destruct (read_words s w n (skipn (Z.to_nat w) br) tl) as [r'| |] eqn:E; cbn [obind]; try discriminate.
    intros E2. injection E2 as <-. cbn [snd].
    assert (HH : w * Z.of_nat n <= len (skipn (Z.to_nat w) br)) by (rewrite len_skipn by lia; lia).
    rewrite (IH _ _ _ Hw HH E). rewrite len_skipn by lia. lia.
Qed.

Section Decoders.
Variables (data tl : list Z).
Hypothesis Hb : bytes_ok data.

Lemma dec_init_np : np (dec_init true data tl).
Proof.
  unfold dec_init. pose proof (chunk_hdr_np data) as Hn.
  destruct (chunk_hdr data) as [c| |] eqn:Hc; cbn [obind andb]; [|exact I|exact Hn].
  destruct (chunk_hdr_ok data c Hc) as (H1 & H2 & H3 & H4).
  destruct (c_len c <? 20) eqn:H20; [exact I|].
  repeat (apply np_bind; [apply field_np; lia | intros ? _]).
  apply np_bind; [apply slc_np; lia | intros pd _].
  apply np_bind; [apply params_np; lia | intros ps _]. exact I.
Qed.

Lemma dec_sack_np : np (dec_sack true data tl).
Proof.
  unfold dec_sack. pose proof (chunk_hdr_np data) as Hn.
  destruct (chunk_hdr data) as [c| |] eqn:Hc; cbn [obind andb]; [|exact I|exact Hn].
  destruct (chunk_hdr_ok data c Hc) as (H1 & H2 & H3 & H4).
  destruct (c_len c <? 16) eqn:H16; [exact I|].
  apply np_bind; [apply field_np; lia | intros cum _].
  apply np_bind; [apply field_np; lia | intros arw _].
  apply np_bind; [apply field_np; lia | intros ng Hng].
  apply np_bind; [apply field_np; lia | intros nd Hnd].
  apply field_nonneg in Hng; [|exact Hb|lia|lia]. apply field_nonneg in Hnd; [|exact Hb|lia|lia].
  destruct (c_len c <? 16 + 2 * ng + 4 * nd) eqn:Hcnt; [exact I|].
  rewrite from_eq by lia. cbn [obind].
  assert (Hbr : len (skipn (Z.to_nat 16) data) = len data - 16) by (apply len_skipn; lia).
  apply np_bind; [apply read_words_np; lia | intros gs Hgs].
  apply read_words_rest in Hgs; [|lia|lia].
  apply np_bind; [apply read_words_np; lia | intros ds _]. exact I.
Qed.

Lemma dec_params_np mk : np (dec_params true mk data tl).
Proof.
  unfold dec_params. pose proof (chunk_hdr_np data) as Hn.
  destruct (chunk_hdr data) as [c| |] eqn:Hc; cbn [obind]; [|exact I|exact Hn].
  destruct (chunk_hdr_ok data c Hc) as (H1 & H2 & H3 & H4).
  apply np_bind; [apply slc_np; lia | intros pd _].
  apply np_bind; [apply params_np; lia | intros ps _]. exact I.
Qed.

Lemma dec_shutdown_np : np (dec_shutdown true data tl).
Proof.
  unfold dec_shutdown. pose proof (chunk_hdr_np data) as Hn.
  destruct (chunk_hdr data) as [c| |] eqn:Hc; cbn [obind andb]; [|exact I|exact Hn].
  destruct (chunk_hdr_ok data c Hc) as (H1 & H2 & H3 & H4).
  destruct (c_len c <? 8) eqn:H8; [exact I|].
  apply np_bind; [apply field_np; lia | intros tsn _]. exact I.
Qed.

Lemma dec_cookie_np : np (dec_cookie data tl).
Proof.
  unfold dec_cookie. pose proof (chunk_hdr_np data) as Hn.
  destruct (chunk_hdr data) as [c| |] eqn:Hc; cbn [obind]; [|exact I|exact Hn].
  destruct (chunk_hdr_ok data c Hc) as (H1 & H2 & H3 & H4).
  apply np_bind; [apply slc_np; lia | intros ck _]. exact I.
Qed.

Lemma dec_data_np : np (dec_data data).
Proof.
  unfold dec_data. destruct (len data <? 4); [exact I|]. destruct (_ <? 16); [exact I|].
  destruct (len data <? _); exact I.
Qed.

Lemma hdr_only_np (mk : chdr -> chunk) : np (c <- chunk_hdr data ;; Ok (mk c)).
Proof. pose proof (chunk_hdr_np data). destruct (chunk_hdr data); cbn [obind]; auto; exact I. Qed.

Lemma dec_chunk_np : np (dec_chunk true data tl).
Proof.
  unfold dec_chunk. cbv zeta.
  repeat (match goal with |- np (if ?c then _ else _) => destruct c end);
    auto using dec_data_np, dec_init_np, dec_sack_np, dec_params_np, dec_shutdown_np, dec_cookie_np, hdr_only_np.
  exact I.
Qed.
End Decoders.

(* the next decoder runs on a proper suffix: at least 4 bytes are consumed *)
Ltac inv_binds H :=
  repeat (match type of H with
          | (if ?c then _ else _) = Ok _ => destruct c eqn:?; try discriminate H
          | obind ?o _ = Ok _ => destruct o eqn:?; cbn [obind] in H; try discriminate H
          end).

Lemma dec_chunk_suffix g data tl ch : dec_chunk g data tl = Ok ch ->
  exists k, 4 <= k <= len data /\ c_payload (chunk_hdr_of ch) = skipn (Z.to_nat k) data.
Proof.
  assert (Hh : forall c, chunk_hdr data = Ok c ->
            exists k, 4 <= k <= len data /\ c_payload c = skipn (Z.to_nat k) data).
  { intros c Hc. destruct (chunk_hdr_ok data c Hc) as (H1 & H2 & H3 & H4). exists (c_actual c). split; [lia|exact H4]. }
  unfold dec_chunk. cbv zeta. intros H.
  destruct (nth 0 data 0 =? 0).
  { unfold dec_data in H. inv_binds H. injection H as <-. cbn [chunk_hdr_of c_payload].
    pose proof (roundup4_bounds (be_val (slice data 2 4))). eexists. split; [|reflexivity]. lia. }
  destruct (mem_z _ [1; 2]).
  { unfold dec_init in H. inv_binds H. injection H as <-. cbn [chunk_hdr_of]. auto. }
  destruct (nth 0 data 0 =? 3).
  { unfold dec_sack in H. inv_binds H. injection H as <-. cbn [chunk_hdr_of]. auto. }
  destruct (mem_z _ [4; 5]).
  { unfold dec_params in H. inv_binds H. injection H as <-. cbn [chunk_hdr_of]. auto. }
  destruct (mem_z _ [6; 9]).
  { unfold dec_params in H. inv_binds H. injection H as <-. cbn [chunk_hdr_of]. auto. }
  destruct (nth 0 data 0 =? 7).
  { unfold dec_shutdown in H. inv_binds H. injection H as <-. cbn [chunk_hdr_of]. auto. }
  destruct (nth 0 data 0 =? 8).
  { inv_binds H. injection H as <-. cbn [chunk_hdr_of]. auto. }
  destruct (nth 0 data 0 =? 10).
  { unfold dec_cookie in H. inv_binds H. injection H as <-. cbn [chunk_hdr_of]. auto. }
  destruct (mem_z _ [11; 14]).
  { inv_binds H. injection H as <-. cbn [chunk_hdr_of]. auto. }
  discriminate.
Qed.

Lemma walk_np : forall fuel data tl acc, bytes_ok data -> (length data < fuel)%nat ->
  np (snd (walk true fuel data tl acc)).
Proof.
  induction fuel as [|fuel IH]; intros data tl acc Hb Hf; [lia|].
  cbn [walk]. destruct (len data =? 0); [exact I|]. destruct (len data <? 4); [exact I|].
  pose proof (dec_chunk_np data tl Hb) as Hn.
  destruct (dec_chunk true data tl) as [ch|c|s] eqn:Hd; [|exact I|exact Hn].
  destruct (dec_chunk_suffix true data tl ch Hd) as (k & Hk & Hp). rewrite Hp.
  apply IH; [apply Forall_skipn, Hb|]. rewrite skipn_length. unfold len in *. lia.
Qed.

Lemma sctp_packet_np data extra : bytes_ok data -> np (snd (sctp_packet true data extra)).
Proof.
  intros Hb. unfold sctp_packet, sdecode_into.
  destruct (len data <? 12); [exact I|]. cbn [s_payload snd fst].
  apply walk_np; [apply Forall_skipn, Hb|lia].
Qed.

(* ------------------------------------------------------------------ common header *)
Lemma sdecode_fresh old data :
  snd (sdecode_into old data) = snd (sdecode_into sctp0 data) /\
  (snd (sdecode_into old data) = Ok tt -> sdecode_into old data = sdecode_into sctp0 data).
Proof. unfold sdecode_into. destruct (len data <? 12); split; try reflexivity. discriminate. Qed.

Lemma sdecode_np old data : np (snd (sdecode_into old data)).
Proof. unfold sdecode_into. destruct (len data <? 12); exact I. Qed.

Lemma le_bytes_length n x : length (le_bytes n x) = n.
Proof. revert x; induction n as [|n IH]; intros x; cbn [le_bytes length]; [reflexivity|]. rewrite IH. reflexivity. Qed.

Definition shdr_bytes (s : sctp) (cs : bool) (payload : list Z) : list Z :=
  be_bytes 2 (s_sp s) ++ be_bytes 2 (s_dp s) ++ be_bytes 4 (s_vtag s) ++
  (if cs then le_bytes 4 (crc32c (be_bytes 2 (s_sp s) ++ be_bytes 2 (s_dp s) ++ be_bytes 4 (s_vtag s) ++ [0; 0; 0; 0] ++ payload))
   else be_bytes 4 (s_sum s)).

Lemma sser_spec s payload cs junk : sserialize true s payload cs junk = Ok (shdr_bytes s cs payload ++ payload).
Proof.
  unfold sserialize, shdr_bytes.
  set (buf0 := resize junk 12). assert (Hl : length buf0 = 12%nat) by apply resize_length.
  change buf0 with ([] ++ buf0).
  rewrite put_at by (unfold len; rewrite ?app_length, ?be_bytes_length, ?Hl; cbn [length]; lia).
  cbn [obind app]. rewrite be_bytes_length.
  rewrite put_at by (unfold len; rewrite ?app_length, ?skipn_length, ?be_bytes_length, ?Hl; cbn [length]; lia).
  cbn [obind]. rewrite be_bytes_length, skipn_skipn'. rewrite app_assoc.
  rewrite put_at by (unfold len; rewrite ?app_length, ?skipn_length, ?be_bytes_length, ?Hl; cbn [length]; lia).
  cbn [obind]. rewrite be_bytes_length, skipn_skipn'. cbn [Nat.add]. rewrite app_assoc.
  destruct cs.
  - rewrite put_at by (unfold len; rewrite ?app_length, ?skipn_length, ?be_bytes_length, ?Hl; cbn [length]; lia).
    cbn [obind length]. rewrite skipn_skipn'. cbn [Nat.add].
    rewrite (skipn_all2 buf0) by lia. rewrite app_nil_r.
    rewrite put_at by (unfold len; rewrite ?app_length, ?le_bytes_length, ?be_bytes_length; cbn [length]; lia).
    cbn [obind]. rewrite le_bytes_length. cbn [skipn]. rewrite app_nil_r.
    rewrite <- !app_assoc. reflexivity.
  - rewrite put_at by (unfold len; rewrite ?app_length, ?skipn_length, ?be_bytes_length, ?Hl; cbn [length]; lia).
    cbn [obind]. rewrite be_bytes_length, skipn_skipn'. cbn [Nat.add].
    rewrite (skipn_all2 buf0) by lia. rewrite app_nil_r. rewrite <- !app_assoc. reflexivity.
Qed.

Definition sctp_wf (s : sctp) : Prop :=
  0 <= s_sp s < 65536 /\ 0 <= s_dp s < 65536 /\ 0 <= s_vtag s < 4294967296.

Lemma sdecode_ser s cs payload : sctp_wf s ->
  exists sum, sdecode_into sctp0 (shdr_bytes s cs payload ++ payload) =
    ({| s_sp := s_sp s; s_dp := s_dp s; s_vtag := s_vtag s; s_sum := sum;
        s_sport := be_bytes 2 (s_sp s); s_dport := be_bytes 2 (s_dp s);
        s_contents := shdr_bytes s cs payload; s_payload := payload |}, Ok tt).
Proof.
  intros (Hsp & Hdp & Hv).
  set (ck := if cs then le_bytes 4 (crc32c (be_bytes 2 (s_sp s) ++ be_bytes 2 (s_dp s) ++ be_bytes 4 (s_vtag s) ++ [0; 0; 0; 0] ++ payload))
             else be_bytes 4 (s_sum s)).
  assert (Hck : length ck = 4%nat) by (unfold ck; destruct cs; [apply le_bytes_length|apply be_bytes_length]).
  assert (HH : shdr_bytes s cs payload = be_bytes 2 (s_sp s) ++ be_bytes 2 (s_dp s) ++ be_bytes 4 (s_vtag s) ++ ck) by reflexivity.
  rewrite HH. clearbody ck.
  destruct ck as [|c0 [|c1 [|c2 [|c3 [|]]]]]; try discriminate.
  exists (be_val [c0; c1; c2; c3]).
  set (H12 := be_bytes 2 (s_sp s) ++ be_bytes 2 (s_dp s) ++ be_bytes 4 (s_vtag s) ++ [c0; c1; c2; c3]).
  set (data := H12 ++ payload).
  assert (Hl : length H12 = 12%nat) by (unfold H12; rewrite !app_length, !be_bytes_length; reflexivity).
  assert (S0 : slice data 0 2 = be_bytes 2 (s_sp s)) by reflexivity.
  assert (S2 : slice data 2 4 = be_bytes 2 (s_dp s)) by reflexivity.
  assert (S4 : slice data 4 8 = be_bytes 4 (s_vtag s)) by reflexivity.
  assert (S8 : slice data 8 12 = [c0; c1; c2; c3]) by reflexivity.
  assert (Hf : firstn 12 data = H12) by (apply firstn_app_exact; lia).
  assert (Hs : skipn 12 data = payload) by (apply skipn_app_exact; lia).
  assert (Hd : (len data <? 12) = false).
  { unfold data, len. rewrite app_length, Hl. lia. }
  clearbody data. unfold sdecode_into. rewrite Hd, S0, S2, S4, S8, Hf, Hs.
  rewrite !be_val_be_bytes by (cbn; lia). reflexivity.
Qed.
