(* Ldot11 — proofs about the 802.11 MAC header model: decoder safety, fresh = reused, serializer safety and junk freedom. *)
From GP Require Import Base ListX Codec MiscLib Ldot11Model.
From Coq Require Import Lia ZifyBool ZifyNat.
Open Scope Z_scope.

Ltac d11_step :=
  cbn [ml_bind obind fst snd is_panic] in *;
  match goal with
  | |- context [cd_idx ?d ?i] => rewrite (cd_idx_ok d i) by lia
  | |- context [cd_slc ?d ?a ?b] => rewrite (cd_slc_ok d a b) by lia
  | |- context [if ?c then _ else _] => destruct c eqn:?
  end.

Lemma d11_tail_np old data ty proto flags dur a1 a2 a3 a4 seq frag q h off : 0 <= off ->
  is_panic (snd (fst (d11_tail old data ty proto flags dur a1 a2 a3 a4 seq frag q h off))) = false.
Proof. intros H. unfold d11_tail, d11_le32. repeat d11_step; reflexivity. Qed.

Lemma d11_htc_stage_np old data ty proto flags dur a1 a2 a3 a4 seq frag q off : 0 <= off ->
  is_panic (snd (fst (d11_htc_stage old data ty proto flags dur a1 a2 a3 a4 seq frag q off))) = false.
Proof.
  intros H. unfold d11_htc_stage.
  destruct (bitb flags 7 && (d11_is_qos ty || (ty mod 4 =? 0))); [|apply d11_tail_np; lia].
  destruct (zlen data <? off + 4) eqn:E; [reflexivity|].
  rewrite !cd_idx_ok by lia. cbn [ml_bind]. apply d11_tail_np; lia.
Qed.

Lemma d11_qos_stage_np old data ty proto flags dur a1 a2 a3 a4 seq frag off : 0 <= off ->
  is_panic (snd (fst (d11_qos_stage old data ty proto flags dur a1 a2 a3 a4 seq frag off))) = false.
Proof.
  intros H. unfold d11_qos_stage.
  destruct (d11_is_qos ty); [|apply d11_htc_stage_np; lia].
  destruct (zlen data <? off + 2) eqn:E; [reflexivity|].
  rewrite !cd_idx_ok by lia. cbn [ml_bind]. apply d11_htc_stage_np; lia.
Qed.

Lemma d11_a4_stage_np old data ty proto flags dur a1 a2 a3 seq frag off : 0 <= off ->
  is_panic (snd (fst (d11_a4_stage old data ty proto flags dur a1 a2 a3 seq frag off))) = false.
Proof.
  intros H. unfold d11_a4_stage.
  destruct ((ty mod 4 =? 2) && bitb flags 1 && bitb flags 0); [|apply d11_qos_stage_np; lia].
  destruct (zlen data <? off + 6) eqn:E; [reflexivity|].
  rewrite cd_slc_ok by lia. cbn [ml_bind]. apply d11_qos_stage_np; lia.
Qed.

Lemma d11_addr_stage_np old data ty proto flags dur a1 : 10 <= zlen data ->
  is_panic (snd (fst (d11_addr_stage old data ty proto flags dur a1))) = false.
Proof.
  intros H. unfold d11_addr_stage, d11_le16.
  destruct (ty mod 4 =? 1).
  - destruct (d11_ctrl_a2 ty); [|apply d11_a4_stage_np; lia].
    destruct (zlen data <? 16) eqn:E; [reflexivity|]. rewrite cd_slc_ok by lia. cbn [ml_bind]. apply d11_a4_stage_np; lia.
  - destruct ((ty mod 4 =? 0) || (ty mod 4 =? 2)); [|apply d11_a4_stage_np; lia].
    destruct (zlen data <? 24) eqn:E; [reflexivity|].
    repeat (first [rewrite cd_idx_ok by lia | rewrite cd_slc_ok by lia]; cbn [ml_bind obind]). apply d11_a4_stage_np; lia.
Qed.

Theorem d11_decode_no_panic old data : is_panic (snd (fst (d11_decode_into old data))) = false.
Proof.
  unfold d11_decode_into, d11_le16. destruct (zlen data <? 10) eqn:E; [reflexivity|].
  repeat (first [rewrite cd_idx_ok by lia | rewrite cd_slc_ok by lia]; cbn [ml_bind obind]). apply d11_addr_stage_np. lia.
Qed.

(* ---------------------------------------------------------------- C05 *)
Ltac d11_case :=
  match goal with
  | |- context [match ?x with _ => _ end] =>
    match x with context [d11_fresh] => fail 1 | _ => destruct x eqn:? end
  end.

Theorem d11_decode_fresh old data :
  let r1 := d11_decode_into old data in
  let r2 := d11_decode_into d11_fresh data in
  snd (fst r1) = snd (fst r2) /\ snd r1 = snd r2 /\ (snd (fst r1) = Ok tt -> fst (fst r1) = fst (fst r2)).
Proof.
  cbv zeta. unfold d11_decode_into, d11_addr_stage, d11_a4_stage, d11_qos_stage, d11_htc_stage, d11_tail, ml_bind.
  repeat (d11_case; cbn [fst snd]); repeat split; try reflexivity; intros; try discriminate.
Qed.

(* ---------------------------------------------------------------- serializer *)
Lemma map_zero_repeat (l : list Z) : map (fun _ => 0) l = repeat 0 (length l).
Proof. induction l; cbn; [reflexivity|f_equal; assumption]. Qed.

Lemma d11_hdr_len_nonneg l : 10 <= d11_hdr_len l <= 30.
Proof.
  unfold d11_hdr_len.
  destruct (d_type l mod 4 =? 1), (d11_ctrl_a2 (d_type l)), ((d_type l mod 4 =? 0) || (d_type l mod 4 =? 2)),
    ((d_type l mod 4 =? 2) && bitb (d_flags l) 1 && bitb (d_flags l) 0); lia.
Qed.

Lemma d11_zeroed l junk : map (fun _ => 0) (cd_region (d11_hdr_len l) junk) = repeat 0 (Z.to_nat (d11_hdr_len l)).
Proof.
  rewrite map_zero_repeat. f_equal. pose proof (d11_hdr_len_nonneg l).
  pose proof (cd_region_length (d11_hdr_len l) junk ltac:(lia)) as L. unfold zlen in L. lia.
Qed.

Theorem d11_serialize_junk_free l payload fixl csum junk1 junk2 :
  d11_serialize l payload fixl csum junk1 = d11_serialize l payload fixl csum junk2.
Proof. unfold d11_serialize. rewrite !d11_zeroed. reflexivity. Qed.

Lemma zlen_firstn6 (a : list Z) : zlen (firstn 6 a) <= 6.
Proof. unfold zlen. rewrite firstn_length. lia. Qed.

Lemma d11_copy6_ok buf off a : 0 <= off -> off + 6 <= zlen buf ->
  d11_copy6 buf off a = Ok (cd_wr buf off (firstn 6 a)).
Proof.
  intros. unfold d11_copy6. rewrite cd_slc_ok by lia. cbn [obind].
  pose proof (zlen_firstn6 a). pose proof (zlen_nonneg (firstn 6 a)). rewrite ml_wrc_ok by lia. reflexivity.
Qed.

Lemma zlen_repeat0 n : zlen (repeat 0 n) = Z.of_nat n.
Proof. unfold zlen. rewrite repeat_length. reflexivity. Qed.

Ltac ser_len := rewrite ?cd_wr_length, ?zlen_repeat0; try lia.

Theorem d11_serialize_no_panic l payload fixl csum junk :
  is_panic (fst (d11_serialize l payload fixl csum junk)) = false.
Proof.
  unfold d11_serialize. rewrite d11_zeroed.
  pose proof (d11_hdr_len_nonneg l) as HL. unfold d11_hdr_len in *.
  set (c1 := d_type l mod 4 =? 1) in *. set (c2 := d11_ctrl_a2 (d_type l)) in *.
  set (c3 := (d_type l mod 4 =? 0) || (d_type l mod 4 =? 2)) in *.
  set (c4 := (d_type l mod 4 =? 2) && bitb (d_flags l) 1 && bitb (d_flags l) 0) in *.
  set (len := 10 + _ + _) in *.
  rewrite ml_wrc_ok by (ser_len; cbn; lia). cbn [obind].
  rewrite cd_slc_ok by (ser_len). cbn [obind].
  rewrite ml_wrc_ok by (ser_len; cbn; lia). cbn [obind].
  rewrite d11_copy6_ok by (ser_len). cbn [obind].
  destruct c1, c2, c3, c4; unfold len; cbn [obind fst snd];
    repeat (first [rewrite d11_copy6_ok by (ser_len) | rewrite cd_slc_ok by (ser_len) | rewrite ml_wrc_ok by (ser_len; cbn; lia)]; cbn [obind fst snd]);
    reflexivity.
Qed.
